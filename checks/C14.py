#!/usr/bin/env python3
"""C14 - PIL to time conversion picks the right year and instant and leaves TZ alone.

Ops (see harness/pdc_harness.c): valid, lto, ltowin, totime, win, settz, limits; round 5: every call prints
` errno=<n>` (errno is 4242 before the call), ops on the file-local functions vlto, vltowin, ltz and on the public
vbi_pty_validity_window (pty), errnos, wdtest.  The harness is a supervisor + worker pair: a hang or sanitizer abort
of an op is one output line `crash <kind> <report>`, judged by the oracle as a violation of that op.
The model's `Zone` parameter is concrete (days-from-civil) for UTC and fixed-offset zones; for
every other TZ value libc's localtime_r/mktime answers are recorded from the harness in a pre-pass
(op prefix `rec`) and handed to the model on the op line (`tab:`).
The oracle recomputes the property with Python's datetime/zoneinfo, independently of the model.
"""
import datetime, json, os, subprocess, sys
sys.path.insert(0, os.path.join(os.path.dirname(os.path.abspath(__file__)), "..", "lib"))
import verif

try:
    import zoneinfo
except ImportError:                                    # pragma: no cover
    zoneinfo = None

WRAP = "-Wl,--wrap=strdup,--wrap=free,--wrap=setenv,--wrap=time,--wrap=localtime_r,--wrap=gmtime_r,--wrap=mktime,--wrap=tzset,--wrap=unsetenv"
TIME_MAX = 2 ** 63 - 1
TIME_MIN = -2 ** 63
MDAYS = [31, 29, 31, 30, 31, 30, 31, 31, 30, 31, 30, 31]
NSPV = (15 << 15) | (15 << 11) | (31 << 6) | 63
SERVICE = {(0 << 15) | (15 << 11) | (h << 6) | 63 for h in (28, 29, 30, 31)}
EPOCH = datetime.datetime(1970, 1, 1)
E0 = 4242                                              # errno before every call (harness)
E_NO_TIME, E_INVALID_PIL = 0x7081900, 0x7081901        # enum in src/pdc.c, cross-checked by the `errnos` op
import errno as _errno
E_OVERFLOW, E_NOMEM = _errno.EOVERFLOW, _errno.ENOMEM
ERRNAME = {0: "0", E0: "untouched", E_NO_TIME: "VBI_ERR_NO_TIME", E_INVALID_PIL: "VBI_ERR_INVALID_PIL", E_OVERFLOW: "EOVERFLOW", E_NOMEM: "ENOMEM"}

def hx(s): return "".join("%02x" % b for b in s.encode("latin-1")) or "-"
def unhx(h): return "" if h == "-" else bytes.fromhex(h).decode("latin-1")
def pil(m, d, h, mi): return (d << 15) | (m << 11) | (h << 6) | mi
def fields(p): return ((p >> 11) & 15, (p >> 15) & 31, (p >> 6) & 31, p & 63)
def is_leap(y): return y % 4 == 0 and (y % 100 != 0 or y % 400 == 0)
def utc(y, m, d, h=0, mi=0, s=0):
    """seconds since the epoch of a civil UTC time, years 1..9999 (datetime; independent of the model)"""
    return int((datetime.datetime(y, m, d, h, mi, s) - EPOCH).total_seconds())
def civil(t):
    """datetime of t (UTC), or None outside years 2..9998"""
    if not (-62100000000 < t < 253300000000): return None
    return EPOCH + datetime.timedelta(seconds=t)

# --- time zones ------------------------------------------------------------------------------
FIXED = {"UTC": 0, "AAA-1": 3600, "BBB+5": -18000, "<+0530>-5:30": 19800, "XYZ-14": 50400, "WWW+12": -43200,
         "QQQ-0:00:01": 1, "RRR+0:00:01": -1, "EEE-3:07:09": 11229}
NAMED = ["Europe/Berlin", "America/New_York", "Australia/Sydney", "Europe/London", "Asia/Kolkata", "Pacific/Apia",
         "America/St_Johns", "Asia/Kathmandu", "Pacific/Chatham"]
OTHER = ["CET-1CEST,M3.5.0,M10.5.0/3", ":Europe/Paris", "", "A=B", "=", "no such zone!", "Z" * 300, "UTC0", "utc"]
# ambient/tz pairs used when the restoring setenv is made to fail: libc's visible state differs pairwise
DISTINCT = ["AAA-1", "BBB+5", "Europe/Berlin", "America/New_York", "XYZ-14"]

def zone_token(tzname):
    """model zone descriptor for the TZ value `tzname` (None = unset)"""
    if tzname is not None and tzname in FIXED:
        return "utc" if tzname == "UTC" else "fix:%d" % FIXED[tzname]
    return "tab:?"

def ref_times(rng):
    """boundary-heavy reference times"""
    out = [0, 1, -2, 59, 3599, 3600, 3601, -3600, -3601, 14399, 14400, 86399, 86400, -86400, 2 ** 31 - 1, 2 ** 31, 2 ** 31 - 3600,
           -2 ** 31, 2 ** 32, 10 ** 9, 1234567890]
    for y in (1969, 1970, 1971, 1999, 2000, 2001, 2023, 2024, 2025, 2037, 2038, 2039, 2100, 2400, 1900, 1600, 9998, 2, 1582):
        for (m, d, h, mi, s) in ((1, 1, 0, 0, 0), (12, 31, 23, 59, 59), (2, 28, 12, 0, 0), (3, 1, 0, 0, 0), (6, 30, 23, 59, 59),
                                 (7, 1, 0, 0, 0), (rng.randrange(1, 13), rng.randrange(1, 29), rng.randrange(24), rng.randrange(60), rng.randrange(60))):
            out.append(utc(y, m, d, h, mi, s))
        if is_leap(y): out.append(utc(y, 2, 29, 13, 0, 0))
    # DST changes 2024 (Europe, US, Australia)
    for (y, m, d, h) in ((2024, 3, 31, 1), (2024, 10, 27, 1), (2024, 3, 10, 7), (2024, 11, 3, 6), (2024, 4, 6, 16), (2024, 10, 5, 16), (2011, 12, 30, 10)):
        out += [utc(y, m, d, h) - 1, utc(y, m, d, h), utc(y, m, d, h) + 3600]
    return out

# glibc's gmtime_r/localtime_r limits: tm_year must fit int
EXTREME = [TIME_MAX, TIME_MAX - 1, TIME_MIN, TIME_MIN + 1, 67767976233532799, 67767976233532800, 67768036191676799, 67768036191676800,
           -67768040609740800, -67768040609740801, -67768100567971200, -67768100567971201, 67767976233532799 - 86400 * 200,
           -67768040609740800 + 86400 * 200, -62135596800, -62135596801, -62167219200, -62167219201, 253402300799, 253402300800,
           -65000000000, -62200000000, 10 ** 15, -10 ** 15]

INJ = ["strdup1", "setenv1", "setenv2", "time1", "localtime1", "gmtime1", "mktime1", "mktime2", "setenv1,mktime1", "mktime1,setenv2",
       "strdup1,setenv1", "localtime1,setenv2", "time1,setenv2", "setenv3", "strdup2", "gmtime2"]

class C14(verif.Spec):
    prop = "C14"
    comp = "pdc"
    lean_modules = ["ZvbiModel.Props.C14", "ZvbiModel.Props.C14Errno"]
    harness = "pdc_harness"
    harness_link_lib = False        # the harness includes src/pdc.c; its only outside reference is stubbed
    harness_extra = [WRAP]
    timeout_per_case = 5.0
    partial_note = ("libc is a parameter: theorems are proved for every `Zone` satisfying the stated mktime/localtime laws and, "
                    "unconditionally, for the concrete fixed-offset calendar; for named DST zones glibc's mktime rule "
                    "(`Zone.FollowsOffsets`, gap/overlap explicit) is a hypothesis validated against libc on every run; window lengths in "
                    "DST zones are judged by the zoneinfo oracle only.  Thread safety is not modelled.")
    assumptions = ["time_t is 64 bit, int is 32 bit (checked by the `limits` op on every run)",
                   "libc zones follow `Zone.FollowsOffsets` (mktime with tm_isdst = -1: hit/overlap/gap rule) - validated on every run by "
                   "`mkrule` probes over the zones of RULE_ZONES present in /usr/share/zoneinfo, statistics in coverage.libc_mktime_rule",
                   "glibc semantics: localtime_r uses the zone of the last tzset(), mktime calls tzset(); setenv fails only with ENOMEM",
                   "errno: libc is normalised by the interposers of the harness (a successful libc call leaves errno as it was; failing strdup/setenv "
                   "ENOMEM, localtime_r/gmtime_r/mktime EOVERFLOW, mktime returning -1 counts as failing; time() fails without errno) - "
                   "what libc leaves in errno after a successful call is not specified by POSIX and not part of the property; "
                   "VBI_VERSION_MINOR is 2 (regenerated; the 0.2 API resets errno in the public functions)",
                   "the year of the reference time is >= 0 (is_leap_year works on the unsigned year) and tm_year + 1900 does not overflow int"]
    trusted_base = ["translate/gen_pdc.py (month_days, HAVE_TIMEGM, shape of the three epoch guards, errno constants and the sequence of "
                    "errno assignments per function)",
                    "harness/pdc_harness.c (includes src/pdc.c, link-time interposition of libc, supervisor/worker watchdog) + lean/Driver/Pdc.lean",
                    "oracle: Python datetime / zoneinfo as the independent calendar"]
    open_statements = []

    # ---------------- generation ----------------
    def hexe(self):
        exe, err = verif.build_harness(self.harness, link_lib=self.harness_link_lib, extra=self.harness_extra)
        if exe is None:
            raise RuntimeError("harness build failed: " + err)
        return exe

    def fill_tables(self, cases):
        """replace `tab:?` by the libc answers recorded from the harness"""
        if not any("tab:?" in l for c in cases for l in c):
            return cases
        rc = [[("rec " + l) if "tab:?" in l else l for l in c] for c in cases]
        out, inc = verif.run_side([self.hexe()], rc, self.timeout_per_case)
        res = []
        for i, c in enumerate(cases):
            o = out.get(i, [])
            nc = []
            for j, l in enumerate(c):
                if "tab:?" in l:
                    tab = "-"
                    if j < len(o) and " rec=" in o[j]:
                        tab = o[j].split(" rec=")[1].strip()
                    l = l.replace("tab:?", "tab:" + tab)
                nc.append(l)
            res.append(nc)
        return res

    def tz_op(self, rng, kind, p, start, tz, ambient, now, inj):
        eff = ambient if tz is None else tz
        return "%s %d %d %s %s %d %s" % (kind, p, start, "NULL" if tz is None else hx(tz), zone_token(eff), now, inj)

    def rand_pil(self, rng):
        k = rng.random()
        if k < 0.70:
            m = rng.randrange(1, 13)
            d = rng.choice([1, 15, 28, 29, 30, 31, MDAYS[m - 1], rng.randrange(1, 29)])
            d = min(d, MDAYS[m - 1])
            return pil(m, d, rng.choice([0, 3, 4, 12, 23, rng.randrange(24)]), rng.choice([0, 59, rng.randrange(60)]))
        if k < 0.78: return pil(2, 29, rng.randrange(24), rng.randrange(60))
        if k < 0.84: return rng.choice(sorted(SERVICE) + [NSPV, NSPV])
        if k < 0.92: return pil(rng.randrange(16), rng.randrange(32), rng.randrange(32), rng.randrange(64))
        if k < 0.96: return rng.randrange(1 << 20)
        return rng.randrange(1 << 32)

    def gen_cases(self, rng, tier):
        quick = tier == "quick"
        N = 5000 if quick else 100000
        refs = ref_times(rng)
        cases = []
        # 0. constants
        cases.append(["limits"])
        # 1. vbi_pil_is_valid_date: every month/day, boundary hours/minutes (thorough: all 2^20 PILs)
        if quick:
            c = ["valid %d" % pil(m, d, h, mi) for m in range(16) for d in range(32) for h in (0, 23, 24, 31) for mi in (0, 59, 60, 63)]
            c += ["valid %d" % rng.randrange(1 << 32) for _ in range(200)]
            cases.append(c)
        else:
            for base in range(0, 1 << 20, 1 << 14):
                cases.append(["valid %d" % p for p in range(base, base + (1 << 14))])
        # 2. offsets: lto / ltowin, ambient TZ unset or set, a few injections
        offs = [0, 3600, -3600, 7200, -18000, 19800, 50400, -43200, 86400, -86400, 1, -1, 59, 12345, -54321, 14 * 3600 + 1, 10 ** 6, -10 ** 6,
                2 ** 31 - 1, -2 ** 31 + 1]
        for _ in range(N):
            c = []
            amb = rng.choice([None, None, "AAA-1", "Europe/Berlin", "America/New_York", "UTC", ""])
            if amb is not None: c.append("settz " + hx(amb))
            for _ in range(6):
                p = self.rand_pil(rng)
                st = rng.choice(refs) if rng.random() < 0.8 else rng.randrange(-3 * 10 ** 9, 5 * 10 ** 9)
                if rng.random() < 0.05: st = rng.choice(EXTREME)
                if rng.random() < 0.06: st = -1
                if st > 6 * 10 ** 16 and (p >> 11) & 15 == 2: p ^= 1 << 11      # UB-year-overflow is a corpus replay, not a stream
                east = rng.choice(offs) if rng.random() < 0.85 else rng.randrange(-50400, 50401)
                now = rng.choice(refs)
                inj = "-"
                if rng.random() < 0.12:
                    inj = rng.choice(INJ)
                    if "setenv2" in inj and amb not in DISTINCT: inj = "mktime1"
                c.append("%s %d %d %d %d %s" % (rng.choice(["lto", "lto", "ltowin"]), p, st, east, now, inj))
                if "setenv2" in inj: break                    # TZ may stay changed: later zone tokens would be stale
            cases.append(c)
        # 3. zones: totime / win
        tzs = list(FIXED) + NAMED + OTHER
        for _ in range(N):
            c = []
            amb = rng.choice([None, None] + DISTINCT + ["UTC", "", "Europe/London"])
            if amb is not None: c.append("settz " + hx(amb))
            for _ in range(6):
                p = self.rand_pil(rng)
                st = rng.choice(refs) if rng.random() < 0.8 else rng.randrange(-3 * 10 ** 9, 5 * 10 ** 9)
                if rng.random() < 0.04: st = rng.choice(EXTREME)
                if rng.random() < 0.06: st = -1
                if st > 6 * 10 ** 16 and (p >> 11) & 15 == 2: p ^= 1 << 11
                tz = rng.choice(tzs) if rng.random() < 0.85 else None
                now = rng.choice(refs)
                inj = "-"
                if rng.random() < 0.15:
                    inj = rng.choice(INJ)
                    if "setenv2" in inj and not (amb in DISTINCT and tz in DISTINCT + ["UTC", "WWW+12"] and tz != amb): inj = "mktime1"
                c.append(self.tz_op(rng, rng.choice(["totime", "totime", "win"]), p, st, tz, amb, now, inj))
                if "setenv2" in inj: break
            cases.append(c)
        # 4. year inference sweep: every PIL month x reference month, day/offset carrying across midnight and new year
        c = []
        for y in ((2023, 2024) if quick else (1999, 2000, 2023, 2024, 2037, 2100)):
            for rm in range(1, 13):
                for pm in range(1, 13):
                    for (rd, rh) in ((1, 0), (MDAYS[rm - 1] if (rm != 2 or is_leap(y)) else 28, 23)):
                        east = rng.choice([0, 3600, -3600, 50400, -43200])
                        c.append("lto %d %d %d 0 -" % (pil(pm, rng.choice([1, 28]), rh, 30), utc(y, rm, rd, rh, 30), east))
        cases.append(c)
        # 4b. PIL sweep: every month/day (also unreal days) x boundary hours/minutes x reference times x offsets
        days = (1, 28, 29, 30, 31) if quick else range(0, 32)
        nref = 1 if quick else 25
        for m in range(1, 13):
            c = []
            for d in days:
                for h in (0, 3, 4, 23):
                    for mi in (0, 59):
                        for _ in range(nref):
                            c.append("%s %d %d %d 0 -" % (rng.choice(["lto", "ltowin"]), pil(m, d, h, mi), rng.choice(refs),
                                                          rng.choice([0, 3600, -3600, 50400, -43200, 19800])))
            cases.append(c)
        # 4c. results / window edges exactly at (time_t) -1 (the documented error value) and next to it
        c = []
        for k in (0, -1, 1, 60, -60, 240, -1440, 1440):
            east = 1 + 60 * k
            dt = EPOCH + datetime.timedelta(seconds=60 * k)
            for dmin in (-1, 0, 1):
                d2 = dt + datetime.timedelta(minutes=dmin)
                p = pil(d2.month, d2.day, d2.hour, d2.minute)
                for st in (0, 86400, -86400, 60 * k):
                    c.append("lto %d %d %d 0 -" % (p, st, east))
                    c.append("ltowin %d %d %d 0 -" % (p, st, east))
            for hh in (0, 3, 4, 20):
                c.append("ltowin %d 86400 1 0 -" % pil(1, 1, hh, 9))
                c.append("ltowin %d 86400 -14399 0 -" % pil(1, 1, hh, 9))
                c.append("win %d 86400 %s fix:1 0 -" % (pil(1, 1, hh, 9), hx("QQQ-0:00:01")))
                c.append("win %d 86400 %s fix:1 0 -" % (pil(1, 2, hh, 9), hx("QQQ-0:00:01")))
                c.append("totime %d 86400 %s fix:1 0 -" % (pil(1, 1, 0, 0), hx("QQQ-0:00:01")))
        cases.append(c)
        # 6. errno / error kinds (round 5): the file-local functions and vbi_pty_validity_window, every failure path
        cases.append(["errnos", "wdtest hang"])
        cases.append(["wdtest abort", "errnos"])
        big_e = [1, -1, 3600, -3600, 3601, -3599, 50400, -43200, 2 ** 31 - 1, -2 ** 31 + 1, -2 ** 31, 0]
        edge = [TIME_MAX, TIME_MAX - 1, TIME_MAX - 3600, TIME_MAX - 3601, TIME_MAX - 2 ** 31, TIME_MAX - 2 ** 31 + 1, TIME_MIN, TIME_MIN + 1,
                TIME_MIN + 3599, TIME_MIN + 3600, TIME_MIN + 2 ** 31 - 1, TIME_MIN + 2 ** 31, TIME_MIN + 2 ** 31 + 1]
        c = []
        for st in edge:                                     # guardIn: overflow near TIME_MIN / TIME_MAX, offsets of both signs
            for east in big_e:
                c.append("%s %d %d %d 0 -" % (rng.choice(["vlto", "lto", "vltowin"]), pil(rng.randrange(1, 13), 1, 12, 0), st, east))
        cases.append(c)
        c = []
        for st in EXTREME[4:12] + [67767976233532799 - 86400 * 100, -67768040609740800 + 86400 * 100]:   # int-year limits: gmtime_r / tm_year +-1
            for east in (0, 1, -1, 86400 * 40 if False else 2 ** 31 - 1, -2 ** 31 + 1):
                for m in (1, 12, 6, 7):
                    c.append("%s %d %d %d 0 -" % (rng.choice(["vlto", "vltowin"]), pil(m, 1, 0, 0), st, east))
        cases.append(c)
        VINJ = ["-", "-", "time1", "gmtime1", "mktime1", "strdup1", "setenv1", "setenv2", "mktime1,setenv2", "strdup1,setenv1", "gmtime2", "time2"]
        for _ in range(N // 10):
            c = []
            amb = rng.choice([None, None, "AAA-1", "Europe/Berlin", "BBB+5", "UTC"])
            if amb is not None: c.append("settz " + hx(amb))
            for _ in range(8):
                k = rng.random()
                if k < 0.2: p = pil(2, 29, rng.choice([0, 3, 4, 23]), rng.choice([0, 59]))
                else:
                    m = rng.randrange(1, 13); p = pil(m, rng.randrange(1, MDAYS[m - 1] + 1), rng.choice([0, 3, 4, 12, 23]), rng.choice([0, 30, 59]))
                st = rng.choice(refs) if rng.random() < 0.75 else rng.randrange(-3 * 10 ** 9, 5 * 10 ** 9)
                if rng.random() < 0.25: st = -1
                east = rng.choice(offs)
                now = rng.choice(refs + [-1])
                inj = rng.choice(VINJ)
                if "setenv2" in inj and amb not in DISTINCT: inj = "mktime1"
                op = rng.choice(["vlto", "vlto", "vltowin"])
                if op == "vltowin": p &= pil(15, 31, 31, 63)
                c.append("%s %d %d %d %d %s" % (op, p, st, east, now, inj))
                if "setenv2" in inj: break
            cases.append(c)
        LINJ = ["-", "-", "-", "time1", "localtime1", "strdup1", "setenv1", "setenv2", "mktime1", "mktime1,setenv2", "time1,setenv2",
                "localtime1,setenv2", "strdup1,setenv1"]
        for _ in range(N // 10):
            c = []
            amb = rng.choice([None, None] + DISTINCT + ["UTC"])
            if amb is not None: c.append("settz " + hx(amb))
            for _ in range(8):
                st = rng.choice(refs) if rng.random() < 0.7 else rng.randrange(-3 * 10 ** 9, 5 * 10 ** 9)
                if rng.random() < 0.25: st = -1
                if rng.random() < 0.08: st = rng.choice(EXTREME)
                tz = rng.choice(tzs) if rng.random() < 0.85 else None
                now = rng.choice(refs + [-1])
                inj = rng.choice(LINJ)
                if "setenv2" in inj and not (amb in DISTINCT and tz in DISTINCT + ["WWW+12"] and tz != amb): inj = "localtime1"
                c.append("%s %d %s %s %d %s" % (rng.choice(["ltz", "pty"]), st, "NULL" if tz is None else hx(tz),
                                                zone_token(amb if tz is None else tz), now, inj))
                if "setenv2" in inj: break
            cases.append(c)
        # 5. malformed op lines
        c = ["vlto", "vlto 1 2 3 4", "vltowin x 0 0 0 -", "ltz 0 zz utc 0 -", "ltz 0 NULL nozone 0 -", "pty 0 NULL utc 0", "pty x NULL utc 0 -",
             "errnos 1", "wdtest", "wdtest sleep", "ltz 0 NULL utc 0 bogus1", "vlto 100000 0 4294967296 0 -"]
        cases.append(c)
        c = ["lto", "lto 1 2 3", "lto x 0 0 0 -", "lto 100000 0 4294967296 0 -", "lto 100000 0 0 0 bogus1", "lto 100000 0 0 0 setenv0",
             "totime 100000 0 NULL utc 0", "totime 100000 0 zz utc 0 -", "totime 100000 0 00 utc 0 -", "totime 100000 0 NULL nozone 0 -",
             "win 100000 0 NULL fix:x 0 -", "valid", "valid -1", "valid 4294967296", "settz", "settz zz", "settz 4100", "bogus 1 2",
             "limits 1", "lto 4294967296 0 0 0 -", "lto 100000 9223372036854775808 0 0 -", "ltowin 100000 0 0 0", "valid 0x10"]
        cases.append(c)
        cases = self.fill_tables(cases)
        mix = {"ops": 0, "with_injection": 0, "zone_utc": 0, "zone_fixed": 0, "zone_table": 0, "tz_null": 0,
               "start_is_now": 0, "feb29": 0, "service_or_unreal": 0}
        for c in cases:
            for l in c:
                w = l.split()
                if w[0] in ("vlto", "vltowin", "ltz", "pty"):
                    mix["inner_" + w[0]] = mix.get("inner_" + w[0], 0) + 1
                if w[0] not in ("lto", "ltowin", "totime", "win") or len(w) < 6: continue
                mix["ops"] += 1
                mix["with_injection"] += w[-1] != "-"
                if w[0] in ("totime", "win") and len(w) == 7:
                    mix["zone_utc"] += w[4] == "utc"; mix["zone_fixed"] += w[4].startswith("fix:")
                    mix["zone_table"] += w[4].startswith("tab:"); mix["tz_null"] += w[3] == "NULL"
                try:
                    p = int(w[1], 0); mix["start_is_now"] += w[2] == "-1"
                    mix["feb29"] += fields(p)[:2] == (2, 29)
                    mix["service_or_unreal"] += not (1 <= fields(p)[0] <= 12 and 1 <= fields(p)[1] <= MDAYS[fields(p)[0] - 1])
                except ValueError:
                    pass
        self.extra_coverage = {"input_mix": mix}
        return cases

    def classify(self, case):
        for l in case:
            w = l.split()[0]
            if w != "settz":
                return w
        return "settz"

    # ---------------- oracle ----------------
    def local_fields(self, t, tzname):
        """civil fields (y,m,d,h,mi,s) of instant t in zone, or None when not judged"""
        if tzname in FIXED:
            dt = civil(t + FIXED[tzname])
            return None if dt is None else (dt.year, dt.month, dt.day, dt.hour, dt.minute, dt.second)
        if zoneinfo and tzname in NAMED:
            if civil(t) is None: return None
            dt = (datetime.datetime(1970, 1, 1, tzinfo=datetime.timezone.utc) + datetime.timedelta(seconds=t)).astimezone(zoneinfo.ZoneInfo(tzname))
            return (dt.year, dt.month, dt.day, dt.hour, dt.minute, dt.second)
        return None

    def zoff(self, tzname, t):
        """UTC offset of zone at instant t (zoneinfo)"""
        dt = (datetime.datetime(1970, 1, 1, tzinfo=datetime.timezone.utc) + datetime.timedelta(seconds=t)).astimezone(zoneinfo.ZoneInfo(tzname))
        return int(dt.utcoffset().total_seconds())

    def instants(self, y, m, d, h, mi, tzname, dday=0):
        """all instants whose local time in zone is y-m-d h:mi (+dday days); [] in a DST gap; None = not judged"""
        try:
            naive = datetime.datetime(y, m, d, h, mi) + datetime.timedelta(days=dday)
        except (ValueError, OverflowError):
            return None
        if not (2 < naive.year < 9998): return None
        if tzname in FIXED:
            return [int((naive - EPOCH).total_seconds()) - FIXED[tzname]]
        if zoneinfo and tzname in NAMED:
            z = zoneinfo.ZoneInfo(tzname)
            res = set()
            for fold in (0, 1):
                a = naive.replace(tzinfo=z, fold=fold)
                t = int((a - datetime.datetime(1970, 1, 1, tzinfo=datetime.timezone.utc)).total_seconds())
                back = (datetime.datetime(1970, 1, 1, tzinfo=datetime.timezone.utc) + datetime.timedelta(seconds=t)).astimezone(z)
                if back.replace(tzinfo=None) == naive:
                    res.add(t)
            return sorted(res)
        return None

    def infer_year(self, sy, sm, pm):
        """the nearest-year rule as a spec: the unique year whose month index is within [-6, +5] of the reference month"""
        c = [y for y in (sy - 1, sy, sy + 1) if -6 <= 12 * (y - sy) + (pm - sm) <= 5]
        assert len(c) == 1
        return c[0]

    def oracle(self, case, out):
        if len(out) != len(case):
            return "output count %d != ops %d" % (len(out), len(case))
        amb = None
        judged_env = True
        seen = self.__dict__.setdefault("errno_seen", {})
        for l, o in zip(case, out):
            w = l.split()
            if o.startswith("crash"):
                # the supervisor of the harness attributes a hang / sanitizer abort / assertion to the op
                return "crash of the real code (%s) in op `%s`" % (o[6:300], " ".join(w[:1]))
            if o == "skip":
                return None                                   # after the cap of crashes (reported by an earlier case)
            if o.startswith("rej"):
                continue
            if w[0] == "errnos":
                if o.split()[1:] != [str(E_INVALID_PIL), str(E_NO_TIME), str(E_OVERFLOW), str(E_NOMEM), "2"]:
                    return "errnos: error constants / VBI_VERSION_MINOR differ from the ones the oracle uses: %s" % o
                continue
            if w[0] == "wdtest":
                if o != "ok watchdog " + w[1]:
                    return "watchdog: the harness supervisor did not catch `%s`: %s" % (l, o)
                continue
            if w[0] == "limits":
                if o.split()[1:6] != ["8", str(TIME_MIN), str(TIME_MAX), str(-2 ** 31), str(2 ** 31 - 1)]:
                    return "limits: platform is not 64-bit time_t / 32-bit int"
                continue
            if w[0] == "settz":
                amb = None if w[1] == "unset" else unhx(w[1])
                continue
            if w[0] == "valid":
                m, d, h, mi = fields(int(w[1], 0))
                exp = 1 <= m <= 12 and 1 <= d <= MDAYS[m - 1] and h < 24 and mi < 60 and int(w[1], 0) >= 0
                if o != "ok %d" % (1 if exp else 0):
                    return "valid: vbi_pil_is_valid_date(%s) = %s" % (w[1], o)
                continue
            if w[0] not in ("lto", "ltowin", "totime", "win", "vlto", "vltowin", "ltz", "pty"):
                continue
            f = o.split()
            tail = dict(x.split("=", 1) for x in f if "=" in x and not x.startswith("rec="))
            res = [x for x in f[1:] if "=" not in x]
            if w[0] in ("ltz", "pty"):
                p = NSPV; start = int(w[1])
                tzarg = None if w[2] == "NULL" else unhx(w[2]); now = int(w[4]); inj = w[5]; east = None
                tz = amb if tzarg is None else tzarg
            elif w[0] in ("lto", "ltowin", "vlto", "vltowin"):
                p = int(w[1]); start = int(w[2])
                east = int(w[3]); now = int(w[4]); inj = w[5]; tz = "UTC"; tzarg = "lto"
            else:
                p = int(w[1]); start = int(w[2])
                tzarg = None if w[3] == "NULL" else unhx(w[3]); now = int(w[5]); inj = w[6]; east = None
                tz = amb if tzarg is None else tzarg
            try:
                en = int(tail.get("errno", "x"))
            except ValueError:
                return "errno: the harness did not print errno for `%s`: %s" % (w[0], o[:80])
            seen.setdefault(w[0], {})
            seen[w[0]][ERRNAME.get(en, "other")] = seen[w[0]].get(ERRNAME.get(en, "other"), 0) + 1
            # --- TZ untouched ---------------------------------------------------------------
            restore_exc = "setenv2" in inj.split(",") and amb is not None and tzarg is not None
            failed = (res[0] == "-1") if w[0] in ("lto", "totime", "vlto") else (res[0] == "0") if w[0] == "ltz" else res[0].startswith("false")
            if w[0] == "ltz" and tail.get("r") == "0": failed = True          # the harness's own restore_tz after localtime_tz
            if tail.get("heap") != "0":
                return "heap: a strdup'ed TZ copy is still allocated after the call"
            if res[0] == "false-but-modified":
                return "window: *begin/*end modified although the call failed"
            if tail.get("env") != "same" or tail.get("st") != "same":
                if not restore_exc:
                    return "tz: TZ environment / libc zone state changed by the call (%s, env=%s st=%s)" % (w[0], tail.get("env"), tail.get("st"))
                if not failed:
                    return "tz: TZ not restored but the call reported success"
                amb = None if tail.get("tz") == "unset" else unhx(tail.get("tz"))
            # --- errno (round 5) ------------------------------------------------------------
            what = self.judge_errno(w[0], p, start, east, tz, amb, tzarg, now, inj, res, en, failed)
            if what:
                return what
            # --- value ----------------------------------------------------------------------
            if w[0] == "ltz":
                what = self.judge_ltz(start, tz, now, inj, res)
            else:
                vop = {"vlto": "lto", "vltowin": "ltowin", "pty": "win"}.get(w[0], w[0])
                what = self.judge_value(vop, p, start, east, tz, now, inj, res)
            if what:
                return what
        return None

    def judge_ltz(self, start, tz, now, inj, res):
        """localtime_tz: TRUE -> the broken-down time is the reference time viewed in the zone"""
        if res[0] != "1":
            if inj == "-" and not (start == -1 and now == -1) and tz is not None and (tz in FIXED or tz in NAMED):
                t = now if start == -1 else start
                if self.local_fields(t, tz) is not None:
                    return "localtime_tz: failed without a reason (start %d zone %s)" % (start, tz)
            return None
        t = now if start == -1 else start
        if start == -1 and "time1" in inj.split(","):
            return "localtime_tz: TRUE although time() failed"
        if tz is None or (tz not in FIXED and tz not in NAMED):
            return None
        lf = self.local_fields(t, tz)
        if lf is None:
            return None
        got = (int(res[1]) + 1900, int(res[2]) + 1, int(res[3]), int(res[4]), int(res[5]), int(res[6]))
        if got != lf:
            return "localtime_tz: %d in zone %s is %s, got %s" % (t, tz, lf, got)
        return None

    def judge_errno(self, op, p, start, east, tz, amb, tzarg, now, inj, res, en, failed):
        """errno after the call.  Public 0.2 API: 0 (untouched on the early indefinite-window returns); file-local
        functions: the error kind, judged from the inputs independently of the model."""
        name = ERRNAME.get(en, str(en))
        m, d, h, mi = fields(p)
        ij = inj.split(",")
        if op in ("lto", "totime"):
            return None if en == 0 else "errno: %s left errno = %s (0.2 API: 0 after every call)" % (op, name)
        if op in ("ltowin", "win"):
            indef = (1 <= m <= 12 and not (1 <= d <= MDAYS[m - 1])) or m in (13, 14) or p in SERVICE
            exp = E0 if indef else 0
            return None if en == exp else "errno: %s left errno = %s, expected %s (PIL %d)" % (op, name, ERRNAME[exp], p)
        if op == "pty":
            if en == 0: return None
            if en == E_NOMEM and failed and "setenv2" in ij and "mktime1" in ij: return None     # restore_tz failed after mktime failed
            return "errno: vbi_pty_validity_window left errno = %s" % name
        s_eff = start
        if start == -1:
            s_eff = None if ("time1" in ij or now == -1) else now
        if op == "ltz":
            if not failed or res[0] == "1":
                return None if en == 0 else "errno: localtime_tz returned TRUE with errno = %s" % name
            if en in (0, E0):
                return "errno: localtime_tz failed with errno = %s" % name
            allowed = set()
            if tzarg is not None and ("strdup1" in ij or "setenv1" in ij or "setenv2" in ij): allowed.add(E_NOMEM)
            if s_eff is None: allowed.add(E_NO_TIME)
            elif "localtime1" in ij or abs(s_eff) > 6 * 10 ** 16: allowed.add(E_OVERFLOW)
            return None if en in allowed else "error_kind: localtime_tz failed with errno = %s, possible here: %s (start %d now %d inj %s)" % (
                name, sorted(ERRNAME[x] for x in allowed), start, now, inj)
        # vlto / vltowin
        if op == "vltowin":
            p &= pil(15, 31, 0, 0); h = mi = 0
        lost = failed if op == "vlto" else (failed or res == [str(TIME_MIN), str(TIME_MAX)])
        if op == "vlto" and failed and en == 0 and east % 60 == 1:
            return None                                       # the converted value is exactly (time_t) -1 (needs seconds_east = 1 mod 60)
        if not lost:
            return None if en == 0 else "errno: %s succeeded with errno = %s" % (op, name)
        if en in (0, E0):
            if op == "vltowin" and en == 0 and failed:
                return None                                   # 00:00 converted to exactly (time_t) -1 (window_minus_one_refused)
            return "errno: %s failed with errno = %s" % (op, name)
        if s_eff is None:
            exp = {E_NO_TIME}
        elif not (TIME_MIN <= s_eff + east <= TIME_MAX):
            exp = {E_OVERFLOW}
        elif "gmtime1" in ij:
            exp = {E_OVERFLOW}
        else:
            dt = civil(s_eff + east)
            if dt is None:
                exp = {E_OVERFLOW, E_INVALID_PIL} if (m, d) == (2, 29) else {E_OVERFLOW}
                if ij != ["-"]: exp.add(E_NOMEM)
            else:
                y = self.infer_year(dt.year, dt.month, m)
                if (m, d) == (2, 29) and not is_leap(y):
                    exp = {E_INVALID_PIL}
                else:
                    exp = set()
                    if "strdup1" in ij and amb is not None: exp.add(E_NOMEM)
                    if "setenv1" in ij or "setenv2" in ij: exp.add(E_NOMEM)
                    if "mktime1" in ij: exp.add(E_OVERFLOW)
                    if not exp: exp = {E_OVERFLOW}          # an unrepresentable result is the only reason left
        if op == "vltowin" and (en == E_INVALID_PIL) != (res == [str(TIME_MIN), str(TIME_MAX)]):
            return "errno: valid_pil_lto_validity_window: indefinite window <-> VBI_ERR_INVALID_PIL violated (errno %s, %s)" % (name, res)
        return None if en in exp else "error_kind: %s failed with errno = %s, expected %s (PIL %d start %s east %d inj %s)" % (
            op, name, sorted(ERRNAME[x] for x in exp), p, s_eff, east, inj)

    def judge_value(self, op, p, start, east, tz, now, inj, res):
        m, d, h, mi = fields(p)
        failed = (res[0] == "-1") if op in ("lto", "totime") else res[0].startswith("false")
        if op in ("lto", "ltowin"):
            zname, zeast = None, east
        else:
            if tz is None or (tz not in FIXED and tz not in NAMED):
                zname = None; zeast = None
            else:
                zname = tz; zeast = FIXED.get(tz)
        def loc(t):
            if zname is None:
                if zeast is None: return None
                dt = civil(t + zeast)
                return None if dt is None else (dt.year, dt.month, dt.day, dt.hour, dt.minute, dt.second)
            return self.local_fields(t, zname)
        def inst(y, mm, dd, hh, mmi, dday=0):
            if zname is None:
                if zeast is None: return None
                try:
                    naive = datetime.datetime(y, mm, dd, hh, mmi) + datetime.timedelta(days=dday)
                except (ValueError, OverflowError):
                    return None
                if not (2 < naive.year < 9998): return None
                return [int((naive - EPOCH).total_seconds()) - zeast]
            return self.instants(y, mm, dd, hh, mmi, zname, dday)
        valid_date = 1 <= m <= 12 and 1 <= d <= MDAYS[m - 1]
        valid = valid_date and h < 24 and mi < 60 and p < (1 << 32)
        s_eff = start
        if start == -1:
            if "time1" in inj.split(","): s_eff = None
            else: s_eff = now
            if s_eff == -1: s_eff = None
        hit_possible = inj != "-"
        lto_path = op in ("lto", "ltowin") or tz == "UTC"
        ee = east if op in ("lto", "ltowin") else 0
        f9_in = lto_path and s_eff is not None and ee < 0 and s_eff < -ee
        if op in ("lto", "totime"):
            if not valid:
                return None if failed else "invalid_fails: invalid PIL %d converted to %s" % (p, res[0])
            if s_eff is None:
                return None if failed else "invalid_fails: no reference time but result %s" % res[0]
            sl = loc(s_eff)
            if sl is None:
                return None                                   # outside the judged range (years 2..9998 / unknown zone)
            y = self.infer_year(sl[0], sl[1], m)
            if m == 2 and d == 29 and not is_leap(y):
                return None if failed else "leap_day_rule: 29 February accepted in non-leap year %d (result %s)" % (y, res[0])
            cand = inst(y, m, d, h, mi)
            if cand is None:
                return None
            if failed:
                if hit_possible: return None
                if cand == []: return None                    # local time does not exist (DST gap): libc's choice
                if -1 in cand: return None                    # (time_t) -1 is indistinguishable from failure
                if f9_in or (lto_path and ee > 0 and cand[0] < 0):
                    return "epoch_guard: representable time before epoch+|offset| rejected (F9 was repaired by 00745a5: regression)"
                return "fields_preserved: valid PIL %d, start %d, zone %s: conversion failed" % (p, s_eff, tz if op == "totime" else east)
            t = int(res[0])
            if cand == []:
                # DST gap: the result must show the PIL's local time moved by the jump (Zone.FollowsOffsets.mktime_gap)
                if zname in NAMED and zoneinfo:
                    L = int((datetime.datetime(y, m, d, h, mi) - EPOCH).total_seconds())
                    shift = t + self.zoff(zname, t) - L
                    jumps = {self.zoff(zname, t) - self.zoff(zname, t + dd) for dd in (-172800, -86400, -7200, -3600, 3600, 7200, 86400, 172800)}
                    if shift == 0 or shift not in jumps:
                        return "fields_preserved: PIL %d in a DST gap of %s: result %d shows the local time moved by %d s, jumps nearby %s" % (
                            p, zname, t, shift, sorted(jumps))
                return None
            if t not in cand:
                return "fields_preserved: PIL %d start %d zone %s: got %d, expected %s" % (p, s_eff, tz if op == "totime" else east, t, cand)
            if abs(t - s_eff) > 217 * 86400:
                return "nearest_year: result %d is more than 7 months from the reference %d" % (t, s_eff)
            rl = loc(t)
            if rl and not (-6 <= 12 * (rl[0] - sl[0]) + (rl[1] - sl[1]) <= 5):
                return "nearest_year: month distance out of [-6, 5]"
            return None
        # ---- windows ----
        if m == 0:
            return None if failed else "window: unallocated PIL (month 0) accepted"
        kind = None
        if m <= 12: kind = "date" if valid_date else "indef"
        elif m <= 14: kind = "indef"
        elif p in SERVICE: kind = "indef"
        elif p == NSPV: kind = "nspv"
        else:
            return None if failed else "window: unallocated PIL %d accepted" % p
        if kind == "indef":
            if res == [str(TIME_MIN), str(TIME_MAX)]: return None
            return "window: indefinite window expected for PIL %d, got %s" % (p, res)
        if not failed:
            b, e = int(res[0]), int(res[1])
            if kind == "nspv" and start == -1:
                return None        # (time_t) -1 is not a documented value of `start` (the documentation names zero): not judged
            if not b < e:
                return "window_ordered: begin %d >= end %d" % (b, e)
        if kind == "nspv" and start == -1:
            return None
        if kind == "nspv":
            sref = start if op == "ltowin" or start != -1 else s_eff      # pty_utc uses `start` as given
            if op == "ltowin" or tz == "UTC":
                zn, ze = None, 0
                sl = None if sref is None else (lambda dt: None if dt is None else (dt.year, dt.month, dt.day))(civil(sref))
            else:
                zn, ze = zname, zeast
                sl = None if sref is None else loc(sref)
            if sl is None:
                return None
            if zn is None and ze is not None:
                try:
                    naive = datetime.datetime(sl[0], sl[1], sl[2], 4, 0) + datetime.timedelta(days=29)
                    cand = [int((naive - EPOCH).total_seconds()) - ze] if 2 < naive.year < 9998 else None
                except (ValueError, OverflowError):
                    cand = None
            else:
                cand = self.instants(sl[0], sl[1], sl[2], 4, 0, zn, 29) if zn else None
            if cand is None or cand == []:
                return None
            if failed:
                return None if hit_possible or -1 in cand else "window: NSPV window failed for start %d" % start
            if b != start or e not in cand:
                return "window_lengths: NSPV window (%d, %d), expected (%d, %s)" % (b, e, start, cand)
            return None
        # kind == date
        if s_eff is None:
            return None if failed else "invalid_fails: no reference time but window %s" % res
        sl = loc(s_eff)
        if sl is None:
            return None
        y = self.infer_year(sl[0], sl[1], m)
        if m == 2 and d == 29 and not is_leap(y):
            if res == [str(TIME_MIN), str(TIME_MAX)]: return None
            return None if (failed and hit_possible) else "leap_day_rule: window for 29 February in non-leap year %d: %s" % (y, res)
        cb = inst(y, m, d, 20, 0, -1) if h < 4 else inst(y, m, d, 0, 0)
        ce = inst(y, m, d, 4, 0, 1)
        if cb is None or ce is None or cb == [] or ce == []:
            return None
        if failed:
            if hit_possible or -1 in cb or -1 in ce: return None
            t00 = inst(y, m, d, 0, 0)
            if t00 is None or -1 in t00: return None      # 00:00 is exactly (time_t) -1: the documented error value (window_minus_one_refused)
            if lto_path:
                t0 = inst(y, m, d, 0, 0)[0]
                if f9_in or (ee > 0 and t0 < 0) or (h < 4 and t0 < 14400):
                    return "epoch_guard: representable time before epoch+|offset| rejected (F9 was repaired by 00745a5: regression)"
            return "window: valid PIL %d start %d zone %s: window failed" % (p, s_eff, tz if op == "win" else east)
        if res == [str(TIME_MIN), str(TIME_MAX)]:
            return "window_lengths: indefinite window for a valid date PIL %d" % p
        if b not in cb or e not in ce:
            return "window_lengths: PIL %d start %d zone %s: window (%d, %d), expected begin %s end %s" % (
                p, s_eff, tz if op == "win" else east, b, e, cb, ce)
        if (op == "ltowin" or zname is None or zname in FIXED) and e - b != (32 if h < 4 else 28) * 3600:
            return "window_lengths: length %d" % (e - b)
        if h < 24 and mi < 60:
            ct = inst(y, m, d, h, mi)
            if ct and not any(b <= t < e for t in ct):
                return "window_contains: converted time %s outside (%d, %d)" % (ct, b, e)
        return None

    RULE_ZONES = NAMED + ["Europe/Lisbon", "Europe/Dublin", "Europe/Moscow", "America/Sao_Paulo", "America/Havana", "America/Santiago",
                          "America/Caracas", "America/Anchorage", "America/Godthab", "Africa/Cairo", "Africa/Casablanca", "Asia/Tehran",
                          "Asia/Gaza", "Asia/Seoul", "Asia/Pyongyang", "Australia/Lord_Howe", "Pacific/Auckland", "Pacific/Kiritimati",
                          "Antarctica/Troll", "CET-1CEST,M3.5.0,M10.5.0/3", "EST5EDT,M3.2.0,M11.1.0"]

    def extra_checks(self, ctx):
        """validate the libc hypothesis `Zone.FollowsOffsets` (mktime with tm_isdst = -1: hit / overlap / gap rule, localtime
        law) against this libc for every listed zone present in /usr/share/zoneinfo; harness-only probes"""
        self.extra_coverage = dict(getattr(self, "extra_coverage", {}), errno_observed=getattr(self, "errno_seen", {}))
        if ctx.get("replay"):
            return []
        zdir = "/usr/share/zoneinfo"
        zones = [z for z in self.RULE_ZONES if "," in z or os.path.exists(os.path.join(zdir, z))]
        stats = {"zoneinfo_present": os.path.isdir(zdir), "zones": len(zones), "probes": 0, "hit": 0, "gap": 0, "mktime_failed": 0,
                 "gap_shifts": {}, "violations": 0}
        self.extra_coverage = dict(getattr(self, "extra_coverage", {}), libc_mktime_rule=stats)
        if not zones:
            return []
        quick = ctx["tier"] == "quick"
        years = (2011, 2024) if quick else (1970, 1981, 1996, 2007, 2011, 2016, 2024, 2033, 2037)
        cases = []
        for z in zones:
            c = []
            for y in years:
                for mth in range(1, 13):
                    for day in range(1, MDAYS[mth - 1] + 1 if (mth != 2 or is_leap(y)) else 29):
                        for hh in (0, 1, 2, 3, 12, 23):
                            for mm in (0, 30) if hh < 4 else (15,):
                                c.append("mkrule %s %d %d %d %d %d" % (hx(z), y, mth, day, hh, mm))
            cases.append(c)
        out, inc = verif.run_side(ctx["hcmd"], cases, self.timeout_per_case)
        bad = []
        for i, c in enumerate(cases):
            o = out.get(i, [])
            if len(o) != len(c):
                bad.append(("libc_hypothesis: probe run incomplete for zone %s" % zones[i], c[:3]))
                continue
            for l, r in zip(c, o):
                stats["probes"] += 1
                w = r.split()
                if r == "ok fail":
                    stats["mktime_failed"] += 1
                elif len(w) == 4 and w[2] in ("hit", "gap"):
                    stats[w[2]] += 1
                    if w[2] == "gap":
                        stats["gap_shifts"][w[3]] = stats["gap_shifts"].get(w[3], 0) + 1
                    if (w[2] == "hit") != (w[3] == "0"):
                        bad.append(("libc_hypothesis: %s: %s" % (zones[i], r), [l]))
                else:
                    bad.append(("libc_hypothesis: glibc mktime/localtime violates Zone.FollowsOffsets in %s: %s" % (zones[i], r), [l]))
        stats["violations"] = len(bad)
        return bad[:3]

    def nontrivial(self, case, impl_out):
        return any(l.startswith("ok") for l in impl_out)

    def signature(self, case, what):
        if what.startswith("crash of the real code") or what.startswith("hang"):
            import re
            what = re.sub(r" in \w+ \([\w.-]+\)\)$", ")", what)      # newer lib/verif.py appends the first library frame
            return re.sub(r"-?\d+", "N", what)
        return what.split(":")[0]


if __name__ == "__main__":
    verif.run_check(C14())
