#!/usr/bin/env python3
"""C07 - DVB demux output depends only on the byte stream and recovers after damage."""
import json, os, sys
sys.path.insert(0, os.path.join(os.path.dirname(os.path.abspath(__file__)), "..", "lib"))
import verif
import demux_util as du


def hx(bs):
    return "".join("%02x" % b for b in bs) or "-"


def cuts(rng, n, mode):
    """cut points of a buffer of n bytes"""
    if n < 2:
        return []
    if mode == "few":
        k = rng.randrange(1, 6)
    elif mode == "many":
        k = rng.randrange(6, 40)
    else:
        k = rng.randrange(1, 3)
    return sorted(set(rng.randrange(1, n) for _ in range(k)))


def split_at(b, pts):
    out, prev = [], 0
    for p in pts + [len(b)]:
        if p > prev:
            out.append(b[prev:p])
            prev = p
    return out


class Stream:
    """a generated stream with what the sender knows about it"""
    def __init__(self, kind, ts_pid=None):
        self.kind = kind
        self.ts_pid = ts_pid
        self.bytes = []
        self.frames = []        # expected frame strings, in order of transmission
        self.starts = []        # byte offset at which frame i starts
        self.damage = None      # (first damaged offset, horizon offset) or None


def build_pes_stream(rng, n_frames, system625=True):
    st = Stream("pes")
    pts = rng.randrange(1 << 33)
    prev_last = None
    variable = rng.random() < 0.25
    for _ in range(n_frames):
        lines = du.gen_frame_lines(rng, system625, prev_last)
        prev_last = du.frame_line(*lines[-1][:3])
        st.starts.append(len(st.bytes))
        st.frames.append(du.expect_frame(pts, lines))
        units = [du.data_unit(l[0], l[1], l[2], l[3], fixed=not variable) for l in lines]
        # sometimes split the frame over two packets (first / second field)
        parts = [units]
        if len(units) > 1 and rng.random() < 0.3:
            k = rng.randrange(1, len(units))
            parts = [units[:k], units[k:]]
        for j, part in enumerate(parts):
            if rng.random() < 0.2:
                part = [du.stuffing_unit()] + part
            pk = du.pes_packet(pts if j == 0 or rng.random() < 0.7 else (pts + 1) & ((1 << 33) - 1), part,
                               data_identifier=(rng.choice([0x99, 0x9A, 0x9B]) if variable else rng.randrange(0x10, 0x20)),
                               min_size=rng.choice([184, 184, 368, 1472]) if rng.random() < 0.2 else 184,
                               fixed=not variable, with_pts=(j == 0 or rng.random() < 0.8))
            st.bytes += pk
        if rng.random() < 0.15:
            # a foreign PES packet (video / padding stream) between VBI packets
            n = rng.randrange(0, 300)
            body = [rng.choice([0xFF, 0x55, rng.randrange(2, 256)]) for _ in range(n)]
            st.bytes += [0, 0, 1, rng.choice([0xBE, 0xE0, 0xC0, 0xBF]), n >> 8, n & 255] + body
        elif rng.random() < 0.1:
            st.bytes += [rng.choice([0xFF, 0x00, 0x02, 0x47])] * rng.randrange(1, 60)   # inter-packet filler
        pts = (pts + 3600) & ((1 << 33) - 1)
    return st


def build_undef_stream(rng, n_frames):
    """frames made of Teletext units with line_offset 0 (undefined line, EN 301 775 4.5.2): k first-field
    units then m second-field units; the field change at a packet start is the only frame boundary mark"""
    st = Stream("pes")
    pts = rng.randrange(1 << 33)
    for _ in range(n_frames):
        lines = [("ttx", 0, 0, [rng.randrange(256) | 0x10 for _ in range(42)]) for _ in range(rng.randrange(1, 5))]
        lines += [("ttx", 1, 0, [rng.randrange(256) | 0x10 for _ in range(42)]) for _ in range(rng.randrange(1, 5))]
        st.starts.append(len(st.bytes))
        st.frames.append(du.expect_frame(pts, lines))
        units = [du.data_unit(*l) for l in lines]
        if rng.random() < 0.4:
            units = [du.stuffing_unit()] + units
        st.bytes += du.pes_packet(pts, units)
        pts = (pts + 3600) & ((1 << 33) - 1)
    return st


def build_lead_stream(rng):
    """legal but unusual packets: units that allocate no line (stuffing, unknown ids, custom framing code)
    in front of units with an undefined line; no expectation about frame boundaries"""
    st = Stream("pes")
    st.frames = None
    pts = rng.randrange(1 << 33)
    for _ in range(rng.randrange(1, 6)):
        units = []
        for _ in range(rng.randrange(0, 3)):
            k = rng.random()
            if k < 0.5:
                units.append(du.stuffing_unit())
            elif k < 0.75:
                units.append([rng.choice([0x00, 0x80, 0xC0, 0xC6, 0xFE]), 0x2C] + [0xFF] * 0x2C)
            else:
                u = du.data_unit("ttx", 1, 0, [0x55] * 42); u[3] = 0x27; units.append(u)
        for _ in range(rng.randrange(1, 4)):
            u = du.data_unit("ttx", rng.randrange(2), rng.choice([0, 0, 0, 7, 22]), [rng.randrange(256) | 0x10 for _ in range(42)])
            if rng.random() < 0.5:
                u[2] = rng.choice([0xC0, 0xC0, 0xE0, 0x00, 0x20])
            units.append(u)
        st.bytes += du.pes_packet(pts, units, with_pts=rng.random() < 0.9)
        pts = (pts + 3600) & ((1 << 33) - 1)
    return st


def build_ts_stream(rng, n_frames):
    pid = rng.randrange(0x10, 0x1FFF)
    st = Stream("ts", pid)
    pes = build_pes_stream_plain(rng, n_frames)
    cc = rng.randrange(16)
    st.frames = pes.frames
    st.pkts = []            # (is_vbi, frame index or None)
    for fi, packets in enumerate(pes.packets):
        st.starts.append(len(st.bytes))
        for pk in packets:
            tps, cc = du.ts_packets(pk, pid, cc)
            for tp in tps:
                while rng.random() < 0.25:
                    st.bytes += du.ts_other(rng, pid, rng.choice(["other", "other", "null", "af"]))
                st.bytes += tp
    # trailing foreign packet so that the last VBI packet is followed by a sync byte
    st.bytes += du.ts_other(rng, pid, "null")
    return st


TS_CC_SCENARIOS = ("start_plain", "start_foreign", "start_dup", "start_junk",
                   "loss_junk", "loss_foreign_cut", "loss_junk_foreign", "loss_junk_dup", "sync_dup")


def ts_junk(rng, n):
    """n bytes without a sync byte and without a PES start code"""
    return [rng.choice([0x46, 0x00, 0xFF, 0x48, 0x10, rng.randrange(2, 256)]) if rng.random() < 0.9 else 0x00 for _ in range(n)]


def build_ts_cc_stream(rng, v, scenario):
    """an intact TS stream in which the first VBI-PID packet the demultiplexer evaluates while it does not know
    the expected continuity_counter (stream start, or after a loss of sync that damages no VBI packet) carries
    continuity_counter `v` - for every v in 0..15 and every way to get there (TS_CC_SCENARIOS); `sync_dup`: a
    duplicated packet with counter v while the counter is known (ISO 13818-1 2.4.3.3 allows one duplicate).
    What the sender knows: `st.frames`; `st.cc_event = (j, max_lost)`: no VBI packet is damaged; a loss of sync in
    front of frame j may cost the frame held at that moment (j - 1) or the first frame after it (j), never both."""
    pid = rng.choice([0x10, 0x100, 0x1FFE, rng.randrange(0x10, 0x1FFF)])
    st = Stream("ts", pid)
    n_frames = rng.randrange(5, 8)
    pes = build_pes_stream_plain(rng, n_frames)
    st.frames = pes.frames
    at_start = scenario.startswith("start")
    j = 0 if at_start else rng.randrange(2, n_frames - 2)
    n_before = sum(len(pk) // 184 for packets in pes.packets[:j] for pk in packets)
    cc = (v - n_before) & 15
    b = []

    def foreign(k):
        out = []
        for _ in range(k):
            while True:
                f = du.ts_other(rng, pid, rng.choice(["other", "other", "null", "af"]))
                if 0x47 not in f[1:]:           # no false sync byte candidates while the demultiplexer searches
                    break
            out += f
        return out

    def junk():
        n = rng.choice([1, 2, 3, 9, 10, 11, 100, 187, 188, 189, 196, 197, 198, 376, rng.randrange(1, 188), rng.randrange(1, 600)])
        g = ts_junk(rng, n)
        g = [0x46 if x == 0x47 else x for x in g]
        for i in range(len(g) - 2):
            if g[i] == 0 and g[i + 1] == 0 and g[i + 2] == 1:
                g[i + 2] = 2
        return g

    for fi, packets in enumerate(pes.packets):
        st.starts.append(len(b))
        first = True
        for pk in packets:
            tps, cc2 = du.ts_packets(pk, pid, cc)
            for tp in tps:
                if fi == j and first:
                    if scenario == "start_foreign":
                        b += foreign(rng.randrange(1, 4))
                    elif scenario == "start_junk":
                        b += junk()
                    elif scenario == "loss_junk":
                        b += junk()
                    elif scenario == "loss_foreign_cut":
                        f = foreign(1)
                        k = rng.randrange(1, 188)
                        q = rng.randrange(1, 188 - k + 1)
                        # k bytes missing: misaligned from here on; the two packets behind it are foreign ones too, so
                        # that no VBI packet is touched before the sync byte search has found a packet start again
                        b += foreign(rng.randrange(0, 2)) + f[:q] + f[q + k:] + foreign(rng.randrange(2, 4))
                    elif scenario == "loss_junk_foreign":
                        b += junk() + foreign(rng.randrange(1, 4))
                    elif scenario == "loss_junk_dup":
                        b += junk()
                    if scenario in ("start_dup", "loss_junk_dup", "sync_dup"):
                        b += tp                                                 # the packet twice
                    assert tp[3] & 15 == v, (tp[3], v)
                elif rng.random() < 0.15:
                    b += foreign(1)
                b += tp
                first = False
            cc = cc2
    b += du.ts_other(rng, pid, "null") + du.ts_other(rng, pid, "null")
    st.bytes = b
    st.cc_event = (j, 0 if at_start or scenario == "sync_dup" else 1)
    st.kind_detail = "%s cc=%d" % (scenario, v)
    return st


def build_ts_gap_stream(rng, d, even, real):
    """intact VBI PES packets in TS packets of one PID (no other packets, nothing damaged inside a packet); at one
    point the continuity_counter jumps: the packet that arrives carries `expected + d` (1 <= d <= 15), because d
    consecutive packets of the PID are missing (`real`) or because the counters are renumbered from there on (a splice).
    `even`: parity of the counter the demultiplexer expects at that point - the verdict "repeated packet" (counter =
    expected - 1, packet dropped silently) vs. "continuity lost" (PES packet in progress and frame discarded) hangs on all
    four bits of both.  `st.gap = (j_lo, j_hi)`: frames j_lo .. j_hi have a missing packet or contain the packet at which
    the gap is seen; the frame held at that moment (j_lo - 1) goes with them, everything else must arrive as sent."""
    pid = rng.choice([0x10, 0x100, 0x1FFE, rng.randrange(0x10, 0x1FFF)])
    st = Stream("ts", pid)
    n_frames = d + 7 if real else rng.randrange(6, 9)
    pes = build_pes_stream_plain(rng, n_frames)
    st.frames = pes.frames
    pk = []
    for fi, packets in enumerate(pes.packets):
        for p in packets:
            pk += [(fi, tp) for tp in du.ts_packets(p, pid, 0)[0]]
    g = rng.choice([i for i, (fi, _) in enumerate(pk) if fi in (2, 3)])
    e = rng.randrange(8) * 2 + (0 if even else 1)
    c0 = (e - g) & 15
    b = []
    for i, (fi, tp) in enumerate(pk):
        if real and g <= i < g + d:
            continue
        cc = (c0 + i + (d if (not real and i >= g) else 0)) & 15
        b += tp[:3] + [(tp[3] & 0xF0) | cc] + tp[4:]
    st.bytes = b + du.ts_other(rng, pid, "null") + du.ts_other(rng, pid, "null")
    st.gap = (pk[g][0], pk[g + d][0] if real else pk[g][0])
    st.kind_detail = "%s d=%d expected %s" % ("loss" if real else "splice", d, "even" if even else "odd")
    return st


def build_short_unit_stream(rng):
    """intact one-or-two-packet frames; in front of frame j an extra 184-byte packet whose LAST data unit is one byte
    shorter than the service allows (data_unit_length = minimum - 1) and ends exactly at the end of the packet: a length
    test that is off by one makes the demultiplexer read the payload of that unit from behind the PES packet.  The unit
    is illegal (EN 301 775 4.4 ff.), the frame it belongs to is damage."""
    n_frames = rng.randrange(6, 9)
    pes = build_pes_stream_plain(rng, n_frames)
    st = Stream("pes")
    st.frames = pes.frames
    j = rng.randrange(2, n_frames - 3)
    svc = rng.choice(list(du.SERVICES))
    n = du.SERVICES[svc][1]
    # a line the service may stand on (behind line 7 of the first field), so that only the length is wrong
    field, lo = {"vps": (0, 16), "wss": (0, 23), "cc": (0, 21)}.get(svc, (rng.randrange(2), rng.randrange(8, 23)))
    u = du.data_unit(svc, field, lo, [rng.randrange(256) for _ in range(n)],
                     fixed=svc in ("ttx", "ttxs") and rng.random() < 0.7)
    short = u[:-1]
    short[1] = len(short) - 2
    first = du.data_unit("ttx", 0, 7, [rng.randrange(256) for _ in range(42)])
    k = 138 - len(first) - len(short) - 2
    b = []
    for fi, packets in enumerate(pes.packets):
        if fi == j:
            pos = len(b)
            b += du.pes_packet(rng.randrange(1 << 33), [first, [0xFF, k] + [0xFF] * k, short])
            assert len(b) - pos == 184
        st.starts.append(len(b))
        for pk in packets:
            b += pk
    st.bytes = b
    st.damage = (j, pos, pos + 184)
    st.kind_detail = "short %s unit" % svc
    return st


def build_pes_stream_plain(rng, n_frames):
    """PES packets only (no filler), grouped per frame, payload free of 0x47 for the TS sync search"""
    st = Stream("pes")
    st.packets = []
    pts = rng.randrange(1 << 33)
    prev_last = None
    for _ in range(n_frames):
        lines = du.gen_frame_lines(rng, True, prev_last)
        lines = [(a, b, c, [x if du.rev8(x) != 0x47 and x != 0x47 else 0x46 for x in p]) for a, b, c, p in lines]
        prev_last = du.frame_line(*lines[-1][:3])
        st.frames.append(du.expect_frame(pts, lines))
        units = [du.data_unit(*l) for l in lines]
        parts = [units]
        if len(units) > 1 and rng.random() < 0.3:
            k = rng.randrange(1, len(units))
            parts = [units[:k], units[k:]]
        st.packets.append([du.pes_packet(pts, part, data_identifier=0x10) for part in parts])
        pts = (pts + 3600) & ((1 << 33) - 1)
        while any(b == 0x47 for b in du.pts_bytes(pts)):
            pts = (pts + 1) & ((1 << 33) - 1)
    return st


def odd_packet(rng, length, pts):
    """a PRIVATE_STREAM_1 packet with a fully valid VBI PES header (flags 0x84, PTS, header length 0x24, legal
    data_identifier) whose PES_packet_length is `length` - any value, in particular < 178 and not N x 184 - 6 -
    and exactly 6 + length bytes long (the header itself is cut short when length < 40); payload: stuffing units"""
    hdr = du.pes_packet(pts, [du.stuffing_unit()], data_identifier=rng.choice([0x10, 0x15, 0x1F, 0x99, 0x9B]))[:46]
    hdr[4], hdr[5] = length >> 8, length & 255
    body, left = [], max(0, length - 40)
    while left > 0:
        if left == 1:
            body += [0xFF]; left = 0
        else:
            k = min(left - 2, rng.choice([255, 255, 0x2C, rng.randrange(0, 256)]))
            if left - 2 - k == 1:
                k = max(0, k - 1) if k > 0 else k
            body += [0xFF, k] + [0xFF] * k
            left -= 2 + k
    return (hdr + body)[:6 + length]


def odd_length(rng):
    """PES_packet_length of an odd packet: every small value from 0 upward is likely, the boundaries of the
    header / look-ahead logic (40, 42, 48 + 40, 178) are frequent, larger non-multiples of 184 occur too"""
    k = rng.random()
    if k < 0.45:
        return rng.randrange(0, 200)
    if k < 0.65:
        return rng.choice([0, 1, 5, 39, 40, 41, 42, 43, 44, 45, 46, 47, 48, 50, 61, 86, 87, 88, 89, 90, 137, 138, 176, 177, 178, 179])
    if k < 0.85:
        return max(0, 184 * rng.randrange(1, 5) - 6 + rng.choice([-7, -2, -1, 1, 2, 3, 45, 46, 47, 92, 100, 183]))
    return rng.randrange(200, 3000)


def build_odd_stream(rng, n_frames):
    """intact one-packet frames with one or two odd packets (valid header, arbitrary PES_packet_length) between
    them; the odd packets carry stuffing only, so every intact frame is expected as sent (the oracle allows the
    loss of the first frame after an odd packet, as after any damage)"""
    st = Stream("pes")
    pts = rng.randrange(1 << 33)
    prev_last = None
    j = rng.randrange(2, n_frames - 3)
    n_odd = rng.choice([1, 1, 1, 2])
    lo = None
    st.odd_lengths = []
    for i in range(n_frames):
        if i == j:
            lo = len(st.bytes)
            for _ in range(n_odd):
                ln = odd_length(rng)
                st.odd_lengths.append(ln)
                st.bytes += odd_packet(rng, ln, rng.choice([pts, (pts + 1800) & ((1 << 33) - 1), 0x7654321, rng.randrange(1 << 33)]))
        lines = du.gen_frame_lines(rng, True, prev_last)
        prev_last = du.frame_line(*lines[-1][:3])
        st.starts.append(len(st.bytes))
        st.frames.append(du.expect_frame(pts, lines))
        st.bytes += du.pes_packet(pts, [du.data_unit(*l) for l in lines])
        pts = (pts + 3600) & ((1 << 33) - 1)
    # "damage" = the odd packets in front of frame j: frames up to j-3 exactly, frame j may be lost, j+1.. must arrive
    st.damage = (j - 1, lo, st.starts[j])
    st.kind_detail = "odd_length"
    return st


def build_full_frame_stream(rng):
    """a packet of undefined-line Teletext units (legal: EN 301 775 4.5.2) which, together with the lines of the
    intact frame after it (no frame boundary is recognisable between the two), fills dx->sliced[64] exactly,
    followed by intact one-packet frames.  The first packet counts as arbitrary input: of the intact frames at
    most the first may be lost."""
    st = Stream("pes")
    pts = rng.randrange(1 << 33)
    prev_last, specs = None, []
    for _ in range(rng.randrange(4, 7)):
        lines = du.gen_frame_lines(rng, True, prev_last)
        prev_last = du.frame_line(*lines[-1][:3])
        specs.append(lines)
    n = 64 - len(specs[0])
    units = [du.data_unit("ttx", 0, 0, [rng.randrange(256) | 0x10 for _ in range(42)]) for _ in range(n)]
    st.bytes += du.pes_packet(pts, units)
    for lines in specs:
        pts = (pts + 3600) & ((1 << 33) - 1)
        st.starts.append(len(st.bytes))
        st.frames.append(du.expect_frame(pts, lines))
        st.bytes += du.pes_packet(pts, [du.data_unit(*l) for l in lines])
    st.damage = (-1, 0, st.starts[0])      # frame 0 may be lost (it is merged), frames 1.. must arrive
    st.damage_kind = "full_frame"
    return st


def foreign_horizon(b, lo, hi):
    """largest offset a start-code-like pattern touching b[lo:hi] can make the demux skip to"""
    h = hi
    for i in range(max(0, lo - 5), min(hi + 3, len(b) - 5)):
        if b[i] == 0 and b[i + 1] == 0 and b[i + 2] == 1 and b[i + 3] >= 0xBC:
            h = max(h, i + 6 + b[i + 4] * 256 + b[i + 5])
    return h


def damage_pes(rng, st):
    """damage inside one frame of an otherwise intact stream; records (first, horizon)"""
    if len(st.starts) < 5:
        return
    j = rng.randrange(1, len(st.starts) - 3)
    lo, hi = st.starts[j], st.starts[j + 1]
    b = st.bytes
    kind = rng.choice(["flip", "flip", "garbage", "truncate", "insert", "hdr", "zero", "dupline", "overflow"])
    st.damage_kind = kind
    if kind == "flip":
        for _ in range(rng.randrange(1, 6)):
            p = rng.randrange(lo, hi)
            b[p] ^= 1 << rng.randrange(8)
        a, e = lo, hi
    elif kind == "garbage":
        p = rng.randrange(lo, hi); n = rng.randrange(1, min(200, hi - p) + 1)
        for i in range(p, p + n):
            b[i] = rng.choice([0, 0, 1, 0xBD, 0xFF, rng.randrange(256)])
        a, e = lo, hi
    elif kind == "zero":
        p = rng.randrange(lo, hi); n = rng.randrange(1, min(100, hi - p) + 1)
        for i in range(p, p + n):
            b[i] = 0
        a, e = lo, hi
    elif kind == "truncate":
        p = rng.randrange(lo, hi); n = rng.randrange(1, hi - p + 1)
        del b[p:p + n]
        st.starts = [s if s <= p else s - n for s in st.starts]
        a, e = lo, hi - n
    elif kind == "insert":
        p = rng.randrange(lo, hi); n = rng.randrange(1, 120)
        ins = [rng.choice([0, 1, 0xBD, 0xFF, 0x2C, rng.randrange(256)]) for _ in range(n)]
        b[p:p] = ins
        st.starts = [s if s <= p else s + n for s in st.starts]
        a, e = lo, hi + n
    elif kind == "hdr":
        p = lo + rng.choice([3, 4, 5, 5, 6, 7, 8, 9, 45])
        b[p] = rng.randrange(256)
        a, e = lo, hi
    elif kind == "overflow":
        # the frame is replaced by a packet carrying more line units than the demux can hold (64)
        n = hi - lo
        units = [du.data_unit("ttx", 0, 0, [0x40 + (i % 32)] * 42) for i in range(rng.randrange(64, 80))]
        pk = du.pes_packet(rng.randrange(1 << 33), units)
        b[lo:hi] = pk
        st.starts = [s_ if s_ <= lo else s_ + len(pk) - n for s_ in st.starts]
        a, e = lo, lo + len(pk)
    else:   # duplicate a line number: overwrite the lofp of the 2nd data unit with that of the 1st
        if hi - lo > 46 + 46 + 3 and b[lo + 46 + 1] == 0x2C:
            b[lo + 46 + 46 + 2] = b[lo + 46 + 2]
        a, e = lo, hi
    st.damage = (j, a, foreign_horizon(b, a, e))


def damage_ts(rng, st):
    if len(st.starts) < 5:
        return
    j = rng.randrange(1, len(st.starts) - 3)
    lo, hi = st.starts[j], st.starts[j + 1]
    b = st.bytes
    kind = rng.choice(["drop_packet", "drop_packet", "flip", "insert", "delete", "dup_packet", "tei"])
    n_pk = (hi - lo) // 188
    k = rng.randrange(n_pk)
    p = lo + 188 * k
    if kind == "drop_packet":
        del b[p:p + 188]
    elif kind == "dup_packet":
        b[p:p] = b[p:p + 188]
    elif kind == "flip":
        for _ in range(rng.randrange(1, 5)):
            q = rng.randrange(lo, hi)
            b[q] ^= 1 << rng.randrange(8)
    elif kind == "insert":
        q = rng.randrange(lo, hi); n = rng.randrange(1, 100)
        b[q:q] = [rng.choice([0x46, 0x00, 0xFF, rng.randrange(256)]) for _ in range(n)]
        b[q:q + n] = [0x46 if x == 0x47 else x for x in b[q:q + n]]
    elif kind == "delete":
        q = rng.randrange(lo, hi); n = rng.randrange(1, 100)
        del b[q:q + n]
    else:
        b[p + 1] |= 0x80
    st.damage = (j, lo, None)
    st.kind_detail = kind


class C07(verif.Spec):
    prop = "C07"
    comp = "demux"
    lean_modules = ["ZvbiModel.Props.C07", "ZvbiModel.Props.C07Cor", "ZvbiModel.Props.C07Ts"]
    harness = "demux_harness"
    harness_link_lib = True
    timeout_per_case = 6.0
    partial_note = ("PES path: wrap window, start code scan, refinement to a buffer-free stream machine (hence split "
                    "invariance for every partition), safety, forgetting of stale state at a frame start, recovery "
                    "after the overflow packet are proved for the model (for the repaired and the unrepaired shape of "
                    "the two fixed statements alike; the two old defects are proved counterexamples for the unrepaired "
                    "shape). TS path: invariant, safety/progress and split invariance proved in full; continuity_counter rule (unknown "
                    "counter accepts any value, repeated = same counter as the packet before, a gap discards the PES packet in progress and the "
                    "held lines only, the expected counter is never 0 in any reachable context so that the sign test >= 0 / > 0 and the "
                    "unsigned prev_cont are what the model computes; the dead error exit bad_ts_packet_return is a regenerated fact). Coroutine "
                    "interface: progress (no livelock) for every context, and cor_equals_feed (any sequence of drained "
                    "buffers after any feed history, repaired source) proved by a second refinement. Joined with C06 (Props/C07Cor.lean): parser equivalence EnParse.pesStream vs "
                    "the demultiplexer and the round trip from the multiplexer model for every feed partition and "
                    "through the coroutine, for frames of defined lines; header stage rejects PES_packet_length < 178 "
                    "and the lookahead encoding of the payload state is an invariant; resync on an intact stream from any "
                    "context at a packet boundary. That the scan reaches such a boundary after arbitrary damage stays with "
                    "the oracle. Finding C07-full-frame (a frame of exactly 64 lines is dropped with its successor): the model follows "
                    "both shapes of line_address (third translator-read flag lateOverflow); counterexamples for the shape "
                    "without fixes/dvb-demux-full-frame.diff, full_frame_delivered / resync_intact for the shape with it.")
    assumptions = ["the frame callback returns TRUE", "coroutine callers pass max_lines >= 64",
                   "feed buffers are shorter than 2^32 bytes (unsigned int arithmetic does not wrap)",
                   "all bytes are < 256 (the model is over Nat lists)"]
    trusted_base = ["harness/demux_harness.c + lean/Driver/Demux.lean (op-by-op correspondence incl. resume state)",
                    "lib/demux_util.py: my transcription of EN 300 472 / EN 301 775 / ISO 13818-1 sender side",
                    "constants PES_BUF_SIZE etc. hard-coded in the model, cross-checked by the `consts` op every run"]
    open_statements = ["resync_full (Props/C07.lean): FALSE as written in every shape of the source (it quantifies over arbitrary continuations: C07Cor.resync_full_as_written_counterexample, packets without PTS; without fix dvb-demux-full-frame also C07Cor.resync_full_counterexample). Restated over intact streams as C07Cor.resync_intact_full and PROVED for the source with fix dvb-demux-full-frame and 7c6e61c (C07Cor.resync_intact: from any context at a packet boundary, whatever the frame buffer holds, at most the first frame is lost and at most one stale frame precedes); refuted without the fix (C07Cor.resync_intact_counterexample = finding C07-full-frame); for every shape C07Cor.resync_on_intact_stream (with room in the frame buffer). Still open: that after arbitrary damage the start code scan arrives at a packet boundary of the intact stream (false in general: a start code in the garbage may skip up to 65541 bytes; oracle: damaged streams)",
                       "mux_demux_roundtrip_model_full (Props/C07.lean): proved for frames whose lines all have defined line numbers (C07Cor.mux_demux_roundtrip_model, C06Join.mux_demux_roundtrip_lib); open for frames that also carry undefined-line units (C06Join.mux_demux_roundtrip_undef_full)"]

    # ---------------------------------------------------------------- generation
    def variants(self, rng, st, heavy):
        """op lines that push the same byte stream through every interface and partition"""
        b = st.bytes
        new = "new pes" if st.kind == "pes" else "new ts %d" % st.ts_pid
        newcor = "newcor pes" if st.kind == "pes" else "newcor ts %d" % st.ts_pid
        c = [new, "feed " + hx(b), "st"]
        for mode in (["few", "many"] if heavy else [rng.choice(["few", "many", "tiny"])]):
            c.append(new)
            for part in split_at(b, cuts(rng, len(b), mode)):
                c.append("feed " + hx(part))
            c.append("st")
        c += [new, "feedn 1 " + hx(b), "st"]
        c += [new, "feedn %d %s" % (rng.choice([2, 3, 4, 5, 7, 47, 48, 49, 183, 184, 187, 188, 189, rng.randrange(2, 400)]), hx(b)), "st"]
        c += [newcor, "cor " + hx(b)]
        c += [newcor, "corn %d %s" % (rng.choice([1, 1, 2, 3, 46, 188, rng.randrange(2, 300)]), hx(b))]
        if heavy:
            c.append(newcor)
            for part in split_at(b, cuts(rng, len(b), "many")):
                c.append("cor " + hx(part))
        return c

    def variants_cc(self, rng, st):
        """whole / 1-byte / 188-byte or odd pieces / random cuts / coroutine"""
        b = st.bytes
        new, newcor = "new ts %d" % st.ts_pid, "newcor ts %d" % st.ts_pid
        c = [new, "feed " + hx(b), "st", new, "feedn 1 " + hx(b), "st",
             new, "feedn %d %s" % (rng.choice([188, 188, 187, 189, 47, 197, rng.randrange(2, 400)]), hx(b)), "st", new]
        for part in split_at(b, cuts(rng, len(b), rng.choice(["few", "many"]))):
            c.append("feed " + hx(part))
        c += ["st", newcor, "corn %d %s" % (rng.choice([1, 188, 10, rng.randrange(2, 300)]), hx(b))]
        return c

    def variants_odd(self, rng, st):
        """whole / random cuts / 1-byte cuts / small fixed pieces / coroutine (whole, small pieces, random cuts)"""
        b = st.bytes
        c = ["new pes", "feed " + hx(b), "st"]
        for mode in ("few", "many"):
            c.append("new pes")
            for part in split_at(b, cuts(rng, len(b), mode)):
                c.append("feed " + hx(part))
            c.append("st")
        c += ["new pes", "feedn 1 " + hx(b), "st"]
        for k in (7, rng.choice([2, 3, 5, 45, 46, 47, 48, 49, 91, 183, 184, 185]), rng.randrange(2, 400)):
            c += ["new pes", "feedn %d %s" % (k, hx(b)), "st"]
        c += ["newcor pes", "cor " + hx(b)]
        for k in (1, 7, rng.choice([2, 3, 46, 47, 48, 188]), rng.randrange(2, 300)):
            c += ["newcor pes", "corn %d %s" % (k, hx(b))]
        c.append("newcor pes")
        for part in split_at(b, cuts(rng, len(b), "many")):
            c.append("cor " + hx(part))
        return c

    def gen_cases(self, rng, tier):
        N = 110 if tier == "quick" else 1500
        cases = []
        self.meta = {}

        def add(kind, st, heavy=False):
            c = self.variants(rng, st, heavy)
            self.meta["\n".join(c)] = (kind, st)
            cases.append(c)

        cases.append(["consts", "feed 00", "new pes", "cor 00", "feed", "feed zz", "feedn 0 00", "feedn x 00", "bogus",
                      "new ts 5", "feed 00", "new ts 8191", "new ts 100", "st", "feed 47", "st", "reset", "st",
                      "newcor pes", "feed 00", "cor -", "corn 1 000001bd", "st", "new", "new ts", "new ts -1", "reset"])
        for i in range(N):
            st = build_pes_stream(rng, rng.randrange(3, 8), system625=rng.random() < 0.8)
            add("pes_valid", st, heavy=(i % 10 == 0))
        for i in range(N):
            st = build_pes_stream(rng, rng.randrange(6, 10))
            damage_pes(rng, st)
            add("pes_damage", st)
        for i in range(N // 2):
            st = build_pes_stream(rng, rng.randrange(2, 6))
            for _ in range(rng.randrange(1, 30)):
                p = rng.randrange(len(st.bytes))
                st.bytes[p] = rng.choice([0, 1, 0xBD, 0xFF, 0x2C, 0x24, st.bytes[p] ^ (1 << rng.randrange(8)), rng.randrange(256)])
            if rng.random() < 0.3:
                del st.bytes[rng.randrange(len(st.bytes)):]
            if not st.bytes:
                st.bytes = [0]
            st.frames = None
            add("pes_mutated", st)
        for i in range(N // 2):
            st = Stream("pes")
            n = rng.choice([1, 2, 3, 47, 48, 49, rng.randrange(1, 600), rng.randrange(1, 3000)])
            alpha = rng.choice([[0, 0, 0, 1, 0xBD, 0xBC, 0xFF, 0xE0], [0, 1], list(range(256)), [0, 0, 1, 0xBD, 0, 0xB2, 0x84, 0x80, 0x24, 0x10, 0x02, 0x2C, 0xE4]])
            st.bytes = [rng.choice(alpha) for _ in range(n)]
            st.frames = None
            add("pes_garbage", st)
        for i in range(N // 2):
            # hand-made packets with illegal data units / header fields / lengths
            st = self.crafted_pes(rng)
            add("pes_crafted", st)
        for i in range(N // 4):
            add("pes_undef", build_undef_stream(rng, rng.randrange(3, 8)))
        for i in range(max(3, N // 20)):
            add("pes_full_frame", build_full_frame_stream(rng))
        for i in range(N // 2):
            # valid-header packets with an arbitrary PES_packet_length between intact packets
            st = build_odd_stream(rng, rng.randrange(7, 10))
            c = self.variants_odd(rng, st)
            self.meta["\n".join(c)] = ("pes_odd_length", st)
            cases.append(c)
        for i in range(max(8, N // 8)):
            # a data unit one byte too short as the last unit of a packet; each packet also as a buffer of its own
            st = build_short_unit_stream(rng)
            c = self.variants(rng, st, False) + ["new pes", "feedn 184 " + hx(st.bytes), "st"]
            self.meta["\n".join(c)] = ("pes_short_unit", st)
            cases.append(c)
        for i in range(N // 4):
            st = build_lead_stream(rng)
            if rng.random() < 0.5:
                st.kind, st.ts_pid = "ts", 0x123
                cc, out = rng.randrange(16), []
                for k in range(0, len(st.bytes) // 184 * 184, 184):
                    pass
                # re-packetise each PES packet (they are N x 184 bytes) into TS packets
                pk, b, pos = [], st.bytes, 0
                while pos < len(b):
                    ln = 6 + b[pos + 4] * 256 + b[pos + 5]
                    tps, cc = du.ts_packets(b[pos:pos + ln], st.ts_pid, cc)
                    for tp in tps:
                        pk += tp
                    pos += ln
                st.bytes = pk + du.ts_other(rng, st.ts_pid, "null")
            add("lead_units", st)
        for i in range(N // 2):
            st = build_ts_stream(rng, rng.randrange(3, 7))
            add("ts_valid", st, heavy=(i % 10 == 0))
        for i in range(N // 2):
            st = build_ts_stream(rng, rng.randrange(6, 9))
            damage_ts(rng, st)
            add("ts_damage", st)
        # every continuity_counter value of the first VBI packet seen with the expected counter unknown, every way
        # to get into that state (quick: all 16 values x all scenarios once; thorough: 8 times)
        for rep in range(1 if tier == "quick" else 8):
            for scenario in TS_CC_SCENARIOS:
                for v in range(16):
                    st = build_ts_cc_stream(rng, v, scenario)
                    c = self.variants_cc(rng, st)
                    self.meta["\n".join(c)] = ("ts_cc", st)
                    cases.append(c)
        # every jump of the continuity_counter (expected + 1 .. expected + 15) at an even and at an odd expected value:
        # as a renumbering of intact packets (all 15 jumps) and as a real loss of d consecutive packets (a few d)
        for rep in range(1 if tier == "quick" else 4):
            for real in (False, True):
                for d in (range(1, 16) if not real else (1, 2, 13, 14, 15)):
                    for even in (True, False):
                        st = build_ts_gap_stream(rng, d, even, real)
                        c = self.variants_cc(rng, st)
                        self.meta["\n".join(c)] = ("ts_gap", st)
                        cases.append(c)
        for i in range(N // 2):
            if rng.random() < 0.5:
                st = build_ts_stream(rng, rng.randrange(2, 5))
                for _ in range(rng.randrange(1, 30)):
                    p = rng.randrange(len(st.bytes))
                    st.bytes[p] = rng.choice([0x47, 0, 1, 0xBD, 0xFF, st.bytes[p] ^ (1 << rng.randrange(8)), rng.randrange(256)])
                if rng.random() < 0.3:
                    del st.bytes[rng.randrange(len(st.bytes)):]
                if not st.bytes:
                    st.bytes = [0x47]
            else:
                st = Stream("ts", rng.choice([0x10, 0x100, 0x1FFE, 0x0147]))
                n = rng.choice([1, 9, 10, 11, 187, 188, 189, 196, 197, 198, rng.randrange(1, 2500)])
                alpha = rng.choice([[0x47], [0x47, 0, 0, 1, 0xBD, 0x10, 0x41, 0x00], list(range(256)), [0x47, 0x47, 0x47, 0x10, 0x01, 0x00, 0x50]])
                st.bytes = [rng.choice(alpha) for _ in range(n)]
            st.frames = None
            add("ts_garbage", st)
        return cases

    def crafted_pes(self, rng):
        st = Stream("pes")
        st.frames = None
        pts = rng.randrange(1 << 33)
        for _ in range(rng.randrange(2, 7)):
            units = []
            for _ in range(rng.randrange(0, 12)):
                k = rng.random()
                svc = rng.choice(list(du.SERVICES))
                n = du.SERVICES[svc][1]
                u = du.data_unit(svc, rng.randrange(2), rng.choice([0, 1, 6, 7, 16, 21, 22, 23, 24, 31, rng.randrange(32)]),
                                 [rng.randrange(256) for _ in range(n)], fixed=rng.random() < 0.7)
                if k < 0.15:
                    u[1] = rng.choice([0, 1, 2, 3, 13, 43, 44, 255, rng.randrange(256)])     # wrong data_unit_length
                elif k < 0.25:
                    u[0] = rng.choice([0x00, 0x01, 0xC0, 0xC6, 0xB6, 0xFE, rng.randrange(256)])
                elif k < 0.3 and svc.startswith("ttx"):
                    u[3] = rng.randrange(256)                                               # framing code
                elif k < 0.35:
                    u[2] &= rng.randrange(256)                                              # reserved bits / parity
                units.append(u)
            if rng.random() < 0.1:
                units = [du.data_unit("ttx", rng.randrange(2), 7 + (i % 16), [i] * 42) for i in range(rng.randrange(60, 70))]
            pk = du.pes_packet(pts, units, data_identifier=rng.choice([0x10, 0x1F, 0x99, 0x9B, 0x0F, 0x20, 0x98, 0x9C]),
                               fixed=rng.random() < 0.5, with_pts=rng.random() < 0.8,
                               stream_id=rng.choice([0xBD] * 6 + [0xBC, 0xBE, 0xBB]))
            k = rng.random()
            if k < 0.12:
                # flags byte: '10', scrambling 00, priority, data_alignment 1, copyright, original
                pk[6] = rng.choice([0x80, 0x81, 0x83, 0x84, 0x85, 0x86, 0x87, 0x88, 0x8C, 0x8F, 0x94, 0xA4, 0xB4,
                                    0xC4, 0x04, 0x44, rng.randrange(256)])
            elif k < 0.2:
                pk[7] = rng.choice([0x00, 0x01, 0x3F, 0x40, 0x7F, 0x80, 0x81, 0xBF, 0xC0, 0xFF, rng.randrange(256)])
            elif k < 0.3:
                pk[8] = rng.choice([35, 37, 0, 255])
            elif k < 0.45:
                ln = rng.choice([0, 177, 178, 179, len(pk) - 7, len(pk) - 5, len(pk) - 6 + 184, 65535, rng.randrange(65536)])
                pk[4], pk[5] = ln >> 8, ln & 255
            elif k < 0.5:
                pk[9] = rng.randrange(256)
            st.bytes += pk
            pts = (pts + rng.choice([0, 1, 3600, 1 << 32])) & ((1 << 33) - 1)
        return st

    # ---------------------------------------------------------------- oracle
    def classify(self, case):
        m = getattr(self, "meta", {}).get("\n".join(case))
        return m[0] if m else ("proto" if case and case[0] == "consts" else "replay")

    @staticmethod
    def frames_of(line):
        """'ok 1 f | f' -> list of frame strings, or None if the line is not a frame result"""
        if not line.startswith("ok 1 "):
            return None
        body = line[5:]
        return [] if body == "-" else body.split(" | ")

    def segments(self, case, out):
        """split a case into runs starting at new/newcor: (is_cor, frames, st line or None, error or None)"""
        segs, cur = [], None
        for op, o in zip(case, out):
            w = op.split()
            if w[0] in ("new", "newcor"):
                cur = {"cor": w[0] == "newcor", "frames": [], "st": None, "sts": [], "bad": None, "null": o != "ok"}
                segs.append(cur)
                continue
            if cur is None or cur["null"]:
                continue
            if w[0] in ("feed", "feedn", "cor", "corn"):
                if o.startswith("rej"):
                    continue
                fr = self.frames_of(o)
                if o.startswith("ok LIVELOCK"):
                    cur["bad"] = ("coroutine livelock %s: vbi_dvb_demux_cor returns 0 forever without consuming input"
                                  % ("ts" if op.split()[0] and any(x.startswith("newcor ts") for x in case) else "pes"))
                    cur["null"] = True
                elif fr is None:
                    cur["bad"] = "op '%s ...' answered '%s'" % (w[0], o[:60])
                else:
                    cur["frames"] += fr
            elif w[0] == "st":
                cur["st"] = o
                cur["sts"].append((o, len(cur["frames"])))
            elif w[0] == "reset":
                cur["frames"].append("<reset>")
        return segs

    def oracle(self, case, out):
        if len(out) != len(case):
            return "output count %d != ops %d" % (len(out), len(case))
        segs = self.segments(case, out)
        for s in segs:
            if s["bad"]:
                return s["bad"]
        if not segs:
            return None
        meta = getattr(self, "meta", {}).get("\n".join(case))
        if meta is None and case and case[0] == "consts":
            return None
        if meta is None:
            # replay / corpus file: partition independence only, when the case has the variant shape
            feeds = [s for s in segs if not s["cor"] and not s["null"]]
            for s in feeds:
                # a full frame buffer (64 lines, not at a frame start) seen between feed calls must come out as a frame
                for (o, nfr) in s["sts"][:-1]:
                    if " n=64 " in o and " nf=0 " in o and not any(" n=64 " in (f + " ") for f in s["frames"][nfr:]):
                        return ("full frame: a frame that fills the 64 line buffer exactly is never delivered and the intact "
                                "frame after it is lost too (line_address reports the overflow before it tests for a new frame)")
            if any(s["st"] and " n=64 " in s["st"] for s in feeds):
                return ("pes lock-up: after a packet with more than 64 line units no frame is delivered any more, "
                        "although intact packets follow")
            if len(feeds) > 1 and any(s["frames"] != feeds[0]["frames"] for s in feeds):
                return "frames depend on how the stream was cut into feed calls"
            return None
        kind, st = meta
        feeds = [s for s in segs if not s["cor"]]
        cors = [s for s in segs if s["cor"]]
        ref = feeds[0]["frames"]
        for i, s in enumerate(feeds[1:], 1):
            if s["frames"] != ref:
                return "frames depend on how the stream was cut into feed calls (variant %d: %d vs %d frames)" % (
                    i, len(s["frames"]), len(ref))
            if s["st"] != feeds[0]["st"]:
                return "resume state depends on how the stream was cut into feed calls (variant %d)" % i
        ref_nz = [f for f in ref if f.split(" ")[1] != "n=0"]
        for i, s in enumerate(cors):
            if s["frames"] != ref_nz:
                return "coroutine interface delivers different frames than feed (variant %d: %d vs %d frames)" % (
                    i, len(s["frames"]), len(ref_nz))
        if st.frames is None:
            return None
        exp = st.frames[:-1]          # the last frame stays pending until another one begins
        ref = [f for f in ref if f.split(" ")[1] != "n=0"]   # frames without lines carry nothing that was sent
        ev = getattr(st, "cc_event", None)
        if ev is not None:
            # intact VBI packets throughout; a loss of sync in front of frame j may cost frame j - 1 (held, discarded
            # with the loss of sync) or frame j (the first one after it), not both; nothing else, nothing invented
            j, max_lost = ev
            lost = [i for i, f in enumerate(exp) if f not in ref]
            if [f for f in exp if f in ref] != ref:
                return ("intact TS stream (%s): frames delivered that were not sent or out of order"
                        % st.kind_detail.split(" ")[0])
            if len(lost) > max_lost or any(i not in (j - 1, j) for i in lost):
                if max_lost == 0:
                    return ("intact TS stream (%s): frame %d of %d is not delivered (first VBI packet seen with the "
                            "expected continuity_counter unknown, or a duplicated packet)"
                            % (st.kind_detail.split(" ")[0], lost[0], len(exp)))
                return ("TS stream after a loss of sync between packets (%s): %d frames lost %s, at most one of the "
                        "frames %d, %d may be" % (st.kind_detail.split(" ")[0], len(lost), lost, j - 1, j))
            return None
        gap = getattr(st, "gap", None)
        if gap is not None:
            # continuity_counter jump seen in frame j_hi, packets missing from frame j_lo on: the frames before the one
            # held at that moment and all frames after j_hi arrive as sent, nothing is delivered twice or in excess
            j_lo, j_hi = gap
            head, tail = exp[:max(0, j_lo - 1)], exp[j_hi + 1:]
            if " d=15 " in st.kind_detail:
                # expected + 15 = expected - 1 (mod 16): not a visible gap - ISO 13818-1 2.4.3.3 makes this packet a
                # duplicate, it is dropped silently and the damage shows one packet later: one more frame may go
                tail = exp[j_hi + 2:]
            if ref[:len(head)] != head:
                return ("TS continuity gap (%s): frames sent before the frame held when the gap is seen are not "
                        "delivered as sent" % st.kind_detail)
            if tail and ref[-len(tail):] != tail:
                return ("TS continuity gap (%s): frames after the one in which the gap is seen are not delivered as "
                        "sent (%d delivered, %d sent)" % (st.kind_detail, len(ref), len(exp)))
            if len(ref) > len(exp):
                return "TS continuity gap (%s): more frames delivered than sent" % st.kind_detail
            return None
        if st.damage is None:
            if ref != exp:
                k = next((i for i, (a, b) in enumerate(zip(ref, exp)) if a != b), min(len(ref), len(exp)))
                return "intact stream: frame %d differs from what was sent (%d delivered, %d sent)" % (k, len(ref), len(exp))
            return None
        # damaged stream: frames up to j-2 exactly, then all but at most the first frame after the damage
        j, first, horizon = st.damage
        if st.kind == "pes":
            k = j + 1
            while k < len(st.starts) and st.starts[k] < horizon:
                k += 1
            # frame k is the first one beginning at an intact packet boundary; it may be lost, k+1.. must arrive
            must_tail = exp[k + 1:]
        else:
            # frame j is damaged, frame j + 1 is the first one after the damage: it may be lost, j + 2 .. must arrive
            must_tail = exp[j + 2:]
        must_head = exp[:max(0, j - 1)]
        if ref[:len(must_head)] != must_head:
            return "damaged stream: frames sent before the damage are not delivered as sent"
        if must_tail and ref[-len(must_tail):] != must_tail and getattr(st, "damage_kind", "") == "full_frame":
            return ("full frame: a frame that fills the 64 line buffer exactly is never delivered and the intact frame "
                    "after it is lost too (line_address reports the overflow before it tests for a new frame)")
        if (getattr(st, "damage_kind", "") == "full_frame" and must_tail
                and not any(f.split(" ")[1] == "n=64" for f in ref[:len(ref) - len(must_tail)])):
            return ("full frame: the frame that fills the 64 line buffer exactly is not delivered although the frames "
                    "after it are")
        if must_tail and ref[-len(must_tail):] != must_tail:
            if (st.kind == "pes" and getattr(st, "damage_kind", "") == "overflow"
                    and not any(f in ref for f in exp[j:])):
                return ("pes lock-up: after a packet with more than 64 line units no frame is delivered any more, "
                        "although intact packets follow")
            return "damaged stream: frames after the first one following the damage are not delivered as sent"
        if len(ref) > len(exp) + 1:
            return "damaged stream: more frames delivered than sent"
        return None

    def signature(self, case, what):
        return "C07:" + what.split(":")[0].split("(")[0].strip()

    def nontrivial(self, case, impl_out):
        return any(l.startswith("ok 1 pts=") for l in impl_out)


if __name__ == "__main__":
    spec = C07()
    verif.run_check(spec)
