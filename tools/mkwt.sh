#!/bin/sh
# usage: tools/mkwt.sh <dir>   - scratch git worktree of /repo HEAD, configured and built (about 30 s); remove with
#        git -C /repo worktree remove --force <dir>
set -e
dir="$1"
git -C /repo worktree add --detach "$dir" HEAD >/dev/null 2>&1
rsync -a --exclude .git --exclude '*.o' --exclude '*.lo' --exclude '.libs' --exclude '*.la' --exclude '.deps' \
      --exclude '*.log' --exclude '*.trs' /repo/ "$dir"/
cd "$dir"
./configure >/dev/null 2>&1
make -j16 >/dev/null 2>&1
echo "$dir ready"
