#!/usr/bin/env python3
"""Render the prompt of a builder or of a seed-writing sub-agent into /tmp/prompts/<name>.md.
usage: tools/mkagent.py seed <property> <seed id> ["focus text"]     (also creates the scratch worktree /tmp/wt_<seed id>)
       tools/mkagent.py build <property> <deadline HH:MM> <goal file>
The seed prompt contains nothing from /verif but the property text (tools/prompts/seedwriter.md)."""
import json, os, subprocess, sys
d = os.path.dirname(os.path.dirname(os.path.abspath(__file__)))
os.makedirs("/tmp/prompts", exist_ok=True)
kind, prop = sys.argv[1], sys.argv[2]
props = {json.loads(l)["id"]: json.loads(l) for l in open(os.path.join(d, "properties.jsonl")) if l.strip()}
if kind == "seed":
    sid = sys.argv[3]
    focus = sys.argv[4] if len(sys.argv) > 4 else ""
    wt, out = "/tmp/wt_" + sid, "/tmp/seedout_" + sid
    if not os.path.isdir(wt):
        subprocess.run([os.path.join(d, "tools/mkwt.sh"), wt], check=True)
    t = open(os.path.join(d, "tools/prompts/seedwriter.md")).read()
    t = t.replace("{WT}", wt).replace("{OUT}", out).replace("{PROPERTY}", json.dumps(props[prop], indent=1))
    t = t.replace("{FOCUS}", ("* To spread the changes of several writers over the code, aim yours at this part of the "
                              "property if you can find a good one there (otherwise anywhere the property reaches): "
                              + focus + "\n") if focus else "")
    # ideas other writers already delivered for this property (from their own "needs to manifest" sentences - nothing
    # about what the checks detect): a new writer should not repeat them
    taken = []
    sdir = os.path.join(d, "seeded")
    for x in sorted(os.listdir(sdir)):
        mp = os.path.join(sdir, x, "meta.json")
        if os.path.exists(mp):
            mm = json.load(open(mp))
            if mm.get("property") == prop:
                taken.append("  - " + mm.get("needs_to_manifest", ""))
    if taken:
        t = t.replace("Then write a **demonstration**", "* Other writers have already delivered changes that need the following to manifest - do NOT repeat any of these "
                      "mechanisms, find a different one:\n" + "\n".join(taken) + "\n\nThen write a **demonstration**", 1)
    p = "/tmp/prompts/seed_%s.md" % sid
    open(p, "w").write(t)
    print(p)
else:
    deadline, goal = sys.argv[3], open(sys.argv[4]).read()
    t = open(os.path.join(d, "tools/prompts/builder.md")).read()
    t = t.replace("{ID}", prop).replace("{DEADLINE}", deadline).replace("{GOAL}", goal)
    p = "/tmp/prompts/build_%s.md" % prop
    open(p, "w").write(t)
    print(p)
