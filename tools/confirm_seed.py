#!/usr/bin/env python3
"""Confirm a seeded change delivered by a sub-agent and store it under seeded/<id>/.
usage: tools/confirm_seed.py <property> <id> <dir with patch.diff demo* build.sh README.md> "<what it needs to manifest>"
Steps (all in a fresh scratch worktree, removed afterwards): demo on the unchanged tree exits 0; patch applies; tree
builds; the existing test suite passes (19 tests); demo exits non-zero."""
import json, os, shutil, subprocess, sys, re
prop, sid, src, needs = sys.argv[1:5]
d = os.path.dirname(os.path.dirname(os.path.abspath(__file__)))
wt = "/tmp/confirm_%s_%d" % (sid, os.getpid())
def sh(cmd, **kw):
    p = subprocess.run(cmd, shell=True, stdout=subprocess.PIPE, stderr=subprocess.STDOUT, **kw)
    return p.returncode, p.stdout.decode("utf-8", "replace")
log = {}
try:
    rc, out = sh("%s/tools/mkwt.sh %s" % (d, wt)); assert rc == 0, out
    rc0, out0 = sh("sh %s/build.sh %s" % (src, wt), cwd=src, timeout=600)
    log["demo_unchanged_rc"] = rc0
    rc, out = sh("git -C %s apply %s/patch.diff" % (wt, src)); assert rc == 0, "patch does not apply: " + out
    rc, out = sh("make -j16 -C %s 2>&1 | tail -5" % wt, timeout=1200)
    rcb, outb = sh("make -C %s -j8 check 2>&1 | grep -E '^(# (TOTAL|PASS|FAIL|ERROR|XPASS)|FAIL)'" % wt, timeout=1800)
    tot = sum(int(x) for x in re.findall(r"# PASS:\s+(\d+)", outb))
    fail = sum(int(x) for x in re.findall(r"# (?:FAIL|ERROR|XPASS):\s+(\d+)", outb))
    log["suite_pass"], log["suite_fail"] = tot, fail
    rc1, out1 = sh("sh %s/build.sh %s" % (src, wt), cwd=src, timeout=600)
    log["demo_changed_rc"] = rc1
    log["demo_changed_tail"] = out1[-600:]
    ok = rc0 == 0 and rc1 != 0 and tot == 19 and fail == 0
    log["confirmed"] = ok
    print(json.dumps(log, indent=1))
    if ok:
        dst = os.path.join(d, "seeded", sid)
        os.makedirs(dst, exist_ok=True)
        for f in os.listdir(src):
            if os.path.isfile(os.path.join(src, f)) and os.path.getsize(os.path.join(src, f)) < 400000:
                shutil.copy(os.path.join(src, f), dst)
        meta = {"id": sid, "property": prop, "needs_to_manifest": needs,
                "origin": "written by a fresh sub-agent that saw only the property text and a scratch worktree",
                "confirmed_by": "tools/confirm_seed.py: fresh worktree of /repo HEAD %s; demo rc unchanged=%d, changed=%d; "
                                "existing suite with the change: %d pass, %d fail" %
                                (subprocess.run("git -C /repo rev-parse --short HEAD", shell=True, stdout=subprocess.PIPE).stdout.decode().strip(),
                                 rc0, rc1, tot, fail)}
        json.dump(meta, open(os.path.join(dst, "meta.json"), "w"), indent=1)
finally:
    sh("git -C /repo worktree remove --force %s" % wt)
sys.exit(0 if log.get("confirmed") else 1)
