#!/usr/bin/env python3
"""Run every claimed check (quick tier by default) on the current /repo, validate MANIFEST.json and the
evidence files against the schemas.  usage: tools/selfcheck.py [--tier quick|thorough] [--seeds 1,2,3] [ids...]"""
import json, os, subprocess, sys, time, argparse
d = os.path.dirname(os.path.dirname(os.path.abspath(__file__)))
ap = argparse.ArgumentParser()
ap.add_argument("--tier", default="quick")
ap.add_argument("--seeds", default="1")
ap.add_argument("--jobs", type=int, default=4)
ap.add_argument("ids", nargs="*")
a = ap.parse_args()
try:
    import jsonschema
except ImportError:
    os.execvp("python3-vt", ["python3-vt"] + sys.argv)
man = json.load(open(os.path.join(d, "MANIFEST.json")))
jsonschema.validate(man, json.load(open("/root/.vp/MANIFEST.schema.json")))
evs = json.load(open("/root/.vp/EVIDENCE.schema.json"))
props = [json.loads(l)["id"] for l in open(os.path.join(d, "properties.jsonl")) if l.strip()]
claimed = [c["property_id"] for c in man["checks"]]
na = [n["property_id"] for n in man.get("not_applicable", [])]
assert sorted(claimed + na) == sorted(props), "claimed + not_applicable != properties"
print("manifest ok; claimed:", claimed)
bad = 0
from concurrent.futures import ThreadPoolExecutor
def run(job):
    c, seed = job
    cmd = c["quick_cmd"] if a.tier == "quick" else c.get("thorough_cmd", c["quick_cmd"])
    env = dict(os.environ, VERIF_SEED=str(seed), VERIF_TIER=a.tier)
    t = time.time()
    p = subprocess.run(cmd, shell=True, cwd=d, env=env, stdout=subprocess.PIPE, stderr=subprocess.PIPE)
    out = p.stdout.decode("utf-8", "replace")
    msg = ""
    try:
        ev = json.load(open(os.path.join(d, c["evidence_file"])))
        jsonschema.validate(ev, evs)
        cov = ev["coverage"]
        if ev["level"] == "proof" and cov.get("obligations") != cov.get("discharged"):
            msg = "obligations != discharged"
    except Exception as ex:
        msg = "evidence invalid: %s" % str(ex)[:300]
    return c["property_id"], seed, p.returncode, time.time() - t, out, msg
jobs = [(c, int(s)) for s in a.seeds.split(",") for c in man["checks"] if not a.ids or c["property_id"] in a.ids]
# evidence files are per property: never run two seeds of one property at the same time
by_seed = {}
for c, s in jobs:
    by_seed.setdefault(s, []).append((c, s))
for s, js in by_seed.items():
    with ThreadPoolExecutor(a.jobs) as ex:
        for pid, seed, rc, wall, out, msg in ex.map(run, js):
            viol = [l for l in out.split("\n") if l.startswith("VIOLATION") or l.startswith("KNOWN-FINDING")]
            st = "ok" if rc == 0 and not msg and not any(v.startswith("VIOLATION") for v in viol) else "BAD"
            if st == "BAD":
                bad += 1
            print("%s seed=%d rc=%d %.0fs %s %s %s" % (pid, seed, rc, wall, st, msg, " | ".join(viol)), flush=True)
sys.exit(1 if bad else 0)
