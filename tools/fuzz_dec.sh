#!/bin/bash
# Support tool (not a check): coverage-guided search for failing inputs of the whole decoder (C01).
# usage: tools/fuzz_dec.sh <workdir> <seconds> [jobs]     builds with clang-14 libFuzzer + ASan + UBSan from $ZVBI_REPO (/repo)
set -e
V="$(cd "$(dirname "$0")/.." && pwd)"
R="${ZVBI_REPO:-/repo}"
W="$1"; T="${2:-600}"; J="${3:-8}"; TGT="${4:-dec_fuzz}"
mkdir -p "$W/obj" "$W/corpus" "$W/crashes"
CF="-std=gnu99 -D_GNU_SOURCE -DHAVE_CONFIG_H -D_REENTRANT -w -O1 -g -fno-omit-frame-pointer -I$R -I$R/src"
SAN="-fsanitize=address,undefined -fno-sanitize=shift-base,bounds,pointer-overflow -fno-sanitize-recover=all"
SRCS=$(python3 - <<PY
import sys; sys.path.insert(0, "$V/lib"); import verif; print(" ".join(verif.lib_c_files()))
PY
)
for f in $SRCS; do
  ( clang-14 $CF $SAN -fsanitize=fuzzer-no-link -c "$R/src/$f" -o "$W/obj/${f%.c}.o" ) &
  while [ "$(jobs -r | wc -l)" -ge 16 ]; do sleep 0.1; done
done
wait
clang-14 $CF $SAN -fsanitize=fuzzer -I"$V/harness" "$V/harness/$TGT.c" "$W"/obj/*.o -lm -lpthread -lpng -lz -o "$W/dec_fuzz"
clang-14 $CF $SAN -DDEC_FUZZ_STANDALONE -I"$V/harness" "$V/harness/dec_fuzz.c" $(for f in $SRCS; do echo "$R/src/$f"; done) -lm -lpthread -lpng -lz -o "$W/dec_fuzz_dump" 2>/dev/null || true
cd "$W"
ASAN_OPTIONS=detect_leaks=1 ./dec_fuzz -fork=$J -ignore_crashes=1 -max_len=8192 -max_total_time=$T -artifact_prefix=crashes/ -timeout=10 corpus > fuzz.log 2>&1 || true
ls crashes | head -50
