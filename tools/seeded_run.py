#!/usr/bin/env python3
"""Apply each seeded change under seeded/<id>/patch.diff to /repo, run the quick check(s) of the property it breaks
(meta.json "property", optional "also"), expect exit 1 + VIOLATION, and undo the change.  Prints a table and writes
seeded/RESULTS.json.  Never leaves /repo modified.  usage: tools/seeded_run.py [--tier quick] [ids...]"""
import json, os, subprocess, sys, time
d = os.path.dirname(os.path.dirname(os.path.abspath(__file__)))
REPO = "/repo"
tier = "quick"
args = sys.argv[1:]
SCRATCH = None
if args and args[0] == "--scratch":
    # run against a scratch worktree (ZVBI_REPO) instead of patching /repo itself; used while other work reads /repo
    args = args[1:]
    SCRATCH = "/tmp/seeded_wt_%d" % os.getpid()
if args and args[0] == "--tier":
    tier = args[1]; args = args[2:]
man = json.load(open(os.path.join(d, "MANIFEST.json")))
checks = {c["property_id"]: c for c in man["checks"]}
def sh(cmd, **kw):
    p = subprocess.run(cmd, shell=True, stdout=subprocess.PIPE, stderr=subprocess.STDOUT, **kw)
    return p.returncode, p.stdout.decode("utf-8", "replace")
RUN_D = d          # where the checks are run from
if SCRATCH:
    rc, out = sh("git -C /repo worktree add --detach %s HEAD && cp /repo/config.h %s/ && cp -n /repo/site_def.h %s/ 2>/dev/null; true" % (SCRATCH, SCRATCH, SCRATCH))
    REPO = SCRATCH
    os.environ["ZVBI_REPO"] = SCRATCH
    # the checks regenerate lean/ZvbiModel/Generated/* and rebuild the model driver from the tree they are pointed at:
    # run them from a private copy of /verif so that they cannot disturb (or be disturbed by) checks of /repo itself,
    # and so that the evidence files of /verif keep coming from /repo
    RUN_D = SCRATCH + "_verif"
    rc, out = sh("rsync -a --delete --exclude .git --exclude replays %s/ %s/" % (d, RUN_D))
    import atexit
    atexit.register(lambda: sh("git -C /repo worktree remove --force %s; rm -rf %s" % (SCRATCH, RUN_D)))
rc, out = sh("git -C %s status --porcelain --untracked-files=no" % REPO)
if out.strip():
    print("refusing: %s has local modifications:\n" % REPO + out); sys.exit(2)
res = {}
rp = os.path.join(d, "seeded", "RESULTS.json")
if os.path.exists(rp):
    res = json.load(open(rp))
for sid in sorted(os.listdir(os.path.join(d, "seeded"))):
    sd = os.path.join(d, "seeded", sid)
    if not os.path.isdir(sd) or (args and sid not in args):
        continue
    meta = json.load(open(os.path.join(sd, "meta.json")))
    props = [meta["property"]] + meta.get("also", [])
    rc, out = sh("git -C %s apply %s" % (REPO, os.path.join(sd, "patch.diff")))
    if rc != 0:
        print(sid, "patch does not apply:", out[-300:]); res[sid] = {"error": "patch does not apply"}; continue
    try:
        r = {}
        for p in props:
            if p not in checks:
                r[p] = "no check"; continue
            c = checks[p]
            cmd = c["quick_cmd"] if tier == "quick" else c.get("thorough_cmd", c["quick_cmd"])
            t = time.time()
            rc, out = sh(cmd, cwd=RUN_D, env=dict(os.environ, VERIF_TIER=tier))
            v = [l for l in out.split("\n") if l.startswith("VIOLATION")]
            r[p] = {"rc": rc, "caught": rc == 1 and bool(v), "line": v[0] if v else "", "wall": round(time.time() - t)}
        res[sid] = {"property": meta["property"], "tier": tier, "results": r}
        print(sid, json.dumps(r), flush=True)
    finally:
        sh("git -C %s checkout -- ." % REPO)
# several runs may finish at about the same time: merge into the file under a lock, only the entries of this run
import fcntl
mine = {k: v for k, v in res.items() if not args or k in args}
with open(rp + ".lock", "w") as lk:
    fcntl.flock(lk, fcntl.LOCK_EX)
    cur = json.load(open(rp)) if os.path.exists(rp) else {}
    cur.update(mine)
    json.dump(cur, open(rp, "w"), indent=1, sort_keys=True)
