#!/bin/sh
# usage: tools/accept.sh <ID>  - integrate a builder's files (tools/integrate.sh), run the quick check at seeds 1..3,
# regenerate MANIFEST.json, validate manifest + evidence.  The lead commits afterwards.
d="$(cd "$(dirname "$0")/.." && pwd)"; cd "$d"
tools/integrate.sh $1 | grep -v '^copied'
for s in 1 2 3; do VERIF_SEED=$s ./check $1 --tier quick 2>&1 | grep -v '^KNOWN-FINDING' | tail -2; done
VERIF_SEED=1 ./check $1 --tier quick 2>&1 | grep -c '^KNOWN-FINDING'
# the root module imports every model / theorem file: two components declaring the same name only clash here (setup.sh builds it)
python3 -c "
import sys; sys.path.insert(0,'lib'); import verif
ok,log=verif.lake_build([])
print('full lake build:', 'ok' if ok else 'FAILED'); print('' if ok else log[-2500:])"
python3 tools/mk_manifest.py 2>&1 | tail -1
python3-vt -c "
import json,jsonschema
jsonschema.validate(json.load(open('MANIFEST.json')), json.load(open('/root/.vp/MANIFEST.schema.json')))
jsonschema.validate(json.load(open('evidence/$1.json')), json.load(open('/root/.vp/EVIDENCE.schema.json'))); print('manifest + evidence valid')"
