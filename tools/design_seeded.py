#!/usr/bin/env python3
"""Rewrite DESIGN.md section 12.3 (seeded changes) from seeded/*/meta.json + seeded/RESULTS.json."""
import os, re, subprocess, sys
d = os.path.dirname(os.path.dirname(os.path.abspath(__file__)))
table = subprocess.run([sys.executable, os.path.join(d, "tools", "seeded_table.py")], stdout=subprocess.PIPE).stdout.decode()
p = os.path.join(d, "DESIGN.md")
s = open(p).read()
i = s.index("### 12.3 Seeded changes")
head = ("### 12.3 Seeded changes (written by fresh sub-agents from the property text only; `seeded/<id>/`)\n\n"
        "Each change was written by a sub-agent that saw only the property text and a scratch worktree, compiles, passes the 19\n"
        "existing tests, and comes with a demonstration that fails with the change and passes without it; each was confirmed by\n"
        "`tools/confirm_seed.py` in a fresh worktree before it was kept. `tools/seeded_run.py --scratch` applies each patch to a\n"
        "scratch worktree (`ZVBI_REPO`), runs the quick check of the property and records the result in `seeded/RESULTS.json`;\n"
        "the table below is generated from it (`tools/design_seeded.py`). \"no-failing-input-found\" means the proof rebuild or the\n"
        "model/code correspondence broke but the oracle found no input on which the real code violates the property.\n"
        "Changes that were MISSED at first and the strengthening that followed are listed after the table.\n\n")
tail_marker = "\n### 12.4"
j = s.find(tail_marker, i)
rest = s[j:] if j >= 0 else ""
open(p, "w").write(s[:i] + head + table + "\n" + rest)
