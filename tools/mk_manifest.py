#!/usr/bin/env python3
"""Compose MANIFEST.json from checks/*.manifest.json (one entry per claimed property).
Properties of properties.jsonl without an entry are listed under not_applicable with the reason
given in checks/not_applicable.json (or 'check not built yet')."""
import json, os, glob
d = os.path.dirname(os.path.dirname(os.path.abspath(__file__)))
props = [json.loads(l)["id"] for l in open(os.path.join(d, "properties.jsonl")) if l.strip()]
base = json.load(open(os.path.join(d, "MANIFEST.json")))
entries = {}
accepted = set(open(os.path.join(d, "checks", "accepted.txt")).read().split())   # integrated + verified by the orchestrator
for f in sorted(glob.glob(os.path.join(d, "checks", "*.manifest.json"))):
    e = json.load(open(f))
    if e["property_id"] in accepted:
        entries[e["property_id"]] = e
na_reasons = {}
p = os.path.join(d, "checks", "not_applicable.json")
if os.path.exists(p):
    na_reasons = json.load(open(p))
base["checks"] = [entries[i] for i in props if i in entries]
base["not_applicable"] = [{"property_id": i, "reason": na_reasons.get(i, "check not built yet (work in progress); see DESIGN.md section 7 for the plan")}
                          for i in props if i not in entries]
for eng in base.get("engines", []):
    eng["serves_properties"] = [i for i in props if i in entries]
json.dump(base, open(os.path.join(d, "MANIFEST.json"), "w"), indent=1)
print("claimed:", [i for i in props if i in entries])
