#!/usr/bin/env python3
"""Print the markdown table of seeded changes (seeded/*/meta.json + seeded/RESULTS.json) for DESIGN.md section 12.3."""
import json, os
d = os.path.dirname(os.path.dirname(os.path.abspath(__file__)))
res = json.load(open(os.path.join(d, "seeded", "RESULTS.json")))
print("| id | property | what the change needs to manifest | result of `./check <property>` (quick) |")
print("|---|---|---|---|")
for sid in sorted(os.listdir(os.path.join(d, "seeded"))):
    mp = os.path.join(d, "seeded", sid, "meta.json")
    if not os.path.exists(mp):
        continue
    m = json.load(open(mp))
    r = res.get(sid, {})
    out = []
    for p, v in (r.get("results") or {}).items():
        if isinstance(v, dict):
            if v.get("caught"):
                out.append("%s: **caught**%s" % (p, " (no-failing-input-found: proof / correspondence broke, oracle found no input)" if "no-failing-input-found" in v.get("line", "") else ", VIOLATION with replay"))
            else:
                out.append("%s: %s" % (p, ("not caught - " + m["retired"]) if m.get("retired") else "MISSED"))
        else:
            out.append("%s: %s" % (p, v))
    if r.get("error"):
        out.append(r["error"])
    print("| %s | %s | %s | %s |" % (sid, m["property"], m["needs_to_manifest"].replace("|", "/"), "; ".join(out) or "not run yet"))
