#!/usr/bin/env python3
"""Markdown summary of mutants/*.json (tools/mutants.py) with the triage of mutants/TRIAGE.json (longest key prefix wins)."""
import json, glob, os
d = os.path.dirname(os.path.dirname(os.path.abspath(__file__)))
T = json.load(open(os.path.join(d, "mutants", "TRIAGE.json")))
print("| property | mutants run through the check | killed by the check | killed by the 19 tests (not run) | survived / timed out |")
print("|---|---|---|---|---|")
rows = []
for p in sorted(glob.glob(os.path.join(d, "mutants", "C*.json"))):
    r = json.load(open(p)); pid = os.path.basename(p)[:3]
    k = sum(v["status"] == "killed" for v in r.values()); t = sum(v["status"] == "killed-by-tests" for v in r.values())
    s = [(kk, v) for kk, v in r.items() if v["status"] in ("SURVIVED", "timeout") or v["status"].startswith("check-broken")]
    print("| %s | %d | %d | %d | %d |" % (pid, k + len(s), k, t, len(s)))
    for kk, v in sorted(s):
        tri = ""
        for pre in sorted(T, key=len, reverse=True):
            if kk.startswith(pre):
                tri = T[pre]; break
        rows.append("| %s | `%s:%d` %s | `%s` -> `%s` | %s | %s |" % (pid, v["file"], v["line"], v["function"], v["old"][:70].replace("|", "\\|"),
                    v["new"][:70].replace("|", "\\|"), v["status"], tri or "NOT TRIAGED"))
print()
print("| property | site | mutant | result | triage |")
print("|---|---|---|---|---|")
print("\n".join(rows))
