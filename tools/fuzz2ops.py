#!/usr/bin/env python3
"""Convert a dec_fuzz input file (harness/dec_fuzz.c byte format) into dec_harness op lines."""
import sys
d = open(sys.argv[1], "rb").read(); n = len(d); i = 0; t = 0; out = []
hx = lambda b: "".join("%02x" % x for x in b)
while i < n:
    op = d[i] & 15; i += 1
    if op <= 7:
        if i + 42 > n: break
        out += ["l 3 7 " + hx(d[i:i+42]), "dec %d" % t]; i += 42; t += 40000
    elif op in (8, 9):
        if i + 2 > n: break
        out += ["l 60 %d %s" % (21 if op == 8 else 284, hx(d[i:i+2])), "dec %d" % t]; i += 2; t += 33367
    elif op == 10:
        if i + 13 > n: break
        out += ["l 4 16 " + hx(d[i:i+13]), "dec %d" % t]; i += 13; t += 40000
    elif op == 11:
        if i + 2 > n: break
        out += ["l 400 23 " + hx(d[i:i+2]), "dec %d" % t]; i += 2; t += 40000
    elif op == 12:
        if i + 5 > n: break
        pgno = 0x100 + ((d[i] << 8 | d[i+1]) & 0x7FF); sub = (d[i+2] << 8 | d[i+3]) & 0x3FFF
        if d[i+2] & 0x80: sub = 0x3F7F
        lv = d[i+4] & 3; what = d[i+4] >> 2; i += 5
        if what & 32: out.append("fetchcc %d" % (1 + (pgno & 7)))
        else: out.append("fetch %x %x %d 25 %d" % (pgno, sub, lv, what & 1))
        if what & 2: out.append("render 32 1 1")
        if what & 4: out.append("print 1 4000")
        if what & 8: out.append("export %s -1" % ("html" if (what >> 4) & 1 else "text"))
        if what & 16: out.append("resolve")
    elif op == 13:
        if i + 2 > n: break
        pgno = 0x100 + ((d[i] << 8 | d[i+1]) & 0x7FF); i += 2
        out += ["classify %x" % pgno, "title %x 3f7f" % pgno]
    elif op == 14:
        if i + 4 > n: break
        pgno = 0x100 + ((d[i] << 8 | d[i+1]) & 0x7FF); ln = 1 + (d[i+2] & 7)
        if i + 4 + ln > n: break
        pat = [d[i+4+k] or ord('a') for k in range(ln)]
        out.append("search %x 3f7f %d %d %s" % (pgno, d[i+3] & 1, (d[i+3] >> 1) & 1, "".join("%04x" % c for c in pat)))
        out += ["next %d" % (-1 if d[i+3] & 4 else 1), "next %d" % (-1 if d[i+3] & 8 else 1)]
        i += 4 + ln
    else:
        if i + 1 > n: break
        if d[i] & 1: out.append("chsw 0")
        else: t += 5000000
        i += 1
out.append("delete")
print("\n".join(out))
