#!/bin/sh
# usage: tools/integrate.sh <ID>  - copy the files a builder lists in /tmp/w_<ID>/CHANGED.txt from its copy into this tree
d="$(cd "$(dirname "$0")/.." && pwd)"
w=/tmp/w_$1
[ -f $w/CHANGED.txt ] || { echo "no $w/CHANGED.txt"; exit 1; }
grep -v '^\s*$' $w/CHANGED.txt | sed 's/^\s*//; s/\s*$//; s#^verif/##' | while read f; do
  case "$f" in evidence/*|.cache/*|lean/.lake/*|lean/ZvbiModel/Generated/*|lean/ZvbiModel.lean|lean/Main.lean|MANIFEST.json|DESIGN.md) echo "skip $f"; continue;; esac
  if [ -e "$w/verif/$f" ]; then mkdir -p "$d/$(dirname "$f")"; cp -a "$w/verif/$f" "$d/$f"; echo "copied $f";
  else echo "MISSING in copy (deleted?): $f"; fi
done
