#!/bin/sh
# usage: tools/intake.sh <property> <seed id> "<needs to manifest>"
# confirm the seed delivered in /tmp/seedout_<id> (fresh worktree), store it under seeded/<id>/, run the property's quick
# check against it from a private copy (tools/seeded_run.py --scratch), remove the writer's worktree.
d="$(cd "$(dirname "$0")/.." && pwd)"
cd "$d"
python3 tools/confirm_seed.py "$1" "$2" /tmp/seedout_$2 "$3" > /tmp/confirm_$2.log 2>&1
if grep -q '"confirmed": true' /tmp/confirm_$2.log; then
  python3 tools/seeded_run.py --scratch "$2" > /tmp/seedrun_$2.log 2>&1
  echo "$2 confirmed; $(grep -E "^$2|caught|MISSED|missed" /tmp/seedrun_$2.log | tail -3 | tr '\n' ' ')"
else
  echo "$2 NOT confirmed: $(tail -c 600 /tmp/confirm_$2.log | tr '\n' ' ')"
fi
git -C /repo worktree remove --force /tmp/wt_$2 2>/dev/null; rm -rf /tmp/wt_$2
