#!/bin/sh
# usage: tools/take_seed.sh <property> <new id> <dir> "<needs>"   - confirm (fresh worktree) and store one seeded change
d="$(cd "$(dirname "$0")/.." && pwd)"
python3 "$d/tools/confirm_seed.py" "$1" "$2" "$3" "$4" > "/tmp/confirm_$2.log" 2>&1
echo "$2 confirmed=$(grep -c '"confirmed": true' /tmp/confirm_$2.log)"
