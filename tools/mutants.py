#!/usr/bin/env python3
"""Systematic self-test by mutation (DESIGN.md section 9): small syntactic mutants of the C functions a property is
anchored in, each applied to a scratch worktree of /repo (never to /repo), compiled, run through the existing test suite
(mutants the 19 tests kill are not interesting) and then through the property's quick check (from a private copy of
/verif, ZVBI_REPO pointing at the worktree).  A surviving mutant is either equivalent or a gap; survivors are listed in
mutants/<property>.json for triage.  This is a measurement of the machinery, not a registered check.

usage: tools/mutants.py <property> [--n 30] [--seed 1] [--worker K] [--funcs f1,f2] [--files src/a.c,...]
"""
import argparse, json, os, random, re, shutil, subprocess, sys, time
d = os.path.dirname(os.path.dirname(os.path.abspath(__file__)))
ap = argparse.ArgumentParser()
ap.add_argument("prop")
ap.add_argument("--n", type=int, default=30)
ap.add_argument("--seed", type=int, default=1)
ap.add_argument("--worker", type=int, default=0)
ap.add_argument("--funcs", default="")
ap.add_argument("--files", default="")
ap.add_argument("--check", default="", help="run this property's check instead of <prop>'s (cross-property triage); results go to mutants/<prop>@<check>.json")
a = ap.parse_args()
props = {json.loads(l)["id"]: json.loads(l) for l in open(os.path.join(d, "properties.jsonl")) if l.strip()}
P = props[a.prop]
WT = "/tmp/mut_wt_%d" % a.worker
VF = "/tmp/mut_verif_%d" % a.worker


def sh(cmd, timeout=None, **kw):
    # own process group, killed as a whole on timeout: a mutant can make a test program spin for ever
    import signal
    p = subprocess.Popen(cmd, shell=True, stdout=subprocess.PIPE, stderr=subprocess.STDOUT, start_new_session=True, **kw)
    try:
        out, _ = p.communicate(timeout=timeout)
    except subprocess.TimeoutExpired:
        try:
            os.killpg(p.pid, signal.SIGKILL)
        except OSError:
            pass
        p.communicate()
        raise
    return p.returncode, out.decode("utf-8", "replace")


if not os.path.isdir(WT):
    rc, out = sh("%s/tools/mkwt.sh %s" % (d, WT)); assert rc == 0, out
sh("git -C %s checkout -- ." % WT)
sh("rsync -a --delete --exclude .git --exclude replays --exclude mutants %s/ %s/" % (d, VF))

# ---- which functions: names mentioned in the property's anchors, found in the anchored files
names = set(a.funcs.split(",")) - {""}
if not names:
    for m in P["anchors"].get("mechanism", []):
        names |= set(re.findall(r"([A-Za-z_]\w+)\s*\(\)", m.get("where", "") + " " + m.get("name", "")))
files = [f for f in (a.files.split(",") if a.files else P["anchors"]["files"]) if f.endswith(".c") or f.endswith(".h")]


def functions(path):
    """(name, first body line, last body line) of the function definitions (zvbi style: name at column 0)"""
    src = open(path, errors="replace").read().split("\n")
    out, i = [], 0
    while i < len(src):
        m = re.match(r"^([A-Za-z_]\w*)\s*(\(|$)", src[i])
        if m and not re.match(r"^(if|for|while|switch|return|else|do|typedef|struct|static|extern|enum|union)\b", src[i]):
            j, fname = i, m.group(1)
            while j < len(src) and "{" not in src[j] and ";" not in src[j]:
                m2 = re.match(r"^([A-Za-z_]\w*)\s*\(", src[j])
                if m2:
                    fname = m2.group(1)
                j += 1
            if j < len(src) and src[j].strip().startswith("{") and src[j].startswith("{"):
                depth, k = 0, j
                while k < len(src):
                    depth += src[k].count("{") - src[k].count("}")
                    if depth == 0:
                        break
                    k += 1
                out.append((fname, j + 1, k))
                i = k
        i += 1
    return out


OPS = [
    ("le->lt", r"<=", "<"), ("ge->gt", r">=", ">"),
    ("lt->le", r"(?<![<>=!\-])<(?![<=])", "<="), ("gt->ge", r"(?<![<>=!\-])>(?![>=])", ">="),
    ("eq->ne", r"==", "!="), ("ne->eq", r"!=", "=="),
    ("and->or", r"&&", "||"), ("or->and", r"\|\|", "&&"),
    ("plus->minus", r"(?<=[\w\)\]]) \+ (?=[\w\(])", " - "), ("minus->plus", r"(?<=[\w\)\]]) - (?=[\w\(])", " + "),
]


def strip_noise(line):
    line = re.sub(r'"(\\.|[^"\\])*"', lambda m: '"' + "_" * (len(m.group(0)) - 2) + '"', line)
    line = re.sub(r"/\*.*?\*/", lambda m: " " * len(m.group(0)), line)
    line = re.sub(r"//.*", "", line)
    return line


def candidates(path, lo, hi):
    src = open(path, errors="replace").read().split("\n")
    incomment = False
    for ln in range(lo, hi):
        raw = src[ln]
        if incomment:
            if "*/" in raw:
                incomment = False
            continue
        if "/*" in raw and "*/" not in raw:
            incomment = True
            raw = raw[:raw.index("/*")]
        s = strip_noise(raw)
        if not s.strip() or s.lstrip().startswith("#") or re.search(r"\b(assert|printf|fprintf|log|debug|warning|error|info|notice)\s*\(", s):
            continue
        for name, pat, rep in OPS:
            for m in re.finditer(pat, s):
                yield (ln, name, raw[:m.start()] + rep + raw[m.end():])
        for m in re.finditer(r"(?<![\w.])(0x[0-9A-Fa-f]+|\d+)(?![\w.])", s):
            v = int(m.group(1), 0)
            for dv in (1, -1):
                if v + dv < 0:
                    continue
                t = ("0x%X" % (v + dv)) if m.group(1).startswith("0x") else str(v + dv)
                yield (ln, "const%+d" % dv, raw[:m.start()] + t + raw[m.end():])
        if re.match(r"^\s*[\w\->\.\[\]\*\(\) +]+\s*(=|\|=|&=|\+=|-=)(?!=)[^;]*;\s*$", s) and not re.match(r"^\s*(const|static|int|unsigned|char|uint|vbi_|struct|register)\b", s):
            yield (ln, "del-assign", re.match(r"^\s*", raw).group(0) + ";")
        if re.match(r"^\s*(break|continue);\s*$", s):
            yield (ln, "del-" + s.strip()[:-1], re.match(r"^\s*", raw).group(0) + ";")


cands = []
for f in files:
    p = os.path.join(WT, f)
    if not os.path.exists(p):
        continue
    for name, lo, hi in functions(p):
        if names and name not in names:
            continue
        for ln, op, new in candidates(p, lo, hi):
            cands.append((f, name, ln, op, new))
rng = random.Random(a.seed * 7919 + hash(a.prop) % 1000)
rng.shuffle(cands)
print("%s: %d candidate mutants in %d functions of %s" % (a.prop, len(cands), len({(c[0], c[1]) for c in cands}), files), flush=True)
man = json.load(open(os.path.join(d, "MANIFEST.json")))
cmd = [c for c in man["checks"] if c["property_id"] == (a.check or a.prop)][0]["quick_cmd"]
os.makedirs(os.path.join(d, "mutants"), exist_ok=True)
rp = os.path.join(d, "mutants", a.prop + ("@" + a.check if a.check else "") + ".json")
res = json.load(open(rp)) if os.path.exists(rp) else {}
done = 0
for f, name, ln, op, new in cands:
    if done >= a.n:
        break
    key = "%s:%d:%s:%s" % (f, ln + 1, op, new.strip()[:60])
    if key in res:
        continue
    p = os.path.join(WT, f)
    src = open(p, errors="replace").read().split("\n")
    old = src[ln]
    src[ln] = new
    open(p, "w").write("\n".join(src))
    r = {"file": f, "function": name, "line": ln + 1, "op": op, "old": old.strip(), "new": new.strip()}
    try:
        rc, out = sh("make -C %s/src -j6 2>&1 | tail -3" % WT, timeout=900)
        rc, out = sh("make -C %s -j6 2>&1 | grep -E 'error|Error' | head -3" % WT, timeout=900)
        if out.strip():
            r["status"] = "does-not-compile"
        else:
            try:
                rc, out = sh("make -C %s -j8 check 2>&1 | grep -E '^# (PASS|FAIL|ERROR|XPASS)'" % WT, timeout=600)
            except subprocess.TimeoutExpired:
                out = "# FAIL: 1 (test suite hangs)"
            tot = sum(int(x) for x in re.findall(r"# PASS:\s+(\d+)", out))
            bad = sum(int(x) for x in re.findall(r"# (?:FAIL|ERROR|XPASS):\s+(\d+)", out))
            if tot != 19 or bad:
                r["status"] = "killed-by-tests"
            else:
                t = time.time()
                rc, out = sh(cmd, cwd=VF, env=dict(os.environ, ZVBI_REPO=WT, VERIF_SEED="1"), timeout=1500)
                v = [l for l in out.split("\n") if l.startswith("VIOLATION")]
                r["status"] = "killed" if (rc != 0 and v) else ("check-broken rc=%d" % rc if rc != 0 else "SURVIVED")
                r["line_out"] = v[0][:300] if v else ""
                r["wall"] = round(time.time() - t)
                done += 1
    except subprocess.TimeoutExpired:
        r["status"] = "timeout"
    finally:
        src[ln] = old
        open(p, "w").write("\n".join(src))
    res[key] = r
    print(key, "->", r["status"], r.get("line_out", "")[:120], flush=True)
    json.dump(res, open(rp, "w"), indent=1, sort_keys=True)
st = {}
for r in res.values():
    st[r["status"].split()[0]] = st.get(r["status"].split()[0], 0) + 1
print(a.prop, "summary", st)
