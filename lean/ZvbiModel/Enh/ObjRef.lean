import ZvbiModel.Generated.EnhGuard
import ZvbiModel.Generated.C01Facts
/-!
# Cache page references taken and released by object invocation (teletext.c `resolve_obj_address`, `enhance`,
# `default_object_invocation`, `vbi_fetch_vt_page`) - C01 "every byte released at delete", C10 reference safety

`resolve_obj_address()` looks the (G)POP page up in the cache (`_vbi_cache_get_page`: one reference), possibly converts
it (`vbi_convert_page (cached = TRUE)`: the cache hands back a referenced copy and the old page is released), and
then either hands the reference to its caller together with the first triplet of the object, or gives up - on five
different paths.  The caller (`enhance()` / `default_object_invocation()`) runs the object's triplets through a nested
`enhance()` and releases the page afterwards, whether the nested call succeeded or not.

The model keeps a ledger of the references the formatting code holds (`St.refs`, one entry per reference) and a
`fault` mark for a release of a page it holds no reference on.  What every look-up meets (`Resolve`) and what every
object contains (`objs`, cycles allowed) is ARBITRARY - the broadcast decides.  Whether a path releases the page is
not written here: it is read from the current source by translate/gen_c01.py (`unrefOn...`, `...UnrefAfter...`,
`convertReleasesOldOnSuccess`), and so are the pointer guard and the recursion guard (gen_enh.py).
-/
namespace Zvbi.Enh.ObjRef
open Zvbi.Generated.Enh Zvbi.Gen.C01

/-- the ledger -/
structure St where
  refs  : List Nat := []
  fault : Bool := false
deriving Repr, DecidableEq

/-- `_vbi_cache_get_page` / the page returned by `_vbi_cache_put_page`: one more reference on `p` -/
def St.get (s : St) (p : Nat) : St := { s with refs := p :: s.refs }

/-- `cache_page_unref (p)` -/
def St.unref (s : St) (p : Nat) : St :=
  if p ∈ s.refs then { s with refs := s.refs.erase p } else { s with fault := true }

/-- what `resolve_obj_address` meets, in the order of its tests -/
inductive Resolve
  | notCached                                   -- `_vbi_cache_get_page` returned NULL
  | convertFails (p : Nat)                      -- function UNKNOWN and vbi_convert_page returned NULL
  | wrongFunction (p : Nat)                     -- neither UNKNOWN nor POP nor the expected function
  | found (p : Nat) (converted : Option Nat)    -- page `p`; `some q`: it was of unknown function and became the copy `q`
          (pointer : Nat) (isDefinition : Bool) -- the pointer table entry; whether an object definition of the type is there
          (target : Nat)                        -- which object body follows
deriving Repr, DecidableEq

inductive Trip
  | invoke (mode : Nat) (r : Resolve)   -- object invocation, global or public source
  | fails                               -- any triplet on which `enhance` returns FALSE holding no page of its own
  | other                               -- everything else
deriving Repr, DecidableEq

abbrev Objects := Nat → List Trip

/-- `resolve_obj_address`: the ledger afterwards and, on success, (page whose reference went to the caller, object) -/
def resolve (r : Resolve) (s : St) : St × Option (Nat × Nat) :=
  match r with
  | .notCached => (if unrefOnNotCached then s.unref 0 else s, none)
  | .convertFails p =>
    let s := s.get p
    (if unrefOnConvertFail then s.unref p else s, none)
  | .wrongFunction p =>
    let s := s.get p
    (if unrefOnWrongFunction then s.unref p else s, none)
  | .found p conv pointer isDef target =>
    let s := s.get p
    let (s, p) := match conv with
      | none => (s, p)
      | some q => ((if convertReleasesOldOnSuccess then s.unref p else s).get q, q)
    if pointer > pointerLimit then (if unrefOnPointerOutOfBounds then s.unref p else s, none)
    else if !isDef then (if unrefOnNoObjectDefinition then s.unref p else s, none)
    else (s, some (p, target))

/-- `enhance`: `none` = fuel (nested activations) exhausted, else (return value, ledger) -/
def enhance (objs : Objects) : Nat → Nat → List Trip → St → Option (Bool × St)
  | 0, _, _, _ => none
  | _ + 1, _, [], s => some (true, s)
  | f + 1, type, .other :: rest, s => enhance objs (f + 1) type rest s
  | _ + 1, _, .fails :: _, s => some (false, s)
  | f + 1, type, .invoke mode r :: rest, s =>
    if skipInvocation (mode &&& typeMask) type then enhance objs (f + 1) type rest s
    else
      match resolve r s with
      | (s1, none) => some (false, s1)                       -- `if (!trip) return FALSE;`
      | (s1, some (p, target)) =>
        match enhance objs f (mode &&& typeMask) (objs target) s1 with
        | none => none
        | some (false, s2) => some (false, if enhanceUnrefAfterObjectFail then s2.unref p else s2)
        | some (true, s2) => enhance objs (f + 1) type rest (if enhanceUnrefAfterObjectDone then s2.unref p else s2)
termination_by f _ l _ => (f, l.length)

/-- `default_object_invocation`: up to two MOT default objects `(type, what the look-up meets)` -/
def defaultObjects (objs : Objects) (fuel : Nat) : List (Nat × Resolve) → St → Option (Bool × St)
  | [], s => some (true, s)
  | (type, r) :: rest, s =>
    match resolve r s with
    | (s1, none) => some (false, s1)
    | (s1, some (p, target)) =>
      match enhance objs fuel type (objs target) s1 with
      | none => none
      | some (false, s2) => some (false, if defaultUnrefAfterObjectFail then s2.unref p else s2)
      | some (true, s2) => defaultObjects objs fuel rest (if defaultUnrefAfterObjectDone then s2.unref p else s2)

/-- `vbi_fetch_vt_page` at Level 2.5 / 3.5: reference on the page itself, local enhancement data (`some trips`) or
the MOT default objects, release of the page -/
def fetch (objs : Objects) (fuel page : Nat) (x26 : Option (List Trip)) (defaults : List (Nat × Resolve)) : Option (Bool × St) :=
  let s := ({} : St).get page
  let r := match x26 with
    | some trips => enhance objs fuel localEnhancementData trips s
    | none => defaultObjects objs fuel defaults s
  r.map fun (ok, s) => (ok, s.unref page)

end Zvbi.Enh.ObjRef
