import ZvbiModel.Generated.C01Cells
import ZvbiModel.Generated.C01Facts
import ZvbiModel.Generated.EnhGuard
/-!
# The ADDRESS part of `teletext.c enhance()` (C01: no access outside `pg->text[]`, `lop.raw[][]`, `drcs_s1[]`,
# `pg->drcs[]`, `vbi_font_descriptors[]`, the triplet arrays; colour values inside `pg->color_map[]`)

`enhance()` walks X/26 / object triplets and keeps an active position: `inv_row`, `inv_column` (where the object was
invoked), `active_row`, `active_column`, the origin modifier `offset_row`, `offset_column`, and the row pointer
`es.acp = &pg->text[(inv_row + active_row) * EXT_COLUMNS]`.  `enhance_flush()` applies the pending attributes to the cells
`inv_column + active_column ... inv_column + column - 1` of that row through `es->acp[i]`, for LOCAL / ACTIVE data it also
reads the Level 1 page `vtp->data.lop.raw[row][i - 1]`, `[row][i]`.  Broadcast data decides every triplet, also those of
the objects (POP / GPOP pages, local objects), so all of them are ARBITRARY here.

The model keeps exactly what decides an address and follows the C text statement by statement; cell contents are not
modelled (no address depends on them; the one exception, the box terminator peek, depends on the Level 1 page, which is
a parameter).  Every read / write is logged as `(site, index)`; nothing is clamped in the model: an index the C code
would form is the index that is logged.  Every guard, mask and loop bound is a definition of `Generated/C01Cells.lean`
(translate/gen_c01cells.py reads them from the current source), the recursion guard comes from `Generated/EnhGuard.lean`,
the POP pointer limit from `Generated/C01Facts.lean`.
-/
namespace Zvbi.Enh.Cells
open Zvbi.Gen.C01Cells

structure Trip where
  address : Nat
  mode : Nat
  data : Nat
deriving Repr, DecidableEq

/-- an element nobody stored: `memset (..., 0xFF, ...)` -/
def fillTrip : Trip := ⟨tripFill, tripFill, tripFill⟩

inductive Site
  | text       -- `pg->text[index]` (through `es->acp[i]`, `acp[col]`, post_enhance, column_41, the Level 1 double height copy)
  | rawRow     -- first index of `vtp->data.lop.raw[row][col]`
  | rawCol     -- second index
  | s1         -- `drcs_s1[index]`
  | drcsSlot   -- `pg->drcs[index]`
  | drcsGlyph  -- glyph number: bit of `drcs.invalid`, element of `drcs.chars[]` the cell refers to
  | font       -- `vbi_font_descriptors[index]`
  | color      -- a value stored as foreground / background / row / screen colour = index into `pg->color_map[]`
  | enh        -- `vtp->data.enh_lop.enh[index]`
  | pop        -- `pop.triplet[index]` of the object page
deriving Repr, DecidableEq

abbrev Access := Site × Nat

/-- what the formatted page and the cache supply; all of it is decided by the broadcast -/
structure Env where
  maxLevel : Nat                 -- vbi_wst_level (0 = 1, 1 = 1.5, 2 = 2.5, 3 = 3.5)
  headerOnly : Bool              -- `display_rows == 1`
  x26d0 : Bool                   -- `vtp->x26_designations & 1`
  enh : List Trip                -- `vtp->data.enh_lop.enh[]`
  raw : Nat → Nat → Nat          -- `vbi_unpar8 (vtp->data.lop.raw[row][col])` (a parity error is any value ≥ 0x20)
  /-- global / public object: everything between `source` and the return of resolve_obj_address for
      (new_type, address, data): `none` = `return FALSE`, `some (pointer, pop.triplet[])` -/
  pop : Nat → Nat → Nat → Option (Nat × List Trip)
  /-- DRCS look-up for (normal, s1, offset): page found, right function, glyph not marked invalid -/
  drcs : Nat → Nat → Nat → Bool

structure ES where
  type : Nat
  invRow : Nat
  invCol : Nat
  activeRow : Nat := 0
  activeCol : Nat := 0
  acp : Nat                      -- `es.acp - pg->text`
  macUnicode : Bool := false     -- `es.mac.unicode != 0`
deriving Repr, DecidableEq

/-- iterations granted to the flush / style column loops; `flush_terminates` shows it is never used up -/
def colFuel : Nat := extColumns + 1

/-- the loop of enhance_flush from `i` on; `none` = fuel used up.  Result: `mac.unicode` afterwards, the log. -/
def flushLoop (env : Env) (type row acp limit : Nat) : Nat → Nat → Bool → List Access → Option (Bool × List Access)
  | 0, _, _, _ => none
  | fuel + 1, i, mu, log =>
    if !flushLoopRuns i limit then some (mu, log)
    else if flushColBreaks i then some (mu, log)
    else
      let log := log ++ [(.text, acp + i), (.text, acp + i)]        -- `c = es->acp[i]; ... es->acp[i] = c;`
      if type = typePassive then some (false, log)
      else
        let i := i + 1
        if type ≠ typePassive ∧ type ≠ typeAdaptive then
          let r1 := if flushRawAfterSkips row i then 0x20 else env.raw row (i - 1)
          let log := if flushRawAfterSkips row i then log else log ++ [(.rawRow, row), (.rawCol, i - 1)]
          let log := if (r1 = 0x0A ∨ r1 = 0x0B) ∧ flushBoxPeeks i then log ++ [(.rawRow, row), (.rawCol, i)] else log
          if flushColBreaks2 i then some (false, log)
          else
            let log := if flushRawAtSkips row i then log else log ++ [(.rawRow, row), (.rawCol, i)]
            flushLoop env type row acp limit fuel i false log
        else flushLoop env type row acp limit fuel i false log

/-- `enhance_flush (es, column)` -/
def flush (env : Env) (es : ES) (column : Nat) : Option (ES × List Access) :=
  let row := es.invRow + es.activeRow
  if flushRowSkips row then some (es, [])
  else if es.type = typePassive ∧ es.macUnicode = false then some ({ es with activeCol := column }, [])
  else
    match flushLoop env es.type row es.acp (es.invCol + column) colFuel (es.invCol + es.activeCol) es.macUnicode [] with
    | none => none
    | some (mu, log) => some ({ es with activeCol := column, macUnicode := mu }, log)

/-- `enhance_flush_row (es)` -/
def flushRow (env : Env) (es : ES) : Option (ES × List Access) :=
  let column := if es.type = typePassive ∨ es.type = typeAdaptive then es.activeCol + flushRowObjectAdvance else flushRowColumn
  match flush env es column with
  | none => none
  | some (es', log) => some (if es'.type ≠ typePassive then { es' with macUnicode := false } else es', log)

/-- state of the triplet loop of one `enhance()` activation -/
structure LSt where
  es : ES
  offRow : Nat := 0
  offCol : Nat := 0
  s1g : Nat := 0                 -- `drcs_s1[0]`
  s1n : Nat := 0                 -- `drcs_s1[1]`
  pdcHr : Bool := false
  skipping : Bool := false       -- inside the header_only skip loop (`display_rows == 1`)
deriving Repr, DecidableEq

inductive CallSrc
  | loc (start : Nat)                          -- local object: `enh + designation * 13 + triplet`
  | pop (pointer : Nat) (arr : List Trip)      -- resolve_obj_address succeeded
deriving Repr, DecidableEq

inductive Step
  | cont (st : LSt) (log : List Access)
  | done (ok : Bool) (log : List Access)       -- `return` / `goto swedish`
  | call (st : LSt) (newType : Nat) (src : CallSrc)
  | hang                                       -- a column loop used up its fuel
deriving Repr, DecidableEq

/-- the `set_active:` label -/
def setActive (env : Env) (st : LSt) (row column : Nat) : Step :=
  if env.headerOnly ∧ row > 0 then .cont { st with skipping := true } []
  else
    match (if row > st.es.activeRow then flushRow env st.es else flush env st.es (st.es.activeCol + 1)) with
    | none => .hang
    | some (es, log) =>
      .cont { st with es := { es with activeRow := row, activeCol := column, acp := (es.invRow + row) * extColumns } } log

/-- `enhance_flush_row (&es); goto swedish;` -/
def terminate (env : Env) (st : LSt) : Step :=
  match flushRow env st.es with
  | none => .hang
  | some (_, log) => .done true log

/-- modes 0x07 (address 0x3F) and 0x01: full row colour, then `goto set_active` with column 0 -/
def rowColorStep (env : Env) (st : LSt) (t : Trip) : Step :=
  let s := t.data >>> 5
  let row := if t.mode = 0x07 then 0 else rowOfAddress t.address
  let log := if s = 0 ∨ s = 3 then [(Site.color, t.data &&& colorMask)] else []
  match setActive env st row 0 with
  | .cont st' l => .cont st' (log ++ l)
  | x => x

/-- mode 0x04: set active position -/
def setPosStep (env : Env) (st : LSt) (t : Trip) : Step :=
  if env.maxLevel ≥ level2p5 then
    if setActiveColumnRejects t.data then .cont st [] else setActive env st (rowOfAddress t.address) t.data
  else setActive env st (rowOfAddress t.address) 0

/-- mode 0x10: origin modifier -/
def originStep (env : Env) (st : LSt) (t : Trip) : Step :=
  if env.maxLevel < level2p5 then .cont st []
  else if originRejects t.data then .cont st []
  else .cont { st with offCol := t.data, offRow := t.address - columns } []

/-- modes 0x11 ... 0x13: object invocation up to the recursive call -/
def invokeStep (env : Env) (st : LSt) (t : Trip) : Step :=
  let ty := st.es.type
  let newType := t.mode &&& Zvbi.Generated.Enh.typeMask
  let source := (t.address >>> 3) &&& 3
  if env.maxLevel < level2p5 then .cont st []
  else if Zvbi.Generated.Enh.skipInvocation newType ty then .cont st []
  else if source = 0 then .cont st []
  else if source = 1 then
    if ty ≠ typeLocal ∨ localTripletRejects (localTriplet t.data) then .cont st []
    else if !env.x26d0 then .done false []
    else .call st newType (.loc (localStart t.address t.data))
  else
    match env.pop newType t.address t.data with
    | none => .done false []
    | some (pointer, arr) => .call st newType (.pop pointer arr)

/-- mode 0x18: DRCS mode -/
def drcsModeStep (st : LSt) (t : Trip) : Step :=
  let st' := if drcsModeIndex t.data = 0 then { st with s1g := drcsModeValue t.data }
             else if drcsModeIndex t.data = 1 then { st with s1n := drcsModeValue t.data } else st
  .cont st' [(.s1, drcsModeIndex t.data)]

/-- a row address triplet -/
def rowStep (env : Env) (st : LSt) (t : Trip) : Step :=
  if st.pdcHr then .done false []
  else if t.mode = 0x00 then
    if env.maxLevel ≥ level2p5 ∧ t.data >>> 5 = 0 ∧ st.es.type ≤ typeActive then .cont st [(.color, t.data &&& colorMask)] else .cont st []
  else if t.mode = 0x07 ∧ t.address ≠ row0Address then .cont st []
  else if t.mode = 0x07 ∨ t.mode = 0x01 then rowColorStep env st t
  else if t.mode = 0x04 then setPosStep env st t
  else if t.mode = 0x0B then .cont { st with pdcHr := true } []
  else if t.mode = 0x10 then originStep env st t
  else if 0x11 ≤ t.mode ∧ t.mode ≤ 0x13 then invokeStep env st t
  else if 0x15 ≤ t.mode ∧ t.mode ≤ 0x17 then terminate env st
  else if t.mode = 0x18 then drcsModeStep st t
  else if t.mode ≥ 0x1F then terminate env st
  else .cont st []

/-- `if (column > es.active_column) enhance_flush (&es, column);` -/
def flushTo (env : Env) (es : ES) (column : Nat) : Option (ES × List Access) :=
  if column > es.activeCol then flush env es column else some (es, [])

/-- columns `col ...` of one row of the font style loop; `none` = fuel used up -/
def styleCols (base : Nat) : Nat → Nat → List Access → Option (List Access)
  | 0, _, _ => none
  | fuel + 1, col, log => if styleColRuns col then styleCols base fuel (col + 1) (log ++ [(.text, base + col)]) else some log

/-- `while (row < ROWS && count > 0) { for (col ...) acp[col]...; acp += EXT_COLUMNS; row++; count--; }` -/
def styleRows (col0 : Nat) : Nat → Nat → Nat → List Access → Option (List Access)
  | 0, _, _, log => some log
  | count + 1, row, acp, log =>
    if styleRowRuns row then
      match styleCols acp colFuel col0 log with
      | none => none
      | some log => styleRows col0 count (row + 1) (acp + extColumns) log
    else some log

/-- flush up to the column of the triplet, then `f` on the new state -/
def withFlush (env : Env) (st : LSt) (column : Nat) (f : ES → List Access → Step) : Step :=
  match flushTo env st.es column with
  | none => .hang
  | some (es, log) => f es log

/-- `store:` a character is pending (`es.mac.unicode = ~0`) -/
def storeCh (st : LSt) (es : ES) (log : List Access) : Step := .cont { st with es := { es with macUnicode := true } } log
def keepSt (st : LSt) (es : ES) (log : List Access) : Step := .cont { st with es := es } log

/-- mode 0x0D: DRCS character invocation -/
def drcsStep (env : Env) (st : LSt) (t : Trip) : Step :=
  let normal := drcsNormal t.data
  let offset := drcsOffset t.data
  if env.maxLevel < level2p5 then .cont st []
  else if drcsOffsetRejects offset then .cont st []
  else withFlush env st t.address fun es log =>
    let s1 := if normal = 0 then st.s1g else st.s1n
    if env.drcs normal s1 offset then
      storeCh st es (log ++ [(.s1, normal)] ++ [(.drcsGlyph, offset), (.drcsSlot, drcsPage normal s1)])
    else .done false (log ++ [(.s1, normal)])

/-- mode 0x0E: font style -/
def styleStep (env : Env) (st : LSt) (t : Trip) : Step :=
  if env.maxLevel < level3p5 then .cont st []
  else
    let row := st.es.invRow + st.es.activeRow
    match styleRows (st.es.invCol + t.address) ((t.data >>> 4) + 1) row (row * extColumns) [] with
    | none => .hang
    | some log => .cont st log

/-- a column address triplet -/
def colStep (env : Env) (st : LSt) (t : Trip) : Step :=
  let l25 := env.maxLevel ≥ level2p5
  if t.mode = 0x00 ∨ t.mode = 0x03 then
    if l25 ∧ t.data >>> 5 = 0 then withFlush env st t.address fun es log => keepSt st es (log ++ [(.color, t.data &&& colorMask)]) else .cont st []
  else if t.mode = 0x01 then
    if l25 then withFlush env st t.address fun es log => if t.data &&& 0x20 ≠ 0 ∨ t.data ≥ 0x40 then storeCh st es log else keepSt st es log
    else .cont st []
  else if t.mode = 0x0B ∧ ¬ l25 then .cont st []
  else if t.mode = 0x02 ∨ t.mode = 0x0B then
    if t.data ≥ 0x20 then withFlush env st t.address (storeCh st) else .cont st []
  else if t.mode = 0x07 ∨ t.mode = 0x0C then
    if l25 then withFlush env st t.address (keepSt st) else .cont st []
  else if t.mode = 0x08 then
    if l25 then withFlush env st t.address fun es log => keepSt st es (if validSetInTable t.data then log ++ [(.font, t.data)] else log) else .cont st []
  else if t.mode = 0x09 then
    if l25 ∧ t.data ≥ 0x20 then withFlush env st t.address (storeCh st) else .cont st []
  else if t.mode = 0x0D then drcsStep env st t
  else if t.mode = 0x0E then styleStep env st t
  else if t.mode = 0x0F ∨ (0x10 ≤ t.mode ∧ t.mode ≤ 0x1F) then
    if t.data ≥ 0x20 then withFlush env st t.address (storeCh st) else .cont st []
  else .cont st []

def step (env : Env) (st : LSt) (t : Trip) : Step :=
  if isRowTriplet t.address then rowStep env st t else colStep env st t

/-- number of elements of the array a site stands for -/
def siteLen : Site → Nat
  | .enh => enhLen
  | .pop => popTripletLen
  | _ => 0

abbrev Nested := Nat → Nat → Nat → Site → List Trip → Nat → Nat → Option (Bool × List Access)

/-- `for (; max_triplets > 0; p++, max_triplets--)` over `arr[idx ...]`, `count` = `max_triplets`;
`nested type inv_row inv_column site arr start count` is the recursive `enhance()`.  `none` = some bound was used up. -/
def loop (nested : Nested) (env : Env) (site : Site) (arr : List Trip) : Nat → Nat → LSt → Option (Bool × List Access)
  | 0, _, _ => some (true, [])
  | n + 1, idx, st =>
    let t := arr.getD idx fillTrip
    let rd : List Access := [(site, idx)]
    /- header_only: `p[1]` is looked at; a row address triplet of mode 0x07 ends the skipping and is processed -/
    let st := if st.skipping ∧ t.address ≥ columns ∧ t.mode = 0x07 then { st with skipping := false } else st
    if st.skipping then
      if t.address ≥ columns ∧ t.mode ≥ skipTerminatesFrom then
        match terminate env st with
        | .done ok log => some (ok, rd ++ log)
        | _ => none
      else (loop nested env site arr n (idx + 1) st).map fun (ok, l) => (ok, rd ++ l)
    else
      match step env st t with
      | .hang => none
      | .done ok log => some (ok, rd ++ log)
      | .cont st' log => (loop nested env site arr n (idx + 1) st').map fun (ok, l) => (ok, rd ++ log ++ l)
      | .call st' newType src =>
        let row := st'.es.invRow + st'.es.activeRow + st'.offRow
        let col := st'.es.invCol + st'.es.activeCol + st'.offCol
        let r := match src with
          | .loc start => nested newType row col .enh env.enh start (enhLen - start)
          | .pop pointer arr' => nested newType row col .pop arr' (pointer + 1) (popTripletLen - (pointer + 1))
        match r with
        | none => none
        | some (false, l) => some (false, rd ++ l)
        | some (true, l) =>
          (loop nested env site arr n (idx + 1) { st' with offRow := 0, offCol := 0 }).map fun (ok, l') => (ok, rd ++ l ++ l')

def initES (type invRow invCol : Nat) : ES :=
  { type := type, invRow := invRow, invCol := invCol, acp := (invRow + 0) * extColumns }

/-- `enhance (..., type, p, max_triplets, inv_row, inv_column, ...)`; `fuel` = nested activations allowed -/
def enhance (env : Env) : Nat → Nested
  | 0, _, _, _, _, _, _, _ => none
  | f + 1, type, invRow, invCol, site, arr, start, count =>
    loop (enhance env f) env site arr count start { es := initES type invRow invCol }

/-- vbi_format_vt_page: the page's own X/26 data, the whole array, at (0, 0) -/
def enhancePage (env : Env) (fuel : Nat) : Option (Bool × List Access) :=
  enhance env fuel typeLocal 0 0 .enh env.enh 0 enhLen

/-- default_object_invocation: up to two objects `(type, outcome of resolve_obj_address)` at (0, 0) -/
def defaultObjects (env : Env) (fuel : Nat) : List (Nat × Option (Nat × List Trip)) → Option (Bool × List Access)
  | [] => some (true, [])
  | (_, none) :: _ => some (false, [])
  | (type, some (pointer, arr)) :: rest =>
    match enhance env fuel type 0 0 .pop arr (pointer + 1) (popTripletLen - (pointer + 1)) with
    | none => none
    | some (false, l) => some (false, l)
    | some (true, l) => (defaultObjects env fuel rest).map fun (ok, l') => (ok, l ++ l')

/-! ## post_enhance, column_41, the Level 1 double height copy: cell contents decide WHICH of the guarded accesses
happen, so the contents are an arbitrary oracle (`size row column` = the case of the `switch`) -/

/-- one cell of post_enhance at `acp = row * EXT_COLUMNS + column` -/
def postCell (size : Nat → Nat → Nat) (lastRow : Int) (row column : Nat) : List Access :=
  let acp := row * extColumns + column
  let rd : List Access := [(.text, acp)]
  let below : List Access := if postBelowOk row lastRow then [(.text, acp + extColumns)] else []
  let below2 : List Access := if postBelowOk row lastRow then [(.text, acp + extColumns), (.text, acp + extColumns + 1)] else []
  let next : List Access := if postNextOk column then [(.text, acp + 1)] else []
  match size row column with
  | 0 => rd ++ below ++ next          -- VBI_NORMAL_SIZE
  | 2 => rd ++ below                  -- VBI_DOUBLE_HEIGHT
  | 3 => rd ++ below2 ++ next         -- VBI_DOUBLE_SIZE, falls through
  | 1 => rd ++ next                   -- VBI_DOUBLE_WIDTH
  | _ => rd

def postCols (size : Nat → Nat → Nat) (lastRow : Int) (row : Nat) : Nat → Nat → List Access
  | 0, _ => []
  | fuel + 1, column => if postColRuns column then postCell size lastRow row column ++ postCols size lastRow row fuel (column + 1) else []

def postRows (size : Nat → Nat → Nat) (lastRow : Int) : Nat → Nat → List Access
  | 0, _ => []
  | fuel + 1, row => if postRowRuns row lastRow then postCols size lastRow row colFuel 0 ++ postRows size lastRow fuel (row + 1) else []

/-- `post_enhance (pg, display_rows)` -/
def postEnhance (size : Nat → Nat → Nat) (displayRows : Nat) : List Access :=
  postRows size ((min displayRows rows : Nat) - (postLastRowSub : Int)) (rows + 1) 0

/-- the double height copy of the Level 1 loop for `row`: `acp[EXT_COLUMNS + column]`, double size `acp[EXT_COLUMNS + (++column)]` -/
def l1Copy (size : Nat → Nat → Nat) (row : Nat) : Nat → Nat → List Access
  | 0, _ => []
  | fuel + 1, column =>
    if l1CopyRuns column then
      let acp := row * extColumns
      if size row column = 3 then
        [(.text, acp + column), (.text, acp + extColumns + column), (.text, acp + extColumns + (column + 1))] ++ l1Copy size row fuel (column + 2)
      else [(.text, acp + column), (.text, acp + extColumns + column)] ++ l1Copy size row fuel (column + 1)
    else []

/-- column_41 with body loops `for (row = lo; row <= hi; ++row)`: the cells it reads and writes (`gfx`: which branch) -/
def column41 (lo hi : Nat) (pgRows : Nat) : List Access :=
  let header : List Access := [(.text, col41ReadCol), (.text, col41WriteCol)]
  if pgRows = 1 then header
  else
    let n := hi + 1 - lo
    let scan := (List.range (col41ScanHi + 1 - col41ScanLo)).flatMap fun k =>
      let acp := col41Stride + k * col41Stride
      [(Site.text, acp + 0), (.text, acp + 39), (.text, acp + 38)]
    let body := (List.range n).flatMap fun k =>
      let acp := col41Stride + k * col41Stride
      [(Site.text, acp + col41ReadCol), (.text, acp + col41WriteCol)]
    let acp := col41Stride + n * col41Stride
    header ++ scan ++ body ++ [(.text, acp + col41ReadCol), (.text, acp + col41WriteCol)]

/-! ## character sets -/

/-- character_set_designation: the indices it adds to `vbi_font_descriptors` for one X/28 / M/29 code and national option -/
def charsetDesignation (charsetCode national : Nat) : List Access :=
  let a : List Access := if validSetInTable charsetCode then [(.font, charsetCode)] else []
  let c2 := charsetCode / 8 * 8 + national        -- `(charset_code & ~7) + vtp->national`
  a ++ (if validSetInTable c2 then [(.font, c2)] else [])

/-! ## what "in range" means for every site -/

def ok : Access → Bool
  | (.text, i) => decide (i < textLen)
  | (.rawRow, r) => decide (r < rawRows)
  | (.rawCol, c) => decide (c < rawCols)
  | (.s1, i) => decide (i < drcsS1Len)
  | (.drcsSlot, i) => decide (i < pageDrcsLen)
  | (.drcsGlyph, g) => decide (g < drcsGlyphs ∧ g < invalidBits)
  | (.font, i) => decide (i < fontLen)
  | (.color, c) => decide (c < colorMapLen)
  | (.enh, i) => decide (i < enhLen)
  | (.pop, i) => decide (i < popTripletLen)

def AllOk (log : List Access) : Prop := ∀ a ∈ log, ok a = true

instance (log : List Access) : Decidable (AllOk log) := by unfold AllOk; infer_instance

/-- what the two writers of packet.c store, or the fill -/
def TripOK (t : Trip) : Prop :=
  (t.address ≤ tripAddressMask ∧ t.mode ≤ tripModeMask ∧ t.data ≤ tripDataMax) ∨ t = fillTrip

instance (t : Trip) : Decidable (TripOK t) := by unfold TripOK; infer_instance

structure EnvOK (env : Env) : Prop where
  enhLen : env.enh.length = enhLen
  enhTrips : ∀ t ∈ env.enh, TripOK t
  popPtr : ∀ nt a d p arr, env.pop nt a d = some (p, arr) → p ≤ Zvbi.Gen.C01.pointerLimit ∧ arr.length = popTripletLen ∧ ∀ t ∈ arr, TripOK t

end Zvbi.Enh.Cells
