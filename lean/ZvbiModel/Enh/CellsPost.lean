import ZvbiModel.Enh.CellsLemmas
/-!
# post_enhance, the Level 1 double height copy, column_41, character_set_designation: every cell index in range
-/
namespace Zvbi.Enh.Cells
open Zvbi.Gen.C01Cells

theorem postCell_ok (size : Nat → Nat → Nat) (lastRow : Int) (hl : lastRow ≤ 23) (row column : Nat)
    (hr : postRowRuns row lastRow = true) (hc : postColRuns column = true) : AllOk (postCell size lastRow row column) := by
  have hr : (row : Int) ≤ lastRow := by simpa [postRowRuns] using hr
  have hc : column < 40 := by simpa [postColRuns] using hc
  have h0 : ok (.text, row * extColumns + column) = true := by simp [textLen, extColumns]; omega
  have hb1 : ∀ h : postBelowOk row lastRow = true, ok (.text, row * extColumns + column + extColumns) = true := by
    intro h; have : (row : Int) < lastRow := by simpa [postBelowOk] using h
    simp [textLen, extColumns]; omega
  have hb2 : ∀ h : postBelowOk row lastRow = true, ok (.text, row * extColumns + column + extColumns + 1) = true := by
    intro h; have : (row : Int) < lastRow := by simpa [postBelowOk] using h
    simp [textLen, extColumns]; omega
  have hn : ∀ h : postNextOk column = true, ok (.text, row * extColumns + column + 1) = true := by
    intro h; simp [textLen, extColumns]; omega
  have hrd : AllOk [(Site.text, row * extColumns + column)] := AllOk_cons.mpr ⟨h0, AllOk_nil⟩
  have hbelow : AllOk (if postBelowOk row lastRow then [(Site.text, row * extColumns + column + extColumns)] else []) := by
    split
    · rename_i h; exact AllOk_cons.mpr ⟨hb1 h, AllOk_nil⟩
    · exact AllOk_nil
  have hbelow2 : AllOk (if postBelowOk row lastRow then [(Site.text, row * extColumns + column + extColumns), (Site.text, row * extColumns + column + extColumns + 1)] else []) := by
    split
    · rename_i h; exact AllOk_pair.mpr ⟨hb1 h, hb2 h⟩
    · exact AllOk_nil
  have hnext : AllOk (if postNextOk column then [(Site.text, row * extColumns + column + 1)] else []) := by
    split
    · rename_i h; exact AllOk_cons.mpr ⟨hn h, AllOk_nil⟩
    · exact AllOk_nil
  unfold postCell
  simp only
  split
  · exact AllOk_append.mpr ⟨AllOk_append.mpr ⟨hrd, hbelow⟩, hnext⟩
  · exact AllOk_append.mpr ⟨hrd, hbelow⟩
  · exact AllOk_append.mpr ⟨AllOk_append.mpr ⟨hrd, hbelow2⟩, hnext⟩
  · exact AllOk_append.mpr ⟨hrd, hnext⟩
  · exact hrd

theorem postCols_ok (size : Nat → Nat → Nat) (lastRow : Int) (hl : lastRow ≤ 23) (row : Nat) (hr : postRowRuns row lastRow = true) :
    ∀ fuel column, AllOk (postCols size lastRow row fuel column) := by
  intro fuel
  induction fuel with
  | zero => intro _; exact AllOk_nil
  | succ f ih =>
    intro column
    unfold postCols
    split
    · rename_i hc
      exact AllOk_append.mpr ⟨postCell_ok size lastRow hl row column hr hc, ih _⟩
    · exact AllOk_nil

theorem postRows_ok (size : Nat → Nat → Nat) (lastRow : Int) (hl : lastRow ≤ 23) : ∀ fuel row, AllOk (postRows size lastRow fuel row) := by
  intro fuel
  induction fuel with
  | zero => intro _; exact AllOk_nil
  | succ f ih =>
    intro row
    unfold postRows
    split
    · rename_i hr
      exact AllOk_append.mpr ⟨postCols_ok size lastRow hl row hr _ _, ih _⟩
    · exact AllOk_nil

theorem postEnhance_ok (size : Nat → Nat → Nat) (displayRows : Nat) : AllOk (postEnhance size displayRows) := by
  unfold postEnhance
  apply postRows_ok
  have : min displayRows rows ≤ 25 := by simp [rows]; omega
  simp [postLastRowSub]; omega

theorem l1Copy_ok (size : Nat → Nat → Nat) (row : Nat) (hr : l1DoubleRowOk row = true) : ∀ fuel column, AllOk (l1Copy size row fuel column) := by
  have hr : row < 23 := by simp [l1DoubleRowOk] at hr; omega
  intro fuel
  induction fuel with
  | zero => intro _; exact AllOk_nil
  | succ f ih =>
    intro column
    unfold l1Copy
    split
    · rename_i hc
      have hc : column < 41 := by simpa [l1CopyRuns] using hc
      simp only
      split
      · refine AllOk_append.mpr ⟨?_, ih _⟩
        refine AllOk_cons.mpr ⟨?_, AllOk_pair.mpr ⟨?_, ?_⟩⟩ <;> (simp [textLen, extColumns]; omega)
      · refine AllOk_append.mpr ⟨?_, ih _⟩
        refine AllOk_pair.mpr ⟨?_, ?_⟩ <;> (simp [textLen, extColumns]; omega)
    · exact AllOk_nil

theorem column41_ok (lo hi pgRows : Nat) (h : hi + 1 - lo ≤ rows - 2) : AllOk (column41 lo hi pgRows) := by
  have h : hi + 1 - lo ≤ 23 := by simpa [rows] using h
  unfold column41
  simp only
  have hh : AllOk [(Site.text, col41ReadCol), (Site.text, col41WriteCol)] := by
    apply AllOk_pair.mpr; simp [textLen, col41ReadCol, col41WriteCol]
  split
  · exact hh
  · refine AllOk_append.mpr ⟨AllOk_append.mpr ⟨AllOk_append.mpr ⟨hh, ?_⟩, ?_⟩, ?_⟩
    · intro a ha
      simp only [List.mem_flatMap, List.mem_range] at ha
      obtain ⟨k, hk, ha⟩ := ha
      simp [col41ScanHi, col41ScanLo] at hk
      simp at ha
      rcases ha with rfl | rfl | rfl <;> (simp [textLen, col41Stride]; omega)
    · intro a ha
      simp only [List.mem_flatMap, List.mem_range] at ha
      obtain ⟨k, hk, ha⟩ := ha
      simp at ha
      rcases ha with rfl | rfl <;> (simp [textLen, col41Stride, col41ReadCol, col41WriteCol]; omega)
    · apply AllOk_pair.mpr
      constructor <;> (simp [textLen, col41Stride, col41ReadCol, col41WriteCol]; omega)

theorem charsetDesignation_ok (code national : Nat) : AllOk (charsetDesignation code national) := by
  unfold charsetDesignation
  simp only
  apply AllOk_append.mpr
  constructor
  · split
    · rename_i h; exact AllOk_cons.mpr ⟨font_ok_of _ h, AllOk_nil⟩
    · exact AllOk_nil
  · split
    · rename_i h; exact AllOk_cons.mpr ⟨font_ok_of _ h, AllOk_nil⟩
    · exact AllOk_nil

end Zvbi.Enh.Cells
