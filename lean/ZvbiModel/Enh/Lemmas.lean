import ZvbiModel.Enh.Model
namespace Zvbi.Enh
open Zvbi.Generated.Enh

theorem mask_le (mode : Nat) : mode &&& typeMask ≤ maxObjectType := by
  have : mode &&& typeMask ≤ typeMask := Nat.and_le_right
  simpa [typeMask, maxObjectType] using this

/-- core induction: `fuel` nested activations suffice whenever `fuel ≥ 1` and `fuel + type ≥ maxObjectType + 1` -/
theorem enhance_isSome (objs : Objects) :
    ∀ (fuel type : Nat) (trips : List Trip), 1 ≤ fuel → maxObjectType + 1 ≤ fuel + type →
      (enhance objs fuel type trips).isSome := by
  intro fuel
  induction fuel with
  | zero => intro _ _ h; omega
  | succ f ih =>
    intro type trips _ hft
    induction trips with
    | nil => simp [enhance]
    | cons t rest ihr =>
      cases t with
      | other => simpa [enhance] using ihr
      | invoke mode target =>
        unfold enhance
        split
        · exact ihr
        · rename_i hskip
          have hgt : type < mode &&& typeMask := by
            simp [skipInvocation] at hskip; omega
          have hle := mask_le mode
          have h1 : 1 ≤ f := by simp [maxObjectType] at hle hft; omega
          have h2 : maxObjectType + 1 ≤ f + (mode &&& typeMask) := by omega
          have := ih (mode &&& typeMask) (objs target) h1 h2
          cases hrec : enhance objs f (mode &&& typeMask) (objs target) with
          | none => simp [hrec] at this
          | some n =>
            simp only
            cases hr : enhance objs (f + 1) type rest with
            | none => simp [hr] at ihr
            | some k => simp
end Zvbi.Enh
