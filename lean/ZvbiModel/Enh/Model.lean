import ZvbiModel.Generated.EnhGuard
/-!
# Recursion structure of `teletext.c enhance()` (C01: "never loops forever", bounded stack)

`enhance()` walks a list of X/26 / object triplets; an object-invocation triplet (mode 0x11..0x13) resolves an
object address - in the page's own packets, in a POP or GPOP page - and calls `enhance()` recursively on the
triplets found there.  Broadcast data decides what every object contains, so objects may reference each other in
cycles.  This model keeps exactly what matters for termination: the triplet list of every object is ARBITRARY
(`Objects := Nat → List Trip`, cycles allowed), the invoked type is `mode &&& typeMask`, and the recursive call
is skipped when `skipInvocation newType type` - both taken from the current source by translate/gen_enh.py.
`fuel` counts nested calls; `none` = fuel exhausted = the C code would still be recursing.
-/
namespace Zvbi.Enh
open Zvbi.Generated.Enh

inductive Trip
  | invoke (mode : Nat) (target : Nat)   -- object invocation with a resolvable address
  | other                                -- every other triplet (no recursion)
deriving Repr, DecidableEq

abbrev Objects := Nat → List Trip

/-- number of nested `enhance` activations performed, `none` if `fuel` nested activations were not enough -/
def enhance (objs : Objects) : Nat → Nat → List Trip → Option Nat
  | 0, _, _ => none
  | _ + 1, _, [] => some 0
  | f + 1, type, .other :: rest => enhance objs (f + 1) type rest
  | f + 1, type, .invoke mode target :: rest =>
    if skipInvocation (mode &&& typeMask) type then enhance objs (f + 1) type rest
    else
      match enhance objs f (mode &&& typeMask) (objs target) with
      | none => none
      | some n => (enhance objs (f + 1) type rest).map (· + n + 1)
termination_by f _ l => (f, l.length)

/-- depth of the deepest activation chain actually reached (for the non-vacuity examples) -/
def depth (objs : Objects) : Nat → Nat → List Trip → Nat
  | 0, _, _ => 0
  | _ + 1, _, [] => 1
  | f + 1, type, .other :: rest => depth objs (f + 1) type rest
  | f + 1, type, .invoke mode target :: rest =>
    if skipInvocation (mode &&& typeMask) type then depth objs (f + 1) type rest
    else max (1 + depth objs f (mode &&& typeMask) (objs target)) (depth objs (f + 1) type rest)
termination_by f _ l => (f, l.length)

end Zvbi.Enh
