import ZvbiModel.Enh.CellsLemmas
/-!
# The triplet loop and the nesting of `enhance()` activations: safety of every logged access, and termination
-/
namespace Zvbi.Enh.Cells
open Zvbi.Gen.C01Cells

/-- what the triplet loop needs from the recursive `enhance`: safe on every window of a well-formed array -/
def NestedOK (nested : Nested) : Prop :=
  ∀ (type r c : Nat) (site : Site) (arr : List Trip) (start count : Nat) (res : Bool × List Access),
    (site = .enh ∨ site = .pop) → arr.length = siteLen site → (∀ t ∈ arr, TripOK t) → count ≤ siteLen site - start →
    nested type r c site arr start count = some res → AllOk res.2

theorem fill_ok : TripOK fillTrip := Or.inr rfl

theorem getD_ok (arr : List Trip) (harr : ∀ t ∈ arr, TripOK t) (idx : Nat) : TripOK (arr.getD idx fillTrip) := by
  rw [List.getD_eq_getElem?_getD]
  cases h : arr[idx]? with
  | none => exact fill_ok
  | some t => exact harr t (List.mem_of_getElem? h)

theorem site_ok (site : Site) (hs : site = .enh ∨ site = .pop) (idx : Nat) (h : idx < siteLen site) : ok (site, idx) = true := by
  rcases hs with rfl | rfl
  · simpa [siteLen] using h
  · simpa [siteLen] using h

theorem loop_ok (nested : Nested) (hn : NestedOK nested) (env : Env) (he : EnvOK env) (site : Site)
    (hs : site = .enh ∨ site = .pop) (arr : List Trip) (_hlen : arr.length = siteLen site) (harr : ∀ t ∈ arr, TripOK t) :
    ∀ (n idx : Nat) (st : LSt) (res : Bool × List Access), n ≤ siteLen site - idx → st.Inv →
      loop nested env site arr n idx st = some res → AllOk res.2 := by
  intro n
  induction n with
  | zero => intro idx st res _ _ h; simp [loop] at h; cases h; exact AllOk_nil
  | succ n ih =>
    intro idx st res hb hi h
    have hidx : idx < siteLen site := by omega
    have hb' : n ≤ siteLen site - (idx + 1) := by omega
    have hrd : AllOk [(site, idx)] := AllOk_cons.mpr ⟨site_ok site hs idx hidx, AllOk_nil⟩
    have ht := getD_ok arr harr idx
    unfold loop at h
    simp only at h
    generalize hst : (if st.skipping = true ∧ (arr.getD idx fillTrip).address ≥ columns ∧ (arr.getD idx fillTrip).mode = 0x07
        then { st with skipping := false } else st) = st1 at h
    have hi1 : st1.Inv := by
      rw [← hst]; split
      · exact ⟨hi.es, hi.s1g, hi.s1n⟩
      · exact hi
    split at h
    · -- skipping
      split at h
      · have hg := terminate_good env st1 hi1
        split at h
        · rename_i ok log heq
          rw [heq] at hg
          cases h
          exact AllOk_append.mpr ⟨hrd, hg⟩
        · cases h
      · cases hrec : loop nested env site arr n (idx + 1) st1 with
        | none => rw [hrec] at h; cases h
        | some r =>
          rw [hrec] at h; cases h
          exact AllOk_append.mpr ⟨hrd, ih _ _ _ hb' hi1 hrec⟩
    · have hg := step_good env he st1 _ ht hi1
      split at h
      · cases h
      · rename_i ok log heq
        rw [heq] at hg; cases h
        exact AllOk_append.mpr ⟨hrd, hg⟩
      · rename_i st' log heq
        rw [heq] at hg
        cases hrec : loop nested env site arr n (idx + 1) st' with
        | none => rw [hrec] at h; cases h
        | some r =>
          rw [hrec] at h; cases h
          exact AllOk_append.mpr ⟨AllOk_append.mpr ⟨hrd, hg.2⟩, ih _ _ _ hb' hg.1 hrec⟩
      · rename_i st' newType src heq
        rw [heq] at hg
        obtain ⟨hi', hsrc⟩ := hg
        have hnest : ∀ res', (match src with
          | .loc start => nested newType (st'.es.invRow + st'.es.activeRow + st'.offRow) (st'.es.invCol + st'.es.activeCol + st'.offCol) Site.enh env.enh start (enhLen - start)
          | .pop pointer arr' => nested newType (st'.es.invRow + st'.es.activeRow + st'.offRow) (st'.es.invCol + st'.es.activeCol + st'.offCol) Site.pop arr' (pointer + 1) (popTripletLen - (pointer + 1))) = some res' → AllOk res'.2 := by
          intro res' hres
          cases src with
          | loc start => exact hn _ _ _ _ _ _ _ _ (Or.inl rfl) he.enhLen he.enhTrips (Nat.le_refl _) hres
          | pop pointer arr' => exact hn _ _ _ _ _ _ _ _ (Or.inr rfl) hsrc.2.1 hsrc.2.2 (Nat.le_refl _) hres
        split at h
        · cases h
        · rename_i l hrl
          cases h
          exact AllOk_append.mpr ⟨hrd, hnest _ hrl⟩
        · rename_i l hrl
          have hl := hnest _ hrl
          cases hrec : loop nested env site arr n (idx + 1) { st' with offRow := 0, offCol := 0 } with
          | none => rw [hrec] at h; cases h
          | some r2 =>
            rw [hrec] at h; cases h
            exact AllOk_append.mpr ⟨AllOk_append.mpr ⟨hrd, hl⟩, ih _ { st' with offRow := 0, offCol := 0 } _ hb' ⟨hi'.es, hi'.s1g, hi'.s1n⟩ hrec⟩

theorem initES_inv (type r c : Nat) : (initES type r c).Inv := rfl

theorem enhance_nestedOK (env : Env) (he : EnvOK env) : ∀ fuel, NestedOK (enhance env fuel) := by
  intro fuel
  induction fuel with
  | zero => intro type r c site arr start count res _ _ _ _ h; simp [enhance] at h
  | succ f ih =>
    intro type r c site arr start count res hs hlen harr hc h
    unfold enhance at h
    exact loop_ok _ ih env he site hs arr hlen harr _ _ _ _ hc ⟨initES_inv _ _ _, Nat.zero_le _, Nat.zero_le _⟩ h

end Zvbi.Enh.Cells
