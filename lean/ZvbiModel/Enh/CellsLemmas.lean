import ZvbiModel.Enh.Cells
/-!
# Lemmas for `Enh/Cells.lean`: every access the address machine of `enhance()` logs is in range

Structure: `flushLoop` (induction on the iteration bound, accumulator invariant), `flush` / `flushRow` keep the row
pointer invariant `acp = (inv_row + active_row) * EXT_COLUMNS`, one lemma per triplet kind (`rowStep`, `colStep`), the
triplet loop by induction on `max_triplets` for an arbitrary nested `enhance` that is itself safe, `enhance` by
induction on the nesting bound.  The facts about the regenerated guards are used only through the small lemmas of the
first section, so a weakened guard breaks exactly the lemma that needs it.
-/
namespace Zvbi.Enh.Cells
open Zvbi.Gen.C01Cells

/-! ## what the regenerated guards give -/

@[simp] theorem ok_text (i : Nat) : ok (.text, i) = true ↔ i < textLen := by unfold ok; exact decide_eq_true_iff
@[simp] theorem ok_rawRow (i : Nat) : ok (.rawRow, i) = true ↔ i < rawRows := by unfold ok; exact decide_eq_true_iff
@[simp] theorem ok_rawCol (i : Nat) : ok (.rawCol, i) = true ↔ i < rawCols := by unfold ok; exact decide_eq_true_iff
@[simp] theorem ok_s1 (i : Nat) : ok (.s1, i) = true ↔ i < drcsS1Len := by unfold ok; exact decide_eq_true_iff
@[simp] theorem ok_drcsSlot (i : Nat) : ok (.drcsSlot, i) = true ↔ i < pageDrcsLen := by unfold ok; exact decide_eq_true_iff
@[simp] theorem ok_drcsGlyph (i : Nat) : ok (.drcsGlyph, i) = true ↔ (i < drcsGlyphs ∧ i < invalidBits) := by unfold ok; exact decide_eq_true_iff
@[simp] theorem ok_font (i : Nat) : ok (.font, i) = true ↔ i < fontLen := by unfold ok; exact decide_eq_true_iff
@[simp] theorem ok_color (i : Nat) : ok (.color, i) = true ↔ i < colorMapLen := by unfold ok; exact decide_eq_true_iff
@[simp] theorem ok_enh (i : Nat) : ok (.enh, i) = true ↔ i < enhLen := by unfold ok; exact decide_eq_true_iff
@[simp] theorem ok_pop (i : Nat) : ok (.pop, i) = true ↔ i < popTripletLen := by unfold ok; exact decide_eq_true_iff

theorem text_ok_of (row i : Nat) (hr : flushRowSkips row = false) (hi : flushColBreaks i = false) :
    ok (.text, row * extColumns + i) = true := by
  simp [flushRowSkips, flushColBreaks] at hr hi
  simp [textLen, extColumns]; omega

theorem rawRow_ok_of (row : Nat) (hr : flushRowSkips row = false) : ok (.rawRow, row) = true := by
  simp [flushRowSkips] at hr
  simp [rawRows]; omega

theorem rawCol_after_ok_of (i : Nat) (hi : flushColBreaks i = false) : ok (.rawCol, i + 1 - 1) = true := by
  simp [flushColBreaks] at hi
  simp [rawCols]; omega

theorem rawCol_peek_ok_of (i : Nat) (hi : flushBoxPeeks i = true) : ok (.rawCol, i) = true := by
  simp [flushBoxPeeks] at hi
  simp [rawCols]; omega

theorem rawCol_at_ok_of (i : Nat) (hi : flushColBreaks2 i = false) : ok (.rawCol, i) = true := by
  simp [flushColBreaks2] at hi
  simp [rawCols]; omega

theorem style_ok_of (row col : Nat) (hr : styleRowRuns row = true) (hc : styleColRuns col = true) :
    ok (.text, row * extColumns + col) = true := by
  simp [styleRowRuns, styleColRuns] at hr hc
  simp [textLen, extColumns]; omega

theorem color_ok_of (d : Nat) : ok (.color, d &&& colorMask) = true := by
  have : d &&& colorMask ≤ colorMask := Nat.and_le_right
  simp [colorMapLen, colorMask] at *; omega

theorem font_ok_of (d : Nat) (h : validSetInTable d = true) : ok (.font, d) = true := by
  simp [validSetInTable] at h
  simp [fontLen]; omega

theorem glyph_ok_of (d : Nat) (h : drcsOffsetRejects (drcsOffset d) = false) : ok (.drcsGlyph, drcsOffset d) = true := by
  simp [drcsOffsetRejects] at h
  simp [drcsGlyphs, invalidBits]; omega

theorem shift6_lt_two (d : Nat) (h : d ≤ tripDataMax) : d >>> 6 < 2 := by
  simp [tripDataMax] at h
  rw [Nat.shiftRight_eq_div_pow]; omega

theorem s1_mode_ok_of (d : Nat) (h : d ≤ tripDataMax) : ok (.s1, drcsModeIndex d) = true := by
  have := shift6_lt_two d h
  simp [drcsS1Len, drcsModeIndex]; omega

theorem s1_normal_ok_of (d : Nat) (h : d ≤ tripDataMax) : ok (.s1, drcsNormal d) = true := by
  have := shift6_lt_two d h
  simp [drcsS1Len, drcsNormal]; omega

theorem modeValue_le (d : Nat) : drcsModeValue d ≤ 15 := by
  unfold drcsModeValue; exact Nat.and_le_right

theorem slot_ok_of (d s1 : Nat) (h : d ≤ tripDataMax) (hs : s1 ≤ 15) : ok (.drcsSlot, drcsPage (drcsNormal d) s1) = true := by
  have := shift6_lt_two d h
  simp [pageDrcsLen, drcsPage, drcsNormal]; omega

/-! ## logs -/

theorem AllOk_nil : AllOk [] := by intro a h; cases h

theorem AllOk_append {a b : List Access} : AllOk (a ++ b) ↔ AllOk a ∧ AllOk b := by
  unfold AllOk
  constructor
  · intro h; exact ⟨fun x hx => h x (List.mem_append_left _ hx), fun x hx => h x (List.mem_append_right _ hx)⟩
  · intro ⟨h1, h2⟩ x hx
    rcases List.mem_append.mp hx with h | h
    · exact h1 x h
    · exact h2 x h

theorem AllOk_cons {x : Access} {l : List Access} : AllOk (x :: l) ↔ ok x = true ∧ AllOk l := by
  unfold AllOk; simp

theorem AllOk_pair {x y : Access} : AllOk [x, y] ↔ ok x = true ∧ ok y = true := by
  unfold AllOk; simp

/-! ## enhance_flush -/

theorem flushLoop_ok (env : Env) (type row limit : Nat) (hr : flushRowSkips row = false) :
    ∀ (fuel i : Nat) (mu : Bool) (log : List Access) (r : Bool × List Access), AllOk log →
      flushLoop env type row (row * extColumns) limit fuel i mu log = some r → AllOk r.2 := by
  intro fuel
  induction fuel with
  | zero => intro i mu log r _ h; simp [flushLoop] at h
  | succ f ih =>
    intro i mu log r hl h
    unfold flushLoop at h
    split at h
    · cases h; exact hl
    split at h
    · cases h; exact hl
    rename_i _ hb
    have hb : flushColBreaks i = false := by simpa using hb
    have hcell : AllOk (log ++ [(Site.text, row * extColumns + i), (Site.text, row * extColumns + i)]) :=
      AllOk_append.mpr ⟨hl, AllOk_pair.mpr ⟨text_ok_of row i hr hb, text_ok_of row i hr hb⟩⟩
    simp only at h
    split at h
    · cases h; exact hcell
    split at h
    · -- LOCAL / ACTIVE: the Level 1 page is consulted
      have h1 : AllOk (if flushRawAfterSkips row (i + 1) then
            log ++ [(Site.text, row * extColumns + i), (Site.text, row * extColumns + i)]
          else log ++ [(Site.text, row * extColumns + i), (Site.text, row * extColumns + i)] ++ [(Site.rawRow, row), (Site.rawCol, i + 1 - 1)]) := by
        split
        · exact hcell
        · exact AllOk_append.mpr ⟨hcell, AllOk_pair.mpr ⟨rawRow_ok_of row hr, rawCol_after_ok_of i hb⟩⟩
      generalize hL1 : (if flushRawAfterSkips row (i + 1) then
            log ++ [(Site.text, row * extColumns + i), (Site.text, row * extColumns + i)]
          else log ++ [(Site.text, row * extColumns + i), (Site.text, row * extColumns + i)] ++ [(Site.rawRow, row), (Site.rawCol, i + 1 - 1)]) = L1 at h h1
      generalize hr1 : (if flushRawAfterSkips row (i + 1) then 0x20 else env.raw row (i + 1 - 1)) = r1 at h
      have h2 : AllOk (if (r1 = 0x0A ∨ r1 = 0x0B) ∧ flushBoxPeeks (i + 1) = true then L1 ++ [(Site.rawRow, row), (Site.rawCol, i + 1)] else L1) := by
        split
        · rename_i hp
          exact AllOk_append.mpr ⟨h1, AllOk_pair.mpr ⟨rawRow_ok_of row hr, rawCol_peek_ok_of _ hp.2⟩⟩
        · exact h1
      generalize hL2 : (if (r1 = 0x0A ∨ r1 = 0x0B) ∧ flushBoxPeeks (i + 1) = true then L1 ++ [(Site.rawRow, row), (Site.rawCol, i + 1)] else L1) = L2 at h h2
      split at h
      · cases h; exact h2
      · rename_i hb2
        have hb2 : flushColBreaks2 (i + 1) = false := by simpa using hb2
        refine ih _ _ _ _ ?_ h
        split
        · exact h2
        · exact AllOk_append.mpr ⟨h2, AllOk_pair.mpr ⟨rawRow_ok_of row hr, rawCol_at_ok_of _ hb2⟩⟩
    · exact ih _ _ _ _ hcell h

/-- the row pointer invariant of one activation -/
def ES.Inv (es : ES) : Prop := es.acp = (es.invRow + es.activeRow) * extColumns

theorem flush_ok (env : Env) (es : ES) (column : Nat) (hi : es.Inv) (es' : ES) (log : List Access)
    (h : flush env es column = some (es', log)) :
    AllOk log ∧ es'.Inv ∧ es'.type = es.type ∧ es'.invRow = es.invRow ∧ es'.invCol = es.invCol ∧ es'.activeRow = es.activeRow := by
  unfold flush at h
  simp only at h
  split at h
  · cases h; exact ⟨AllOk_nil, hi, rfl, rfl, rfl, rfl⟩
  split at h
  · cases h; exact ⟨AllOk_nil, hi, rfl, rfl, rfl, rfl⟩
  rename_i hrs _
  have hrs : flushRowSkips (es.invRow + es.activeRow) = false := by simpa using hrs
  split at h
  · cases h
  · rename_i mu l hl
    cases h
    rw [hi] at hl
    exact ⟨flushLoop_ok env _ _ _ hrs _ _ _ _ _ AllOk_nil hl, hi, rfl, rfl, rfl, rfl⟩

theorem flushRow_ok (env : Env) (es : ES) (hi : es.Inv) (es' : ES) (log : List Access)
    (h : flushRow env es = some (es', log)) :
    AllOk log ∧ es'.Inv ∧ es'.type = es.type ∧ es'.invRow = es.invRow ∧ es'.invCol = es.invCol ∧ es'.activeRow = es.activeRow := by
  unfold flushRow at h
  simp only at h
  split at h
  · cases h
  · rename_i e1 l1 hf
    obtain ⟨a, b, c, d, e, f⟩ := flush_ok env es _ hi e1 l1 hf
    cases h
    split
    · exact ⟨a, b, c, d, e, f⟩
    · exact ⟨a, b, c, d, e, f⟩

theorem flushTo_ok (env : Env) (es : ES) (column : Nat) (hi : es.Inv) (es' : ES) (log : List Access)
    (h : flushTo env es column = some (es', log)) :
    AllOk log ∧ es'.Inv ∧ es'.type = es.type ∧ es'.invRow = es.invRow ∧ es'.invCol = es.invCol ∧ es'.activeRow = es.activeRow := by
  unfold flushTo at h
  split at h
  · exact flush_ok env es column hi es' log h
  · cases h; exact ⟨AllOk_nil, hi, rfl, rfl, rfl, rfl⟩


/-! ## one triplet -/

structure LSt.Inv (st : LSt) : Prop where
  es : st.es.Inv
  s1g : st.s1g ≤ 15
  s1n : st.s1n ≤ 15

def SrcOK : CallSrc → Prop
  | .loc _ => True
  | .pop p arr => p ≤ Zvbi.Gen.C01.pointerLimit ∧ arr.length = popTripletLen ∧ ∀ t ∈ arr, TripOK t

def Step.Good : Step → Prop
  | .cont st log => st.Inv ∧ AllOk log
  | .done _ log => AllOk log
  | .call st _ src => st.Inv ∧ SrcOK src
  | .hang => True

theorem setActive_good (env : Env) (st : LSt) (row column : Nat) (hi : st.Inv) : (setActive env st row column).Good := by
  unfold setActive
  split
  · exact ⟨⟨hi.es, hi.s1g, hi.s1n⟩, AllOk_nil⟩
  · split
    · trivial
    · rename_i es log hf
      have h : AllOk log ∧ es.Inv ∧ es.type = st.es.type ∧ es.invRow = st.es.invRow ∧ es.invCol = st.es.invCol ∧ es.activeRow = st.es.activeRow := by
        split at hf
        · exact flushRow_ok env _ hi.es _ _ hf
        · exact flush_ok env _ _ hi.es _ _ hf
      exact ⟨⟨rfl, hi.s1g, hi.s1n⟩, h.1⟩

theorem terminate_good (env : Env) (st : LSt) (hi : st.Inv) : (terminate env st).Good := by
  unfold terminate
  split
  · trivial
  · rename_i es log hf
    exact (flushRow_ok env _ hi.es _ _ hf).1

theorem tripOK_data {t : Trip} (h : TripOK t) (hm : t.mode ≤ tripModeMask) : t.data ≤ tripDataMax := by
  rcases h with h | h
  · exact h.2.2
  · subst h; simp [fillTrip, tripFill, tripModeMask] at hm

theorem rowColorStep_good (env : Env) (st : LSt) (t : Trip) (hi : st.Inv) : (rowColorStep env st t).Good := by
  unfold rowColorStep
  have hs := setActive_good env st (if t.mode = 0x07 then 0 else rowOfAddress t.address) 0 hi
  simp only
  split
  · rename_i st' l heq
    rw [heq] at hs
    refine ⟨hs.1, AllOk_append.mpr ⟨?_, hs.2⟩⟩
    split
    · exact AllOk_cons.mpr ⟨color_ok_of _, AllOk_nil⟩
    · exact AllOk_nil
  · exact hs

theorem setPosStep_good (env : Env) (st : LSt) (t : Trip) (hi : st.Inv) : (setPosStep env st t).Good := by
  unfold setPosStep
  split
  · split
    · exact ⟨hi, AllOk_nil⟩
    · exact setActive_good env st _ _ hi
  · exact setActive_good env st _ _ hi

theorem originStep_good (env : Env) (st : LSt) (t : Trip) (hi : st.Inv) : (originStep env st t).Good := by
  unfold originStep
  split
  · exact ⟨hi, AllOk_nil⟩
  split
  · exact ⟨hi, AllOk_nil⟩
  · exact ⟨⟨hi.es, hi.s1g, hi.s1n⟩, AllOk_nil⟩

theorem invokeStep_good (env : Env) (he : EnvOK env) (st : LSt) (t : Trip) (hi : st.Inv) : (invokeStep env st t).Good := by
  unfold invokeStep
  simp only
  split
  · exact ⟨hi, AllOk_nil⟩
  split
  · exact ⟨hi, AllOk_nil⟩
  split
  · exact ⟨hi, AllOk_nil⟩
  split
  · split
    · exact ⟨hi, AllOk_nil⟩
    split
    · exact AllOk_nil
    · exact ⟨hi, trivial⟩
  · split
    · exact AllOk_nil
    · rename_i p arr hp
      exact ⟨hi, he.popPtr _ _ _ _ _ hp⟩

theorem drcsModeStep_good (st : LSt) (t : Trip) (ht : TripOK t) (hm : t.mode = 0x18) (hi : st.Inv) : (drcsModeStep st t).Good := by
  unfold drcsModeStep
  have hd : t.data ≤ tripDataMax := tripOK_data ht (by rw [hm]; decide)
  refine ⟨?_, AllOk_cons.mpr ⟨s1_mode_ok_of _ hd, AllOk_nil⟩⟩
  split
  · exact ⟨hi.es, modeValue_le _, hi.s1n⟩
  · split
    · exact ⟨hi.es, hi.s1g, modeValue_le _⟩
    · exact hi

theorem rowStep_good (env : Env) (he : EnvOK env) (st : LSt) (t : Trip) (ht : TripOK t) (hi : st.Inv) : (rowStep env st t).Good := by
  unfold rowStep
  split
  · exact AllOk_nil
  split
  · split
    · exact ⟨hi, AllOk_cons.mpr ⟨color_ok_of _, AllOk_nil⟩⟩
    · exact ⟨hi, AllOk_nil⟩
  split
  · exact ⟨hi, AllOk_nil⟩
  split
  · exact rowColorStep_good env st t hi
  split
  · exact setPosStep_good env st t hi
  split
  · exact ⟨⟨hi.es, hi.s1g, hi.s1n⟩, AllOk_nil⟩
  split
  · exact originStep_good env st t hi
  split
  · exact invokeStep_good env he st t hi
  split
  · exact terminate_good env st hi
  split
  · rename_i hm
    exact drcsModeStep_good st t ht hm hi
  split
  · exact terminate_good env st hi
  · exact ⟨hi, AllOk_nil⟩

/-! ## column address triplets -/

theorem withFlush_good (env : Env) (st : LSt) (column : Nat) (f : ES → List Access → Step) (hi : st.Inv)
    (hf : ∀ es log, es.Inv → AllOk log → (f es log).Good) : (withFlush env st column f).Good := by
  unfold withFlush
  split
  · trivial
  · rename_i es log h
    obtain ⟨a, b, _⟩ := flushTo_ok env st.es column hi.es es log h
    exact hf es log b a

theorem storeCh_good (st : LSt) (hi : st.Inv) (es : ES) (log : List Access) (he : es.Inv) (hl : AllOk log) : (storeCh st es log).Good :=
  ⟨⟨he, hi.s1g, hi.s1n⟩, hl⟩

theorem keepSt_good (st : LSt) (hi : st.Inv) (es : ES) (log : List Access) (he : es.Inv) (hl : AllOk log) : (keepSt st es log).Good :=
  ⟨⟨he, hi.s1g, hi.s1n⟩, hl⟩

theorem drcsStep_good (env : Env) (st : LSt) (t : Trip) (ht : TripOK t) (hm : t.mode = 0x0D) (hi : st.Inv) : (drcsStep env st t).Good := by
  unfold drcsStep
  have hd : t.data ≤ tripDataMax := tripOK_data ht (by rw [hm]; decide)
  simp only
  split
  · exact ⟨hi, AllOk_nil⟩
  split
  · exact ⟨hi, AllOk_nil⟩
  rename_i _ hoff
  have hoff : drcsOffsetRejects (drcsOffset t.data) = false := by simpa using hoff
  apply withFlush_good env st _ _ hi
  intro es log he hl
  have hs1 : AllOk (log ++ [(Site.s1, drcsNormal t.data)]) :=
    AllOk_append.mpr ⟨hl, AllOk_cons.mpr ⟨s1_normal_ok_of _ hd, AllOk_nil⟩⟩
  have hle : (if drcsNormal t.data = 0 then st.s1g else st.s1n) ≤ 15 := by
    split
    · exact hi.s1g
    · exact hi.s1n
  generalize (if drcsNormal t.data = 0 then st.s1g else st.s1n) = s1 at hle ⊢
  split
  · exact storeCh_good st hi es _ he (AllOk_append.mpr ⟨hs1, AllOk_pair.mpr ⟨glyph_ok_of _ hoff, slot_ok_of _ _ hd hle⟩⟩)
  · exact hs1

theorem styleCols_ok (row : Nat) (hr : styleRowRuns row = true) :
    ∀ (fuel col : Nat) (log l : List Access), AllOk log → styleCols (row * extColumns) fuel col log = some l → AllOk l := by
  intro fuel
  induction fuel with
  | zero => intro col log l _ h; simp [styleCols] at h
  | succ f ih =>
    intro col log l hl h
    unfold styleCols at h
    split at h
    · rename_i hc
      exact ih _ _ _ (AllOk_append.mpr ⟨hl, AllOk_cons.mpr ⟨style_ok_of row col hr hc, AllOk_nil⟩⟩) h
    · cases h; exact hl

theorem styleRows_ok (col0 : Nat) :
    ∀ (count row : Nat) (log l : List Access), AllOk log → styleRows col0 count row (row * extColumns) log = some l → AllOk l := by
  intro count
  induction count with
  | zero => intro row log l hl h; simp [styleRows] at h; cases h; exact hl
  | succ n ih =>
    intro row log l hl h
    unfold styleRows at h
    split at h
    · rename_i hr
      split at h
      · cases h
      · rename_i l1 h1
        have : row * extColumns + extColumns = (row + 1) * extColumns := by rw [Nat.add_mul]; simp
        rw [this] at h
        exact ih _ _ _ (styleCols_ok row hr _ _ _ _ hl h1) h
    · cases h; exact hl

theorem styleStep_good (env : Env) (st : LSt) (t : Trip) (hi : st.Inv) : (styleStep env st t).Good := by
  unfold styleStep
  split
  · exact ⟨hi, AllOk_nil⟩
  · simp only
    split
    · trivial
    · rename_i log h
      exact ⟨hi, styleRows_ok _ _ _ _ _ AllOk_nil h⟩

theorem colStep_good (env : Env) (st : LSt) (t : Trip) (ht : TripOK t) (hi : st.Inv) : (colStep env st t).Good := by
  unfold colStep
  simp only
  split
  · split
    · apply withFlush_good env st _ _ hi
      intro es log he hl
      exact keepSt_good st hi es _ he (AllOk_append.mpr ⟨hl, AllOk_cons.mpr ⟨color_ok_of _, AllOk_nil⟩⟩)
    · exact ⟨hi, AllOk_nil⟩
  split
  · split
    · apply withFlush_good env st _ _ hi
      intro es log he hl
      split
      · exact storeCh_good st hi es log he hl
      · exact keepSt_good st hi es log he hl
    · exact ⟨hi, AllOk_nil⟩
  split
  · exact ⟨hi, AllOk_nil⟩
  split
  · split
    · exact withFlush_good env st _ _ hi (storeCh_good st hi)
    · exact ⟨hi, AllOk_nil⟩
  split
  · split
    · exact withFlush_good env st _ _ hi (keepSt_good st hi)
    · exact ⟨hi, AllOk_nil⟩
  split
  · split
    · apply withFlush_good env st _ _ hi
      intro es log he hl
      apply keepSt_good st hi es _ he
      split
      · rename_i hv
        exact AllOk_append.mpr ⟨hl, AllOk_cons.mpr ⟨font_ok_of _ hv, AllOk_nil⟩⟩
      · exact hl
    · exact ⟨hi, AllOk_nil⟩
  split
  · split
    · exact withFlush_good env st _ _ hi (storeCh_good st hi)
    · exact ⟨hi, AllOk_nil⟩
  split
  · rename_i hm
    exact drcsStep_good env st t ht hm hi
  split
  · exact styleStep_good env st t hi
  split
  · split
    · exact withFlush_good env st _ _ hi (storeCh_good st hi)
    · exact ⟨hi, AllOk_nil⟩
  · exact ⟨hi, AllOk_nil⟩

theorem step_good (env : Env) (he : EnvOK env) (st : LSt) (t : Trip) (ht : TripOK t) (hi : st.Inv) : (step env st t).Good := by
  unfold step
  split
  · exact rowStep_good env he st t ht hi
  · exact colStep_good env st t ht hi

end Zvbi.Enh.Cells
