import ZvbiModel.Enh.CellsLoop
/-!
# Termination: the column loops never use up their bound, no triplet step hangs, `maxObjectType + 1 - type` nested
# activations suffice for every triplet list and every object graph (cycles included)
-/
namespace Zvbi.Enh.Cells
open Zvbi.Gen.C01Cells Zvbi.Generated.Enh

theorem flushLoop_total (env : Env) (type row acp limit : Nat) :
    ∀ (fuel i : Nat) (mu : Bool) (log : List Access), columns - i < fuel →
      (flushLoop env type row acp limit fuel i mu log).isSome = true := by
  intro fuel
  induction fuel with
  | zero => intro i mu log h; omega
  | succ f ih =>
    intro i mu log hf
    unfold flushLoop
    split
    · rfl
    split
    · rfl
    rename_i _ hb
    have hb : i ≤ 39 := by simpa [flushColBreaks] using hb
    have hf' : columns - (i + 1) < f := by simp [columns] at *; omega
    simp only
    split
    · rfl
    split
    · split
      · rfl
      · exact ih _ _ _ hf'
    · exact ih _ _ _ hf'

theorem flush_total (env : Env) (es : ES) (column : Nat) : (flush env es column).isSome = true := by
  unfold flush
  simp only
  split
  · rfl
  split
  · rfl
  · have := flushLoop_total env es.type (es.invRow + es.activeRow) es.acp (es.invCol + column) colFuel (es.invCol + es.activeCol)
      es.macUnicode [] (by simp [columns, colFuel, extColumns]; omega)
    split
    · rename_i h; rw [h] at this; cases this
    · rfl

theorem flushRow_total (env : Env) (es : ES) : (flushRow env es).isSome = true := by
  unfold flushRow
  simp only
  have := flush_total env es (if es.type = typePassive ∨ es.type = typeAdaptive then es.activeCol + flushRowObjectAdvance else flushRowColumn)
  split
  · rename_i h; rw [h] at this; cases this
  · rfl

theorem flushTo_total (env : Env) (es : ES) (column : Nat) : (flushTo env es column).isSome = true := by
  unfold flushTo
  split
  · exact flush_total env es column
  · rfl

theorem styleCols_total (base : Nat) : ∀ (fuel col : Nat) (log : List Access), columns - col < fuel → (styleCols base fuel col log).isSome = true := by
  intro fuel
  induction fuel with
  | zero => intro col log h; omega
  | succ f ih =>
    intro col log hf
    unfold styleCols
    split
    · rename_i hc
      have hc : col < 40 := by simpa [styleColRuns] using hc
      exact ih _ _ (by simp [columns] at *; omega)
    · rfl

theorem styleRows_total (col0 : Nat) : ∀ (count row acp : Nat) (log : List Access), (styleRows col0 count row acp log).isSome = true := by
  intro count
  induction count with
  | zero => intro row acp log; rfl
  | succ n ih =>
    intro row acp log
    unfold styleRows
    split
    · have := styleCols_total acp colFuel col0 log (by simp [columns, colFuel, extColumns]; omega)
      split
      · rename_i h; rw [h] at this; cases this
      · exact ih _ _ _
    · rfl

/-- what a step leaves of the activation: the object type stays, a call rises in type -/
def Step.Keeps (ty : Nat) : Step → Prop
  | .cont st _ => st.es.type = ty
  | .done _ _ => True
  | .call st nt _ => st.es.type = ty ∧ ty < nt ∧ nt ≤ maxObjectType
  | .hang => False

theorem flush_type (env : Env) (es es' : ES) (column : Nat) (log : List Access) (h : flush env es column = some (es', log)) : es'.type = es.type := by
  unfold flush at h
  simp only at h
  split at h
  · cases h; rfl
  split at h
  · cases h; rfl
  split at h
  · cases h
  · cases h; rfl

theorem flushRow_type (env : Env) (es es' : ES) (log : List Access) (h : flushRow env es = some (es', log)) : es'.type = es.type := by
  unfold flushRow at h
  simp only at h
  split at h
  · cases h
  · rename_i e1 l1 hf
    have := flush_type env es e1 _ l1 hf
    cases h
    split <;> simpa using this

theorem flushTo_type (env : Env) (es es' : ES) (column : Nat) (log : List Access) (h : flushTo env es column = some (es', log)) : es'.type = es.type := by
  unfold flushTo at h
  split at h
  · exact flush_type env es es' column log h
  · cases h; rfl

theorem setActive_keeps (env : Env) (st : LSt) (row column : Nat) : (setActive env st row column).Keeps st.es.type := by
  unfold setActive
  split
  · rfl
  · split
    · rename_i h
      split at h
      · have := flushRow_total env st.es; rw [h] at this; cases this
      · have := flush_total env st.es (st.es.activeCol + 1); rw [h] at this; cases this
    · rename_i es log hf
      show es.type = st.es.type
      split at hf
      · exact flushRow_type env _ _ _ hf
      · exact flush_type env _ _ _ _ hf

theorem terminate_keeps (env : Env) (st : LSt) : (terminate env st).Keeps st.es.type := by
  unfold terminate
  split
  · rename_i h; have := flushRow_total env st.es; rw [h] at this; cases this
  · trivial

theorem mask_le_max (mode : Nat) : mode &&& typeMask ≤ maxObjectType := by
  have : mode &&& typeMask ≤ typeMask := Nat.and_le_right
  simpa [typeMask, maxObjectType] using this

theorem rowStep_keeps (env : Env) (st : LSt) (t : Trip) : (rowStep env st t).Keeps st.es.type := by
  unfold rowStep
  split
  · trivial
  split
  · split <;> rfl
  split
  · rfl
  split
  · unfold rowColorStep
    have hs := setActive_keeps env st (if t.mode = 0x07 then 0 else rowOfAddress t.address) 0
    simp only
    split
    · rename_i st' l heq; rw [heq] at hs; exact hs
    · exact hs
  split
  · unfold setPosStep
    split
    · split
      · rfl
      · exact setActive_keeps env st _ _
    · exact setActive_keeps env st _ _
  split
  · rfl
  split
  · unfold originStep
    split
    · rfl
    split <;> rfl
  split
  · unfold invokeStep
    simp only
    split
    · rfl
    split
    · rfl
    rename_i _ hsk
    have hlt : st.es.type < t.mode &&& typeMask := by
      simp [skipInvocation] at hsk; omega
    split
    · rfl
    split
    · split
      · rfl
      split
      · trivial
      · exact ⟨rfl, hlt, mask_le_max _⟩
    · split
      · trivial
      · exact ⟨rfl, hlt, mask_le_max _⟩
  split
  · exact terminate_keeps env st
  split
  · unfold drcsModeStep
    simp only [Step.Keeps]
    split
    · rfl
    · split <;> rfl
  split
  · exact terminate_keeps env st
  · rfl

theorem withFlush_keeps (env : Env) (st : LSt) (column : Nat) (f : ES → List Access → Step)
    (hf : ∀ es log, es.type = st.es.type → (f es log).Keeps st.es.type) : (withFlush env st column f).Keeps st.es.type := by
  unfold withFlush
  split
  · rename_i h; have := flushTo_total env st.es column; rw [h] at this; cases this
  · rename_i es log h
    exact hf es log (flushTo_type env _ _ _ _ h)

theorem storeCh_keeps (st : LSt) (es : ES) (log : List Access) (h : es.type = st.es.type) : (storeCh st es log).Keeps st.es.type := h
theorem keepSt_keeps (st : LSt) (es : ES) (log : List Access) (h : es.type = st.es.type) : (keepSt st es log).Keeps st.es.type := h

theorem colStep_keeps (env : Env) (st : LSt) (t : Trip) : (colStep env st t).Keeps st.es.type := by
  unfold colStep
  simp only
  split
  · split
    · exact withFlush_keeps env st _ _ fun es log h => keepSt_keeps st es _ h
    · rfl
  split
  · split
    · apply withFlush_keeps env st _ _
      intro es log h
      split
      · exact storeCh_keeps st es log h
      · exact keepSt_keeps st es log h
    · rfl
  split
  · rfl
  split
  · split
    · exact withFlush_keeps env st _ _ (storeCh_keeps st)
    · rfl
  split
  · split
    · exact withFlush_keeps env st _ _ (keepSt_keeps st)
    · rfl
  split
  · split
    · exact withFlush_keeps env st _ _ fun es log h => keepSt_keeps st es _ h
    · rfl
  split
  · split
    · exact withFlush_keeps env st _ _ (storeCh_keeps st)
    · rfl
  split
  · unfold drcsStep
    simp only
    split
    · rfl
    split
    · rfl
    · apply withFlush_keeps env st _ _
      intro es log h
      generalize (if drcsNormal t.data = 0 then st.s1g else st.s1n) = s1
      split
      · exact storeCh_keeps st es _ h
      · trivial
  split
  · unfold styleStep
    split
    · rfl
    · simp only
      split
      · rename_i h
        have := styleRows_total (st.es.invCol + t.address) ((t.data >>> 4) + 1) (st.es.invRow + st.es.activeRow)
          ((st.es.invRow + st.es.activeRow) * extColumns) []
        rw [h] at this; cases this
      · rfl
  split
  · split
    · exact withFlush_keeps env st _ _ (storeCh_keeps st)
    · rfl
  · rfl

theorem step_keeps (env : Env) (st : LSt) (t : Trip) : (step env st t).Keeps st.es.type := by
  unfold step
  split
  · exact rowStep_keeps env st t
  · exact colStep_keeps env st t

/-- the nested `enhance` answers for every object of a higher type -/
def NestedTotal (nested : Nested) (ty : Nat) : Prop :=
  ∀ (nt r c : Nat) (site : Site) (arr : List Trip) (start count : Nat), ty < nt → nt ≤ maxObjectType →
    (nested nt r c site arr start count).isSome = true

theorem loop_total (nested : Nested) (env : Env) (site : Site) (arr : List Trip) (ty : Nat) (hn : NestedTotal nested ty) :
    ∀ (n idx : Nat) (st : LSt), st.es.type = ty → (loop nested env site arr n idx st).isSome = true := by
  intro n
  induction n with
  | zero => intro idx st _; rfl
  | succ n ih =>
    intro idx st hty
    unfold loop
    simp only
    generalize hst : (if st.skipping = true ∧ (arr.getD idx fillTrip).address ≥ columns ∧ (arr.getD idx fillTrip).mode = 0x07
        then { st with skipping := false } else st) = st1
    have hty1 : st1.es.type = ty := by
      rw [← hst]; split <;> exact hty
    split
    · split
      · have hk := terminate_keeps env st1
        split
        · rfl
        · rename_i hne
          cases hterm : terminate env st1 with
          | done ok log => exact absurd hterm (hne ok log)
          | cont a b => unfold terminate at hterm; split at hterm <;> cases hterm
          | call a b c => unfold terminate at hterm; split at hterm <;> cases hterm
          | hang => rw [hterm] at hk; exact hk.elim
      · have := ih (idx + 1) st1 hty1
        cases hrec : loop nested env site arr n (idx + 1) st1 with
        | none => rw [hrec] at this; cases this
        | some r => rfl
    · have hk := step_keeps env st1 (arr.getD idx fillTrip)
      split
      · rename_i heq; rw [heq] at hk; exact hk.elim
      · rfl
      · rename_i st' log heq
        rw [heq, hty1] at hk
        have := ih (idx + 1) st' hk
        cases hrec : loop nested env site arr n (idx + 1) st' with
        | none => rw [hrec] at this; cases this
        | some r => rfl
      · rename_i st' newType src heq
        rw [heq, hty1] at hk
        obtain ⟨hk1, hk2, hk3⟩ := hk
        have hnest : ((match src with
          | .loc start => nested newType (st'.es.invRow + st'.es.activeRow + st'.offRow) (st'.es.invCol + st'.es.activeCol + st'.offCol) Site.enh env.enh start (enhLen - start)
          | .pop pointer arr' => nested newType (st'.es.invRow + st'.es.activeRow + st'.offRow) (st'.es.invCol + st'.es.activeCol + st'.offCol) Site.pop arr' (pointer + 1) (popTripletLen - (pointer + 1)))).isSome = true := by
          cases src with
          | loc start => exact hn _ _ _ _ _ _ _ hk2 hk3
          | pop pointer arr' => exact hn _ _ _ _ _ _ _ hk2 hk3
        split
        · rename_i hnone
          cases src <;> (simp only at hnone hnest; rw [hnone] at hnest; cases hnest)
        · rfl
        · have := ih (idx + 1) { st' with offRow := 0, offCol := 0 } hk1
          cases hrec : loop nested env site arr n (idx + 1) { st' with offRow := 0, offCol := 0 } with
          | none => rw [hrec] at this; cases this
          | some r => rfl

theorem enhance_total (env : Env) : ∀ (fuel ty : Nat), 1 ≤ fuel → maxObjectType + 1 ≤ fuel + ty →
    ∀ (r c : Nat) (site : Site) (arr : List Trip) (start count : Nat), (enhance env fuel ty r c site arr start count).isSome = true := by
  intro fuel
  induction fuel with
  | zero => intro ty h; omega
  | succ f ih =>
    intro ty _ hft r c site arr start count
    unfold enhance
    apply loop_total _ env site arr ty
    · intro nt r' c' site' arr' start' count' hlt hle
      exact ih nt (by omega) (by omega) r' c' site' arr' start' count'
    · rfl

end Zvbi.Enh.Cells
