import ZvbiModel.Enh.ObjRef
import ZvbiModel.Enh.Lemmas
namespace Zvbi.Enh.ObjRef
open Zvbi.Generated.Enh Zvbi.Gen.C01

/-- same ledger, same fault mark -/
def Same (a b : St) : Prop := a.refs = b.refs ∧ a.fault = b.fault

theorem unref_get (s : St) (p : Nat) : (s.get p).unref p = s := by
  simp [St.get, St.unref]

theorem resolve_none (r : Resolve) (s s1 : St) (h : resolve r s = (s1, none)) : s1 = s := by
  cases r with
  | notCached => simp [resolve, unrefOnNotCached] at h; exact h.symm
  | convertFails p => simp [resolve, unrefOnConvertFail, unref_get] at h; exact h.symm
  | wrongFunction p => simp [resolve, unrefOnWrongFunction, unref_get] at h; exact h.symm
  | found p conv pointer isDef target =>
    cases conv with
    | none =>
      simp only [resolve] at h
      split at h
      · simp [unrefOnPointerOutOfBounds, unref_get] at h; exact h.symm
      · split at h
        · simp [unrefOnNoObjectDefinition, unref_get] at h; exact h.symm
        · simp at h
    | some q =>
      simp only [resolve, convertReleasesOldOnSuccess, if_true, unref_get] at h
      split at h
      · simp [unrefOnPointerOutOfBounds] at h; exact h.symm
      · split at h
        · simp [unrefOnNoObjectDefinition] at h; exact h.symm
        · simp at h

theorem resolve_some (r : Resolve) (s s1 : St) (p t : Nat) (h : resolve r s = (s1, some (p, t))) : s1 = s.get p := by
  cases r with
  | notCached => simp [resolve] at h
  | convertFails q => simp [resolve] at h
  | wrongFunction q => simp [resolve] at h
  | found q conv pointer isDef target =>
    cases conv with
    | none =>
      simp only [resolve] at h
      split at h
      · simp at h
      · split at h
        · simp at h
        · simp at h; rw [← h.1, ← h.2.1]
    | some q' =>
      simp only [resolve, convertReleasesOldOnSuccess, if_true, unref_get] at h
      split at h
      · simp at h
      · split at h
        · simp at h
        · simp at h; rw [← h.1, ← h.2.1]

/-- **balance of `enhance`**: whatever it returns, the ledger is the one it started with -/
theorem enhance_balanced (objs : Objects) :
    ∀ (fuel type : Nat) (trips : List Trip) (s : St) (ok : Bool) (s' : St),
      enhance objs fuel type trips s = some (ok, s') → s' = s := by
  intro fuel
  induction fuel with
  | zero => intro type trips s ok s' h; simp [enhance] at h
  | succ f ih =>
    intro type trips
    induction trips with
    | nil => intro s ok s' h; simp [enhance] at h; exact h.2.symm
    | cons t rest ihr =>
      intro s ok s' h
      cases t with
      | other => simp only [enhance] at h; exact ihr s ok s' h
      | fails => simp [enhance] at h; exact h.2.symm
      | invoke mode r =>
        unfold enhance at h
        split at h
        · exact ihr s ok s' h
        · split at h
          · rename_i s1 hres
            simp at h
            rw [← h.2]; exact resolve_none r s s1 hres
          · rename_i s1 p target hres
            have hs1 := resolve_some r s s1 p target hres
            split at h
            · simp at h
            · rename_i s2 hrec
              have := ih _ _ _ _ _ hrec
              simp [enhanceUnrefAfterObjectFail] at h
              rw [← h.2, this, hs1, unref_get]
            · rename_i s2 hrec
              have h2 := ih _ _ _ _ _ hrec
              simp only [enhanceUnrefAfterObjectDone, if_true] at h
              have := ihr _ ok s' h
              rw [this, h2, hs1, unref_get]

theorem defaultObjects_balanced (objs : Objects) (fuel : Nat) :
    ∀ (l : List (Nat × Resolve)) (s : St) (ok : Bool) (s' : St), defaultObjects objs fuel l s = some (ok, s') → s' = s := by
  intro l
  induction l with
  | nil => intro s ok s' h; simp [defaultObjects] at h; exact h.2.symm
  | cons x rest ih =>
    intro s ok s' h
    obtain ⟨type, r⟩ := x
    unfold defaultObjects at h
    split at h
    · rename_i s1 hres
      simp at h; rw [← h.2]; exact resolve_none r s s1 hres
    · rename_i s1 p target hres
      have hs1 := resolve_some r s s1 p target hres
      split at h
      · simp at h
      · rename_i s2 hrec
        have := enhance_balanced objs _ _ _ _ _ _ hrec
        simp [defaultUnrefAfterObjectFail] at h
        rw [← h.2, this, hs1, unref_get]
      · rename_i s2 hrec
        have h2 := enhance_balanced objs _ _ _ _ _ _ hrec
        simp only [defaultUnrefAfterObjectDone, if_true] at h
        have := ih _ ok s' h
        rw [this, h2, hs1, unref_get]

/-- `fuel` nested activations suffice (same induction as `Enh.enhance_isSome`; the ledger does not matter) -/
theorem enhance_isSome (objs : Objects) :
    ∀ (fuel type : Nat) (trips : List Trip) (s : St), 1 ≤ fuel → maxObjectType + 1 ≤ fuel + type →
      (enhance objs fuel type trips s).isSome := by
  intro fuel
  induction fuel with
  | zero => intro _ _ _ h; omega
  | succ f ih =>
    intro type trips
    induction trips with
    | nil => intro s _ _; simp [enhance]
    | cons t rest ihr =>
      intro s h1 hft
      cases t with
      | other => simpa [enhance] using ihr s h1 hft
      | fails => simp [enhance]
      | invoke mode r =>
        unfold enhance
        split
        · exact ihr s h1 hft
        · rename_i hskip
          split
          · simp
          · rename_i s1 p target hres
            have hgt : type < mode &&& typeMask := by
              simp [skipInvocation] at hskip; omega
            have hle := Zvbi.Enh.mask_le mode
            have hf : 1 ≤ f := by simp [maxObjectType] at hle hft; omega
            have h2 : maxObjectType + 1 ≤ f + (mode &&& typeMask) := by omega
            have := ih (mode &&& typeMask) (objs target) s1 hf h2
            split
            · rename_i hrec; simp [hrec] at this
            · simp
            · exact ihr _ h1 hft

end Zvbi.Enh.ObjRef
