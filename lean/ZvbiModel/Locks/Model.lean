/-!
# Locks - thread programs over mutexes and shared fields (C20)

Computable part: atomic actions, the static lock tracker, control-flow graphs of the
API functions as extracted by `translate/gen_locks.py`, and the Boolean checks that
`decide` runs on the extracted table.

A thread program is a list of atomic actions.  The C functions are not lists but
control-flow graphs; every execution of a function is a path through its graph,
and the translator emits one graph per documented API function (callees inlined).
-/
namespace Zvbi.Locks

abbrev Mutex := Nat
abbrev Var := Nat
abbrev Site := Nat

/-- atomic actions of a thread.  `tryOk`/`tryFail` are the two outcomes of
`pthread_mutex_trylock`; `acc x w site` reads (`w = false`) or writes the shared
field `x` at source site `site`; `callout site re` invokes a client callback
(`re = true`: the translator inlined the handler-safe API calls after it). -/
inductive Action where
  | lock (m : Mutex)
  | unlock (m : Mutex)
  | tryOk (m : Mutex)
  | tryFail (m : Mutex)
  | acc (x : Var) (w : Bool) (site : Site)
  | callout (site : Site) (re : Bool)
  | tau
  deriving DecidableEq, Repr, Inhabited

/-- static lock tracker: the set of mutexes held after `a` when `h` was held before;
`none` = the action is illegal there (re-lock of a held mutex, unlock of a mutex not held) -/
def track (h : List Mutex) : Action → Option (List Mutex)
  | .lock m => if m ∈ h then none else some (m :: h)
  | .unlock m => if m ∈ h then some (h.erase m) else none
  | .tryOk m => if m ∈ h then none else some (m :: h)
  | _ => some h

def trackList (h : List Mutex) : List Action → Option (List Mutex)
  | [] => some h
  | a :: r => match track h a with
    | none => none
    | some h' => trackList h' r

/-- every action of a program paired with the mutexes held just before it -/
def scan (h : List Mutex) : List Action → List (Action × List Mutex)
  | [] => []
  | a :: r => (a, h) :: match track h a with
    | none => []
    | some h' => scan h' r

/-- mutexes a program may acquire -/
def locksOf : List Action → List Mutex
  | [] => []
  | .lock m :: r => m :: locksOf r
  | .tryOk m :: r => m :: locksOf r
  | _ :: r => locksOf r

/-! ## control-flow graphs -/

structure Edge where
  src : Nat
  act : Action
  dst : Nat
  deriving DecidableEq, Repr, Inhabited

/-- one API function with its callees inlined.  The mutexes held at node `n` are
`held[n % held.length]` (the translator numbers the nodes accordingly, so the
annotation needs no table look-up that grows with the graph). -/
structure Cfg where
  fn : Nat
  entry : Nat
  exit : Nat
  held : List (List Mutex)
  edges : List Edge
  deriving Repr, Inhabited

/-- mutexes held at node `n` according to the annotation -/
def Cfg.annAt (c : Cfg) (n : Nat) : Option (List Mutex) := c.held[n % c.held.length]?

def Cfg.edgeOK (c : Cfg) (e : Edge) : Bool :=
  match c.annAt e.src, c.annAt e.dst with
  | some hs, some hd => track hs e.act == some hd
  | _, _ => false

/-- the annotation is an inductive invariant of the graph, nothing is held on entry and on exit -/
def Cfg.annOK (c : Cfg) : Bool :=
  c.annAt c.entry == some [] && c.annAt c.exit == some [] && c.edges.all c.edgeOK

/-- (action, held-before) for every edge -/
def Cfg.accs (c : Cfg) : List (Action × List Mutex) :=
  c.edges.filterMap fun e => (c.annAt e.src).map fun h => (e.act, h)

def Cfg.locks (c : Cfg) : List Mutex :=
  c.edges.filterMap fun e => match e.act with
    | .lock m => some m
    | .tryOk m => some m
    | _ => none

/-! ## the discipline checks (Bool, run by `decide` on the extracted table) -/

def conflictB : Action → Action → Bool
  | .acc x w _, .acc y v _ => x == y && (w || v)
  | _, _ => false

def siteOf : Action → Site
  | .acc _ _ s => s
  | .callout s _ => s
  | _ => 0

def commonB (h1 h2 : List Mutex) : Bool := h1.any fun m => h2.contains m

/-- a conflicting pair is bracketed by a common mutex, or it is a listed known pair -/
def pairOKB (known : Site → Site → Bool) (p q : Action × List Mutex) : Bool :=
  !conflictB p.1 q.1 || commonB p.2 q.2 || known (siteOf p.1) (siteOf q.1)

def isAcc : Action × List Mutex → Bool
  | (.acc _ _ _, _) => true
  | _ => false

def pairsOKB (known : Site → Site → Bool) (A B : List (Action × List Mutex)) : Bool :=
  (A.filter isAcc).all fun p => (B.filter isAcc).all fun q => pairOKB known p q

/-- the conflicting pairs without a common mutex (for reporting) -/
def badPairs (A B : List (Action × List Mutex)) : List ((Action × List Mutex) × (Action × List Mutex)) :=
  (A.filter isAcc).flatMap fun p => ((B.filter isAcc).filter fun q =>
    conflictB p.1 q.1 && !commonB p.2 q.2).map fun q => (p, q)

/-- lock order: a mutex is acquired only while holding mutexes of smaller rank,
unless the mutex is private to this role (`priv m`) -/
def orderedB (rank : Mutex → Nat) (priv : Mutex → Bool) (A : List (Action × List Mutex)) : Bool :=
  A.all fun p => match p.1 with
    | .lock m => priv m || p.2.all fun m' => rank m' < rank m
    | _ => true

/-- callouts that are delivered while a mutex the handler-safe functions need is held -/
def badCallouts (handlerLocks : List Mutex) (A : List (Action × List Mutex)) : List (Site × List Mutex) :=
  A.filterMap fun p => match p.1 with
    | .callout s _ => if p.2.any fun m => handlerLocks.contains m then some (s, p.2) else none
    | _ => none

/-- callouts the translator did not expand with handler calls (it may do so only where a
handler-safe function would re-lock a held mutex) -/
def unexpandedCallouts (A : List (Action × List Mutex)) : List (Site × List Mutex) :=
  A.filterMap fun p => match p.1 with
    | .callout s false => some (s, p.2)
    | _ => none

/-! ## roles -/

structure Role where
  name : String
  /-- may several threads run this role at once? (`vbi_decode` is documented as not reentrant) -/
  multi : Bool
  fns : List Cfg
  deriving Repr, Inhabited

def Cfg.tryFree (c : Cfg) : Bool :=
  c.edges.all fun e => match e.act with
    | .tryOk _ => false
    | .tryFail _ => false
    | _ => true

def Role.accs (r : Role) : List (Action × List Mutex) := r.fns.flatMap Cfg.accs
def Role.locks (r : Role) : List Mutex := r.fns.flatMap Cfg.locks
def Role.annOK (r : Role) : Bool := r.fns.all Cfg.annOK

def Role.tryFree (r : Role) : Bool := r.fns.all Cfg.tryFree

/-! ## checks over a table of roles -/

/-- pairwise discipline between every two roles that may run in different threads
(a role with `multi = false` never runs twice) -/
def tableDRF (known : Site → Site → Bool) (roles : List Role) : Bool :=
  (List.range roles.length).all fun a => (List.range roles.length).all fun b =>
    match roles[a]?, roles[b]? with
    | some A, some B => (a == b && !A.multi) || pairsOKB known A.accs B.accs
    | _, _ => true

/-- `m` is acquired by role `a` only, and role `a` runs in one thread only -/
def privB (roles : List Role) (a : Nat) (m : Mutex) : Bool :=
  match roles[a]? with
  | some A => !A.multi && (List.range roles.length).all fun b =>
      b == a || match roles[b]? with
        | some B => !B.locks.contains m
        | none => true
  | none => false

def tableOrdered (rank : Mutex → Nat) (roles : List Role) : Bool :=
  (List.range roles.length).all fun a =>
    match roles[a]? with
    | some A => orderedB rank (privB roles a) A.accs
    | none => true

/-- every access to a field of `X` happens under `m`, except at the sites `K` -/
def protectedB (m : Mutex) (X : Var → Bool) (K : Site → Bool) (A : List (Action × List Mutex)) : Bool :=
  A.all fun p => match p.1 with
    | .acc x _ s => !X x || p.2.contains m || K s
    | _ => true

end Zvbi.Locks
