import ZvbiModel.Locks.Atomic
import ZvbiModel.Cc.Model
/-!
# Locks - the caption decoder at lock granularity, over the Cc model (C08)

A concrete instance of `Atomic.lean` whose shared state is the state `Zvbi.Cc.St` of the caption
model:

* thread 0 is the decoding thread.  At lock granularity it is a sequence of *sections*: the stretches
  of `vbi_decode_caption` / `vbi_caption_channel_switched` during which it holds `cc.mutex`.  Between
  two sections the mutex is free - because `caption_send_event` (or `itv_separator`, `xds_decoder`)
  dropped it around a callback, or because the call returned; both look the same to another thread,
  so the program is `lock; section k; unlock; callout` for `k = 0, 1, ...`.  Section `k` transforms the
  state by `secs k`.  How the sections group into calls is not needed for the concurrency argument;
  `callsRefine` below states the tie to `Zvbi.Cc.step`: the sections of one call compose to the
  model's step function.
* every other thread performs one `vbi_fetch_cc_page (pgno = n)`:
  `lock; copy the page and reset its dirty fields; unlock`, with the data effect
  `Zvbi.Cc.fetchStep` / `Zvbi.Cc.fetchPage` of the model.  Any number of such threads.

`fetched_pages_are_sequential_snapshots`: under every schedule, every page any fetch ever returns is
`Zvbi.Cc.fetchPage σ n` for a state `σ` of the section-serial execution in which `cc.mutex` is free,
i.e. a state the decoding thread's sequential execution (with the earlier fetches' dirty resets in
between, as a single-threaded client calling `vbi_fetch_cc_page` from its event handler would see
them) has at one of its unlock points.
-/
namespace Zvbi.Locks.CcSections
open Zvbi.Locks

abbrev St := Zvbi.Cc.St
abbrev Page := Zvbi.Cc.Page
abbrev Log := List (Option Page)

/-- `cc.mutex` -/
def cc : Mutex := 1
/-- `vbi->cc.channel[*]` -/
def chv : Var := 0
def X (x : Var) : Bool := x == chv

def decBlock (k : Nat) : List Action := [.lock cc, .acc chv true k, .unlock cc, .callout 0 true]
/-- the decoding thread: sections `0 .. nsec-1` -/
def decProg (nsec : Nat) : List Action := (List.range nsec).flatMap decBlock
/-- one `vbi_fetch_cc_page (pgno = n)` -/
def fetchProg (n : Nat) : List Action := [.lock cc, .acc chv true n, .unlock cc]
def progs (nsec : Nat) (reqs : List Nat) : List (List Action) := decProg nsec :: reqs.map fetchProg

/-- data semantics: thread 0 applies its sections, the others fetch -/
def sem (secs : Nat → St → St) : DataSem St Log where
  eff i a σ l := match a with
    | .acc x _ k =>
      if X x then
        if i = 0 then (secs k σ, l) else (Zvbi.Cc.fetchStep σ (k : Int), l ++ [Zvbi.Cc.fetchPage σ (k : Int)])
      else (σ, l)
    | _ => (σ, l)

theorem sem_frame (secs : Nat → St → St) : Frame X (sem secs) := by
  intro i a hx
  refine ⟨id, ?_⟩
  intro σ l
  cases a with
  | acc x w k =>
    simp only [isXacc] at hx
    simp [sem, hx]
  | _ => rfl

/-! ## the section discipline of these programs -/

theorem scan_flatMap {α : Type} (f : α → List Action) (hb : ∀ x, trackList [] (f x) = some []) (l : List α) :
    scan [] (l.flatMap f) = l.flatMap fun x => scan [] (f x) := by
  induction l with
  | nil => simp [scan]
  | cons a r ih =>
    simp only [List.flatMap_cons]
    rw [scan_append _ (hb a), ih]

theorem mem_scan_dec {nsec : Nat} {q : Action × List Mutex} (h : q ∈ scan [] (decProg nsec)) :
    ∃ k, q = (.lock cc, []) ∨ q = (.acc chv true k, [cc]) ∨ q = (.unlock cc, [cc]) ∨ q = (.callout 0 true, []) := by
  unfold decProg at h
  rw [scan_flatMap decBlock (by intro x; simp [decBlock, trackList, track, cc])] at h
  obtain ⟨k, _, hk⟩ := List.mem_flatMap.1 h
  refine ⟨k, ?_⟩
  simpa [decBlock, scan, track, cc] using hk

theorem mem_scan_fetch {n : Nat} {q : Action × List Mutex} (h : q ∈ scan [] (fetchProg n)) :
    q = (.lock cc, []) ∨ q = (.acc chv true n, [cc]) ∨ q = (.unlock cc, [cc]) := by
  simpa [fetchProg, scan, track, cc] using h

theorem progs_get {nsec : Nat} {reqs : List Nat} {i : Nat} {p : List Action} (h : (progs nsec reqs)[i]? = some p) :
    (i = 0 ∧ p = decProg nsec) ∨ (∃ i' n, i = i' + 1 ∧ reqs[i']? = some n ∧ p = fetchProg n) := by
  cases i with
  | zero => simp [progs] at h; exact Or.inl ⟨rfl, h.symm⟩
  | succ i' =>
    simp only [progs, List.getElem?_cons_succ, List.getElem?_map] at h
    cases hr : reqs[i']? with
    | none => simp [hr] at h
    | some n => simp [hr] at h; exact Or.inr ⟨i', n, rfl, hr, h.symm⟩

theorem discipline (nsec : Nat) (reqs : List Nat) : SectionDiscipline X cc (progs nsec reqs) := by
  refine ⟨?_, ?_, ?_⟩
  · intro i p x w site h hp hx hs
    rcases progs_get hp with ⟨_, rfl⟩ | ⟨_, n, _, _, rfl⟩
    · obtain ⟨k, hk⟩ := mem_scan_dec hs
      rcases hk with hk | hk | hk | hk <;> simp at hk
      simp [hk.2]
    · rcases mem_scan_fetch hs with hk | hk | hk <;> simp at hk
      simp [hk.2]
  · intro i p a h hp hs hm hmo
    rcases progs_get hp with ⟨_, rfl⟩ | ⟨_, n, _, _, rfl⟩
    · obtain ⟨k, hk⟩ := mem_scan_dec hs
      rcases hk with hk | hk | hk | hk <;> simp at hk <;> obtain ⟨rfl, rfl⟩ := hk
      · simp at hm
      · simp [isMutexOp] at hmo
      · rfl
      · simp at hm
    · rcases mem_scan_fetch hs with hk | hk | hk <;> simp at hk <;> obtain ⟨rfl, rfl⟩ := hk
      · simp at hm
      · simp [isMutexOp] at hmo
      · rfl
  · intro i p hp hmem
    rcases progs_get hp with ⟨_, rfl⟩ | ⟨_, n, _, _, rfl⟩
    · unfold decProg at hmem
      obtain ⟨k, _, hk⟩ := List.mem_flatMap.1 hmem
      simp [decBlock] at hk
    · simp [fetchProg] at hmem

/-! ## runs -/

theorem Run.rest {D : DataSem St Log} {j : Nat} {S S' : DState St Log} {as : List Action} (r : Run D j S as S')
    (hne : as ≠ []) : ∃ h r', S.thr[j]? = some ⟨h, as ++ r'⟩ := by
  induction r with
  | nil S => exact absurd rfl hne
  | @cons S S1 S2 a as st run ih =>
    obtain ⟨h, r0, h', hj, _, _, hs1⟩ := st.1.inv
    cases as with
    | nil => exact ⟨h, r0, by simpa using hj⟩
    | cons b bs =>
      obtain ⟨h1, r1, hj1⟩ := ih (by simp)
      rw [hs1, getElem?_set_same hj] at hj1
      cases hj1
      exact ⟨h, r1, by simpa using hj⟩

theorem Run.other {D : DataSem St Log} {j : Nat} {S S' : DState St Log} {as : List Action} (r : Run D j S as S')
    {k : Nat} (hk : k ≠ j) : S'.loc[k]? = S.loc[k]? := by
  induction r with
  | nil S => rfl
  | @cons S S1 S2 a as st _ ih =>
    obtain ⟨_, l, _, _, hloc⟩ := st
    rw [ih, hloc]
    exact getElem?_set_other (Ne.symm hk)

theorem foldEff_dec (secs : Nat → St → St) (as : List Action) (x : St × Log) : (foldEff (sem secs) 0 as x).2 = x.2 := by
  induction as generalizing x with
  | nil => rfl
  | cons a r ih =>
    simp only [foldEff]
    rw [ih]
    cases a <;> simp [sem]
    split <;> rfl

/-- the executed part of a fetch thread's open or complete section -/
theorem fetch_section_shape {n : Nat} {pre r : List Action} {acq : Action} {body : List Action}
    (hacq : acq = .lock cc ∨ acq = .tryOk cc) (hbody : ∀ b ∈ body, isMutexOp b = false)
    (h : fetchProg n = pre ++ (acq :: body ++ r)) : pre = [] ∧ (body = [] ∨ body = [.acc chv true n]) := by
  unfold fetchProg at h
  match pre, h with
  | [], h =>
    simp at h
    obtain ⟨_, h⟩ := h
    refine ⟨rfl, ?_⟩
    match body, hbody, h with
    | [], _, _ => exact Or.inl rfl
    | [b], _, h => simp at h; exact Or.inr (by rw [h.1])
    | b :: c :: rest, hb, h =>
      simp at h
      have := hb c (by simp)
      rw [← h.2.1] at this
      simp [isMutexOp] at this
  | [a], h =>
    simp at h
    rcases hacq with rfl | rfl <;> simp at h
  | [a, b], h =>
    simp at h
    rcases hacq with rfl | rfl <;> simp at h
  | a :: b :: c :: d, h =>
    simp at h

/-! ## every fetched page is a snapshot of the section-serial execution -/

/-- a page is *good*: it is what `vbi_fetch_cc_page` returns in a state of the section-serial
execution in which `cc.mutex` is free -/
def Good (secs : Nat → St → St) (nsec : Nat) (reqs : List Nat) (σ0 : St) (ls0 : List Log) (pg : Option Page) : Prop :=
  ∃ (S0 : DState St Log) (n : Nat), AReach (sem secs) cc (progs nsec reqs) σ0 ls0 S0 ∧ Free S0.thr cc ∧
    pg = Zvbi.Cc.fetchPage S0.sh (n : Int)

def LogsGood (secs : Nat → St → St) (nsec : Nat) (reqs : List Nat) (σ0 : St) (ls0 : List Log) (S : DState St Log) : Prop :=
  ∀ (i : Nat) l, S.loc[i]? = some l → ∀ pg ∈ l, Good secs nsec reqs σ0 ls0 pg

theorem serial_logs_good {secs : Nat → St → St} {nsec : Nat} {reqs : List Nat} {σ0 : St} {ls0 : List Log}
    (h0 : ∀ l ∈ ls0, l = []) {S : DState St Log} (r : AReach (sem secs) cc (progs nsec reqs) σ0 ls0 S) :
    LogsGood secs nsec reqs σ0 ls0 S := by
  induction r with
  | init =>
    intro i l hl pg hpg
    have := h0 l (List.mem_of_getElem? hl)
    subst this
    cases hpg
  | @step S S' lab aS hfree st _ ih =>
    obtain ⟨i, a⟩ := lab
    obtain ⟨stp, l, hl, _, hloc⟩ := st
    simp only at hl hloc
    obtain ⟨h, rr, h', hi, _, _, _⟩ := stp.inv
    have iv := inv_reachable aS.dreach.reachable
    obtain ⟨p, hp, hsc⟩ := next_in_scan iv hi
    have hmh : cc ∉ h := free_iff.1 hfree i _ hi
    -- outside the sections nothing is fetched
    have heff : ((sem secs).eff i a S.sh l).2 = l := by
      cases a with
      | acc x w k =>
        cases hX : X x with
        | false => simp [sem, hX]
        | true => exact absurd ((discipline nsec reqs).prot i p x w k h hp hX hsc) hmh
      | _ => rfl
    intro k lk hk pg hpg
    rw [hloc, heff] at hk
    by_cases hki : k = i
    · subst hki
      rw [getElem?_set_same hl] at hk
      cases hk
      exact ih k _ hl pg hpg
    · rw [getElem?_set_other (Ne.symm hki)] at hk
      exact ih k lk hk pg hpg
  | @sect S S' j acq body aS hacq hbody run ih =>
    have hfree : Free S.thr cc := by
      cases run with
      | cons st _ =>
        obtain ⟨_, _, _, _, en, _, _⟩ := st.1.inv
        rcases hacq with rfl | rfl <;> exact en
    obtain ⟨h, r', hj⟩ := Run.rest run (by simp)
    have iv := inv_reachable aS.dreach.reachable
    obtain ⟨pre, hp, _⟩ := iv.pre j _ hj
    simp only at hp
    intro k lk hk pg hpg
    by_cases hkj : k = j
    · subst hkj
      have hlen : k < S.loc.length ∨ S.loc[k]? = none := by
        cases hh : S.loc[k]? with
        | none => exact Or.inr rfl
        | some _ => exact Or.inl (List.getElem?_eq_some_iff.1 hh).1
      cases hl : S.loc[k]? with
      | none =>
        -- the thread has no local state: it cannot step
        cases run with
        | cons st _ =>
          obtain ⟨_, l, hl', _, _⟩ := st
          simp only at hl'
          rw [hl] at hl'
          cases hl'
      | some l =>
        obtain ⟨_, hres⟩ := run.result hl
        rw [hres] at hk
        cases hk
        rcases progs_get hp with ⟨rfl, _⟩ | ⟨i', n, rfl, _, hprog⟩
        · rw [foldEff_dec] at hpg
          exact ih 0 l hl pg hpg
        · -- the body proper contains no mutex operation; split off the closing unlock
          have hsh' : fetchProg n = pre ++ (acq :: body ++ (Action.unlock cc :: r')) := by
            rw [← hprog]; simp
          obtain ⟨_, hb⟩ := fetch_section_shape hacq hbody hsh'
          rcases hb with rfl | rfl
          · -- lock; unlock : impossible, the program has the access in between
            subst_vars
            simp [fetchProg] at hsh'
          · have hacq' : acq = .lock cc := by
              subst_vars
              simp [fetchProg] at hsh'
              exact hsh'.1.symm
            subst hacq'
            simp [foldEff, sem, X] at hpg
            rcases hpg with hpg | hpg
            · exact ih (i' + 1) l hl pg hpg
            · exact ⟨S, n, aS, hfree, hpg⟩
    · rw [Run.other run hkj] at hk
      exact ih k lk hk pg hpg

/-- **Every fetched caption page is a snapshot of the sequential execution, for all schedules.**
Whatever the sections of the decoding thread do (`secs`), however many they are, whatever pages are
requested by however many fetching threads, and however the threads are interleaved at the
granularity of single lock / unlock / access steps: every page a fetch has returned is
`Zvbi.Cc.fetchPage σ n` for the shared state `σ` of a state of the section-serial execution in which
`cc.mutex` is free (the decoding thread at an unlock point, whole sections and whole earlier fetches
executed one after the other). -/
theorem fetched_pages_are_sequential_snapshots {secs : Nat → St → St} {nsec : Nat} {reqs : List Nat} {σ0 : St}
    {ls0 : List Log} (h0 : ∀ l ∈ ls0, l = []) {S : DState St Log}
    (r : DReach (sem secs) (progs nsec reqs) σ0 ls0 S) : LogsGood secs nsec reqs σ0 ls0 S := by
  have frame := sem_frame secs
  have sd := discipline nsec reqs
  by_cases hfree : Free S.thr cc
  · exact serial_logs_good h0 (atomic_sections frame sd r hfree)
  · have : ∃ (j : Nat) (tj : Thread), S.thr[j]? = some tj ∧ cc ∈ tj.held := by
      apply Classical.byContradiction
      intro hno
      exact hfree (free_iff.2 fun k tk hk hm => hno ⟨k, tk, hk, hm⟩)
    obtain ⟨j, tj, hj, hm⟩ := this
    obtain ⟨S0, acq, body, t0, aS0, hfree0, hacq, hbody, run, hagree, ht0, _⟩ :=
      ((section_invariant frame sd r).2 j tj hj hm).ex
    have good0 := serial_logs_good h0 aS0
    intro k lk hk pg hpg
    by_cases hkj : k = j
    · subst hkj
      obtain ⟨h, r', hj0⟩ := Run.rest run (by simp)
      have iv := inv_reachable aS0.dreach.reachable
      obtain ⟨pre, hp, _⟩ := iv.pre k _ hj0
      simp only at hp
      cases hl : S0.loc[k]? with
      | none =>
        cases run with
        | cons st _ =>
          obtain ⟨_, l, hl', _, _⟩ := st
          simp only at hl'
          rw [hl] at hl'
          cases hl'
      | some l =>
        obtain ⟨_, hres⟩ := run.result hl
        rw [hres] at hk
        cases hk
        rcases progs_get hp with ⟨rfl, _⟩ | ⟨i', n, rfl, _, hprog⟩
        · rw [foldEff_dec] at hpg
          exact good0 0 l hl pg hpg
        · have hsh : fetchProg n = pre ++ (acq :: body ++ r') := by
            rw [← hprog]
          obtain ⟨_, hb⟩ := fetch_section_shape hacq hbody hsh
          rcases hb with rfl | rfl
          · have : (foldEff (sem secs) (i' + 1) [acq] (S0.sh, l)).2 = l := by
              rcases hacq with rfl | rfl <;> simp [foldEff, sem]
            rw [this] at hpg
            exact good0 (i' + 1) l hl pg hpg
          · have hl2 : (foldEff (sem secs) (i' + 1) [acq, .acc chv true n] (S0.sh, l)).2 =
                l ++ [Zvbi.Cc.fetchPage S0.sh (n : Int)] := by
              rcases hacq with rfl | rfl <;> simp [foldEff, sem, X]
            rw [hl2] at hpg
            rcases List.mem_append.1 hpg with hpg | hpg
            · exact good0 (i' + 1) l hl pg hpg
            · simp at hpg
              exact ⟨S0, n, aS0, hfree0, hpg⟩
    · rw [← (hagree k hkj).2] at hk
      exact good0 k lk hk pg hpg

/-! ## tie to the step function of the Cc model -/

/-- the sections of the decoding thread refine a sequence of model operations: call `c` consists of
the sections `bounds c .. bounds (c+1) - 1`, and executed one after the other without a fetch in
between they compute `Zvbi.Cc.step · (ops c)` -/
def callsRefine (secs : Nat → St → St) (ops : List Zvbi.Cc.Op) (bounds : Nat → Nat) : Prop :=
  ∀ c op, ops[c]? = some op → bounds c ≤ bounds (c + 1) ∧
    ∀ σ, ((List.range (bounds (c + 1) - bounds c)).foldl (fun s k => secs (bounds c + k) s) σ) = Zvbi.Cc.step σ op

/-- non-vacuity: one section per call, the whole step (a call without callback) -/
example (ops : List Zvbi.Cc.Op) :
    callsRefine (fun k σ => match ops[k]? with | some op => Zvbi.Cc.step σ op | none => σ) ops id := by
  intro c op hc
  refine ⟨Nat.le_succ _, ?_⟩
  intro σ
  simp [hc]

end Zvbi.Locks.CcSections
