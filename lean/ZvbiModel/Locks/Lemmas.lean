import ZvbiModel.Locks.Spec
/-!
# Locks - the generic proofs (all thread programs, all schedules)

1. the invariant of every reachable state (`Inv`): what a thread holds is what the
   static tracker computes for the prefix it has executed, and two threads never
   hold the same mutex;
2. data-race freedom from the pairwise lock discipline;
3. exclusiveness of critical sections (snapshot consistency);
4. deadlock freedom from well-bracketedness plus a lock order;
5. paths of an annotated control-flow graph satisfy what the annotation says.
-/
namespace Zvbi.Locks

/-! ## tracker -/

theorem trackList_append (h : List Mutex) (p q : List Action) :
    trackList h (p ++ q) = (trackList h p).bind fun h' => trackList h' q := by
  induction p generalizing h with
  | nil => simp [trackList]
  | cons a r ih =>
    simp only [List.cons_append, trackList]
    cases track h a with
    | none => simp
    | some h' => simpa using ih h'

theorem trackList_snoc {h0 h h' : List Mutex} {pre : List Action} {a : Action}
    (hp : trackList h0 pre = some h) (ha : track h a = some h') :
    trackList h0 (pre ++ [a]) = some h' := by
  rw [trackList_append, hp]
  simp [trackList, ha]

/-- the action at the split point of a program is in its scan, with the tracked held set -/
theorem scan_mem_of_prefix {h0 h : List Mutex} {pre : List Action} (a : Action) (r : List Action)
    (hp : trackList h0 pre = some h) : (a, h) ∈ scan h0 (pre ++ a :: r) := by
  induction pre generalizing h0 with
  | nil =>
    simp [trackList] at hp
    subst hp
    simp [scan]
  | cons b pre ih =>
    simp only [trackList] at hp
    cases hb : track h0 b with
    | none => simp [hb] at hp
    | some h1 =>
      simp only [hb] at hp
      simp only [List.cons_append, scan, hb]
      exact List.mem_cons_of_mem _ (ih hp)

theorem scan_append {h0 h : List Mutex} {p : List Action} (q : List Action)
    (hp : trackList h0 p = some h) : scan h0 (p ++ q) = scan h0 p ++ scan h q := by
  induction p generalizing h0 with
  | nil =>
    simp [trackList] at hp
    subst hp
    simp [scan]
  | cons b p ih =>
    simp only [trackList] at hp
    cases hb : track h0 b with
    | none => simp [hb] at hp
    | some h1 =>
      simp only [hb] at hp
      simp only [List.cons_append, scan, hb]
      rw [ih hp]

/-- what is held after an action was held before or has just been acquired -/
theorem track_mem {h h' : List Mutex} {a : Action} {m : Mutex}
    (tr : track h a = some h') (hm : m ∈ h') : m ∈ h ∨ a = .lock m ∨ a = .tryOk m := by
  cases a with
  | lock k =>
    simp only [track] at tr
    split at tr
    · cases tr
    · cases tr
      rcases List.mem_cons.1 hm with rfl | hm
      · exact Or.inr (Or.inl rfl)
      · exact Or.inl hm
  | tryOk k =>
    simp only [track] at tr
    split at tr
    · cases tr
    · cases tr
      rcases List.mem_cons.1 hm with rfl | hm
      · exact Or.inr (Or.inr rfl)
      · exact Or.inl hm
  | unlock k =>
    simp only [track] at tr
    split at tr
    · cases tr
      exact Or.inl (List.mem_of_mem_erase hm)
    · cases tr
  | tryFail k => simp only [track] at tr; cases tr; exact Or.inl hm
  | acc x w s => simp only [track] at tr; cases tr; exact Or.inl hm
  | callout s re => simp only [track] at tr; cases tr; exact Or.inl hm
  | tau => simp only [track] at tr; cases tr; exact Or.inl hm

theorem track_lock_not_mem {h h' : List Mutex} {m : Mutex} (tr : track h (.lock m) = some h') : m ∉ h := by
  simp only [track] at tr
  split at tr
  · cases tr
  · assumption

theorem locksOf_append (p q : List Action) : locksOf (p ++ q) = locksOf p ++ locksOf q := by
  induction p with
  | nil => simp [locksOf]
  | cons a r ih => cases a <;> simp [locksOf, ih]

/-- a held mutex was held at the start or is acquired somewhere in the executed prefix -/
theorem trackList_mem {h0 h : List Mutex} {pre : List Action} {m : Mutex}
    (hp : trackList h0 pre = some h) (hm : m ∈ h) : m ∈ h0 ∨ m ∈ locksOf pre := by
  induction pre generalizing h0 with
  | nil => simp [trackList] at hp; subst hp; exact Or.inl hm
  | cons a r ih =>
    simp only [trackList] at hp
    cases ha : track h0 a with
    | none => simp [ha] at hp
    | some h1 =>
      simp only [ha] at hp
      rcases ih hp with h | h
      · rcases track_mem ha h with h | rfl | rfl
        · exact Or.inl h
        · exact Or.inr (by simp [locksOf])
        · exact Or.inr (by simp [locksOf])
      · exact Or.inr (by cases a <;> simp [locksOf, h])

/-! ## the invariant of reachable states -/

structure Inv (progs : List (List Action)) (s : State) : Prop where
  len : s.length = progs.length
  pre : ∀ (i : Nat) t, s[i]? = some t → ∃ pre, progs[i]? = some (pre ++ t.rest) ∧ trackList [] pre = some t.held
  excl : ∀ (i j : Nat) ti tj, i ≠ j → s[i]? = some ti → s[j]? = some tj → ∀ m, m ∈ ti.held → m ∉ tj.held

theorem inv_init (progs : List (List Action)) : Inv progs (init progs) := by
  refine ⟨by simp [init], ?_, ?_⟩
  · intro i t ht
    simp only [init, List.getElem?_map] at ht
    cases hp : progs[i]? with
    | none => simp [hp] at ht
    | some p =>
      simp [hp] at ht
      subst ht
      exact ⟨[], by simp, rfl⟩
  · intro i j ti tj _ hi _ m hm
    simp only [init, List.getElem?_map] at hi
    cases hp : progs[i]? with
    | none => simp [hp] at hi
    | some p =>
      simp [hp] at hi
      subst hi
      simp at hm

theorem enabled_free {s : State} {a : Action} {m : Mutex} (en : Enabled s a)
    (ha : a = .lock m ∨ a = .tryOk m) : Free s m := by
  rcases ha with rfl | rfl <;> exact en

theorem inv_step {progs : List (List Action)} {s s' : State} {l : Nat × Action}
    (st : Step s l s') (iv : Inv progs s) : Inv progs s' := by
  cases st with
  | @mk i h a r h' hi en tr =>
    have hlt : i < s.length := by
      rcases List.getElem?_eq_some_iff.1 hi with ⟨hh, _⟩; exact hh
    refine ⟨by simp [iv.len], ?_, ?_⟩
    · intro k t hk
      rw [List.getElem?_set] at hk
      by_cases hik : i = k
      · subst hik
        simp [hlt] at hk
        subst hk
        obtain ⟨pre, hp, ht⟩ := iv.pre i _ hi
        refine ⟨pre ++ [a], ?_, trackList_snoc ht tr⟩
        simpa using hp
      · simp [hik] at hk
        exact iv.pre k t hk
    · intro k l tk tl hkl hk hl m hm
      rw [List.getElem?_set] at hk hl
      by_cases hik : i = k
      · subst hik
        have hil : ¬ i = l := hkl
        simp [hlt] at hk
        simp [hil] at hl
        subst hk
        rcases track_mem tr hm with hm | hacq
        · exact iv.excl i l _ tl hkl hi hl m hm
        · exact enabled_free en hacq tl (List.mem_of_getElem? hl)
      · simp [hik] at hk
        by_cases hil : i = l
        · subst hil
          simp [hlt] at hl
          subst hl
          intro hm'
          rcases track_mem tr hm' with hm' | hacq
          · exact iv.excl k i tk _ hkl hk hi m hm hm'
          · exact enabled_free en hacq tk (List.mem_of_getElem? hk) hm
        · simp [hil] at hl
          exact iv.excl k l tk tl hkl hk hl m hm

theorem inv_exec {progs : List (List Action)} {s s' : State} {ls : List (Nat × Action)}
    (ex : Exec s ls s') (iv : Inv progs s) : Inv progs s' := by
  induction ex with
  | nil => exact iv
  | cons st _ ih => exact ih (inv_step st iv)

theorem inv_reachable {progs : List (List Action)} {s : State} (r : Reachable progs s) : Inv progs s := by
  obtain ⟨ls, ex⟩ := r
  exact inv_exec ex (inv_init progs)

theorem exec_snoc {s0 s s' : State} {ls : List (Nat × Action)} {l : Nat × Action}
    (ex : Exec s0 ls s) (st : Step s l s') : Exec s0 (ls ++ [l]) s' := by
  induction ex with
  | nil => exact .cons st (.nil _)
  | cons st' _ ih => exact .cons st' (ih st)

theorem reachable_step {progs : List (List Action)} {s s' : State} {l : Nat × Action}
    (r : Reachable progs s) (st : Step s l s') : Reachable progs s' := by
  obtain ⟨ls, ex⟩ := r
  exact ⟨ls ++ [l], exec_snoc ex st⟩

/-- the next action of a thread, with what the thread holds, is in the scan of its program -/
theorem next_in_scan {progs : List (List Action)} {s : State} (iv : Inv progs s)
    {i : Nat} {h : List Mutex} {a : Action} {r : List Action} (hi : s[i]? = some ⟨h, a :: r⟩) :
    ∃ p, progs[i]? = some p ∧ (a, h) ∈ scan [] p := by
  obtain ⟨pre, hp, ht⟩ := iv.pre i _ hi
  exact ⟨_, hp, scan_mem_of_prefix a r ht⟩

/-! ## data-race freedom -/

theorem drf_of_discipline {known : Site → Site → Bool} {progs : List (List Action)} {s : State}
    (disc : Discipline known progs) (rs : Reachable progs s)
    {i j : Nat} {a b : Action} (race : RaceAt s i j a b) :
    known (siteOf a) (siteOf b) = true := by
  have iv := inv_reachable rs
  obtain ⟨hij, ⟨hi, ri, hsi⟩, ⟨hj, rj, hsj⟩, cf⟩ := race
  obtain ⟨pi, hpi, mi⟩ := next_in_scan iv hsi
  obtain ⟨pj, hpj, mj⟩ := next_in_scan iv hsj
  rcases disc i j pi pj hij hpi hpj _ mi _ mj cf with ⟨m, h1, h2⟩ | hk
  · exact absurd h2 (iv.excl i j _ _ hij hsi hsj m h1)
  · exact hk

/-! ## critical sections are exclusive -/

/-- while thread `j` holds `m`, a step of another thread is an action that its program
performs (somewhere) without holding `m` -/
theorem step_outside_of_held {progs : List (List Action)} {s s' : State} (rs : Reachable progs s)
    {i j : Nat} {a : Action} (st : Step s (i, a) s') (hij : j ≠ i)
    {tj : Thread} (hj : s[j]? = some tj) {m : Mutex} (hm : m ∈ tj.held) :
    ∃ p h, progs[i]? = some p ∧ (a, h) ∈ scan [] p ∧ m ∉ h := by
  have iv := inv_reachable rs
  cases st with
  | @mk _ h _ r h' hi en tr =>
    obtain ⟨p, hp, hs⟩ := next_in_scan iv hi
    refine ⟨p, h, hp, hs, ?_⟩
    intro hmi
    exact iv.excl j i tj _ hij hj hi m hm hmi

/-- during a whole stretch in which `j` holds `m`, every access of another thread to a field of `X`
is one that its program performs outside `m` at a site of `K` -/
theorem holding_stretch {progs : List (List Action)} {s s' : State} {j : Nat} {m : Mutex}
    {ls : List (Nat × Action)} (X : Var → Bool) (K : Site → Bool)
    (prot : ∀ (i : Nat) p x w site h, progs[i]? = some p → X x = true →
      (Action.acc x w site, h) ∈ scan [] p → m ∈ h ∨ K site = true)
    (rs : Reachable progs s) (ex : ExecHolding j m s ls s') :
    ∀ i x w site, (i, Action.acc x w site) ∈ ls → i ≠ j → X x = true → K site = true := by
  induction ex with
  | nil s => intro i x w site h; cases h
  | @cons s s1 s2 l ls hold st _ ih =>
    intro i x w site hmem hij hx
    rcases List.mem_cons.1 hmem with rfl | hmem
    · obtain ⟨tj, hj, hm⟩ := hold
      obtain ⟨p, h, hp, hs, hn⟩ := step_outside_of_held rs st (Ne.symm hij) hj hm
      rcases prot i p x w site h hp hx hs with h1 | h1
      · exact absurd h1 hn
      · exact h1
    · exact ih (reachable_step rs st) i x w site hmem hij hx

/-! ## deadlock freedom -/

theorem finished_holds_nothing {progs : List (List Action)} {s : State} (iv : Inv progs s)
    (bal : ∀ (i : Nat) p, progs[i]? = some p → Balanced p)
    {i : Nat} {t : Thread} (hi : s[i]? = some t) (hr : t.rest = []) : t.held = [] := by
  obtain ⟨pre, hp, ht⟩ := iv.pre i t hi
  rw [hr, List.append_nil] at hp
  have := bal i pre hp
  unfold Balanced at this
  rw [this] at ht
  exact (Option.some.inj ht).symm

/-- in a balanced program the tracker accepts the next action -/
theorem next_tracks {progs : List (List Action)} {s : State} (iv : Inv progs s)
    (bal : ∀ (i : Nat) p, progs[i]? = some p → Balanced p)
    {i : Nat} {h : List Mutex} {a : Action} {r : List Action} (hi : s[i]? = some ⟨h, a :: r⟩) :
    ∃ h', track h a = some h' := by
  obtain ⟨pre, hp, ht⟩ := iv.pre i _ hi
  have hb := bal i _ hp
  unfold Balanced at hb
  rw [trackList_append, ht] at hb
  simp only [Option.bind, trackList] at hb
  cases hta : track h a with
  | none => simp [hta] at hb
  | some h' => exact ⟨h', rfl⟩

theorem holder_locks {progs : List (List Action)} {s : State} (iv : Inv progs s)
    {k : Nat} {t : Thread} (hk : s[k]? = some t) {m : Mutex} (hm : m ∈ t.held) :
    ∃ p, progs[k]? = some p ∧ m ∈ locksOf p := by
  obtain ⟨pre, hp, ht⟩ := iv.pre k t hk
  refine ⟨_, hp, ?_⟩
  rcases trackList_mem ht hm with h | h
  · cases h
  · rw [locksOf_append]
    exact List.mem_append_left _ h

/-- from a thread waiting for `m` one finds a thread waiting for a mutex of larger rank -/
theorem blocked_chain {rank : Mutex → Nat} {progs : List (List Action)} {s : State}
    (iv : Inv progs s) (bal : ∀ (i : Nat) p, progs[i]? = some p → Balanced p) (ord : Ordered rank progs)
    (dl : Deadlock s) {i : Nat} {t : Thread} (hi : s[i]? = some t) {m : Mutex} {r : List Action}
    (hr : t.rest = .lock m :: r) (hheld : ∃ t' ∈ s, m ∈ t'.held) :
    ∃ (j : Nat) (t' : Thread) (m' : Mutex) (r' : List Action), s[j]? = some t' ∧ t'.rest = Action.lock m' :: r' ∧ (∃ t'' ∈ s, m' ∈ t''.held) ∧ rank m < rank m' := by
  obtain ⟨t', ht's, hmt'⟩ := hheld
  obtain ⟨j, hj⟩ := List.mem_iff_getElem?.1 ht's
  -- the holder is unfinished, hence blocked itself
  have hne : t'.rest ≠ [] := by
    intro h0
    have := finished_holds_nothing iv bal hj h0
    rw [this] at hmt'
    cases hmt'
  rcases dl.2 t' ht's with h0 | ⟨m', r', hr', hheld'⟩
  · exact absurd h0 hne
  · refine ⟨j, t', m', r', hj, hr', hheld', ?_⟩
    have hj' : s[j]? = some ⟨t'.held, .lock m' :: r'⟩ := by
      rw [hj]; cases t'; simp at hr'; simp [hr']
    obtain ⟨pj, hpj, hsc⟩ := next_in_scan iv hj'
    rcases ord j pj hpj m' t'.held hsc with hrank | hpriv
    · exact hrank m hmt'
    · -- private to j, but somebody else holds it
      exfalso
      obtain ⟨t'', ht''s, hm''⟩ := hheld'
      obtain ⟨k, hk⟩ := List.mem_iff_getElem?.1 ht''s
      by_cases hkj : k = j
      · subst hkj
        rw [hj] at hk
        cases hk
        obtain ⟨h', htr⟩ := next_tracks iv bal hj'
        exact track_lock_not_mem htr hm''
      · obtain ⟨pk, hpk, hlk⟩ := holder_locks iv hk hm''
        exact hpriv k pk hkj hpk hlk

theorem no_deadlock_of_order {rank : Mutex → Nat} {bound : Nat} {progs : List (List Action)} {s : State}
    (bal : ∀ (i : Nat) p, progs[i]? = some p → Balanced p) (ord : Ordered rank progs)
    (hb : ∀ m, rank m < bound) (rs : Reachable progs s) : ¬ Deadlock s := by
  intro dl
  have iv := inv_reachable rs
  -- for every k there is a blocked thread waiting for a mutex of rank >= k
  have key : ∀ k, ∃ (j : Nat) (t : Thread) (m : Mutex) (r : List Action), s[j]? = some t ∧ t.rest = Action.lock m :: r ∧
      (∃ t' ∈ s, m ∈ t'.held) ∧ k ≤ rank m := by
    intro k
    induction k with
    | zero =>
      obtain ⟨t, hts, hne⟩ := dl.1
      obtain ⟨j, hj⟩ := List.mem_iff_getElem?.1 hts
      rcases dl.2 t hts with h0 | ⟨m, r, hr, hh⟩
      · exact absurd h0 hne
      · exact ⟨j, t, m, r, hj, hr, hh, Nat.zero_le _⟩
    | succ k ih =>
      obtain ⟨j, t, m, r, hj, hr, hh, hk⟩ := ih
      obtain ⟨j', t', m', r', hj', hr', hh', hlt⟩ := blocked_chain iv bal ord dl hj hr hh
      exact ⟨j', t', m', r', hj', hr', hh', by omega⟩
  obtain ⟨_, _, m, _, _, _, _, hk⟩ := key bound
  have := hb m
  omega

/-- without trylock, a state in which nobody can move is a deadlock in the sense above
(so `no_deadlock_of_order` gives progress) -/
theorem stuck_is_deadlock {progs : List (List Action)} {s : State}
    (bal : ∀ (i : Nat) p, progs[i]? = some p → Balanced p) (tf : ∀ (i : Nat) p, progs[i]? = some p → TryFree p)
    (rs : Reachable progs s) (st : Stuck s) : Deadlock s := by
  have iv := inv_reachable rs
  refine ⟨st.1, ?_⟩
  intro t hts
  obtain ⟨i, hi⟩ := List.mem_iff_getElem?.1 hts
  cases hrest : t.rest with
  | nil => exact Or.inl rfl
  | cons a r =>
    right
    have hi' : s[i]? = some ⟨t.held, a :: r⟩ := by rw [hi]; cases t; simp at hrest; simp [hrest]
    obtain ⟨h', htr⟩ := next_tracks iv bal hi'
    have nen : ¬ Enabled s a := fun en => st.2 _ _ (Step.mk hi' en htr)
    obtain ⟨pre, hp, _⟩ := iv.pre i _ hi'
    have hmem : a ∈ pre ++ a :: r := by simp
    have htf := tf i _ hp a hmem
    cases a with
    | lock m =>
      refine ⟨m, r, hrest, ?_⟩
      apply Classical.byContradiction
      intro hno
      apply nen
      intro t' ht' hm
      exact hno ⟨t', ht', hm⟩
    | tryOk m => exact absurd rfl (htf m).1
    | tryFail m => exact absurd rfl (htf m).2
    | unlock m => exact absurd trivial nen
    | acc x w s => exact absurd trivial nen
    | callout s re => exact absurd trivial nen
    | tau => exact absurd trivial nen

/-! ## control-flow graphs -/

theorem Cfg.edgeOK_of_annOK {c : Cfg} (ok : c.annOK = true) {e : Edge} (he : e ∈ c.edges) :
    c.edgeOK e = true := by
  unfold Cfg.annOK at ok
  simp only [Bool.and_eq_true] at ok
  exact List.all_eq_true.1 ok.2 e he

/-- along any path the tracker agrees with the annotation and every (action, held) pair
is one of the graph's `accs` -/
theorem path_track {c : Cfg} (ok : c.annOK = true) {u v : Nat} {t : List Action} (p : Path c u t v)
    {hu : List Mutex} (hu' : c.annAt u = some hu) :
    ∃ hv, c.annAt v = some hv ∧ trackList hu t = some hv ∧ ∀ x ∈ scan hu t, x ∈ c.accs := by
  induction p generalizing hu with
  | nil u => exact ⟨hu, hu', rfl, by simp [scan]⟩
  | @cons u v t e he hsrc _ ih =>
    have hok := Cfg.edgeOK_of_annOK ok he
    unfold Cfg.edgeOK at hok
    rw [hsrc, hu'] at hok
    cases hd : c.annAt e.dst with
    | none => simp [hd] at hok
    | some hd' =>
      simp only [hd, beq_iff_eq] at hok
      obtain ⟨hv, h1, h2, h3⟩ := ih hd
      refine ⟨hv, h1, by simp [trackList, hok, h2], ?_⟩
      intro x hx
      simp only [scan, hok, List.mem_cons] at hx
      rcases hx with rfl | hx
      · unfold Cfg.accs
        refine List.mem_filterMap.2 ⟨e, he, ?_⟩
        simp [hsrc, hu']
      · exact h3 x hx

theorem path_locks {c : Cfg} {u v : Nat} {t : List Action} (p : Path c u t v) :
    ∀ m ∈ locksOf t, m ∈ c.locks := by
  induction p with
  | nil u => simp [locksOf]
  | @cons u v t e he _ _ ih =>
    intro m hm
    unfold Cfg.locks
    cases hact : e.act with
    | lock k =>
      simp only [hact, locksOf, List.mem_cons] at hm
      rcases hm with rfl | hm
      · exact List.mem_filterMap.2 ⟨e, he, by simp [hact]⟩
      · exact ih m hm
    | tryOk k =>
      simp only [hact, locksOf, List.mem_cons] at hm
      rcases hm with rfl | hm
      · exact List.mem_filterMap.2 ⟨e, he, by simp [hact]⟩
      · exact ih m hm
    | unlock k => simp only [hact, locksOf] at hm; exact ih m hm
    | tryFail k => simp only [hact, locksOf] at hm; exact ih m hm
    | acc x w s => simp only [hact, locksOf] at hm; exact ih m hm
    | callout s re => simp only [hact, locksOf] at hm; exact ih m hm
    | tau => simp only [hact, locksOf] at hm; exact ih m hm

/-- a thread of a role: balanced, and everything it does is in the role's table -/
theorem calls_track {fs : List Cfg} (ok : ∀ c ∈ fs, c.annOK = true) {t : List Action} (ct : Calls fs t) :
    trackList [] t = some [] ∧ (∀ x ∈ scan [] t, x ∈ fs.flatMap Cfg.accs) ∧
      ∀ m ∈ locksOf t, m ∈ fs.flatMap Cfg.locks := by
  induction ct with
  | nil => exact ⟨rfl, by simp [scan], by simp [locksOf]⟩
  | @cons t r c hc fp _ ih =>
    have hok := ok c hc
    have hen : c.annAt c.entry = some [] := by
      unfold Cfg.annOK at hok; simp only [Bool.and_eq_true, beq_iff_eq] at hok; exact hok.1.1
    have hex : c.annAt c.exit = some [] := by
      unfold Cfg.annOK at hok; simp only [Bool.and_eq_true, beq_iff_eq] at hok; exact hok.1.2
    obtain ⟨hv, h1, h2, h3⟩ := path_track hok fp hen
    rw [hex] at h1
    cases h1
    refine ⟨?_, ?_, ?_⟩
    · rw [trackList_append, h2]; exact ih.1
    · intro x hx
      rw [scan_append r h2] at hx
      rcases List.mem_append.1 hx with hx | hx
      · exact List.mem_flatMap.2 ⟨c, hc, h3 x hx⟩
      · exact ih.2.1 x hx
    · intro m hm
      rw [locksOf_append] at hm
      rcases List.mem_append.1 hm with hm | hm
      · exact List.mem_flatMap.2 ⟨c, hc, path_locks fp m hm⟩
      · exact ih.2.2 m hm

/-! ## Bool checks reflect the Prop premises -/

theorem conflict_isAcc {p q : Action × List Mutex} (cf : Conflict p.1 q.1) : isAcc p = true ∧ isAcc q = true := by
  obtain ⟨a, h1⟩ := p
  obtain ⟨b, h2⟩ := q
  unfold Conflict at cf
  cases a <;> cases b <;> simp [conflictB] at cf <;> simp [isAcc]

theorem pairOK_of_pairsOKB {known : Site → Site → Bool} {A B : List (Action × List Mutex)}
    (ok : pairsOKB known A B = true) {p q : Action × List Mutex} (hp : p ∈ A) (hq : q ∈ B) :
    PairOK known p q := by
  intro cf
  obtain ⟨ap, aq⟩ := conflict_isAcc cf
  unfold pairsOKB at ok
  have h1 := List.all_eq_true.1 ok p (List.mem_filter.2 ⟨hp, ap⟩)
  have h2 := List.all_eq_true.1 h1 q (List.mem_filter.2 ⟨hq, aq⟩)
  unfold pairOKB at h2
  unfold Conflict at cf
  simp only [cf, Bool.not_true, Bool.false_or, Bool.or_eq_true] at h2
  rcases h2 with h2 | h2
  · left
    unfold commonB at h2
    obtain ⟨m, hm1, hm2⟩ := List.any_eq_true.1 h2
    exact ⟨m, hm1, List.contains_iff_mem.1 hm2⟩
  · exact Or.inr h2

/-! ## systems of role threads -/

/-- a system: every thread runs one role (index into `roles`) and executes calls of that role's
functions; a role that is not `multi` is run by at most one thread -/
structure WellRoled (roles : List Role) (sys : List (Nat × List Action)) : Prop where
  calls : ∀ (k : Nat) r p, sys[k]? = some (r, p) → ∃ R, roles[r]? = some R ∧ Calls R.fns p
  single : ∀ (k k' : Nat) r p p', k ≠ k' → sys[k]? = some (r, p) → sys[k']? = some (r, p') →
    ∃ R, roles[r]? = some R ∧ R.multi = true

def progsOf (sys : List (Nat × List Action)) : List (List Action) := sys.map (·.2)

theorem progsOf_get {sys : List (Nat × List Action)} {i : Nat} {p : List Action}
    (h : (progsOf sys)[i]? = some p) : ∃ r, sys[i]? = some (r, p) := by
  unfold progsOf at h
  rw [List.getElem?_map] at h
  cases hs : sys[i]? with
  | none => simp [hs] at h
  | some x =>
    obtain ⟨r, q⟩ := x
    simp [hs] at h
    subst h
    exact ⟨r, rfl⟩

theorem role_index_lt {roles : List Role} {r : Nat} {R : Role} (h : roles[r]? = some R) : r < roles.length := by
  rcases List.getElem?_eq_some_iff.1 h with ⟨hh, _⟩; exact hh

theorem wellRoled_thread {roles : List Role} (ok : ∀ R ∈ roles, R.annOK = true)
    {sys : List (Nat × List Action)} (wr : WellRoled roles sys) {i r : Nat} {p : List Action}
    (hs : sys[i]? = some (r, p)) :
    ∃ R, roles[r]? = some R ∧ Balanced p ∧ (∀ x ∈ scan [] p, x ∈ R.accs) ∧ ∀ m ∈ locksOf p, m ∈ R.locks := by
  obtain ⟨R, hR, hc⟩ := wr.calls i r p hs
  have hRm : R ∈ roles := List.mem_of_getElem? hR
  have hok : ∀ c ∈ R.fns, c.annOK = true := by
    have := ok R hRm
    unfold Role.annOK at this
    exact List.all_eq_true.1 this
  obtain ⟨h1, h2, h3⟩ := calls_track hok hc
  exact ⟨R, hR, h1, h2, h3⟩

theorem discipline_of_table {known : Site → Site → Bool} {roles : List Role}
    (ok : ∀ R ∈ roles, R.annOK = true) (tb : tableDRF known roles = true)
    {sys : List (Nat × List Action)} (wr : WellRoled roles sys) : Discipline known (progsOf sys) := by
  intro i j pi pj hij hi hj p hp q hq
  obtain ⟨ri, hsi⟩ := progsOf_get hi
  obtain ⟨rj, hsj⟩ := progsOf_get hj
  obtain ⟨Ri, hRi, _, hai, _⟩ := wellRoled_thread ok wr hsi
  obtain ⟨Rj, hRj, _, haj, _⟩ := wellRoled_thread ok wr hsj
  unfold tableDRF at tb
  have h1 := List.all_eq_true.1 tb ri (List.mem_range.2 (role_index_lt hRi))
  have h2 := List.all_eq_true.1 h1 rj (List.mem_range.2 (role_index_lt hRj))
  simp only [hRi, hRj, Bool.or_eq_true, Bool.and_eq_true, beq_iff_eq] at h2
  rcases h2 with ⟨heq, hm⟩ | h2
  · subst heq
    obtain ⟨R, hR, hmulti⟩ := wr.single i j ri pi pj hij hsi hsj
    rw [hRi] at hR
    cases hR
    simp [hmulti] at hm
  · exact pairOK_of_pairsOKB h2 (hai p hp) (haj q hq)

theorem balanced_of_table {roles : List Role} (ok : ∀ R ∈ roles, R.annOK = true)
    {sys : List (Nat × List Action)} (wr : WellRoled roles sys) :
    ∀ (i : Nat) p, (progsOf sys)[i]? = some p → Balanced p := by
  intro i p hi
  obtain ⟨r, hs⟩ := progsOf_get hi
  obtain ⟨_, _, hb, _, _⟩ := wellRoled_thread ok wr hs
  exact hb

theorem ordered_of_table {rank : Mutex → Nat} {roles : List Role}
    (ok : ∀ R ∈ roles, R.annOK = true) (tb : tableOrdered rank roles = true)
    {sys : List (Nat × List Action)} (wr : WellRoled roles sys) : Ordered rank (progsOf sys) := by
  intro i pi hi m h hmem
  obtain ⟨ri, hsi⟩ := progsOf_get hi
  obtain ⟨Ri, hRi, _, hai, _⟩ := wellRoled_thread ok wr hsi
  unfold tableOrdered at tb
  have h1 := List.all_eq_true.1 tb ri (List.mem_range.2 (role_index_lt hRi))
  simp only [hRi] at h1
  unfold orderedB at h1
  have h2 := List.all_eq_true.1 h1 _ (hai _ hmem)
  simp only [Bool.or_eq_true] at h2
  rcases h2 with hp | hr
  · right
    intro j pj hji hj hml
    obtain ⟨rj, hsj⟩ := progsOf_get hj
    obtain ⟨Rj, hRj, _, _, hlj⟩ := wellRoled_thread ok wr hsj
    unfold privB at hp
    simp only [hRi, Bool.and_eq_true, Bool.not_eq_true'] at hp
    obtain ⟨hnm, hall⟩ := hp
    have h3 := List.all_eq_true.1 hall rj (List.mem_range.2 (role_index_lt hRj))
    simp only [hRj, Bool.or_eq_true, beq_iff_eq, Bool.not_eq_true'] at h3
    rcases h3 with heq | hnc
    · subst heq
      obtain ⟨R, hR, hmulti⟩ := wr.single i j rj pi pj (Ne.symm hji) hsi hsj
      rw [hRi] at hR
      cases hR
      rw [hmulti] at hnm
      cases hnm
    · have := hlj m hml
      rw [← List.contains_iff_mem] at this
      rw [this] at hnc
      cases hnc
  · left
    intro m' hm'
    have := List.all_eq_true.1 hr m' hm'
    simpa using this

theorem tryFree_of_path {c : Cfg} (tf : c.tryFree = true) {u v : Nat} {t : List Action} (p : Path c u t v) :
    TryFree t := by
  induction p with
  | nil u => intro a ha; cases ha
  | @cons u v t e he _ _ ih =>
    intro a ha m
    rcases List.mem_cons.1 ha with rfl | ha
    · unfold Cfg.tryFree at tf
      have := List.all_eq_true.1 tf e he
      cases hact : e.act <;> simp [hact] at this <;> simp
    · exact ih a ha m

theorem tryFree_of_calls {fs : List Cfg} (tf : ∀ c ∈ fs, c.tryFree = true) {t : List Action} (ct : Calls fs t) :
    TryFree t := by
  induction ct with
  | nil => intro a ha; cases ha
  | @cons t r c hc fp _ ih =>
    intro a ha m
    rcases List.mem_append.1 ha with ha | ha
    · exact tryFree_of_path (tf c hc) fp a ha m
    · exact ih a ha m

theorem tryFree_of_table {roles : List Role} (tf : ∀ R ∈ roles, R.tryFree = true)
    {sys : List (Nat × List Action)} (wr : WellRoled roles sys) :
    ∀ (i : Nat) p, (progsOf sys)[i]? = some p → TryFree p := by
  intro i p hi
  obtain ⟨r, hs⟩ := progsOf_get hi
  obtain ⟨R, hR, hc⟩ := wr.calls i r p hs
  have := tf R (List.mem_of_getElem? hR)
  unfold Role.tryFree at this
  exact tryFree_of_calls (List.all_eq_true.1 this) hc

theorem protected_of_table {m : Mutex} {X : Var → Bool} {K : Site → Bool} {roles : List Role}
    (ok : ∀ R ∈ roles, R.annOK = true) (tb : ∀ R ∈ roles, protectedB m X K R.accs = true)
    {sys : List (Nat × List Action)} (wr : WellRoled roles sys)
    {i : Nat} {p : List Action} (hi : (progsOf sys)[i]? = some p)
    {x : Var} {w : Bool} {site : Site} {h : List Mutex} (hx : X x = true)
    (hmem : (Action.acc x w site, h) ∈ scan [] p) : m ∈ h ∨ K site = true := by
  obtain ⟨r, hs⟩ := progsOf_get hi
  obtain ⟨R, hR, _, ha, _⟩ := wellRoled_thread ok wr hs
  have h1 := tb R (List.mem_of_getElem? hR)
  unfold protectedB at h1
  have h2 := List.all_eq_true.1 h1 _ (ha _ hmem)
  simp only [hx, Bool.not_true, Bool.false_or, Bool.or_eq_true] at h2
  rcases h2 with h2 | h2
  · exact Or.inl (List.contains_iff_mem.1 h2)
  · exact Or.inr h2

/-! ## monotonicity in the exception lists, callouts -/

theorem pairsOKB_mono {k1 k2 : Site → Site → Bool} (h : ∀ a b, k1 a b = true → k2 a b = true)
    {A B : List (Action × List Mutex)} (ok : pairsOKB k1 A B = true) : pairsOKB k2 A B = true := by
  unfold pairsOKB at ok ⊢
  refine List.all_eq_true.2 fun p hp => List.all_eq_true.2 fun q hq => ?_
  have h2 := List.all_eq_true.1 (List.all_eq_true.1 ok p hp) q hq
  unfold pairOKB at h2 ⊢
  simp only [Bool.or_eq_true] at h2 ⊢
  rcases h2 with h2 | h2
  · exact Or.inl h2
  · exact Or.inr (h _ _ h2)

/-- a table that needs no exception satisfies the discipline modulo any exception list -/
theorem tableDRF_mono {k1 k2 : Site → Site → Bool} (h : ∀ a b, k1 a b = true → k2 a b = true)
    {roles : List Role} (ok : tableDRF k1 roles = true) : tableDRF k2 roles = true := by
  unfold tableDRF at ok ⊢
  refine List.all_eq_true.2 fun a ha => List.all_eq_true.2 fun b hb => ?_
  have h2 := List.all_eq_true.1 (List.all_eq_true.1 ok a ha) b hb
  cases hA : roles[a]? with
  | none => simp
  | some A =>
    cases hB : roles[b]? with
    | none => simp
    | some B =>
      simp only [hA, hB, Bool.or_eq_true] at h2 ⊢
      rcases h2 with h2 | h2
      · exact Or.inl h2
      · exact Or.inr (pairsOKB_mono h h2)

theorem protectedB_mono {m : Mutex} {X : Var → Bool} {K1 K2 : Site → Bool} (h : ∀ s, K1 s = true → K2 s = true)
    {A : List (Action × List Mutex)} (ok : protectedB m X K1 A = true) : protectedB m X K2 A = true := by
  unfold protectedB at ok ⊢
  refine List.all_eq_true.2 fun p hp => ?_
  have h2 := List.all_eq_true.1 ok p hp
  cases hact : p.1 with
  | acc x w s =>
    simp only [hact, Bool.or_eq_true] at h2 ⊢
    rcases h2 with h2 | h2
    · exact Or.inl h2
    · exact Or.inr (h _ h2)
  | _ => simp

/-- if the table lists no callout under a handler-needed mutex, a callout of the table is
delivered holding none of them -/
theorem callout_ok_of_badCallouts_nil {hl : List Mutex} {A : List (Action × List Mutex)}
    (h0 : badCallouts hl A = []) {s : Site} {re : Bool} {h : List Mutex}
    (hm : (Action.callout s re, h) ∈ A) : ∀ m ∈ h, m ∉ hl := by
  intro m hmh hml
  unfold badCallouts at h0
  have := List.filterMap_eq_nil_iff.1 h0 _ hm
  simp at this
  exact this m hmh hml

/-- in a system of role threads, a thread about to deliver a callback holds no mutex of `hl`,
provided the table lists no callout under such a mutex -/
theorem callout_unlocked_of_table {hl : List Mutex} {roles : List Role}
    (ok : ∀ R ∈ roles, R.annOK = true) (tb : ∀ R ∈ roles, badCallouts hl R.accs = [])
    {sys : List (Nat × List Action)} (wr : WellRoled roles sys) {s : State}
    (rs : Reachable (progsOf sys) s) {i : Nat} {h : List Mutex} {site : Site} {re : Bool} {r : List Action}
    (hi : s[i]? = some ⟨h, .callout site re :: r⟩) : ∀ m ∈ h, m ∉ hl := by
  obtain ⟨p, hp, hs⟩ := next_in_scan (inv_reachable rs) hi
  obtain ⟨ri, hsi⟩ := progsOf_get hp
  obtain ⟨R, hR, _, ha, _⟩ := wellRoled_thread ok wr hsi
  exact callout_ok_of_badCallouts_nil (tb R (List.mem_of_getElem? hR)) (ha _ hs)

end Zvbi.Locks
