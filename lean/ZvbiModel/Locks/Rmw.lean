/-!
# Locks - atomicity of read-modify-write sequences (no lost update)

Lock discipline (`Spec.lean`, `Lemmas.lean`) and section atomicity (`Atomic.lean`) say that a critical
section runs as if alone.  They do not say that a value a thread READ in one section is still current
when it WRITES the variable in a later section: `v := get (); set (v - 1)` with `get`/`set` locking
for one load / one store is race free and loses a concurrent update.

This file has the value-level model for that obligation.  A critical section is a list of
micro-operations on the shared store and the thread's registers (= local variables, they survive
the section):

* `ld r x`        register `r` := shared variable `x`
* `st x deps f`   `x := f (values of the registers deps)`; `f = none` means the guard of the store is
                  false (control dependence), the store is skipped.  `deps` is the SYNTACTIC dependence
                  of the store (value and guard) on registers.

Sections are the atomic steps of the interleaving semantics (`step`); that this is what a mutex gives
is `Zvbi.Locks.Atomic.atomic_sections`.  `Sec.confined`: every store of the section depends only on
registers the SAME section loaded before it.  The transactional semantics (`sstep`) runs every section
from blank registers: a section is an isolated transaction `Store → Store`, nothing read in an
earlier section can be written back.
-/
namespace Zvbi.Locks.Rmw

abbrev Var := Nat
abbrev Reg := Nat
abbrev Store := Var → Int
abbrev Regs := Reg → Int

inductive Op where
  | ld (r : Reg) (x : Var)
  | st (x : Var) (deps : List Reg) (f : List Int → Option Int)

def upd (σ : Nat → Int) (k : Nat) (v : Int) : Nat → Int := fun j => if j = k then v else σ j

def Op.run : Op → Store × Regs → Store × Regs
  | .ld r x, c => (c.1, upd c.2 r (c.1 x))
  | .st x deps f, c =>
    match f (deps.map c.2) with
    | some v => (upd c.1 x v, c.2)
    | none => c

abbrev Sec := List Op

def Sec.run : Sec → Store × Regs → Store × Regs
  | [], c => c
  | o :: t, c => Sec.run t (o.run c)

/-- every store depends only on registers loaded earlier in the same section (`loaded`) -/
def confinedFrom (loaded : List Reg) : Sec → Bool
  | [] => true
  | .ld r _ :: t => confinedFrom (r :: loaded) t
  | .st _ deps _ :: t => deps.all (fun r => loaded.contains r) && confinedFrom loaded t

def Sec.confined (s : Sec) : Bool := confinedFrom [] s

/-- registers the section loads -/
def loadsOf : Sec → List Reg
  | [] => []
  | .ld r _ :: t => r :: loadsOf t
  | .st _ _ _ :: t => loadsOf t

def blank : Regs := fun _ => 0

/-- the section as an isolated transaction on the shared store -/
def secFun (s : Sec) (σ : Store) : Store := (Sec.run s (σ, blank)).1

/-! ## interleaving semantics: any thread runs its next section -/
structure Cfg where
  σ : Store
  regs : Nat → Regs
  todo : Nat → List Sec

def step (c : Cfg) (i : Nat) : Cfg :=
  match c.todo i with
  | [] => c
  | s :: rest =>
    let r := Sec.run s (c.σ, c.regs i)
    ⟨r.1, fun j => if j = i then r.2 else c.regs j, fun j => if j = i then rest else c.todo j⟩

def run (c : Cfg) (sch : List Nat) : Cfg := sch.foldl step c

/-! ## transactional semantics: the same schedule, every section an isolated transaction -/
structure SCfg where
  σ : Store
  todo : Nat → List Sec

def sstep (c : SCfg) (i : Nat) : SCfg :=
  match c.todo i with
  | [] => c
  | s :: rest => ⟨secFun s c.σ, fun j => if j = i then rest else c.todo j⟩

def srun (c : SCfg) (sch : List Nat) : SCfg := sch.foldl sstep c

/-! ## the key lemma: a confined section does not see the registers it did not load itself -/

theorem map_congr_of_agree {ρ ρ' : Regs} {loaded deps : List Reg}
    (hag : ∀ r, loaded.contains r = true → ρ r = ρ' r)
    (hd : deps.all (fun r => loaded.contains r) = true) : deps.map ρ = deps.map ρ' := by
  induction deps with
  | nil => rfl
  | cons d t ih =>
    simp only [List.all_cons, Bool.and_eq_true] at hd
    simp only [List.map_cons]
    rw [hag d hd.1, ih hd.2]

theorem run_agree (s : Sec) : ∀ (loaded : List Reg) (σ : Store) (ρ ρ' : Regs),
    confinedFrom loaded s = true → (∀ r, loaded.contains r = true → ρ r = ρ' r) →
    (Sec.run s (σ, ρ)).1 = (Sec.run s (σ, ρ')).1 ∧
    (∀ r, (loaded.contains r = true ∨ (loadsOf s).contains r = true) →
      (Sec.run s (σ, ρ)).2 r = (Sec.run s (σ, ρ')).2 r) := by
  induction s with
  | nil =>
    intro loaded σ ρ ρ' _ hag
    refine ⟨rfl, ?_⟩
    intro r hr
    rcases hr with hr | hr
    · exact hag r hr
    · simp [loadsOf] at hr
  | cons o t ih =>
    intro loaded σ ρ ρ' hc hag
    cases o with
    | ld r x =>
      simp only [confinedFrom] at hc
      have hag' : ∀ q, (r :: loaded).contains q = true → upd ρ r (σ x) q = upd ρ' r (σ x) q := by
        intro q hq
        unfold upd
        by_cases hqr : q = r
        · simp [hqr]
        · simp only [hqr, if_false]
          apply hag
          simp only [List.contains_cons, Bool.or_eq_true, beq_iff_eq] at hq
          rcases hq with hq | hq
          · exact absurd hq hqr
          · exact hq
      have := ih (r :: loaded) σ (upd ρ r (σ x)) (upd ρ' r (σ x)) hc hag'
      refine ⟨this.1, ?_⟩
      intro q hq
      apply this.2
      rcases hq with hq | hq
      · left
        simp only [List.contains_cons, Bool.or_eq_true, beq_iff_eq]
        right; exact hq
      · simp only [loadsOf, List.contains_cons, Bool.or_eq_true, beq_iff_eq] at hq
        rcases hq with hq | hq
        · left
          simp only [List.contains_cons, Bool.or_eq_true, beq_iff_eq]
          left; exact hq
        · right; exact hq
    | st x deps f =>
      simp only [confinedFrom, Bool.and_eq_true] at hc
      have hm : deps.map ρ = deps.map ρ' := map_congr_of_agree hag hc.1
      have e1 : Sec.run (Op.st x deps f :: t) (σ, ρ) =
          Sec.run t (match f (deps.map ρ') with | some v => (upd σ x v, ρ) | none => (σ, ρ)) := by
        simp only [Sec.run, Op.run, hm]
      have e2 : Sec.run (Op.st x deps f :: t) (σ, ρ') =
          Sec.run t (match f (deps.map ρ') with | some v => (upd σ x v, ρ') | none => (σ, ρ')) := by
        simp only [Sec.run, Op.run]
      rw [e1, e2]
      cases f (deps.map ρ') with
      | none => exact ih loaded σ ρ ρ' hc.2 hag
      | some v => exact ih loaded (upd σ x v) ρ ρ' hc.2 hag

/-- the store a confined section leaves does not depend on the registers it starts with -/
theorem confined_store (s : Sec) (h : s.confined = true) (σ : Store) (ρ : Regs) :
    (Sec.run s (σ, ρ)).1 = secFun s σ :=
  (run_agree s [] σ ρ blank h (by intro r hr; simp at hr)).1

/-- nor do the values it loads -/
theorem confined_loads (s : Sec) (h : s.confined = true) (σ : Store) (ρ : Regs) (r : Reg)
    (hr : (loadsOf s).contains r = true) :
    (Sec.run s (σ, ρ)).2 r = (Sec.run s (σ, blank)).2 r :=
  (run_agree s [] σ ρ blank h (by intro r hr; simp at hr)).2 r (Or.inr hr)

theorem step_sstep (c : Cfg) (i : Nat) (h : ∀ j, ∀ s ∈ c.todo j, Sec.confined s = true) :
    (step c i).σ = (sstep ⟨c.σ, c.todo⟩ i).σ ∧ (step c i).todo = (sstep ⟨c.σ, c.todo⟩ i).todo ∧
    (∀ j, ∀ s ∈ (step c i).todo j, Sec.confined s = true) := by
  cases hti : c.todo i with
  | nil => simp only [step, sstep, hti]; exact ⟨trivial, trivial, h⟩
  | cons s rest =>
    simp only [step, sstep, hti]
    refine ⟨confined_store s (h i s (by rw [hti]; exact List.mem_cons_self)) c.σ (c.regs i), trivial, ?_⟩
    intro j s' hs'
    by_cases hj : j = i
    · simp only [hj, if_true] at hs'
      exact h i s' (by rw [hti]; exact List.mem_cons_of_mem _ hs')
    · simp only [hj, if_false] at hs'
      exact h j s' hs'

theorem run_srun (sch : List Nat) : ∀ (c : Cfg), (∀ j, ∀ s ∈ c.todo j, Sec.confined s = true) →
    (run c sch).σ = (srun ⟨c.σ, c.todo⟩ sch).σ ∧ (run c sch).todo = (srun ⟨c.σ, c.todo⟩ sch).todo := by
  induction sch with
  | nil => intro c _; exact ⟨rfl, rfl⟩
  | cons i t ih =>
    intro c h
    have hs := step_sstep c i h
    have := ih (step c i) hs.2.2
    unfold run srun at *
    simp only [List.foldl_cons]
    have e : sstep ⟨c.σ, c.todo⟩ i = ⟨(step c i).σ, (step c i).todo⟩ := by
      rw [hs.1, hs.2.1]
    rw [e]
    exact this

end Zvbi.Locks.Rmw
