import ZvbiModel.Locks.Model
import ZvbiModel.Generated.Locks
/-!
# Locks - the instance: zvbi's documented roles (table generated from the current source)

Hand-written part of the instance: the lock order and which fields each mutex protects.

No exception list is needed any more: the two defects the first delivery had to excuse are repaired
in the source (commits c1561e0, f194102), and `Props/C20.lean` proves the discipline with
`noKnown` / `noSite`.  The predicates that described them are kept because the `_modulo_known`
corollaries and the driver's report mention them; on the current table the sites they describe are
bracketed like all others:

* K1  `vbi_decode` reset the caption decoder (`vbi_chsw_reset` -> `vbi_caption_channel_switched`)
      without taking `cc.mutex`, racing with `vbi_fetch_cc_page` in another thread;
* K2  event callbacks were delivered while `cc.mutex` was held on two paths
      (ITV trigger from caption text: `itv_separator` -> `vbi_atvef_trigger` -> `vbi_send_event`;
      XDS network change: `xds_decoder` -> `vbi_chsw_reset` -> `vbi_send_event`), so a handler
      calling `vbi_fetch_cc_page` there dead-locked on its own thread.

The predicates name functions, not node numbers, so they survive regeneration.
-/
namespace Zvbi.Locks.Instance
open Zvbi.Locks Zvbi.Generated.Locks

def chainOf (s : Site) : List Nat := siteChain.getD s []

/-- the site is inside the caption reset reached from `vbi_decode` outside `vbi_decode_caption` -/
def unlockedCaptionReset (s : Site) : Bool :=
  (chainOf s).contains fn_vbi_caption_channel_switched && !(chainOf s).contains fn_vbi_decode_caption

/-- the site is inside `vbi_fetch_cc_page` -/
def inFetch (s : Site) : Bool := (chainOf s).contains fn_vbi_fetch_cc_page

/-- K1 -/
def knownRace (a b : Site) : Bool :=
  (unlockedCaptionReset a && inFetch b) || (inFetch a && unlockedCaptionReset b)

/-- nothing is excused -/
def noKnown (_ _ : Site) : Bool := false

/-- K2: callouts from inside `vbi_decode_caption` that do not go through `caption_send_event` -/
def knownCallout (s : Site) : Bool :=
  (chainOf s).contains fn_vbi_decode_caption &&
    ((chainOf s).contains fn_vbi_atvef_trigger || (chainOf s).contains fn_vbi_chsw_reset)

/-- lock order: event < cc, rd, prog_info < chswcd -/
def rank (m : Mutex) : Nat :=
  if m = mx_event then 0 else if m = mx_chswcd then 2 else 1

def rankBound : Nat := 3

def isCcChannel (x : Var) : Bool := x == var_cc_channel
def isRd3 (x : Var) : Bool := x == var_rd3
def isChswcd (x : Var) : Bool := x == var_vbi_chswcd
def noSite (_ : Site) : Bool := false

/-- all role graphs carry an inductive annotation -/
def rolesAnnOK : Bool := roles.all Role.annOK

def allBadCallouts : List (Site × List Mutex) := roles.flatMap fun R => badCallouts handlerLocks R.accs
def allUnexpanded : List (Site × List Mutex) := roles.flatMap fun R => unexpandedCallouts R.accs

/-- the conflicting pairs of different roles without a common mutex (for the report) -/
def allBadPairs : List ((Action × List Mutex) × (Action × List Mutex)) :=
  (List.range roles.length).flatMap fun a => (List.range roles.length).flatMap fun b =>
    match roles[a]?, roles[b]? with
    | some A, some B => if a == b && !A.multi then [] else badPairs A.accs B.accs
    | _, _ => []

/-- the same table with the exclusive functions (resize, parameters, reset) wrongly treated as a
concurrent role: used to show that the check is not vacuous -/
def rolesWithExclusive : List Role := roles ++ [⟨"exclusive", true, exclusiveFns⟩]

end Zvbi.Locks.Instance
