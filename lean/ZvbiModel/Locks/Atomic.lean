import ZvbiModel.Locks.Lemmas
/-!
# Locks - critical sections are atomic: every interleaving is a serial execution of whole sections

`Spec.lean` gives thread programs an interleaving semantics without data.  Here the actions get a
data semantics (`DataSem`: what thread `i` executing action `a` does to the *protected* shared state
and to its own local state), and the classical consequence of mutual exclusion is proved for all
programs and all schedules:

if (1) every access to the protected fields `X` happens under the mutex `m`, (2) only those accesses
see or change the protected state (`Frame`), (3) inside a section of `m` no other mutex operation
occurs, (4) nobody uses `trylock` on `m`, then every state of every interleaving in which `m` is free
is reached as well by the **section-serial** semantics `AReach`, in which a thread executes
`lock m; body; unlock m` as one uninterrupted run and the other steps happen between the sections.

So what a section computes (the page `vbi_fetch_cc_page` copies, the lines `vbi_raw_decode`
decodes) is a function of the shared state at the moment the lock was granted, and that state is
a state of the sequential execution of whole sections - the other threads are at points where they
do not hold `m` (their "unlock points").
-/
namespace Zvbi.Locks

universe u v
variable {Sh : Type u} {Lo : Type v}

/-- data semantics of the actions: thread `i` executes `a` on the protected shared state and its
own local state -/
structure DataSem (Sh : Type u) (Lo : Type v) where
  eff : Nat → Action → Sh → Lo → Sh × Lo

/-- an access to one of the protected fields -/
def isXacc (X : Var → Bool) : Action → Bool
  | .acc x _ _ => X x
  | _ => false

def isMutexOp : Action → Bool
  | .lock _ => true
  | .unlock _ => true
  | .tryOk _ => true
  | .tryFail _ => true
  | _ => false

/-- only accesses to the protected fields see or change the protected state -/
def Frame (X : Var → Bool) (D : DataSem Sh Lo) : Prop :=
  ∀ (i : Nat) (a : Action), isXacc X a = false → ∃ f : Lo → Lo, ∀ σ l, D.eff i a σ l = (σ, f l)

/-- threads, the protected shared state, one local state per thread -/
structure DState (Sh : Type u) (Lo : Type v) where
  thr : State
  sh : Sh
  loc : List Lo

/-- one step of thread `lab.1`: a `Step` of the lock semantics plus the data effect -/
def DStep (D : DataSem Sh Lo) (S : DState Sh Lo) (lab : Nat × Action) (S' : DState Sh Lo) : Prop :=
  Step S.thr lab S'.thr ∧ ∃ l, S.loc[lab.1]? = some l ∧
    S'.sh = (D.eff lab.1 lab.2 S.sh l).1 ∧ S'.loc = S.loc.set lab.1 (D.eff lab.1 lab.2 S.sh l).2

def dinit (progs : List (List Action)) (σ0 : Sh) (ls0 : List Lo) : DState Sh Lo := ⟨init progs, σ0, ls0⟩

/-- reachable under arbitrary interleaving -/
inductive DReach (D : DataSem Sh Lo) (progs : List (List Action)) (σ0 : Sh) (ls0 : List Lo) : DState Sh Lo → Prop
  | init : DReach D progs σ0 ls0 (dinit progs σ0 ls0)
  | step {S S' : DState Sh Lo} {lab : Nat × Action} :
      DReach D progs σ0 ls0 S → DStep D S lab S' → DReach D progs σ0 ls0 S'

/-- thread `j` alone executes the actions `as` one after the other -/
inductive Run (D : DataSem Sh Lo) (j : Nat) : DState Sh Lo → List Action → DState Sh Lo → Prop
  | nil (S : DState Sh Lo) : Run D j S [] S
  | cons {S S1 S2 : DState Sh Lo} {a : Action} {as : List Action} :
      DStep D S (j, a) S1 → Run D j S1 as S2 → Run D j S (a :: as) S2

/-- the section-serial semantics for the mutex `m`: single steps while `m` is free before and after,
and whole sections `lock m; body; unlock m` of one thread executed without interruption -/
inductive AReach (D : DataSem Sh Lo) (m : Mutex) (progs : List (List Action)) (σ0 : Sh) (ls0 : List Lo) :
    DState Sh Lo → Prop
  | init : AReach D m progs σ0 ls0 (dinit progs σ0 ls0)
  | step {S S' : DState Sh Lo} {lab : Nat × Action} :
      AReach D m progs σ0 ls0 S → Free S.thr m → DStep D S lab S' → Free S'.thr m → AReach D m progs σ0 ls0 S'
  | sect {S S' : DState Sh Lo} {j : Nat} {acq : Action} {body : List Action} :
      AReach D m progs σ0 ls0 S → (acq = .lock m ∨ acq = .tryOk m) → (∀ b ∈ body, isMutexOp b = false) →
      Run D j S (acq :: body ++ [.unlock m]) S' → AReach D m progs σ0 ls0 S'

/-- what a thread computes when it runs `as` alone from shared state `σ` and local state `l` -/
def foldEff (D : DataSem Sh Lo) (j : Nat) : List Action → Sh × Lo → Sh × Lo
  | [], x => x
  | a :: as, x => foldEff D j as (D.eff j a x.1 x.2)

/-! ## basic facts -/

theorem Step.inv {s s' : State} {i : Nat} {a : Action} (st : Step s (i, a) s') :
    ∃ h r h', s[i]? = some ⟨h, a :: r⟩ ∧ Enabled s a ∧ track h a = some h' ∧ s' = s.set i ⟨h', r⟩ := by
  cases st with
  | @mk _ h _ r h' hi en tr => exact ⟨h, r, h', hi, en, tr, rfl⟩

theorem free_iff {s : State} {m : Mutex} : Free s m ↔ ∀ (k : Nat) tk, s[k]? = some tk → m ∉ tk.held := by
  constructor
  · intro h k tk hk
    exact h tk (List.mem_of_getElem? hk)
  · intro h t ht
    obtain ⟨k, hk⟩ := List.mem_iff_getElem?.1 ht
    exact h k t hk

theorem getElem?_set_other {α : Type _} {l : List α} {i k : Nat} {a : α} (h : i ≠ k) : (l.set i a)[k]? = l[k]? := by
  rw [List.getElem?_set]; simp [h]

theorem getElem?_set_same {α : Type _} {l : List α} {i : Nat} {a b : α} (h : l[i]? = some b) : (l.set i a)[i]? = some a := by
  have hlt : i < l.length := (List.getElem?_eq_some_iff.1 h).1
  rw [List.getElem?_set]; simp [hlt]

theorem DReach.reachable {D : DataSem Sh Lo} {progs : List (List Action)} {σ0 : Sh} {ls0 : List Lo} {S : DState Sh Lo}
    (r : DReach D progs σ0 ls0 S) : Reachable progs S.thr := by
  induction r with
  | init => exact ⟨[], .nil _⟩
  | step _ st ih => exact reachable_step ih st.1

theorem Run.snoc {D : DataSem Sh Lo} {j : Nat} {S S1 S2 : DState Sh Lo} {as : List Action} {a : Action}
    (r : Run D j S as S1) (st : DStep D S1 (j, a) S2) : Run D j S (as ++ [a]) S2 := by
  induction r with
  | nil S => exact .cons st (.nil _)
  | cons st' _ ih => exact .cons st' (ih st)

/-- the serial semantics is a special case of the interleaving semantics -/
theorem Run.dreach {D : DataSem Sh Lo} {progs : List (List Action)} {σ0 : Sh} {ls0 : List Lo} {j : Nat}
    {S S' : DState Sh Lo} {as : List Action} (r : Run D j S as S') (h : DReach D progs σ0 ls0 S) :
    DReach D progs σ0 ls0 S' := by
  induction r with
  | nil S => exact h
  | cons st _ ih => exact ih (.step h st)

theorem AReach.dreach {D : DataSem Sh Lo} {m : Mutex} {progs : List (List Action)} {σ0 : Sh} {ls0 : List Lo}
    {S : DState Sh Lo} (r : AReach D m progs σ0 ls0 S) : DReach D progs σ0 ls0 S := by
  induction r with
  | init => exact .init
  | step _ _ st _ ih => exact .step ih st
  | sect _ _ _ run ih => exact run.dreach ih

/-- a run of thread `j` alone computes `foldEff` -/
theorem Run.result {D : DataSem Sh Lo} {j : Nat} {S S' : DState Sh Lo} {as : List Action} (r : Run D j S as S')
    {l : Lo} (hl : S.loc[j]? = some l) :
    S'.sh = (foldEff D j as (S.sh, l)).1 ∧ S'.loc[j]? = some (foldEff D j as (S.sh, l)).2 := by
  induction r generalizing l with
  | nil S => exact ⟨rfl, hl⟩
  | @cons S S1 S2 a as st _ ih =>
    obtain ⟨_, l', hl', hsh, hloc⟩ := st
    simp only at hl'
    rw [hl] at hl'
    cases hl'
    have h1 : S1.loc[j]? = some (D.eff j a S.sh l).2 := by
      rw [hloc]; exact getElem?_set_same hl
    have := ih h1
    rw [hsh] at this
    simpa [foldEff] using this

theorem track_of_not_mutexOp {h h' : List Mutex} {a : Action} (hn : isMutexOp a = false) (tr : track h a = some h') :
    h' = h := by
  cases a <;> simp [isMutexOp] at hn <;> simp [track] at tr <;> exact tr.symm

theorem enabled_of_not_mutexOp {s : State} {a : Action} (hn : isMutexOp a = false) : Enabled s a := by
  cases a <;> simp [isMutexOp] at hn <;> trivial

theorem track_nodup {h h' : List Mutex} {a : Action} (nd : h.Nodup) (tr : track h a = some h') : h'.Nodup := by
  cases a with
  | lock k =>
    simp only [track] at tr
    split at tr
    · cases tr
    · cases tr; exact List.nodup_cons.2 ⟨by assumption, nd⟩
  | tryOk k =>
    simp only [track] at tr
    split at tr
    · cases tr
    · cases tr; exact List.nodup_cons.2 ⟨by assumption, nd⟩
  | unlock k =>
    simp only [track] at tr
    split at tr
    · cases tr; exact nd.erase _
    · cases tr
  | tryFail k => simp only [track] at tr; cases tr; exact nd
  | acc x w s => simp only [track] at tr; cases tr; exact nd
  | callout s re => simp only [track] at tr; cases tr; exact nd
  | tau => simp only [track] at tr; cases tr; exact nd

theorem trackList_nodup {h0 h : List Mutex} {p : List Action} (nd : h0.Nodup) (tr : trackList h0 p = some h) :
    h.Nodup := by
  induction p generalizing h0 with
  | nil => simp [trackList] at tr; subst tr; exact nd
  | cons a r ih =>
    simp only [trackList] at tr
    cases ha : track h0 a with
    | none => simp [ha] at tr
    | some h1 =>
      simp only [ha] at tr
      exact ih (track_nodup nd ha) tr

theorem held_nodup {progs : List (List Action)} {s : State} (iv : Inv progs s) {i : Nat} {t : Thread}
    (hi : s[i]? = some t) : t.held.Nodup := by
  obtain ⟨pre, _, ht⟩ := iv.pre i t hi
  exact trackList_nodup List.nodup_nil ht

/-! ## moving a step of another thread across a run -/

/-- replace thread `i` and its local state -/
def DState.upd (S : DState Sh Lo) (i : Nat) (t : Thread) (l : Lo) : DState Sh Lo :=
  ⟨S.thr.set i t, S.sh, S.loc.set i l⟩

theorem DStep.upd_other {D : DataSem Sh Lo} {S S1 : DState Sh Lo} {i j : Nat} {b : Action} {t : Thread} {l : Lo}
    (st : DStep D S (j, b) S1) (hij : i ≠ j) (en : Enabled (S.thr.set i t) b) :
    DStep D (S.upd i t l) (j, b) (S1.upd i t l) := by
  obtain ⟨stp, lj, hlj, hsh, hloc⟩ := st
  obtain ⟨h, r, h', hj, _, tr, hs'⟩ := stp.inv
  refine ⟨?_, lj, ?_, ?_, ?_⟩
  · have hj' : (S.thr.set i t)[j]? = some ⟨h, b :: r⟩ := by rw [getElem?_set_other hij]; exact hj
    have := Step.mk hj' en tr
    simp only [DState.upd]
    rw [hs', List.set_comm _ _ (Ne.symm hij)]
    exact this
  · simp only [DState.upd]; rw [getElem?_set_other hij]; exact hlj
  · simpa [DState.upd] using hsh
  · simp only [DState.upd]
    rw [hloc, List.set_comm _ _ (Ne.symm hij)]

theorem Run.upd_other {D : DataSem Sh Lo} {S S1 : DState Sh Lo} {i j : Nat} {as : List Action} {t : Thread} {l : Lo}
    (r : Run D j S as S1) (hij : i ≠ j) (hn : ∀ b ∈ as, isMutexOp b = false) :
    Run D j (S.upd i t l) as (S1.upd i t l) := by
  induction r with
  | nil S => exact .nil _
  | @cons S S1 S2 a as st _ ih =>
    refine .cons (st.upd_other hij (enabled_of_not_mutexOp (hn a (by simp)))) (ih ?_)
    intro b hb
    exact hn b (by simp [hb])

/-! ## the invariant -/

/-- a section of thread `j` is open in `S`: rolling `j` back to its lock point gives a state `S0` of
the serial semantics with `m` free, from which `j` alone reaches `S` -/
structure OpenSection (D : DataSem Sh Lo) (m : Mutex) (progs : List (List Action)) (σ0 : Sh) (ls0 : List Lo)
    (S : DState Sh Lo) (j : Nat) (tj : Thread) : Prop where
  ex : ∃ (S0 : DState Sh Lo) (acq : Action) (body : List Action) (t0 : Thread),
    AReach D m progs σ0 ls0 S0 ∧ Free S0.thr m ∧ (acq = .lock m ∨ acq = .tryOk m) ∧
    (∀ b ∈ body, isMutexOp b = false) ∧ Run D j S0 (acq :: body) S ∧
    (∀ k, k ≠ j → S0.thr[k]? = S.thr[k]? ∧ S0.loc[k]? = S.loc[k]?) ∧
    S0.thr[j]? = some t0 ∧ tj.held = m :: t0.held

/-- hypotheses on the programs -/
structure SectionDiscipline (X : Var → Bool) (m : Mutex) (progs : List (List Action)) : Prop where
  prot : ∀ (i : Nat) p x w site h, progs[i]? = some p → X x = true →
    (Action.acc x w site, h) ∈ scan [] p → m ∈ h
  nonest : ∀ (i : Nat) p a h, progs[i]? = some p → (a, h) ∈ scan [] p → m ∈ h → isMutexOp a = true → a = .unlock m
  notry : ∀ (i : Nat) p, progs[i]? = some p → Action.tryFail m ∉ p

theorem DState.ext' {A B : DState Sh Lo} (h1 : A.thr = B.thr) (h2 : A.sh = B.sh) (h3 : A.loc = B.loc) : A = B := by
  cases A; cases B; simp at h1 h2 h3; simp [h1, h2, h3]

theorem section_invariant {D : DataSem Sh Lo} {X : Var → Bool} {m : Mutex} {progs : List (List Action)}
    {σ0 : Sh} {ls0 : List Lo} (frame : Frame X D) (sd : SectionDiscipline X m progs)
    {S : DState Sh Lo} (r : DReach D progs σ0 ls0 S) :
    (Free S.thr m → AReach D m progs σ0 ls0 S) ∧
    (∀ (j : Nat) tj, S.thr[j]? = some tj → m ∈ tj.held → OpenSection D m progs σ0 ls0 S j tj) := by
  induction r with
  | init =>
    refine ⟨fun _ => .init, ?_⟩
    intro j tj hj hm
    simp only [dinit, init, List.getElem?_map] at hj
    cases hp : progs[j]? with
    | none => simp [hp] at hj
    | some p => simp [hp] at hj; subst hj; simp at hm
  | @step S S' lab rS st ih =>
    obtain ⟨i, a⟩ := lab
    have ivS := inv_reachable rS.reachable
    have ivS' := inv_reachable (DReach.step rS st).reachable
    obtain ⟨stp, l, hl, hsh, hloc⟩ := st
    simp only at hl hsh hloc
    obtain ⟨h, rr, h', hi, en, tr, hthr⟩ := stp.inv
    -- threads other than i are unchanged
    have hother : ∀ k, k ≠ i → S'.thr[k]? = S.thr[k]? := by
      intro k hk; rw [hthr]; exact getElem?_set_other (Ne.symm hk)
    have hself : S'.thr[i]? = some ⟨h', rr⟩ := by rw [hthr]; exact getElem?_set_same hi
    by_cases hfree : Free S.thr m
    · -- nobody is inside a section
      have aS := ih.1 hfree
      have hmh : m ∉ h := free_iff.1 hfree i _ hi
      by_cases hacq : a = .lock m ∨ a = .tryOk m
      · -- thread i opens a section
        have hh' : h' = m :: h := by
          rcases hacq with rfl | rfl <;> simp [track, hmh] at tr <;> exact tr.symm
        refine ⟨?_, ?_⟩
        · intro hf
          exact absurd (by rw [hh']; simp) (free_iff.1 hf i _ hself)
        · intro j tj hj hm
          have hji : j = i := by
            apply Classical.byContradiction
            intro hne
            rw [hother j hne] at hj
            exact free_iff.1 hfree j tj hj hm
          subst hji
          rw [hself] at hj
          cases hj
          refine ⟨S, a, [], ⟨h, a :: rr⟩, aS, hfree, hacq, by simp, ?_, ?_, hi, hh'⟩
          · exact .cons ⟨stp, l, hl, hsh, hloc⟩ (.nil _)
          · intro k hk
            refine ⟨(hother k hk).symm, ?_⟩
            rw [hloc]; exact (getElem?_set_other (Ne.symm hk)).symm
      · -- an ordinary step outside the sections
        have hmh' : m ∉ h' := by
          intro hm
          rcases track_mem tr hm with h1 | h1 | h1
          · exact hmh h1
          · exact hacq (Or.inl h1)
          · exact hacq (Or.inr h1)
        have hfree' : Free S'.thr m := by
          refine free_iff.2 fun k tk hk => ?_
          by_cases hki : k = i
          · subst hki; rw [hself] at hk; cases hk; exact hmh'
          · rw [hother k hki] at hk; exact free_iff.1 hfree k tk hk
        refine ⟨fun _ => .step aS hfree ⟨stp, l, hl, hsh, hloc⟩ hfree', ?_⟩
        intro j tj hj hm
        exact absurd hm (free_iff.1 hfree' j tj hj)
    · -- some thread j is inside a section
      have : ∃ (j : Nat) (tj : Thread), S.thr[j]? = some tj ∧ m ∈ tj.held := by
        apply Classical.byContradiction
        intro hno
        apply hfree
        refine free_iff.2 fun k tk hk hm => hno ⟨k, tk, hk, hm⟩
      obtain ⟨j, tj, hj, hmj⟩ := this
      obtain ⟨S0, acq, body, t0, aS0, hfree0, hacq, hbody, run, hagree, ht0, hheld⟩ := (ih.2 j tj hj hmj).ex
      by_cases hij : i = j
      · -- the owner of the section steps
        subst hij
        rw [hi] at hj
        cases hj
        simp only at hmj hheld
        obtain ⟨p, hp, hsc⟩ := next_in_scan ivS hi
        by_cases hun : a = .unlock m
        · -- the section closes
          subst hun
          have run' := run.snoc (S2 := S') ⟨stp, l, hl, hsh, hloc⟩
          have aS' : AReach D m progs σ0 ls0 S' := .sect (j := i) aS0 hacq hbody run'
          have hh' : h' = h.erase m := by simp [track, hmj] at tr; exact tr.symm
          have nd : h.Nodup := held_nodup ivS hi
          have hfree' : Free S'.thr m := by
            refine free_iff.2 fun k tk hk => ?_
            by_cases hki : k = i
            · subst hki
              rw [hself] at hk
              cases hk
              simp only [hh']
              intro hm
              exact ((List.Nodup.mem_erase_iff nd).1 hm).1 rfl
            · rw [hother k hki] at hk
              exact ivS.excl i k _ tk (Ne.symm hki) hi hk m hmj
          refine ⟨fun _ => aS', ?_⟩
          intro k tk hk hm
          exact absurd hm (free_iff.1 hfree' k tk hk)
        · -- the section continues
          have hnm : isMutexOp a = false := by
            cases hmo : isMutexOp a with
            | false => rfl
            | true => exact absurd (sd.nonest i p a h hp hsc hmj hmo) hun
          have hh' : h' = h := track_of_not_mutexOp hnm tr
          refine ⟨?_, ?_⟩
          · intro hf
            exact absurd (by rw [hh']; exact hmj) (free_iff.1 hf i _ hself)
          · intro k tk hk hm
            have hki : k = i := by
              apply Classical.byContradiction
              intro hne
              have := ivS'.excl i k _ tk (Ne.symm hne) hself hk m (by rw [hh']; exact hmj)
              exact this hm
            subst hki
            rw [hself] at hk
            cases hk
            refine ⟨S0, acq, body ++ [a], t0, aS0, hfree0, hacq, ?_, ?_, ?_, ht0, ?_⟩
            · intro b hb
              rcases List.mem_append.1 hb with hb | hb
              · exact hbody b hb
              · simp at hb; subst hb; exact hnm
            · have := run.snoc (S2 := S') ⟨stp, l, hl, hsh, hloc⟩
              simpa using this
            · intro k' hk'
              obtain ⟨e1, e2⟩ := hagree k' hk'
              refine ⟨e1.trans (hother k' hk').symm, ?_⟩
              rw [e2, hloc]; exact (getElem?_set_other (Ne.symm hk')).symm
            · simp only [hh']; exact hheld
      · -- another thread steps while j is inside its section: move the step before the section
        have hmh : m ∉ h := fun hm => ivS.excl j i tj _ (Ne.symm hij) hj hi m hmj hm
        obtain ⟨p, hp, hsc⟩ := next_in_scan ivS hi
        have hap : a ∈ p := by
          obtain ⟨pre, hp', _⟩ := ivS.pre i _ hi
          rw [hp] at hp'
          cases hp'
          simp
        have hnotFree : ¬ Free S.thr m := hfree
        have hna1 : a ≠ .lock m := by rintro rfl; exact hnotFree en
        have hna2 : a ≠ .tryOk m := by rintro rfl; exact hnotFree en
        have hna3 : a ≠ .tryFail m := by rintro rfl; exact sd.notry i p hp hap
        have hmh' : m ∉ h' := by
          intro hm
          rcases track_mem tr hm with h1 | h1 | h1
          · exact hmh h1
          · exact hna1 h1
          · exact hna2 h1
        have hx : isXacc X a = false := by
          cases ha : a with
          | acc x w site =>
            cases hX : X x with
            | false => simp [isXacc, hX]
            | true =>
              subst ha
              exact absurd (sd.prot i p x w site h hp hX hsc) hmh
          | _ => rfl
        obtain ⟨f, hf⟩ := frame i a hx
        -- the states with thread i stepped
        have hS' : S' = S.upd i ⟨h', rr⟩ (f l) := by
          refine DState.ext' hthr ?_ ?_
          · rw [hsh, hf]; rfl
          · rw [hloc, hf]; rfl
        obtain ⟨e1, e2⟩ := hagree i hij
        have hi0 : S0.thr[i]? = some ⟨h, a :: rr⟩ := by rw [e1]; exact hi
        have hl0 : S0.loc[i]? = some l := by rw [e2]; exact hl
        -- enabledness carries over to the rolled-back state
        have hfreeTransfer : ∀ m', Free S.thr m' → Free S0.thr m' := by
          intro m' hf'
          refine free_iff.2 fun k tk hk => ?_
          by_cases hkj : k = j
          · subst hkj
            rw [ht0] at hk
            cases hk
            intro hm
            exact free_iff.1 hf' k tj hj (by rw [hheld]; exact List.mem_cons_of_mem _ hm)
          · rw [(hagree k hkj).1] at hk
            exact free_iff.1 hf' k tk hk
        have hfreeBack : ∀ m', m' ≠ m → Free S0.thr m' → Free S.thr m' := by
          intro m' hne hf'
          refine free_iff.2 fun k tk hk => ?_
          by_cases hkj : k = j
          · subst hkj
            rw [hj] at hk
            cases hk
            intro hm
            rw [hheld] at hm
            rcases List.mem_cons.1 hm with h1 | h1
            · exact hne h1
            · exact free_iff.1 hf' k t0 ht0 h1
          · rw [← (hagree k hkj).1] at hk
            exact free_iff.1 hf' k tk hk
        have en0 : Enabled S0.thr a := by
          cases ha : a with
          | lock m' => subst ha; exact hfreeTransfer m' en
          | tryOk m' => subst ha; exact hfreeTransfer m' en
          | tryFail m' =>
            subst ha
            have hne : m' ≠ m := fun e => hna3 (by rw [e])
            exact fun hf' => en (hfreeBack m' hne hf')
          | unlock m' => trivial
          | acc x w s => trivial
          | callout s re => trivial
          | tau => trivial
        let S0' : DState Sh Lo := S0.upd i ⟨h', rr⟩ (f l)
        have st0 : DStep D S0 (i, a) S0' := by
          refine ⟨?_, l, hl0, ?_, ?_⟩
          · exact Step.mk hi0 en0 tr
          · show S0.sh = _
            rw [hf]
          · show S0.loc.set i (f l) = _
            rw [hf]
        have hfree0' : Free S0'.thr m := by
          refine free_iff.2 fun k tk hk => ?_
          by_cases hki : k = i
          · subst hki
            have : (S0.thr.set k ⟨h', rr⟩)[k]? = some ⟨h', rr⟩ := getElem?_set_same hi0
            rw [show S0'.thr = S0.thr.set k ⟨h', rr⟩ from rfl, this] at hk
            cases hk
            exact hmh'
          · rw [show S0'.thr = S0.thr.set i ⟨h', rr⟩ from rfl, getElem?_set_other (Ne.symm hki)] at hk
            exact free_iff.1 hfree0 k tk hk
        have aS0' : AReach D m progs σ0 ls0 S0' := .step aS0 hfree0 st0 hfree0'
        -- the run of j from the new rolled-back state
        have run' : Run D j S0' (acq :: body) S' := by
          rw [hS']
          cases run with
          | @cons _ S1 _ _ _ stacq rbody =>
            refine .cons (stacq.upd_other hij ?_) (rbody.upd_other hij hbody)
            have hfm : Free (S0.thr.set i ⟨h', rr⟩) m := hfree0'
            rcases hacq with rfl | rfl <;> exact hfm
        have hjS' : S'.thr[j]? = some tj := by rw [hother j (Ne.symm hij)]; exact hj
        refine ⟨?_, ?_⟩
        · intro hf'
          exact absurd hmj (free_iff.1 hf' j tj hjS')
        · intro k tk hk hm
          have hkj : k = j := by
            apply Classical.byContradiction
            intro hne
            exact ivS'.excl j k tj tk (Ne.symm hne) hjS' hk m hmj hm
          subst hkj
          rw [hjS'] at hk
          cases hk
          refine ⟨S0', acq, body, t0, aS0', hfree0', hacq, hbody, run', ?_, ?_, hheld⟩
          · intro k' hk'
            by_cases hki : k' = i
            · subst hki
              refine ⟨?_, ?_⟩
              · rw [show S0'.thr = S0.thr.set k' ⟨h', rr⟩ from rfl, getElem?_set_same hi0, hself]
              · rw [show S0'.loc = S0.loc.set k' (f l) from rfl, getElem?_set_same hl0, hloc, hf]
                exact (getElem?_set_same hl).symm
            · obtain ⟨e1', e2'⟩ := hagree k' hk'
              refine ⟨?_, ?_⟩
              · rw [show S0'.thr = S0.thr.set i ⟨h', rr⟩ from rfl, getElem?_set_other (Ne.symm hki), e1', hother k' hki]
              · rw [show S0'.loc = S0.loc.set i (f l) from rfl, getElem?_set_other (Ne.symm hki), e2', hloc,
                  getElem?_set_other (Ne.symm hki)]
          · rw [show S0'.thr = S0.thr.set i ⟨h', rr⟩ from rfl, getElem?_set_other hij]
            exact ht0

/-- **Critical sections are atomic.**  Under the section discipline, every state of every
interleaving in which `m` is free is a state of the section-serial semantics. -/
theorem atomic_sections {D : DataSem Sh Lo} {X : Var → Bool} {m : Mutex} {progs : List (List Action)}
    {σ0 : Sh} {ls0 : List Lo} (frame : Frame X D) (sd : SectionDiscipline X m progs)
    {S : DState Sh Lo} (r : DReach D progs σ0 ls0 S) (hf : Free S.thr m) : AReach D m progs σ0 ls0 S :=
  (section_invariant frame sd r).1 hf

/-- ... and while a thread is inside a section, the state is what that thread alone computes from a
state of the section-serial semantics in which `m` was free -/
theorem open_section_is_serial {D : DataSem Sh Lo} {X : Var → Bool} {m : Mutex} {progs : List (List Action)}
    {σ0 : Sh} {ls0 : List Lo} (frame : Frame X D) (sd : SectionDiscipline X m progs)
    {S : DState Sh Lo} (r : DReach D progs σ0 ls0 S) {j : Nat} {tj : Thread} (hj : S.thr[j]? = some tj)
    (hm : m ∈ tj.held) :
    ∃ (S0 : DState Sh Lo) (as : List Action) (l0 : Lo), AReach D m progs σ0 ls0 S0 ∧ Free S0.thr m ∧
      Run D j S0 as S ∧ S0.loc[j]? = some l0 ∧
      S.sh = (foldEff D j as (S0.sh, l0)).1 ∧ S.loc[j]? = some (foldEff D j as (S0.sh, l0)).2 := by
  obtain ⟨S0, acq, body, t0, aS0, hfree0, _, _, run, _, _, _⟩ := ((section_invariant frame sd r).2 j tj hj hm).ex
  cases run with
  | @cons _ S1 _ _ _ st rb =>
    obtain ⟨stp, l, hl, hsh, hloc⟩ := st
    have run : Run D j S0 (acq :: body) S := .cons ⟨stp, l, hl, hsh, hloc⟩ rb
    obtain ⟨h1, h2⟩ := run.result hl
    exact ⟨S0, acq :: body, l, aS0, hfree0, run, hl, h1, h2⟩

/-! ## the section discipline from the table checks -/

/-- inside a section of `m` the only mutex operation is the closing `unlock m` -/
def noNestB (m : Mutex) (A : List (Action × List Mutex)) : Bool :=
  A.all fun p => !isMutexOp p.1 || !p.2.contains m || p.1 == .unlock m

theorem sectionDiscipline_of_table {m : Mutex} {X : Var → Bool} {roles : List Role}
    (ok : ∀ R ∈ roles, R.annOK = true) (tp : ∀ R ∈ roles, protectedB m X (fun _ => false) R.accs = true)
    (tn : ∀ R ∈ roles, noNestB m R.accs = true) (tf : ∀ R ∈ roles, R.tryFree = true)
    {sys : List (Nat × List Action)} (wr : WellRoled roles sys) : SectionDiscipline X m (progsOf sys) := by
  refine ⟨?_, ?_, ?_⟩
  · intro i p x w site h hp hx hs
    rcases protected_of_table ok tp wr hp hx hs with h1 | h1
    · exact h1
    · cases h1
  · intro i p a h hp hs hm hmo
    obtain ⟨r, hsys⟩ := progsOf_get hp
    obtain ⟨R, hR, _, ha, _⟩ := wellRoled_thread ok wr hsys
    have h1 := tn R (List.mem_of_getElem? hR)
    unfold noNestB at h1
    have h2 := List.all_eq_true.1 h1 _ (ha _ hs)
    simp only [hmo, Bool.not_true, Bool.false_or, Bool.or_eq_true, Bool.not_eq_true', beq_iff_eq] at h2
    rcases h2 with h2 | h2
    · rw [← List.contains_iff_mem] at hm
      rw [hm] at h2
      cases h2
    · exact h2
  · intro i p hp hmem
    exact (tryFree_of_table tf wr i p hp _ hmem m).2 rfl

end Zvbi.Locks
