import ZvbiModel.Locks.Model
/-!
# Locks - what the C20 theorems talk about

Interleaving semantics of thread programs under pthread mutex semantics (mutual
exclusion, `lock` blocks while the mutex is held by anybody, `trylock` never
blocks), the notions *data race*, *deadlock*, and the paths of control-flow graphs.
-/
namespace Zvbi.Locks

/-- a running thread: the mutexes it holds and what it still has to execute -/
structure Thread where
  held : List Mutex
  rest : List Action

abbrev State := List Thread

def init (progs : List (List Action)) : State := progs.map fun p => ⟨[], p⟩

/-- nobody holds `m` -/
def Free (s : State) (m : Mutex) : Prop := ∀ t ∈ s, m ∉ t.held

/-- may the action be executed now?  (`lock` blocks, the trylock outcomes are determined
by the mutex, everything else can always run) -/
def Enabled (s : State) : Action → Prop
  | .lock m => Free s m
  | .tryOk m => Free s m
  | .tryFail m => ¬ Free s m
  | _ => True

/-- one atomic step of thread `i`, labelled with the thread and the action -/
inductive Step : State → Nat × Action → State → Prop
  | mk {s : State} {i : Nat} {h : List Mutex} {a : Action} {r : List Action} {h' : List Mutex}
      (hi : s[i]? = some ⟨h, a :: r⟩) (en : Enabled s a) (tr : track h a = some h') :
      Step s (i, a) (s.set i ⟨h', r⟩)

/-- a schedule: any finite sequence of steps -/
inductive Exec : State → List (Nat × Action) → State → Prop
  | nil (s : State) : Exec s [] s
  | cons {s s' s'' : State} {l : Nat × Action} {ls : List (Nat × Action)} :
      Step s l s' → Exec s' ls s'' → Exec s (l :: ls) s''

/-- a stretch of a schedule during which thread `j` holds `m` before every step -/
inductive ExecHolding (j : Nat) (m : Mutex) : State → List (Nat × Action) → State → Prop
  | nil (s : State) : ExecHolding j m s [] s
  | cons {s s' s'' : State} {l : Nat × Action} {ls : List (Nat × Action)} :
      (∃ tj, s[j]? = some tj ∧ m ∈ tj.held) → Step s l s' → ExecHolding j m s' ls s'' →
      ExecHolding j m s (l :: ls) s''

def Reachable (progs : List (List Action)) (s : State) : Prop := ∃ ls, Exec (init progs) ls s

/-- two accesses conflict: same field, at least one is a write -/
def Conflict (a b : Action) : Prop := conflictB a b = true

/-- a data race: two different threads are both about to perform conflicting accesses
(nothing orders them - either can go first) -/
def RaceAt (s : State) (i j : Nat) (a b : Action) : Prop :=
  i ≠ j ∧ (∃ h r, s[i]? = some ⟨h, a :: r⟩) ∧ (∃ h r, s[j]? = some ⟨h, b :: r⟩) ∧ Conflict a b

/-- thread `t` waits for a mutex somebody holds -/
def Blocked (s : State) (t : Thread) : Prop :=
  ∃ m r, t.rest = .lock m :: r ∧ ∃ t' ∈ s, m ∈ t'.held

/-- deadlock: somebody is unfinished and every unfinished thread waits for a held mutex -/
def Deadlock (s : State) : Prop :=
  (∃ t ∈ s, t.rest ≠ []) ∧ ∀ t ∈ s, t.rest = [] ∨ Blocked s t

/-- no thread can move although one is unfinished -/
def Stuck (s : State) : Prop :=
  (∃ t ∈ s, t.rest ≠ []) ∧ ∀ l s', ¬ Step s l s'

def TryFree (p : List Action) : Prop := ∀ a ∈ p, ∀ m, a ≠ .tryOk m ∧ a ≠ .tryFail m

/-! ## lock discipline (premises of the generic theorems) -/

def PairOK (known : Site → Site → Bool) (p q : Action × List Mutex) : Prop :=
  Conflict p.1 q.1 → (∃ m, m ∈ p.2 ∧ m ∈ q.2) ∨ known (siteOf p.1) (siteOf q.1) = true

/-- every conflicting pair of accesses of two different threads is bracketed by a
common mutex (or is a listed known pair) -/
def Discipline (known : Site → Site → Bool) (progs : List (List Action)) : Prop :=
  ∀ (i j : Nat) pi pj, i ≠ j → progs[i]? = some pi → progs[j]? = some pj →
    ∀ p ∈ scan [] pi, ∀ q ∈ scan [] pj, PairOK known p q

/-- well bracketed: never re-locks a held mutex, never unlocks a mutex it does not hold,
holds nothing at the end -/
def Balanced (p : List Action) : Prop := trackList [] p = some []

/-- lock order of thread `i`: a mutex is acquired while holding only mutexes of smaller
rank, or no other thread ever acquires that mutex -/
def Ordered (rank : Mutex → Nat) (progs : List (List Action)) : Prop :=
  ∀ (i : Nat) pi, progs[i]? = some pi → ∀ m h, (Action.lock m, h) ∈ scan [] pi →
    (∀ m' ∈ h, rank m' < rank m) ∨ (∀ (j : Nat) pj, j ≠ i → progs[j]? = some pj → m ∉ locksOf pj)

/-! ## paths of a control-flow graph, sequences of API calls -/

inductive Path (c : Cfg) : Nat → List Action → Nat → Prop
  | nil (u : Nat) : Path c u [] u
  | cons {u v : Nat} {t : List Action} (e : Edge) :
      e ∈ c.edges → e.src = u → Path c e.dst t v → Path c u (e.act :: t) v

/-- one complete execution of the function -/
def FullPath (c : Cfg) (t : List Action) : Prop := Path c c.entry t c.exit

/-- what one thread of a role executes: any number of calls of the role's functions,
each along any path -/
inductive Calls (fs : List Cfg) : List Action → Prop
  | nil : Calls fs []
  | cons {t r : List Action} (c : Cfg) : c ∈ fs → FullPath c t → Calls fs r → Calls fs (t ++ r)

end Zvbi.Locks
