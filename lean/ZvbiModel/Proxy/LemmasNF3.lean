import ZvbiModel.Proxy.LemmasNF2
/-!
# no_fault, part 3: message handling and the main loop keep the invariants and never fault
-/
namespace Zvbi.Proxy
open Zvbi.Gen.Proxy

/-- all repairs that guard a fault site are present in the source (see `Generated/ProxyLayout.lean`) -/
structure Cfg.Repaired (cfg : Cfg) : Prop where
  con : cfg.conStrictClamp = true
  svc : cfg.svcStrictClamp = true
  rd : cfg.readLenGuard = true
  idle : cfg.idleAssertsRemoved = true
  fl : cfg.flushNullGuard = true
  ret : cfg.g.ret = true

variable {g : Core.Guards}

/-! ### records found after record-wise updates -/

theorem findClient_map (s : State g) (gf : Client → Client) (hh : ∀ c, (gf c).h = c.h) (h : Nat) :
    findClient { s with clients := s.clients.map gf } h = (findClient s h).map gf := by
  unfold findClient; exact find_map_h _ gf hh h

theorem findClient_modClient (s : State g) (h : Nat) (f : Client → Client) (hh : ∀ c, c.h = h → (f c).h = h) (h' : Nat) :
    findClient (modClient s h f) h' = (findClient s h').map (fun c => if c.h == h then f c else c) := by
  unfold modClient
  apply findClient_map
  intro c
  by_cases e : c.h = h
  · simp [e, hh c e]
  · simp [e]

/-- "every record but the one of handle `h` is fine" -/
def CIo (h : Nat) (s : State g) : Prop := ∀ h' c, h' ≠ h → findClient s h' = some c → RI c

theorem CI.toCIo {x : Option Nat} {s : State g} (h : Nat) (hx : x = none ∨ x = some h) (hc : CI x s) : CIo h s := by
  intro h' c hne hf
  rcases hc h' c hf with r | ⟨e, _⟩
  · exact r
  · rcases hx with e' | e'
    · rw [e'] at e; cases e
    · rw [e'] at e; cases e; exact absurd rfl hne

theorem cio_modClient {s : State g} (h : Nat) (f : Client → Client) (hh : ∀ c, c.h = h → (f c).h = h) (hc : CIo h s) :
    CIo h (modClient s h f) := by
  intro h' c hne hf
  rw [findClient_modClient s h f hh] at hf
  cases hf0 : findClient s h' with
  | none => rw [hf0] at hf; cases hf
  | some c0 =>
    rw [hf0] at hf
    have hc0 := (findClient_some hf0).2
    have : (c0.h == h) = false := by simp [hc0, hne]
    simp only [Option.map_some, this, Bool.false_eq_true, if_false, Option.some.injEq] at hf
    rw [← hf]; exact hc h' c0 hne hf0

/-- closing the connection of handle `h` re-establishes the invariant with `h` as the exception -/
theorem ci_closeClient {s : State g} (h : Nat) (hc : CIo h s) : CI (some h) (closeClient s h) := by
  unfold closeClient
  cases hf : findClient s h with
  | none =>
    dsimp only
    intro h' c hf'
    by_cases e : h' = h
    · rw [e, hf] at hf'; cases hf'
    · exact Or.inl (hc h' c e hf')
  | some c0 =>
    dsimp only
    split
    · intro h' c hf'
      have hh : ∀ c : Client, c.h = h → ({ c with st := Conn.closed, sockOpen := false, pend := [] } : Client).h = h := fun _ e => e
      by_cases e : h' = h
      · subst e
        right
        refine ⟨rfl, ?_⟩
        have : findClient (modClient s h' (fun c => { c with st := .closed, sockOpen := false, pend := [] })) h' = some c := hf'
        rw [findClient_modClient _ _ _ hh, hf] at this
        have h0 := (findClient_some hf).2
        simp only [Option.map_some, h0, beq_self_eq_true, if_true, Option.some.injEq] at this
        rw [← this]
      · left
        exact cio_modClient h _ hh hc h' c e hf'
    · rename_i hst
      intro h' c hf'
      by_cases e : h' = h
      · subst e
        rw [hf] at hf'; cases hf'
        right; exact ⟨rfl, by simpa using hst⟩
      · exact Or.inl (hc h' c e hf')

theorem di_closeClient {s : State g} (h : Nat) (hd : DI s) : DI (closeClient s h) := by
  unfold closeClient
  split
  · split
    · exact hd
    · exact hd
  · exact hd

/-! ### vbi_proxy_msg_handle_read -/

theorem hdr_le_msg : hdr ≤ msg := by decide
theorem msg_lt : msg < 4294967296 := by decide

/-- Boolean clean-up after the facts of a case have been rewritten -/
syntax "bs" "[" Lean.Parser.Tactic.simpLemma,* "]" : tactic
macro_rules
  | `(tactic| bs [$ls,*]) => `(tactic| simp only [$ls,*, decide_true, decide_false, Bool.or_false,
      Bool.false_or, Bool.or_true, Bool.true_or, Bool.and_true, Bool.true_and, Bool.and_false, Bool.false_and, Bool.not_true,
      Bool.not_false, if_true, if_false, Bool.false_eq_true, Option.isSome_none, bne_self_eq_false])

theorem handleRead_ok (cfg : Cfg) (hrd : cfg.readLenGuard = true) (now : Int) (c : Client) (inq : List Nat) (shut : Bool)
    (hw : c.wr = none) (hri : RI c) :
    ∃ c' inq' ok b, handleRead cfg now c inq shut = .ok (c', inq', ok, b) ∧ c'.h = c.h ∧ (ok = true → RI c') := by
  have hm := hdr_le_msg
  have hm2 := msg_lt
  unfold handleRead
  by_cases hoff : c.readOff < hdr
  · -- header phase
    have hl : c.readLen = 0 := hri.1 hoff
    unfold readHeader
    bs [hw, hoff, hl]
    by_cases hk : min (hdr - c.readOff) inq.length > 0
    · bs [hk]
      by_cases hfull : c.readOff + min (hdr - c.readOff) inq.length ≥ hdr
      · bs [hfull]
        have hoff2 : c.readOff + min (hdr - c.readOff) inq.length = hdr := by omega
        generalize be32 (c.buf ++ inq.take (min (hdr - c.readOff) inq.length)) 0 = len
        by_cases h1 : len > msg
        · bs [h1, hrd]
          exact ⟨_, _, _, _, rfl, rfl, by intro h; cases h⟩
        · by_cases h2 : len < hdr
          · bs [h1, h2, hrd]
            exact ⟨_, _, _, _, rfl, rfl, by intro h; cases h⟩
          · bs [h1, h2, hrd, hfull]
            rw [hoff2]
            have hwant : u32 (len + 4294967296 - hdr) = len - hdr := by unfold u32; omega
            rw [hwant]
            by_cases hk2 : min (len - hdr) (inq.drop (min (hdr - c.readOff) inq.length)).length > 0
            · have h3 : ¬ hdr + min (len - hdr) (inq.drop (min (hdr - c.readOff) inq.length)).length > msg := by omega
              bs [hk2, h3]
              refine ⟨_, _, _, _, rfl, rfl, ?_⟩
              intro _
              constructor
              · intro h; dsimp only at h; omega
              · intro _; dsimp only; omega
            · bs [hk2]
              refine ⟨_, _, _, _, rfl, rfl, ?_⟩
              intro _
              constructor
              · intro h; dsimp only at h; omega
              · intro _; dsimp only; omega
      · bs [hfull]
        refine ⟨_, _, _, _, rfl, rfl, ?_⟩
        intro _
        constructor
        · intro _; first | exact hl | rfl
        · intro h; dsimp only at h; omega
    · bs [hk]
      exact ⟨_, _, _, _, rfl, rfl, fun _ => hri⟩
  · -- body phase: the header is complete, the invariant gives a legal length
    have hge : c.readOff ≥ hdr := Nat.le_of_not_lt hoff
    obtain ⟨hl1, hl2⟩ := hri.2 hge
    unfold readHeader
    have h1 : ¬ c.readLen > msg := by omega
    bs [hw, hoff, hge, h1]
    have hwant : u32 (c.readLen + 4294967296 - c.readOff) = c.readLen - c.readOff := by unfold u32; omega
    rw [hwant]
    by_cases hk2 : min (c.readLen - c.readOff) inq.length > 0
    · have h3 : ¬ c.readOff + min (c.readLen - c.readOff) inq.length > msg := by omega
      bs [hk2, h3]
      refine ⟨_, _, _, _, rfl, rfl, ?_⟩
      intro _
      constructor
      · intro h; dsimp only at h; omega
      · intro _; dsimp only; omega
    · bs [hk2]
      exact ⟨_, _, _, _, rfl, rfl, fun _ => hri⟩

/-! ### vbi_proxyd_take_message -/

theorem kp_modClient_at {s : State g} {h : Nat} {c0 : Client} (f : Client → Client) (hf : findClient s h = some c0)
    (hk : key (f c0) = key c0) (hh : ∀ c, c.h = h → (f c).h = h) : KP s (modClient s h f) := by
  intro h'
  rw [findClient_modClient s h f hh]
  cases hf0 : findClient s h' with
  | none => rfl
  | some c =>
    have hc := (findClient_some hf0).2
    by_cases e : h' = h
    · subst e
      rw [hf] at hf0; cases hf0
      simp [hc, hk]
    · have : c.h ≠ h := by rw [hc]; exact e
      simp [this]

theorem fr_modClient_at {s0 s : State g} {h : Nat} {c0 : Client} (f : Client → Client) (hf : findClient s h = some c0)
    (hk : key (f c0) = key c0) (hh : ∀ c, c.h = h → (f c).h = h) (h0 : Fr s0 s) : Fr s0 (modClient s h f) :=
  h0.trans ⟨kp_modClient_at f hf hk hh, fun _ x => x⟩

/-- a frame step keeps "the record of `h` is not closed" -/
theorem notClosed_of_fr {s s' : State g} {h : Nat} (hfr : Fr s s') (hn : ∀ c, findClient s h = some c → c.st ≠ .closed) :
    ∀ c', findClient s' h = some c' → c'.st ≠ .closed := by
  intro c' hf'
  have := hfr.kp h
  rw [hf'] at this
  cases hf0 : findClient s h with
  | none => rw [hf0] at this; cases this
  | some c =>
    rw [hf0] at this
    simp only [Option.map_some, Option.some.injEq] at this
    intro e
    exact hn c hf0 ((key_eq this).2.1.mp e)

/-- setting the connection state of a record that is not closed to another state that is not CLOSED -/
theorem fr_setSt {s0 s : State g} (h : Nat) (st : Conn) (hst : st ≠ .closed) (hn : ∀ c, findClient s h = some c → c.st ≠ .closed)
    (h0 : Fr s0 s) : Fr s0 (modClient s h (fun c => { c with st := st })) := by
  cases hf : findClient s h with
  | none =>
    refine h0.trans ⟨?_, fun _ x => x⟩
    intro h'
    rw [findClient_modClient s h (fun c => { c with st := st }) (by intro c e; exact e)]
    cases hf0 : findClient s h' with
    | none => rfl
    | some c =>
      have hc := (findClient_some hf0).2
      have : c.h ≠ h := by
        intro e; rw [hc] at e; rw [e, hf] at hf0; cases hf0
      simp [this]
  | some c0 =>
    refine fr_modClient_at _ hf ?_ (by intro c e; exact e) h0
    have := hn c0 hf
    simp only [key, Prod.mk.injEq, true_and, and_true]
    cases hs : c0.st <;> cases st <;> first | rfl | (exfalso; simp_all)

theorem onConnect_ok (cfg : Cfg) (hcfg : cfg.Repaired) (s : State cfg.g) (h d : Nat) (m : Msg) (req : Client)
    (hf : findClient s h = some req) (hst : req.st = .waitCon) :
    ∃ r, onConnect cfg s h d m = .ok r ∧ Fr s r.1 := by
  unfold onConnect
  have hnc : ∀ c, findClient s h = some c → c.st ≠ .closed := by
    intro c hc; rw [hf] at hc; cases hc; rw [hst]; decide
  split
  · dsimp only
    generalize hsa : (if m.u32 oConScanning != 0 then setDev s d (fun x => { x with scanning := m.u32 oConScanning }) else s) = sa
    have fa : Fr s sa := by rw [← hsa]; fr
    have hfa : findClient sa h = some req := by rw [← hsa]; split <;> exact hf
    generalize hsb : modClient sa h (fun c => { c with st := .forward, bufCount := m.u8 oConBufcnt, flags := m.u32 oConFlags }) = sb
    have fb : Fr s sb := by
      rw [← hsb]
      refine fr_modClient_at _ hfa ?_ (by intro c e; exact e) fa
      simp only [key, hst, Prod.mk.injEq, true_and, and_true]
      rfl
    have hnb : ∀ c, findClient sb h = some c → c.st ≠ .closed := notClosed_of_fr fb hnc
    simp only [hcfg.con]
    obtain ⟨r, er, fr⟩ := takeServiceReq_ok sb h d (m.u32 oConServices) (m.i8 oConStrict)
    rw [er]
    obtain ⟨s', ok, txt⟩ := r
    dsimp only at fr ⊢
    split
    · refine ⟨_, rfl, ?_⟩
      exact fr_msgWrite _ _ _ _ (fb.trans fr)
    · refine ⟨_, rfl, ?_⟩
      have f1 : Fr s (msgWrite s' h "CONNECT_REJ" szConnectRej txt) := fr_msgWrite _ _ _ _ (fb.trans fr)
      exact fr_setSt h .waitClose (by decide) (notClosed_of_fr f1 hnc) f1
  · refine ⟨_, rfl, ?_⟩
    have f1 : Fr s (msgWrite s h "CONNECT_REJ" szConnectRej "Incompatible") := fr_msgWrite _ _ _ _ (Fr.refl s)
    exact fr_setSt h .waitClose (by decide) (notClosed_of_fr f1 hnc) f1

theorem onService_ok (cfg : Cfg) (hcfg : cfg.Repaired) (s : State cfg.g) (h d : Nat) (m : Msg) :
    ∃ r, onService cfg s h d m = .ok r ∧ Fr s r.1 := by
  unfold onService
  dsimp only
  generalize hsa : modClient (if m.u8 oSvcReset != 0 then modClient s h (fun c => { c with sv := [0, 0, 0, 0] }) else s) h
    (fun c => { c with pend := [] }) = sa
  have fa : Fr s sa := by rw [← hsa]; fr
  simp only [hcfg.svc]
  obtain ⟨r, er, fr⟩ := takeServiceReq_ok sa h d (m.u32 oSvcServices) (m.i8 oSvcStrict)
  rw [er]
  obtain ⟨s', ok, txt⟩ := r
  dsimp only at fr ⊢
  split
  · exact ⟨_, rfl, fr_msgWrite _ _ _ _ (fa.trans fr)⟩
  · exact ⟨_, rfl, fr_msgWrite _ _ _ _ (fa.trans fr)⟩

theorem onTokenReq_ok (cfg : Cfg) (hcfg : cfg.Repaired) (s : State cfg.g) (h d : Nat) (m : Msg) :
    ∃ r, onTokenReq cfg s h d m = .ok r ∧ Fr s r.1 := by
  unfold onTokenReq
  dsimp only
  generalize hsa : coreOp (modClient s h _) (Core.COp.tokenReq h (m.u32 oTokPrio) (m.u8 oTokValid)) = sa
  have fa : Fr s sa := by rw [← hsa]; fr
  obtain ⟨r, er, fr⟩ := channelUpdate_ok cfg hcfg.ret hcfg.fl sa d (some h) false
  rw [er]
  obtain ⟨s', b⟩ := r
  dsimp only at fr ⊢
  split
  · exact ⟨_, rfl, fr_msgWrite _ _ _ _ (fr_coreOp _ (fa.trans fr))⟩
  · exact ⟨_, rfl, fr_msgWrite _ _ _ _ (fa.trans fr)⟩

theorem onNotify_ok (cfg : Cfg) (hcfg : cfg.Repaired) (s : State cfg.g) (h d : Nat) (m : Msg) :
    ∃ r, onNotify cfg s h d m = .ok r ∧ Fr s r.1 := by
  unfold onNotify
  dsimp only
  generalize hsa : (if hasFlag (m.u32 oNtfFlags) fNORM then updateScanning s d true (m.u32 oNtfScanning) else s) = sa
  have fa : Fr s sa := by rw [← hsa]; fr
  generalize hsb : (if hasFlag (m.u32 oNtfFlags) fFLUSH then (channelFlush sa d, true, !(tokOf s h).controls) else (sa, false, false)) = pb
  obtain ⟨sb, upd1, forced⟩ := pb
  have fb : Fr s sb := by
    have : sb = (if hasFlag (m.u32 oNtfFlags) fFLUSH then (channelFlush sa d, true, !(tokOf s h).controls) else (sa, false, false)).1 := by rw [hsb]
    rw [this]; split
    · exact fr_channelFlush d fa
    · exact fa
  dsimp only
  generalize hsc : (if hasFlag (m.u32 oNtfFlags) fRELEASE then (coreOp sb (.release h), tokOf s h != .none)
    else if hasFlag (m.u32 oNtfFlags) fTOKEN && (!cfg.g.ret || tokOf s h != .none) then (coreOp sb (.ret h), true)
    else (sb, false)) = pc
  obtain ⟨sc, upd2⟩ := pc
  have fc : Fr s sc := by
    have : sc = (if hasFlag (m.u32 oNtfFlags) fRELEASE then (coreOp sb (.release h), tokOf s h != .none)
      else if hasFlag (m.u32 oNtfFlags) fTOKEN && (!cfg.g.ret || tokOf s h != .none) then (coreOp sb (.ret h), true)
      else (sb, false)).1 := by rw [hsc]
    rw [this]; split
    · exact fr_coreOp _ fb
    · split
      · exact fr_coreOp _ fb
      · exact fb
  dsimp only
  have fin : ∀ s' : State cfg.g, Fr s s' → ∃ r, (Except.ok (modClient (msgWrite s' h "NOTIFY_CNF" szNotifyCnf s!"scan{(getDev s' d).scanning}") h
      (fun c => { c with ind := 0 }), true) : M (State cfg.g × Bool)) = .ok r ∧ Fr s r.1 := by
    intro s' hs'
    exact ⟨_, rfl, fr_modClient _ _ (by intro c; rfl) (fr_msgWrite _ _ _ _ hs')⟩
  split
  · obtain ⟨r, er, fr⟩ := channelUpdate_ok cfg hcfg.ret hcfg.fl sc d (some h) forced
    rw [er]
    exact fin _ (fc.trans fr)
  · exact fin _ fc

/-- the invariants after a message was taken: the connection may have been closed by CLOSE_REQ -/
theorem takeMessage_ok (cfg : Cfg) (hcfg : cfg.Repaired) (s : State cfg.g) (h : Nat) (m : Msg) (hc : CI none s) (hd : DI s) :
    ∃ r, takeMessage cfg s h m = .ok r ∧ CI (some h) r.1 ∧ DI r.1 := by
  have ofFr : ∀ {r : State cfg.g × Bool}, Fr s r.1 → CI (some h) r.1 ∧ DI r.1 :=
    fun f => ⟨ci_weaken _ (f.ci hc), f.di hd⟩
  have same : CI (some h) s ∧ DI s := ⟨ci_weaken _ hc, hd⟩
  unfold takeMessage
  cases hf : findClient s h with
  | none => exact ⟨_, rfl, same⟩
  | some req =>
    dsimp only
    split
    · split
      · exact ⟨_, rfl, same⟩
      · rename_i hst
        obtain ⟨r, er, fr⟩ := onConnect_ok cfg hcfg s h req.dev m req hf (by simpa using hst)
        exact ⟨r, er, ofFr fr⟩
    · split
      · split
        · exact ⟨_, rfl, same⟩
        · rename_i hst
          refine ⟨_, rfl, ofFr ?_⟩
          have hnc : ∀ c, findClient s h = some c → c.st ≠ .closed := by
            intro c hc'; rw [hf] at hc'; cases hc'
            have : req.st = .waitCon := by simpa using hst
            rw [this]; decide
          have f1 : Fr s (msgWrite s h "PID_CNF" szPidCnf "magic1") := fr_msgWrite _ _ _ _ (Fr.refl s)
          exact fr_setSt h .waitClose (by decide) (notClosed_of_fr f1 hnc) f1
      · split
        · split
          · exact ⟨_, rfl, same⟩
          · obtain ⟨r, er, fr⟩ := onService_ok cfg hcfg s h req.dev m
            exact ⟨r, er, ofFr fr⟩
        · split
          · split
            · exact ⟨_, rfl, same⟩
            · obtain ⟨r, er, fr⟩ := onTokenReq_ok cfg hcfg s h req.dev m
              exact ⟨r, er, ofFr fr⟩
          · split
            · split
              · exact ⟨_, rfl, same⟩
              · obtain ⟨r, er, fr⟩ := onNotify_ok cfg hcfg s h req.dev m
                exact ⟨r, er, ofFr fr⟩
            · split
              · exact ⟨_, rfl, ofFr (fr_msgWrite _ _ _ _ (Fr.refl s))⟩
              · split
                · split
                  · exact ⟨_, rfl, same⟩
                  · generalize hio : takeIoctl s h (m.u32 oIocRequest) (m.u32 oIocArgsize) = io
                    have fio : Fr s io.1 := by rw [← hio]; exact fr_takeIoctl s h _ _
                    obtain ⟨s', ok⟩ := io
                    dsimp only at fio ⊢
                    split
                    · exact ⟨_, rfl, ofFr (fr_msgWrite _ _ _ _ fio)⟩
                    · exact ⟨_, rfl, ofFr (fr_msgWrite _ _ _ _ fio)⟩
                · split
                  · split
                    · obtain ⟨r, er, fr⟩ := channelUpdate_ok cfg hcfg.ret hcfg.fl (coreOp s (.reclaimCnf h)) req.dev none false
                      rw [er]
                      refine ⟨_, rfl, ?_⟩
                      exact ofFr (r := (r.1, true)) ((fr_coreOp _ (Fr.refl s)).trans fr)
                    · exact ⟨_, rfl, same⟩
                  · split
                    · exact ⟨_, rfl, ci_closeClient h (hc.toCIo h (Or.inl rfl)), di_closeClient h hd⟩
                    · exact ⟨_, rfl, same⟩

theorem ci_modClient_ri {s : State g} (h : Nat) (f : Client → Client) (hh : ∀ c, c.h = h → (f c).h = h) (hr : ∀ c, RI (f c))
    (hc : CI none s) : CI none (modClient s h f) := by
  intro h' c hf
  rw [findClient_modClient s h f hh] at hf
  cases hf0 : findClient s h' with
  | none => rw [hf0] at hf; cases hf
  | some c0 =>
    rw [hf0] at hf
    simp only [Option.map_some, Option.some.injEq] at hf
    left
    rw [← hf]
    split
    · exact hr c0
    · rcases hc h' c0 hf0 with r | ⟨e, _⟩
      · exact r
      · cases e

theorem onMessage_ok (cfg : Cfg) (hcfg : cfg.Repaired) (s : State cfg.g) (h : Nat) (m : Msg) (sw : Bool) (hc : CI none s) (hd : DI s) :
    ∃ s', onMessage cfg s h m sw = .ok s' ∧ CI (some h) s' ∧ DI s' := by
  unfold onMessage
  split
  · rename_i sw' _
    dsimp only
    generalize hsa : modClient s h (fun c => { c with endianSwap := sw', readOff := 0, readLen := 0, buf := [] }) = sa
    have ca : CI none sa := by
      rw [← hsa]
      refine ci_modClient_ri h _ (by intro c e; exact e) ?_ hc
      intro c
      constructor
      · intro _; rfl
      · intro hge; have : hdr ≤ 0 := hge; have : ¬ hdr ≤ 0 := by decide
        contradiction
    have da : DI sa := by rw [← hsa]; exact hd
    obtain ⟨r, er, cr, dr⟩ := takeMessage_ok cfg hcfg sa h m ca da
    rw [er]
    obtain ⟨s', ok⟩ := r
    dsimp only at cr dr ⊢
    refine ⟨_, rfl, ?_⟩
    split
    · exact ⟨cr, dr⟩
    · exact ⟨ci_closeClient h (cr.toCIo h (Or.inr rfl)), di_closeClient h dr⟩
  · exact ⟨_, rfl, ci_closeClient h (hc.toCIo h (Or.inl rfl)), di_closeClient h hd⟩

/-! ### the client loop -/

theorem clientIo_ok (cfg : Cfg) (hcfg : cfg.Repaired) (s : State cfg.g) (h : Nat) (sel : Option Sel) (ready : Bool)
    (hc : CI none s) (hd : DI s) : ∃ r, clientIo cfg s h sel ready = .ok r ∧ CI (some h) r.1 ∧ DI r.1 := by
  have same : CI (some h) s ∧ DI s := ⟨ci_weaken _ hc, hd⟩
  unfold clientIo
  cases hf : findClient s h with
  | none => exact ⟨_, rfl, same⟩
  | some c =>
    dsimp only
    have hch := (findClient_some hf).2
    split
    · rename_i hcond
      have hw : c.wr = none := by
        have : c.wr.isNone = true := by
          simp only [Bool.and_eq_true] at hcond; exact hcond.2
        simpa using this
      have hri : RI c := by
        rcases hc h c hf with r | ⟨e, _⟩
        · exact r
        · cases e
      obtain ⟨c', inq', ok, b, er, hh', hri'⟩ := handleRead_ok cfg hcfg.rd s.now c (getSock s h).inq (getSock s h).shut hw hri
      rw [er]
      dsimp only
      have hcio : CIo h (setSock (modClient s h (fun _ => c')) h (fun k => { k with inq := inq' })) :=
        cio_modClient h _ (fun _ _ => hh'.trans hch) (hc.toCIo h (Or.inl rfl))
      split
      · rename_i hok
        have c1 : CI none (setSock (modClient s h (fun _ => c')) h (fun k => { k with inq := inq' })) :=
          ci_modClient_ri h _ (fun _ _ => hh'.trans hch) (fun _ => hri' hok) hc
        split
        · obtain ⟨s', es, cs, ds⟩ := onMessage_ok cfg hcfg _ h { type := be32 c'.buf 4, len := c'.readLen, body := c'.buf.drop hdr } c'.endianSwap c1 hd
          rw [es]
          exact ⟨_, rfl, cs, ds⟩
        · exact ⟨_, rfl, ci_weaken _ c1, hd⟩
      · exact ⟨_, rfl, ci_closeClient h hcio, di_closeClient h hd⟩
    · split
      · split
        · exact ⟨_, rfl, ci_closeClient h (hc.toCIo h (Or.inl rfl)), di_closeClient h hd⟩
        · split
          · refine ⟨_, rfl, ?_⟩
            dsimp only
            exact ⟨ci_weaken _ (Fr.ci (by fr) hc), Fr.di (by fr) hd⟩
          · exact ⟨_, rfl, same⟩
      · exact ⟨_, rfl, same⟩

theorem clientIdle_ok (cfg : Cfg) (hcfg : cfg.Repaired) (s : State cfg.g) (h : Nat) (b : Bool)
    (hc : CI (some h) s) (hd : DI s) : ∃ s', clientIdle cfg s h b = .ok s' ∧ CI (some h) s' ∧ DI s' := by
  have ofFr : ∀ {s' : State cfg.g}, Fr s s' → CI (some h) s' ∧ DI s' := fun f => ⟨f.ci hc, f.di hd⟩
  have closed : CI (some h) (closeClient s h) ∧ DI (closeClient s h) :=
    ⟨ci_closeClient h (hc.toCIo h (Or.inr rfl)), di_closeClient h hd⟩
  unfold clientIdle
  cases hf : findClient s h with
  | none => exact ⟨_, rfl, hc, hd⟩
  | some c =>
    dsimp only
    split
    · exact ⟨_, rfl, closed⟩
    · unfold isIdle
      simp only [hcfg.idle, Bool.not_true, Bool.false_and, Bool.false_eq_true, if_false]
      split
      · rename_i hx; cases hx
      · exact ⟨_, rfl, hc, hd⟩
      · split
        · exact ⟨_, rfl, ofFr (by fr)⟩
        · split
          · exact ⟨_, rfl, ofFr (by fr)⟩
          · split
            · exact ⟨_, rfl, ofFr (by fr)⟩
            · split
              · split
                · exact ⟨_, rfl, closed⟩
                · refine ⟨_, rfl, ofFr ?_⟩
                  apply fr_modClient _ _ (by intro c; rfl)
                  apply fr_foldl
                  · intro s' f hs'; exact fr_deliver _ _ hs'
                  · exact Fr.refl s
              · exact ⟨_, rfl, hc, hd⟩

theorem clientTimeout_ok (cfg : Cfg) (hcfg : cfg.Repaired) (s : State cfg.g) (h : Nat)
    (hc : CI (some h) s) (hd : DI s) : ∃ s', clientTimeout cfg s h = .ok s' ∧ CI (some h) s' ∧ DI s' := by
  have closed : CI (some h) (closeClient s h) ∧ DI (closeClient s h) :=
    ⟨ci_closeClient h (hc.toCIo h (Or.inr rfl)), di_closeClient h hd⟩
  unfold clientTimeout
  cases hf : findClient s h with
  | none => exact ⟨_, rfl, hc, hd⟩
  | some c =>
    dsimp only
    split
    · exact ⟨_, rfl, closed⟩
    · split
      · unfold isIdle
        simp only [hcfg.idle, Bool.not_true, Bool.false_and, Bool.false_eq_true, if_false]
        split
        · exact ⟨_, rfl, closed⟩
        · split
          · exact ⟨_, rfl, closed⟩
          · exact ⟨_, rfl, hc, hd⟩
      · split
        · exact ⟨_, rfl, closed⟩
        · exact ⟨_, rfl, hc, hd⟩

theorem find_filter_ne (l : List Client) (h h' : Nat) :
    (l.filter (·.h != h)).find? (·.h == h') = if h' = h then none else l.find? (·.h == h') := by
  induction l with
  | nil => simp
  | cons a l ih =>
    simp only [List.filter_cons, List.find?_cons]
    by_cases e : a.h = h
    · simp only [e, bne_self_eq_false, Bool.false_eq_true, if_false, ih]
      by_cases e2 : h' = h
      · simp [e2]
      · have : (h == h') = false := by simp; exact fun x => e2 x.symm
        simp [e2, this]
    · have : (a.h != h) = true := by simp [e]
      simp only [this, if_true, List.find?_cons, ih]
      by_cases e2 : h' = h
      · subst e2
        have : (a.h == h') = false := by simp [e]
        simp [this]
      · simp [e2]

theorem ci_unlink {s : State g} (h : Nat) (hc : CI (some h) s) : CI none (unlink s h) := by
  intro h' c hf
  have : findClient (unlink s h) h' = if h' = h then none else findClient s h' := by
    unfold findClient unlink coreOp
    exact find_filter_ne _ _ _
  rw [this] at hf
  split at hf
  · cases hf
  · rename_i hne
    rcases hc h' c hf with r | ⟨e, _⟩
    · exact Or.inl r
    · cases e; exact absurd rfl hne

theorem clientReap_ok (cfg : Cfg) (hcfg : cfg.Repaired) (s : State cfg.g) (h : Nat)
    (hc : CI (some h) s) (hd : DI s) : ∃ s', clientReap cfg s h = .ok s' ∧ CI none s' ∧ DI s' := by
  unfold clientReap
  cases hf : findClient s h with
  | none =>
    refine ⟨_, rfl, ?_, hd⟩
    intro h' c hf'
    rcases hc h' c hf' with r | ⟨e, _⟩
    · exact Or.inl r
    · cases e; rw [hf] at hf'; cases hf'
  | some c =>
    dsimp only
    split
    · have cu : CI none (unlink s h) := ci_unlink h hc
      have du : DI (unlink s h) := hd
      generalize hsa : (if c.allSv != 0 then (updateServices (unlink s h) c.dev none 0).1 else unlink s h) = sa
      have fa : Fr (unlink s h) sa := by
        rw [← hsa]; split
        · exact fr_updateServices _ _ _ _
        · exact Fr.refl _
      split
      · obtain ⟨r, er, fr⟩ := channelUpdate_ok cfg hcfg.ret hcfg.fl sa c.dev none false
        rw [er]
        exact ⟨_, rfl, (fa.trans fr).ci cu, (fa.trans fr).di du⟩
      · exact ⟨_, rfl, fa.ci cu, fa.di du⟩
    · rename_i hst
      refine ⟨_, rfl, ?_, hd⟩
      intro h' c' hf'
      rcases hc h' c' hf' with r | ⟨e, e2⟩
      · exact Or.inl r
      · cases e
        rw [hf] at hf'; cases hf'
        simp [e2] at hst

theorem handleClient_ok (cfg : Cfg) (hcfg : cfg.Repaired) (s : State cfg.g) (h : Nat) (sel : Option Sel) (ready : Bool)
    (hc : CI none s) (hd : DI s) : ∃ s', handleClient cfg s h sel ready = .ok s' ∧ CI none s' ∧ DI s' := by
  unfold handleClient
  obtain ⟨r1, e1, c1, d1⟩ := clientIo_ok cfg hcfg s h sel ready hc hd
  obtain ⟨s1, b⟩ := r1
  obtain ⟨s2, e2, c2, d2⟩ := clientIdle_ok cfg hcfg s1 h b c1 d1
  obtain ⟨s3, e3, c3, d3⟩ := clientTimeout_ok cfg hcfg s2 h c2 d2
  obtain ⟨s4, e4, c4, d4⟩ := clientReap_ok cfg hcfg s3 h c3 d3
  refine ⟨s4, ?_, c4, d4⟩
  simp only [e1, bind, Except.bind, e2, e3, e4]

/-! ### the main loop -/

theorem forwardData_ok (s : State g) (d : Nat) (hcap : (getDev s d).cap = true) (hd : DI s) :
    ∃ s', forwardData s d = .ok s' ∧ Fr s s' := by
  unfold forwardData
  dsimp only
  cases hq : (getDev s d).fq with
  | nil => exact ⟨_, rfl, Fr.refl s⟩
  | cons f rest =>
    dsimp only
    have hok := hd d
    have h1 : f.ids.length ≤ 31 := hok.fq f (by rw [hq]; exact List.mem_cons_self ..)
    have h2 := hok.ml hcap
    have : ¬ f.ids.length > (getDev s d).maxLines := by omega
    simp only [this, if_false]
    refine ⟨_, rfl, ?_⟩
    apply fr_modDevClients _ _ (by intro c; split <;> rfl)
    refine fr_setDev _ _ ?_ (Fr.refl s)
    intro x hx
    exact ⟨fun f' hf' => hok.fq f' (by rw [hq]; exact List.mem_cons_of_mem _ hf'), hx.ml⟩

end Zvbi.Proxy
