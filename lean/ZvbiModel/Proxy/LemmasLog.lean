import ZvbiModel.Proxy.Spec
import ZvbiModel.Proxy.Lemmas
/-!
# The log <-> holder invariant of the token machine (for `grant_only_after_return`)

`HolderRec c`: whoever holds device `d` according to the log has a record of device `d` in GRANTED, RECLAIM or RELEASE.
Together with exclusivity (`Inv`) this forces every grant event to happen while the log shows no other holder.
-/
namespace Zvbi.Proxy.Core
open Zvbi.Proxy

/-- the token states in which a client that was sent a grant message still holds the token -/
def Holding (t : Tok) : Prop := t = .granted ∨ t = .reclaim ∨ t = .release

theorem Holding.ne_none {t : Tok} (h : Holding t) : t ≠ .none := by
  rcases h with h | h | h <;> rw [h] <;> decide

def HolderRec (c : CState) : Prop :=
  ∀ d a, holdOf c.log d = some a → ∃ r ∈ c.recs, r.h = a ∧ r.dev = d ∧ Holding r.tok

theorem holdOf_append (l : List Event) (e : Event) : holdOf (l ++ [e]) = holderStep (holdOf l) e := by
  simp [holdOf, List.foldl_append]

theorem grantsOrdered_append (hold : Nat → Option Nat) (l : List Event) (e : Event) :
    grantsOrdered hold (l ++ [e]) = (grantsOrdered hold l && grantOk (l.foldl holderStep hold) e) := by
  induction l generalizing hold with
  | nil => simp [grantsOrdered]
  | cons a l ih => simp [grantsOrdered, ih, Bool.and_assoc]

/-- a non-grant event only removes holders: a holder afterwards was one before and is not freed by the event -/
theorem holderStep_free {hold : Nat → Option Nat} {e : Event} (hng : ∀ x d, e ≠ .granted x d) {x a : Nat}
    (h : holderStep hold e x = some a) : hold x = some a ∧ e.frees a = false := by
  cases e with
  | granted y d => exact absurd rfl (hng y d)
  | returned y d | reclaimCnf y d | tokenReq y d | gone y d =>
    simp only [holderStep] at h
    split at h
    · rename_i b hb
      split at h
      · cases h
      · rename_i hf
        cases h
        exact ⟨hb, by simpa using hf⟩
    · cases h

theorem grantOk_free {hold : Nat → Option Nat} {e : Event} (hng : ∀ x d, e ≠ .granted x d) : grantOk hold e = true := by
  cases e with
  | granted y d => exact absurd rfl (hng y d)
  | _ => rfl

/-! ### membership in record-wise updates -/

theorem mem_map_of_ne {l : List Rec} {f : Rec → Rec} {h : Nat} {r : Rec} (hr : r ∈ l) (hne : r.h ≠ h) :
    r ∈ l.map (fun x => if x.h == h then f x else x) := by
  simp only [List.mem_map]
  exact ⟨r, hr, by simp [hne]⟩

theorem mem_map_of_eq {l : List Rec} {f : Rec → Rec} {h : Nat} {r : Rec} (hr : r ∈ l) (he : r.h = h) :
    f r ∈ l.map (fun x => if x.h == h then f x else x) := by
  simp only [List.mem_map]
  exact ⟨r, hr, by simp [he]⟩

/-- records of other handles survive, the holder records of `h` are replaced by holder records of the same device: the
    log is unchanged -/
theorem holderRec_nolog {c c' : CState} {h : Nat} (hlog : c'.log = c.log)
    (hkeep : ∀ r ∈ c.recs, r.h ≠ h → r ∈ c'.recs)
    (hh : ∀ r ∈ c.recs, r.h = h → Holding r.tok → ∃ r' ∈ c'.recs, r'.h = h ∧ r'.dev = r.dev ∧ Holding r'.tok)
    (hr : HolderRec c) : HolderRec c' := by
  intro d a ha
  rw [hlog] at ha
  obtain ⟨r, m, e1, e2, e3⟩ := hr d a ha
  by_cases e : r.h = h
  · obtain ⟨r', m', f1, f2, f3⟩ := hh r m e e3
    exact ⟨r', m', by rw [f1, ← e, e1], by rw [f2, e2], f3⟩
  · exact ⟨r, hkeep r m e, e1, e2, e3⟩

/-- an event that frees exactly `h` is appended; records of other handles survive -/
theorem holderRec_free {c c' : CState} {e : Event} {h : Nat} (hlog : c'.log = c.log ++ [e])
    (hng : ∀ x d, e ≠ .granted x d) (hfr : ∀ a, e.frees a = false → a ≠ h)
    (hkeep : ∀ r ∈ c.recs, r.h ≠ h → r ∈ c'.recs) (hr : HolderRec c) : HolderRec c' := by
  intro d a ha
  rw [hlog, holdOf_append] at ha
  obtain ⟨h1, h2⟩ := holderStep_free hng ha
  obtain ⟨r, m, e1, e2, e3⟩ := hr d a h1
  exact ⟨r, hkeep r m (by rw [e1]; exact hfr a h2), e1, e2, e3⟩

theorem ordered_free {c c' : CState} {e : Event} (hlog : c'.log = c.log ++ [e]) (hng : ∀ x d, e ≠ .granted x d)
    (ho : grantsOrdered (fun _ => none) c.log = true) : grantsOrdered (fun _ => none) c'.log = true := by
  rw [hlog, grantsOrdered_append, ho, grantOk_free hng]; rfl

/-- `setTok` on the record `r`: fine when the new state is a holder state whenever the old one was -/
theorem holderRec_setTok {c : CState} (hu : Uniq c) {r : Rec} (m : r ∈ c.recs) (t : Tok) (hk : Holding r.tok → Holding t)
    (hr : HolderRec c) : HolderRec (setTok c r.h t) := by
  refine holderRec_nolog (c := c) (h := r.h) (by rfl) ?_ ?_ hr
  · intro x hx hne
    exact mem_map_of_ne hx hne
  · intro x hx he hold
    have : x = r := uniq_eq hu hx m he
    subst this
    exact ⟨_, mem_map_of_eq (f := fun y => { y with tok := t }) hx rfl, rfl, rfl, hk hold⟩

/-! ### the invariant -/

structure LogInv (c : CState) : Prop where
  inv : Inv c
  ordered : grantsOrdered (fun _ => none) c.log = true
  holder : HolderRec c

theorem logInv_init : LogInv {} :=
  ⟨inv_init, rfl, by intro d a h; simp [holdOf] at h⟩

theorem holderRec_grant (g : Guards) (hrel : g.rel = true) {c : CState} (hi : Inv c) {r : Rec} (hr : r ∈ c.recs)
    (hh : HolderRec c) : HolderRec (grant g c r) := by
  unfold grant
  split
  · rename_i htok
    split
    · exact holderRec_setTok hi.uniq hr _ (by intro h; exact absurd htok h.ne_none) hh
    · rename_i o ho
      have mo : o ∈ owners c r.dev := by rw [ho]; simp
      obtain ⟨mo1, _, mo3⟩ := owners_mem.mp mo
      split
      · rename_i hgt
        have h1 : HolderRec (setTok c o.h .none) := by
          refine holderRec_setTok hi.uniq mo1 _ ?_ hh
          intro hold
          rcases hold with e | e | e <;> simp [e] at hgt
        have hne : r.h ≠ o.h := by
          intro e
          have := uniq_eq hi.uniq hr mo1 e
          rw [this] at htok; exact mo3 htok
        have hr1 : r ∈ (setTok c o.h .none).recs := mem_setTok_of_ne hr hne
        exact holderRec_setTok (uniq_setTok _ _ hi.uniq) hr1 _ (by intro h; exact absurd htok h.ne_none) h1
      · split
        · exact holderRec_setTok hi.uniq mo1 _ (fun _ => Or.inr (Or.inl rfl)) hh
        · exact hh
    · exact hh
  · exact holderRec_setTok hi.uniq hr _ (fun _ => Or.inl rfl) hh
  · simp only [hrel, if_true]; exact hh
  · exact hh

/-- every operation of the daemon keeps the log <-> holder invariant (both repairs present) -/
theorem logInv_apply (g : Guards) (hret : g.ret = true) (hrel : g.rel = true) {c : CState} (hi : LogInv c) (op : COp) :
    LogInv (apply g c op) := by
  refine ⟨inv_apply g hret hi.inv op, ?_, ?_⟩
  · -- ordered
    cases op with
    | add h d => simp only [apply]; split <;> exact hi.ordered
    | remove h =>
      simp only [apply]; split
      · exact ordered_free (e := .gone h _) rfl (by intro x d; simp) hi.ordered
      · exact hi.ordered
    | grant h =>
      simp only [apply]; split
      · split
        · rename_i r _ _
          have : (grant g c r).log = c.log := by
            unfold grant
            repeat' split
            all_goals rfl
          rw [this]; exact hi.ordered
        · exact hi.ordered
      · exact hi.ordered
    | stopped h =>
      simp only [apply]; split
      · split
        · exact hi.ordered
        · split <;> exact hi.ordered
      · exact hi.ordered
    | tokenReq h prio valid =>
      simp only [apply]; split
      · exact ordered_free (e := .tokenReq h _) rfl (by intro x d; simp) hi.ordered
      · exact hi.ordered
    | release h =>
      simp only [apply]; split
      · split
        · exact ordered_free (e := .returned h _) rfl (by intro x d; simp) hi.ordered
        · exact hi.ordered
      · exact hi.ordered
    | ret h =>
      simp only [apply]; split
      · split
        · exact hi.ordered
        · exact ordered_free (e := .returned h _) rfl (by intro x d; simp) hi.ordered
      · exact hi.ordered
    | reclaimCnf h =>
      simp only [apply]; split
      · split
        · exact ordered_free (e := .reclaimCnf h _) rfl (by intro x d; simp) hi.ordered
        · exact hi.ordered
      · exact hi.ordered
    | sendReclaim h =>
      simp only [apply]; split
      · split <;> exact hi.ordered
      · exact hi.ordered
    | sendGrant h =>
      simp only [apply]; split
      · rename_i r hf
        obtain ⟨hr, hh⟩ := find_some hf
        split
        · rename_i ht
          have ht' : r.tok = .grant := by simpa using ht
          show grantsOrdered (fun _ => none) (c.log ++ [Event.granted h r.dev]) = true
          rw [grantsOrdered_append, hi.ordered]
          simp only [Bool.true_and, grantOk]
          show (match holdOf c.log r.dev with | none => true | some a => a == h) = true
          split
          · rfl
          · rename_i a ha
            obtain ⟨ra, ma, e1, e2, e3⟩ := hi.holder r.dev a ha
            have := hi.inv.excl ra ma r hr e2 e3.ne_none (by rw [ht']; decide)
            simp [← e1, this, hh]
        · exact hi.ordered
      · exact hi.ordered
  · -- holder
    cases op with
    | add h d =>
      simp only [apply]; split
      · exact hi.holder
      · refine holderRec_nolog (c := c) (h := h) (by rfl) ?_ ?_ hi.holder
        · intro r m _; simp [m]
        · intro r m _ hold; exact ⟨r, by simp [m], ‹r.h = h›, rfl, hold⟩
    | remove h =>
      simp only [apply]; split
      · apply holderRec_free (h := h) (e := .gone h _) rfl (by intro x d; simp) _ _ hi.holder
        · intro a hf; simp [Event.frees] at hf; exact fun e => hf e.symm
        · intro r m hne; simp [addLog, List.mem_filter, m, hne]
      · exact hi.holder
    | grant h =>
      simp only [apply]; split
      · rename_i r hf
        split
        · exact holderRec_grant g hrel hi.inv (find_some hf).1 hi.holder
        · exact hi.holder
      · exact hi.holder
    | stopped h =>
      simp only [apply]; split
      · rename_i r hf
        obtain ⟨hr, hh⟩ := find_some hf
        split
        · rw [← hh]; exact holderRec_setTok hi.inv.uniq hr _ (fun _ => Or.inr (Or.inl rfl)) hi.holder
        · split
          · rename_i ht
            rw [← hh]
            refine holderRec_setTok hi.inv.uniq hr _ ?_ hi.holder
            intro hold
            rcases hold with e | e | e <;> simp [e] at ht
          · exact hi.holder
      · exact hi.holder
    | tokenReq h prio valid =>
      simp only [apply]; split
      · apply holderRec_free (h := h) (e := .tokenReq h _) rfl (by intro x d; simp) _ _ hi.holder
        · intro a hf; simp [Event.frees] at hf; exact fun e => hf e.symm
        · intro r m hne; exact mem_map_of_ne m hne
      · exact hi.holder
    | release h =>
      simp only [apply]; split
      · rename_i r hf
        obtain ⟨hr, hh⟩ := find_some hf
        split
        · apply holderRec_free (h := h) (e := .returned h _) rfl (by intro x d; simp) _ _ hi.holder
          · intro a hf; simp [Event.frees] at hf; exact fun e => hf e.symm
          · intro x m hne; exact mem_map_of_ne m hne
        · rename_i ht
          refine holderRec_nolog (c := c) (h := h) (by rfl) ?_ ?_ hi.holder
          · intro x m hne; exact mem_map_of_ne m hne
          · intro x m he hold
            have : x = r := uniq_eq hi.inv.uniq m hr (he.trans hh.symm)
            subst this
            exact absurd (by simpa using ht) hold.ne_none
      · exact hi.holder
    | ret h =>
      simp only [apply]; split
      · split
        · exact hi.holder
        · apply holderRec_free (h := h) (e := .returned h _) rfl (by intro x d; simp) _ _ hi.holder
          · intro a hf; simp [Event.frees] at hf; exact fun e => hf e.symm
          · intro x m hne; exact mem_map_of_ne m hne
      · exact hi.holder
    | reclaimCnf h =>
      simp only [apply]; split
      · split
        · apply holderRec_free (h := h) (e := .reclaimCnf h _) rfl (by intro x d; simp) _ _ hi.holder
          · intro a hf; simp [Event.frees] at hf; exact fun e => hf e.symm
          · intro x m hne; exact mem_map_of_ne m hne
        · exact hi.holder
      · exact hi.holder
    | sendReclaim h =>
      simp only [apply]; split
      · rename_i r hf
        obtain ⟨hr, hh⟩ := find_some hf
        split
        · rw [← hh]; exact holderRec_setTok hi.inv.uniq hr _ (fun _ => Or.inr (Or.inr rfl)) hi.holder
        · exact hi.holder
      · exact hi.holder
    | sendGrant h =>
      simp only [apply]; split
      · rename_i r hf
        obtain ⟨hr, hh⟩ := find_some hf
        split
        · intro d a ha
          have hl : (addLog (setTok c h .granted) (.granted h r.dev)).log = c.log ++ [.granted h r.dev] := rfl
          rw [hl, holdOf_append] at ha
          simp only [holderStep] at ha
          split at ha
          · rename_i hd
            cases ha
            exact ⟨_, mem_map_of_eq (f := fun y => { y with tok := Tok.granted }) hr hh, hh, hd.symm, Or.inl rfl⟩
          · rename_i hd
            obtain ⟨ra, ma, e1, e2, e3⟩ := hi.holder d a ha
            have hne : ra.h ≠ h := by
              intro e
              have : ra = r := uniq_eq hi.inv.uniq ma hr (e.trans hh.symm)
              rw [this] at e2; exact hd e2.symm
            exact ⟨ra, mem_map_of_ne ma hne, e1, e2, e3⟩
        · exact hi.holder
      · exact hi.holder

theorem logInv_reachable (g : Guards) (hret : g.ret = true) (hrel : g.rel = true) {c : CState} (hr : Reachable g c) : LogInv c := by
  induction hr with
  | init => exact logInv_init
  | step op _ ih => exact logInv_apply g hret hrel ih op

/-! ### reading `grantsOrdered`: between two grants on a device the first grantee gave the token up -/

theorem grantsOrdered_append_list (hold : Nat → Option Nat) (l l' : List Event) :
    grantsOrdered hold (l ++ l') = (grantsOrdered hold l && grantsOrdered (l.foldl holderStep hold) l') := by
  induction l generalizing hold with
  | nil => simp [grantsOrdered]
  | cons a l ih => simp [grantsOrdered, ih, Bool.and_assoc]

/-- the holder of `d` stays while no event frees it and no grant on `d` happens -/
theorem hold_persist (l : List Event) (hold : Nat → Option Nat) (a d : Nat) (hf : ∀ e ∈ l, e.frees a = false)
    (hno : ∀ x, Event.granted x d ∉ l) (h0 : hold d = some a) : (l.foldl holderStep hold) d = some a := by
  induction l generalizing hold with
  | nil => exact h0
  | cons e l ih =>
    simp only [List.foldl_cons]
    apply ih _ (fun e' m => hf e' (List.mem_cons_of_mem _ m)) (fun x m => hno x (List.mem_cons_of_mem _ m))
    have hfe := hf e (List.mem_cons_self ..)
    cases e with
    | granted y d' =>
      simp only [holderStep]
      have : d ≠ d' := by
        intro e; apply hno y; rw [e]; exact List.mem_cons_self ..
      simp [this, h0]
    | returned y d' | reclaimCnf y d' | tokenReq y d' | gone y d' =>
      simp only [holderStep, h0, hfe]
      simp

/-- **the log reading of grant_only_after_return**: if the log contains a grant to `a` on device `d` and later a grant to
    another client `b` on `d`, with no grant on `d` in between, then in between there is an event that frees `a`:
    `a`'s return/release message, its reclaim confirmation, a new token request of `a`, or `a`'s disconnect -/
theorem grant_preceded_by_free (hold : Nat → Option Nat) (l1 l2 l3 : List Event) (a b d : Nat)
    (h : grantsOrdered hold (l1 ++ Event.granted a d :: (l2 ++ Event.granted b d :: l3)) = true) (hab : a ≠ b)
    (hno : ∀ x, Event.granted x d ∉ l2) : ∃ e ∈ l2, e.frees a = true := by
  apply Classical.byContradiction
  intro hcon
  have hf : ∀ e ∈ l2, e.frees a = false := by
    intro e m
    cases hfe : e.frees a with
    | false => rfl
    | true => exact absurd ⟨e, m, hfe⟩ hcon
  rw [grantsOrdered_append_list] at h
  simp only [grantsOrdered, Bool.and_eq_true] at h
  obtain ⟨_, _, h2⟩ := h
  rw [grantsOrdered_append_list] at h2
  simp only [grantsOrdered, Bool.and_eq_true] at h2
  obtain ⟨_, h3, _⟩ := h2
  have hp := hold_persist l2 (holderStep (List.foldl holderStep hold l1) (Event.granted a d)) a d hf hno (by simp [holderStep])
  simp only [grantOk, hp] at h3
  exact hab (by simpa using h3)

end Zvbi.Proxy.Core
