import ZvbiModel.Proxy.LemmasNF2
/-!
# Facts about the scheduler of the model (`codePick` = the loop of vbi_proxyd_channel_schedule, `timerUpdate`)
-/
namespace Zvbi.Proxy
open Zvbi.Gen.Proxy

variable {g : Core.Guards}

/-- whatever the pick function returns, `vbi_proxyd_channel_schedule` hands out only a client of the device that asked for
    channel control (valid profile at background priority): the loop only visits those -/
theorem schedule_only_candidates (cfg : Cfg) (s : State cfg.g) (d h : Nat) (hp : (channelSchedule cfg s d).2 = some h) :
    ∃ c ∈ s.clients, c.dev = d ∧ c.h = h ∧ (recOf s c.h).asked = true := by
  unfold channelSchedule at hp
  dsimp only at hp
  have key : (Option.filter (fun h => ((s.clients.filter (·.dev == d)).map (candOf s)).any (fun c => c.h == h && c.cand))
      (cfg.pick s.now ((s.clients.filter (·.dev == d)).map (candOf s)))) = some h := by
    split at hp
    · split at hp <;> exact hp
    · exact hp
  rw [Option.filter_eq_some_iff] at key
  obtain ⟨_, hany⟩ := key
  simp only [List.any_map, List.any_filter, List.any_eq_true, Function.comp, Bool.and_eq_true, beq_iff_eq] at hany
  obtain ⟨c, hc, hd, hh, hcand⟩ := hany
  exact ⟨c, hc, hd, hh, hcand⟩

/-- a state in which no client controls the channel disarms the scheduler's timer: `alarm (0)`.  In particular a client
    that was just granted the token (state GRANT; it becomes GRANTED only when the message is written) does not count -/
theorem timerUpdate_disarmed (s : State g) (hn : ∀ c ∈ s.clients, (tokOf s c.h).controls = false) :
    (timerUpdate s).alarmAt = none ∧ (timerUpdate s).lastAlarm = some 0 := by
  unfold timerUpdate
  have h0 : s.clients.foldl (fun (next : Int) c =>
      if (getDev s c.dev).prio == prioBACKGROUND && (tokOf s c.h).controls && !c.completed then
        let rest := c.minDur - (s.now - c.lastStart)
        if rest > 0 && (rest < next || next == 0) then rest else if rest < 0 then 1 else next
      else next) 0 = 0 := by
    suffices hs : ∀ (l : List Client), (∀ c ∈ l, (tokOf s c.h).controls = false) → l.foldl (fun (next : Int) c =>
        if (getDev s c.dev).prio == prioBACKGROUND && (tokOf s c.h).controls && !c.completed then
          let rest := c.minDur - (s.now - c.lastStart)
          if rest > 0 && (rest < next || next == 0) then rest else if rest < 0 then 1 else next
        else next) 0 = 0 from hs _ hn
    intro l
    induction l with
    | nil => intro _; rfl
    | cons a l ih =>
      intro hl
      rw [List.foldl_cons]
      have := hl a (List.mem_cons_self ..)
      simp only [this, Bool.and_false, Bool.false_and, Bool.false_eq_true, if_false]
      exact ih (fun c m => hl c (List.mem_cons_of_mem _ m))
  dsimp only
  rw [h0]
  exact ⟨rfl, rfl⟩

end Zvbi.Proxy
