import ZvbiModel.Proxy.Core
/-!
# Invariants of the token machine (`Core`), by induction over `Reachable`
-/
namespace Zvbi.Proxy.Core
open Zvbi.Proxy

/-- handles are unique -/
def Uniq (c : CState) : Prop := c.recs.Pairwise (fun a b => a.h ≠ b.h)

/-- at most one record per device has a token state -/
def Excl (c : CState) : Prop :=
  ∀ r1 ∈ c.recs, ∀ r2 ∈ c.recs, r1.dev = r2.dev → r1.tok ≠ .none → r2.tok ≠ .none → r1.h = r2.h

/-- every record with a token state asked for channel control -/
def AskedInv (c : CState) : Prop := ∀ r ∈ c.recs, r.tok ≠ .none → r.asked = true

theorem find_some {c : CState} {h : Nat} {r : Rec} (hf : find c h = some r) : r ∈ c.recs ∧ r.h = h := by
  unfold find at hf
  have h1 := List.mem_of_find?_eq_some hf
  have h2 := List.find?_some hf
  exact ⟨h1, by simpa using h2⟩

/-- a record-wise update that keeps handle and device -/
def mapRecs (c : CState) (f : Rec → Rec) : CState := { c with recs := c.recs.map f }

theorem uniq_map {c : CState} {f : Rec → Rec} (hf : ∀ r, (f r).h = r.h) (hu : Uniq c) : Uniq (mapRecs c f) := by
  unfold Uniq mapRecs at *
  simp only [List.pairwise_map]
  exact hu.imp (fun {a b} hab => by rw [hf a, hf b]; exact hab)

theorem setTok_eq (c : CState) (h : Nat) (t : Tok) :
    setTok c h t = mapRecs c (fun r => if r.h == h then { r with tok := t } else r) := rfl

theorem uniq_setTok {c : CState} (h : Nat) (t : Tok) (hu : Uniq c) : Uniq (setTok c h t) := by
  rw [setTok_eq]
  apply uniq_map _ hu
  intro r; split <;> rfl

theorem uniq_addLog {c : CState} (e : Event) (hu : Uniq c) : Uniq (addLog c e) := hu

theorem pairwise_h_eq {l : List Rec} (hu : l.Pairwise (fun a b => a.h ≠ b.h)) {r1 r2 : Rec} (h1 : r1 ∈ l) (h2 : r2 ∈ l)
    (hh : r1.h = r2.h) : r1 = r2 := by
  induction l with
  | nil => cases h1
  | cons a l ih =>
    rw [List.pairwise_cons] at hu
    rcases List.mem_cons.mp h1 with e1 | m1 <;> rcases List.mem_cons.mp h2 with e2 | m2
    · rw [e1, e2]
    · exact absurd (e1 ▸ hh) (hu.1 r2 m2)
    · exact absurd (e2 ▸ hh.symm) (hu.1 r1 m1)
    · exact ih hu.2 m1 m2

/-- in a `Uniq` state the record of a handle is unique -/
theorem uniq_eq {c : CState} (hu : Uniq c) {r1 r2 : Rec} (h1 : r1 ∈ c.recs) (h2 : r2 ∈ c.recs) (hh : r1.h = r2.h) : r1 = r2 :=
  pairwise_h_eq hu h1 h2 hh

/-! ### membership in updated states -/

theorem mem_map_tok {c : CState} {f : Rec → Rec} {r' : Rec} (hm : r' ∈ (mapRecs c f).recs) : ∃ r ∈ c.recs, r' = f r := by
  unfold mapRecs at hm
  simp only [List.mem_map] at hm
  obtain ⟨r, hr, e⟩ := hm
  exact ⟨r, hr, e.symm⟩

/-- the general preservation lemma: a record-wise update where a record may GAIN a token state only if it is the single
    record `h0` and no other record of its device keeps one -/
theorem excl_map {c : CState} {f : Rec → Rec}
    (hh : ∀ r, (f r).h = r.h) (hd : ∀ r, (f r).dev = r.dev)
    (hx : Excl c)
    (hgain : ∀ r1 ∈ c.recs, ∀ r2 ∈ c.recs, r1.dev = r2.dev → (f r1).tok ≠ .none → (f r2).tok ≠ .none →
              (r1.tok ≠ .none ∧ r2.tok ≠ .none) ∨ r1.h = r2.h) :
    Excl (mapRecs c f) := by
  intro a ha b hb hdev hta htb
  obtain ⟨r1, m1, e1⟩ := mem_map_tok ha
  obtain ⟨r2, m2, e2⟩ := mem_map_tok hb
  subst e1; subst e2
  rw [hh, hh]
  rw [hd, hd] at hdev
  rcases hgain r1 m1 r2 m2 hdev hta htb with ⟨n1, n2⟩ | e
  · exact hx r1 m1 r2 m2 hdev n1 n2
  · exact e

theorem owners_mem {c : CState} {d : Nat} {r : Rec} : r ∈ owners c d ↔ r ∈ c.recs ∧ r.dev = d ∧ r.tok ≠ .none := by
  unfold owners
  simp [List.mem_filter]

/-- `token_exclusive` for the token machine: the list `vbi_proxyd_get_token_owner` walks has at most one entry -/
theorem owners_le_one {c : CState} (hu : Uniq c) (hx : Excl c) (d : Nat) : (owners c d).length ≤ 1 := by
  have hsub : (owners c d).Pairwise (fun a b => a.h ≠ b.h) := by
    unfold owners; exact List.Pairwise.filter _ hu
  match ho : owners c d with
  | [] => simp
  | [_] => simp
  | a :: b :: rest =>
    exfalso
    rw [ho] at hsub
    have hab : a.h ≠ b.h := (List.pairwise_cons.mp hsub).1 b (by simp)
    have ma : a ∈ owners c d := by rw [ho]; simp
    have mb : b ∈ owners c d := by rw [ho]; simp
    obtain ⟨ma1, ma2, ma3⟩ := owners_mem.mp ma
    obtain ⟨mb1, mb2, mb3⟩ := owners_mem.mp mb
    exact hab (hx a ma1 b mb1 (by rw [ma2, mb2]) ma3 mb3)

/-! ### the three invariants together -/

structure Inv (c : CState) : Prop where
  uniq : Uniq c
  excl : Excl c
  asked : AskedInv c

theorem inv_init : Inv {} := ⟨List.Pairwise.nil, (fun _ h => by cases h), (fun _ h => by cases h)⟩

/-- setting the token state of `h` to a non-NONE value `t` keeps the invariants when `h` already had a token state -/
theorem inv_setTok_keep {c : CState} (hi : Inv c) {r : Rec} (hr : r ∈ c.recs) (ht : r.tok ≠ .none) (t : Tok) :
    Inv (setTok c r.h t) := by
  refine ⟨uniq_setTok _ _ hi.uniq, ?_, ?_⟩
  · rw [setTok_eq]
    apply excl_map (by intro x; split <;> rfl) (by intro x; split <;> rfl) hi.excl
    intro r1 m1 r2 m2 _ h1 h2
    by_cases e1 : r1.h = r.h
    · by_cases e2 : r2.h = r.h
      · right; rw [e1, e2]
      · left
        have : r1 = r := uniq_eq hi.uniq m1 hr e1
        refine ⟨by rw [this]; exact ht, ?_⟩
        simpa [e2] using h2
    · by_cases e2 : r2.h = r.h
      · left
        have : r2 = r := uniq_eq hi.uniq m2 hr e2
        refine ⟨by simpa [e1] using h1, by rw [this]; exact ht⟩
      · left; exact ⟨by simpa [e1] using h1, by simpa [e2] using h2⟩
  · intro x hx hxt
    rw [setTok_eq] at hx
    obtain ⟨y, my, ey⟩ := mem_map_tok hx
    subst ey
    by_cases e : y.h = r.h
    · have : y = r := uniq_eq hi.uniq my hr e
      subst this
      simp only [e, beq_self_eq_true, if_true]
      exact hi.asked y my ht
    · simp only [beq_iff_eq, e, if_false] at hxt ⊢
      exact hi.asked y my hxt

/-- setting the token state of any record to NONE keeps the invariants -/
theorem inv_setTok_none {c : CState} (hi : Inv c) (h : Nat) : Inv (setTok c h .none) := by
  refine ⟨uniq_setTok _ _ hi.uniq, ?_, ?_⟩
  · rw [setTok_eq]
    apply excl_map (by intro x; split <;> rfl) (by intro x; split <;> rfl) hi.excl
    intro r1 _ r2 _ _ h1 h2
    left
    constructor
    · by_cases e : r1.h = h <;> simp_all
    · by_cases e : r2.h = h <;> simp_all
  · intro x hx hxt
    rw [setTok_eq] at hx
    obtain ⟨y, my, ey⟩ := mem_map_tok hx
    subst ey
    by_cases e : y.h = h
    · simp [e] at hxt
    · simp only [beq_iff_eq, e, if_false] at hxt ⊢
      exact hi.asked y my hxt

/-- a record of a device without any owner may take a token state, if it asked -/
theorem inv_setTok_free {c : CState} (hi : Inv c) {r : Rec} (hr : r ∈ c.recs) (ha : r.asked = true)
    (hfree : ∀ x ∈ c.recs, x.dev = r.dev → x.tok ≠ .none → x.h = r.h) (t : Tok) : Inv (setTok c r.h t) := by
  refine ⟨uniq_setTok _ _ hi.uniq, ?_, ?_⟩
  · rw [setTok_eq]
    apply excl_map (by intro x; split <;> rfl) (by intro x; split <;> rfl) hi.excl
    intro r1 m1 r2 m2 hdev h1 h2
    by_cases e1 : r1.h = r.h
    · by_cases e2 : r2.h = r.h
      · right; rw [e1, e2]
      · right
        have h2' : r2.tok ≠ .none := by simpa [e2] using h2
        have := uniq_eq hi.uniq m1 hr e1
        rw [e1]; exact (hfree r2 m2 (by rw [← hdev, this]) h2').symm
    · by_cases e2 : r2.h = r.h
      · right
        have h1' : r1.tok ≠ .none := by simpa [e1] using h1
        have := uniq_eq hi.uniq m2 hr e2
        rw [e2]; exact hfree r1 m1 (by rw [hdev, this]) h1'
      · left; exact ⟨by simpa [e1] using h1, by simpa [e2] using h2⟩
  · intro x hx hxt
    rw [setTok_eq] at hx
    obtain ⟨y, my, ey⟩ := mem_map_tok hx
    subst ey
    by_cases e : y.h = r.h
    · have : y = r := uniq_eq hi.uniq my hr e
      subst this
      simp only [e, beq_self_eq_true, if_true]
      exact ha
    · simp only [beq_iff_eq, e, if_false] at hxt ⊢
      exact hi.asked y my hxt

theorem mem_setTok_of_ne {c : CState} {h : Nat} {t : Tok} {x : Rec} (hx : x ∈ c.recs) (hne : x.h ≠ h) : x ∈ (setTok c h t).recs := by
  rw [setTok_eq]; unfold mapRecs
  simp only [List.mem_map]
  exact ⟨x, hx, by simp [hne]⟩

theorem inv_grant (g : Guards) {c : CState} (hi : Inv c) {r : Rec} (hr : r ∈ c.recs) (ha : r.asked = true) : Inv (grant g c r) := by
  unfold grant
  split
  · -- token NONE: look at the owners of the device
    rename_i htok
    split
    · rename_i ho
      apply inv_setTok_free hi hr ha
      intro x hx hd ht
      have : x ∈ owners c r.dev := owners_mem.mpr ⟨hx, hd, ht⟩
      rw [ho] at this; cases this
    · rename_i o ho
      have mo : o ∈ owners c r.dev := by rw [ho]; simp
      obtain ⟨mo1, mo2, mo3⟩ := owners_mem.mp mo
      have only : ∀ x ∈ c.recs, x.dev = r.dev → x.tok ≠ .none → x = o := by
        intro x hx hd ht
        have : x ∈ owners c r.dev := owners_mem.mpr ⟨hx, hd, ht⟩
        rw [ho] at this; simpa using this
      split
      · -- the owner gives the token up at once
        have hi1 := inv_setTok_none hi o.h
        have hne : r.h ≠ o.h := by
          intro e
          have := uniq_eq hi.uniq hr mo1 e
          rw [this] at htok; exact mo3 htok
        have hr1 : r ∈ (setTok c o.h .none).recs := mem_setTok_of_ne hr hne
        apply inv_setTok_free hi1 hr1 ha
        intro x hx hd ht
        rw [setTok_eq] at hx
        obtain ⟨y, my, ey⟩ := mem_map_tok hx
        subst ey
        by_cases e : y.h = o.h
        · simp [e] at ht
        · simp only [beq_iff_eq, e, if_false] at ht hd ⊢
          have := only y my hd ht
          exact absurd (by rw [this]) e
      · split
        · exact inv_setTok_keep hi mo1 mo3 _
        · exact hi
    · exact hi
  · rename_i htok
    exact inv_setTok_keep hi hr (by rw [htok]; decide) _
  · rename_i htok
    split
    · exact hi
    · exact inv_setTok_keep hi hr (by rw [htok]; decide) _
  · exact hi

theorem uniq_filter {c : CState} (p : Rec → Bool) (hu : Uniq c) : Uniq { c with recs := c.recs.filter p } :=
  List.Pairwise.filter _ hu

/-- every operation keeps the invariants, provided a token can only be "returned" by a client that has a token state -/
theorem inv_apply (g : Guards) (hg : g.ret = true) {c : CState} (hi : Inv c) (op : COp) : Inv (apply g c op) := by
  cases op with
  | add h d =>
    simp only [apply]
    split
    · exact hi
    · rename_i hn
      have hnone : ∀ x ∈ c.recs, x.h ≠ h := by
        intro x hx e
        have : (find c h).isSome = true := by
          unfold find
          rw [List.find?_isSome]
          exact ⟨x, hx, by simpa using e⟩
        exact hn this
      refine ⟨?_, ?_, ?_⟩
      · unfold Uniq
        rw [List.pairwise_append]
        refine ⟨hi.uniq, List.pairwise_singleton _ _, ?_⟩
        intro a ha b hb
        rw [List.mem_singleton] at hb; subst hb; exact hnone a ha
      · intro r1 m1 r2 m2 hd h1 h2
        simp only [List.mem_append, List.mem_singleton] at m1 m2
        rcases m1 with m1 | m1 <;> rcases m2 with m2 | m2
        · exact hi.excl r1 m1 r2 m2 hd h1 h2
        · subst m2; exact absurd rfl h2
        · subst m1; exact absurd rfl h1
        · subst m1; subst m2; rfl
      · intro x hx ht
        simp only [List.mem_append, List.mem_singleton] at hx
        rcases hx with hx | hx
        · exact hi.asked x hx ht
        · subst hx; exact absurd rfl ht
  | remove h =>
    simp only [apply]
    split
    · refine ⟨uniq_filter _ hi.uniq, ?_, ?_⟩
      · intro r1 m1 r2 m2 hd h1 h2
        simp only [addLog, List.mem_filter] at m1 m2
        exact hi.excl r1 m1.1 r2 m2.1 hd h1 h2
      · intro x hx ht
        simp only [addLog, List.mem_filter] at hx
        exact hi.asked x hx.1 ht
    · exact hi
  | grant h =>
    simp only [apply]
    split
    · rename_i r hf
      split
      · rename_i ha
        exact inv_grant g hi (find_some hf).1 ha
      · exact hi
    · exact hi
  | stopped h =>
    simp only [apply]
    split
    · rename_i r hf
      obtain ⟨hr, hh⟩ := find_some hf
      split
      · rename_i ht
        rw [← hh]; exact inv_setTok_keep hi hr (by rw [show r.tok = Tok.granted by simpa using ht]; decide) _
      · split
        · exact inv_setTok_none hi h
        · exact hi
    · exact hi
  | tokenReq h prio valid =>
    simp only [apply]
    split
    · refine ⟨?_, ?_, ?_⟩
      · exact uniq_map (c := c) (f := fun x => if x.h == h then { x with tok := .none, prio := prio, valid := valid } else x)
          (by intro x; split <;> rfl) hi.uniq
      · apply excl_map (c := c) (f := fun x => if x.h == h then { x with tok := .none, prio := prio, valid := valid } else x)
          (by intro x; split <;> rfl) (by intro x; split <;> rfl) hi.excl
        intro r1 _ r2 _ _ h1 h2
        left
        constructor
        · by_cases e : r1.h = h <;> simp_all
        · by_cases e : r2.h = h <;> simp_all
      · intro x hx ht
        simp only [addLog, List.mem_map] at hx
        obtain ⟨y, my, ey⟩ := hx
        subst ey
        by_cases e : y.h = h
        · simp [e] at ht
        · simp only [beq_iff_eq, e, if_false] at ht ⊢
          exact hi.asked y my ht
    · exact hi
  | release h =>
    simp only [apply]
    split
    · have key : Inv { c with recs := c.recs.map (fun x => if x.h == h then { x with tok := .none, valid := 0 } else x) } := by
        refine ⟨?_, ?_, ?_⟩
        · exact uniq_map (c := c) (f := fun x => if x.h == h then { x with tok := .none, valid := 0 } else x)
            (by intro x; split <;> rfl) hi.uniq
        · apply excl_map (c := c) (f := fun x => if x.h == h then { x with tok := .none, valid := 0 } else x)
            (by intro x; split <;> rfl) (by intro x; split <;> rfl) hi.excl
          intro r1 _ r2 _ _ h1 h2
          left
          constructor
          · by_cases e : r1.h = h <;> simp_all
          · by_cases e : r2.h = h <;> simp_all
        · intro x hx ht
          simp only [List.mem_map] at hx
          obtain ⟨y, my, ey⟩ := hx
          subst ey
          by_cases e : y.h = h
          · simp [e] at ht
          · simp only [beq_iff_eq, e, if_false] at ht ⊢
            exact hi.asked y my ht
      split
      · exact ⟨key.uniq, key.excl, key.asked⟩
      · exact key
    · exact hi
  | ret h =>
    simp only [apply]
    split
    · rename_i r hf
      obtain ⟨hr, hh⟩ := find_some hf
      split
      · exact hi
      · rename_i hc
        have ht : r.tok ≠ .none := by
          intro e; apply hc; simp [hg, e]
        have := inv_setTok_keep hi hr ht .returned
        rw [hh] at this
        exact ⟨this.uniq, this.excl, this.asked⟩
    · exact hi
  | reclaimCnf h =>
    simp only [apply]
    split
    · split
      · have := inv_setTok_none hi h
        exact ⟨this.uniq, this.excl, this.asked⟩
      · exact hi
    · exact hi
  | sendReclaim h =>
    simp only [apply]
    split
    · rename_i r hf
      obtain ⟨hr, hh⟩ := find_some hf
      split
      · rename_i ht
        rw [← hh]; exact inv_setTok_keep hi hr (by rw [show r.tok = Tok.reclaim by simpa using ht]; decide) _
      · exact hi
    · exact hi
  | sendGrant h =>
    simp only [apply]
    split
    · rename_i r hf
      obtain ⟨hr, hh⟩ := find_some hf
      split
      · rename_i ht
        have := inv_setTok_keep hi hr (by rw [show r.tok = Tok.grant by simpa using ht]; decide) .granted
        rw [hh] at this
        exact ⟨this.uniq, this.excl, this.asked⟩
      · exact hi
    · exact hi

theorem inv_reachable (g : Guards) (hg : g.ret = true) {c : CState} (hr : Reachable g c) : Inv c := by
  induction hr with
  | init => exact inv_init
  | step op _ ih => exact inv_apply g hg ih op

end Zvbi.Proxy.Core
