import ZvbiModel.Proxy.LemmasNF3
/-!
# no_fault, part 4: one iteration of the main loop, one op, a whole history
-/
namespace Zvbi.Proxy
open Zvbi.Gen.Proxy

variable {g : Core.Guards}

/-- the invariant of the daemon between two passes of the client loop -/
structure NF (s : State g) : Prop where
  ci : CI none s
  di : DI s

theorem nf_init : NF (init g) := by
  constructor
  · intro h c hf; simp [findClient, init] at hf
  · intro d
    unfold getDev init
    simp only [List.getD_eq_getElem?_getD]
    match d with
    | 0 => exact devOk_default
    | 1 => exact devOk_default
    | n + 2 => exact devOk_default

theorem fr_of_eq {s s' : State g} (hc : s'.clients = s.clients) (hd : s'.devs = s.devs) : Fr s s' := by
  constructor
  · intro h; unfold findClient; rw [hc]
  · intro d hok; unfold getDev; rw [hd]; exact hok

theorem NF.of_fr {s s' : State g} (h : Fr s s') (hn : NF s) : NF s' := ⟨h.ci hn.ci, h.di hn.di⟩

theorem foldlM_inv {α : Type} (P : State g → Prop) (f : State g → α → M (State g))
    (hf : ∀ s a, P s → ∃ s', f s a = .ok s' ∧ P s') (l : List α) (s : State g) (h : P s) :
    ∃ s', l.foldlM f s = .ok s' ∧ P s' := by
  induction l generalizing s with
  | nil => exact ⟨s, rfl, h⟩
  | cons a l ih =>
    obtain ⟨s1, e1, p1⟩ := hf s a h
    simp only [List.foldlM_cons, e1, bind, Except.bind]
    exact ih s1 p1

theorem mapM_ok {α β : Type} (f : α → M β) (hf : ∀ a, ∃ b, f a = .ok b) (l : List α) : ∃ bs, l.mapM f = .ok bs := by
  induction l with
  | nil => exact ⟨[], rfl⟩
  | cons a l ih =>
    obtain ⟨b, eb⟩ := hf a
    obtain ⟨bs, ebs⟩ := ih
    refine ⟨b :: bs, ?_⟩
    simp only [List.mapM_cons, eb, ebs, bind, Except.bind, pure, Except.pure]

theorem acceptAndCapture_ok (s : State g) (listen : Bool) (d : Nat) (hn : NF s) :
    ∃ s', acceptAndCapture s listen d = .ok s' ∧ NF s' := by
  unfold acceptAndCapture
  dsimp only
  generalize hsa : (if listen then
      match (s.socks.zipIdx.find? (fun p => p.1.dev == d && !p.1.accepted)) with
      | some (_, h) =>
        let s := setSock s h (fun k => { k with accepted := true })
        coreOp { s with clients := s.clients ++ [{ h := h, dev := d, lastIo := s.now }], clntCount := s.clntCount + 1 } (.add h d)
      | none => s
    else s) = sa
  have na : NF sa := by
    rw [← hsa]
    split
    · split
      · rename_i h _
        constructor
        · intro h' c hf
          change List.find? (fun x => x.h == h') (s.clients ++ [({ h := h, dev := d, lastIo := s.now } : Client)]) = some c at hf
          rw [List.find?_append] at hf
          cases hf0 : s.clients.find? (·.h == h') with
          | some c0 =>
            rw [hf0] at hf
            simp at hf
            rw [← hf]; exact hn.ci h' c0 hf0
          | none =>
            rw [hf0] at hf
            simp only [Option.none_or, List.find?_cons] at hf
            split at hf
            · cases hf
              left
              exact ⟨fun _ => rfl, fun hge => absurd hge (by show ¬ (hdr ≤ 0); decide)⟩
            · simp at hf
        · exact hn.di
      · exact hn
    · exact hn
  split
  · rename_i hcond
    have hcap : (getDev sa d).cap = true := by
      simp only [Bool.and_eq_true] at hcond; exact hcond.1
    obtain ⟨s', e, f⟩ := forwardData_ok sa d hcap na.di
    exact ⟨s', e, na.of_fr f⟩
  · exact ⟨_, rfl, na⟩

theorem iter_ok (cfg : Cfg) (hcfg : cfg.Repaired) (s : State cfg.g) (hn : NF s) : ∃ s', iter cfg s = .ok s' ∧ NF s' := by
  unfold iter
  have hm := mapM_ok (fun c => (fdSet cfg c).map (fun sel => (c.h, sel)))
    (by intro c
        unfold fdSet readIdle
        simp only [hcfg.idle, Bool.not_true, Bool.false_and, Bool.false_eq_true, if_false]
        exact ⟨_, rfl⟩) s.clients
  obtain ⟨sels, es⟩ := hm
  rw [es]
  dsimp only
  obtain ⟨s1, e1, n1⟩ := foldlM_inv NF (fun s d => acceptAndCapture s true d)
    (fun s d h => acceptAndCapture_ok s true d h) (List.range nDev) s hn
  rw [e1]
  simp only [bind, Except.bind]
  generalize List.map _ sels = readyL
  obtain ⟨s2, e2, n2⟩ := foldlM_inv NF (fun s (p : Nat × Sel × Bool) => handleClient cfg s p.1 (some p.2.1) p.2.2)
    (fun s p h => by
      obtain ⟨s', e, c, d⟩ := handleClient_ok cfg hcfg s p.1 (some p.2.1) p.2.2 h.ci h.di
      exact ⟨s', e, ⟨c, d⟩⟩) readyL s1 n1
  rw [e2]
  dsimp only
  obtain ⟨s3, e3, n3⟩ := foldlM_inv NF (fun s (c : Client) => handleClient cfg s c.h none false)
    (fun s c h => by
      obtain ⟨s', e, c', d⟩ := handleClient_ok cfg hcfg s c.h none false h.ci h.di
      exact ⟨s', e, ⟨c', d⟩⟩)
    (s2.clients.filter (fun c => !(readyL.any (fun p => p.1 == c.h)))) s2 n2
  rw [e3]
  dsimp only
  split
  · obtain ⟨s4, e4, f4⟩ := channelTimer_ok cfg hcfg.ret hcfg.fl { s3 with schedAlarm := false }
    exact ⟨s4, e4, (n3.of_fr (fr_of_eq (by rfl) (by rfl))).of_fr f4⟩
  · exact ⟨s3, rfl, n3⟩

theorem step_ok (cfg : Cfg) (hcfg : cfg.Repaired) (s : State cfg.g) (op : Op) (hn : NF s) :
    ∃ s', step cfg s op = .ok s' ∧ NF s' := by
  unfold step
  split
  · exact ⟨s, rfl, hn⟩
  · rename_i hop
    cases op with
    | iter => exact iter_ok cfg hcfg s hn
    | connect d => exact ⟨_, rfl, hn.of_fr (fr_of_eq (by rfl) (by rfl))⟩
    | send h bs =>
      refine ⟨_, rfl, ?_⟩
      split
      · exact hn
      · exact hn.of_fr (fr_of_eq (by rfl) (by rfl))
    | shut h => exact ⟨_, rfl, hn.of_fr (fr_of_eq (by rfl) (by rfl))⟩
    | shutRd h => exact ⟨_, rfl, hn.of_fr (fr_of_eq (by rfl) (by rfl))⟩
    | tick n =>
      refine ⟨_, rfl, ?_⟩
      split
      · split
        · exact hn.of_fr (fr_of_eq (by rfl) (by rfl))
        · exact hn.of_fr (fr_of_eq (by rfl) (by rfl))
      · exact hn.of_fr (fr_of_eq (by rfl) (by rfl))
    | alarm => exact ⟨_, rfl, hn.of_fr (fr_of_eq (by rfl) (by rfl))⟩
    | frame d ids =>
      refine ⟨_, rfl, ?_⟩
      have hlen : ids.length ≤ 31 := by
        simp only [opOk, Bool.not_eq_true, Bool.not_eq_false', Bool.and_eq_true, decide_eq_true_eq] at hop
        exact hop.1.2
      have f0 : Fr s { s with frameSeq := s.frameSeq + 1 } := fr_of_eq (by rfl) (by rfl)
      refine hn.of_fr (fr_setDev _ _ ?_ f0)
      intro x hx
      refine ⟨?_, hx.ml⟩
      intro f hf
      simp only [List.mem_append, List.mem_singleton] at hf
      rcases hf with hf | hf
      · exact hx.fq f hf
      · rw [hf]; exact hlen
    | devCfg d sup api scan gs =>
      refine ⟨_, rfl, hn.of_fr (fr_setDev _ _ ?_ (Fr.refl s))⟩
      intro x hx; exact ⟨hx.1, hx.2⟩
    | maxConn n => exact ⟨_, rfl, hn.of_fr (fr_of_eq (by rfl) (by rfl))⟩
    | recv h => exact ⟨_, rfl, hn.of_fr (fr_of_eq (by rfl) (by rfl))⟩

/-- **no step of the repaired model faults**, for whole histories -/
theorem run_ok (cfg : Cfg) (hcfg : cfg.Repaired) (ops : List Op) : ∃ s, run cfg ops = .ok s ∧ NF s := by
  unfold run
  exact foldlM_inv NF (step cfg) (fun s op h => step_ok cfg hcfg s op h) ops (init cfg.g) nf_init

end Zvbi.Proxy
