import ZvbiModel.Generated.ProxyLayout
import ZvbiModel.Proxy.Core
/-!
# Model of the proxy daemon's client handling (property C19)

Follows `daemon/proxyd.c` (`vbi_proxyd_main_loop`, `vbi_proxyd_get_fd_set`, `vbi_proxyd_handle_client_sockets`,
`vbi_proxyd_check_msg`, `vbi_proxyd_take_message`, `vbi_proxyd_take_service_req`, `vbi_proxyd_update_services`,
`vbi_proxyd_update_scanning`, the token machine `vbi_proxyd_token_grant` / `_channel_completed` / `_channel_stopped` /
`_channel_schedule` / `_channel_update` / `_channel_flush` / `_channel_timer` / `_channel_timer_update`,
`vbi_proxyd_take_ioctl_req` (permission logic), `vbi_proxyd_close`, `vbi_proxyd_add_connection`) and
`src/proxy-msg.c` (`vbi_proxy_msg_handle_read`, `_handle_write`, `_write`, `_check_timeout`, `_is_idle`).

* One `iter` op = one iteration of the main loop with a zero-timeout `select`: the fd sets are computed from the state
  at the start of the iteration, at most one connection per device is accepted, at most one frame per device is read,
  then every client is handled in list order, then the alarm flag.
* A client socket is a byte queue (`Sock.inq` = bytes written by the client and not yet read by the daemon; what the
  daemon sends is delivered at once because the harness drains after every iteration) plus a `shut` flag (the client
  closed its end).  Message sizes, offsets, enum values, the ioctl table and the guard flags come from
  `Generated/ProxyLayout.lean`, never from literals.
* The token fields (`token_state`, `chn_prio`, `chn_profile.is_valid`) live in `State.core : Core.Reach g`: the model can
  change them only through `Core.apply`, and every `State` carries the proof that they were produced that way.
* Array index fields go through explicit bounds checks yielding `Fault.oob site`; `assert`s that client input can reach
  yield `Fault.assertFail site`.  After a fault the daemon is dead (the C process aborted or its memory is corrupt).
* Guards (`Cfg`): each flag says whether one of the repairs of `fixes/C19-*.diff` is present in the source; the
  translator sets them from the current tree (`Cfg.current`).
* The scheduler's pick (`vbi_proxyd_channel_schedule`) is a field of `Cfg`; `codePick` follows the C loop and is what the
  driver runs; the theorems hold for every pick function (its result is used only if it is a candidate, as in C where
  the loop only visits candidates).
* Not modelled: the slicer queue's buffers / reference counts (property C18; here a client's queue is the list of
  frames not yet sent to it, exact as long as no buffer is force-freed, i.e. fewer than `default_buffer_count` frames
  wait), raw services (the fake device never grants them), the acquisition thread, TCP/IP listening, the content of
  the shared `msg_buf` beyond the bytes of the current inbound message (an ioctl request of length 23 reads one stale
  byte; the generators avoid that length).
-/
namespace Zvbi.Proxy
open Zvbi.Gen.Proxy

inductive Conn | waitCon | waitClose | forward | closed
deriving Repr, DecidableEq, Inhabited

inductive Fault
  | oob (site : String)
  | assertFail (site : String)
deriving Repr, DecidableEq

structure Frame where
  seq : Nat
  ids : List Nat
deriving Repr, DecidableEq

/-- `PROXY_CLNT` without the token fields -/
structure Client where
  h : Nat
  dev : Nat
  st : Conn := .waitCon
  ind : Nat := 0
  readOff : Nat := 0
  readLen : Nat := 0
  buf : List Nat := []            -- bytes of the message being received (header in network byte order)
  wr : Option (String × Nat) := none   -- message waiting for handle_write: text as printed by `recv`, total length
  sockOpen : Bool := true         -- io.sock_fd != -1
  lastIo : Int := 0
  endianSwap : Bool := false
  flags : Nat := 0
  bufCount : Nat := 0
  sv : List Nat := [0, 0, 0, 0]
  allSv : Nat := 0
  subPrio : Nat := 0
  minDur : Int := 0
  completed : Bool := false
  cycle : Nat := 0
  lastStart : Int := 0
  lastDur : Int := 0
  pend : List Frame := []
deriving Repr, DecidableEq

structure Dev where
  cap : Bool := false
  api : Nat := apiUNKNOWN
  allSv : Nat := 0
  scanning : Nat := 0
  prio : Nat := 0
  maxLines : Nat := 0
  nOpen : Nat := 0
  nUpd : Nat := 0
  nFlush : Nat := 0
  fq : List Frame := []
  decScan : Nat := 0
  -- scripted device
  sup : Nat := 0xffffffff
  cfgApi : Nat := 2
  cfgScan : Nat := 625
  getScan : Int := 625
deriving Repr, DecidableEq

/-- harness side of a connection -/
structure Sock where
  dev : Nat
  inq : List Nat := []
  shut : Bool := false
  rdShut : Bool := false          -- the client did shutdown(SHUT_RD): every send() of the daemon fails with EPIPE, no EOF is seen
  accepted : Bool := false
  srvClosed : Bool := false       -- the daemon closed its end
  eofSeen : Bool := false         -- ... while the client still had its end open (it sees EOF)
  log : List String := []
deriving Repr, DecidableEq

structure State (g : Core.Guards) where
  clients : List Client := []
  core : Core.Reach g := Core.Reach.init g
  clntCount : Nat := 0
  maxConn : Nat := defaultMaxClients
  devs : List Dev := [{}, {}]
  socks : List Sock := []
  now : Int := 1000000
  alarmAt : Option Int := none
  lastAlarm : Option Nat := none
  schedAlarm : Bool := false
  frameSeq : Nat := 0

/-- what the scheduler may look at -/
structure Cand where
  h : Nat
  dev : Nat
  /-- visited by the scheduler's loop: valid profile at background priority -/
  cand : Bool
  tok : Tok
  subPrio : Nat
  minDur : Int
  completed : Bool
  cycle : Nat
  lastStart : Int
deriving Repr, DecidableEq

structure Cfg where
  conStrictClamp : Bool
  svcStrictClamp : Bool
  readLenGuard : Bool
  idleAssertsRemoved : Bool
  flushNullGuard : Bool
  g : Core.Guards
  /-- `vbi_proxyd_channel_schedule`'s choice among the candidates (in list order) of a device -/
  pick : Int → List Cand → Option Nat

abbrev M := Except Fault

/-! ## small helpers -/

def nDev : Nat := 2
def u32 (n : Nat) : Nat := n % 4294967296
def land (a b : Nat) : Nat := Nat.land a b
def lor (a b : Nat) : Nat := Nat.lor a b
def lnot32 (a : Nat) : Nat := 4294967295 - u32 a
def hasFlag (v f : Nat) : Bool := land v f != 0
def hex (n : Nat) : String := String.ofList (Nat.toDigits 16 n)

def le (bs : List Nat) (off n : Nat) : Nat :=
  (List.range n).foldr (fun i acc => acc * 256 + bs.getD (off + i) 0) 0
def be32 (bs : List Nat) (off : Nat) : Nat :=
  (List.range 4).foldl (fun acc i => acc * 256 + bs.getD (off + i) 0) 0
def toSigned (bits v : Nat) : Int := if v < 2 ^ (bits - 1) then (v : Int) else (v : Int) - (2 ^ bits : Nat)

variable {g : Core.Guards}

def getDev (s : State g) (d : Nat) : Dev := s.devs.getD d {}
def setDev (s : State g) (d : Nat) (f : Dev → Dev) : State g :=
  { s with devs := s.devs.mapIdx (fun i x => if i == d then f x else x) }
def getSock (s : State g) (h : Nat) : Sock := s.socks.getD h { dev := 0 }
def setSock (s : State g) (h : Nat) (f : Sock → Sock) : State g :=
  { s with socks := s.socks.mapIdx (fun i x => if i == h then f x else x) }
def findClient (s : State g) (h : Nat) : Option Client := s.clients.find? (·.h == h)
/-- update the record of client `h` (no other record changes) -/
def modClient (s : State g) (h : Nat) (f : Client → Client) : State g :=
  { s with clients := s.clients.map (fun c => if c.h == h then f c else c) }
/-- update every record of device `d` -/
def modDevClients (s : State g) (d : Nat) (f : Client → Client) : State g :=
  { s with clients := s.clients.map (fun c => if c.dev == d then f c else c) }
/-- the only way the token fields change -/
def coreOp (s : State g) (op : Core.COp) : State g := { s with core := s.core.app op }
def recOf (s : State g) (h : Nat) : Core.Rec := (Core.find s.core.st h).getD { h := h, dev := 0 }
def tokOf (s : State g) (h : Nat) : Tok := (recOf s h).tok

def tokName : Tok → String
  | .none => "N" | .reclaim => "RC" | .release => "RL" | .grant => "GT" | .granted => "GD" | .returned => "RT"
def connName : Conn → String
  | .waitCon => "W" | .waitClose => "X" | .forward => "F" | .closed => "C"

/-! ## src/proxy-msg.c -/

/-- vbi_proxy_msg_is_idle, with its assertion -/
def isIdle (cfg : Cfg) (c : Client) : M Bool :=
  if !cfg.idleAssertsRemoved && !(c.readOff == 0 || c.readOff == c.readLen) then .error (.assertFail "is_idle")
  else .ok (c.wr.isNone && c.readOff == 0)

/-- vbi_proxy_msg_read_idle, with its assertion -/
def readIdle (cfg : Cfg) (c : Client) : M Bool :=
  if !cfg.idleAssertsRemoved && !(c.readOff == 0 || c.readOff == c.readLen) then .error (.assertFail "read_idle")
  else .ok (c.readOff == 0)

/-- vbi_proxy_msg_write: queue a message (name, body length, fields as printed by `recv`) for sending -/
def msgWrite (s : State g) (h : Nat) (name : String) (bodyLen : Nat) (fields : String := "") : State g :=
  let text := name ++ ":" ++ toString (hdr + bodyLen) ++ (if fields == "" then "" else ":" ++ fields)
  modClient s h (fun c => { c with wr := some (text, hdr + bodyLen), lastIo := s.now })

/-- phase one of vbi_proxy_msg_handle_read (the header): (record, rest of the socket, err, failing recv returned 0,
    closeOnZeroRead, result) -/
def readHeader (c : Client) (now : Int) (inq : List Nat) (shut : Bool) : Client × List Nat × Bool × Bool × Bool × Bool :=
  if c.readOff < hdr then
    let k := min (hdr - c.readOff) inq.length
    if k > 0 then
      let c := { c with buf := c.buf ++ inq.take k, readOff := c.readOff + k, lastIo := now }
      if c.readOff ≥ hdr then
        let c := { c with readLen := be32 c.buf 0 }
        (c, inq.drop k, false, false, false, !(c.readLen > msg || c.readLen < hdr))
      else (c, inq.drop k, false, false, false, true)
    else (c, inq, true, shut, true, true)
  else (c, inq, false, false, true, true)

/-- vbi_proxy_msg_handle_read: at most one `recv` for the header and one for the body.
    Returns the new client record, the remaining socket bytes, the C function's result and `*pBlocked` as far as it
    matters (the frame loop of the caller runs only for an idle connection). -/
def handleRead (cfg : Cfg) (now : Int) (c : Client) (inq : List Nat) (shut : Bool) : M (Client × List Nat × Bool × Bool) :=
  if c.wr.isSome then .error (.assertFail "handle_read:writeLen==0") else
  if c.readOff < hdr && c.readLen != 0 then .error (.assertFail "handle_read:readLen==0") else
  let (c, inq, err, lenZero, closeOnZero, result) := readHeader c now inq shut
  if !err && (result || !cfg.readLenGuard) && c.readOff ≥ hdr then
    if c.readLen > msg then .error (.assertFail "handle_read:readLen<=max_read_len") else
    let want := u32 (c.readLen + 4294967296 - c.readOff)     -- uint32 arithmetic
    let k := min want inq.length
    if k > 0 then
      if c.readOff + k > msg then .error (.oob "handle_read:msg_buf")
      else .ok ({ c with buf := c.buf ++ inq.take k, readOff := c.readOff + k, lastIo := now }, inq.drop k, result, false)
    else
      -- recv returned 0 (nothing asked for, or end of stream) or EAGAIN.  `*pBlocked` is then set from a STALE errno
      -- (`else if (errno == EAGAIN)`; POSIX leaves errno unspecified after a call that succeeds): the harness pins it to
      -- EAGAIN in its `recv` wrapper whenever recv returns 0
      .ok (c, inq, if ((want == 0) || shut) && closeOnZero then false else result, true)
  else .ok (c, inq, if err && lenZero && closeOnZero then false else result, false)

/-! ## message fields -/

structure Msg where
  type : Nat
  len : Nat
  body : List Nat      -- bytes after the header (len - hdr of them)

def Msg.u32 (m : Msg) (off : Nat) : Nat := le m.body off 4
def Msg.u8 (m : Msg) (off : Nat) : Nat := m.body.getD off 0
def Msg.i8 (m : Msg) (off : Nat) : Int := toSigned 8 (m.body.getD off 0)
def Msg.i64 (m : Msg) (off : Nat) : Int := toSigned 64 (le m.body off 8)
def Msg.magicOk (m : Msg) : Bool := m.body.take magicLen == magicStr

/-- vbi_proxyd_check_msg: `some endianSwap` when accepted (the flag only changes for CONNECT_REQ) -/
def checkMsg (m : Msg) (oldSwap : Bool) : Option Bool :=
  let ok (b : Bool) : Option Bool := if b then some oldSwap else none
  if m.type == tCONNECTREQ then
    if m.len == hdr + szConnectReq && m.magicOk then
      if m.u32 oMagicEndian == endianMagic then some false
      else if m.u32 oMagicEndian == endianMismatch then some true
      else none
    else none
  else if m.type == tSERVICEREQ then ok (m.len == hdr + szServiceReq)
  else if m.type == tCHNTOKENREQ then ok (m.len == hdr + szTokenReq)
  else if m.type == tCHNNOTIFYREQ then ok (m.len == hdr + szNotifyReq)
  else if m.type == tCHNSUSPENDREQ then ok (m.len == hdr + szNotifyReq)
  else if m.type == tCHNIOCTLREQ then ok (m.len == hdr + ioctlReqSize0 + m.u32 oIocArgsize)
  else if m.type == tCHNRECLAIMCNF then ok (m.len == hdr + szReclaimCnf)
  else if m.type == tCLOSEREQ then ok (m.len == hdr)
  else if m.type == tDAEMONPIDREQ then
    ok (m.len == hdr + szPidReq && m.magicOk && m.u32 oMagicEndian == endianMagic)
  else if m.type == tDAEMONPIDCNF then ok (m.len == hdr + szPidCnf)
  else none

/-! ## device (scripted capture) -/

/-- vbi_proxy_stop_acquisition -/
def stopAcq (s : State g) (d : Nat) : State g :=
  if (getDev s d).cap then setDev s d (fun x => { x with cap := false }) else s

/-- vbi_proxy_start_acquisition -> (state, result) ; on failure the device's error string is set -/
def startAcq (s : State g) (d : Nat) : State g × Bool :=
  let dv := getDev s d
  if dv.cfgApi == 2 then
    (setDev s d (fun x => { x with api := apiV4L2, cap := true, nOpen := x.nOpen + 1, decScan := x.cfgScan, prio := prioINTERACTIVE }), true)
  else if dv.cfgApi == 1 then
    (setDev s d (fun x => { x with api := apiV4L1, cap := true, nOpen := x.nOpen + 1, decScan := x.cfgScan, prio := prioINTERACTIVE }), true)
  else (setDev s d (fun x => { x with api := apiV4L1 }), false)

/-- vbi_proxyd_update_scanning -/
def updateScanning (s : State g) (d : Nat) (fromClient : Bool) (scanning : Nat) : State g :=
  let dv := getDev s d
  if !dv.cap then s else
  let new : Nat :=
    if fromClient then
      let gs := u32 (dv.getScan + 4294967296).toNat
      if gs == 0 then (if scanning == 525 || scanning == 625 then scanning else 0) else gs
    else scanning
  if new != dv.scanning then
    let s := setDev s d (fun x => { x with scanning := new })
    modDevClients s d (fun c => if hasFlag c.flags cfNOSTATUSIND then c else { c with ind := lor c.ind fNORM })
  else s

/-- the loop of vbi_proxyd_update_services over one client's four service words:
    (client, device services, number of update_services calls, error string set) -/
def updClientServices (sup : Nat) (isNew : Bool) (newIdx : Int) (c : Client) : Client × Nat × Nat × Bool :=
  (List.range nServices).foldl (fun (acc : Client × Nat × Nat × Bool) i =>
    let (c, dsv, n, e) := acc
    let tmp := c.sv.getD i 0
    if tmp == 0 then acc else
    let gr := land (land tmp sup) (lnot32 rawBits)
    let c := { c with allSv := lor c.allSv gr }
    let c := if isNew then { c with sv := c.sv.set i (land (c.sv.getD i 0) gr) } else c
    (c, lor dsv gr, n + 1, e || (isNew && (i : Int) == newIdx && gr == 0))) ({ c with allSv := 0 }, 0, 0, false)

/-- vbi_proxyd_update_services, the part that runs with the device open: every client's services are applied again, the
    device's service mask / max_lines are updated or the device is closed -/
def updTail (s : State g) (d : Nat) (newReq : Option Nat) (newIdx : Int) (e0 : Bool) : State g × Bool × Bool :=
  let sup := (getDev s d).sup
  let (cs, dsv, n, e) := s.clients.foldl (fun (acc : List Client × Nat × Nat × Bool) c =>
      let (out, dsv, n, e) := acc
      if c.dev == d && c.st == .forward then
        let (c', gr, k, e') := updClientServices sup (newReq == some c.h) newIdx c
        (out ++ [c'], lor dsv gr, n + k, e || e')
      else (out ++ [c], dsv, n, e)) ([], 0, 0, false)
  let s := { s with clients := cs }
  let s := setDev s d (fun x => { x with nUpd := x.nUpd + n, decScan := if n > 0 then x.cfgScan else x.decScan })
  let s := updateScanning s d false (getDev s d).decScan
  let (s, result) :=
    if dsv != 0 then (setDev s d (fun x => { x with allSv := dsv, maxLines := 32 }), true)
    else (s, n == 0)
  let s := if dsv == 0 || !result then stopAcq s d else s
  (s, result, e0 || e)

/-- vbi_proxyd_update_services -> (state, result, device error string set) -/
def updateServices (s : State g) (d : Nat) (newReq : Option Nat) (newIdx : Int) : State g × Bool × Bool :=
  let (s, result, e0) :=
    if !(getDev s d).cap then
      let anySv := s.clients.any (fun c => c.sv.any (· != 0))
      if anySv then (let (s1, r) := startAcq s d; (s1, r, !r))
      else if (getDev s d).api == apiUNKNOWN then (stopAcq (startAcq s d).1 d, true, false)
      else (s, true, false)
    else (s, false, false)
  if !(getDev s d).cap then (s, result, e0) else updTail s d newReq newIdx e0

/-- vbi_proxyd_take_service_req -> (state, result, first word of the error text) -/
def takeServiceReq (s : State g) (h d : Nat) (services : Nat) (strict : Int) : M (State g × Bool × String) :=
  let idx := strict - minStrict
  if idx < 0 || idx ≥ (nServices : Int) then .error (.oob "take_service_req:services[strict]") else
  let i := idx.toNat
  let s := modClient s h (fun c =>
    let sv := c.sv.map (fun w => land w (lnot32 services))
    { c with sv := sv.set i (lor (sv.getD i 0) services) })
  let (s, result, devErr) := updateServices s d (some h) idx
  let c := (findClient s h).getD { h := h, dev := d }
  if !result || (land c.allSv services == 0 && services != 0) then
    let txt := if devErr then "fakecap:"
               else if land (c.sv.getD i 0) services == 0 && services != 0 then "Sorry," else "Internal"
    .ok (s, false, txt)
  else .ok (s, true, "")

/-! ## token machine -/

/-- vbi_proxyd_token_grant: the assertion of get_token_owner, then the state change in the core -/
def tokenGrant (s : State g) (h : Nat) : M (State g × Bool) :=
  let r := recOf s h
  if r.tok == .none && (Core.owners s.core.st r.dev).length > 1 then .error (.assertFail "get_token_owner:p_owner==NULL")
  else .ok (coreOp s (.grant h), Core.grantFree g s.core.st r)

/-- vbi_proxyd_channel_completed -/
def channelCompleted (s : State g) (h : Nat) (whence : Int) : State g :=
  match findClient s h with
  | none => s
  | some req =>
    let cyc := req.cycle + 1
    let s := modClient s h (fun c => { c with lastDur := whence - c.lastStart, completed := true, cycle := cyc })
    if cyc > 2 then
      modDevClients s req.dev (fun c => if c.cycle > 0 then { c with cycle := c.cycle - 1 } else c)
    else if cyc == 1 then
      if s.clients.any (fun c => c.dev == req.dev && c.cycle ≥ 2) then modClient s h (fun c => { c with cycle := 2 }) else s
    else s

/-- vbi_proxyd_channel_stopped (callers guarantee REQ_CONTROLS_CHN) -/
def channelStopped (s : State g) (h : Nat) : State g :=
  match findClient s h with
  | none => s
  | some req =>
    let s := if !req.completed && s.now - req.lastStart ≥ req.minDur then channelCompleted s h s.now else s
    let s := modClient s h (fun c => { c with completed := false })
    coreOp s (.stopped h)

/-- vbi_proxyd_channel_timer_update -/
def timerUpdate (s : State g) : State g :=
  let next : Int := s.clients.foldl (fun (next : Int) c =>
    if (getDev s c.dev).prio == prioBACKGROUND && (tokOf s c.h).controls && !c.completed then
      let rest := c.minDur - (s.now - c.lastStart)
      if rest > 0 && (rest < next || next == 0) then rest else if rest < 0 then 1 else next
    else next) 0
  let a := u32 (next % 4294967296).toNat
  { s with lastAlarm := some a, alarmAt := if a == 0 then none else some (s.now + a), schedAlarm := false }

/-- is client `c` visited by the loop of vbi_proxyd_channel_schedule for device `d`? -/
def isCand (s : State g) (d : Nat) (c : Client) : Bool := c.dev == d && (recOf s c.h).asked

def candOf (s : State g) (c : Client) : Cand :=
  { h := c.h, dev := c.dev, cand := (recOf s c.h).asked, tok := tokOf s c.h, subPrio := c.subPrio, minDur := c.minDur, completed := c.completed,
    cycle := c.cycle, lastStart := c.lastStart }

/-- the scheduler's key (cycle_count + completed bonus) -/
def schedKey (c : Cand) : Nat := c.cycle + (if c.tok.controls && c.completed then 1 else 0)

/-- the comparison chain of vbi_proxyd_channel_schedule: does `w` replace the current choice `p`? -/
def schedBeats (w p : Cand) : Bool :=
  if schedKey w < schedKey p then true
  else if w.subPrio > p.subPrio then true
  else if w.subPrio == p.subPrio then
    if w.tok.controls && !w.completed then true
    else if p.tok.controls && p.completed then true
    else if !w.tok.controls && !p.tok.controls then
      w.lastStart < p.lastStart || (w.lastStart == p.lastStart && w.minDur < p.minDur)
    else false
  else false

/-- bookkeeping of `channel_completed` on the scheduler's view (cycle counters of one device) -/
def candCompleted (cs : List Cand) (h : Nat) (now : Int) : List Cand :=
  match cs.find? (·.h == h) with
  | none => cs
  | some r =>
    let cyc := r.cycle + 1
    let cs := cs.map (fun c => if c.h == h then { c with completed := true, cycle := cyc } else c)
    if cyc > 2 then cs.map (fun c => if c.cycle > 0 then { c with cycle := c.cycle - 1 } else c)
    else if cyc == 1 then (if cs.any (·.cycle ≥ 2) then cs.map (fun c => if c.h == h then { c with cycle := 2 } else c) else cs)
    else cs

/-- the C loop: candidates in list order; the reservation of an active candidate is checked when it is visited,
    before it is compared with the choice so far.  `all` = every client of the device (the cycle levelling of
    `channel_completed` touches non-candidates too, but only candidates are compared). -/
def codePick (now : Int) (cands : List Cand) : Option Nat :=
  let (_, p) := cands.foldl (fun (acc : List Cand × Option Nat) c0 =>
    let (cs, p) := acc
    if !c0.cand then acc else
    let c := (cs.find? (·.h == c0.h)).getD c0
    let cs := if c.tok.controls && now - c.lastStart ≥ c.minDur && !c.completed then candCompleted cs c.h now else cs
    let c := (cs.find? (·.h == c0.h)).getD c
    match p.bind (fun ph => cs.find? (·.h == ph)) with
    | none => (cs, some c.h)
    | some q => (cs, if schedBeats c q then some c.h else some q.h)) (cands, none)
  p

/-- vbi_proxyd_channel_schedule -/
def channelSchedule (cfg : Cfg) (s : State cfg.g) (d : Nat) : State cfg.g × Option Nat :=
  -- every client of the device (the cycle levelling looks at all of them); `cand` marks the ones the loop visits
  let cands := (s.clients.filter (·.dev == d)).map (candOf s)
  -- the pick is only used if it names a candidate (the C loop only visits candidates)
  let p := (cfg.pick s.now cands).filter (fun h => cands.any (fun c => c.h == h && c.cand))
  let s := s.clients.foldl (fun (s : State cfg.g) c0 =>
    match findClient s c0.h with
    | some c => if isCand s d c && (tokOf s c.h).controls && s.now - c.lastStart ≥ c.minDur && !c.completed then channelCompleted s c.h s.now else s
    | none => s) s
  let active := (s.clients.filter (fun c => isCand s d c && (tokOf s c.h).controls)).getLast?
  match active with
  | some a => if p != some a.h then (channelStopped s a.h, p) else (s, p)
  | none => (s, p)

/-- the `vbi_capture_flush` of vbi_proxyd_channel_update -/
def flushForced (cfg : Cfg) (s : State cfg.g) (d : Nat) (forced : Bool) : M (State cfg.g) :=
  if forced then
    if !(getDev s d).cap then (if cfg.flushNullGuard then .ok s else .error (.assertFail "vbi_capture_flush:capture!=NULL"))
    else .ok (setDev s d (fun x => { x with nFlush := x.nFlush + 1, fq := [] }))
  else .ok s

/-- vbi_proxyd_channel_update, first part: the device takes the highest priority of its clients; with a non-background
    priority or after a forced switch whoever controls the channel is stopped -> (state, max_chn_prio) -/
def chnPrep (cfg : Cfg) (s : State cfg.g) (d : Nat) (forced : Bool) : State cfg.g × Nat :=
  let maxPrio := s.clients.foldl (fun m c => if c.dev == d && (recOf s c.h).prio > m then (recOf s c.h).prio else m) prioBACKGROUND
  let s := if (getDev s d).prio != maxPrio then setDev s d (fun x => { x with prio := maxPrio }) else s
  let s := if maxPrio > prioBACKGROUND || forced then
      s.clients.foldl (fun (s : State cfg.g) c0 =>
        match findClient s c0.h with
        | some c => if c.dev == d && (tokOf s c.h).controls then channelStopped s c.h else s
        | none => s) s
    else s
  (s, maxPrio)

/-- second part: who gets the channel - the scheduler's choice at background priority, else the requester if it has the
    device's priority -/
def chnPick (cfg : Cfg) (s : State cfg.g) (d : Nat) (req : Option Nat) (maxPrio : Nat) : State cfg.g × Option Nat :=
  if maxPrio == prioBACKGROUND then channelSchedule cfg s d
  else match req with
    | some h => if (findClient s h).isSome && (recOf s h).prio == maxPrio then (s, some h) else (s, none)
    | none => (s, none)

/-- the end of every path: the scheduler's timer is set at background priority -/
def chnFin (s : State g) (maxPrio : Nat) (r : Bool) : M (State g × Bool) :=
  .ok (if maxPrio == prioBACKGROUND then timerUpdate s else s, r)

/-- vbi_proxyd_channel_update -/
def channelUpdate (cfg : Cfg) (s : State cfg.g) (d : Nat) (req : Option Nat) (forced : Bool) : M (State cfg.g × Bool) :=
  let (s, maxPrio) := chnPrep cfg s d forced
  let (s, sched) := chnPick cfg s d req maxPrio
  match sched.bind (findClient s) with
  | some p =>
    if maxPrio == prioBACKGROUND && !(tokOf s p.h).controls then
      match tokenGrant s p.h with
      | .error e => .error e
      | .ok (s, free) =>
        if free then chnFin (modClient s p.h (fun c => { c with completed := false, lastDur := 0, lastStart := s.now })) maxPrio (some p.h == req)
        else chnFin s maxPrio false
    else match flushForced cfg s d forced with
      | .error e => .error e
      | .ok s => chnFin s maxPrio false
  | none => match flushForced cfg s d forced with
      | .error e => .error e
      | .ok s => chnFin s maxPrio false

/-- vbi_proxyd_channel_flush -/
def channelFlush (s : State g) (d : Nat) : State g :=
  let s := if (getDev s d).cap then
      let s := setDev s d (fun x => { x with nFlush := x.nFlush + 1, fq := [] })
      modDevClients s d (fun c => { c with pend := [] })
    else s
  modDevClients s d (fun c => if hasFlag c.flags cfNOSTATUSIND then c else { c with ind := lor c.ind fFLUSH })

/-- vbi_proxyd_channel_timer -/
def channelTimer (cfg : Cfg) (s : State cfg.g) : M (State cfg.g) :=
  (List.range nDev).foldlM (fun (s : State cfg.g) d =>
    if (getDev s d).prio == prioBACKGROUND then
      let cs := s.clients.filter (·.dev == d)
      let doSched := cs.any (fun c => (tokOf s c.h).controls && !c.completed && s.now - c.lastStart ≥ c.minDur)
      if doSched && cs.length > 1 then (channelUpdate cfg s d none false).map (·.1)
      else .ok s
    else .ok s) s

/-- vbi_proxyd_take_ioctl_req: a closed device is opened for the call and closed again; `true` = the ioctl was
    performed (on the fake fd it fails with ENOTTY) -/
def takeIoctl (s : State g) (h : Nat) (request argSize : Nat) : State g × Bool :=
  let d := (recOf s h).dev
  let opened := !(getDev s d).cap
  let s := if opened then (startAcq s d).1 else s
  let dv := getDev s d
  let ok := dv.cap &&
    match ioctlTable.find? (fun e => e.1 == dv.api && e.2.1 == request) with
    | some (_, _, size, perm) => size == argSize && (!perm || (recOf s h).prio ≥ dv.prio || (tokOf s h).controls)
    | none => false
  (if opened then stopAcq s d else s, ok)

/-! ## vbi_proxyd_close and vbi_proxyd_take_message -/

/-- vbi_proxyd_close -/
def closeClient (s : State g) (h : Nat) : State g :=
  match findClient s h with
  | some c =>
    if c.st != .closed then
      setSock (modClient s h (fun c => { c with st := .closed, sockOpen := false, pend := [] })) h (fun k => { k with srvClosed := true, eofSeen := k.eofSeen || !(k.shut || k.rdShut) })
    else s
  | none => s

def decScanOf (s : State g) (d : Nat) : Nat := if (getDev s d).cap then (getDev s d).decScan else 0

def clampStrict (on : Bool) (v : Int) : Int :=
  if on then (if v < minStrict then minStrict else if v > maxStrict then maxStrict else v) else v

/-- MSG_TYPE_CONNECT_REQ in state WAIT_CON_REQ -/
def onConnect (cfg : Cfg) (s : State cfg.g) (h d : Nat) (m : Msg) : M (State cfg.g × Bool) :=
  if m.u32 oMagicCompat == compatVersion then
    let scanning := m.u32 oConScanning
    let s := if scanning != 0 then setDev s d (fun x => { x with scanning := scanning }) else s
    let s := modClient s h (fun c => { c with st := .forward, bufCount := m.u8 oConBufcnt, flags := m.u32 oConFlags })
    match takeServiceReq s h d (m.u32 oConServices) (clampStrict cfg.conStrictClamp (m.i8 oConStrict)) with
    | .error e => .error e
    | .ok (s, ok, txt) =>
      if ok then
        let c := (findClient s h).getD { h := h, dev := d }
        .ok (msgWrite s h "CONNECT_CNF" szConnectCnf s!"svc{hex c.allSv}:api{(getDev s d).api}:df0:scan{decScanOf s d}:magic1", true)
      else .ok (modClient (msgWrite s h "CONNECT_REJ" szConnectRej txt) h (fun c => { c with st := .waitClose }), true)
  else .ok (modClient (msgWrite s h "CONNECT_REJ" szConnectRej "Incompatible") h (fun c => { c with st := .waitClose }), true)

/-- MSG_TYPE_SERVICE_REQ in state FORWARD -/
def onService (cfg : Cfg) (s : State cfg.g) (h d : Nat) (m : Msg) : M (State cfg.g × Bool) :=
  let s := if m.u8 oSvcReset != 0 then modClient s h (fun c => { c with sv := [0, 0, 0, 0] }) else s
  let s := modClient s h (fun c => { c with pend := [] })
  match takeServiceReq s h d (m.u32 oSvcServices) (clampStrict cfg.svcStrictClamp (m.i8 oSvcStrict)) with
  | .error e => .error e
  | .ok (s, ok, txt) =>
    if ok then
      let c := (findClient s h).getD { h := h, dev := d }
      .ok (msgWrite s h "SERVICE_CNF" szServiceCnf s!"svc{hex c.allSv}", true)
    else .ok (msgWrite s h "SERVICE_REJ" szServiceRej txt, true)

/-- MSG_TYPE_CHN_TOKEN_REQ in state FORWARD -/
def onTokenReq (cfg : Cfg) (s : State cfg.g) (h d : Nat) (m : Msg) : M (State cfg.g × Bool) :=
  let s := modClient s h (fun c => { c with subPrio := m.u8 oTokSubprio, minDur := m.i64 oTokMindur,
                                            completed := false, cycle := 0, lastStart := 0, lastDur := 0 })
  let s := coreOp s (.tokenReq h (m.u32 oTokPrio) (m.u8 oTokValid))
  match channelUpdate cfg s d (some h) false with
  | .error e => .error e
  | .ok (s, _) =>
    if tokOf s h == .grant then .ok (msgWrite (coreOp s (.sendGrant h)) h "TOKEN_CNF" szTokenCnf "ind1:0:0", true)
    else .ok (msgWrite s h "TOKEN_CNF" szTokenCnf "ind0:0:0", true)

/-- MSG_TYPE_CHN_NOTIFY_REQ in state FORWARD -/
def onNotify (cfg : Cfg) (s : State cfg.g) (h d : Nat) (m : Msg) : M (State cfg.g × Bool) :=
  let fl := m.u32 oNtfFlags
  let tok0 := tokOf s h
  let s := if hasFlag fl fNORM then updateScanning s d true (m.u32 oNtfScanning) else s
  let (s, upd1, forced) := if hasFlag fl fFLUSH then (channelFlush s d, true, !tok0.controls) else (s, false, false)
  let (s, upd2) :=
    if hasFlag fl fRELEASE then (coreOp s (.release h), tok0 != .none)
    else if hasFlag fl fTOKEN && (!cfg.g.ret || tok0 != .none) then (coreOp s (.ret h), true)
    else (s, false)
  let fin (s : State cfg.g) : M (State cfg.g × Bool) :=
    .ok (modClient (msgWrite s h "NOTIFY_CNF" szNotifyCnf s!"scan{(getDev s d).scanning}") h (fun c => { c with ind := 0 }), true)
  if upd1 || upd2 then
    match channelUpdate cfg s d (some h) forced with
    | .error e => .error e
    | .ok (s, _) => fin s
  else fin s

/-- vbi_proxyd_take_message; `false` = message not expected in this state (the caller closes the connection) -/
def takeMessage (cfg : Cfg) (s : State cfg.g) (h : Nat) (m : Msg) : M (State cfg.g × Bool) :=
  match findClient s h with
  | none => .ok (s, false)
  | some req =>
    let d := req.dev
    if m.type == tCONNECTREQ then
      (if req.st != .waitCon then .ok (s, false) else onConnect cfg s h d m)
    else if m.type == tDAEMONPIDREQ then
      (if req.st != .waitCon then .ok (s, false)
       else .ok (modClient (msgWrite s h "PID_CNF" szPidCnf "magic1") h (fun c => { c with st := .waitClose }), true))
    else if m.type == tSERVICEREQ then
      (if req.st != .forward then .ok (s, false) else onService cfg s h d m)
    else if m.type == tCHNTOKENREQ then
      (if req.st != .forward then .ok (s, false) else onTokenReq cfg s h d m)
    else if m.type == tCHNNOTIFYREQ then
      (if req.st != .forward then .ok (s, false) else onNotify cfg s h d m)
    else if m.type == tCHNSUSPENDREQ then .ok (msgWrite s h "SUSPEND_REJ" szSuspendRej, true)
    else if m.type == tCHNIOCTLREQ then
      (if req.st != .forward then .ok (s, false) else
       let argSize := m.u32 oIocArgsize
       let (s, ok) := takeIoctl s h (m.u32 oIocRequest) argSize
       if ok then .ok (msgWrite s h "IOCTL_CNF" (ioctlCnfSize0 + argSize) s!"res-1:err25:as{argSize}", true)
       else .ok (msgWrite s h "IOCTL_REJ" szIoctlRej, true))
    else if m.type == tCHNRECLAIMCNF then
      (if tokOf s h == .release then (channelUpdate cfg (coreOp s (.reclaimCnf h)) d none false).map (fun r => (r.1, true))
       else .ok (s, true))
    else if m.type == tCLOSEREQ then .ok (closeClient s h, true)
    else .ok (s, false)

/-- a complete message has arrived for client `h`: check_msg, then take_message; anything not accepted closes
    this connection -/
def onMessage (cfg : Cfg) (s : State cfg.g) (h : Nat) (m : Msg) (swap : Bool) : M (State cfg.g) :=
  match checkMsg m swap with
  | some sw =>
    let s := modClient s h (fun c => { c with endianSwap := sw, readOff := 0, readLen := 0, buf := [] })
    match takeMessage cfg s h m with
    | .error e => .error e
    | .ok (s', ok) => .ok (if ok then s' else closeClient s' h)
  | none => .ok (closeClient s h)

/-! ## one iteration of the main loop -/

inductive Sel | rd | wr
deriving DecidableEq, Repr

/-- vbi_proxyd_get_fd_set for one client -/
def fdSet (cfg : Cfg) (c : Client) : M Sel :=
  match readIdle cfg c with
  | .error e => .error e
  | .ok ri => .ok (if !ri then .rd else if c.wr.isSome || c.pend != [] || c.ind != 0 then .wr else .rd)

def slicedText (c : Client) (f : Frame) : String :=
  -- at most vbi_count[0] + vbi_count[1] = 32 of the lines that pass the client's service filter
  let ls := (f.ids.zipIdx.filter (fun p => land p.1 c.allSv != 0)).take 32
  let ids := if ls.isEmpty then "-" else ",".intercalate (ls.map (fun p => hex p.1 ++ "@" ++ toString (7 + p.2)))
  let len := hdr + szSlicedHdr + ls.length * szSlicedLine
  s!"SLICED:{len}:ts{f.seq}:n{ls.length}:raw0:ids{ids}:ok1"

def deliver (s : State g) (h : Nat) (text : String) : State g := setSock s h (fun k => { k with log := k.log ++ [text] })

/-- first part of the client loop body: socket I/O -/
def clientIo (cfg : Cfg) (s : State cfg.g) (h : Nat) (sel : Option Sel) (ready : Bool) : M (State cfg.g × Bool) :=
  match findClient s h with
  | none => .ok (s, false)
  | some c =>
    let sk := getSock s h
    if sel == some .rd && ready && c.wr.isNone then
      match handleRead cfg s.now c sk.inq sk.shut with
      | .error e => .error e
      | .ok (c', inq, ok, blocked) =>
        let s := setSock (modClient s h (fun _ => c')) h (fun k => { k with inq := inq })
        if ok then
          if c'.readOff != 0 && c'.readOff == c'.readLen then
            (onMessage cfg s h { type := be32 c'.buf 4, len := c'.readLen, body := c'.buf.drop hdr } c'.endianSwap).map (·, blocked)
          else .ok (s, blocked)
        else .ok (closeClient s h, blocked)
    else if sel == some .wr && ready && c.wr.isSome then
      if sk.shut || sk.rdShut then .ok (closeClient s h, false)      -- send() fails (EPIPE)
      else match c.wr with
        | some (text, _) => .ok (deliver (modClient s h (fun c => { c with wr := none, lastIo := s.now })) h text, false)
        | none => .ok (s, false)
    else .ok (s, false)

/-- second part: pending close, messages the daemon originates, queued frames -/
def clientIdle (cfg : Cfg) (s : State cfg.g) (h : Nat) (ioBlocked : Bool) : M (State cfg.g) :=
  match findClient s h with
  | none => .ok s
  | some c =>
    if c.st == .waitClose then .ok (closeClient s h) else
    match isIdle cfg c with
    | .error e => .error e
    | .ok false => .ok s
    | .ok true =>
      if tokOf s h == .reclaim then .ok (coreOp (msgWrite s h "RECLAIM_REQ" szReclaimReq) (.sendReclaim h))
      else if tokOf s h == .grant then .ok (coreOp (msgWrite s h "TOKEN_IND" szTokenInd) (.sendGrant h))
      else if c.ind != 0 then
        .ok (modClient (msgWrite s h "CHANGE_IND" szChangeInd s!"fl{c.ind}:scan{(getDev s c.dev).scanning}") h (fun c => { c with ind := 0 }))
      else if c.pend != [] && !ioBlocked then
        -- every waiting frame is written at once (the socket never blocks in the harness)
        if (getSock s h).shut || (getSock s h).rdShut then .ok (closeClient s h)      -- send() of the sliced message fails (EPIPE)
        else .ok (modClient (c.pend.foldl (fun s f => deliver s h (slicedText c f)) s) h (fun c => { c with pend := [], lastIo := s.now }))
      else .ok s

/-- third part: closed socket, time-outs -/
def clientTimeout (cfg : Cfg) (s : State cfg.g) (h : Nat) : M (State cfg.g) :=
  match findClient s h with
  | none => .ok s
  | some c =>
    if !c.sockOpen then .ok (closeClient s h)
    else if c.st == .waitCon && !hasFlag c.flags cfNOTIMEOUTS && s.now > c.lastIo + ioTimeout then
      -- vbi_proxy_msg_check_timeout evaluates is_idle only after the time test
      match isIdle cfg c with
      | .error e => .error e
      | .ok idle =>
        if !idle then .ok (closeClient s h)
        else if s.now > c.lastIo + connectTimeout then .ok (closeClient s h) else .ok s
    else if c.st == .waitCon && s.now > c.lastIo + connectTimeout then .ok (closeClient s h)
    else .ok s

/-- unlink + free of a closed connection: the record leaves the client list and the token machine -/
def unlink (s : State g) (h : Nat) : State g :=
  coreOp { s with clntCount := s.clntCount - 1, clients := s.clients.filter (·.h != h) } (.remove h)

/-- last part: a closed connection is unlinked; services and channel control pass on -/
def clientReap (cfg : Cfg) (s : State cfg.g) (h : Nat) : M (State cfg.g) :=
  match findClient s h with
  | none => .ok s
  | some c =>
    if c.st == .closed then
      let s := unlink s h
      let s := if c.allSv != 0 then (updateServices s c.dev none 0).1 else s
      if (getDev s c.dev).cap then (channelUpdate cfg s c.dev none false).map (·.1) else .ok s
    else .ok s

/-- the body of the client loop of vbi_proxyd_handle_client_sockets for client `h`; `sel` = its fd set at select time,
    `ready` = select reported it -/
def handleClient (cfg : Cfg) (s : State cfg.g) (h : Nat) (sel : Option Sel) (ready : Bool) : M (State cfg.g) :=
  clientIo cfg s h sel ready >>= fun (s, b) => clientIdle cfg s h b >>= fun s => clientTimeout cfg s h >>= fun s => clientReap cfg s h

/-- vbi_proxyd_forward_data (simplified queue, see the header) -/
def forwardData (s : State g) (d : Nat) : M (State g) :=
  let dv := getDev s d
  match dv.fq with
  | [] => .ok s
  | f :: rest =>
    let s := setDev s d (fun x => { x with fq := rest })
    if f.ids.length > dv.maxLines then .error (.assertFail "forward_data:line_count<=max_lines")
    else .ok (modDevClients s d (fun c => if c.st == .forward && c.allSv != 0 then { c with pend := c.pend ++ [f] } else c))

/-- accept on the listening socket of device `d`, then the capture device -/
def acceptAndCapture (s : State g) (listen : Bool) (d : Nat) : M (State g) :=
  let s :=
    if listen then
      match (s.socks.zipIdx.find? (fun p => p.1.dev == d && !p.1.accepted)) with
      | some (_, h) =>
        let s := setSock s h (fun k => { k with accepted := true })
        coreOp { s with clients := s.clients ++ [{ h := h, dev := d, lastIo := s.now }], clntCount := s.clntCount + 1 } (.add h d)
      | none => s
    else s
  if (getDev s d).cap && (getDev s d).fq != [] then forwardData s d else .ok s

def iter (cfg : Cfg) (s : State cfg.g) : M (State cfg.g) :=
  -- fd sets and readiness at select time
  match s.clients.mapM (fun c => (fdSet cfg c).map (fun sel => (c.h, sel))) with
  | .error e => .error e
  | .ok sels =>
    -- proxy.max_conn only gates the TCP/IP listening socket in vbi_proxyd_get_fd_set; the device sockets always listen
    let listen := true
    let ready (p : Nat × Sel) : Bool :=
      match p.2 with
      | .rd => (getSock s p.1).inq != [] || (getSock s p.1).shut
      | .wr => true
    let readyL := sels.map (fun p => (p.1, p.2, ready p))
    (List.range nDev).foldlM (fun s d => acceptAndCapture s listen d) s >>= fun s =>
    readyL.foldlM (fun s (p : Nat × Sel × Bool) => handleClient cfg s p.1 (some p.2.1) p.2.2) s >>= fun s =>
    -- clients accepted in this iteration are in the list but not in the fd sets
    (s.clients.filter (fun c => !(readyL.any (fun p => p.1 == c.h)))).foldlM (fun s c => handleClient cfg s c.h none false) s >>= fun s =>
    if s.schedAlarm then channelTimer cfg { s with schedAlarm := false } else .ok s

/-! ## ops -/

inductive Op
  | connect (d : Nat)
  | send (h : Nat) (bytes : List Nat)
  | shut (h : Nat)
  | shutRd (h : Nat)      -- shutdown(SHUT_RD) on the client side
  | iter
  | tick (n : Nat)
  | alarm
  | frame (d : Nat) (ids : List Nat)
  | devCfg (d sup api scan : Nat) (getScan : Int)
  | maxConn (n : Nat)
  | recv (h : Nat)        -- the client reads its log (no effect on the daemon)
deriving Repr

/-- harness-side preconditions: ops the harness rejects leave everything unchanged -/
def opOk (s : State g) : Op → Bool
  | .connect d => d < nDev && s.socks.length < 16 && (s.socks.filter (fun k => k.dev == d && !k.accepted)).length < 8
  | .send h _ => h < s.socks.length && !(getSock s h).shut
  | .shut h => h < s.socks.length && !(getSock s h).shut
  | .shutRd h => h < s.socks.length && !(getSock s h).shut && !(getSock s h).rdShut
  | .frame d ids => d < nDev && ids.length ≤ 31 && (getDev s d).fq.length < 64
  | .devCfg d .. => d < nDev && s.socks.isEmpty
  | .recv h => h < s.socks.length
  | _ => true

def step (cfg : Cfg) (s : State cfg.g) (op : Op) : M (State cfg.g) :=
  if !opOk s op then .ok s else
  match op with
  | .connect d => .ok { s with socks := s.socks ++ [{ dev := d }] }
  | .send h bs => .ok (if (getSock s h).srvClosed then s else setSock s h (fun k => { k with inq := k.inq ++ bs }))
  | .shut h => .ok (setSock s h (fun k => { k with shut := true }))
  | .shutRd h => .ok (setSock s h (fun k => { k with rdShut := true }))
  | .iter => iter cfg s
  | .tick n =>
    let now := s.now + n
    .ok (match s.alarmAt with
      | some t => if now ≥ t then { s with now := now, alarmAt := none, schedAlarm := true } else { s with now := now }
      | none => { s with now := now })
  | .alarm => .ok { s with schedAlarm := true }
  | .frame d ids => .ok (setDev { s with frameSeq := s.frameSeq + 1 } d (fun x => { x with fq := x.fq ++ [{ seq := s.frameSeq + 1, ids := ids }] }))
  | .devCfg d sup api scan gs => .ok (setDev s d (fun x => { x with sup := sup, cfgApi := api, cfgScan := scan, getScan := gs }))
  | .maxConn n => .ok { s with maxConn := n }
  | .recv h => .ok (setSock s h (fun k => { k with log := [] }))

def init (g : Core.Guards) : State g := {}

/-- run a history from the initial state -/
def run (cfg : Cfg) (ops : List Op) : M (State cfg.g) := ops.foldlM (step cfg) (init cfg.g)

/-- the guards of the current tree, with the scheduler of the code -/
def Cfg.current : Cfg :=
  { conStrictClamp := Gen.Proxy.conStrictClamp, svcStrictClamp := Gen.Proxy.svcStrictClamp, readLenGuard := Gen.Proxy.readLenGuard,
    idleAssertsRemoved := Gen.Proxy.idleAssertsRemoved, flushNullGuard := Gen.Proxy.flushNullGuard,
    g := { ret := Gen.Proxy.tokenReturnGuard, rel := Gen.Proxy.releaseWaitsCnf }, pick := codePick }

/-- all repairs applied, any scheduler -/
def Cfg.repaired (pick : Int → List Cand → Option Nat) : Cfg :=
  { conStrictClamp := true, svcStrictClamp := true, readLenGuard := true, idleAssertsRemoved := true, flushNullGuard := true,
    g := { ret := true, rel := true }, pick := pick }

end Zvbi.Proxy
