import ZvbiModel.Proxy.Model
/-!
# no_fault, part 1: the invariants and the frame rules of the model's primitives

`RI c`   : read-state invariant of one client record (what `vbi_proxy_msg_handle_read` relies on)
`CI x s` : every record `findClient` can return satisfies `RI`, except a CLOSED record of handle `x` (the connection that
           is being torn down in the current pass of `handleClient`)
`DI s`   : every device: queued frames have at most 31 lines, an open device has `max_lines >= 31`
`Fr s s'`: frame relation "s' differs from s only in ways that keep `CI` and `DI`" - reflexive, transitive; the
           bookkeeping functions of the model are shown to be `Fr` steps, so the invariants pass through them.
-/
namespace Zvbi.Proxy
open Zvbi.Gen.Proxy

variable {g : Core.Guards}

/-- the read state `vbi_proxy_msg_handle_read` relies on: no length before the header is complete; afterwards a legal
    length and an offset inside the message -/
def RI (c : Client) : Prop :=
  (c.readOff < hdr → c.readLen = 0) ∧ (hdr ≤ c.readOff → c.readLen ≤ msg ∧ c.readOff ≤ c.readLen)

/-- what the invariant looks at -/
def key (c : Client) : Nat × Bool × Nat × Nat := (c.h, c.st == .closed, c.readOff, c.readLen)

theorem key_eq {a b : Client} (h : key a = key b) :
    a.h = b.h ∧ (a.st = .closed ↔ b.st = .closed) ∧ a.readOff = b.readOff ∧ a.readLen = b.readLen := by
  simp only [key, Prod.mk.injEq] at h
  obtain ⟨h1, h2, h3, h4⟩ := h
  refine ⟨h1, ?_, h3, h4⟩
  constructor
  · intro e; rw [e] at h2; simpa using h2.symm
  · intro e; rw [e] at h2; simpa using h2

theorem RI_of_key {a b : Client} (h : key a = key b) (hr : RI a) : RI b := by
  obtain ⟨_, _, h3, h4⟩ := key_eq h
  unfold RI at *
  rw [← h3, ← h4]; exact hr

def CI (x : Option Nat) (s : State g) : Prop :=
  ∀ h c, findClient s h = some c → RI c ∨ (x = some h ∧ c.st = .closed)

structure DevOk (x : Dev) : Prop where
  fq : ∀ f ∈ x.fq, f.ids.length ≤ 31
  ml : x.cap = true → 31 ≤ x.maxLines

def DI (s : State g) : Prop := ∀ d, DevOk (getDev s d)

/-- key-preservation at the level of `findClient` -/
def KP (s s' : State g) : Prop := ∀ h, (findClient s' h).map key = (findClient s h).map key

/-- per-device monotonicity of `DevOk` -/
def DP (s s' : State g) : Prop := ∀ d, DevOk (getDev s d) → DevOk (getDev s' d)

structure Fr (s s' : State g) : Prop where
  kp : KP s s'
  dp : DP s s'

theorem Fr.refl (s : State g) : Fr s s := ⟨fun _ => rfl, fun _ h => h⟩
theorem Fr.trans {a b c : State g} (h1 : Fr a b) (h2 : Fr b c) : Fr a c :=
  ⟨fun h => (h2.kp h).trans (h1.kp h), fun d h => h2.dp d (h1.dp d h)⟩

theorem ci_of_kp {s s' : State g} {x : Option Nat} (hk : KP s s') (hc : CI x s) : CI x s' := by
  intro h c' hf
  have := hk h
  rw [hf] at this
  cases hf0 : findClient s h with
  | none => rw [hf0] at this; cases this
  | some c =>
    rw [hf0] at this
    simp only [Option.map_some, Option.some.injEq] at this
    obtain ⟨_, hcl, _, _⟩ := key_eq this
    rcases hc h c hf0 with r | ⟨e1, e2⟩
    · exact Or.inl (RI_of_key this.symm r)
    · exact Or.inr ⟨e1, hcl.mpr e2⟩

theorem Fr.ci {s s' : State g} {x : Option Nat} (h : Fr s s') (hc : CI x s) : CI x s' := ci_of_kp h.kp hc
theorem Fr.di {s s' : State g} (h : Fr s s') (hd : DI s) : DI s' := fun d => h.dp d (hd d)

theorem ci_weaken {s : State g} (x : Option Nat) (hc : CI none s) : CI x s := by
  intro h c hf
  rcases hc h c hf with r | ⟨e, _⟩
  · exact Or.inl r
  · cases e

/-! ### lists of client records -/

theorem find_map_h (l : List Client) (gf : Client → Client) (hh : ∀ c, (gf c).h = c.h) (h : Nat) :
    (l.map gf).find? (·.h == h) = (l.find? (·.h == h)).map gf := by
  induction l with
  | nil => rfl
  | cons a l ih =>
    simp only [List.map_cons, List.find?_cons, hh]
    split
    · rfl
    · exact ih

theorem findClient_some {s : State g} {h : Nat} {c : Client} (hf : findClient s h = some c) : c ∈ s.clients ∧ c.h = h := by
  unfold findClient at hf
  exact ⟨List.mem_of_find?_eq_some hf, by simpa using List.find?_some hf⟩

/-- a record-wise update that keeps the keys -/
theorem kp_map {s s' : State g} (gf : Client → Client) (hk : ∀ c, key (gf c) = key c) (hs : s'.clients = s.clients.map gf) : KP s s' := by
  intro h
  have hh : ∀ c, (gf c).h = c.h := fun c => (key_eq (hk c)).1
  unfold findClient
  rw [hs, find_map_h _ gf hh, Option.map_map]
  congr 1
  funext c; exact hk c

/-! ### devices -/

theorem setDev_len (s : State g) (d : Nat) (f : Dev → Dev) : (setDev s d f).devs.length = s.devs.length := by
  simp [setDev]

theorem getDev_setDev (s : State g) (d d' : Nat) (f : Dev → Dev) :
    getDev (setDev s d f) d' = if d' = d ∧ d < s.devs.length then f (getDev s d) else getDev s d' := by
  unfold getDev setDev
  simp only [List.getD_eq_getElem?_getD, List.getElem?_mapIdx]
  by_cases hd : d' < s.devs.length
  · simp only [List.getElem?_eq_getElem hd, Option.map_some, Option.getD_some]
    by_cases e : d' = d
    · subst e; simp [hd]
    · simp [e]
  · have : s.devs[d']? = none := by simp; omega
    simp only [this, Option.map_none, Option.getD_none]
    by_cases e : d' = d
    · subst e; simp [hd]
    · simp [e]

theorem dp_setDev (s : State g) (d : Nat) (f : Dev → Dev) (hf : ∀ x, DevOk x → DevOk (f x)) : DP s (setDev s d f) := by
  intro d' h
  rw [getDev_setDev]
  split
  · rename_i e; rw [← e.1]; exact hf _ h
  · exact h

/-- `setDev` with a function that establishes `DevOk` from the frame bound alone (used where `max_lines` is set) -/
theorem devOk_default : DevOk ({} : Dev) := ⟨by intro f h; simp at h, by intro h; simp at h⟩

/-! ### frame rules of the primitives, in "outermost first" form -/

theorem fr_modClient {s0 s : State g} (h : Nat) (f : Client → Client) (hk : ∀ c, key (f c) = key c) (h0 : Fr s0 s) :
    Fr s0 (modClient s h f) :=
  h0.trans ⟨kp_map (fun c => if c.h == h then f c else c) (by intro c; split <;> simp [hk]) rfl, fun _ x => x⟩

theorem fr_modDevClients {s0 s : State g} (d : Nat) (f : Client → Client) (hk : ∀ c, key (f c) = key c) (h0 : Fr s0 s) :
    Fr s0 (modDevClients s d f) :=
  h0.trans ⟨kp_map (fun c => if c.dev == d then f c else c) (by intro c; split <;> simp [hk]) rfl, fun _ x => x⟩

theorem fr_setDev {s0 s : State g} (d : Nat) (f : Dev → Dev) (hf : ∀ x, DevOk x → DevOk (f x)) (h0 : Fr s0 s) :
    Fr s0 (setDev s d f) :=
  h0.trans ⟨fun _ => rfl, dp_setDev s d f hf⟩

theorem fr_setSock {s0 s : State g} (h : Nat) (f : Sock → Sock) (h0 : Fr s0 s) : Fr s0 (setSock s h f) :=
  h0.trans ⟨fun _ => rfl, fun _ x => x⟩

theorem fr_coreOp {s0 s : State g} (op : Core.COp) (h0 : Fr s0 s) : Fr s0 (coreOp s op) :=
  h0.trans ⟨fun _ => rfl, fun _ x => x⟩

theorem fr_msgWrite {s0 s : State g} (h : Nat) (name : String) (n : Nat) (fields : String) (h0 : Fr s0 s) :
    Fr s0 (msgWrite s h name n fields) :=
  fr_modClient h _ (by intro c; rfl) h0

theorem fr_deliver {s0 s : State g} (h : Nat) (t : String) (h0 : Fr s0 s) : Fr s0 (deliver s h t) :=
  fr_setSock h _ h0

/-- one step of the frame tactic; later files add rules for the composite functions -/
syntax "fr_step" : tactic
macro_rules | `(tactic| fr_step) => `(tactic| split)
macro_rules | `(tactic| fr_step) => `(tactic| dsimp only)
macro_rules | `(tactic| fr_step) => `(tactic| (intro x hx; exact ⟨hx.1, hx.2⟩))
macro_rules | `(tactic| fr_step) => `(tactic| (intro c; first | rfl | (split <;> rfl) | (split <;> (try split) <;> rfl)))
macro_rules | `(tactic| fr_step) => `(tactic| apply fr_deliver)
macro_rules | `(tactic| fr_step) => `(tactic| apply fr_msgWrite)
macro_rules | `(tactic| fr_step) => `(tactic| apply fr_coreOp)
macro_rules | `(tactic| fr_step) => `(tactic| apply fr_setSock)
macro_rules | `(tactic| fr_step) => `(tactic| apply fr_setDev)
macro_rules | `(tactic| fr_step) => `(tactic| apply fr_modDevClients)
macro_rules | `(tactic| fr_step) => `(tactic| apply fr_modClient)
macro_rules | `(tactic| fr_step) => `(tactic| exact Fr.refl _)
macro_rules | `(tactic| fr_step) => `(tactic| assumption)

/-- discharge `Fr s0 (f ...)` goals by peeling the outermost constructor of the state expression -/
macro "fr" : tactic => `(tactic| repeat' fr_step)

/-! ### small functions -/

theorem fr_stopAcq {s0 s : State g} (d : Nat) (h0 : Fr s0 s) : Fr s0 (stopAcq s d) := by
  unfold stopAcq
  split
  · apply fr_setDev _ _ _ h0
    intro x hx; exact ⟨hx.1, by intro h; simp at h⟩
  · exact h0
macro_rules | `(tactic| fr_step) => `(tactic| apply fr_stopAcq)

theorem fr_updateScanning {s0 s : State g} (d : Nat) (b : Bool) (sc : Nat) (h0 : Fr s0 s) : Fr s0 (updateScanning s d b sc) := by
  unfold updateScanning
  fr
macro_rules | `(tactic| fr_step) => `(tactic| apply fr_updateScanning)

theorem fr_channelCompleted {s0 s : State g} (h : Nat) (w : Int) (h0 : Fr s0 s) : Fr s0 (channelCompleted s h w) := by
  unfold channelCompleted
  fr
macro_rules | `(tactic| fr_step) => `(tactic| apply fr_channelCompleted)

theorem fr_channelStopped {s0 s : State g} (h : Nat) (h0 : Fr s0 s) : Fr s0 (channelStopped s h) := by
  unfold channelStopped
  fr
macro_rules | `(tactic| fr_step) => `(tactic| apply fr_channelStopped)

theorem fr_timerUpdate {s0 s : State g} (h0 : Fr s0 s) : Fr s0 (timerUpdate s) :=
  h0.trans ⟨fun _ => rfl, fun _ x => x⟩
macro_rules | `(tactic| fr_step) => `(tactic| apply fr_timerUpdate)

theorem fr_channelFlush {s0 s : State g} (d : Nat) (h0 : Fr s0 s) : Fr s0 (channelFlush s d) := by
  unfold channelFlush
  split
  · dsimp only
    apply fr_modDevClients _ _ (by intro c; split <;> rfl)
    apply fr_modDevClients _ _ (by intro c; rfl)
    apply fr_setDev _ _ _ h0
    intro x hx; exact ⟨by intro f hf; simp at hf, hx.2⟩
  · apply fr_modDevClients _ _ (by intro c; split <;> rfl) h0
macro_rules | `(tactic| fr_step) => `(tactic| apply fr_channelFlush)

/-- folds of frame steps -/
theorem fr_foldl {α : Type} {s0 : State g} (l : List α) (f : State g → α → State g) (hf : ∀ s a, Fr s0 s → Fr s0 (f s a))
    (s : State g) (h0 : Fr s0 s) : Fr s0 (l.foldl f s) := by
  induction l generalizing s with
  | nil => exact h0
  | cons a l ih => exact ih _ (hf s a h0)

end Zvbi.Proxy
