import ZvbiModel.Proxy.Core
/-!
# Abstract spec of channel-token hand-over over the history of events (property C19)

The ghost log of `Core.CState` records, in order, every grant message the daemon produces (`granted`), every message
of a client that gives the token up (`returned`: CHN_NOTIFY_REQ with TOKEN or RELEASE; `reclaimCnf`: CHN_RECLAIM_CNF
answering a reclaim; `tokenReq`: a new CHN_TOKEN_REQ, with which src/proxy-client.c drops `has_token`) and every
disconnect (`gone`).  `holderStep` replays the log: the holder of device `d` is the client of the last grant on `d`
that has not since given the token up or gone away.  `grantsOrdered` is the property: every grant on `d` happens while
`d` has no holder (or goes to the holder itself).
-/
namespace Zvbi.Proxy

/-- the holder of each device after one more event -/
def holderStep (hold : Nat → Option Nat) : Event → (Nat → Option Nat)
  | .granted h d => fun x => if x = d then some h else hold x
  | e => fun x => match hold x with
    | some a => if e.frees a then none else some a
    | none => none

/-- the holder of each device according to a log -/
def holdOf (log : List Event) : Nat → Option Nat := log.foldl holderStep (fun _ => none)

/-- may event `e` happen while `hold` are the holders?  Only a grant is constrained -/
def grantOk (hold : Nat → Option Nat) : Event → Bool
  | .granted h d => (match hold d with | none => true | some a => a == h)
  | _ => true

/-- every grant in the log goes to a device without holder (or to the holder itself) -/
def grantsOrdered : (Nat → Option Nat) → List Event → Bool
  | _, [] => true
  | hold, e :: rest => grantOk hold e && grantsOrdered (holderStep hold e) rest

end Zvbi.Proxy
