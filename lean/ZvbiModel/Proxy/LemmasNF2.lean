import ZvbiModel.Proxy.LemmasNF1
import ZvbiModel.Proxy.Lemmas
/-!
# no_fault, part 2: services, token machine and scheduler functions are frame steps and do not fault
-/
namespace Zvbi.Proxy
open Zvbi.Gen.Proxy

variable {g : Core.Guards}

theorem foldl_inv {α β : Type} (P : β → Prop) (f : β → α → β) (l : List α) (b : β) (h0 : P b)
    (hs : ∀ b a, P b → P (f b a)) : P (l.foldl f b) := by
  induction l generalizing b with
  | nil => exact h0
  | cons a l ih => exact ih _ (hs b a h0)

theorem foldl_fst_map {β γ : Type} (step : List β × γ → β → List β × γ) (F : β → β)
    (hs : ∀ acc c, (step acc c).1 = acc.1 ++ [F c]) (l : List β) (acc : List β × γ) :
    (l.foldl step acc).1 = acc.1 ++ l.map F := by
  induction l generalizing acc with
  | nil => simp
  | cons a l ih => simp [ih, hs]

/-! ### update_services -/

theorem key_updClientServices (sup : Nat) (isNew : Bool) (ni : Int) (c : Client) :
    key (updClientServices sup isNew ni c).1 = key c := by
  unfold updClientServices
  refine foldl_inv (fun (acc : Client × Nat × Nat × Bool) => key acc.1 = key c) _ _ _ rfl ?_
  intro acc i hacc
  obtain ⟨c', dsv, n, e⟩ := acc
  dsimp only
  split
  · exact hacc
  · split <;> exact hacc

theorem getDev_oob (s : State g) (d : Nat) (h : s.devs.length ≤ d) : getDev s d = {} := by
  unfold getDev
  rw [List.getD_eq_getElem?_getD, List.getElem?_eq_none h]
  rfl

/-- "only device `d` may change its `cap` / `max_lines`; no frame queue changes" -/
structure DQ (d : Nat) (s s' : State g) : Prop where
  fq : ∀ d', (getDev s' d').fq = (getDev s d').fq
  other : ∀ d', d' ≠ d → (getDev s' d').cap = (getDev s d').cap ∧ (getDev s' d').maxLines = (getDev s d').maxLines

theorem DQ.refl (d : Nat) (s : State g) : DQ d s s := ⟨fun _ => rfl, fun _ _ => ⟨rfl, rfl⟩⟩
theorem DQ.trans {d : Nat} {a b c : State g} (h1 : DQ d a b) (h2 : DQ d b c) : DQ d a c :=
  ⟨fun d' => (h2.fq d').trans (h1.fq d'),
   fun d' hne => ⟨((h2.other d' hne).1).trans ((h1.other d' hne).1), ((h2.other d' hne).2).trans ((h1.other d' hne).2)⟩⟩

theorem dq_of_devs {d : Nat} {s s' : State g} (h : s'.devs = s.devs) : DQ d s s' := by
  have : ∀ d', getDev s' d' = getDev s d' := by intro d'; unfold getDev; rw [h]
  exact ⟨fun d' => by rw [this], fun d' _ => by rw [this]; exact ⟨rfl, rfl⟩⟩

theorem dq_setDev (s : State g) (d : Nat) (f : Dev → Dev) (hf : ∀ x, (f x).fq = x.fq) : DQ d s (setDev s d f) := by
  constructor
  · intro d'
    rw [getDev_setDev]
    split
    · rename_i e; rw [hf, e.1]
    · rfl
  · intro d' hne
    rw [getDev_setDev]
    simp [hne]

theorem dq_startAcq (s : State g) (d : Nat) : DQ d s (startAcq s d).1 := by
  unfold startAcq
  dsimp only
  split
  · exact dq_setDev _ _ _ (fun _ => rfl)
  · split
    · exact dq_setDev _ _ _ (fun _ => rfl)
    · exact dq_setDev _ _ _ (fun _ => rfl)

theorem dq_stopAcq (s : State g) (d : Nat) : DQ d s (stopAcq s d) := by
  unfold stopAcq
  split
  · exact dq_setDev _ _ _ (fun _ => rfl)
  · exact DQ.refl _ _

theorem cap_stopAcq (s : State g) (d : Nat) : (getDev (stopAcq s d) d).cap = false := by
  unfold stopAcq
  split
  · rename_i hc
    rw [getDev_setDev]
    split
    · rfl
    · rename_i hn
      have hlen : s.devs.length ≤ d := by
        apply Nat.le_of_not_lt; intro h; exact hn ⟨rfl, h⟩
      rw [getDev_oob s d hlen] at hc; simp at hc
  · rename_i hc; simpa using hc

/-- a `setDev` that sets `max_lines := 32` leaves device `d` fit for `forward_data` -/
theorem ml_setDev32 (s : State g) (d : Nat) (f : Dev → Dev) (hf : ∀ x, (f x).maxLines = 32) :
    (getDev (setDev s d f) d).cap = true → 31 ≤ (getDev (setDev s d f) d).maxLines := by
  rw [getDev_setDev]
  by_cases hin : d < s.devs.length
  · simp only [hin, and_self, if_true, hf]; intro _; omega
  · simp only [hin, and_false, if_false]
    rw [getDev_oob s d (Nat.le_of_not_lt hin)]
    intro h; simp at h

/-- from the device frame and the state of device `d` at the end -/
theorem dp_of_dq {d : Nat} {s s' : State g} (hq : DQ d s s') (hb : (getDev s' d).cap = true → 31 ≤ (getDev s' d).maxLines) : DP s s' := by
  intro d' hok
  constructor
  · rw [hq.fq d']; exact hok.fq
  · by_cases e : d' = d
    · subst e; exact hb
    · rw [(hq.other d' e).1, (hq.other d' e).2]; exact hok.ml

theorem fr_clients_map {s0 s : State g} (gf : Client → Client) (hk : ∀ c, key (gf c) = key c) (h0 : Fr s0 s) :
    Fr s0 { s with clients := s.clients.map gf } :=
  h0.trans ⟨kp_map gf hk rfl, fun _ x => x⟩

/-- the client fold of `updTail` is a record-wise map -/
theorem updTail_fold (s : State g) (d : Nat) (nr : Option Nat) (ni : Int) :
    (s.clients.foldl (fun (acc : List Client × Nat × Nat × Bool) c =>
      let (out, dsv, n, e) := acc
      if c.dev == d && c.st == .forward then
        let (c', gr, k, e') := updClientServices (getDev s d).sup (nr == some c.h) ni c
        (out ++ [c'], lor dsv gr, n + k, e || e')
      else (out ++ [c], dsv, n, e)) ([], 0, 0, false)).1 =
    s.clients.map (fun c => if c.dev == d && c.st == .forward then
      (updClientServices (getDev s d).sup (nr == some c.h) ni c).1 else c) := by
  have := foldl_fst_map (β := Client) (γ := Nat × Nat × Bool)
    (fun (acc : List Client × Nat × Nat × Bool) c =>
      let (out, dsv, n, e) := acc
      if c.dev == d && c.st == .forward then
        let (c', gr, k, e') := updClientServices (getDev s d).sup (nr == some c.h) ni c
        (out ++ [c'], lor dsv gr, n + k, e || e')
      else (out ++ [c], dsv, n, e))
    (fun c => if c.dev == d && c.st == .forward then (updClientServices (getDev s d).sup (nr == some c.h) ni c).1 else c)
    (by intro acc c
        obtain ⟨out, dsv, n, e⟩ := acc
        dsimp only
        split <;> rfl)
    s.clients ([], 0, 0, false)
  simpa using this

theorem fr_updTail (s : State g) (d : Nat) (nr : Option Nat) (ni : Int) (e0 : Bool) : Fr s (updTail s d nr ni e0).1 := by
  unfold updTail
  dsimp only
  have hmap := updTail_fold s d nr ni
  generalize s.clients.foldl _ _ = acc at hmap ⊢
  obtain ⟨cs, dsv, n, e⟩ := acc
  dsimp only at hmap ⊢
  subst hmap
  have h1 : Fr s { s with clients := s.clients.map (fun c => if c.dev == d && c.st == .forward then
      (updClientServices (getDev s d).sup (nr == some c.h) ni c).1 else c) } :=
    fr_clients_map _ (by intro c; split; exact key_updClientServices _ _ _ _; rfl) (Fr.refl s)
  by_cases hd : dsv = 0
  · subst hd
    simp only [bne_self_eq_false, Bool.false_eq_true, if_false, beq_self_eq_true, Bool.true_or, if_true]
    apply fr_stopAcq
    apply fr_updateScanning
    refine fr_setDev _ _ ?_ h1
    intro x hx; exact ⟨hx.1, hx.2⟩
  · have hb : (dsv != 0) = true := by simpa using hd
    have hb2 : (dsv == 0) = false := by simpa using hd
    simp only [hb, if_true, hb2, Bool.not_true, Bool.or_false, Bool.false_eq_true, if_false]
    refine fr_setDev _ _ ?_ ?_
    · intro x hx; exact ⟨hx.1, fun _ => by show 31 ≤ 32; omega⟩
    · apply fr_updateScanning
      refine fr_setDev _ _ ?_ h1
      intro x hx; exact ⟨hx.1, hx.2⟩

/-- `max_lines` of the device after the open-device part: 32 whenever it stays open -/
theorem ml_updTail (s : State g) (d : Nat) (nr : Option Nat) (ni : Int) (e0 : Bool) :
    (getDev (updTail s d nr ni e0).1 d).cap = true → 31 ≤ (getDev (updTail s d nr ni e0).1 d).maxLines := by
  unfold updTail
  dsimp only
  generalize s.clients.foldl _ _ = acc
  obtain ⟨cs, dsv, n, e⟩ := acc
  dsimp only
  by_cases hd : dsv = 0
  · subst hd
    simp only [bne_self_eq_false, Bool.false_eq_true, if_false, beq_self_eq_true, Bool.true_or, if_true]
    intro hc
    rw [cap_stopAcq] at hc; cases hc
  · have hb : (dsv != 0) = true := by simpa using hd
    have hb2 : (dsv == 0) = false := by simpa using hd
    simp only [hb, if_true, hb2, Bool.not_true, Bool.or_false, Bool.false_eq_true, if_false]
    exact ml_setDev32 _ d _ (fun _ => rfl)

theorem dq_updateScanning (s : State g) (d : Nat) (b : Bool) (sc : Nat) : DQ d s (updateScanning s d b sc) := by
  unfold updateScanning
  dsimp only
  repeat' split
  all_goals first
    | exact DQ.refl _ _
    | exact (dq_setDev s d _ (by intro x; rfl)).trans (dq_of_devs rfl)

theorem dq_updTail (s : State g) (d : Nat) (nr : Option Nat) (ni : Int) (e0 : Bool) : DQ d s (updTail s d nr ni e0).1 := by
  unfold updTail
  dsimp only
  generalize s.clients.foldl _ _ = acc
  obtain ⟨cs, dsv, n, e⟩ := acc
  dsimp only
  have h1 : DQ d s { s with clients := cs } := dq_of_devs rfl
  have h2 := h1.trans (dq_setDev { s with clients := cs } d
    (fun x => { x with nUpd := x.nUpd + n, decScan := if n > 0 then x.cfgScan else x.decScan }) (fun _ => rfl))
  have h3 := h2.trans (dq_updateScanning _ d false
    (getDev (setDev { s with clients := cs } d
      (fun x => { x with nUpd := x.nUpd + n, decScan := if n > 0 then x.cfgScan else x.decScan })) d).decScan)
  by_cases hd : dsv = 0
  · subst hd
    simp only [bne_self_eq_false, Bool.false_eq_true, if_false, beq_self_eq_true, Bool.true_or, if_true]
    exact h3.trans (dq_stopAcq _ d)
  · have hb : (dsv != 0) = true := by simpa using hd
    have hb2 : (dsv == 0) = false := by simpa using hd
    simp only [hb, if_true, hb2, Bool.not_true, Bool.or_false, Bool.false_eq_true, if_false]
    exact h3.trans (dq_setDev _ d _ (fun _ => rfl))

theorem kp_startAcq (s : State g) (d : Nat) : KP s (startAcq s d).1 := by
  unfold startAcq
  dsimp only
  split
  · exact fun _ => rfl
  · split <;> exact fun _ => rfl

theorem fr_updateServices (s : State g) (d : Nat) (nr : Option Nat) (ni : Int) : Fr s (updateServices s d nr ni).1 := by
  unfold updateServices
  -- case analysis over the way the device is opened
  by_cases hcap : (getDev s d).cap = true
  · simp only [hcap, Bool.not_true, Bool.false_eq_true, if_false]
    exact fr_updTail s d nr ni _
  · have hcap' : (getDev s d).cap = false := by simpa using hcap
    simp only [hcap', Bool.not_false, if_true]
    split
    · -- some client wants services: open the device
      dsimp only
      generalize hst : startAcq s d = st
      obtain ⟨s1, r⟩ := st
      have hq : DQ d s s1 := by have := dq_startAcq s d; rw [hst] at this; exact this
      have hk : KP s s1 := by have := kp_startAcq s d; rw [hst] at this; exact this
      dsimp only
      split
      · rename_i hc1
        refine ⟨hk, dp_of_dq hq ?_⟩
        intro h; simp [h] at hc1
      · refine ⟨fun h => ((fr_updTail s1 d nr ni (!r)).kp h).trans (hk h), ?_⟩
        exact dp_of_dq (hq.trans (dq_updTail s1 d nr ni (!r))) (ml_updTail s1 d nr ni (!r))
    · split
      · have hc : (getDev (stopAcq (startAcq s d).1 d) d).cap = false := cap_stopAcq _ _
        simp only [hc, Bool.not_false, if_true]
        refine ⟨fun h => ((fr_stopAcq d (Fr.refl _)).kp h).trans (kp_startAcq s d h), ?_⟩
        exact dp_of_dq ((dq_startAcq s d).trans (dq_stopAcq _ d)) (by intro h; rw [hc] at h; cases h)
      · simp only [hcap', Bool.not_false, if_true]
        exact Fr.refl s

theorem fr_updateServices' {s0 s : State g} (d : Nat) (nr : Option Nat) (ni : Int) (h0 : Fr s0 s) :
    Fr s0 (updateServices s d nr ni).1 := h0.trans (fr_updateServices s d nr ni)

/-- with a clamped `strict` the service request neither faults nor leaves the frame -/
theorem takeServiceReq_ok (s : State g) (h d services : Nat) (v : Int) :
    ∃ r, takeServiceReq s h d services (clampStrict true v) = .ok r ∧ Fr s r.1 := by
  unfold takeServiceReq
  have hr : 0 ≤ clampStrict true v - minStrict ∧ clampStrict true v - minStrict < (nServices : Int) := by
    unfold clampStrict minStrict maxStrict nServices
    simp only [if_true]
    split
    · decide
    · split
      · decide
      · constructor <;> omega
  have h1 : ¬ (clampStrict true v - minStrict < 0) := by omega
  have h2 : ¬ (clampStrict true v - minStrict ≥ (nServices : Int)) := by omega
  simp only [h1, h2, decide_false, Bool.or_false, Bool.false_eq_true, if_false]
  generalize hm : modClient s h _ = sm
  have fm : Fr s sm := by rw [← hm]; exact fr_modClient h _ (by intro c; rfl) (Fr.refl s)
  have hf := fr_updateServices' d (some h) (clampStrict true v - minStrict) fm
  generalize updateServices sm d (some h) _ = u at hf ⊢
  obtain ⟨s', res, de⟩ := u
  dsimp only at hf ⊢
  split
  · exact ⟨_, rfl, hf⟩
  · exact ⟨_, rfl, hf⟩

/-! ### token machine and scheduler -/

theorem tokenGrant_ok (hret : g.ret = true) (s : State g) (h : Nat) :
    ∃ r, tokenGrant s h = .ok r ∧ r.1 = coreOp s (.grant h) := by
  unfold tokenGrant
  have hi := Core.inv_reachable g hret s.core.ok
  have := Core.owners_le_one hi.uniq hi.excl (recOf s h).dev
  have h2 : ¬ ((Core.owners s.core.st (recOf s h).dev).length > 1) := by omega
  simp [h2]

theorem fr_channelSchedule (cfg : Cfg) {s0 s : State cfg.g} (d : Nat) (h0 : Fr s0 s) : Fr s0 (channelSchedule cfg s d).1 := by
  unfold channelSchedule
  dsimp only
  have hf : Fr s0 (s.clients.foldl (fun (s : State cfg.g) c0 =>
      match findClient s c0.h with
      | some c => if isCand s d c && (tokOf s c.h).controls && s.now - c.lastStart ≥ c.minDur && !c.completed then channelCompleted s c.h s.now else s
      | none => s) s) := by
    apply fr_foldl _ _ _ _ h0
    intro s a hs
    fr
  split
  · split
    · exact fr_channelStopped _ hf
    · exact hf
  · exact hf

theorem flushForced_ok (cfg : Cfg) (hfl : cfg.flushNullGuard = true) (s : State cfg.g) (d : Nat) (forced : Bool) :
    ∃ s', flushForced cfg s d forced = .ok s' ∧ Fr s s' := by
  unfold flushForced
  by_cases hf : forced = true
  · simp only [hf, if_true]
    by_cases hc : (getDev s d).cap = true
    · simp only [hc, Bool.not_true, Bool.false_eq_true, if_false]
      refine ⟨_, rfl, fr_setDev _ _ ?_ (Fr.refl s)⟩
      intro x hx; exact ⟨by intro f hf; simp at hf, hx.2⟩
    · have hc' : (getDev s d).cap = false := by simpa using hc
      simp only [hc', Bool.not_false, if_true, hfl]
      exact ⟨_, rfl, Fr.refl s⟩
  · have hf' : forced = false := by simpa using hf
    simp only [hf', Bool.false_eq_true, if_false]
    exact ⟨_, rfl, Fr.refl s⟩

theorem fr_chnPrep (cfg : Cfg) (s : State cfg.g) (d : Nat) (forced : Bool) : Fr s (chnPrep cfg s d forced).1 := by
  unfold chnPrep
  dsimp only
  generalize s.clients.foldl (fun m c => if c.dev == d && (recOf s c.h).prio > m then (recOf s c.h).prio else m) prioBACKGROUND = maxPrio
  have f1 : Fr s (if (getDev s d).prio != maxPrio then setDev s d (fun x => { x with prio := maxPrio }) else s) := by fr
  split
  · apply fr_foldl _ _ _ _ f1
    intro s a hs
    fr
  · exact f1

theorem fr_chnPick (cfg : Cfg) {s0 s : State cfg.g} (d : Nat) (req : Option Nat) (mp : Nat) (h0 : Fr s0 s) :
    Fr s0 (chnPick cfg s d req mp).1 := by
  unfold chnPick
  split
  · exact fr_channelSchedule cfg d h0
  · split
    · split <;> exact h0
    · exact h0

theorem chnFin_ok {s0 s : State g} (mp : Nat) (r : Bool) (h0 : Fr s0 s) : ∃ x, chnFin s mp r = .ok x ∧ Fr s0 x.1 := by
  unfold chnFin
  refine ⟨_, rfl, ?_⟩
  dsimp only
  split
  · exact fr_timerUpdate h0
  · exact h0

theorem channelUpdate_ok (cfg : Cfg) (hret : cfg.g.ret = true) (hfl : cfg.flushNullGuard = true) (s : State cfg.g) (d : Nat)
    (req : Option Nat) (forced : Bool) : ∃ r, channelUpdate cfg s d req forced = .ok r ∧ Fr s r.1 := by
  unfold channelUpdate
  have f2 := fr_chnPrep cfg s d forced
  generalize chnPrep cfg s d forced = pr at f2 ⊢
  obtain ⟨s2, maxPrio⟩ := pr
  dsimp only at f2 ⊢
  have f3 := fr_chnPick cfg d req maxPrio f2
  generalize chnPick cfg s2 d req maxPrio = pk at f3 ⊢
  obtain ⟨s3, sched⟩ := pk
  dsimp only at f3 ⊢
  have hflush : ∀ (r : Bool), ∃ x, (match flushForced cfg s3 d forced with
      | .error e => (.error e : M (State cfg.g × Bool))
      | .ok s => chnFin s maxPrio r) = .ok x ∧ Fr s x.1 := by
    intro r
    obtain ⟨s4, e4, f4⟩ := flushForced_ok cfg hfl s3 d forced
    rw [e4]
    exact chnFin_ok maxPrio r (f3.trans f4)
  split
  · rename_i p hp
    split
    · obtain ⟨tg, etg, htg⟩ := tokenGrant_ok hret s3 p.h
      rw [etg]
      obtain ⟨s4, free⟩ := tg
      dsimp only at htg ⊢
      have f4 : Fr s s4 := by rw [htg]; exact fr_coreOp _ f3
      split
      · exact chnFin_ok _ _ (fr_modClient _ _ (by intro c; rfl) f4)
      · exact chnFin_ok _ _ f4
    · exact hflush false
  · exact hflush false

theorem channelTimer_ok (cfg : Cfg) (hret : cfg.g.ret = true) (hfl : cfg.flushNullGuard = true) (s : State cfg.g) :
    ∃ s', channelTimer cfg s = .ok s' ∧ Fr s s' := by
  unfold channelTimer
  suffices h : ∀ (l : List Nat) (s1 : State cfg.g), Fr s s1 → ∃ s', l.foldlM (fun (s : State cfg.g) d =>
      if (getDev s d).prio == prioBACKGROUND then
        let cs := s.clients.filter (·.dev == d)
        let doSched := cs.any (fun c => (tokOf s c.h).controls && !c.completed && s.now - c.lastStart ≥ c.minDur)
        if doSched && cs.length > 1 then (channelUpdate cfg s d none false).map (·.1)
        else .ok s
      else .ok s) s1 = .ok s' ∧ Fr s s' from h _ s (Fr.refl s)
  intro l
  induction l with
  | nil => intro s1 h1; exact ⟨s1, rfl, h1⟩
  | cons d l ih =>
    intro s1 h1
    simp only [List.foldlM_cons]
    split
    · split
      · obtain ⟨r, er, fr⟩ := channelUpdate_ok cfg hret hfl s1 d none false
        rw [er]
        simp only [Except.map, bind, Except.bind]
        exact ih _ (h1.trans fr)
      · simp only [bind, Except.bind]; exact ih _ h1
    · simp only [bind, Except.bind]; exact ih _ h1

/-! ### ioctl -/

theorem fr_takeIoctl (s : State g) (h req sz : Nat) : Fr s (takeIoctl s h req sz).1 := by
  unfold takeIoctl
  dsimp only
  by_cases hcap : (getDev s (recOf s h).dev).cap = true
  · simp only [hcap, Bool.not_true, Bool.false_eq_true, if_false]
    exact Fr.refl s
  · have hcap' : (getDev s (recOf s h).dev).cap = false := by simpa using hcap
    simp only [hcap', Bool.not_false, if_true]
    refine ⟨fun x => ((fr_stopAcq _ (Fr.refl _)).kp x).trans (kp_startAcq s _ x), ?_⟩
    exact dp_of_dq ((dq_startAcq s _).trans (dq_stopAcq _ _)) (by intro hc; rw [cap_stopAcq] at hc; cases hc)

end Zvbi.Proxy
