import ZvbiModel.Generated.ProxyLayout
/-!
# Token machine of the proxy daemon (property C19): the part of the per-client state that decides channel control

`Rec` is the projection of `PROXY_CLNT` to `dev_idx`, `chn_state.token_state`, `chn_profile.is_valid`, `chn_prio`.
`COp` are the *only* ways `daemon/proxyd.c` writes these fields:

| op | C code |
|---|---|
| `add` | `vbi_proxyd_add_connection` (calloc: token NONE, no profile, DEFAULT_CHN_PRIO) |
| `remove` | unlink + free in `vbi_proxyd_handle_client_sockets` |
| `grant` | `vbi_proxyd_token_grant` (called by `vbi_proxyd_channel_update` for the scheduler's choice only) |
| `stopped` | `vbi_proxyd_channel_stopped` |
| `tokenReq` | `MSG_TYPE_CHN_TOKEN_REQ`: profile and priority replaced, `memset (&req->chn_state, 0)` |
| `release` / `ret` | `MSG_TYPE_CHN_NOTIFY_REQ` with VBI_PROXY_CHN_RELEASE / VBI_PROXY_CHN_TOKEN |
| `reclaimCnf` | `MSG_TYPE_CHN_RECLAIM_CNF` |
| `sendReclaim` / `sendGrant` | RECLAIM -> RELEASE, GRANT -> GRANTED where the message is written |

`ZvbiModel/Proxy/Model.lean` keeps these fields in a `Reach g` value, so every state of the big model carries the proof
that its token fields were produced by these operations (enforced by the type checker, no refinement proof needed).
The ghost `log` records what the history theorems speak about.
-/
namespace Zvbi.Proxy
open Zvbi.Gen.Proxy

inductive Tok | none | reclaim | release | grant | granted | returned
deriving Repr, DecidableEq, Inhabited

/-- REQ_CONTROLS_CHN -/
def Tok.controls : Tok → Bool
  | .granted => true
  | .returned => true
  | _ => false

/-- ghost events for the history theorems -/
inductive Event
  | granted (h dev : Nat)      -- a grant message (TOKEN_IND, or TOKEN_CNF with token_ind) was produced for client h
  | returned (h dev : Nat)     -- CHN_NOTIFY_REQ with the TOKEN or RELEASE flag took effect
  | reclaimCnf (h dev : Nat)   -- CHN_RECLAIM_CNF processed in state RELEASE
  | tokenReq (h dev : Nat)     -- CHN_TOKEN_REQ processed (proxy-client.c drops `has_token` when it sends one)
  | gone (h dev : Nat)         -- connection closed, record unlinked
deriving Repr, DecidableEq

/-- the events after which client `h` no longer holds the token it was granted -/
def Event.frees (h : Nat) : Event → Bool
  | .returned h' _ => h' == h
  | .reclaimCnf h' _ => h' == h
  | .tokenReq h' _ => h' == h
  | .gone h' _ => h' == h
  | .granted _ _ => false

namespace Core

structure Rec where
  h : Nat
  dev : Nat
  tok : Tok := .none
  valid : Nat := 0
  prio : Nat := prioDEFAULT
deriving Repr, DecidableEq

/-- the client asked for channel control: valid profile at background priority (the scheduler's candidate test) -/
def Rec.asked (r : Rec) : Bool := r.valid != 0 && r.prio == prioBACKGROUND

structure Guards where
  /-- fixes/C19-token-return-by-non-owner -/
  ret : Bool
  /-- fixes/C19-release-waits-for-confirm -/
  rel : Bool
deriving Repr, DecidableEq

structure CState where
  recs : List Rec := []
  log : List Event := []
deriving Repr

inductive COp
  | add (h d : Nat)
  | remove (h : Nat)
  | grant (h : Nat)
  | stopped (h : Nat)
  | tokenReq (h prio valid : Nat)
  | release (h : Nat)
  | ret (h : Nat)
  | reclaimCnf (h : Nat)
  | sendReclaim (h : Nat)
  | sendGrant (h : Nat)
deriving Repr

def find (c : CState) (h : Nat) : Option Rec := c.recs.find? (·.h == h)
def setTok (c : CState) (h : Nat) (t : Tok) : CState :=
  { c with recs := c.recs.map (fun r => if r.h == h then { r with tok := t } else r) }
def addLog (c : CState) (e : Event) : CState := { c with log := c.log ++ [e] }
/-- the records `vbi_proxyd_get_token_owner` finds for a device -/
def owners (c : CState) (d : Nat) : List Rec := c.recs.filter (fun r => r.dev == d && r.tok != .none)

/-- new token state of `vbi_proxyd_token_grant (req)`; the caller has checked that `req` is a candidate -/
def grant (g : Guards) (c : CState) (r : Rec) : CState :=
  match r.tok with
  | .none =>
    match owners c r.dev with
    | [] => setTok c r.h .grant
    | [o] =>
      if o.tok == .grant || o.tok == .returned then setTok (setTok c o.h .none) r.h .grant
      else if o.tok != .release then setTok c o.h .reclaim else c
    | _ => c      -- `assert (p_owner == NULL)` fails; the big model reports the fault
  | .reclaim => setTok c r.h .granted
  | .release => if g.rel then c else setTok c r.h .grant
  | _ => c

/-- return value of `vbi_proxyd_token_grant` (token_free) -/
def grantFree (g : Guards) (c : CState) (r : Rec) : Bool :=
  match r.tok with
  | .none =>
    match owners c r.dev with
    | [] => true
    | [o] => o.tok == .grant || o.tok == .returned
    | _ => false
  | .release => !g.rel
  | _ => true

def apply (g : Guards) (c : CState) : COp → CState
  | .add h d => if (find c h).isSome then c else { c with recs := c.recs ++ [{ h := h, dev := d }] }
  | .remove h =>
    match find c h with
    | some r => addLog { c with recs := c.recs.filter (·.h != h) } (.gone h r.dev)
    | none => c
  | .grant h =>
    match find c h with
    | some r => if r.asked then grant g c r else c
    | none => c
  | .stopped h =>
    match find c h with
    | some r => if r.tok == .granted then setTok c h .reclaim else if r.tok == .returned then setTok c h .none else c
    | none => c
  | .tokenReq h prio valid =>
    match find c h with
    | some r =>
      addLog { c with recs := c.recs.map (fun x => if x.h == h then { x with tok := .none, prio := prio, valid := valid } else x) }
             (.tokenReq h r.dev)
    | none => c
  | .release h =>
    match find c h with
    | some r =>
      let c' := { c with recs := c.recs.map (fun x => if x.h == h then { x with tok := .none, valid := 0 } else x) }
      if r.tok != .none then addLog c' (.returned h r.dev) else c'
    | none => c
  | .ret h =>
    match find c h with
    | some r => if g.ret && r.tok == .none then c else addLog (setTok c h .returned) (.returned h r.dev)
    | none => c
  | .reclaimCnf h =>
    match find c h with
    | some r => if r.tok == .release then addLog (setTok c h .none) (.reclaimCnf h r.dev) else c
    | none => c
  | .sendReclaim h =>
    match find c h with
    | some r => if r.tok == .reclaim then setTok c h .release else c
    | none => c
  | .sendGrant h =>
    match find c h with
    | some r => if r.tok == .grant then addLog (setTok c h .granted) (.granted h r.dev) else c
    | none => c

/-- states of the token machine that the operations can produce -/
inductive Reachable (g : Guards) : CState → Prop
  | init : Reachable g {}
  | step {c : CState} (op : COp) : Reachable g c → Reachable g (apply g c op)

/-- a token-machine state together with the proof that the daemon's operations produced it -/
structure Reach (g : Guards) where
  st : CState
  ok : Reachable g st

def Reach.init (g : Guards) : Reach g := ⟨{}, .init⟩
def Reach.app {g : Guards} (x : Reach g) (op : COp) : Reach g := ⟨apply g x.st op, .step op x.ok⟩

end Core
end Zvbi.Proxy
