import ZvbiModel.Export.Spec
/-! Helper lemmas for the export write layer (C16). -/
namespace Zvbi.Export
open Zvbi.Export.Spec

theorem storeAt_length {b : Bytes} {off : Nat} {src b' : Bytes} (h : storeAt b off src = some b') :
    b'.length = b.length := by
  unfold storeAt at h
  split at h
  · cases h; simp; omega
  · cases h

theorem storeAt_take {b : Bytes} {off : Nat} {src b' : Bytes} (h : storeAt b off src = some b') :
    b'.take off = b.take off := by
  unfold storeAt at h
  split at h
  · next hle =>
    cases h
    have : (List.take off b).length = off := by simp; omega
    rw [List.append_assoc, List.take_append_of_le_length (by omega)]
    simp [List.take_take]
  · cases h

theorem storeAt_take_end {b : Bytes} {off : Nat} {src b' : Bytes} (h : storeAt b off src = some b') :
    b'.take (off + src.length) = b.take off ++ src := by
  unfold storeAt at h
  split at h
  · next hle =>
    cases h
    have h1 : (List.take off b ++ src).length = off + src.length := by simp; omega
    rw [List.take_append_of_le_length (by omega)]
    rw [← h1, List.take_length]
  · cases h

theorem storeAt_isSome {b : Bytes} {off : Nat} {src : Bytes} (h : off + src.length ≤ b.length) :
    ∃ b', storeAt b off src = some b' := by
  unfold storeAt; simp [h]

theorem resize_length (b : Bytes) (n : Nat) : (resize b n).length = n := by
  unfold resize; simp; omega

theorem resize_take {b : Bytes} {n off : Nat} (h1 : off ≤ b.length) (h2 : off ≤ n) :
    (resize b n).take off = b.take off := by
  unfold resize
  rw [List.take_append_of_le_length (by simp; omega)]
  simp [List.take_take]; omega

end Zvbi.Export

namespace Zvbi.Export
open Zvbi.Export.Spec

theorem growVec_spec {env : Env} {old nb : Bytes} {minCap : Nat} (h : growVec env old minCap = some nb) :
    minCap ≤ nb.length ∧ ∀ off, off ≤ old.length → off ≤ minCap → nb.take off = old.take off := by
  simp only [growVec] at h
  generalize hnc : (if old.length ≥ 65536 then max minCap (old.length + 65536) else max minCap (old.length * 2)) = nc at h
  have hnc' : minCap ≤ nc := by subst hnc; split <;> omega
  by_cases h1 : fits env.heapLimit nc = true
  · simp only [h1, ite_true, Option.some.injEq] at h
    subst h
    exact ⟨by rw [resize_length]; exact hnc', fun off a b => resize_take a (by omega)⟩
  · by_cases h2 : nc ≤ minCap
    · simp [h1, h2] at h
    · by_cases h3 : fits env.heapLimit minCap = true
      · simp [h1, h2, h3] at h
        subst h
        exact ⟨by rw [resize_length]; omega, fun off a b => resize_take a b⟩
      · simp [h1, h2, h3] at h

def Healthy (st : St) : Prop := st.werr = false ∧ st.aborted = false ∧ st.fault = none

/-- structural invariant of the write layer state (`t0`, `size`: initial target and caller buffer size) -/
structure Inv0 (t0 : Target) (size : Nat) (st : St) : Prop where
  noOob : ∀ s, st.fault ≠ some (.oob s)
  memSink : isStream st.target = false → st.sink = []
  lenMem : st.target = .mem → st.buf.length = size
  lenUser : t0 = .mem → st.target = .alloc → st.user.length = size
  tgtMem : st.target = .mem → t0 = .mem
  tgtStream : isStream st.target = isStream t0

/-- refinement invariant: what was delivered so far plus what is buffered is the output so far -/
def Content (st : St) (acc : Bytes) : Prop :=
  Healthy st → st.offset ≤ st.buf.length ∧ st.sink ++ st.buf.take st.offset = acc

theorem growSpace_ok {cfg : Cfg} {env : Env} {t0 : Target} {size : Nat} {st : St} {acc : Bytes} {n : Nat}
    (h0 : Inv0 t0 size st) (hc : Content st acc) (hf : st.fault = none) (ha : st.aborted = false)
    (hok : (growSpace cfg env st n).2 = true) :
    let r := (growSpace cfg env st n).1
    Inv0 t0 size r ∧ Healthy r ∧ r.offset = st.offset ∧ r.offset + n ≤ r.buf.length ∧
      r.sink ++ r.buf.take r.offset = acc ∧ r.sink = st.sink := by
  unfold growSpace at hok ⊢
  by_cases h1 : st.offset > st.buf.length
  · simp [h1] at hok
  · simp only [h1, ite_false] at hok ⊢
    by_cases hw : st.werr = true
    · simp [hw] at hok
    · have hw' : st.werr = false := by simpa using hw
      have hh : Healthy st := ⟨hw', ha, hf⟩
      have hcc := hc hh
      simp only [hw', Bool.false_eq_true, ite_false] at hok ⊢
      by_cases h2 : st.buf.length ≥ n ∧ st.offset ≤ st.buf.length - n
      · simp only [h2, and_self, ite_true]
        exact ⟨h0, hh, by trivial, by omega, hcc.2, by trivial⟩
      · simp only [h2, ite_false] at hok ⊢
        by_cases h3 : st.offset + n = 0
        · simp [h3] at hok
        · simp only [h3, ite_false] at hok ⊢
          by_cases hm : st.target = .mem
          · simp only [hm, ite_true] at hok ⊢
            cases hg : growVec env [] (st.offset + n) with
            | none => simp [hg] at hok
            | some nb =>
              simp only [hg] at hok ⊢
              have hs := growVec_spec hg
              have hsink : st.sink = [] := h0.memSink (by simp [hm, isStream])
              have hlen : (st.buf.take st.offset ++ nb.drop st.offset).length = nb.length := by
                simp; omega
              refine ⟨⟨h0.noOob, ?_, ?_, ?_, ?_, ?_⟩, by simp [Healthy, ha, hf], by trivial, ?_, ?_, by trivial⟩
              · intro _; exact hsink
              · intro h; cases h
              · intro _ _; exact h0.lenMem hm
              · intro h; cases h
              · have := h0.tgtStream; simp [hm, isStream] at this ⊢; exact this
              · show st.offset + n ≤ (st.buf.take st.offset ++ nb.drop st.offset).length
                rw [hlen]; exact hs.1
              · show st.sink ++ (st.buf.take st.offset ++ nb.drop st.offset).take st.offset = acc
                rw [List.take_append_of_le_length (by simp; omega)]
                simp [List.take_take]
                exact hcc.2
          · simp only [hm, ite_false] at hok ⊢
            cases hg : growVec env st.buf (st.offset + n) with
            | none => simp [hg] at hok
            | some nb =>
              simp only [hg] at hok ⊢
              have hs := growVec_spec hg
              refine ⟨⟨h0.noOob, h0.memSink, ?_, h0.lenUser, ?_, h0.tgtStream⟩, by simp [Healthy, ha, hf], by trivial, hs.1, ?_, by trivial⟩
              · intro h; exact absurd h hm
              · intro h; exact absurd h hm
              · show st.sink ++ nb.take st.offset = acc
                rw [hs.2 st.offset (by omega) (by omega)]; exact hcc.2

theorem growSpace_fail {cfg : Cfg} {env : Env} {t0 : Target} {size : Nat} {st : St} {n : Nat}
    (h0 : Inv0 t0 size st) (hok : (growSpace cfg env st n).2 = false) :
    Inv0 t0 size (growSpace cfg env st n).1 := by
  unfold growSpace at hok ⊢
  by_cases h1 : st.offset > st.buf.length
  · simp only [h1, ite_true]
    exact ⟨by intro s; simp, h0.memSink, h0.lenMem, h0.lenUser, h0.tgtMem, h0.tgtStream⟩
  · simp only [h1, ite_false] at hok ⊢
    by_cases hw : st.werr = true
    · simp only [hw, ite_true]; exact h0
    · have hw' : st.werr = false := by simpa using hw
      simp only [hw', Bool.false_eq_true, ite_false] at hok ⊢
      by_cases h2 : st.buf.length ≥ n ∧ st.offset ≤ st.buf.length - n
      · simp [h2] at hok
      · simp only [h2, ite_false] at hok ⊢
        by_cases h3 : st.offset + n = 0
        · simp only [h3, ite_true]
          exact ⟨by intro s; simp, h0.memSink, h0.lenMem, h0.lenUser, h0.tgtMem, h0.tgtStream⟩
        · simp only [h3, ite_false] at hok ⊢
          by_cases hm : st.target = .mem
          · simp only [hm, ite_true] at hok ⊢
            cases hg : growVec env [] (st.offset + n) with
            | some nb => simp [hg] at hok
            | none =>
              simp only [hg]
              have hsink : st.sink = [] := h0.memSink (by simp [hm, isStream])
              refine ⟨h0.noOob, fun _ => hsink, ?_, ?_, ?_, ?_⟩
              · intro h; cases h
              · intro _ _; exact h0.lenMem hm
              · intro h; cases h
              · have := h0.tgtStream; simp [hm, isStream] at this ⊢; exact this
          · simp only [hm, ite_false] at hok ⊢
            cases hg : growVec env st.buf (st.offset + n) with
            | some nb => simp [hg] at hok
            | none => simp only [hg]; exact h0

end Zvbi.Export

namespace Zvbi.Export
open Zvbi.Export.Spec

theorem Content_of_werr {st : St} {acc : Bytes} (h : st.werr = true) : Content st acc := by
  intro hh; rw [hh.1] at h; cases h
theorem Content_of_aborted {st : St} {acc : Bytes} (h : st.aborted = true) : Content st acc := by
  intro hh; rw [hh.2.1] at h; cases h
theorem Content_of_fault {st : St} {acc : Bytes} (h : st.fault ≠ none) : Content st acc := by
  intro hh; exact absurd hh.2.2 h

theorem Inv0_werr {t0 : Target} {size : Nat} {st : St} (h : Inv0 t0 size st) : Inv0 t0 size { st with werr := true } :=
  ⟨h.noOob, h.memSink, h.lenMem, h.lenUser, h.tgtMem, h.tgtStream⟩
theorem Inv0_aborted {t0 : Target} {size : Nat} {st : St} (h : Inv0 t0 size st) : Inv0 t0 size { st with aborted := true } :=
  ⟨h.noOob, h.memSink, h.lenMem, h.lenUser, h.tgtMem, h.tgtStream⟩
theorem Inv0_ub {t0 : Target} {size : Nat} {st : St} (x : Bool) (h : Inv0 t0 size st) : Inv0 t0 size { st with ub := x } :=
  ⟨h.noOob, h.memSink, h.lenMem, h.lenUser, h.tgtMem, h.tgtStream⟩

theorem append_inv {t0 : Target} {size : Nat} {st : St} {src : Bytes} {site : String} {acc : Bytes}
    (h0 : Inv0 t0 size st) (hh : Healthy st) (hfit : st.offset + src.length ≤ st.buf.length)
    (hc : st.sink ++ st.buf.take st.offset = acc) :
    Inv0 t0 size (append st src site) ∧ Content (append st src site) (acc ++ src) ∧ Healthy (append st src site) := by
  obtain ⟨b, hb⟩ := storeAt_isSome hfit
  unfold append
  rw [hb]
  have hl := storeAt_length hb
  refine ⟨⟨h0.noOob, h0.memSink, ?_, h0.lenUser, h0.tgtMem, h0.tgtStream⟩, ?_, hh⟩
  · intro hm; show b.length = size; rw [hl]; exact h0.lenMem hm
  · intro _
    refine ⟨?_, ?_⟩
    · show st.offset + src.length ≤ b.length; omega
    · show st.sink ++ b.take (st.offset + src.length) = acc ++ src
      rw [storeAt_take_end hb, ← List.append_assoc, hc]

theorem sinkWrite_inv0 {t0 : Target} {size : Nat} {env : Env} {st : St} {bs : Bytes}
    (h0 : Inv0 t0 size st) (hs : isStream st.target = true) : Inv0 t0 size (sinkWrite env st bs).1 := by
  have key : ∀ x : Bytes, Inv0 t0 size { st with sink := x } := fun x =>
    ⟨h0.noOob, (by intro h; rw [hs] at h; cases h), h0.lenMem, h0.lenUser, h0.tgtMem, h0.tgtStream⟩
  unfold sinkWrite
  split
  · exact key _
  · split
    · exact key _
    · exact key _

theorem sinkWrite_ok {env : Env} {st : St} {bs : Bytes} (h : (sinkWrite env st bs).2 = true) :
    (sinkWrite env st bs).1 = { st with sink := st.sink ++ bs } := by
  unfold sinkWrite at h ⊢
  cases hl : env.sinkLimit with
  | none => rfl
  | some l =>
    simp only [hl] at h ⊢
    by_cases hc : st.sink.length + bs.length ≤ l
    · simp [hc]
    · simp [hc] at h

theorem sinkWrite_fields {env : Env} {st : St} {bs : Bytes} :
    ∃ x, (sinkWrite env st bs).1 = { st with sink := x } := by
  unfold sinkWrite
  split
  · exact ⟨_, rfl⟩
  · split <;> exact ⟨_, rfl⟩

/-- result of `fast_flush` on a healthy stream state -/
theorem fastFlush_spec {t0 : Target} {size : Nat} {env : Env} {st : St} {acc : Bytes}
    (h0 : Inv0 t0 size st) (hh : Healthy st) (hs : isStream st.target = true)
    (hc : st.offset ≤ st.buf.length ∧ st.sink ++ st.buf.take st.offset = acc) :
    Inv0 t0 size (fastFlush env st).1 ∧
    ((fastFlush env st).2 = true →
      Healthy (fastFlush env st).1 ∧ (fastFlush env st).1.offset = 0 ∧ (fastFlush env st).1.sink = acc ∧
      (fastFlush env st).1.target = st.target ∧ (fastFlush env st).1.buf = st.buf) ∧
    ((fastFlush env st).2 = false → (fastFlush env st).1.werr = true) := by
  unfold fastFlush
  by_cases hz : st.offset > 0
  · simp only [hz, ite_true]
    have hi := sinkWrite_inv0 (env := env) (bs := st.buf.take st.offset) h0 hs
    cases hok : (sinkWrite env st (st.buf.take st.offset)).2 with
    | true =>
      simp only [ite_true]
      have he := sinkWrite_ok hok
      refine ⟨?_, ?_, (by intro h; cases h)⟩
      · exact ⟨hi.noOob, hi.memSink, hi.lenMem, hi.lenUser, hi.tgtMem, hi.tgtStream⟩
      · intro _
        rw [he]
        refine ⟨hh, ?_, ?_, ?_, ?_⟩
        · trivial
        · exact hc.2
        · trivial
        · trivial
    | false =>
      simp only [Bool.false_eq_true, ite_false]
      exact ⟨Inv0_werr hi, (by intro h; cases h), (fun _ => by trivial)⟩
  · simp only [hz, ite_false]
    have hz' : st.offset = 0 := by omega
    refine ⟨h0, ?_, (by intro h; cases h)⟩
    intro _
    refine ⟨hh, hz', ?_, (by trivial), (by trivial)⟩
    have := hc.2; rw [hz'] at this; simpa using this

end Zvbi.Export

namespace Zvbi.Export
open Zvbi.Export.Spec

def Inv (t0 : Target) (size : Nat) (st : St) (acc : Bytes) : Prop := Inv0 t0 size st ∧ Content st acc

theorem vsn_spec {b : Bytes} {off avail : Nat} {s : Bytes} (h : off + avail ≤ b.length) :
    ∃ b1, vsn b off avail s = some b1 ∧ b1.length = b.length ∧ b1.take off = b.take off ∧
      (s.length < avail → b1.take (off + s.length) = b.take off ++ s) := by
  unfold vsn
  by_cases hz : avail = 0
  · simp only [hz, ite_true]
    exact ⟨b, rfl, rfl, rfl, by intro h; omega⟩
  · simp only [hz, ite_false]
    have hlen : (s.take (avail - 1) ++ [0]).length ≤ avail := by simp; omega
    obtain ⟨b1, hb1⟩ := storeAt_isSome (b := b) (off := off) (src := s.take (avail - 1) ++ [0]) (by omega)
    refine ⟨b1, hb1, storeAt_length hb1, storeAt_take hb1, ?_⟩
    intro hs
    have hst : s.take (avail - 1) = s := List.take_of_length_le (by omega)
    have he := storeAt_take_end hb1
    rw [hst] at he
    have : b1.take (off + s.length) = (b1.take (off + (s ++ [0]).length)).take (off + s.length) := by
      rw [List.take_take]; congr 1; simp; 
    rw [this, he, ← List.append_assoc, List.take_append_of_le_length (by simp; omega)]
    have h2 : (List.take off b ++ s).length = off + s.length := by simp; omega
    rw [← h2, List.take_length]

section steps
variable {cfg : Cfg} {env : Env} {t0 : Target} {size : Nat} {st : St} {acc : Bytes}

theorem putc_inv (c : Nat) (h0 : Inv0 t0 size st) (hc : Content st acc) (hf : st.fault = none) (ha : st.aborted = false) :
    Inv t0 size (putc cfg env st c) (acc ++ [c % 256]) := by
  unfold putc
  cases hok : (growSpace cfg env st 1).2 with
  | false =>
    simp only [hok, Bool.false_eq_true, ite_false]
    exact ⟨Inv0_werr (growSpace_fail h0 hok), Content_of_werr rfl⟩
  | true =>
    simp only [hok, ite_true]
    obtain ⟨i0, hh, _, hfit, hcont, _⟩ := growSpace_ok h0 hc hf ha hok
    have := append_inv (src := [c % 256]) (site := "export.c:1181 putc") i0 hh (by simpa using hfit) hcont
    exact ⟨this.1, this.2.1⟩

theorem grow_append_inv (n : Nat) (bs : Bytes) (site : String) (x : St → Bool) (hn : bs.length ≤ n)
    (h0 : Inv0 t0 size st) (hc : Content st acc) (hf : st.fault = none) (ha : st.aborted = false)
    (hok : (growSpace cfg env st n).2 = true) :
    Inv t0 size (append { (growSpace cfg env st n).1 with ub := x (growSpace cfg env st n).1 } bs site) (acc ++ bs) := by
  obtain ⟨i0, hh, _, hfit, hcont, _⟩ := growSpace_ok h0 hc hf ha hok
  have := append_inv (src := bs) (site := site) (Inv0_ub (x (growSpace cfg env st n).1) i0) hh
    (by show (growSpace cfg env st n).1.offset + bs.length ≤ (growSpace cfg env st n).1.buf.length; omega) hcont
  exact ⟨this.1, this.2.1⟩

theorem stream_write_inv (bs : Bytes) (h0 : Inv0 t0 size st) (hc : Content st acc) (hh : Healthy st)
    (hs : isStream st.target = true) :
    Inv t0 size
      (if (fastFlush env st).2 = true then
        (if (sinkWrite env (fastFlush env st).1 bs).2 = true then (sinkWrite env (fastFlush env st).1 bs).1
         else { (sinkWrite env (fastFlush env st).1 bs).1 with werr := true })
       else (fastFlush env st).1) (acc ++ bs) := by
  obtain ⟨i1, hT, hF⟩ := fastFlush_spec (env := env) h0 hh hs (hc hh)
  cases hok : (fastFlush env st).2 with
  | false =>
    simp only [hok, Bool.false_eq_true, ite_false]
    exact ⟨i1, Content_of_werr (hF hok)⟩
  | true =>
    simp only [hok, ite_true]
    obtain ⟨hh1, ho1, hs1, ht1, _⟩ := hT hok
    have hs' : isStream (fastFlush env st).1.target = true := by rw [ht1]; exact hs
    have i2 := sinkWrite_inv0 (env := env) (bs := bs) i1 hs'
    cases hok2 : (sinkWrite env (fastFlush env st).1 bs).2 with
    | false =>
      simp only [hok, Bool.false_eq_true, ite_false]
      exact ⟨Inv0_werr i2, Content_of_werr rfl⟩
    | true =>
      simp only [hok, ite_true]
      refine ⟨i2, ?_⟩
      rw [sinkWrite_ok hok2]
      intro _
      refine ⟨?_, ?_⟩
      · show (fastFlush env st).1.offset ≤ _; omega
      · show ((fastFlush env st).1.sink ++ bs) ++ (fastFlush env st).1.buf.take (fastFlush env st).1.offset = acc ++ bs
        rw [ho1, hs1]; simp

theorem write_inv (bs : Bytes) (h0 : Inv0 t0 size st) (hc : Content st acc) (hf : st.fault = none) (ha : st.aborted = false) :
    Inv t0 size (write cfg env st bs) (acc ++ bs) := by
  unfold write
  by_cases hw : st.werr = true
  · simp only [hw, ite_true]; exact ⟨h0, Content_of_werr hw⟩
  · have hw' : st.werr = false := by simpa using hw
    simp only [hw', Bool.false_eq_true, ite_false]
    by_cases hbig : (isStream st.target && decide (bs.length ≥ 4096)) = true
    · simp only [hbig, ite_true]
      have hs : isStream st.target = true := by simp at hbig; exact hbig.1
      exact stream_write_inv bs h0 hc ⟨hw', ha, hf⟩ hs
    · simp only [hbig, Bool.false_eq_true, ite_false]
      cases hok : (growSpace cfg env st bs.length).2 with
      | false =>
        simp only [hok, Bool.false_eq_true, ite_false]
        exact ⟨Inv0_werr (growSpace_fail h0 hok), Content_of_werr rfl⟩
      | true =>
        simp only [hok, ite_true]
        exact grow_append_inv bs.length bs _ (fun r => r.ub || (r.dataNull && bs.isEmpty && !cfg.nullGuard)) (Nat.le_refl _) h0 hc hf ha hok

theorem flush_inv (h0 : Inv0 t0 size st) (hc : Content st acc) (hf : st.fault = none) (ha : st.aborted = false) :
    Inv t0 size (flush env st) acc := by
  unfold flush
  by_cases hw : st.werr = true
  · simp only [hw, ite_true]; exact ⟨h0, hc⟩
  · have hw' : st.werr = false := by simpa using hw
    simp only [hw', Bool.false_eq_true, ite_false]
    by_cases hs : isStream st.target = true
    · simp only [hs, ite_true]
      have hh : Healthy st := ⟨hw', ha, hf⟩
      obtain ⟨i1, hT, hF⟩ := fastFlush_spec (env := env) h0 hh hs (hc hh)
      refine ⟨i1, ?_⟩
      cases hok : (fastFlush env st).2 with
      | false => exact Content_of_werr (hF hok)
      | true =>
        obtain ⟨_, ho1, hs1, _, _⟩ := hT hok
        intro _
        refine ⟨by omega, ?_⟩
        rw [ho1, hs1]; simp
    · simp only [hs, Bool.false_eq_true, ite_false]; exact ⟨h0, hc⟩

theorem direct_inv (n : Nat) (bs : Bytes) (h0 : Inv0 t0 size st) (hc : Content st acc) (hf : st.fault = none) (ha : st.aborted = false) :
    Inv t0 size (direct cfg env st n bs) (acc ++ bs.take n) := by
  unfold direct
  cases hok : (growSpace cfg env st n).2 with
  | false =>
    simp only [hok, Bool.false_eq_true, ite_false]
    exact ⟨Inv0_aborted (growSpace_fail h0 hok), Content_of_aborted rfl⟩
  | true =>
    simp only [hok, ite_true]
    by_cases he : (bs.take n).isEmpty = true
    · simp only [he, ite_true]
      obtain ⟨i0, hh, _, hfit, hcont, _⟩ := growSpace_ok h0 hc hf ha hok
      have : bs.take n = [] := by simpa using he
      rw [this, List.append_nil]
      exact ⟨i0, fun _ => ⟨by omega, hcont⟩⟩
    · simp only [he, Bool.false_eq_true, ite_false]
      have := grow_append_inv (cfg := cfg) (env := env) n (bs.take n) "exporter direct store" (fun r => r.ub)
        (by simp; omega) h0 hc hf ha hok
      exact this

theorem printf_inv (s : Bytes) (h0 : Inv0 t0 size st) (hc : Content st acc) (hf : st.fault = none) (ha : st.aborted = false) :
    Inv t0 size (printf cfg env st s) (acc ++ s) := by
  unfold printf
  by_cases hw : st.werr = true
  · simp only [hw, ite_true]; exact ⟨h0, Content_of_werr hw⟩
  · have hw' : st.werr = false := by simpa using hw
    rw [if_neg hw]
    have hh : Healthy st := ⟨hw', ha, hf⟩
    by_cases hfp : st.target = .fp
    · simp only [hfp, ite_true]
      have hs : isStream st.target = true := by rw [hfp]; rfl
      exact stream_write_inv (env := env) s h0 hc hh hs
    · simp only [hfp, ite_false]
      obtain ⟨hle, hcont⟩ := hc hh
      obtain ⟨b1, hv1, hl1, ht1, he1⟩ :=
        vsn_spec (b := st.buf) (off := st.offset) (avail := st.buf.length - st.offset) (s := s) (by omega)
      simp only [hv1]
      have i1 : Inv0 t0 size { st with buf := b1 } :=
        ⟨h0.noOob, h0.memSink, (by intro hm; show b1.length = size; rw [hl1]; exact h0.lenMem hm), h0.lenUser,
          h0.tgtMem, h0.tgtStream⟩
      by_cases hfit : s.length < st.buf.length - st.offset
      · simp only [hfit, ite_true]
        refine ⟨⟨i1.noOob, i1.memSink, i1.lenMem, i1.lenUser, i1.tgtMem, i1.tgtStream⟩, ?_⟩
        intro _
        refine ⟨?_, ?_⟩
        · show st.offset + s.length ≤ b1.length; omega
        · show st.sink ++ b1.take (st.offset + s.length) = acc ++ s
          rw [he1 hfit, ← List.append_assoc, hcont]
      · simp only [hfit, ite_false]
        have c1 : Content { st with buf := b1 } acc := fun _ =>
          ⟨(by show st.offset ≤ b1.length; omega), (by show st.sink ++ b1.take st.offset = acc; rw [ht1]; exact hcont)⟩
        cases hok : (growSpace cfg env { st with buf := b1 } (s.length + 1)).2 with
        | false =>
          simp only [hok, Bool.false_eq_true, ite_false]
          exact ⟨Inv0_werr (growSpace_fail i1 hok), Content_of_werr rfl⟩
        | true =>
          simp only [hok, ite_true]
          obtain ⟨i2, hh2, ho2, hfit2, hcont2, _⟩ := growSpace_ok i1 c1 hf ha hok
          generalize (growSpace cfg env { st with buf := b1 } (s.length + 1)).1 = r at *
          have ho2' : r.offset = st.offset := ho2
          obtain ⟨b2, hv2, hl2, ht2, he2⟩ :=
            vsn_spec (b := r.buf) (off := st.offset) (avail := r.buf.length - st.offset) (s := s) (by omega)
          simp only [hv2]
          have hfit3 : s.length < r.buf.length - st.offset := by omega
          simp only [hfit3, ite_true]
          refine ⟨⟨i2.noOob, i2.memSink, ?_, i2.lenUser, i2.tgtMem, i2.tgtStream⟩, ?_⟩
          · intro hm; show b2.length = size; rw [hl2]; exact i2.lenMem hm
          · intro _
            refine ⟨?_, ?_⟩
            · show st.offset + s.length ≤ b2.length; omega
            · show r.sink ++ b2.take (st.offset + s.length) = acc ++ s
              rw [he2 hfit3, ← List.append_assoc, ← ho2', hcont2]

theorem step_inv (op : Op) (hI : Inv t0 size st acc) : Inv t0 size (step cfg env st op) (acc ++ opBytes op) := by
  unfold step
  by_cases hg : (st.fault.isSome || st.aborted) = true
  · simp only [hg, ite_true]
    refine ⟨hI.1, ?_⟩
    intro hh
    rw [hh.2.1, hh.2.2] at hg
    simp at hg
  · simp only [hg, Bool.false_eq_true, ite_false]
    have hf : st.fault = none := by
      cases h : st.fault with
      | none => rfl
      | some f => rw [h] at hg; simp at hg
    have ha : st.aborted = false := by
      cases h : st.aborted with
      | false => rfl
      | true => rw [h] at hg; simp at hg
    cases op with
    | putc c => exact putc_inv c hI.1 hI.2 hf ha
    | write bs => exact write_inv bs hI.1 hI.2 hf ha
    | putsNull => simpa [opBytes] using hI
    | puts bs => exact write_inv bs hI.1 hI.2 hf ha
    | printf bs => exact printf_inv bs hI.1 hI.2 hf ha
    | flush => simpa [opBytes] using flush_inv (env := env) hI.1 hI.2 hf ha
    | direct n bs => exact direct_inv n bs hI.1 hI.2 hf ha

theorem run_inv (ops : List Op) : ∀ (st : St) (acc : Bytes), Inv t0 size st acc →
    Inv t0 size (run cfg env st ops) (acc ++ output ops) := by
  induction ops with
  | nil => intro st acc h; simpa [run, output] using h
  | cons op rest ih =>
    intro st acc h
    have := ih (step cfg env st op) (acc ++ opBytes op) (step_inv op h)
    simpa [run, output, List.append_assoc] using this

/-! ### without injected failures nothing fails -/

theorem growVec_unlimited {old : Bytes} {m : Nat} (hl : env.heapLimit = none) : ∃ nb, growVec env old m = some nb := by
  simp [growVec, hl, fits]

theorem growSpace_unlimited (n : Nat) (hl : env.heapLimit = none) (hw : st.werr = false) (hle : st.offset ≤ st.buf.length) :
    (growSpace cfg env st n).2 = true := by
  unfold growSpace
  have h1 : ¬ st.offset > st.buf.length := by omega
  simp only [h1, ite_false, hw, Bool.false_eq_true]
  by_cases h2 : st.buf.length ≥ n ∧ st.offset ≤ st.buf.length - n
  · simp [h2]
  · simp only [h2, ite_false]
    have h3 : ¬ st.offset + n = 0 := by omega
    simp only [h3, ite_false]
    by_cases hm : st.target = .mem
    · simp only [hm, ite_true]
      obtain ⟨nb, hnb⟩ := growVec_unlimited (env := env) (old := []) (m := st.offset + n) hl
      simp [hnb]
    · simp only [hm, ite_false]
      obtain ⟨nb, hnb⟩ := growVec_unlimited (env := env) (old := st.buf) (m := st.offset + n) hl
      simp [hnb]

theorem sinkWrite_unlimited (bs : Bytes) (hl : env.sinkLimit = none) : (sinkWrite env st bs).2 = true := by
  simp [sinkWrite, hl]

theorem fastFlush_unlimited (hl : env.sinkLimit = none) : (fastFlush env st).2 = true := by
  unfold fastFlush
  by_cases hz : st.offset > 0
  · simp [hz, sinkWrite_unlimited (env := env) (st := st) _ hl]
  · simp [hz]

def Unl (env : Env) : Prop := env.heapLimit = none ∧ env.sinkLimit = none

theorem putc_nf (c : Nat) (hu : Unl env) (h0 : Inv0 t0 size st) (hc : Content st acc) (hh : Healthy st) :
    Healthy (putc cfg env st c) := by
  unfold putc
  have hok := growSpace_unlimited (cfg := cfg) (env := env) 1 hu.1 hh.1 (hc hh).1
  simp only [hok, ite_true]
  obtain ⟨i0, hh1, _, hfit, hcont, _⟩ := growSpace_ok h0 hc hh.2.2 hh.2.1 hok
  exact (append_inv (src := [c % 256]) (site := "export.c:1181 putc") i0 hh1 (by simpa using hfit) hcont).2.2

theorem stream_write_nf (bs : Bytes) (hu : Unl env) (h0 : Inv0 t0 size st) (hc : Content st acc) (hh : Healthy st)
    (hs : isStream st.target = true) :
    Healthy
      (if (fastFlush env st).2 = true then
        (if (sinkWrite env (fastFlush env st).1 bs).2 = true then (sinkWrite env (fastFlush env st).1 bs).1
         else { (sinkWrite env (fastFlush env st).1 bs).1 with werr := true })
       else (fastFlush env st).1) := by
  have hok := fastFlush_unlimited (env := env) (st := st) hu.2
  have hok2 := sinkWrite_unlimited (env := env) (st := (fastFlush env st).1) bs hu.2
  simp only [hok, hok2, ite_true]
  obtain ⟨_, hT, _⟩ := fastFlush_spec (env := env) h0 hh hs (hc hh)
  rw [sinkWrite_ok hok2]
  exact (hT hok).1

theorem write_nf (bs : Bytes) (hu : Unl env) (h0 : Inv0 t0 size st) (hc : Content st acc) (hh : Healthy st) :
    Healthy (write cfg env st bs) := by
  unfold write
  have hw : ¬ st.werr = true := by rw [hh.1]; simp
  rw [if_neg hw]
  by_cases hbig : (isStream st.target && decide (bs.length ≥ 4096)) = true
  · simp only [hbig, ite_true]
    have hs : isStream st.target = true := by simp at hbig; exact hbig.1
    exact stream_write_nf bs hu h0 hc hh hs
  · simp only [hbig, Bool.false_eq_true, ite_false]
    have hok := growSpace_unlimited (cfg := cfg) (env := env) bs.length hu.1 hh.1 (hc hh).1
    simp only [hok, ite_true]
    obtain ⟨i0, hh1, _, hfit, hcont, _⟩ := growSpace_ok h0 hc hh.2.2 hh.2.1 hok
    exact (append_inv (src := bs) (site := "export.c:1262 write")
      (Inv0_ub ((growSpace cfg env st bs.length).1.ub || ((growSpace cfg env st bs.length).1.dataNull && bs.isEmpty && !cfg.nullGuard)) i0)
      hh1 (by show (growSpace cfg env st bs.length).1.offset + bs.length ≤ (growSpace cfg env st bs.length).1.buf.length; omega) hcont).2.2

theorem flush_nf (hu : Unl env) (h0 : Inv0 t0 size st) (hc : Content st acc) (hh : Healthy st) :
    Healthy (flush env st) := by
  unfold flush
  have hw : ¬ st.werr = true := by rw [hh.1]; simp
  rw [if_neg hw]
  by_cases hs : isStream st.target = true
  · simp only [hs, ite_true]
    obtain ⟨_, hT, _⟩ := fastFlush_spec (env := env) h0 hh hs (hc hh)
    exact (hT (fastFlush_unlimited hu.2)).1
  · simp only [hs, Bool.false_eq_true, ite_false]; exact hh

theorem direct_nf (n : Nat) (bs : Bytes) (hu : Unl env) (h0 : Inv0 t0 size st) (hc : Content st acc) (hh : Healthy st) :
    Healthy (direct cfg env st n bs) := by
  unfold direct
  have hok := growSpace_unlimited (cfg := cfg) (env := env) n hu.1 hh.1 (hc hh).1
  simp only [hok, ite_true]
  obtain ⟨i0, hh1, _, hfit, hcont, _⟩ := growSpace_ok h0 hc hh.2.2 hh.2.1 hok
  by_cases he : (bs.take n).isEmpty = true
  · simp only [he, ite_true]; exact hh1
  · simp only [he, Bool.false_eq_true, ite_false]
    exact (append_inv (src := bs.take n) (site := "exporter direct store") i0 hh1
      (by have : (bs.take n).length ≤ n := by simp; omega
          omega) hcont).2.2

theorem printf_nf (s : Bytes) (hu : Unl env) (h0 : Inv0 t0 size st) (hc : Content st acc) (hh : Healthy st) :
    Healthy (printf cfg env st s) := by
  unfold printf
  have hw : ¬ st.werr = true := by rw [hh.1]; simp
  rw [if_neg hw]
  by_cases hfp : st.target = .fp
  · simp only [hfp, ite_true]
    have hs : isStream st.target = true := by rw [hfp]; rfl
    exact stream_write_nf s hu h0 hc hh hs
  · simp only [hfp, ite_false]
    obtain ⟨hle, hcont⟩ := hc hh
    obtain ⟨b1, hv1, hl1, ht1, he1⟩ :=
      vsn_spec (b := st.buf) (off := st.offset) (avail := st.buf.length - st.offset) (s := s) (by omega)
    simp only [hv1]
    by_cases hfit : s.length < st.buf.length - st.offset
    · simp only [hfit, ite_true]; exact hh
    · simp only [hfit, ite_false]
      have i1 : Inv0 t0 size { st with buf := b1 } :=
        ⟨h0.noOob, h0.memSink, (by intro hm; show b1.length = size; rw [hl1]; exact h0.lenMem hm), h0.lenUser,
          h0.tgtMem, h0.tgtStream⟩
      have c1 : Content { st with buf := b1 } acc := fun _ =>
        ⟨(by show st.offset ≤ b1.length; omega), (by show st.sink ++ b1.take st.offset = acc; rw [ht1]; exact hcont)⟩
      have hok := growSpace_unlimited (cfg := cfg) (env := env) (st := { st with buf := b1 }) (s.length + 1) hu.1 hh.1
        (by show st.offset ≤ b1.length; omega)
      simp only [hok, ite_true]
      obtain ⟨i2, hh2, ho2, hfit2, hcont2, _⟩ := growSpace_ok i1 c1 hh.2.2 hh.2.1 hok
      generalize (growSpace cfg env { st with buf := b1 } (s.length + 1)).1 = r at *
      have ho2' : r.offset = st.offset := ho2
      obtain ⟨b2, hv2, hl2, ht2, he2⟩ :=
        vsn_spec (b := r.buf) (off := st.offset) (avail := r.buf.length - st.offset) (s := s) (by omega)
      simp only [hv2]
      have hfit3 : s.length < r.buf.length - st.offset := by omega
      simp only [hfit3, ite_true]
      exact hh2

theorem step_nf (op : Op) (hu : Unl env) (hI : Inv t0 size st acc) (hh : Healthy st) : Healthy (step cfg env st op) := by
  unfold step
  have hg : ¬ (st.fault.isSome || st.aborted) = true := by rw [hh.2.1, hh.2.2]; simp
  simp only [hg, Bool.false_eq_true, ite_false]
  cases op with
  | putc c => exact putc_nf c hu hI.1 hI.2 hh
  | write bs => exact write_nf bs hu hI.1 hI.2 hh
  | putsNull => exact hh
  | puts bs => exact write_nf bs hu hI.1 hI.2 hh
  | printf bs => exact printf_nf bs hu hI.1 hI.2 hh
  | flush => exact flush_nf hu hI.1 hI.2 hh
  | direct n bs => exact direct_nf n bs hu hI.1 hI.2 hh

theorem run_nf (hu : Unl env) (ops : List Op) : ∀ (st : St) (acc : Bytes), Inv t0 size st acc → Healthy st →
    Healthy (run cfg env st ops) := by
  induction ops with
  | nil => intro st acc _ h; simpa [run] using h
  | cons op rest ih =>
    intro st acc hI hh
    have := ih (step cfg env st op) (acc ++ opBytes op) (step_inv op hI) (step_nf op hu hI hh)
    simpa [run] using this

theorem init_inv (t : Target) (buf : Bytes) (un : Bool) : Inv t buf.length (init t buf un) [] ∧ Healthy (init t buf un) := by
  refine ⟨⟨⟨?_, ?_, ?_, ?_, ?_, ?_⟩, ?_⟩, ?_⟩
  · intro s; simp [init]
  · intro _; rfl
  · intro _; rfl
  · intro h1 h2; simp [init] at h2; rw [h1] at h2; cases h2
  · intro h; exact h
  · rfl
  · intro _; simp [init]
  · exact ⟨rfl, rfl, rfl⟩

end steps
end Zvbi.Export

namespace Zvbi.Export
open Zvbi.Export.Spec

theorem success_iff_healthy (st : St) : st.success = true ↔ Healthy st := by
  unfold St.success Healthy
  cases st.werr <;> cases st.aborted <;> cases st.fault <;> simp

theorem flush_flags (env : Env) (st : St) : (flush env st).aborted = st.aborted ∧ (flush env st).fault = st.fault := by
  unfold flush
  split
  · exact ⟨rfl, rfl⟩
  · split
    · unfold fastFlush
      split
      · obtain ⟨x, hx⟩ := sinkWrite_fields (env := env) (st := st) (bs := st.buf.take st.offset)
        cases hb : (sinkWrite env st (List.take st.offset st.buf)).2 <;> simp [hx, hb]
      · exact ⟨rfl, rfl⟩
    · exact ⟨rfl, rfl⟩

theorem flush_stream_ok {env : Env} {t0 : Target} {size : Nat} {st : St} {acc : Bytes}
    (h0 : Inv0 t0 size st) (hc : Content st acc) (hh : Healthy st) (hs : isStream st.target = true)
    (hw : (flush env st).werr = false) : (flush env st).sink = acc := by
  unfold flush at hw ⊢
  have hw0 : ¬ st.werr = true := by rw [hh.1]; simp
  rw [if_neg hw0] at hw ⊢
  simp only [hs, ite_true] at hw ⊢
  obtain ⟨_, hT, hF⟩ := fastFlush_spec (env := env) h0 hh hs (hc hh)
  cases hok : (fastFlush env st).2 with
  | true => exact (hT hok).2.2.1
  | false => rw [hF hok] at hw; cases hw

/-- the state after any exporter ran against `vbi_export_mem`-style initial state -/
theorem run_init (cfg : Cfg) (env : Env) (t : Target) (buf : Bytes) (un : Bool) (ops : List Op) :
    Inv t buf.length (run cfg env (init t buf un) ops) (output ops) := by
  have := run_inv (cfg := cfg) (env := env) ops (init t buf un) [] (init_inv t buf un).1
  simpa using this

theorem nonstream_cases {t0 : Target} {size : Nat} {st : St} (h0 : Inv0 t0 size st) (ht : isStream t0 = false) :
    st.target = .mem ∨ st.target = .alloc := by
  have := h0.tgtStream; rw [ht] at this
  cases h : st.target <;> simp [h, isStream] at this ⊢

end Zvbi.Export

/-! ### with the F12 repair `memcpy` never sees a NULL pointer -/
namespace Zvbi.Export

section ub
variable {cfg : Cfg} {env : Env}

theorem growSpace_ub (hg : cfg.nullGuard = true) (st : St) (n : Nat) : (growSpace cfg env st n).1.ub = st.ub := by
  unfold growSpace
  repeat' split
  all_goals simp [hg]

theorem sinkWrite_ub (st : St) (bs : Bytes) : (sinkWrite env st bs).1.ub = st.ub := by
  obtain ⟨x, hx⟩ := sinkWrite_fields (env := env) (st := st) (bs := bs)
  rw [hx]

theorem fastFlush_ub (st : St) : (fastFlush env st).1.ub = st.ub := by
  unfold fastFlush
  simp only
  by_cases hz : st.offset > 0
  · simp only [hz, ite_true]
    cases h : (sinkWrite env st (List.take st.offset st.buf)).2 <;> simp [sinkWrite_ub]
  · simp [hz]

theorem append_ub (st : St) (src : Bytes) (site : String) : (append st src site).ub = st.ub := by
  unfold append oobFault
  split <;> rfl

theorem putc_ub (hg : cfg.nullGuard = true) (st : St) (c : Nat) : (putc cfg env st c).ub = st.ub := by
  unfold putc
  simp only
  cases h : (growSpace cfg env st 1).2 <;> simp [append_ub, growSpace_ub hg]

theorem stream_ub (st : St) (bs : Bytes) :
    (if (fastFlush env st).2 = true then
        (if (sinkWrite env (fastFlush env st).1 bs).2 = true then (sinkWrite env (fastFlush env st).1 bs).1
         else { (sinkWrite env (fastFlush env st).1 bs).1 with werr := true })
       else (fastFlush env st).1).ub = st.ub := by
  cases h1 : (fastFlush env st).2
  · simp [fastFlush_ub]
  · cases h2 : (sinkWrite env (fastFlush env st).1 bs).2 <;> simp [sinkWrite_ub, fastFlush_ub]

theorem write_ub (hg : cfg.nullGuard = true) (st : St) (bs : Bytes) : (write cfg env st bs).ub = st.ub := by
  unfold write
  simp only
  by_cases hw : st.werr = true
  · simp [hw]
  · rw [if_neg hw]
    by_cases hb : (isStream st.target && decide (bs.length ≥ 4096)) = true
    · rw [if_pos hb]; exact stream_ub st bs
    · rw [if_neg hb]
      cases h : (growSpace cfg env st bs.length).2 <;> simp [append_ub, growSpace_ub hg, hg]

theorem flush_ub (st : St) : (flush env st).ub = st.ub := by
  unfold flush
  by_cases hw : st.werr = true
  · simp [hw]
  · rw [if_neg hw]
    by_cases hs : isStream st.target = true
    · rw [if_pos hs]; exact fastFlush_ub st
    · rw [if_neg hs]

theorem direct_ub (hg : cfg.nullGuard = true) (st : St) (n : Nat) (bs : Bytes) : (direct cfg env st n bs).ub = st.ub := by
  unfold direct
  simp only
  cases h : (growSpace cfg env st n).2
  · simp [growSpace_ub hg]
  · by_cases he : (bs.take n).isEmpty = true
    · simp [he, growSpace_ub hg]
    · simp [he, append_ub, growSpace_ub hg]

theorem printf_ub (hg : cfg.nullGuard = true) (st : St) (s : Bytes) : (printf cfg env st s).ub = st.ub := by
  unfold printf
  simp only
  by_cases hw : st.werr = true
  · simp [hw]
  · rw [if_neg hw]
    by_cases hfp : st.target = .fp
    · rw [if_pos hfp]; exact stream_ub st s
    · rw [if_neg hfp]
      cases hv : vsn st.buf st.offset (st.buf.length - st.offset) s with
      | none => simp [oobFault]
      | some b1 =>
        simp only
        by_cases hfit : s.length < st.buf.length - st.offset
        · simp [hfit]
        · rw [if_neg hfit]
          cases h : (growSpace cfg env { st with buf := b1 } (s.length + 1)).2
          · simp [growSpace_ub hg]
          · simp only [ite_true]
            cases hv2 : vsn (growSpace cfg env { st with buf := b1 } (s.length + 1)).1.buf st.offset
                ((growSpace cfg env { st with buf := b1 } (s.length + 1)).1.buf.length - st.offset) s with
            | none => simp [oobFault, growSpace_ub hg]
            | some b2 =>
              simp only
              split <;> simp [growSpace_ub hg]

theorem step_ub (hg : cfg.nullGuard = true) (st : St) (op : Op) : (step cfg env st op).ub = st.ub := by
  unfold step
  split
  · rfl
  · cases op with
    | putc c => exact putc_ub hg st c
    | write bs => exact write_ub hg st bs
    | putsNull => rfl
    | puts bs => exact write_ub hg st bs
    | printf bs => exact printf_ub hg st bs
    | flush => exact flush_ub st
    | direct n bs => exact direct_ub hg st n bs

theorem run_ub (hg : cfg.nullGuard = true) (ops : List Op) : ∀ st : St, (run cfg env st ops).ub = st.ub := by
  induction ops with
  | nil => intro st; rfl
  | cons op rest ih => intro st; simp only [run, List.foldl] at ih ⊢; rw [ih, step_ub hg]

end ub
end Zvbi.Export
