import ZvbiModel.Export.Xpm
import ZvbiModel.Export.LemmasPpm
/-! Helper lemmas for the XPM writer theorems (`Props/C16Xpm.lean`) -/
namespace Zvbi.Export
open Zvbi.Export.Spec

theorem flatMap_length_const {α β : Type} (l : List α) (f : α → List β) (n : Nat) (h : ∀ a ∈ l, (f a).length = n) :
    (l.flatMap f).length = l.length * n := by
  induction l with
  | nil => simp
  | cons a as ih =>
    have := ih (fun q hq => h q (by simp [hq]))
    simp [this, h a (by simp), Nat.succ_mul, Nat.add_comm]

theorem everyOther_length {α : Type} : ∀ (l : List α), (everyOther l).length = (l.length + 1) / 2
  | [] => by simp [everyOther]
  | [_] => by simp [everyOther]
  | _ :: _ :: rest => by
    simp only [everyOther, List.length_cons, everyOther_length rest]; omega

theorem mem_everyOther {α : Type} (x : α) : ∀ (l : List α), x ∈ everyOther l → x ∈ l
  | [], h => by simp [everyOther] at h
  | [a], h => by simpa [everyOther] using h
  | a :: b :: rest, h => by
    simp only [everyOther, List.mem_cons] at h ⊢
    rcases h with h | h
    · exact Or.inl h
    · exact Or.inr (Or.inr (mem_everyOther x rest h))

theorem mem_xpmPick (scale : Nat) (lines : List (List Nat)) (l : List Nat) (h : l ∈ xpmPick scale lines) : l ∈ lines := by
  unfold xpmPick at h
  split at h
  · exact mem_everyOther l lines h
  · split at h
    · obtain ⟨a, ha, hl⟩ := List.mem_flatMap.1 h
      simp at hl; rw [hl]; exact ha
    · exact h

theorem xpmLine_length (line : List Nat) : (xpmLine line).length = line.length + 4 := by simp [xpmLine]

theorem xpmPick_length (scale : Nat) (lines : List (List Nat)) :
    (xpmPick scale lines).length = if scale = 0 then (lines.length + 1) / 2 else if scale = 2 then lines.length * 2 else lines.length := by
  unfold xpmPick
  split
  · exact everyOther_length lines
  · split
    · exact flatMap_length_const lines (fun l => [l, l]) 2 (fun _ _ => rfl)
    · rfl

/-- the bytes of one text row are exactly the `needed` of `xpm_write_row` -/
theorem xpmRowBytes_length (columns : Nat) (dh : Bool) (lines : List (List Nat))
    (hn : lines.length = (ppmGeom columns dh).charH) (hl : ∀ l ∈ lines, l.length = ppmWidth columns (ppmGeom columns dh)) :
    (xpmRowBytes (ppmGeom columns dh).scale lines).length = xpmRowSize columns (ppmGeom columns dh) := by
  have hline : ∀ l ∈ xpmPick (ppmGeom columns dh).scale lines, (xpmLine l).length = ppmWidth columns (ppmGeom columns dh) + 4 := by
    intro l hm; rw [xpmLine_length, hl l (mem_xpmPick _ _ _ hm)]
  unfold xpmRowBytes
  rw [flatMap_length_const _ _ _ hline, xpmPick_length, hn]
  rcases ppmGeom_cases columns dh with h | h | h | h <;> rw [h] <;>
    simp [xpmRowSize, ppmWidth, Nat.shiftLeft_eq, Nat.shiftRight_eq_div_pow] <;> omega

theorem xpmRowOps_output (columns : Nat) (g : PpmGeom) (img : List (List (List Nat)))
    (h : ∀ lines ∈ img, (xpmRowBytes g.scale lines).length = xpmRowSize columns g) :
    output (xpmRowOps columns g img) = img.flatMap (xpmRowBytes g.scale) := by
  induction img with
  | nil => simp [xpmRowOps, output]
  | cons r rs ih =>
    have hr := h r (by simp)
    have ih' := ih (fun q hq => h q (by simp [hq]))
    unfold xpmRowOps at ih' ⊢
    simp only [List.flatMap_cons, output_append, ih']
    simp [output, opBytes, ← hr]

theorem hex2U_length (v : Nat) : (hex2U v).length = 2 := rfl

theorem xpmColorLine_length (tr : Bool) (colorAt : Nat → Nat) (i : Nat) :
    (xpmColorLine tr colorAt i).length = if i = 8 ∧ tr = true then 12 else 15 := by
  unfold xpmColorLine
  split
  · simp [s2b]
  · simp [s2b, hex2U_length]

/-- the colour table: 40 lines of 15 bytes, the `None` line 3 bytes shorter -/
theorem xpmColorTable_length (tr : Bool) (colorAt : Nat → Nat) :
    ((List.range 40).flatMap (xpmColorLine tr colorAt)).length = if tr then 597 else 600 := by
  rw [List.length_flatMap]
  have : (fun i => (xpmColorLine tr colorAt i).length) = fun i => if i = 8 ∧ tr = true then 12 else 15 :=
    funext (xpmColorLine_length tr colorAt)
  rw [this]
  cases tr <;> decide

theorem xpmHeaderOps_output (env : XpmEnv) (colorAt : Nat → Nat) (w h : Nat) :
    output (xpmHeaderOps env colorAt w h)
      = xpmHeaderText w h (xpmExt env) ++ (List.range 40).flatMap (xpmColorLine env.transparency colorAt) ++ xpmPixelsComment := by
  unfold xpmHeaderOps
  simp only [output_append]
  have : output ((List.range 40).map (fun i => Op.printf (xpmColorLine env.transparency colorAt i)))
      = (List.range 40).flatMap (xpmColorLine env.transparency colorAt) := by
    generalize List.range 40 = l
    induction l with
    | nil => simp [output]
    | cons a as ih => simp only [List.map_cons, List.flatMap_cons]; rw [← ih]; simp [output, opBytes]
  rw [this]
  simp [output, opBytes]

/-- every colour code is a character of `xpm_col_codes`, none of them `"`, `\` or a line feed -/
theorem xpmCode_safe (c : Nat) : xpmCode c ∈ xpmColCodes ∧ xpmCode c ≠ 34 ∧ xpmCode c ≠ 92 ∧ xpmCode c ≠ 10 := by
  unfold xpmCode
  split
  · rename_i h
    have : ∀ k, k < 40 → xpmColCodes.getD k 46 ∈ xpmColCodes ∧ xpmColCodes.getD k 46 ≠ 34 ∧ xpmColCodes.getD k 46 ≠ 92
        ∧ xpmColCodes.getD k 46 ≠ 10 := by decide
    exact this c h
  · decide

end Zvbi.Export
