import ZvbiModel.Export.HtmlUnescape
import ZvbiModel.Export.LemmasHtml
/-! Helper lemmas: `unescape` is a left inverse of `escChar` (round trip of the decimal entities included) -/
namespace Zvbi.Export
open Zvbi.Export.Spec

theorem unesc_name (name rest acc : Bytes) (h : 59 ∉ name) :
    unesc (some acc) (name ++ 59 :: rest) = (match entity (acc ++ name) with
      | some c => (unesc none rest).map (c :: ·)
      | none => none) := by
  induction name generalizing acc with
  | nil => simp [unesc]; cases entity acc <;> rfl
  | cons a m ih =>
    have h1 : a ≠ 59 := fun e => h (by simp [e])
    have h2 : 59 ∉ m := fun e => h (by simp [e])
    simp [unesc, h1, ih _ h2, List.append_assoc]

theorem digitsLE_value (f n : Nat) (h : n < 10 ^ f) : (digitsLE f n).foldr (fun d a => a * 10 + d) 0 = n := by
  induction f generalizing n with
  | zero => simp at h; subst h; simp [digitsLE]
  | succ f ih =>
    unfold digitsLE
    split
    · simp
    · have : n / 10 < 10 ^ f := by rw [Nat.pow_succ] at h; omega
      simp [ih _ this]; omega

theorem digitsLE_ne_nil (f n : Nat) : digitsLE (f + 1) n ≠ [] := by
  unfold digitsLE; split <;> simp

theorem dec_value (u : Nat) (h : u < 10 ^ 20) : (dec u).foldl (fun a d => a * 10 + (d - 48)) 0 = u := by
  unfold dec
  rw [List.foldl_map, List.foldl_reverse]
  simpa using digitsLE_value 20 u h

theorem dec_digits (u : Nat) : (dec u).all isDigitB = true := by
  rw [List.all_eq_true]
  intro x hx
  simp [dec] at hx
  obtain ⟨d, hd, rfl⟩ := hx
  have := digitsLE_lt 20 u d hd
  simp [isDigitB]; omega

theorem dec_ne_nil (u : Nat) : dec u ≠ [] := by
  simp [dec]; exact digitsLE_ne_nil 19 u

theorem entity_num (u : Nat) (h : u < 10 ^ 20) : entity (35 :: dec u) = some (.ucs u) := by
  have h1 := dec_digits u
  have h2 := dec_ne_nil u
  have h3 := dec_value u h
  simp [entity, h1, h2, h3]

theorem unesc_escChar (c : HChar) (rest : Bytes) (h : ∀ u, c = .ucs u → u < 10 ^ 20) :
    unesc none (escChar c ++ rest) = (unesc none rest).map (c :: ·) := by
  cases c with
  | byte b =>
    unfold escChar
    by_cases h1 : b = 60
    · subst h1; simp [entLt, unesc, entity]
    · by_cases h2 : b = 62
      · subst h2; simp [entGt, unesc, entity]
      · by_cases h3 : b = 38
        · subst h3; simp [entAmp, unesc, entity]
        · simp [h1, h2, h3, unesc]
  | ucs u =>
    have hp : 59 ∉ (35 :: dec u) := by
      intro hm
      simp at hm
      have := dec_plain u 59 hm
      have hd := dec_digits u
      rw [List.all_eq_true] at hd
      have := hd 59 hm
      simp [isDigitB] at this
    have := unesc_name (35 :: dec u) rest [] hp
    simp only [List.nil_append, entity_num u (h u rfl)] at this
    have h35 : unesc (some []) (35 :: (dec u ++ 59 :: rest)) = unesc (some [35]) (dec u ++ 59 :: rest) := by simp [unesc]
    simp only [escChar, entNum, List.cons_append, List.nil_append, List.append_assoc, unesc]
    rw [← h35]; simpa using this

theorem unescape_escaped (cs : List HChar) (h : ∀ u, HChar.ucs u ∈ cs → u < 10 ^ 20) :
    unescape (cs.flatMap escChar) = some cs := by
  unfold unescape
  induction cs with
  | nil => simp [unesc]
  | cons c cs ih =>
    have ih' := ih (fun u hu => h u (by simp [hu]))
    simp only [List.flatMap_cons]
    rw [unesc_escChar c _ (fun u hu => h u (by simp [hu])), ih']
    simp

end Zvbi.Export

namespace Zvbi.Export
open Zvbi.Export.Spec

theorem pageChar_ucs {conv : Nat → Option Nat} {gfx u v : Nat} (h : pageChar conv gfx u = .ucs v) : v = u := by
  unfold pageChar at h
  split at h
  · split at h
    · split at h
      · cases h; rfl
      · cases h
    · cases h; rfl
  · split at h <;> cases h

theorem pageU_le (reveal : Bool) (c : Cell) : pageU reveal c ≤ max 0x20 c.unicode := by
  unfold pageU; split
  · omega
  · split <;> omega

theorem pageText_ucs_bound (conv : Nat → Option Nat) (gfx : Nat) (reveal : Bool) (cells : List (List Cell)) (B : Nat) (hB : 0x20 ≤ B)
    (h : ∀ r ∈ cells, ∀ c ∈ r, c.unicode ≤ B) : ∀ u, HChar.ucs u ∈ pageText conv gfx reveal cells → u ≤ B := by
  intro u hu
  unfold pageText at hu
  obtain ⟨r, hr, hur⟩ := List.mem_flatMap.1 hu
  simp only [List.mem_append, List.mem_map, List.mem_singleton] at hur
  rcases hur with ⟨c, hc, hcu⟩ | hx
  · have := pageChar_ucs hcu
    have h1 := pageU_le reveal c
    have h2 := h r hr c hc
    omega
  · cases hx

end Zvbi.Export
