import ZvbiModel.Export.Html
/-!
# Model of the PPM writer (exp-gfx.c `ppm_export`), C16

Geometry (`char_width`, `char_height`, `scale` from the page kind and the `aspect` option), header text
`P6 <width> <height> 255\n`, row size, the `needed` estimate per target, and the sequence of write-layer
calls.  Pixel values are symbolic: `rowData` is the list of the converted rows (3 bytes per pixel, R G B; how a
row is obtained from the renderer - copied, line-doubled or averaged - is checked on the real code by the
harness op `ppmexp`, field `px`).

The module grows the buffer once and then stores each row itself; the model writes the rows as
`Op.direct rowSize row`, whose grow step is a no-op because the first `direct needed` made room
(FP / FILE: `flush` after every row resets the offset).
-/
namespace Zvbi.Export

structure PpmGeom where
  charW : Nat
  charH : Nat
  scale : Nat
  deriving Repr, DecidableEq

/-- `if (pg->columns < 40) { CCW, CCH, !!double_height } else { TCW, TCH, 1 + !!double_height }` -/
def ppmGeom (columns : Nat) (doubleHeight : Bool) : PpmGeom :=
  if columns < 40 then ⟨16, 26, if doubleHeight then 1 else 0⟩ else ⟨12, 10, if doubleHeight then 2 else 1⟩

/-- `image_width = char_width * pg->columns` -/
def ppmWidth (columns : Nat) (g : PpmGeom) : Nat := g.charW * columns

/-- `image_height = ((char_height * pg->rows) << scale) >> 1` -/
def ppmHeight (rows : Nat) (g : PpmGeom) : Nat := ((g.charH * rows) <<< g.scale) >>> 1

/-- `ppm_row_size = (((image_width * char_height) << scale) >> 1) * 3` -/
def ppmRowSize (columns : Nat) (g : PpmGeom) : Nat := (((ppmWidth columns g * g.charH) <<< g.scale) >>> 1) * 3

/-- `rgba_row_size = image_width * char_height * sizeof (vbi_rgba)` -/
def rgbaRowSize (columns : Nat) (g : PpmGeom) : Nat := ppmWidth columns g * g.charH * 4

/-- image lines per text row -/
def ppmLines (g : PpmGeom) : Nat := (g.charH <<< g.scale) >>> 1

/-- `"P6 %u %u 255\n"` -/
def ppmHeader (w h : Nat) : Bytes := [80, 54, 32] ++ dec w ++ [32] ++ dec h ++ [32, 50, 53, 53, 10]

/-- the argument of `_vbi_export_grow_buffer_space` -/
def ppmNeeded (t : Target) (columns rows : Nat) (g : PpmGeom) : Nat :=
  match t with
  | .mem => ppmRowSize columns g * rows
  | _ =>
    let margin := if g.scale = 2 then ppmWidth columns g * 4 else 0
    let n := max (rgbaRowSize columns g - margin) (ppmRowSize columns g) + margin
    if t = .alloc then n + 64 + ppmRowSize columns g * (rows - 1) else n

def ppmRowOps (columns : Nat) (g : PpmGeom) (rowData : List Bytes) : List Op :=
  rowData.flatMap fun r => [.direct (ppmRowSize columns g) r, .flush]

/-- `ppm_export`: the write-layer calls for target `t` -/
def ppmOps (t : Target) (columns rows : Nat) (doubleHeight : Bool) (rowData : List Bytes) : List Op :=
  let g := ppmGeom columns doubleHeight
  let hdr := ppmHeader (ppmWidth columns g) (ppmHeight rows g)
  match t with
  | .mem =>
    (match rowData with
     | [] => [.printf hdr, .direct (ppmNeeded t columns rows g) []]
     | r :: rs => [.printf hdr, .direct (ppmNeeded t columns rows g) r, .flush] ++ ppmRowOps columns g rs)
  | _ => [.direct (ppmNeeded t columns rows g) [], .printf hdr, .flush] ++ ppmRowOps columns g rowData

end Zvbi.Export
