import ZvbiModel.Export.Font
/-! Helper lemmas for `Props/C16Font.lean` -/
namespace Zvbi.Export

theorem glyphSpecial_lt (italic : Bool) (c : Nat) : glyphSpecial italic c < fontGlyphs := by
  unfold glyphSpecial
  simp only []
  split
  · rename_i h
    have : wstSpecials.length = 41 := rfl
    rw [this] at h
    split <;> (unfold fontGlyphs; omega)
  · decide

theorem glyphTail_lt (italic : Bool) (g : Nat) (h : g < 31 * 32) : glyphTail true italic g < fontGlyphs := by
  unfold glyphTail fontGlyphs
  cases italic <;> simp
  · omega
  · split <;> omega

theorem g1_xor (k : Nat) (hk : k < 256) : ((0xEE00 + k) ^^^ 0x20) - 0xEE00 + 23 * 32 < 1536 := by
  revert k; decide +kernel

theorem unicodeWstfont2_lt (c : Nat) (italic : Bool) : unicodeWstfont2 true c italic < fontGlyphs := by
  unfold unicodeWstfont2
  have hinv : glyphInvalid < fontGlyphs := by decide
  split
  · split
    · split
      · exact hinv
      · exact glyphTail_lt _ _ (by omega)
    · split
      · exact hinv
      · exact glyphTail_lt _ _ (by omega)
  · split
    · split
      · split
        · split
          · exact glyphSpecial_lt _ _
          · exact glyphTail_lt _ _ (by omega)
        · split
          · exact hinv
          · exact glyphTail_lt _ _ (by omega)
      · split
        · split
          · split
            · exact hinv
            · unfold fontGlyphs; omega
          · split
            · exact hinv
            · unfold fontGlyphs; omega
        · split
          · unfold fontGlyphs; omega
          · exact glyphSpecial_lt _ _
    · split
      · rename_i h1 h2 h3
        have hk : c - 0xEE00 < 256 := by omega
        have := g1_xor (c - 0xEE00) hk
        have hc : 0xEE00 + (c - 0xEE00) = c := by omega
        rw [hc] at this
        exact this
      · split
        · unfold fontGlyphs; omega
        · exact hinv

end Zvbi.Export
