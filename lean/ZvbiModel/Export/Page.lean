import ZvbiModel.Export.Model
/-!
# Model of `vbi_print_page_region` (exp-txt.c, table mode) and of the pixel index sets written by
`vbi_draw_vt_page_region` / `vbi_draw_cc_page_region` (exp-gfx.c), C16

`iconv` is a parameter `conv : Nat → Option Bytes` (UCS-2 code -> bytes in the target
encoding, `none` = not representable); the converter is assumed stateless.
Rendering is modelled as the list of byte runs written into the canvas (`Run`); pixel values are
symbolic (source cell, line in the cell, drawn size), fonts and palettes are not modelled.
-/
namespace Zvbi.Export

/-- `vbi_char`, the fields the modelled code looks at -/
structure Cell where
  unicode : Nat
  size : Nat
  conceal : Bool := false
  flash : Bool := false
  underline : Bool := false
  bold : Bool := false
  italic : Bool := false
  foreground : Nat := 7
  background : Nat := 0
  deriving Repr, DecidableEq, Inhabited

/-- extent of `vbi_page.text[]` (cross-checked with `sizeof` by the harness `consts` op) -/
def textExtent : Nat := 1056

structure Page where
  rows : Nat
  columns : Nat
  text : List Cell
  /-- `pg->drcs[plane] != NULL` -/
  drcs : List Bool
  /-- `pg->color_map[40]` (0xAABBGGRR) -/
  colorMap : List Nat := []
  deriving Repr

-- vbi_size
def sizeNormal : Nat := 0
def sizeDoubleWidth : Nat := 1
def sizeDoubleHeight : Nat := 2
def sizeDoubleSize : Nat := 3
def sizeOverTop : Nat := 4
def sizeOverBottom : Nat := 5
def sizeDoubleHeight2 : Nat := 6
def sizeDoubleSize2 : Nat := 7

/-! ## vbi_print_page_region, table mode -/

/-- `**p == 0x40 && unicode != 0x0040`: the conversion result is taken for iconv's '@' replacement
    (with the F27b repair only when it is a single byte) -/
def atSign (cfg : Cfg) (bs : Bytes) (u : Nat) : Bool :=
  bs.head? == some 0x40 && u != 0x40 && (!cfg.atOneByte || bs.length == 1)

/-- first `iconv` call of `print_unicode`: the bytes, if the character converts, fits into `n` bytes
    and is not taken for '@' -/
def firstTry (cfg : Cfg) (conv : Nat → Option Bytes) (u n : Nat) : Option Bytes :=
  match conv u with
  | some bs => if bs.length ≤ n && !atSign cfg bs u then some bs else none
  | none => none

/-- the first `iconv` call fails with E2BIG: the character converts but does not fit -/
def tooBig (conv : Nat → Option Bytes) (u n : Nat) : Bool :=
  match conv u with
  | some bs => decide (n < bs.length)
  | none => false

/-- second `iconv` call: a space -/
def spaceTry (conv : Nat → Option Bytes) (n : Nat) : Option Bytes :=
  match conv 0x20 with
  | some bs => if bs.length ≤ n then some bs else none
  | none => none

/-- exp-txt.c:278 `print_unicode`: the bytes appended at `*p` when `n` bytes are left, `none` = FALSE.
    A character that cannot be converted or comes out as '@' is replaced by a space; one that does not
    fit is replaced by a space too (F27a) unless the repair is present, then the function fails. -/
def printUnicode (cfg : Cfg) (conv : Nat → Option Bytes) (u : Nat) (n : Nat) : Option Bytes :=
  if cfg.printE2big && tooBig conv u n then none
  else
    match firstTry cfg conv u n with
    | some bs => some bs
    | none => spaceTry conv n

/-- `if (ac.size > VBI_DOUBLE_SIZE) ac.unicode = 0x0020` -/
def effUnicode (c : Cell) : Nat := if c.size > sizeDoubleSize then 0x20 else c.unicode

/-- inner loop over one row; `p` = bytes written so far -/
def printCells (cfg : Cfg) (conv : Nat → Option Bytes) (size : Nat) : List Cell → Bytes → Option Bytes
  | [], p => some p
  | c :: cs, p =>
    match printUnicode cfg conv (effUnicode c) (size - p.length) with
    | none => none
    | some bs => printCells cfg conv size cs (p ++ bs)

/-- outer loop; between rows one '\n' is stored after an explicit space check -/
def printRows (cfg : Cfg) (conv : Nat → Option Bytes) (size : Nat) : List (List Cell) → Bytes → Except Fault (Option Bytes)
  | [], p => .ok (some p)
  | [r], p => .ok (printCells cfg conv size r p)
  | r :: rs, p =>
    match printCells cfg conv size r p with
    | none => .ok none
    | some p1 =>
      if size - p1.length < 1 then .ok none        -- left < 1
      else if p1.length < size then printRows cfg conv size rs (p1 ++ [0x0A])   -- *p++ = '\n'
      else .error (.oob "exp-txt.c:459 newline")

/-- a bounded `for` loop whose body can fail -/
def mapE {β : Type} (f : Nat → Except Fault β) : List Nat → Except Fault (List β)
  | [] => .ok []
  | x :: xs =>
    match f x with
    | .error e => .error e
    | .ok y =>
      match mapE f xs with
      | .error e => .error e
      | .ok ys => .ok (y :: ys)

/-- `pg->text[y * pg->columns + x]`, checked against the extent of the array -/
def cellAt (pg : Page) (y x : Nat) : Except Fault (Nat × Cell) :=
  let i := y * pg.columns + x
  match pg.text[i]? with
  | some c => if i < textExtent then .ok (i, c) else .error (.oob "pg->text")
  | none => .error (.oob "pg->text")

/-- the cells of a region (with their index in `pg->text`), row by row -/
def regionCells (pg : Page) (col row w h : Nat) : Except Fault (List (List (Nat × Cell))) :=
  mapE (fun ry => mapE (fun cx => cellAt pg (row + ry) (col + cx)) (List.range w)) (List.range h)

/-- exp-txt.c:346 `vbi_print_page_region (pg, buf, size, format, table = TRUE, ...)`.
    `.ok none` = returns 0 (failure), `.ok (some out)` = returns `out.length` with `out` in `buf`. -/
def printRegion (cfg : Cfg) (conv : Nat → Option Bytes) (pg : Page) (size column row width height : Int) :
    Except Fault (Option Bytes) :=
  let column1 := column + width - 1
  let row1 := row + height - 1
  if size < 0 ∨ column < 0 ∨ column1 ≥ pg.columns ∨ row < 0 ∨ row1 ≥ pg.rows then .ok none
  else
    match regionCells pg column.toNat row.toNat width.toNat height.toNat with
    | .error f => .error f
    | .ok cells => printRows cfg conv size.toNat (cells.map (·.map (·.2))) []

/-! ## region rendering: the byte runs written -/

def isWide (s : Nat) : Bool := s == sizeDoubleWidth || s == sizeDoubleSize || s == sizeDoubleSize2
def isOver (s : Nat) : Bool := s == sizeOverTop || s == sizeOverBottom
def isDblH (s : Nat) : Bool :=
  s == sizeDoubleHeight || s == sizeDoubleSize || s == sizeDoubleHeight2 || s == sizeDoubleSize2

/-- the repair of F14: the size used for a character in the last drawn column -/
def clipSize (s : Nat) : Nat :=
  if s == sizeDoubleWidth then sizeNormal
  else if s == sizeDoubleSize then sizeDoubleHeight
  else if s == sizeDoubleSize2 then sizeDoubleHeight2
  else s

/-- one horizontal run of bytes written into the canvas; the value is symbolic -/
structure Run where
  start : Nat
  len : Nat
  /-- index of the source cell in `pg->text` -/
  cell : Nat
  /-- canvas line within the character cell -/
  dy : Nat
  /-- what was drawn: 0 glyph, 1 DRCS, 2 blank; and with which size -/
  kind : Nat
  size : Nat
  deriving Repr, DecidableEq

/-- byte offset of canvas line `dy` of a character: `canvas += rowstride` per line, but the
    double-height variants address their second line as pixel `x + rowstride / canvas_type` -/
def lineOff (S ct s dy : Nat) : Nat :=
  if isDblH s then (dy / 2) * 2 * S + (dy % 2) * ((S / ct) * ct) else dy * S

/-- the runs `draw_char` / `draw_drcs` / `draw_blank` write for one character whose top left
    byte is at `origin` -/
def cellRuns (S ct cw ch origin idx kind s : Nat) : List Run :=
  (List.range ch).map fun dy =>
    { start := origin + lineOff S ct s dy, len := (if isWide s then 2 else 1) * cw * ct,
      cell := idx, dy := dy, kind := kind, size := s }

def isDrcs (u : Nat) : Bool := u ≥ 0xF000

/-- exp-gfx.c:655-698: what one iteration of the column loop draws (`last` = `count == 1`):
    `none` nothing (OVER_TOP / OVER_BOTTOM), else (kind, size): kind 0 `draw_char`, 1 `draw_drcs`,
    2 `draw_blank` (always one cell wide) -/
def effU (reveal flashOn : Bool) (c : Cell) : Nat :=
  if (c.conceal && !reveal) || (c.flash && !flashOn) then 0x20 else c.unicode

/-- `pg->drcs[(unicode >> 6) & 0x1F] != NULL` -/
def hasFont (drcs : List Bool) (u : Nat) : Bool := drcs.getD ((u >>> 6) &&& 0x1F) false

/-- the size handed to draw_char / draw_drcs; with the F14 repair a wide size is narrowed in the last column -/
def drawSize (cfg : Cfg) (last : Bool) (s : Nat) : Nat := if cfg.wideClip && last then clipSize s else s

def vtDrawn (cfg : Cfg) (drcs : List Bool) (reveal flashOn last : Bool) (c : Cell) : Option (Nat × Nat) :=
  if isOver c.size then none
  else if isDrcs (effU reveal flashOn c) then
    if hasFont drcs (effU reveal flashOn c) then some (1, drawSize cfg last c.size)
    else some (2, sizeNormal)
  else some (0, drawSize cfg last c.size)

def vtCellRuns (cfg : Cfg) (drcs : List Bool) (S ct : Nat) (reveal flashOn : Bool) (origin : Nat) (last : Bool)
    (ic : Nat × Cell) : List Run :=
  match vtDrawn cfg drcs reveal flashOn last ic.2 with
  | none => []
  | some ks => cellRuns S ct 12 10 origin ic.1 ks.1 ks.2

/-- column loop: `canvas += TCW * canvas_type` per character -/
def vtRowRuns (cfg : Cfg) (drcs : List Bool) (S ct : Nat) (reveal flashOn : Bool) (rowOrigin : Nat) :
    Nat → List (Nat × Cell) → List Run
  | _, [] => []
  | cx, ic :: rest =>
    vtCellRuns cfg drcs S ct reveal flashOn (rowOrigin + cx * 12 * ct) rest.isEmpty ic
      ++ vtRowRuns cfg drcs S ct reveal flashOn rowOrigin (cx + 1) rest

/-- row loop: `canvas += row_adv`, i.e. character row `ry` starts at `ry * 10 * rowstride` -/
def vtRuns (cfg : Cfg) (drcs : List Bool) (S ct : Nat) (reveal flashOn : Bool) :
    Nat → List (List (Nat × Cell)) → List Run
  | _, [] => []
  | ry, r :: rest =>
    vtRowRuns cfg drcs S ct reveal flashOn (ry * 10 * S) 0 r ++ vtRuns cfg drcs S ct reveal flashOn (ry + 1) rest

/-- `canvas_type` of a pixel format name: RGBA32_LE 4, PAL8 1, anything else: nothing is drawn -/
def canvasType (fmt : String) : Nat := if fmt == "rgba" then 4 else if fmt == "pal8" then 1 else 0

/-- exp-gfx.c:602 `vbi_draw_vt_page_region`; `stride = none` is `rowstride == -1` -/
def drawVt (cfg : Cfg) (pg : Page) (ct : Nat) (stride : Option Nat) (col row w h : Nat) (reveal flashOn : Bool) :
    Except Fault (List Run) :=
  if ct = 0 then .ok []
  else
    let S := stride.getD (pg.columns * 12 * ct)
    match regionCells pg col row w h with
    | .error f => .error f
    | .ok cells => .ok (vtRuns cfg pg.drcs S ct reveal flashOn 0 cells)

def ccRowRuns (S ct rowOrigin : Nat) : Nat → List (Nat × Cell) → List Run
  | _, [] => []
  | cx, ic :: rest => cellRuns S ct 16 26 (rowOrigin + cx * 16 * ct) ic.1 0 sizeNormal ++ ccRowRuns S ct rowOrigin (cx + 1) rest

def ccRuns (S ct : Nat) : Nat → List (List (Nat × Cell)) → List Run
  | _, [] => []
  | ry, r :: rest => ccRowRuns S ct (ry * 26 * S) 0 r ++ ccRuns S ct (ry + 1) rest

/-- exp-gfx.c:507 `vbi_draw_cc_page_region` -/
def drawCc (pg : Page) (ct : Nat) (stride : Option Nat) (col row w h : Nat) : Except Fault (List Run) :=
  if ct = 0 then .ok []
  else
    let S := stride.getD (pg.columns * 16 * ct)
    match regionCells pg col row w h with
    | .error f => .error f
    | .ok cells => .ok (ccRuns S ct 0 cells)

end Zvbi.Export
