import ZvbiModel.Export.PrintNT
import ZvbiModel.Export.LemmasPrint
/-! Helper lemmas for the non-table mode of `vbi_print_page_region` (`Props/C16PrintNT.lean`) -/
namespace Zvbi.Export

theorem ntSpaces_len {cfg : Cfg} {conv : Nat → Option Bytes} {size : Nat} : ∀ (k : Nat) (p out : Bytes),
    p.length ≤ size → ntSpaces cfg conv size k p = some out → out.length ≤ size := by
  intro k
  induction k with
  | zero => intro p out hp h; simp [ntSpaces] at h; subst h; exact hp
  | succ k ih =>
    intro p out hp h
    unfold ntSpaces at h
    cases hu : printUnicode cfg conv 0x20 (size - p.length) with
    | none => simp [hu] at h
    | some bs =>
      simp only [hu] at h
      have := printUnicode_len hu
      exact ih (p ++ bs) out (by simp; omega) h

theorem ntCells_len {cfg : Cfg} {conv : Nat → Option Bytes} {size : Nat} {isRow0 : Bool} {x0 : Nat} {xl : Option Nat} :
    ∀ (cells : List (Nat × Cell)) (st out : NtRow),
    st.p.length ≤ size → ntCells cfg conv size isRow0 x0 xl cells st = some out → out.p.length ≤ size := by
  intro cells
  induction cells with
  | nil => intro st out hp h; simp [ntCells] at h; subst h; exact hp
  | cons xc rest ih =>
    intro st out hp h
    obtain ⟨x, c⟩ := xc
    unfold ntCells at h
    split at h
    · cases h; exact hp
    · split at h
      · exact ih _ out (by exact hp) h
      · split at h
        · exact ih _ out (by exact hp) h
        · split at h
          · cases h
          · next p1 hfl =>
            split at h
            · cases h
            · next bs hu =>
              have hp1 : p1.length ≤ size := by
                unfold ntFlush at hfl
                split at hfl
                · exact ntSpaces_len _ _ _ hp hfl
                · cases hfl; exact hp
              have := printUnicode_len hu
              exact ih _ out (by simp; omega) h

theorem ntRows_len {cfg : Cfg} {conv : Nat → Option Bytes} {size : Nat} {pg : Page} {column0 : Nat} {column1 : Int} {row0 : Nat} {row1 : Int} :
    ∀ (ys : List Nat) (p out : Bytes) (dh : Nat),
    p.length ≤ size → ntRows cfg conv size pg column0 column1 row0 row1 ys p dh = .ok (some out) → out.length ≤ size := by
  intro ys
  induction ys with
  | nil => intro p out dh hp h; simp [ntRows] at h; subst h; exact hp
  | cons y ys ih =>
    intro p out dh hp h
    unfold ntRows at h
    split at h
    · cases h
    · split at h
      · cases h
      · next st hst =>
        have hst' : st.p.length ≤ size := ntCells_len _ _ _ hp hst
        split at h
        · split at h
          · cases h
          · split at h
            · exact ih _ out _ hst' h
            · split at h
              · cases h
              · next bs hu =>
                have := printUnicode_len hu
                exact ih _ out _ (by simp; omega) h
        · split at h
          · cases h; exact hst'
          · simp only [Except.ok.injEq] at h
            exact ntSpaces_len _ _ _ hst' h

theorem cellAt_error {pg : Page} {y x : Nat} {f : Fault} (h : cellAt pg y x = .error f) : f = .oob "pg->text" := by
  unfold cellAt at h
  dsimp only at h
  split at h
  · split at h
    · cases h
    · cases h; rfl
  · cases h; rfl

theorem mapE_error {β : Type} (g : Nat → Except Fault β) (E : Fault) (hg : ∀ x e, g x = .error e → e = E) :
    ∀ (l : List Nat) (e : Fault), mapE g l = .error e → e = E := by
  intro l
  induction l with
  | nil => intro e h; simp [mapE] at h
  | cons x xs ih =>
    intro e h
    unfold mapE at h
    split at h
    · next e' he => cases h; exact hg x _ he
    · split at h
      · next e' he => cases h; exact ih _ he
      · cases h

/-- the only fault is a read outside `pg->text` -/
theorem ntRows_fault {cfg : Cfg} {conv : Nat → Option Bytes} {size : Nat} {pg : Page} {column0 : Nat} {column1 : Int} {row0 : Nat} {row1 : Int} :
    ∀ (ys : List Nat) (p : Bytes) (dh : Nat) (f : Fault),
    ntRows cfg conv size pg column0 column1 row0 row1 ys p dh = .error f → f = .oob "pg->text" := by
  intro ys
  induction ys with
  | nil => intro p dh f h; simp [ntRows] at h
  | cons y ys ih =>
    intro p dh f h
    unfold ntRows at h
    split at h
    · next f' hc =>
      cases h
      unfold ntRowCells at hc
      refine mapE_error _ _ ?_ _ _ hc
      intro x e he
      split at he
      · cases he
      · next f2 hf2 => cases he; exact cellAt_error hf2
    · split at h
      · cases h
      · split at h
        · split at h
          · cases h
          · split at h
            · exact ih _ _ f h
            · split at h
              · cases h
              · exact ih _ _ f h
        · split at h <;> cases h

end Zvbi.Export
