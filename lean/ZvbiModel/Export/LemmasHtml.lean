import ZvbiModel.Export.HtmlSpec
/-! Helper lemmas for the HTML export theorems (`Props/C16Html.lean`) -/
namespace Zvbi.Export
open Zvbi.Export.Spec

/-! ## bytes that cannot be markup -/

def AllPlain (bs : Bytes) : Prop := ∀ x ∈ bs, Plain x

theorem allPlain_nil : AllPlain [] := by intro x hx; cases hx

theorem allPlain_append {a b : Bytes} : AllPlain (a ++ b) ↔ AllPlain a ∧ AllPlain b := by
  simp [AllPlain, List.mem_append, or_imp, forall_and]

theorem allPlain_cons {a : Nat} {b : Bytes} : AllPlain (a :: b) ↔ Plain a ∧ AllPlain b := by
  simp [AllPlain]

theorem plain_of_range {x lo hi : Nat} (h1 : lo ≤ x) (h2 : x ≤ hi) (h3 : 38 < lo ∧ hi < 60 ∨ 62 < lo) : Plain x := by
  unfold Plain; omega

theorem digitsLE_lt (f n : Nat) : ∀ d ∈ digitsLE f n, d < 10 := by
  induction f generalizing n with
  | zero => intro d hd; simp [digitsLE] at hd
  | succ f ih =>
    intro d hd
    unfold digitsLE at hd
    split at hd
    · simp at hd; omega
    · simp at hd
      rcases hd with h | h
      · omega
      · exact ih _ _ h

theorem digitsLE_length (f n : Nat) : (digitsLE f n).length ≤ f := by
  induction f generalizing n with
  | zero => simp [digitsLE]
  | succ f ih =>
    unfold digitsLE
    split
    · simp
    · simp; exact ih _

theorem dec_length (n : Nat) : (dec n).length ≤ 20 := by
  simp [dec]; exact digitsLE_length 20 n

theorem dec_plain (n : Nat) : AllPlain (dec n) := by
  intro x hx
  simp [dec] at hx
  obtain ⟨d, hd, rfl⟩ := hx
  have := digitsLE_lt 20 n d hd
  unfold Plain; omega

theorem hexDigit_plain (d : Nat) (h : d < 16) : Plain (hexDigit d) := by
  unfold hexDigit Plain; split <;> omega

theorem hashColor_tail_plain (v : Nat) : AllPlain (hashColor v) := by
  intro x hx
  simp [hashColor, hex2] at hx
  rcases hx with h | h | h | h | h | h | h
  · subst h; unfold Plain; omega
  all_goals (subst h; apply hexDigit_plain; omega)

theorem hashColor_length (v : Nat) : (hashColor v).length = 7 := by simp [hashColor, hex2]

/-! ## `strip` -/

theorem strip_true_plain (mid rest : Bytes) (h : AllPlain mid) :
    strip true (mid ++ 62 :: rest) = strip false rest := by
  induction mid with
  | nil => simp [strip]
  | cons a m ih =>
    have ha := (allPlain_cons.1 h)
    have : a ≠ 62 := ha.1.2.1
    simp [strip, this, ih ha.2]

/-- a tag: `<`, bytes that are none of `<` `>` `&`, `>` -/
def TagOk (bs : Bytes) : Prop := ∃ mid, bs = 60 :: (mid ++ [62]) ∧ AllPlain mid

theorem strip_tag {bs : Bytes} (h : TagOk bs) (rest : Bytes) : strip false (bs ++ rest) = strip false rest := by
  obtain ⟨mid, rfl, hm⟩ := h
  have := strip_true_plain mid rest hm
  simp [strip, List.append_assoc, this]

theorem strip_noLt (bs rest : Bytes) (h : 60 ∉ bs) : strip false (bs ++ rest) = bs ++ strip false rest := by
  induction bs with
  | nil => simp
  | cons a m ih =>
    have h1 : a ≠ 60 := fun e => h (by simp [e])
    have h2 : 60 ∉ m := fun e => h (by simp [e])
    simp [strip, h1, ih h2]

/-! ## output of pieces -/

theorem output_append (a b : List Op) : output (a ++ b) = output a ++ output b := by simp [output]
theorem output_nil : output [] = [] := rfl
theorem output_cons (a : Op) (b : List Op) : output (a :: b) = opBytes a ++ output b := by simp [output]

theorem piecesOps_append (a b : List Piece) : piecesOps (a ++ b) = piecesOps a ++ piecesOps b := by simp [piecesOps]
theorem piecesOps_cons (a : Piece) (b : List Piece) : piecesOps (a :: b) = a.ops ++ piecesOps b := by simp [piecesOps]
theorem piecesOps_nil : piecesOps [] = [] := rfl

/-- what the theorems need from one piece -/
def PieceOk (p : Piece) : Prop :=
  if p.isTag then TagOk (output p.ops) else IsEscaped (output p.ops)

theorem isEscaped_noLt {bs : Bytes} (h : IsEscaped bs) : 60 ∉ bs ∧ 62 ∉ bs := by
  rcases h with ⟨b, rfl, hb⟩ | rfl | rfl | rfl | ⟨n, rfl⟩
  · unfold Plain at hb; simp; omega
  · decide
  · decide
  · decide
  · have := dec_plain n
    constructor <;>
    · intro hm
      simp [entNum, List.mem_append] at hm
      have := this _ hm
      unfold Plain at this; omega

theorem strip_pieces (ps : List Piece) (h : ∀ p ∈ ps, PieceOk p) :
    stripTags (output (piecesOps ps)) = output (piecesOps (ps.filter (fun p => !p.isTag))) := by
  unfold stripTags
  induction ps with
  | nil => simp [piecesOps, output, strip]
  | cons p ps ih =>
    have hp := h p (by simp)
    have ih' := ih (fun q hq => h q (by simp [hq]))
    rw [piecesOps_cons, output_append]
    unfold PieceOk at hp
    by_cases ht : p.isTag = true
    · simp only [ht, if_true] at hp
      rw [strip_tag hp, ih']
      simp [List.filter, ht]
    · have ht' : p.isTag = false := by simpa using ht
      simp only [ht', Bool.false_eq_true, if_false] at hp
      rw [strip_noLt _ _ (isEscaped_noLt hp).1, ih']
      simp [List.filter, ht', piecesOps_cons, output_append]

/-! ## the pieces of the model are tags / escaped characters -/

theorem tagOk_const (mid : Bytes) (h : AllPlain mid) : TagOk (60 :: (mid ++ [62])) := ⟨mid, rfl, h⟩

theorem allPlain_decide (bs : Bytes) (h : bs.all (fun x => x != 60 && x != 62 && x != 38) = true) : AllPlain bs := by
  intro x hx
  have := List.all_eq_true.1 h x hx
  simp at this
  exact ⟨this.1.1, this.1.2, this.2⟩

theorem pieceOk_tagP_const {bs : Bytes} (h : TagOk bs) : PieceOk (tagP bs) := by
  simp [PieceOk, tagP, output, opBytes, h]

theorem tagOk_IOff : TagOk tagIOff := tagOk_const [47, 105] (allPlain_decide _ (by decide))
theorem tagOk_IOn : TagOk tagIOn := tagOk_const [105] (allPlain_decide _ (by decide))
theorem tagOk_BOff : TagOk tagBOff := tagOk_const [47, 98] (allPlain_decide _ (by decide))
theorem tagOk_BOn : TagOk tagBOn := tagOk_const [98] (allPlain_decide _ (by decide))
theorem tagOk_UOff : TagOk tagUOff := tagOk_const [47, 117] (allPlain_decide _ (by decide))
theorem tagOk_UOn : TagOk tagUOn := tagOk_const [117] (allPlain_decide _ (by decide))
theorem tagOk_SpanOff : TagOk tagSpanOff := tagOk_const [47, 115, 112, 97, 110] (allPlain_decide _ (by decide))

theorem closers_ok (st : HSt) : ∀ p ∈ closers st, p.isTag = true ∧ PieceOk p := by
  intro p hp
  simp only [closers, List.mem_append] at hp
  rcases hp with ((hp | hp) | hp) | hp <;> (split at hp <;> simp at hp) <;> subst hp
  · exact ⟨rfl, pieceOk_tagP_const tagOk_IOff⟩
  · exact ⟨rfl, pieceOk_tagP_const tagOk_BOff⟩
  · exact ⟨rfl, pieceOk_tagP_const tagOk_UOff⟩
  · exact ⟨rfl, pieceOk_tagP_const tagOk_SpanOff⟩

theorem attrPieces_ok (st : HSt) (c : HCell) : ∀ p ∈ attrPieces st c, p.isTag = true ∧ PieceOk p := by
  intro p hp
  simp only [attrPieces, List.mem_append] at hp
  rcases hp with (hp | hp) | hp <;> (split at hp <;> simp at hp) <;> subst hp
  · refine ⟨rfl, ?_⟩; split
    · exact pieceOk_tagP_const tagOk_UOn
    · exact pieceOk_tagP_const tagOk_UOff
  · refine ⟨rfl, ?_⟩; split
    · exact pieceOk_tagP_const tagOk_BOn
    · exact pieceOk_tagP_const tagOk_BOff
  · refine ⟨rfl, ?_⟩; split
    · exact pieceOk_tagP_const tagOk_IOn
    · exact pieceOk_tagP_const tagOk_IOff

theorem classSpan_ok (ord : Nat) : PieceOk (classSpan ord) := by
  have : output (classSpan ord).ops = 60 :: (([115, 112, 97, 110, 32, 99, 108, 97, 115, 115, 61, 34, 99] ++ dec ord ++ [34]) ++ [62]) := by
    simp [classSpan, output, opBytes, tagSpanClass, tagQuoteGt]
  simp only [PieceOk, classSpan, if_true] at *
  rw [this]
  refine tagOk_const _ ?_
  rw [allPlain_append, allPlain_append]
  exact ⟨⟨allPlain_decide _ (by decide), dec_plain ord⟩, allPlain_decide _ (by decide)⟩

theorem inlineSpan_ok (colorAt : Nat → Nat) (fg bg : Nat) (flash : Bool) : PieceOk (inlineSpan colorAt fg bg flash) := by
  have : output (inlineSpan colorAt fg bg flash).ops =
      60 :: (([115, 112, 97, 110, 32, 115, 116, 121, 108, 101, 61, 34, 99, 111, 108, 111, 114, 58] ++ hashColor (colorAt fg) ++ tagBgColor
        ++ hashColor (colorAt bg) ++ (if flash then tagBlink else []) ++ [34]) ++ [62]) := by
    cases flash <;> simp [inlineSpan, output, opBytes, tagSpanStyle, tagQuoteGt]
  simp only [PieceOk, inlineSpan, if_true] at *
  rw [this]
  refine tagOk_const _ ?_
  simp only [allPlain_append]
  refine ⟨⟨⟨⟨⟨allPlain_decide _ (by decide), hashColor_tail_plain _⟩, allPlain_decide _ (by decide)⟩, hashColor_tail_plain _⟩, ?_⟩,
    allPlain_decide _ (by decide)⟩
  cases flash
  · exact allPlain_nil
  · exact allPlain_decide _ (by decide)

theorem openSpan_ok (env : HtmlEnv) (colorAt : Nat → Nat) (styles : List Style) (st : HSt) (c : HCell) :
    ∀ p ∈ (openSpan env colorAt styles st c).2, p.isTag = true ∧ PieceOk p := by
  intro p hp
  unfold openSpan at hp
  split at hp
  · simp at hp; subst hp; exact ⟨rfl, inlineSpan_ok _ _ _ _⟩
  · split at hp
    · simp at hp
    · split at hp
      · split at hp
        · simp at hp; subst hp; exact ⟨rfl, classSpan_ok _⟩
        · simp at hp; subst hp; exact ⟨rfl, inlineSpan_ok _ _ _ _⟩
      · simp at hp; subst hp; exact ⟨rfl, inlineSpan_ok _ _ _ _⟩

theorem spanStep_ok (env : HtmlEnv) (colorAt : Nat → Nat) (styles : List Style) (st : HSt) (c : HCell) :
    ∀ p ∈ (spanStep env colorAt styles st c).2, p.isTag = true ∧ PieceOk p := by
  intro p hp
  unfold spanStep at hp
  split at hp
  · split at hp
    · simp only [List.mem_append] at hp
      rcases hp with hp | hp
      · exact closers_ok _ _ hp
      · exact openSpan_ok _ _ _ _ _ _ hp
    · exact closers_ok _ _ hp
  · simp at hp

/-- the conversion yields one byte -/
def ConvByte (conv : Nat → Option Nat) : Prop := ∀ u b, conv u = some b → b < 256

/-- `gfx_chr` cannot be taken for markup (always true once it is escaped) -/
def GfxSafe (cfg : HtmlCfg) (gfx : Nat) : Prop := cfg.gfxEscaped = true ∨ Plain (gfx % 256)

theorem escapedPutc_bytes (b : Nat) (hb : b < 256) : opBytes (escapedPutc b) = escChar (.byte b) := by
  unfold escapedPutc escChar
  by_cases h1 : b = 60
  · simp [h1, opBytes]
  · by_cases h2 : b = 62
    · simp [h2, opBytes]
    · by_cases h3 : b = 38
      · simp [h3, opBytes]
      · simp [h1, h2, h3, opBytes, Nat.mod_eq_of_lt hb]

theorem charOp_bytes (cfg : HtmlCfg) (conv : Nat → Option Nat) (gfx u : Nat) (hc : ConvByte conv) (hg : GfxSafe cfg gfx) :
    opBytes (charOp cfg conv gfx u) = escChar (pageChar conv gfx u) := by
  unfold charOp pageChar
  by_cases hp : u < 0xE600
  · simp only [isPrint, hp, decide_true, if_true]
    cases hcv : conv u with
    | none => simp [opBytes, escChar]
    | some b =>
      by_cases hat : b = 0x40 ∧ u ≠ 0x40
      · simp [hat, opBytes, escChar]
      · have : (b == 0x40 && u != 0x40) = false := by
          by_cases hb : b = 0x40
          · have : u = 0x40 := by
              by_cases hu : u = 0x40
              · exact hu
              · exact absurd ⟨hb, hu⟩ hat
            simp [this]
          · simp [hb]
        simp only [this, Bool.false_eq_true, if_false, hat]
        exact escapedPutc_bytes b (hc u b hcv)
  · simp only [isPrint, hp, decide_false, Bool.false_eq_true, if_false]
    by_cases hgf : 0xEE00 ≤ u ∧ u ≤ 0xEFFF
    · have : isGfx u = true := by simp [isGfx, hgf.1, hgf.2]
      simp only [this, if_true, hgf, and_self]
      have hlt : gfx % 256 < 256 := Nat.mod_lt _ (by decide)
      cases hge : cfg.gfxEscaped
      · rcases hg with h | h
        · simp [hge] at h
        · unfold Plain at h
          simp [opBytes, escChar, h.1, h.2.1, h.2.2, Nat.mod_eq_of_lt hlt]
      · simp only [if_true]
        exact escapedPutc_bytes _ hlt
    · have : isGfx u = false := by
        simp only [isGfx]
        by_cases h : 0xEE00 ≤ u
        · have : ¬ u ≤ 0xEFFF := fun h2 => hgf ⟨h, h2⟩
          simp [this]
        · simp [h]
      simp [this, hgf, opBytes, escChar]

theorem escChar_isEscaped (c : HChar) : IsEscaped (escChar c) := by
  cases c with
  | byte b =>
    unfold escChar
    by_cases h1 : b = 60
    · simp [h1, IsEscaped]
    · by_cases h2 : b = 62
      · simp [h2, IsEscaped]
      · by_cases h3 : b = 38
        · simp [h3, IsEscaped]
        · simp only [h1, h2, h3, if_false]
          exact Or.inl ⟨b, rfl, h1, h2, h3⟩
  | ucs u => exact Or.inr (Or.inr (Or.inr (Or.inr ⟨u, rfl⟩)))

/-- the character-data piece of a cell -/
def chrPiece (cfg : HtmlCfg) (conv : Nat → Option Nat) (gfx : Nat) (c : HCell) : Piece := ⟨false, [charOp cfg conv gfx c.unicode]⟩
def nlPiece : Piece := ⟨false, [.putc 10]⟩

section steps
variable (cfg : HtmlCfg) (env : HtmlEnv) (conv : Nat → Option Nat) (colorAt : Nat → Nat) (styles : List Style)
variable (hc : ConvByte conv) (hg : GfxSafe cfg env.gfx)

include hc hg in
theorem chrPiece_ok (c : HCell) : PieceOk (chrPiece cfg conv env.gfx c) := by
  simp only [PieceOk, chrPiece, Bool.false_eq_true, if_false, output_cons, output_nil, List.append_nil]
  rw [charOp_bytes cfg conv env.gfx c.unicode hc hg]
  exact escChar_isEscaped _

theorem nlPiece_ok : PieceOk nlPiece := by
  simp only [PieceOk, nlPiece, Bool.false_eq_true, if_false]
  exact Or.inl ⟨10, by simp [output, opBytes], by unfold Plain; omega⟩

include hc hg in
theorem cellStep_ok (st : HSt) (c : HCell) : ∀ p ∈ (cellStep cfg env conv colorAt styles st c).2, PieceOk p := by
  intro p hp
  simp only [cellStep, List.mem_append, List.mem_singleton] at hp
  rcases hp with (hp | hp) | hp
  · exact (spanStep_ok _ _ _ _ _ _ hp).2
  · exact (attrPieces_ok _ _ _ hp).2
  · subst hp; exact chrPiece_ok cfg env conv hc hg c

theorem cellStep_chr (st : HSt) (c : HCell) :
    (cellStep cfg env conv colorAt styles st c).2.filter (fun p => !p.isTag) = [chrPiece cfg conv env.gfx c] := by
  have h1 : (spanStep env colorAt styles st c).2.filter (fun p => !p.isTag) = [] := by
    rw [List.filter_eq_nil_iff]; intro p hp; simp [(spanStep_ok _ _ _ _ _ _ hp).1]
  have h2 : (attrPieces (spanStep env colorAt styles st c).1 c).filter (fun p => !p.isTag) = [] := by
    rw [List.filter_eq_nil_iff]; intro p hp; simp [(attrPieces_ok _ _ _ hp).1]
  simp [cellStep, List.filter_append, h1, h2, chrPiece]

include hc hg in
theorem rowStep_ok (cells : List HCell) : ∀ (st : HSt), ∀ p ∈ (rowStep cfg env conv colorAt styles st cells).2, PieceOk p := by
  induction cells with
  | nil => intro st p hp; simp [rowStep] at hp; subst hp; exact nlPiece_ok
  | cons c cs ih =>
    intro st p hp
    simp only [rowStep, List.mem_append] at hp
    rcases hp with hp | hp
    · exact cellStep_ok cfg env conv colorAt styles hc hg _ _ _ hp
    · exact ih _ _ hp

theorem rowStep_chr (cells : List HCell) : ∀ (st : HSt),
    (rowStep cfg env conv colorAt styles st cells).2.filter (fun p => !p.isTag) = cells.map (chrPiece cfg conv env.gfx) ++ [nlPiece] := by
  induction cells with
  | nil => intro st; simp [rowStep, nlPiece]
  | cons c cs ih =>
    intro st
    simp only [rowStep, List.filter_append, cellStep_chr, ih, List.map_cons, List.cons_append, List.nil_append]

include hc hg in
theorem rowsStep_ok (rows : List (List HCell)) : ∀ (st : HSt), ∀ p ∈ (rowsStep cfg env conv colorAt styles st rows).2, PieceOk p := by
  induction rows with
  | nil => intro st p hp; simp [rowsStep] at hp
  | cons r rs ih =>
    intro st p hp
    simp only [rowsStep, List.mem_append] at hp
    rcases hp with hp | hp
    · exact rowStep_ok cfg env conv colorAt styles hc hg _ _ _ hp
    · exact ih _ _ hp

theorem rowsStep_chr (rows : List (List HCell)) : ∀ (st : HSt),
    (rowsStep cfg env conv colorAt styles st rows).2.filter (fun p => !p.isTag)
      = rows.flatMap (fun r => r.map (chrPiece cfg conv env.gfx) ++ [nlPiece]) := by
  induction rows with
  | nil => intro st; simp [rowsStep]
  | cons r rs ih =>
    intro st
    simp only [rowsStep, List.filter_append, rowStep_chr, ih, List.flatMap_cons]

include hc hg in
theorem bodyPieces_ok (rows : List (List HCell)) : ∀ p ∈ bodyPieces cfg env conv colorAt styles rows, PieceOk p := by
  intro p hp
  simp only [bodyPieces, List.mem_append] at hp
  rcases hp with hp | hp
  · exact rowsStep_ok cfg env conv colorAt styles hc hg _ _ _ hp
  · exact (closers_ok _ _ hp).2

theorem bodyPieces_chr (rows : List (List HCell)) :
    (bodyPieces cfg env conv colorAt styles rows).filter (fun p => !p.isTag)
      = rows.flatMap (fun r => r.map (chrPiece cfg conv env.gfx) ++ [nlPiece]) := by
  have h2 : ∀ st, (closers st).filter (fun p => !p.isTag) = [] := by
    intro st; rw [List.filter_eq_nil_iff]; intro p hp; simp [(closers_ok _ _ hp).1]
  simp [bodyPieces, List.filter_append, rowsStep_chr, h2]

end steps

/-! ## the first pass keeps the characters -/

theorem pageU_eq (reveal : Bool) (c : Cell) :
    (if isBlankU (htmlUnicode reveal c) then 0x20 else htmlUnicode reveal c) = pageU reveal c := by
  unfold htmlUnicode pageU isBlankU
  by_cases h1 : c.size > sizeDoubleSize
  · simp [h1]
  · cases hc : c.conceal <;> cases hr : reveal <;> simp [h1] <;>
      (by_cases h2 : c.unicode = 0xA0 <;> simp [h2]) <;> (intro h3; simp [h3])

theorem normRow_unicode (reveal : Bool) (cs : List Cell) : ∀ (pend : List Cell) (last : Option Cell),
    (normRow reveal cs pend last).map (·.unicode) = pend.map (fun _ => 0x20) ++ cs.map (pageU reveal) := by
  induction cs with
  | nil => intro pend last; simp [normRow, blankFrom, toH]
  | cons c cs ih =>
    intro pend last
    unfold normRow
    have hp := pageU_eq reveal c
    by_cases hb : isBlankU (htmlUnicode reveal c) = true
    · simp only [hb, if_true] at hp ⊢
      rw [ih]; simp [hp]
    · simp only [hb, Bool.false_eq_true, if_false] at hp ⊢
      simp [ih, blankFrom, toH, hp]

theorem normRow_length (reveal : Bool) (cs : List Cell) (pend : List Cell) (last : Option Cell) :
    (normRow reveal cs pend last).length = pend.length + cs.length := by
  have := congrArg List.length (normRow_unicode reveal cs pend last)
  simpa using this

theorem chr_output (cfg : HtmlCfg) (conv : Nat → Option Nat) (gfx : Nat) (hc : ConvByte conv) (hg : GfxSafe cfg gfx)
    (rows : List (List HCell)) :
    output (piecesOps (rows.flatMap (fun r => r.map (chrPiece cfg conv gfx) ++ [nlPiece])))
      = (rows.flatMap (fun r => r.map (fun c => pageChar conv gfx c.unicode) ++ [.byte 10])).flatMap escChar := by
  have hrow : ∀ r : List HCell, output (piecesOps (r.map (chrPiece cfg conv gfx)))
      = (r.map (fun c => pageChar conv gfx c.unicode)).flatMap escChar := by
    intro r
    induction r with
    | nil => simp [piecesOps, output]
    | cons c cs ih =>
      simp only [List.map_cons, piecesOps_cons, output_append, ih, List.flatMap_cons]
      simp [chrPiece, output, charOp_bytes cfg conv gfx c.unicode hc hg]
  induction rows with
  | nil => simp [piecesOps, output]
  | cons r rs ih =>
    simp only [List.flatMap_cons, piecesOps_append, output_append, ih, hrow, List.flatMap_append]
    simp [nlPiece, piecesOps, output, opBytes, escChar]

theorem htmlRows_chars (conv : Nat → Option Nat) (gfx : Nat) (reveal : Bool) (cells : List (List Cell)) :
    (htmlRows reveal cells).flatMap (fun r => r.map (fun c => pageChar conv gfx c.unicode) ++ [HChar.byte 10])
      = pageText conv gfx reveal cells := by
  unfold htmlRows pageText
  induction cells with
  | nil => simp
  | cons r rs ih =>
    simp only [List.map_cons, List.flatMap_cons, ih]
    have := normRow_unicode reveal r [] none
    have h2 : (normRow reveal r [] none).map (fun c => pageChar conv gfx c.unicode)
        = ((normRow reveal r [] none).map (·.unicode)).map (pageChar conv gfx) := by simp [List.map_map]
    rw [h2, this]; simp [List.map_map]

/-! ## length -/

def plen (ps : List Piece) : Nat := (output (piecesOps ps)).length

theorem plen_append (a b : List Piece) : plen (a ++ b) = plen a + plen b := by
  simp [plen, piecesOps_append, output_append]

theorem closers_len (st : HSt) : plen (closers st) ≤ 19 := by
  unfold closers
  split <;> split <;> split <;> split <;>
    simp [plen, piecesOps, output, opBytes, tagP, tagIOff, tagBOff, tagUOff, tagSpanOff]

theorem attrPieces_len (st : HSt) (c : HCell) : plen (attrPieces st c) ≤ 12 := by
  unfold attrPieces
  split <;> split <;> split <;> (try split) <;> (try split) <;> (try split) <;>
    simp [plen, piecesOps, output, opBytes, tagP, tagIOff, tagBOff, tagUOff, tagIOn, tagBOn, tagUOn]

theorem classSpan_len (ord : Nat) : plen [classSpan ord] ≤ 36 := by
  have := dec_length ord
  simp [plen, piecesOps, output, opBytes, classSpan, tagSpanClass, tagQuoteGt]; omega

theorem inlineSpan_len (colorAt : Nat → Nat) (fg bg : Nat) (flash : Bool) : plen [inlineSpan colorAt fg bg flash] ≤ 77 := by
  cases flash <;>
    simp [plen, piecesOps, output, opBytes, inlineSpan, tagSpanStyle, tagQuoteGt, tagBgColor, tagBlink, hashColor_length]

theorem openSpan_len (env : HtmlEnv) (colorAt : Nat → Nat) (styles : List Style) (st : HSt) (c : HCell) :
    plen (openSpan env colorAt styles st c).2 ≤ 77 := by
  unfold openSpan
  split
  · exact inlineSpan_len _ _ _ _
  · split
    · simp [plen, piecesOps, output]
    · split
      · split
        · exact Nat.le_trans (classSpan_len _) (by decide)
        · exact inlineSpan_len _ _ _ _
      · exact inlineSpan_len _ _ _ _

theorem spanStep_len (env : HtmlEnv) (colorAt : Nat → Nat) (styles : List Style) (st : HSt) (c : HCell) :
    plen (spanStep env colorAt styles st c).2 ≤ 96 := by
  unfold spanStep
  split
  · split
    · have h1 := closers_len st
      have h2 := openSpan_len env colorAt styles { st with underline := false, bold := false, italic := false } c
      simp only [plen_append]; omega
    · have h1 := closers_len st; simp only []; omega
  · simp [plen, piecesOps, output]

theorem escapedPutc_len (b : Nat) : (opBytes (escapedPutc b)).length ≤ 5 := by
  unfold escapedPutc; split <;> (try split) <;> (try split) <;> simp [opBytes, entLt, entGt, entAmp]

theorem charOp_len (cfg : HtmlCfg) (conv : Nat → Option Nat) (gfx u : Nat) : (opBytes (charOp cfg conv gfx u)).length ≤ 23 := by
  have hd := dec_length u
  have he : ∀ b, (opBytes (escapedPutc b)).length ≤ 23 := fun b => Nat.le_trans (escapedPutc_len b) (by decide)
  unfold charOp
  split
  · split
    · split
      · simp [opBytes, entNum]; omega
      · exact he _
    · simp [opBytes, entNum]; omega
  · split
    · split
      · exact he _
      · simp [opBytes]
    · simp [opBytes]

/-- bytes one cell can produce at most: 19 (closing tags) + 77 (span) + 12 (u, b, i) + 23 (character) -/
def cellMax : Nat := 131

theorem cellStep_len (cfg : HtmlCfg) (env : HtmlEnv) (conv : Nat → Option Nat) (colorAt : Nat → Nat) (styles : List Style)
    (st : HSt) (c : HCell) : plen (cellStep cfg env conv colorAt styles st c).2 ≤ cellMax := by
  have h1 := spanStep_len env colorAt styles st c
  have h2 := attrPieces_len (spanStep env colorAt styles st c).1 c
  have h3 := charOp_len cfg conv env.gfx c.unicode
  simp only [cellStep, plen_append]
  have : plen [(⟨false, [charOp cfg conv env.gfx c.unicode]⟩ : Piece)] = (opBytes (charOp cfg conv env.gfx c.unicode)).length := by
    simp [plen, piecesOps, output]
  rw [this]; unfold cellMax; omega

theorem rowStep_len (cfg : HtmlCfg) (env : HtmlEnv) (conv : Nat → Option Nat) (colorAt : Nat → Nat) (styles : List Style)
    (cells : List HCell) : ∀ st, plen (rowStep cfg env conv colorAt styles st cells).2 ≤ cellMax * cells.length + 1 := by
  induction cells with
  | nil => intro st; simp [rowStep, plen, piecesOps, output, opBytes]
  | cons c cs ih =>
    intro st
    have h1 := cellStep_len cfg env conv colorAt styles st c
    have h2 := ih (cellStep cfg env conv colorAt styles st c).1
    simp only [rowStep, plen_append, List.length_cons]
    rw [Nat.mul_succ]; omega

theorem rowsStep_len (cfg : HtmlCfg) (env : HtmlEnv) (conv : Nat → Option Nat) (colorAt : Nat → Nat) (styles : List Style)
    (w : Nat) (rows : List (List HCell)) (hw : ∀ r ∈ rows, r.length = w) :
    ∀ st, plen (rowsStep cfg env conv colorAt styles st rows).2 ≤ rows.length * (cellMax * w + 1) := by
  induction rows with
  | nil => intro st; simp [rowsStep, plen, piecesOps, output]
  | cons r rs ih =>
    intro st
    have h1 := rowStep_len cfg env conv colorAt styles r st
    have h2 := ih (fun q hq => hw q (by simp [hq])) (rowStep cfg env conv colorAt styles st r).1
    have hr : r.length = w := hw r (by simp)
    simp only [rowsStep, plen_append, List.length_cons]
    rw [hr] at h1
    rw [Nat.succ_mul]; omega

end Zvbi.Export
