import ZvbiModel.Export.Ppm
import ZvbiModel.Export.LemmasHtml
/-! Helper lemmas for the PPM writer theorems (`Props/C16Ppm.lean`) -/
namespace Zvbi.Export
open Zvbi.Export.Spec

theorem ppmRowOps_output (columns : Nat) (g : PpmGeom) (rowData : List Bytes)
    (h : ∀ r ∈ rowData, r.length = ppmRowSize columns g) : output (ppmRowOps columns g rowData) = rowData.flatten := by
  induction rowData with
  | nil => simp [ppmRowOps, output]
  | cons r rs ih =>
    have hr : r.length = ppmRowSize columns g := h r (by simp)
    have ih' := ih (fun q hq => h q (by simp [hq]))
    unfold ppmRowOps at ih' ⊢
    simp only [List.flatMap_cons, output_append, ih', List.flatten_cons]
    simp [output, opBytes, ← hr]

theorem ppmGeom_cases (columns : Nat) (dh : Bool) :
    ppmGeom columns dh = ⟨16, 26, 0⟩ ∨ ppmGeom columns dh = ⟨16, 26, 1⟩ ∨ ppmGeom columns dh = ⟨12, 10, 1⟩ ∨ ppmGeom columns dh = ⟨12, 10, 2⟩ := by
  unfold ppmGeom; cases dh <;> split <;> simp

theorem ppmRowSize_eq (columns : Nat) (dh : Bool) :
    ppmRowSize columns (ppmGeom columns dh) = 3 * (ppmWidth columns (ppmGeom columns dh) * ppmLines (ppmGeom columns dh)) := by
  rcases ppmGeom_cases columns dh with h | h | h | h <;> rw [h] <;>
    simp [ppmRowSize, ppmWidth, ppmLines, Nat.shiftLeft_eq, Nat.shiftRight_eq_div_pow] <;> omega

theorem ppmHeight_eq (columns rows : Nat) (dh : Bool) :
    ppmHeight rows (ppmGeom columns dh) = ppmLines (ppmGeom columns dh) * rows := by
  rcases ppmGeom_cases columns dh with h | h | h | h <;> rw [h] <;>
    simp [ppmHeight, ppmLines, Nat.shiftLeft_eq, Nat.shiftRight_eq_div_pow] <;> omega

theorem flatten_length_const (l : List Bytes) (n : Nat) (h : ∀ r ∈ l, r.length = n) : l.flatten.length = l.length * n := by
  induction l with
  | nil => simp
  | cons r rs ih =>
    have := ih (fun q hq => h q (by simp [hq]))
    simp [this, h r (by simp), Nat.succ_mul, Nat.add_comm]

end Zvbi.Export
