import ZvbiModel.Export.Text
/-!
# Model of `vbi_print_page_region`, non-table mode (exp-txt.c, `table == FALSE`), C16

"Scan all characters from column, row to column + width - 1, row + height - 1 and all intermediate rows to their full
pg->columns width.  In this mode runs of spaces at the start and end of rows are collapsed into single spaces, blank lines
are suppressed."  Statement by statement: the first row starts at `column0`, the last one ends at `column1`, the others
are scanned over the whole page width; `spaces` counts pending blanks (a space or a character that is not printable), which
are written only in front of the next printable character (in the first row always, in later rows unless they lead the row);
rows are joined by ONE space unless the row was blank; the trailing blanks of the last row are written unless the row
before contained double-height characters; cells covered by an enlarged character (`VBI_OVER_TOP / BOTTOM`) are skipped,
lower halves (`VBI_DOUBLE_HEIGHT2 / SIZE2`) count as blanks below the first row; a two-row region whose first row is all
double height up to `column1` ends after that row (`x1 = xl; y = row1`).

`print_unicode` is `printUnicode` of `Page.lean` (iconv = `conv`, the F27a / F27b repair flags in `Cfg`).
-/
namespace Zvbi.Export

/-- state of the inner loop -/
structure NtRow where
  p : Bytes
  spaces : Nat := 0
  doubleh : Nat := 0
  /-- `x1 = xl; y = row1` was executed: the row ends here and it is the last one -/
  jumped : Bool := false
  deriving Repr

/-- `for (; spaces > 0; spaces--) if (!print_unicode (cd, endian, 0x0020, &p, buf + size - p)) goto failure;` -/
def ntSpaces (cfg : Cfg) (conv : Nat → Option Bytes) (size : Nat) : Nat → Bytes → Option Bytes
  | 0, p => some p
  | k + 1, p =>
    match printUnicode cfg conv 0x20 (size - p.length) with
    | none => none
    | some bs => ntSpaces cfg conv size k (p ++ bs)

/-- the `switch (ac.size)`: `doubleh++` for `VBI_DOUBLE_HEIGHT / SIZE` -/
def ntDh (doubleh : Nat) (c : Cell) : Nat :=
  if c.size == sizeDoubleHeight || c.size == sizeDoubleSize then doubleh + 1 else doubleh

/-- `case VBI_DOUBLE_HEIGHT2: case VBI_DOUBLE_SIZE2: if (y > row0) ac.unicode = 0x0020;` -/
def ntUnicode (isRow0 : Bool) (c : Cell) : Nat :=
  if (c.size == sizeDoubleHeight2 || c.size == sizeDoubleSize2) && !isRow0 then 0x20 else c.unicode

/-- `if (x == xl && doubleh >= (x - x0)) { x1 = xl; y = row1; }` -/
def ntHit (xl : Option Nat) (x x0 dh : Nat) : Bool := xl == some x && decide (dh ≥ x - x0)

/-- `if (spaces < (x - x0) || y == row0) { for (; spaces > 0; spaces--) print a space } else spaces = 0` -/
def ntFlush (cfg : Cfg) (conv : Nat → Option Bytes) (size : Nat) (doIt : Bool) (spaces : Nat) (p : Bytes) : Option Bytes :=
  if doIt then ntSpaces cfg conv size spaces p else some p

/-- `ac.unicode == 0x20 || !vbi_is_print (ac.unicode)` -/
def ntBlank (u : Nat) : Bool := u == 0x20 || !isPrint u

/-- inner loop over the cells `(x, text[y * columns + x])`, `x0 <= x <= x1`; `none` = `goto failure`.
    `isRow0`: `y == row0` when the row starts; `xl`: the column of the two-row special case.
    `y == row0` as the statements after the `hit` test see it is `isRow0 && !hit` (`row1 == row0 + 1` when `hit`). -/
def ntCells (cfg : Cfg) (conv : Nat → Option Bytes) (size : Nat) (isRow0 : Bool) (x0 : Nat) (xl : Option Nat) :
    List (Nat × Cell) → NtRow → Option NtRow
  | [], st => some st
  | (x, c) :: rest, st =>
    if st.jumped then some st                          -- x1 = xl: the cell at xl was the last one
    else if c.size == sizeOverTop || c.size == sizeOverBottom then ntCells cfg conv size isRow0 x0 xl rest st   -- continue
    else if ntBlank (ntUnicode isRow0 c) then
      ntCells cfg conv size isRow0 x0 xl rest
        { st with spaces := st.spaces + 1, doubleh := ntDh st.doubleh c, jumped := ntHit xl x x0 (ntDh st.doubleh c) }
    else
      match ntFlush cfg conv size (decide (st.spaces < x - x0) || (isRow0 && !ntHit xl x x0 (ntDh st.doubleh c))) st.spaces st.p with
      | none => none
      | some p1 =>
        match printUnicode cfg conv (ntUnicode isRow0 c) (size - p1.length) with
        | none => none
        | some bs =>
          ntCells cfg conv size isRow0 x0 xl rest
            { p := p1 ++ bs, spaces := 0, doubleh := ntDh st.doubleh c, jumped := ntHit xl x x0 (ntDh st.doubleh c) }

/-- the cells of row `y` from `x0` to `x1` with their column -/
def ntRowCells (pg : Page) (y : Nat) (x0 : Nat) (x1 : Int) : Except Fault (List (Nat × Cell)) :=
  mapE (fun x => match cellAt pg y x with
                 | .ok ic => .ok (x, ic.2)
                 | .error f => .error f) ((List.range (x1 + 1 - x0).toNat).map (x0 + ·))

/-- `x0 = (table || y == row0) ? column0 : 0` -/
def ntX0 (column0 row0 y : Nat) : Nat := if y == row0 then column0 else 0

/-- `x1 = (table || y == row1) ? column1 : (pg->columns - 1)` -/
def ntX1 (pg : Page) (column1 row1 : Int) (y : Nat) : Int := if (y : Int) == row1 then column1 else (pg.columns : Int) - 1

/-- `xl = (table || y != row0 || (y + 1) != row1) ? -1 : column1` -/
def ntXl (column1 : Int) (row0 : Nat) (row1 : Int) (y : Nat) : Option Nat :=
  if y == row0 && (y : Int) + 1 == row1 && column1 ≥ 0 then some column1.toNat else none

/-- outer loop over `y`; `dhPrev` = `doubleh` of the row before (`doubleh0`) -/
def ntRows (cfg : Cfg) (conv : Nat → Option Bytes) (size : Nat) (pg : Page) (column0 : Nat) (column1 : Int) (row0 : Nat) (row1 : Int) :
    List Nat → Bytes → Nat → Except Fault (Option Bytes)
  | [], p, _ => .ok (some p)
  | y :: ys, p, dhPrev =>
    match ntRowCells pg y (ntX0 column0 row0 y) (ntX1 pg column1 row1 y) with
    | .error f => .error f
    | .ok cells =>
      match ntCells cfg conv size (y == row0) (ntX0 column0 row0 y) (ntXl column1 row0 row1 y) cells { p := p } with
      | none => .ok none
      | some st =>
        if !st.jumped && decide ((y : Int) < row1) then
          if size - st.p.length < 1 then .ok none                          -- left < 1
          else if decide ((st.spaces : Int) ≥ ntX1 pg column1 row1 y - ntX0 column0 row0 y) then      -- suppress blank line
            ntRows cfg conv size pg column0 column1 row0 row1 ys st.p st.doubleh
          else                                                             -- exactly one space between adjacent rows
            match printUnicode cfg conv 0x20 (size - st.p.length) with
            | none => .ok none
            | some bs => ntRows cfg conv size pg column0 column1 row0 row1 ys (st.p ++ bs) st.doubleh
        else if dhPrev > 0 then .ok (some st.p)                            -- "pretend this is a blank double height lower row"
        else .ok (ntSpaces cfg conv size st.spaces st.p)

/-- exp-txt.c `vbi_print_page_region (pg, buf, size, format, table = FALSE, ...)`.
    `.ok none` = returns 0 (failure), `.ok (some out)` = returns `out.length` with `out` in `buf`. -/
def printRegionNT (cfg : Cfg) (conv : Nat → Option Bytes) (pg : Page) (size column row width height : Int) :
    Except Fault (Option Bytes) :=
  let column1 := column + width - 1
  let row1 := row + height - 1
  if size < 0 ∨ column < 0 ∨ column1 ≥ pg.columns ∨ row < 0 ∨ row1 ≥ pg.rows then .ok none
  else
    ntRows cfg conv size.toNat pg column.toNat column1 row.toNat row1
      ((List.range (row1 + 1 - row).toNat).map (row.toNat + ·)) [] 0

end Zvbi.Export
