import ZvbiModel.Export.Spec
/-! Helper lemmas for the region renderers (C16). -/
namespace Zvbi.Export
open Zvbi.Export.Spec

theorem lineOff_eq {S ct : Nat} (s dy : Nat) (hct : 0 < ct) (hd : ct ∣ S) : lineOff S ct s dy = dy * S := by
  unfold lineOff
  split
  · rw [Nat.div_mul_cancel hd]
    have h := Nat.div_add_mod dy 2
    have e : dy / 2 * 2 * S + dy % 2 * S = (dy / 2 * 2 + dy % 2) * S := by rw [Nat.add_mul]
    rw [e]; congr 1; omega
  · rfl

theorem clipSize_not_wide (s : Nat) : isWide (clipSize s) = false := by
  unfold clipSize
  split
  · decide
  · split
    · decide
    · split
      · decide
      · next h1 h2 h3 =>
        simp only [isWide, Bool.or_eq_false_iff]
        simp only [beq_iff_eq] at h1 h2 h3
        refine ⟨⟨?_, ?_⟩, ?_⟩ <;> simpa using (by assumption)

/-- a character of `k` cell widths at column `cx`, character row `ry`, stays in the rectangle when `cx + k <= w` -/
theorem cellRuns_inRect {S ct cw ch ry cx w h idx kind s : Nat} (hct : 0 < ct) (hd : ct ∣ S)
    (hk : cx + (if isWide s then 2 else 1) ≤ w) (hry : ry < h)
    {run : Run} (hm : run ∈ cellRuns S ct cw ch (ry * ch * S + cx * cw * ct) idx kind s) {a : Nat}
    (ha : Run.covers run a) : InRect S (h * ch) (w * cw * ct) a := by
  unfold cellRuns at hm
  obtain ⟨dy, hdy, rfl⟩ := List.mem_map.1 hm
  have hdy' : dy < ch := List.mem_range.1 hdy
  obtain ⟨h1, h2⟩ := ha
  simp only at h1 h2
  rw [lineOff_eq s dy hct hd] at h1 h2
  generalize hkk : (if isWide s = true then 2 else 1) = k at *
  refine ⟨ry * ch + dy, a - (ry * ch + dy) * S, ?_, ?_, ?_⟩
  · calc ry * ch + dy < ry * ch + ch := by omega
      _ = (ry + 1) * ch := by rw [Nat.add_mul]; omega
      _ ≤ h * ch := Nat.mul_le_mul_right _ (by omega)
  · have e1 : (ry * ch + dy) * S = ry * ch * S + dy * S := Nat.add_mul _ _ _
    have e2 : (cx + k) * cw * ct = cx * cw * ct + k * cw * ct := by rw [Nat.add_mul, Nat.add_mul]
    have e3 : (cx + k) * cw * ct ≤ w * cw * ct := Nat.mul_le_mul_right _ (Nat.mul_le_mul_right _ hk)
    omega
  · have e1 : (ry * ch + dy) * S = ry * ch * S + dy * S := Nat.add_mul _ _ _
    omega

section vt
variable {cfg : Cfg} {drcs : List Bool} {S ct : Nat} {reveal flashOn : Bool}

theorem vtDrawn_not_wide (last : Bool) (c : Cell) (hw : last = true → cfg.wideClip = true ∨ isWide c.size = false)
    {ks : Nat × Nat} (h : vtDrawn cfg drcs reveal flashOn last c = some ks) (hl : last = true) : isWide ks.2 = false := by
  have hs : isWide (drawSize cfg last c.size) = false := by
    unfold drawSize
    rcases hw hl with h1 | h1
    · simp [h1, hl, clipSize_not_wide]
    · split
      · exact clipSize_not_wide _
      · exact h1
  unfold vtDrawn at h
  by_cases h1 : isOver c.size = true
  · simp [h1] at h
  · by_cases h2 : isDrcs (effU reveal flashOn c) = true
    · by_cases h3 : hasFont drcs (effU reveal flashOn c) = true
      · simp [h1, h2, h3] at h; rw [← h]; exact hs
      · simp [h1, h2, h3] at h; rw [← h]; decide
    · simp [h1, h2] at h; rw [← h]; exact hs

theorem vtCellRuns_cases (origin : Nat) (last : Bool) (ic : Nat × Cell)
    (hw : last = true → cfg.wideClip = true ∨ isWide ic.2.size = false) :
    vtCellRuns cfg drcs S ct reveal flashOn origin last ic = [] ∨
    ∃ kind s, (last = true → isWide s = false) ∧
      vtCellRuns cfg drcs S ct reveal flashOn origin last ic = cellRuns S ct 12 10 origin ic.1 kind s := by
  unfold vtCellRuns
  cases h : vtDrawn cfg drcs reveal flashOn last ic.2 with
  | none => left; rfl
  | some ks => right; exact ⟨ks.1, ks.2, vtDrawn_not_wide last ic.2 hw h, rfl⟩

theorem vtCellRuns_inRect {ry cx w h : Nat} {last : Bool} {ic : Nat × Cell} (hct : 0 < ct) (hd : ct ∣ S)
    (hry : ry < h) (hfit : cx + 1 ≤ w) (hlast : last = false → cx + 2 ≤ w)
    (hw : last = true → cfg.wideClip = true ∨ isWide ic.2.size = false)
    {run : Run} (hm : run ∈ vtCellRuns cfg drcs S ct reveal flashOn (ry * 10 * S + cx * 12 * ct) last ic) {a : Nat}
    (ha : Run.covers run a) : InRect S (h * 10) (w * 12 * ct) a := by
  have key : ∀ s, (last = true → isWide s = false) → cx + (if isWide s then 2 else 1) ≤ w := by
    intro s hs
    cases hl : last with
    | true => rw [hs hl]; simpa using hfit
    | false => have := hlast hl; split <;> omega
  rcases vtCellRuns_cases (cfg := cfg) (drcs := drcs) (S := S) (ct := ct) (reveal := reveal) (flashOn := flashOn)
    (ry * 10 * S + cx * 12 * ct) last ic hw with h0 | ⟨kind, s, hs, he⟩
  · rw [h0] at hm; cases hm
  · rw [he] at hm
    exact cellRuns_inRect hct hd (key s hs) hry hm ha

theorem vtRowRuns_inRect {ry w h : Nat} (hct : 0 < ct) (hd : ct ∣ S) (hry : ry < h) :
    ∀ (l : List (Nat × Cell)) (cx : Nat), cx + l.length = w →
      (cfg.wideClip = true ∨ ∀ ic, l.getLast? = some ic → isWide ic.2.size = false) →
      ∀ run ∈ vtRowRuns cfg drcs S ct reveal flashOn (ry * 10 * S) cx l, ∀ a, Run.covers run a →
        InRect S (h * 10) (w * 12 * ct) a := by
  intro l
  induction l with
  | nil => intro cx _ _ run hm; simp [vtRowRuns] at hm
  | cons ic rest ih =>
    intro cx hlen hw run hm a ha
    simp only [vtRowRuns, List.mem_append] at hm
    simp only [List.length_cons] at hlen
    rcases hm with hm | hm
    · refine vtCellRuns_inRect (last := rest.isEmpty) hct hd hry (by omega) ?_ ?_ hm ha
      · intro hl
        cases rest with
        | nil => simp at hl
        | cons x xs => simp only [List.length_cons] at hlen; omega
      · intro hl
        rcases hw with h1 | h1
        · exact Or.inl h1
        · right
          apply h1
          cases rest with
          | nil => rfl
          | cons x xs => simp at hl
    · refine ih (cx + 1) (by omega) ?_ run hm a ha
      rcases hw with h1 | h1
      · exact Or.inl h1
      · right
        intro ic' hic
        apply h1
        cases rest with
        | nil => simp at hic
        | cons x xs => simpa [List.getLast?_cons_cons] using hic

theorem vtRuns_inRect {w h : Nat} (hct : 0 < ct) (hd : ct ∣ S) :
    ∀ (cells : List (List (Nat × Cell))) (ry : Nat), ry + cells.length = h → (∀ r ∈ cells, r.length = w) →
      (cfg.wideClip = true ∨ NoWideLast cells) →
      ∀ run ∈ vtRuns cfg drcs S ct reveal flashOn ry cells, ∀ a, Run.covers run a → InRect S (h * 10) (w * 12 * ct) a := by
  intro cells
  induction cells with
  | nil => intro ry _ _ _ run hm; simp [vtRuns] at hm
  | cons r rest ih =>
    intro ry hlen hw hnw run hm a ha
    simp only [vtRuns, List.mem_append] at hm
    simp only [List.length_cons] at hlen
    rcases hm with hm | hm
    · refine vtRowRuns_inRect hct hd (by omega) r 0 (by simpa using hw r (List.mem_cons_self ..)) ?_ run hm a ha
      rcases hnw with h1 | h1
      · exact Or.inl h1
      · exact Or.inr (h1 r (List.mem_cons_self ..))
    · refine ih (ry + 1) (by omega) (fun r' hr' => hw r' (List.mem_cons_of_mem _ hr')) ?_ run hm a ha
      rcases hnw with h1 | h1
      · exact Or.inl h1
      · exact Or.inr (fun r' hr' => h1 r' (List.mem_cons_of_mem _ hr'))

end vt

theorem ccRowRuns_inRect {S ct ry w h : Nat} (hct : 0 < ct) (hd : ct ∣ S) (hry : ry < h) :
    ∀ (l : List (Nat × Cell)) (cx : Nat), cx + l.length = w →
      ∀ run ∈ ccRowRuns S ct (ry * 26 * S) cx l, ∀ a, Run.covers run a → InRect S (h * 26) (w * 16 * ct) a := by
  intro l
  induction l with
  | nil => intro cx _ run hm; simp [ccRowRuns] at hm
  | cons ic rest ih =>
    intro cx hlen run hm a ha
    simp only [ccRowRuns, List.mem_append] at hm
    simp only [List.length_cons] at hlen
    rcases hm with hm | hm
    · exact cellRuns_inRect (s := sizeNormal) hct hd (by simp [isWide, sizeNormal, sizeDoubleWidth, sizeDoubleSize, sizeDoubleSize2]; omega) hry hm ha
    · exact ih (cx + 1) (by omega) run hm a ha

theorem ccRuns_inRect {S ct w h : Nat} (hct : 0 < ct) (hd : ct ∣ S) :
    ∀ (cells : List (List (Nat × Cell))) (ry : Nat), ry + cells.length = h → (∀ r ∈ cells, r.length = w) →
      ∀ run ∈ ccRuns S ct ry cells, ∀ a, Run.covers run a → InRect S (h * 26) (w * 16 * ct) a := by
  intro cells
  induction cells with
  | nil => intro ry _ _ run hm; simp [ccRuns] at hm
  | cons r rest ih =>
    intro ry hlen hw run hm a ha
    simp only [ccRuns, List.mem_append] at hm
    simp only [List.length_cons] at hlen
    rcases hm with hm | hm
    · exact ccRowRuns_inRect hct hd (by omega) r 0 (by simpa using hw r (List.mem_cons_self ..)) run hm a ha
    · exact ih (ry + 1) (by omega) (fun r' hr' => hw r' (List.mem_cons_of_mem _ hr')) run hm a ha

theorem inRect_lt_canvas {S lines wbytes a : Nat} (h : InRect S lines wbytes a) (hS : wbytes ≤ S) : a < S * lines := by
  obtain ⟨line, b, h1, h2, rfl⟩ := h
  calc line * S + b < line * S + S := by omega
    _ = (line + 1) * S := by rw [Nat.add_mul]; omega
    _ ≤ lines * S := Nat.mul_le_mul_right _ (by omega)
    _ = S * lines := Nat.mul_comm _ _

end Zvbi.Export
