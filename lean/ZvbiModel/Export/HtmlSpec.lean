import ZvbiModel.Export.Html
import ZvbiModel.Export.Spec
/-!
# Spec of the HTML export module (C16): what a reader of the exported page relies on

* `stripTags`: remove every tag (from `<` to the next `>`);
* `pageText`: the page's characters row by row as they have to appear (`HChar`: a byte of the page charset,
  or a Unicode number where the charset has no such character), each row closed by a line feed;
* `escChar`: the HTML escaping of one such character; `unescape`: its inverse on byte strings;
* `scanTags` / `Open`: which of span / u / b / i are open after a sequence of tags.
-/
namespace Zvbi.Export.Spec
open Zvbi.Export

/-- remove everything from `<` to the next `>` (`true` = inside a tag) -/
def strip : Bool → Bytes → Bytes
  | _, [] => []
  | false, b :: bs => if b = 60 then strip true bs else b :: strip false bs
  | true, b :: bs => if b = 62 then strip false bs else strip true bs

def stripTags (bs : Bytes) : Bytes := strip false bs

/-- a character of the exported text: a byte in the page charset, or a Unicode number (numeric entity) -/
inductive HChar
  | byte (b : Nat)
  | ucs (u : Nat)
  deriving DecidableEq, Repr

/-- the character a cell shows: enlarged-character continuation cells and concealed cells are spaces,
    a no-break space is written as a space -/
def pageU (reveal : Bool) (c : Cell) : Nat :=
  if c.size > sizeDoubleSize ∨ (c.conceal = true ∧ reveal = false) then 0x20
  else if c.unicode = 0xA0 then 0x20 else c.unicode

/-- printable characters as the page charset has them (else by number), block graphics replaced by
    `gfx_chr`, everything else a space -/
def pageChar (conv : Nat → Option Nat) (gfx u : Nat) : HChar :=
  if u < 0xE600 then
    match conv u with
    | some b => if b = 0x40 ∧ u ≠ 0x40 then .ucs u else .byte b
    | none => .ucs u
  else if 0xEE00 ≤ u ∧ u ≤ 0xEFFF then .byte (gfx % 256) else .byte 0x20

def pageText (conv : Nat → Option Nat) (gfx : Nat) (reveal : Bool) (cells : List (List Cell)) : List HChar :=
  cells.flatMap fun r => r.map (fun c => pageChar conv gfx (pageU reveal c)) ++ [.byte 10]

/-- HTML escaping of one character -/
def escChar : HChar → Bytes
  | .byte b => if b = 60 then entLt else if b = 62 then entGt else if b = 38 then entAmp else [b]
  | .ucs u => entNum ++ dec u ++ [59]

/-- a byte of character data that needs no escaping -/
def Plain (b : Nat) : Prop := b ≠ 60 ∧ b ≠ 62 ∧ b ≠ 38

/-- character data of one character: a plain byte or one of the four entities -/
def IsEscaped (bs : Bytes) : Prop :=
  (∃ b, bs = [b] ∧ Plain b) ∨ bs = entLt ∨ bs = entGt ∨ bs = entAmp ∨ ∃ n, bs = entNum ++ dec n ++ [59]

/-- a complete tag: `<`, then bytes that are none of `<` `>` `&`, then `>` -/
def IsTag (bs : Bytes) : Prop := ∃ mid, bs = 60 :: (mid ++ [62]) ∧ ∀ x ∈ mid, Plain x

/-! ## tags -/

inductive Kind | span | u | b | i
  deriving DecidableEq, Repr

/-- which elements are open -/
structure Open where
  span : Bool := false
  u : Bool := false
  b : Bool := false
  i : Bool := false
  deriving DecidableEq, Repr

/-- classify a tag by its bytes: (kind, opening?) -/
def tagEvent (bs : Bytes) : Option (Kind × Bool) :=
  if bs = tagUOn then some (.u, true) else if bs = tagUOff then some (.u, false)
  else if bs = tagBOn then some (.b, true) else if bs = tagBOff then some (.b, false)
  else if bs = tagIOn then some (.i, true) else if bs = tagIOff then some (.i, false)
  else if bs = tagSpanOff then some (.span, false)
  else if bs.take 6 = [60, 115, 112, 97, 110, 32] then some (.span, true)      -- `<span `
  else none

/-- one tag: an element is opened only when closed and closed only when open; a span is opened / closed only
    while u, b, i are all closed (so spans never cross the other elements) -/
def openStep (o : Open) : Kind × Bool → Option Open
  | (.span, on) => if o.span != on && !o.u && !o.b && !o.i then some { o with span := on } else none
  | (.u, on) => if o.u != on then some { o with u := on } else none
  | (.b, on) => if o.b != on then some { o with b := on } else none
  | (.i, on) => if o.i != on then some { o with i := on } else none

def scanTags : Open → List Bytes → Option Open
  | o, [] => some o
  | o, t :: ts =>
    match tagEvent t with
    | none => none
    | some e =>
      match openStep o e with
      | none => none
      | some o' => scanTags o' ts

/-- the tags of a byte string, in order: every segment from `<` to the next `>` (`some cur` = inside a tag) -/
def tagsIn : Option Bytes → Bytes → List Bytes
  | _, [] => []
  | none, b :: bs => if b = 60 then tagsIn (some [60]) bs else tagsIn none bs
  | some cur, b :: bs => if b = 62 then (cur ++ [62]) :: tagsIn none bs else tagsIn (some (cur ++ [b])) bs

/-- strict nesting (a stack): what the HTML grammar asks for -/
def nested : List Kind → List (Kind × Bool) → Bool
  | stack, [] => stack.isEmpty
  | stack, (k, true) :: es => nested (k :: stack) es
  | k' :: stack, (k, false) :: es => k == k' && nested stack es
  | [], (_, false) :: _ => false

end Zvbi.Export.Spec
