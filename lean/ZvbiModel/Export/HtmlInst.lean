import ZvbiModel.Export.Html
/-!
# The state of an HTML export object that survives an export (exp-html.c `html_instance`), C16

Applications use ONE `vbi_export` object for several exports (the size query `vbi_export_mem (e, NULL, 0, pg)`
followed by the export proper; one object for every page of a session).  `html_instance` carries eight
"current attribute" fields (`foreground background underline bold italic flash span link`) from call to call:

* `export ()` copies `html->foreground / background` into `html->def` (the style that needs no span) BEFORE
  `header ()` assigns them (`VBI_WHITE`, `pg->screen_color`);
* the body loop updates them cell by cell;
* `free_styles ()`, reached at the end of every export (success and failure), puts them back to 0 - the value
  `calloc` gave them in `html_new ()`.

`HtmlInst` is that state, `htmlExport` one call of `export ()` as a function inst x page x options ->
(write-layer calls, inst'), `exportSeq` the history of one object.  `resets = false` is the source shape in which
`free_styles` leaves the eight fields alone (then every later export takes the colours the previous one ended with
as its default style); which shape the tree under test has is measured by the `probehtml` op
(`Generated/ExportHtmlCfg.instReset`).
-/
namespace Zvbi.Export

/-- the eight fields of `html_instance` that outlive an export -/
structure HtmlInst where
  fg : Nat := 0
  bg : Nat := 0
  underline : Bool := false
  bold : Bool := false
  italic : Bool := false
  flash : Bool := false
  span : Bool := false
  link : Bool := false
  deriving Repr, DecidableEq

/-- `html_new ()`: `calloc` -/
def HtmlInst.fresh : HtmlInst := {}

/-- `html->def` as `export ()` sets it up: `def.foreground = html->foreground; def.background = html->background;
    def.flash = FALSE; def.ref_count = 2` -/
def defStyleOf (i : HtmlInst) : Style := { fg := i.fg, bg := i.bg, flash := false, ref := 2 }

/-- the reference counting pass starting from the object's `html->def` -/
def countStylesFrom (i : HtmlInst) (rows : List (List HCell)) : List Style := rows.flatten.foldl addRef [defStyleOf i]

/-- all write-layer calls of one `export ()` of an object in state `i` -/
def htmlOpsOfI (cfg : HtmlCfg) (env : HtmlEnv) (conv : Nat → Option Nat) (colorAt : Nat → Nat) (i : HtmlInst)
    (rows : List (List HCell)) : List Op :=
  let styles := countStylesFrom i rows
  headerOps cfg env colorAt styles ++ [.puts tagPre] ++ piecesOps (bodyPieces cfg env conv colorAt styles rows) ++ tailOps env

/-- the eight fields when `free_styles ()` is reached: what `header ()` and the body loop left (the final closing
    tags are printed without clearing the flags; `link` is 0 everywhere) -/
def instAtEnd (cfg : HtmlCfg) (env : HtmlEnv) (conv : Nat → Option Nat) (colorAt : Nat → Nat) (i : HtmlInst)
    (rows : List (List HCell)) : HtmlInst :=
  let st := (rowsStep cfg env conv colorAt (countStylesFrom i rows) (bodyInit env) rows).1
  { fg := st.fg, bg := st.bg, underline := st.underline, bold := st.bold, italic := st.italic, flash := st.flash,
    span := st.span, link := false }

/-- `free_styles ()`: `resets` = the eight assignments are present -/
def freeStyles (resets : Bool) (i : HtmlInst) : HtmlInst := if resets then HtmlInst.fresh else i

/-- exp-html.c `export ()` of an object in state `i`: the write-layer calls and the state the object is left in.
    (The two `Fault`s are reads outside `pg->text` / `pg->color_map`, excluded for pages the library builds; the
    model leaves the state alone then.) -/
def htmlExport (resets : Bool) (cfg : HtmlCfg) (conv : Nat → Option Nat) (i : HtmlInst) (env : HtmlEnv) (pg : Page) :
    Except Fault (List Op) × HtmlInst :=
  match regionCells pg 0 0 pg.columns pg.rows with
  | .error f => (.error f, i)
  | .ok cells =>
    let cs := cells.map (·.map (·.2))
    if colorsOk pg env cs then
      let colorAt := fun k => pg.colorMap.getD k 0
      let rows := htmlRows env.reveal cs
      (.ok (htmlOpsOfI cfg env conv colorAt i rows), freeStyles resets (instAtEnd cfg env conv colorAt i rows))
    else (.error (.oob "pg->color_map"), i)

/-- the history of one export object: the results of the exports `reqs` (options may change between calls through
    `vbi_export_option_set`, the page through the decoder), in order -/
def exportSeq (resets : Bool) (cfg : HtmlCfg) (conv : Nat → Option Nat) : HtmlInst → List (HtmlEnv × Page) → List (Except Fault (List Op))
  | _, [] => []
  | i, (env, pg) :: rest =>
    let r := htmlExport resets cfg conv i env pg
    r.1 :: exportSeq resets cfg conv r.2 rest

/-- which shape of `free_styles ()` the tree under test has (probe of the compiled code, `probehtml`) -/
def currentInstReset : Bool := Zvbi.Generated.ExportHtmlCfg.instReset

end Zvbi.Export
