import ZvbiModel.Export.LemmasHtml
/-! Helper lemmas for the tag-balance theorem of the HTML export (`Props/C16Html.lean`) -/
namespace Zvbi.Export
open Zvbi.Export.Spec

/-! ## `tagsIn` on the output of pieces -/

def tagsOf (ps : List Piece) : List Bytes := (ps.filter (·.isTag)).map (fun p => output p.ops)

theorem tagsOf_append (a b : List Piece) : tagsOf (a ++ b) = tagsOf a ++ tagsOf b := by simp [tagsOf]

theorem tagsIn_some_plain (mid rest cur : Bytes) (h : AllPlain mid) :
    tagsIn (some cur) (mid ++ 62 :: rest) = (cur ++ mid ++ [62]) :: tagsIn none rest := by
  induction mid generalizing cur with
  | nil => simp [tagsIn]
  | cons a m ih =>
    have ha := allPlain_cons.1 h
    have : a ≠ 62 := ha.1.2.1
    simp [tagsIn, this, ih _ ha.2]

theorem tagsIn_tag {bs : Bytes} (h : TagOk bs) (rest : Bytes) : tagsIn none (bs ++ rest) = bs :: tagsIn none rest := by
  obtain ⟨mid, rfl, hm⟩ := h
  have := tagsIn_some_plain mid rest [60] hm
  simp [tagsIn, List.append_assoc, this]

theorem tagsIn_noLt (bs rest : Bytes) (h : 60 ∉ bs) : tagsIn none (bs ++ rest) = tagsIn none rest := by
  induction bs with
  | nil => simp
  | cons a m ih =>
    have h1 : a ≠ 60 := fun e => h (by simp [e])
    have h2 : 60 ∉ m := fun e => h (by simp [e])
    simp [tagsIn, h1, ih h2]

theorem tagsIn_pieces (ps : List Piece) (h : ∀ p ∈ ps, PieceOk p) : tagsIn none (output (piecesOps ps)) = tagsOf ps := by
  induction ps with
  | nil => simp [piecesOps, output, tagsIn, tagsOf]
  | cons p ps ih =>
    have hp := h p (by simp)
    have ih' := ih (fun q hq => h q (by simp [hq]))
    rw [piecesOps_cons, output_append]
    unfold PieceOk at hp
    by_cases ht : p.isTag = true
    · simp only [ht, if_true] at hp
      rw [tagsIn_tag hp, ih']
      simp [tagsOf, List.filter, ht]
    · have ht' : p.isTag = false := by simpa using ht
      simp only [ht', Bool.false_eq_true, if_false] at hp
      rw [tagsIn_noLt _ _ (isEscaped_noLt hp).1, ih']
      simp [tagsOf, List.filter, ht']

/-! ## scanning -/

theorem scanTags_append (a b : List Bytes) : ∀ o, scanTags o (a ++ b) = (scanTags o a).bind (fun o' => scanTags o' b) := by
  induction a with
  | nil => intro o; simp [scanTags]
  | cons t ts ih =>
    intro o
    simp only [List.cons_append, scanTags]
    cases tagEvent t with
    | none => simp
    | some e =>
      rcases h : openStep o e with _ | o'
      · simp only [h]; rfl
      · simp only [h]; exact ih o'

def openOf (st : HSt) : Open := ⟨st.span, st.underline, st.bold, st.italic⟩

theorem closers_scan (st : HSt) : scanTags (openOf st) (tagsOf (closers st)) = some {} := by
  obtain ⟨fg, bg, fl, u, b, i, s⟩ := st
  cases u <;> cases b <;> cases i <;> cases s <;> rfl

theorem attrPieces_scan (st : HSt) (c : HCell) :
    scanTags (openOf st) (tagsOf (attrPieces st c)) = some ⟨st.span, c.underline, c.bold, c.italic⟩ := by
  obtain ⟨fg, bg, fl, u, b, i, s⟩ := st
  obtain ⟨cu, cfg', cbg, cfl, cun, cb, ci⟩ := c
  cases u <;> cases b <;> cases i <;> cases s <;> cases cun <;> cases cb <;> cases ci <;> rfl

theorem classSpan_event (ord : Nat) : tagEvent (output (classSpan ord).ops) = some (.span, true) := by
  simp [tagEvent, classSpan, output, opBytes, tagSpanClass, tagUOn, tagUOff, tagBOn, tagBOff, tagIOn, tagIOff, tagSpanOff]

theorem inlineSpan_event (colorAt : Nat → Nat) (fg bg : Nat) (flash : Bool) :
    tagEvent (output (inlineSpan colorAt fg bg flash).ops) = some (.span, true) := by
  simp [tagEvent, inlineSpan, output, opBytes, tagSpanStyle, tagUOn, tagUOff, tagBOn, tagBOff, tagIOn, tagIOff, tagSpanOff]

theorem span_piece_scan (p : Piece) (hp : p.isTag = true) (he : tagEvent (output p.ops) = some (.span, true)) :
    scanTags {} (tagsOf [p]) = some ⟨true, false, false, false⟩ := by
  simp [tagsOf, List.filter, hp, scanTags, he, openStep]

theorem openSpan_scan (env : HtmlEnv) (colorAt : Nat → Nat) (styles : List Style) (st : HSt) (c : HCell)
    (hu : st.underline = false) (hb : st.bold = false) (hi : st.italic = false) :
    scanTags {} (tagsOf (openSpan env colorAt styles st c).2) = some (openOf (openSpan env colorAt styles st c).1) := by
  unfold openSpan
  split
  · rw [span_piece_scan _ rfl (inlineSpan_event _ _ _ _)]; simp [openOf, hu, hb, hi]
  · split
    · simp [tagsOf, scanTags, openOf, hu, hb, hi]
    · split
      · split
        · rw [span_piece_scan _ rfl (classSpan_event _)]; simp [openOf, hu, hb, hi]
        · rw [span_piece_scan _ rfl (inlineSpan_event _ _ _ _)]; simp [openOf, hu, hb, hi]
      · rw [span_piece_scan _ rfl (inlineSpan_event _ _ _ _)]; simp [openOf, hu, hb, hi]

/-- without colours no span is ever opened -/
def SpanInv (env : HtmlEnv) (st : HSt) : Prop := env.color = false → st.span = false

theorem spanStep_scan (env : HtmlEnv) (colorAt : Nat → Nat) (styles : List Style) (st : HSt) (c : HCell) (hinv : SpanInv env st) :
    scanTags (openOf st) (tagsOf (spanStep env colorAt styles st c).2) = some (openOf (spanStep env colorAt styles st c).1) ∧
    SpanInv env (spanStep env colorAt styles st c).1 := by
  unfold spanStep
  split
  · split
    · rename_i hcol
      constructor
      · simp only [tagsOf_append, scanTags_append, closers_scan, Option.bind_some]
        exact openSpan_scan env colorAt styles _ c rfl rfl rfl
      · intro h; rw [hcol] at h; cases h
    · rename_i hcol
      have hs : st.span = false := hinv (by simpa using hcol)
      constructor
      · simp only [closers_scan]; simp [openOf, hs]
      · intro _; exact hs
  · exact ⟨by simp [tagsOf, scanTags], hinv⟩

section steps
variable (cfg : HtmlCfg) (env : HtmlEnv) (conv : Nat → Option Nat) (colorAt : Nat → Nat) (styles : List Style)

theorem cellStep_scan (st : HSt) (c : HCell) (hinv : SpanInv env st) :
    scanTags (openOf st) (tagsOf (cellStep cfg env conv colorAt styles st c).2) = some (openOf (cellStep cfg env conv colorAt styles st c).1) ∧
    SpanInv env (cellStep cfg env conv colorAt styles st c).1 := by
  obtain ⟨h1, h2⟩ := spanStep_scan env colorAt styles st c hinv
  constructor
  · simp only [cellStep, tagsOf_append, scanTags_append, h1, Option.bind_some, attrPieces_scan]
    simp [tagsOf, scanTags, openOf]
  · intro h; simp only [cellStep]; exact h2 h

theorem rowStep_scan (cells : List HCell) : ∀ (st : HSt), SpanInv env st →
    scanTags (openOf st) (tagsOf (rowStep cfg env conv colorAt styles st cells).2) = some (openOf (rowStep cfg env conv colorAt styles st cells).1) ∧
    SpanInv env (rowStep cfg env conv colorAt styles st cells).1 := by
  induction cells with
  | nil => intro st hinv; exact ⟨by simp [rowStep, tagsOf, scanTags], hinv⟩
  | cons c cs ih =>
    intro st hinv
    obtain ⟨h1, h2⟩ := cellStep_scan cfg env conv colorAt styles st c hinv
    obtain ⟨h3, h4⟩ := ih _ h2
    exact ⟨by simp only [rowStep, tagsOf_append, scanTags_append, h1, Option.bind_some, h3], h4⟩

theorem rowsStep_scan (rows : List (List HCell)) : ∀ (st : HSt), SpanInv env st →
    scanTags (openOf st) (tagsOf (rowsStep cfg env conv colorAt styles st rows).2) = some (openOf (rowsStep cfg env conv colorAt styles st rows).1) ∧
    SpanInv env (rowsStep cfg env conv colorAt styles st rows).1 := by
  induction rows with
  | nil => intro st hinv; exact ⟨by simp [rowsStep, tagsOf, scanTags], hinv⟩
  | cons r rs ih =>
    intro st hinv
    obtain ⟨h1, h2⟩ := rowStep_scan cfg env conv colorAt styles r st hinv
    obtain ⟨h3, h4⟩ := ih _ h2
    exact ⟨by simp only [rowsStep, tagsOf_append, scanTags_append, h1, Option.bind_some, h3], h4⟩

theorem bodyPieces_scan (rows : List (List HCell)) :
    scanTags {} (tagsOf (bodyPieces cfg env conv colorAt styles rows)) = some {} := by
  have hinit : SpanInv env (bodyInit env) := fun _ => rfl
  obtain ⟨h1, _⟩ := rowsStep_scan cfg env conv colorAt styles rows (bodyInit env) hinit
  have h0 : openOf (bodyInit env) = {} := rfl
  rw [h0] at h1
  simp only [bodyPieces, tagsOf_append, scanTags_append, h1, Option.bind_some, closers_scan]

end steps

end Zvbi.Export
