import ZvbiModel.Export.Spec
import ZvbiModel.Export.LemmasRender
import ZvbiModel.Export.LemmasPrint
/-! Lemmas for `region_equals_full` (C16): the last-write-wins value of a canvas byte. -/
namespace Zvbi.Export
open Zvbi.Export.Spec

abbrev Val := Nat × Nat × Nat × Nat × Nat

def cov (a : Nat) (r : Run) : Bool := decide (r.start ≤ a) && decide (a < r.start + r.len)
def valOf (a : Nat) (r : Run) : Val := (r.cell, r.dy, r.kind, r.size, a - r.start)

theorem finalAt_def (runs : List Run) (a : Nat) : finalAt runs a = (runs.reverse.find? (cov a)).map (valOf a) := rfl

theorem finalAt_nil (a : Nat) : finalAt [] a = none := rfl

theorem finalAt_append (xs ys : List Run) (a : Nat) : finalAt (xs ++ ys) a = (finalAt ys a).or (finalAt xs a) := by
  simp only [finalAt_def, List.reverse_append, List.find?_append]
  cases (List.find? (cov a) ys.reverse) <;> simp

theorem finalAt_none {xs : List Run} {a : Nat} (h : ∀ r ∈ xs, cov a r = false) : finalAt xs a = none := by
  simp only [finalAt_def, Option.map_eq_none_iff, List.find?_eq_none]
  intro r hr
  simp [h r (List.mem_reverse.1 hr)]

theorem finalAt_unique {xs : List Run} {a : Nat} {r : Run} (hr : r ∈ xs) (hc : cov a r = true)
    (hu : ∀ r' ∈ xs, cov a r' = true → r' = r) : finalAt xs a = some (valOf a r) := by
  simp only [finalAt_def]
  cases hf : List.find? (cov a) xs.reverse with
  | none =>
    have := List.find?_eq_none.1 hf r (List.mem_reverse.2 hr)
    simp [hc] at this
  | some r' =>
    have h1 := List.find?_some hf
    have h2 := List.mem_reverse.1 (List.mem_of_find?_eq_some hf)
    simp [hu r' h2 h1]

/-- a run lying inside canvas line `L'` covers byte `b` of line `L` iff it is the same line and `b` is inside -/
theorem line_cov_iff {S L L' x len b : Nat} (hx : x + len ≤ S) (hb : b < S) :
    (L' * S + x ≤ L * S + b ∧ L * S + b < L' * S + x + len) ↔ (L = L' ∧ x ≤ b ∧ b < x + len) := by
  constructor
  · intro ⟨h1, h2⟩
    have hL : L = L' := by
      rcases Nat.lt_trichotomy L L' with h | h | h
      · have := Nat.mul_le_mul_right S (Nat.succ_le_of_lt h)
        rw [Nat.succ_mul] at this
        omega
      · exact h
      · have := Nat.mul_le_mul_right S (Nat.succ_le_of_lt h)
        rw [Nat.succ_mul] at this
        omega
    subst hL
    omega
  · intro ⟨h1, h2, h3⟩
    subst h1
    omega

theorem finalAt_cellRuns {S ct cw ch L0 x0 idx kind s La b : Nat} (hct : 0 < ct) (hd : ct ∣ S) (hb : b < S)
    (hx : x0 + (if isWide s then 2 else 1) * cw * ct ≤ S) :
    finalAt (cellRuns S ct cw ch (L0 * S + x0) idx kind s) (La * S + b) =
      if L0 ≤ La ∧ La < L0 + ch ∧ x0 ≤ b ∧ b < x0 + (if isWide s then 2 else 1) * cw * ct
      then some (idx, La - L0, kind, s, b - x0) else none := by
  generalize hk : (if isWide s = true then 2 else 1) * cw * ct = len at *
  have hstart : ∀ dy, L0 * S + x0 + lineOff S ct s dy = (L0 + dy) * S + x0 := by
    intro dy; rw [lineOff_eq s dy hct hd, Nat.add_mul]; omega
  have hcov : ∀ dy, cov (La * S + b) { start := L0 * S + x0 + lineOff S ct s dy, len := len, cell := idx, dy := dy, kind := kind, size := s }
      = true ↔ (La = L0 + dy ∧ x0 ≤ b ∧ b < x0 + len) := by
    intro dy
    simp only [cov, Bool.and_eq_true, decide_eq_true_eq, hstart]
    exact line_cov_iff hx hb
  by_cases hc : L0 ≤ La ∧ La < L0 + ch ∧ x0 ≤ b ∧ b < x0 + len
  · simp only [hc, and_self, ite_true]
    obtain ⟨h1, h2, h3, h4⟩ := hc
    have hmem : ({ start := L0 * S + x0 + lineOff S ct s (La - L0), len := len, cell := idx, dy := La - L0, kind := kind, size := s } : Run)
        ∈ cellRuns S ct cw ch (L0 * S + x0) idx kind s := by
      unfold cellRuns
      exact List.mem_map.2 ⟨La - L0, List.mem_range.2 (by omega), by simp [hk]⟩
    have := finalAt_unique (a := La * S + b) hmem ((hcov _).2 ⟨by omega, h3, h4⟩) (by
      intro r' hr' hcr'
      unfold cellRuns at hr'
      obtain ⟨dy', _, rfl⟩ := List.mem_map.1 hr'
      rw [hk] at hcr'
      have := (hcov dy').1 hcr'
      have hdy : dy' = La - L0 := by omega
      rw [hk, hdy])
    rw [this]
    simp only [valOf, hstart]
    have : L0 + (La - L0) = La := by omega
    rw [this]
    congr 5
    omega
  · simp only [hc, ite_false]
    apply finalAt_none
    intro r hr
    unfold cellRuns at hr
    obtain ⟨dy', hdy', rfl⟩ := List.mem_map.1 hr
    have hdy'' : dy' < ch := List.mem_range.1 hdy'
    rw [hk]
    cases hcv : cov (La * S + b) { start := L0 * S + x0 + lineOff S ct s dy', len := len, cell := idx, dy := dy', kind := kind, size := s } with
    | false => rfl
    | true =>
      have := (hcov dy').1 hcv
      exact absurd ⟨by omega, by omega, this.2.1, this.2.2⟩ hc

section row
variable {cfg : Cfg} {drcs : List Bool} {S ct : Nat} {rv fl : Bool}

/-- contribution of column `j` of the row `L` (drawn as character row `ry`) to byte `b` of canvas line `La` -/
def colVal (cfg : Cfg) (drcs : List Bool) (rv fl : Bool) (ct : Nat) (L : List (Nat × Cell)) (ry La b j : Nat) : Option Val :=
  match L[j]? with
  | none => none
  | some ic =>
    match vtDrawn cfg drcs rv fl (L.drop (j + 1)).isEmpty ic.2 with
    | none => none
    | some ks =>
      if ry * 10 ≤ La ∧ La < ry * 10 + 10 ∧ j * 12 * ct ≤ b ∧ b < j * 12 * ct + (if isWide ks.2 then 2 else 1) * 12 * ct
      then some (ic.1, La - ry * 10, ks.1, ks.2, b - j * 12 * ct) else none

/-- the value the suffix of the row starting at column `k` leaves at (La, b) -/
def rowT (cfg : Cfg) (drcs : List Bool) (S ct : Nat) (rv fl : Bool) (L : List (Nat × Cell)) (ry La b k : Nat) : Option Val :=
  finalAt (vtRowRuns cfg drcs S ct rv fl (ry * 10 * S) k (L.drop k)) (La * S + b)

theorem getLast_of_drop_empty {α : Type} (L : List α) (k : Nat) (hk : k < L.length) (he : (L.drop (k + 1)).isEmpty = true) :
    L.getLast? = some L[k] := by
  have hlen : L.length = k + 1 := by
    have : L.length ≤ k + 1 := by simpa using he
    omega
  rw [List.getLast?_eq_getElem?]
  simp [hlen]

theorem rowT_step (L : List (Nat × Cell)) (ry La b k : Nat) (hct : 0 < ct) (hd : ct ∣ S) (hb : b < S)
    (hS : L.length * 12 * ct ≤ S)
    (hw : cfg.wideClip = true ∨ ∀ ic, L.getLast? = some ic → isWide ic.2.size = false) :
    rowT cfg drcs S ct rv fl L ry La b k = (rowT cfg drcs S ct rv fl L ry La b (k + 1)).or (colVal cfg drcs rv fl ct L ry La b k) := by
  unfold rowT colVal
  by_cases hk : k < L.length
  · rw [List.drop_eq_getElem_cons hk]
    simp only [vtRowRuns, finalAt_append, List.getElem?_eq_getElem hk]
    congr 1
    unfold vtCellRuns
    cases hdr : vtDrawn cfg drcs rv fl (L.drop (k + 1)).isEmpty L[k].2 with
    | none => simp [finalAt_nil]
    | some ks =>
      simp only
      have hx : k * 12 * ct + (if isWide ks.2 then 2 else 1) * 12 * ct ≤ S := by
        have hle : k + (if isWide ks.2 then 2 else 1) ≤ L.length := by
          cases he : (L.drop (k + 1)).isEmpty with
          | true =>
            have hnw := vtDrawn_not_wide (cfg := cfg) (drcs := drcs) (reveal := rv) (flashOn := fl) (L.drop (k + 1)).isEmpty L[k].2
              (by
                intro _
                rcases hw with h1 | h1
                · exact Or.inl h1
                · exact Or.inr (h1 _ (getLast_of_drop_empty L k hk he))) hdr he
            simp [hnw]; omega
          | false =>
            have : ¬ L.length ≤ k + 1 := by
              intro h0; have : (L.drop (k + 1)).isEmpty = true := by simpa using h0
              rw [this] at he; cases he
            split <;> omega
        have := Nat.mul_le_mul_right ct (Nat.mul_le_mul_right 12 hle)
        rw [Nat.add_mul, Nat.add_mul] at this
        omega
      have := finalAt_cellRuns (S := S) (ct := ct) (cw := 12) (ch := 10) (L0 := ry * 10) (x0 := k * 12 * ct) (idx := L[k].1)
        (kind := ks.1) (s := ks.2) (La := La) (b := b) hct hd hb hx
      rw [this]
  · have h1 : L.drop k = [] := List.drop_eq_nil_of_le (by omega)
    have h2 : L.drop (k + 1) = [] := List.drop_eq_nil_of_le (by omega)
    have h3 : L[k]? = none := List.getElem?_eq_none (by omega)
    simp [h1, h2, h3, vtRowRuns, finalAt_nil]

theorem colVal_none_of (L : List (Nat × Cell)) (ry La b j : Nat)
    (h : ∀ kk, kk ≤ 2 → ¬ (ry * 10 ≤ La ∧ La < ry * 10 + 10 ∧ j * 12 * ct ≤ b ∧ b < j * 12 * ct + kk * 12 * ct)) :
    colVal cfg drcs rv fl ct L ry La b j = none := by
  unfold colVal
  cases h1 : L[j]? with
  | none => rfl
  | some ic =>
    simp only
    cases h2 : vtDrawn cfg drcs rv fl (L.drop (j + 1)).isEmpty ic.2 with
    | none => rfl
    | some ks =>
      simp only
      rw [if_neg]
      exact h _ (by split <;> omega)

theorem colVal_none_of_lt (L : List (Nat × Cell)) (ry La b j : Nat) (h : b < j * 12 * ct) :
    colVal cfg drcs rv fl ct L ry La b j = none :=
  colVal_none_of L ry La b j (fun kk _ hc => by omega)

theorem colVal_none_of_ge (L : List (Nat × Cell)) (ry La b j : Nat) (h : (j + 2) * 12 * ct ≤ b) :
    colVal cfg drcs rv fl ct L ry La b j = none :=
  colVal_none_of L ry La b j (fun kk hk hc => by
    have e : (j + 2) * 12 * ct = j * 12 * ct + 2 * 12 * ct := by rw [Nat.add_mul, Nat.add_mul]
    have : kk * 12 * ct ≤ 2 * 12 * ct := Nat.mul_le_mul_right _ (Nat.mul_le_mul_right _ hk)
    omega)

theorem colVal_none_of_line (L : List (Nat × Cell)) (ry La b j : Nat) (h : ¬ (ry * 10 ≤ La ∧ La < ry * 10 + 10)) :
    colVal cfg drcs rv fl ct L ry La b j = none :=
  colVal_none_of L ry La b j (fun kk _ hc => h ⟨hc.1, hc.2.1⟩)

theorem rowT_of_ge_length (L : List (Nat × Cell)) (ry La b k : Nat) (hk : L.length ≤ k) :
    rowT cfg drcs S ct rv fl L ry La b k = none := by
  unfold rowT
  rw [List.drop_eq_nil_of_le hk]
  simp [vtRowRuns, finalAt_nil]

section closed
variable (L : List (Nat × Cell)) (ry La b : Nat) (hct : 0 < ct) (hd : ct ∣ S) (hb : b < S) (hS : L.length * 12 * ct ≤ S)
  (hw : cfg.wideClip = true ∨ ∀ ic, L.getLast? = some ic → isWide ic.2.size = false)
include hct hd hb hS hw

theorem rowT_none_of_lt : ∀ (n k : Nat), L.length ≤ k + n → b < k * 12 * ct →
    rowT cfg drcs S ct rv fl L ry La b k = none := by
  intro n
  induction n with
  | zero => intro k hk _; exact rowT_of_ge_length L ry La b k (by omega)
  | succ n ih =>
    intro k hk hlt
    rw [rowT_step L ry La b k hct hd hb hS hw, colVal_none_of_lt L ry La b k hlt]
    have : b < (k + 1) * 12 * ct := by
      have : k * 12 * ct ≤ (k + 1) * 12 * ct := Nat.mul_le_mul_right _ (Nat.mul_le_mul_right _ (by omega))
      omega
    rw [ih (k + 1) (by omega) this]
    rfl

theorem rowT_none_of_line (hl : ¬ (ry * 10 ≤ La ∧ La < ry * 10 + 10)) : ∀ (n k : Nat), L.length ≤ k + n →
    rowT cfg drcs S ct rv fl L ry La b k = none := by
  intro n
  induction n with
  | zero => intro k hk; exact rowT_of_ge_length L ry La b k (by omega)
  | succ n ih =>
    intro k hk
    rw [rowT_step L ry La b k hct hd hb hS hw, colVal_none_of_line L ry La b k hl, ih (k + 1) (by omega)]
    rfl

theorem rowT_skip : ∀ (n k : Nat), (∀ j, k ≤ j → j < k + n → (j + 2) * 12 * ct ≤ b) →
    rowT cfg drcs S ct rv fl L ry La b k = rowT cfg drcs S ct rv fl L ry La b (k + n) := by
  intro n
  induction n with
  | zero => intro k _; rfl
  | succ n ih =>
    intro k h
    rw [rowT_step L ry La b k hct hd hb hS hw, colVal_none_of_ge L ry La b k (h k (by omega) (by omega))]
    rw [ih (k + 1) (fun j h1 h2 => h j (by omega) (by omega))]
    simp [Nat.add_assoc, Nat.add_comm 1 n]

/-- closed form of a whole row: the cell under the byte wins, else the wide cell to its left -/
theorem rowT_closed :
    rowT cfg drcs S ct rv fl L ry La b 0 =
      (colVal cfg drcs rv fl ct L ry La b (b / (12 * ct))).or
        (if b / (12 * ct) = 0 then none else colVal cfg drcs rv fl ct L ry La b (b / (12 * ct) - 1)) := by
  have hu : 0 < 12 * ct := by omega
  generalize hc0 : b / (12 * ct) = c0
  have hdm := Nat.div_add_mod b (12 * ct)
  have hml := Nat.mod_lt b hu
  rw [hc0] at hdm
  have h1 : c0 * 12 * ct ≤ b := by
    rw [Nat.mul_assoc, Nat.mul_comm c0]; omega
  have h2 : b < (c0 + 1) * 12 * ct := by
    rw [Nat.mul_assoc, Nat.add_mul, Nat.mul_comm c0]; omega
  have hT1 : rowT cfg drcs S ct rv fl L ry La b (c0 + 1) = none :=
    rowT_none_of_lt L ry La b hct hd hb hS hw (L.length) (c0 + 1) (by omega) h2
  have hT0 : rowT cfg drcs S ct rv fl L ry La b c0 = colVal cfg drcs rv fl ct L ry La b c0 := by
    rw [rowT_step L ry La b c0 hct hd hb hS hw, hT1]; rfl
  by_cases hz : c0 = 0
  · subst hz
    simp only [ite_true]
    rw [hT0]; simp
  · simp only [hz, ite_false]
    have hskip := rowT_skip (cfg := cfg) (drcs := drcs) (rv := rv) (fl := fl) L ry La b hct hd hb hS hw (c0 - 1) 0 (by
      intro j _ hj
      have : (j + 2) * 12 * ct ≤ c0 * 12 * ct := Nat.mul_le_mul_right _ (Nat.mul_le_mul_right _ (by omega))
      omega)
    rw [hskip, Nat.zero_add, rowT_step L ry La b (c0 - 1) hct hd hb hS hw]
    have : c0 - 1 + 1 = c0 := by omega
    rw [this, hT0]
end closed

end row

section rows
variable {cfg : Cfg} {drcs : List Bool} {S ct : Nat} {rv fl : Bool}

def rowsT (cfg : Cfg) (drcs : List Bool) (S ct : Nat) (rv fl : Bool) (cells : List (List (Nat × Cell))) (La b k : Nat) : Option Val :=
  finalAt (vtRuns cfg drcs S ct rv fl k (cells.drop k)) (La * S + b)

/-- every row fits into a canvas line and does not end in an unclipped wide character -/
def RowsOk (cfg : Cfg) (S ct : Nat) (cells : List (List (Nat × Cell))) : Prop :=
  ∀ r ∈ cells, r.length * 12 * ct ≤ S ∧ (cfg.wideClip = true ∨ ∀ ic, r.getLast? = some ic → isWide ic.2.size = false)

variable (cells : List (List (Nat × Cell))) (La b : Nat) (hct : 0 < ct) (hd : ct ∣ S) (hb : b < S) (hok : RowsOk cfg S ct cells)
include hct hd hb hok

theorem rowsT_step (k : Nat) (hk : k < cells.length) :
    rowsT cfg drcs S ct rv fl cells La b k =
      (rowsT cfg drcs S ct rv fl cells La b (k + 1)).or (rowT cfg drcs S ct rv fl cells[k] k La b 0) := by
  unfold rowsT rowT
  rw [List.drop_eq_getElem_cons hk]
  simp only [vtRuns, finalAt_append, List.drop_zero]

theorem rowsT_of_ge_length (k : Nat) (hk : cells.length ≤ k) : rowsT cfg drcs S ct rv fl cells La b k = none := by
  unfold rowsT
  rw [List.drop_eq_nil_of_le hk]
  simp [vtRuns, finalAt_nil]

theorem rowT_other_line (k : Nat) (hk : k < cells.length) (hl : ¬ (k * 10 ≤ La ∧ La < k * 10 + 10)) :
    rowT cfg drcs S ct rv fl cells[k] k La b 0 = none := by
  have h := hok cells[k] (List.getElem_mem hk)
  exact rowT_none_of_line cells[k] k La b hct hd hb h.1 h.2 hl cells[k].length 0 (by omega)

theorem rowsT_none : ∀ (n k : Nat), cells.length ≤ k + n → (∀ j, k ≤ j → ¬ (j * 10 ≤ La ∧ La < j * 10 + 10)) →
    rowsT cfg drcs S ct rv fl cells La b k = none := by
  intro n
  induction n with
  | zero => intro k hk _; exact rowsT_of_ge_length cells La b hct hd hb hok k (by omega)
  | succ n ih =>
    intro k hk hl
    by_cases hlt : k < cells.length
    · rw [rowsT_step cells La b hct hd hb hok k hlt, rowT_other_line cells La b hct hd hb hok k hlt (hl k (by omega)),
        ih (k + 1) (by omega) (fun j hj => hl j (by omega))]
      rfl
    · exact rowsT_of_ge_length cells La b hct hd hb hok k (by omega)

theorem rowsT_skip : ∀ (n k : Nat), k + n ≤ cells.length → (∀ j, k ≤ j → j < k + n → ¬ (j * 10 ≤ La ∧ La < j * 10 + 10)) →
    rowsT cfg drcs S ct rv fl cells La b k = rowsT cfg drcs S ct rv fl cells La b (k + n) := by
  intro n
  induction n with
  | zero => intro k _ _; rfl
  | succ n ih =>
    intro k hk hl
    rw [rowsT_step cells La b hct hd hb hok k (by omega), rowT_other_line cells La b hct hd hb hok k (by omega) (hl k (by omega) (by omega)),
      ih (k + 1) (by omega) (fun j h1 h2 => hl j (by omega) (by omega))]
    simp [Nat.add_assoc, Nat.add_comm 1 n]

end rows

/-- the whole canvas: byte `b` of line `ry * 10 + dy` gets its value from character row `ry` alone -/
theorem rowsT_closed {cfg : Cfg} {drcs : List Bool} {S ct : Nat} {rv fl : Bool} (cells : List (List (Nat × Cell))) (b ry dy : Nat)
    (hct : 0 < ct) (hd : ct ∣ S) (hb : b < S) (hok : RowsOk cfg S ct cells) (hry : ry < cells.length) (hdy : dy < 10) :
    finalAt (vtRuns cfg drcs S ct rv fl 0 cells) ((ry * 10 + dy) * S + b) =
      rowT cfg drcs S ct rv fl cells[ry] ry (ry * 10 + dy) b 0 := by
  have h0 : finalAt (vtRuns cfg drcs S ct rv fl 0 cells) ((ry * 10 + dy) * S + b) =
      rowsT cfg drcs S ct rv fl cells (ry * 10 + dy) b 0 := by simp [rowsT]
  rw [h0, rowsT_skip cells (ry * 10 + dy) b hct hd hb hok ry 0 (by omega) (fun j _ hj => by omega), Nat.zero_add,
    rowsT_step cells (ry * 10 + dy) b hct hd hb hok ry hry,
    rowsT_none cells (ry * 10 + dy) b hct hd hb hok cells.length (ry + 1) (by omega) (fun j hj => by omega)]
  rfl

theorem mapE_getElem {β : Type} (f : Nat → Except Fault β) : ∀ (l : List Nat) (ys : List β), mapE f l = .ok ys →
    ∀ i (hi : i < ys.length) (hl : i < l.length), f l[i] = .ok ys[i] := by
  intro l
  induction l with
  | nil => intro ys _ i _ hl; simp at hl
  | cons x xs ih =>
    intro ys h i hi hl
    unfold mapE at h
    cases hx : f x with
    | error e => simp [hx] at h
    | ok y0 =>
      simp only [hx] at h
      cases hxs : mapE f xs with
      | error e => simp [hxs] at h
      | ok ys' =>
        simp only [hxs] at h
        cases h
        cases i with
        | zero => simpa using hx
        | succ i => simpa using ih ys' hxs i (by simpa using hi) (by simpa using hl)

/-- element of the region cell matrix = the checked read of `pg->text` -/
theorem regionCells_getElem {pg : Page} {col row w h : Nat} {cells : List (List (Nat × Cell))}
    (hc : regionCells pg col row w h = .ok cells) (ry cx : Nat) (hry : ry < cells.length) (hcx : cx < cells[ry].length) :
    cellAt pg (row + ry) (col + cx) = .ok cells[ry][cx] := by
  obtain ⟨hlen, hrows⟩ := regionCells_shape hc
  unfold regionCells at hc
  have h1 := mapE_getElem _ _ _ hc ry hry (by simp; omega)
  simp only [List.getElem_range] at h1
  have hw := hrows cells[ry] (List.getElem_mem hry)
  have h2 := mapE_getElem _ _ _ h1 cx hcx (by simp; omega)
  simpa using h2

theorem clipSize_of_not_wide {s : Nat} (h : isWide s = false) : clipSize s = s := by
  unfold isWide at h
  unfold clipSize
  simp only [Bool.or_eq_false_iff] at h
  simp [h.1.1, h.1.2, h.2]

theorem vtDrawn_last_irrel {cfg : Cfg} {drcs : List Bool} {rv fl : Bool} (l1 l2 : Bool) (c : Cell)
    (h : l1 = l2 ∨ isWide c.size = false) :
    vtDrawn cfg drcs rv fl l1 c = vtDrawn cfg drcs rv fl l2 c := by
  rcases h with h | h
  · rw [h]
  · unfold vtDrawn drawSize
    simp [clipSize_of_not_wide h]

theorem vtDrawn_isSome {cfg : Cfg} {drcs : List Bool} {rv fl : Bool} (l : Bool) (c : Cell) (h : isOver c.size = false) :
    ∃ ks, vtDrawn cfg drcs rv fl l c = some ks := by
  unfold vtDrawn
  simp only [h, Bool.false_eq_true, ite_false]
  split
  · split <;> exact ⟨_, rfl⟩
  · exact ⟨_, rfl⟩

section shift
variable {cfg : Cfg} {drcs : List Bool} {ct : Nat} {rv fl : Bool}

/-- a column of the region row `R` (= columns `col ..` of the page row `F`) contributes to the region canvas
    what it contributes to the full-page canvas at the shifted place -/
theorem colVal_shift (R F : List (Nat × Cell)) (col w ry row dy b j : Nat) (hdy : dy < 10)
    (hRlen : R.length = w) (hFlen : col + w ≤ F.length) (hj : j < w)
    (hRF : ∀ i (hi : i < R.length) (hi' : col + i < F.length), R[i] = F[col + i])
    (hnw : ∀ ic, R.getLast? = some ic → isWide ic.2.size = false) :
    colVal cfg drcs rv fl ct R ry (ry * 10 + dy) b j =
      colVal cfg drcs rv fl ct F (row + ry) ((row + ry) * 10 + dy) (col * 12 * ct + b) (col + j) := by
  unfold colVal
  have hjR : j < R.length := by omega
  have hjF : col + j < F.length := by omega
  rw [List.getElem?_eq_getElem hjR, List.getElem?_eq_getElem hjF, ← hRF j hjR hjF]
  simp only
  have hdrawn : vtDrawn cfg drcs rv fl (R.drop (j + 1)).isEmpty R[j].2 = vtDrawn cfg drcs rv fl (F.drop (col + j + 1)).isEmpty R[j].2 := by
    apply vtDrawn_last_irrel
    cases he : (R.drop (j + 1)).isEmpty with
    | true => right; exact hnw _ (getLast_of_drop_empty R j hjR he)
    | false =>
      left
      have h1 : ¬ R.length ≤ j + 1 := by
        intro h0; have : (R.drop (j + 1)).isEmpty = true := by simpa using h0
        rw [this] at he; cases he
      have : ¬ F.length ≤ col + j + 1 := by omega
      symm; simpa using this
  rw [hdrawn]
  cases vtDrawn cfg drcs rv fl (F.drop (col + j + 1)).isEmpty R[j].2 with
  | none => rfl
  | some ks =>
    simp only
    have e1 : (col + j) * 12 * ct = col * 12 * ct + j * 12 * ct := by rw [Nat.add_mul, Nat.add_mul]
    have c1 : (ry * 10 ≤ ry * 10 + dy ∧ ry * 10 + dy < ry * 10 + 10) := by omega
    have c2 : ((row + ry) * 10 ≤ (row + ry) * 10 + dy ∧ (row + ry) * 10 + dy < (row + ry) * 10 + 10) := by omega
    by_cases hc : j * 12 * ct ≤ b ∧ b < j * 12 * ct + (if isWide ks.2 then 2 else 1) * 12 * ct
    · have hc' : (col + j) * 12 * ct ≤ col * 12 * ct + b ∧
          col * 12 * ct + b < (col + j) * 12 * ct + (if isWide ks.2 then 2 else 1) * 12 * ct := by
        rw [e1]; omega
      rw [if_pos ⟨c1.1, c1.2, hc.1, hc.2⟩, if_pos ⟨c2.1, c2.2, hc'.1, hc'.2⟩]
      have v1 : ry * 10 + dy - ry * 10 = (row + ry) * 10 + dy - (row + ry) * 10 := by omega
      have v2 : b - j * 12 * ct = col * 12 * ct + b - (col + j) * 12 * ct := by rw [e1]; omega
      rw [v1, v2]
    · have hc' : ¬ ((col + j) * 12 * ct ≤ col * 12 * ct + b ∧
          col * 12 * ct + b < (col + j) * 12 * ct + (if isWide ks.2 then 2 else 1) * 12 * ct) := by
        rw [e1]; omega
      rw [if_neg (fun h => hc ⟨h.2.2.1, h.2.2.2⟩), if_neg (fun h => hc' ⟨h.2.2.1, h.2.2.2⟩)]

end shift

/-- `region_equals_full` for every configuration with the F14 repair -/
theorem region_equals_full_core (cfg : Cfg) (hclip : cfg.wideClip = true) : region_equals_full_stmt cfg := by
  intro pg ct S col row w h reveal flashOn cells rr fr hct hd hS hcol hrow hc hnc hrr hfr line b hline hb
  have hct' : ¬ ct = 0 := by omega
  have hu : 0 < 12 * ct := by omega
  unfold drawVt at hrr hfr
  simp only [hct', ite_false, hc, Option.getD_some] at hrr
  cases hrr
  cases hfc : regionCells pg 0 0 pg.columns pg.rows with
  | error f => simp [hct', hfc] at hfr
  | ok fcells =>
    simp only [hct', ite_false, hfc, Option.getD_none] at hfr
    cases hfr
    obtain ⟨hlen, hrows⟩ := regionCells_shape hc
    obtain ⟨hflen, hfrows⟩ := regionCells_shape hfc
    generalize hry : line / 10 = ry
    generalize hdy : line % 10 = dy
    have hl : line = ry * 10 + dy := by omega
    have hdy' : dy < 10 := by omega
    have hryh : ry < cells.length := by omega
    have hryf : row + ry < fcells.length := by omega
    have e1 : (col + w) * 12 * ct = col * 12 * ct + w * 12 * ct := by rw [Nat.add_mul, Nat.add_mul]
    have e2 : (col + w) * 12 * ct ≤ pg.columns * 12 * ct := Nat.mul_le_mul_right _ (Nat.mul_le_mul_right _ hcol)
    have hb' : col * 12 * ct + b < pg.columns * 12 * ct := by omega
    have haddr : (row * 10 + line) * (pg.columns * 12 * ct) + col * 12 * ct + b =
        ((row + ry) * 10 + dy) * (pg.columns * 12 * ct) + (col * 12 * ct + b) := by
      have : row * 10 + line = (row + ry) * 10 + dy := by omega
      rw [this, Nat.add_assoc]
    rw [haddr, hl]
    have hokR : RowsOk cfg S ct cells := by
      intro r hr
      refine ⟨by rw [hrows r hr]; exact hS, Or.inr (hnc.1 r hr)⟩
    have hokF : RowsOk cfg (pg.columns * 12 * ct) ct fcells := by
      intro r hr
      refine ⟨by rw [hfrows r hr]; exact Nat.le_refl _, Or.inl hclip⟩
    have hdF : ct ∣ pg.columns * 12 * ct := Nat.dvd_mul_left ct (pg.columns * 12)
    rw [rowsT_closed cells b ry dy hct hd (by omega) hokR hryh hdy',
      rowsT_closed fcells (col * 12 * ct + b) (row + ry) dy hct hdF hb' hokF hryf hdy']
    have hR := hokR cells[ry] (List.getElem_mem hryh)
    have hF := hokF fcells[row + ry] (List.getElem_mem hryf)
    have hRlen : cells[ry].length = w := hrows _ (List.getElem_mem hryh)
    have hFlen : fcells[row + ry].length = pg.columns := hfrows _ (List.getElem_mem hryf)
    rw [rowT_closed cells[ry] ry (ry * 10 + dy) b hct hd (by omega) hR.1 hR.2,
      rowT_closed fcells[row + ry] (row + ry) ((row + ry) * 10 + dy) (col * 12 * ct + b) hct hdF hb' hF.1 hF.2]
    have hRF : ∀ i (hi : i < cells[ry].length) (hi' : col + i < fcells[row + ry].length),
        cells[ry][i] = fcells[row + ry][col + i] := by
      intro i hi hi'
      have h1 := regionCells_getElem hc ry i hryh hi
      have h2 := regionCells_getElem hfc (row + ry) (col + i) hryf hi'
      simp only [Nat.zero_add] at h2
      rw [h1] at h2
      exact Except.ok.inj h2
    have hc0' : (col * 12 * ct + b) / (12 * ct) = col + b / (12 * ct) := by
      rw [Nat.mul_assoc, Nat.mul_comm col, Nat.mul_add_div hu]
    have hc0w : b / (12 * ct) < w := by
      rw [Nat.div_lt_iff_lt_mul hu, ← Nat.mul_assoc]; exact hb
    rw [hc0']
    generalize hc0 : b / (12 * ct) = c0 at *
    have hsh := fun j (hj : j < w) => colVal_shift (cfg := cfg) (drcs := pg.drcs) (ct := ct) (rv := reveal) (fl := flashOn)
      cells[ry] fcells[row + ry] col w ry row dy b j hdy' hRlen (by omega) hj hRF (hnc.1 _ (List.getElem_mem hryh))
    by_cases hz : c0 = 0
    · subst hz
      simp only [ite_true, Nat.add_zero]
      have hs0 := hsh 0 (by omega)
      simp only [Nat.add_zero] at hs0
      -- the first cell of the region row is drawn (not OVER_TOP / OVER_BOTTOM) and covers the byte
      have hw0 : 0 < cells[ry].length := by omega
      have hnotover := hnc.2 cells[ry] (List.getElem_mem hryh) cells[ry][0] (by
        rw [List.head?_eq_getElem?, List.getElem?_eq_getElem hw0])
      have hblt : b < 1 * 12 * ct := by
        have := Nat.div_add_mod b (12 * ct)
        have := Nat.mod_lt b hu
        rw [hc0] at *
        simp at *
        omega
      obtain ⟨ks, hks⟩ := vtDrawn_isSome (cfg := cfg) (drcs := pg.drcs) (rv := reveal) (fl := flashOn)
        (cells[ry].drop (0 + 1)).isEmpty cells[ry][0].2 hnotover
      have hsome : ∃ v, colVal cfg pg.drcs reveal flashOn ct cells[ry] ry (ry * 10 + dy) b 0 = some v := by
        unfold colVal
        rw [List.getElem?_eq_getElem hw0]
        simp only [hks]
        have : ry * 10 ≤ ry * 10 + dy ∧ ry * 10 + dy < ry * 10 + 10 ∧ 0 * 12 * ct ≤ b ∧
            b < 0 * 12 * ct + (if isWide ks.2 then 2 else 1) * 12 * ct := by
          refine ⟨by omega, by omega, by omega, ?_⟩
          have : 1 * 12 * ct ≤ (if isWide ks.2 then 2 else 1) * 12 * ct :=
            Nat.mul_le_mul_right _ (Nat.mul_le_mul_right _ (by split <;> omega))
          omega
        rw [if_pos this]
        exact ⟨_, rfl⟩
      obtain ⟨v, hv⟩ := hsome
      have hvF := hv
      rw [hs0] at hvF
      rw [hv, hvF]
      simp
    · have hne : ¬ col + c0 = 0 := by omega
      simp only [hz, hne, ite_false]
      rw [hsh c0 hc0w, hsh (c0 - 1) (by omega)]
      have : col + (c0 - 1) = col + c0 - 1 := by omega
      rw [this]

end Zvbi.Export
