import ZvbiModel.Export.Page
/-!
# Model of the text export module (exp-txt.c `print_char`, `export`), C16

The module is an exporter in the sense of `Model.lean`: it produces a list of write-layer calls
(`putc` for one byte, `write` for more, `printf "\\e[m\\n"` at the end in terminal mode).
Options: `charset` / `format` (the converter `conv`), `gfx_chr`, `control` (`term` 0 none, 1 ANSI, 2 VT200).
-/
namespace Zvbi.Export

/-- lang.h -/
def isPrint (u : Nat) : Bool := u < 0xE600
def isGfx (u : Nat) : Bool := u ≥ 0xEE00 && u ≤ 0xEFFF

/-- option_set "gfx_chr": `(value < 0x20 || value > 0xE000) ? 0x20 : value` -/
def gfxOption (value : Nat) : Nat := if value < 0x20 ∨ value > 0xE000 then 0x20 else value

/-- `if (!vbi_is_print (unicode)) unicode = vbi_is_gfx (unicode) ? gfx_chr : 0x20` -/
def substChar (gfx u : Nat) : Nat := if isPrint u then u else if isGfx u then gfx else 0x20

def absDiff (x y : Nat) : Nat := if x ≥ y then x - y else y - x

/-- distance of primary colour `i` (bit 0 red, 1 green, 2 blue) from `rgba` -/
def colorDist (rgba i : Nat) : Nat :=
  absDiff ((i % 2) * 255) (rgba % 256) + absDiff (((i / 2) % 2) * 255) ((rgba / 256) % 256)
    + absDiff ((i / 4) * 255) ((rgba / 65536) % 256)

/-- exp-txt.c `match_color8`: nearest of the eight primary colours (first minimum wins) -/
def matchColor8 (rgba : Nat) : Nat :=
  (List.range 8).foldl (fun best i => if colorDist rgba i < colorDist rgba best then i else best) 0

def esc : Nat := 0x1B

/-- what `old` looks like before the first character: `memset (&old, ~0, sizeof (old))` -/
def cellOnes : Cell :=
  { unicode := 0xFFFF, size := 0xFF, conceal := true, flash := true, underline := true, bold := true,
    foreground := 0xFF, background := 0xFF }

/-- `if (chg.size) switch (this.size) ...`: the line-size sequence, `none` = return -1 (don't print) -/
def sizeSeq (old this : Cell) : Option Bytes :=
  if old.size != this.size then
    if this.size == sizeNormal then some [esc, 0x23, 0x35]
    else if this.size == sizeDoubleWidth then some [esc, 0x23, 0x36]
    else if this.size == sizeDoubleSize then some [esc, 0x23, 0x33]
    else if this.size == sizeDoubleSize2 then some [esc, 0x23, 0x34]
    else if this.size == sizeOverTop || this.size == sizeOverBottom then none
    else some []
  else some []

/-- one of underline / bold / flash: `[2]<code>;` when it changed (`2` = off) -/
def attrSeq (c on : Bool) (code : Nat) : Bytes := if c then (if on then [] else [0x32]) ++ [code, 0x3B] else []

/-- `3<colour>;` / `4<colour>;` -/
def colSeq (c : Bool) (lead rgba : Nat) : Bytes := if c then [lead, 0x30 + matchColor8 rgba, 0x3B] else []

/-- `p = stpcpy (p, "\e["); ... if (p[-1] == '[') p -= 2; else p[-1] = 'm';` -/
def closeSeq (body : Bytes) : Bytes := if body.isEmpty then [] else [esc, 0x5B] ++ body.dropLast ++ [0x6D]

/-- the terminal control sequence `print_char` emits before a character (`term` = 1 or 2);
    `.ok none` = return -1 (character skipped), `.error` = out-of-bounds read of `color_map` -/
def ctlSeq (term : Nat) (colorMap : List Nat) (old this : Cell) : Except Fault (Option Bytes) :=
  match sizeSeq old this with
  | none => .ok none
  | some sz =>
    let chgU := old.underline != this.underline
    let chgB := old.bold != this.bold
    let chgF := old.flash != this.flash
    -- off = chg & ~this : the attribute was on and is now off
    let offAny := (chgU && !this.underline) || (chgB && !this.bold) || (chgF && !this.flash)
    let reset := term == 1 && offAny
    let cU := if reset then this.underline else chgU
    let cB := if reset then this.bold else chgB
    let cF := if reset then this.flash else chgF
    let cFg := reset || old.foreground != this.foreground
    let cBg := reset || old.background != this.background
    match (if cFg then colorMap[this.foreground]? else some 0), (if cBg then colorMap[this.background]? else some 0) with
    | some fgc, some bgc =>
      .ok (some (sz ++ closeSeq ((if reset then [0x3B] else []) ++ attrSeq cU this.underline 0x34 ++ attrSeq cB this.bold 0x31
        ++ attrSeq cF this.flash 0x35 ++ colSeq cFg 0x33 fgc ++ colSeq cBg 0x34 bgc)))
    | _, _ => .error (.oob "pg->color_map")

/-- `sizeof (text->buf)` -/
def textBufSize : Nat := 32

/-- exp-txt.c:488 `print_char`: `.ok none` = -1 (skip), `.ok (some [])`... never; `.ok (some bs)` the bytes in
    `text->buf`; `.error` with `Fault.assertFail "conversion"` stands for the return value 0 -/
inductive CharOut
  | skip
  | fail
  | bytes (bs : Bytes)
  deriving Repr, DecidableEq

def printChar (cfg : Cfg) (conv : Nat → Option Bytes) (term gfx : Nat) (colorMap : List Nat) (old this : Cell) :
    Except Fault CharOut :=
  let pre : Except Fault (Option Bytes) := if term > 0 then ctlSeq term colorMap old this else .ok (some [])
  match pre with
  | .error f => .error f
  | .ok none => .ok .skip
  | .ok (some ctl) =>
    if ctl.length > textBufSize then .error (.oob "text->buf")
    else
      match printUnicode cfg conv (substChar gfx this.unicode) (textBufSize - ctl.length) with
      | none => .ok .fail
      | some bs => if (ctl ++ bs).isEmpty then .ok .fail else .ok (.bytes (ctl ++ bs))   -- `n == 0` is the failure value

/-- the calls one character causes: `n == 1` putc, else write -/
def charOps (bs : Bytes) : List Op :=
  match bs with
  | [b] => [.putc b]
  | _ => [.write bs]

/-- column loop of `export ()`: returns the calls, the new `old`, and whether the row completed -/
def textRowOps (cfg : Cfg) (conv : Nat → Option Bytes) (term gfx : Nat) (colorMap : List Nat) :
    Cell → List Cell → Except Fault (List Op × Cell × Bool)
  | old, [] => .ok ([], old, true)
  | old, c :: cs =>
    match printChar cfg conv term gfx colorMap old c with
    | .error f => .error f
    | .ok .fail => .ok ([], old, false)
    | .ok .skip =>
      (match textRowOps cfg conv term gfx colorMap c cs with
      | .error f => .error f
      | .ok (ops, o, ok) => .ok (ops, o, ok))
    | .ok (.bytes bs) =>
      (match textRowOps cfg conv term gfx colorMap c cs with
      | .error f => .error f
      | .ok (ops, o, ok) => .ok (charOps bs ++ ops, o, ok))

/-- row loop of `export ()` -/
def textRowsOps (cfg : Cfg) (conv : Nat → Option Bytes) (term gfx : Nat) (colorMap : List Nat) :
    Cell → List (List Cell) → Except Fault (List Op × Bool)
  | _, [] => .ok ([], true)          -- not reached: pages have at least one row
  | old, [r] =>
    (match textRowOps cfg conv term gfx colorMap old r with
    | .error f => .error f
    | .ok (ops, _, ok) =>
      if ok then .ok (ops ++ [if term > 0 then .printf [esc, 0x5B, 0x6D, 0x0A] else .putc 0x0A], true)
      else .ok (ops, false))
  | old, r :: rs =>
    (match textRowOps cfg conv term gfx colorMap old r with
    | .error f => .error f
    | .ok (ops, o, ok) =>
      if ok then
        (match textRowsOps cfg conv term gfx colorMap o rs with
        | .error f => .error f
        | .ok (ops2, ok2) => .ok (ops ++ [.putc 0x0A] ++ ops2, ok2))
      else .ok (ops, false))

/-- exp-txt.c:595 `export ()`: the write-layer calls of the text module for a page, and whether it ran to
    the end (`false`: a character could not be converted, the module returns FALSE) -/
def textOps (cfg : Cfg) (conv : Nat → Option Bytes) (term gfx : Nat) (pg : Page) : Except Fault (List Op × Bool) :=
  match regionCells pg 0 0 pg.columns pg.rows with
  | .error f => .error f
  | .ok cells => textRowsOps cfg conv term gfx pg.colorMap cellOnes (cells.map (·.map (·.2)))

end Zvbi.Export
