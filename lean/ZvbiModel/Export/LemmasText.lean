import ZvbiModel.Export.Spec
import ZvbiModel.Export.LemmasPrint
/-! Helper lemmas for the text export module (C16). -/
namespace Zvbi.Export
open Zvbi.Export.Spec

theorem output_append (xs ys : List Op) : output (xs ++ ys) = output xs ++ output ys := by
  simp [output, List.flatMap_append]

theorem charOps_output {bs : Bytes} (hb : ∀ b ∈ bs, b < 256) : output (charOps bs) = bs := by
  unfold charOps
  split
  · next b =>
    have : b < 256 := hb b (by simp)
    simp [output, opBytes, Nat.mod_eq_of_lt this]
  · simp [output, opBytes]

theorem lastCell_cons (old c : Cell) (cs : List Cell) : lastCell old (c :: cs) = lastCell c cs := by
  unfold lastCell
  cases cs with
  | nil => simp
  | cons d ds =>
    simp only [List.getLast?_cons_cons]
    cases h : (d :: ds).getLast? with
    | none => simp [List.getLast?_eq_none_iff] at h
    | some x => rfl

section
variable {cfg : Cfg} {conv : Nat → Option Bytes}

theorem printChar_plain {gfx : Nat} {cm : List Nat} {old c : Cell} {a : Bytes} (hA : AtFits cfg conv)
    (hF : ConvFits cfg conv 32) (he : encU cfg conv (substChar gfx c.unicode) = some a) :
    printChar cfg conv 0 gfx cm old c = .ok (.bytes a) := by
  obtain ⟨h0, h32, _⟩ := hF _ _ he
  unfold printChar
  have : printUnicode cfg conv (substChar gfx c.unicode) (textBufSize - ([] : Bytes).length) = some a :=
    printUnicode_exactU hA he (by simpa [textBufSize] using h32)
  have hne : (([] : Bytes) ++ a).isEmpty = false := by
    cases a with
    | nil => simp at h0
    | cons x xs => simp
  have this' : printUnicode cfg conv (substChar gfx c.unicode) textBufSize = some a := by simpa using this
  have hne' : a ≠ [] := by intro h; rw [h] at h0; simp at h0
  simp [this', hne']

theorem textRowOps_plain {gfx : Nat} {cm : List Nat} (hA : AtFits cfg conv) (hF : ConvFits cfg conv 32) :
    ∀ (cs : List Cell) (old : Cell) (e : Bytes), plainRow cfg conv gfx cs = some e →
      ∃ ops, textRowOps cfg conv 0 gfx cm old cs = .ok (ops, lastCell old cs, true) ∧ output ops ++ [0x0A] = e := by
  intro cs
  induction cs with
  | nil => intro old e h; simp [plainRow] at h; subst h; exact ⟨[], by simp [textRowOps, lastCell], by simp [output]⟩
  | cons c cs ih =>
    intro old e h
    unfold plainRow at h
    cases h1 : encU cfg conv (substChar gfx c.unicode) with
    | none => simp [h1] at h
    | some a =>
      cases h2 : plainRow cfg conv gfx cs with
      | none => simp [h1, h2] at h
      | some b =>
        simp only [h1, h2] at h
        cases h
        obtain ⟨ops, hops, hout⟩ := ih c b h2
        refine ⟨charOps a ++ ops, ?_, ?_⟩
        · unfold textRowOps
          rw [printChar_plain hA hF h1]
          simp only [hops, lastCell_cons]
        · rw [output_append, charOps_output (hF _ _ h1).2.2, List.append_assoc, hout]

theorem textRowsOps_plain {gfx : Nat} {cm : List Nat} (hA : AtFits cfg conv) (hF : ConvFits cfg conv 32) :
    ∀ (rows : List (List Cell)) (old : Cell) (e : Bytes), rows ≠ [] → plainText cfg conv gfx rows = some e →
      ∃ ops, textRowsOps cfg conv 0 gfx cm old rows = .ok (ops, true) ∧ output ops = e := by
  intro rows
  induction rows with
  | nil => intro old e hne; exact absurd rfl hne
  | cons r rs ih =>
    intro old e _ h
    unfold plainText at h
    cases h1 : plainRow cfg conv gfx r with
    | none => simp [h1] at h
    | some a =>
      cases h2 : plainText cfg conv gfx rs with
      | none => simp [h1, h2] at h
      | some b =>
        simp only [h1, h2] at h
        cases h
        obtain ⟨ops, hops, hout⟩ := textRowOps_plain (gfx := gfx) (cm := cm) hA hF r old a h1
        cases rs with
        | nil =>
          simp [plainText] at h2; subst h2
          refine ⟨ops ++ [.putc 0x0A], ?_, ?_⟩
          · simp [textRowsOps, hops]
          · rw [output_append, ← hout]; simp [output, opBytes]
        | cons r2 rs2 =>
          obtain ⟨ops2, hops2, hout2⟩ := ih (lastCell old r) b (by simp) h2
          refine ⟨ops ++ [.putc 0x0A] ++ ops2, ?_, ?_⟩
          · simp [textRowsOps, hops, hops2]
          · rw [output_append, output_append, hout2, ← hout]; simp [output, opBytes]

theorem matchColor8_le (rgba : Nat) : matchColor8 rgba ≤ 7 := by
  unfold matchColor8
  have key : ∀ (l : List Nat) (best : Nat), (∀ i ∈ l, i ≤ 7) → best ≤ 7 →
      l.foldl (fun best i => if colorDist rgba i < colorDist rgba best then i else best) best ≤ 7 := by
    intro l
    induction l with
    | nil => intro best _ hb; simpa using hb
    | cons x xs ih =>
      intro best hl hb
      simp only [List.foldl]
      apply ih
      · intro i hi; exact hl i (List.mem_cons_of_mem _ hi)
      · split
        · exact hl x (List.mem_cons_self ..)
        · exact hb
  exact key (List.range 8) 0 (by intro i hi; have := List.mem_range.1 hi; omega) (by omega)

def SmallBytes (n : Nat) (bs : Bytes) : Prop := bs.length ≤ n ∧ ∀ b ∈ bs, b < 256

theorem SmallBytes.append {n m : Nat} {a b : Bytes} (ha : SmallBytes n a) (hb : SmallBytes m b) : SmallBytes (n + m) (a ++ b) := by
  refine ⟨by simp; have := ha.1; have := hb.1; omega, ?_⟩
  intro x hx
  rcases List.mem_append.1 hx with h | h
  · exact ha.2 x h
  · exact hb.2 x h

theorem sizeSeq_small {old this : Cell} {sz : Bytes} (h : sizeSeq old this = some sz) : SmallBytes 3 sz := by
  unfold sizeSeq at h
  repeat' split at h
  all_goals first
    | (cases h; exact ⟨by decide, by decide⟩)
    | cases h

theorem attrSeq_small (c on : Bool) (code : Nat) (hc : code < 256) : SmallBytes 3 (attrSeq c on code) := by
  unfold attrSeq
  cases c <;> cases on <;> simp [SmallBytes] <;> omega

theorem colSeq_small (c : Bool) (lead rgba : Nat) (hl : lead < 256) : SmallBytes 3 (colSeq c lead rgba) := by
  unfold colSeq
  have := matchColor8_le rgba
  cases c <;> simp [SmallBytes] <;> omega

theorem closeSeq_small {n : Nat} {body : Bytes} (h : SmallBytes n body) : SmallBytes (n + 2) (closeSeq body) := by
  unfold closeSeq
  split
  · exact ⟨by simp, by simp⟩
  · next hne =>
    have hpos : 0 < body.length := by
      cases body with
      | nil => simp at hne
      | cons x xs => simp
    refine ⟨by simp; have := h.1; omega, ?_⟩
    intro x hx
    simp only [List.mem_append, List.mem_cons, List.mem_singleton, List.not_mem_nil, or_false] at hx
    rcases hx with (h1 | h1) | h1
    · rcases h1 with rfl | rfl <;> decide
    · exact h.2 x (List.dropLast_subset _ h1)
    · rw [h1]; decide

theorem ctlSeq_small {term : Nat} {cm : List Nat} {old this : Cell} {ctl : Bytes}
    (h : ctlSeq term cm old this = .ok (some ctl)) : SmallBytes 21 ctl := by
  unfold ctlSeq at h
  cases hs : sizeSeq old this with
  | none => simp [hs] at h
  | some sz =>
    simp only [hs] at h
    split at h
    · cases h
      have hr : ∀ (r : Bool), SmallBytes 1 (if r = true then [0x3B] else ([] : Bytes)) := by
        intro r; cases r <;> simp [SmallBytes]
      exact (sizeSeq_small hs).append (closeSeq_small
        ((((((hr _).append (attrSeq_small _ _ 0x34 (by decide))).append (attrSeq_small _ _ 0x31 (by decide))).append
          (attrSeq_small _ _ 0x35 (by decide))).append (colSeq_small _ 0x33 _ (by decide))).append (colSeq_small _ 0x34 _ (by decide))))
    · cases h

theorem ctlSeq_len {term : Nat} {cm : List Nat} {old this : Cell} {ctl : Bytes}
    (h : ctlSeq term cm old this = .ok (some ctl)) : ctl.length ≤ 21 := (ctlSeq_small h).1

theorem ctlSeq_bytes {term : Nat} {cm : List Nat} {old this : Cell} {ctl : Bytes}
    (h : ctlSeq term cm old this = .ok (some ctl)) : ∀ b ∈ ctl, b < 256 := (ctlSeq_small h).2

theorem printChar_ctl {term gfx : Nat} {cm : List Nat} {old c : Cell} {ctl a : Bytes} (ht : 0 < term) (hA : AtFits cfg conv)
    (hF : ConvFits cfg conv 11) (hc : ctlSeq term cm old c = .ok (some ctl))
    (he : encU cfg conv (substChar gfx c.unicode) = some a) :
    printChar cfg conv term gfx cm old c = .ok (.bytes (ctl ++ a)) := by
  obtain ⟨h0, h11, _⟩ := hF _ _ he
  have hl := ctlSeq_len hc
  unfold printChar
  have hpu : printUnicode cfg conv (substChar gfx c.unicode) (textBufSize - ctl.length) = some a :=
    printUnicode_exactU hA he (by show a.length ≤ 32 - ctl.length; omega)
  have hne' : ctl ++ a ≠ [] := by
    intro h
    have : a = [] := (List.append_eq_nil_iff.1 h).2
    rw [this] at h0; simp at h0
  have hnb : ¬ ctl.length > textBufSize := by show ¬ ctl.length > 32; omega
  simp [ht, hc, hnb, hpu, hne']

theorem printChar_skip {term gfx : Nat} {cm : List Nat} {old c : Cell} (ht : 0 < term)
    (hc : ctlSeq term cm old c = .ok none) : printChar cfg conv term gfx cm old c = .ok .skip := by
  unfold printChar
  simp [ht, hc]

theorem textRowOps_ctl {term gfx : Nat} {cm : List Nat} (ht : 0 < term) (hA : AtFits cfg conv) (hF : ConvFits cfg conv 11) :
    ∀ (cs : List Cell) (old : Cell) (e : Bytes), ctlRow cfg conv term gfx cm old cs = some e →
      ∃ ops, textRowOps cfg conv term gfx cm old cs = .ok (ops, lastCell old cs, true) ∧ output ops = e := by
  intro cs
  induction cs with
  | nil => intro old e h; simp [ctlRow] at h; subst h; exact ⟨[], by simp [textRowOps, lastCell], by simp [output]⟩
  | cons c cs ih =>
    intro old e h
    unfold ctlRow at h
    cases h1 : ctlSeq term cm old c with
    | error f => simp [h1] at h
    | ok o =>
      cases h2 : ctlRow cfg conv term gfx cm c cs with
      | none => cases o <;> simp [h1, h2] at h
      | some b =>
        obtain ⟨ops, hops, hout⟩ := ih c b h2
        cases o with
        | none =>
          simp only [h1, h2] at h
          cases h
          refine ⟨ops, ?_, hout⟩
          unfold textRowOps
          rw [printChar_skip ht h1]
          simp only [hops, lastCell_cons]
        | some ctl =>
          simp only [h1, h2] at h
          cases h3 : encU cfg conv (substChar gfx c.unicode) with
          | none => simp [h3] at h
          | some a =>
            simp only [h3, Option.map_some, Option.some.injEq] at h
            subst h
            refine ⟨charOps (ctl ++ a) ++ ops, ?_, ?_⟩
            · unfold textRowOps
              rw [printChar_ctl ht hA hF h1 h3]
              simp only [hops, lastCell_cons]
            · have hb : ∀ x ∈ ctl ++ a, x < 256 := by
                intro x hx
                rcases List.mem_append.1 hx with hx | hx
                · exact ctlSeq_bytes h1 x hx
                · exact (hF _ _ h3).2.2 x hx
              rw [output_append, charOps_output hb, hout, List.append_assoc]

theorem textRowsOps_ctl {term gfx : Nat} {cm : List Nat} (ht : 0 < term) (hA : AtFits cfg conv) (hF : ConvFits cfg conv 11) :
    ∀ (rows : List (List Cell)) (old : Cell) (e : Bytes), rows ≠ [] → ctlText cfg conv term gfx cm old rows = some e →
      ∃ ops, textRowsOps cfg conv term gfx cm old rows = .ok (ops, true) ∧ output ops = e := by
  intro rows
  induction rows with
  | nil => intro old e hne; exact absurd rfl hne
  | cons r rs ih =>
    intro old e _ h
    have ht' : (decide (term > 0)) = true := by simpa using ht
    cases rs with
    | nil =>
      simp only [ctlText] at h
      cases h1 : ctlRow cfg conv term gfx cm old r with
      | none => simp [h1] at h
      | some a =>
        simp only [h1, Option.map_some, Option.some.injEq] at h
        subst h
        obtain ⟨ops, hops, hout⟩ := textRowOps_ctl (gfx := gfx) (cm := cm) ht hA hF r old a h1
        refine ⟨ops ++ [.printf [esc, 0x5B, 0x6D, 0x0A]], ?_, ?_⟩
        · simp [textRowsOps, hops, ht]
        · rw [output_append, hout]; simp [output, opBytes]
    | cons r2 rs2 =>
      simp only [ctlText] at h
      cases h1 : ctlRow cfg conv term gfx cm old r with
      | none => simp [h1] at h
      | some a =>
        cases h2 : ctlText cfg conv term gfx cm (lastCell old r) (r2 :: rs2) with
        | none => simp [h1, h2] at h
        | some b =>
          simp only [h1, h2] at h
          cases h
          obtain ⟨ops, hops, hout⟩ := textRowOps_ctl (gfx := gfx) (cm := cm) ht hA hF r old a h1
          obtain ⟨ops2, hops2, hout2⟩ := ih (lastCell old r) b (by simp) h2
          refine ⟨ops ++ [.putc 0x0A] ++ ops2, ?_, ?_⟩
          · simp [textRowsOps, hops, hops2]
          · rw [output_append, output_append, hout2, hout]; simp [output, opBytes]

end
end Zvbi.Export
