import ZvbiModel.Export.Spec
/-! Helper lemmas for `vbi_print_page_region` and the region cell matrix (C16). -/
namespace Zvbi.Export
open Zvbi.Export.Spec

theorem mapE_length {β : Type} (f : Nat → Except Fault β) : ∀ (l : List Nat) (ys : List β), mapE f l = .ok ys → ys.length = l.length := by
  intro l
  induction l with
  | nil => intro ys h; simp [mapE] at h; subst h; rfl
  | cons x xs ih =>
    intro ys h
    unfold mapE at h
    cases hx : f x with
    | error e => simp [hx] at h
    | ok y =>
      simp only [hx] at h
      cases hxs : mapE f xs with
      | error e => simp [hxs] at h
      | ok ys' =>
        simp only [hxs] at h
        cases h
        simp [ih ys' hxs]

theorem mapE_mem {β : Type} (f : Nat → Except Fault β) : ∀ (l : List Nat) (ys : List β), mapE f l = .ok ys →
    ∀ y ∈ ys, ∃ x ∈ l, f x = .ok y := by
  intro l
  induction l with
  | nil => intro ys h; simp [mapE] at h; subst h; intro y hy; cases hy
  | cons x xs ih =>
    intro ys h
    unfold mapE at h
    cases hx : f x with
    | error e => simp [hx] at h
    | ok y0 =>
      simp only [hx] at h
      cases hxs : mapE f xs with
      | error e => simp [hxs] at h
      | ok ys' =>
        simp only [hxs] at h
        cases h
        intro y hy
        rcases List.mem_cons.1 hy with rfl | hy
        · exact ⟨x, List.mem_cons_self .., hx⟩
        · obtain ⟨x', hx', hfx⟩ := ih ys' hxs y hy
          exact ⟨x', List.mem_cons_of_mem _ hx', hfx⟩

/-- the region cell matrix has `h` rows of `w` cells -/
theorem regionCells_shape {pg : Page} {col row w h : Nat} {cells : List (List (Nat × Cell))}
    (hc : regionCells pg col row w h = .ok cells) : cells.length = h ∧ ∀ r ∈ cells, r.length = w := by
  unfold regionCells at hc
  refine ⟨by simpa using mapE_length _ _ _ hc, ?_⟩
  intro r hr
  obtain ⟨ry, _, hry⟩ := mapE_mem _ _ _ hc r hr
  simpa using mapE_length _ _ _ hry

theorem spaceTry_len {conv : Nat → Option Bytes} {n : Nat} {bs : Bytes} (h : spaceTry conv n = some bs) : bs.length ≤ n := by
  unfold spaceTry at h
  cases hs : conv 0x20 with
  | none => simp [hs] at h
  | some sp =>
    simp only [hs] at h
    by_cases h1 : sp.length ≤ n
    · simp only [h1, ite_true] at h; cases h; exact h1
    · simp [h1] at h

theorem spaceTry_conv {conv : Nat → Option Bytes} {n : Nat} {bs : Bytes} (h : spaceTry conv n = some bs) : conv 0x20 = some bs := by
  unfold spaceTry at h
  cases hs : conv 0x20 with
  | none => simp [hs] at h
  | some sp =>
    simp only [hs] at h
    by_cases h1 : sp.length ≤ n
    · simp only [h1, ite_true] at h; cases h; rfl
    · simp [h1] at h

variable {cfg : Cfg}

theorem firstTry_some {conv : Nat → Option Bytes} {u n : Nat} {bs : Bytes} (h : firstTry cfg conv u n = some bs) :
    conv u = some bs ∧ bs.length ≤ n ∧ atSign cfg bs u = false := by
  unfold firstTry at h
  cases hc : conv u with
  | none => simp [hc] at h
  | some b0 =>
    simp only [hc] at h
    by_cases h1 : (decide (b0.length ≤ n) && !atSign cfg b0 u) = true
    · simp only [h1, ite_true] at h; cases h; simp at h1; exact ⟨rfl, h1.1, h1.2⟩
    · simp [h1] at h

theorem printUnicode_len {conv : Nat → Option Bytes} {u n : Nat} {bs : Bytes} (h : printUnicode cfg conv u n = some bs) :
    bs.length ≤ n := by
  unfold printUnicode at h
  split at h
  · cases h
  · cases hf : firstTry cfg conv u n with
    | some b => simp only [hf] at h; cases h; exact (firstTry_some hf).2.1
    | none => simp only [hf] at h; exact spaceTry_len h

theorem printCells_len {conv : Nat → Option Bytes} {size : Nat} : ∀ (cs : List Cell) (p out : Bytes),
    p.length ≤ size → printCells cfg conv size cs p = some out → out.length ≤ size := by
  intro cs
  induction cs with
  | nil => intro p out hp h; simp [printCells] at h; subst h; exact hp
  | cons c cs ih =>
    intro p out hp h
    unfold printCells at h
    cases hu : printUnicode cfg conv (effUnicode c) (size - p.length) with
    | none => simp [hu] at h
    | some bs =>
      simp only [hu] at h
      have := printUnicode_len hu
      exact ih (p ++ bs) out (by simp; omega) h

theorem printRows_len {conv : Nat → Option Bytes} {size : Nat} : ∀ (rows : List (List Cell)) (p out : Bytes),
    p.length ≤ size → printRows cfg conv size rows p = .ok (some out) → out.length ≤ size := by
  intro rows
  induction rows with
  | nil => intro p out hp h; simp [printRows] at h; subst h; exact hp
  | cons r rs ih =>
    intro p out hp h
    cases rs with
    | nil =>
      simp only [printRows] at h
      cases hc : printCells cfg conv size r p with
      | none => simp [hc] at h
      | some o => simp [hc] at h; subst h; exact printCells_len r p o hp hc
    | cons r2 rs2 =>
      simp only [printRows] at h
      cases hc : printCells cfg conv size r p with
      | none => simp [hc] at h
      | some p1 =>
        simp only [hc] at h
        have hp1 := printCells_len r p p1 hp hc
        by_cases h1 : size - p1.length < 1
        · simp [h1] at h
        · simp only [h1, ite_false] at h
          by_cases h2 : p1.length < size
          · simp only [h2, ite_true] at h
            exact ih (p1 ++ [0x0A]) out (by simp; omega) h
          · simp [h2] at h

/-- no store of the '\n' ever happens outside the buffer -/
theorem printRows_no_fault {conv : Nat → Option Bytes} {size : Nat} : ∀ (rows : List (List Cell)) (p : Bytes),
    ∀ f, printRows cfg conv size rows p ≠ .error f := by
  intro rows
  induction rows with
  | nil => intro p f h; simp [printRows] at h
  | cons r rs ih =>
    intro p f h
    cases rs with
    | nil => simp [printRows] at h
    | cons r2 rs2 =>
      simp only [printRows] at h
      cases hc : printCells cfg conv size r p with
      | none => simp [hc] at h
      | some p1 =>
        simp only [hc] at h
        by_cases h1 : size - p1.length < 1
        · simp [h1] at h
        · simp only [h1, ite_false] at h
          have h2 : p1.length < size := by omega
          simp only [h2, ite_true] at h
          exact ih _ f h

theorem printUnicode_exactU {conv : Nat → Option Bytes} {u : Nat} {e : Bytes} {n : Nat} (hA : AtFits cfg conv)
    (he : encU cfg conv u = some e) (hn : e.length ≤ n) : printUnicode cfg conv u n = some e := by
  unfold encU at he
  unfold printUnicode firstTry spaceTry tooBig
  cases hc : conv u with
  | none =>
    simp only [hc] at he ⊢
    simp [he, hn]
  | some b0 =>
    simp only [hc] at he ⊢
    cases hat : atSign cfg b0 u with
    | true =>
      simp only [hat, ite_true] at he
      by_cases hE : cfg.printE2big = true
      · have := hA hE _ _ _ hc hat he
        have hb : ¬ n < b0.length := by omega
        simp [hb, he, hn]
      · simp [hE, he, hn]
    | false =>
      simp only [hat, Bool.false_eq_true, ite_false] at he
      cases he
      have hb : ¬ n < e.length := by omega
      simp [hn, hb]

theorem printUnicode_exact {conv : Nat → Option Bytes} {c : Cell} {e : Bytes} {n : Nat} (hA : AtFits cfg conv)
    (he : encUnbounded cfg conv c = some e) (hn : e.length ≤ n) : printUnicode cfg conv (effUnicode c) n = some e :=
  printUnicode_exactU hA he hn

theorem printCells_exact {conv : Nat → Option Bytes} {size : Nat} (hA : AtFits cfg conv) : ∀ (cs : List Cell) (p e : Bytes),
    rowText cfg conv cs = some e → p.length + e.length ≤ size → printCells cfg conv size cs p = some (p ++ e) := by
  intro cs
  induction cs with
  | nil => intro p e h _; simp [rowText] at h; subst h; simp [printCells]
  | cons c cs ih =>
    intro p e h hs
    unfold rowText at h
    cases h1 : encUnbounded cfg conv c with
    | none => simp [h1] at h
    | some a =>
      cases h2 : rowText cfg conv cs with
      | none => simp [h1, h2] at h
      | some b =>
        simp only [h1, h2] at h
        cases h
        unfold printCells
        have := printUnicode_exact (n := size - p.length) hA h1 (by simp at hs; omega)
        simp only [this]
        have := ih (p ++ a) b h2 (by simp at hs ⊢; omega)
        simpa [List.append_assoc] using this

theorem printRows_exact {conv : Nat → Option Bytes} {size : Nat} (hA : AtFits cfg conv) : ∀ (rows : List (List Cell)) (p e : Bytes),
    tableText cfg conv rows = some e → p.length + e.length ≤ size → printRows cfg conv size rows p = .ok (some (p ++ e)) := by
  intro rows
  induction rows with
  | nil => intro p e h _; simp [tableText] at h; subst h; simp [printRows]
  | cons r rs ih =>
    intro p e h hs
    cases rs with
    | nil =>
      simp only [tableText] at h
      simp only [printRows]
      rw [printCells_exact hA r p e h hs]
    | cons r2 rs2 =>
      simp only [tableText] at h
      cases h1 : rowText cfg conv r with
      | none => simp [h1] at h
      | some a =>
        cases h2 : tableText cfg conv (r2 :: rs2) with
        | none => simp [h1, h2] at h
        | some b =>
          simp only [h1, h2] at h
          cases h
          simp only [printRows]
          have hl : p.length + a.length + 1 + b.length ≤ size := by simp at hs; omega
          rw [printCells_exact hA r p a h1 (by omega)]
          have e1 : ¬ (size - (p ++ a).length < 1) := by simp; omega
          have e2 : (p ++ a).length < size := by simp; omega
          simp only [e1, e2, ite_true, ite_false]
          have := ih (p ++ a ++ [0x0A]) b h2 (by simp; omega)
          simpa [List.append_assoc] using this

/-! ### with the F27a repair every successful result is the table text -/

theorem printUnicode_sound {conv : Nat → Option Bytes} {c : Cell} {n : Nat} {bs : Bytes} (hE : cfg.printE2big = true)
    (h : printUnicode cfg conv (effUnicode c) n = some bs) : encUnbounded cfg conv c = some bs := by
  unfold printUnicode at h
  unfold encUnbounded encU
  by_cases hT : tooBig conv (effUnicode c) n = true
  · simp [hE, hT] at h
  · simp only [hE, hT, Bool.and_false, Bool.false_eq_true, ite_false] at h
    cases hf : firstTry cfg conv (effUnicode c) n with
    | some b =>
      simp only [hf] at h; cases h
      obtain ⟨h1, _, h3⟩ := firstTry_some hf
      simp [h1, h3]
    | none =>
      simp only [hf] at h
      have hsp := spaceTry_conv h
      cases hc : conv (effUnicode c) with
      | none => simpa using hsp
      | some b0 =>
        simp only
        have hfit : b0.length ≤ n := by
          unfold tooBig at hT; simp [hc] at hT; exact hT
        cases hat : atSign cfg b0 (effUnicode c) with
        | true => simpa using hsp
        | false =>
          unfold firstTry at hf
          simp [hc, hfit, hat] at hf

theorem printCells_sound {conv : Nat → Option Bytes} {size : Nat} (hE : cfg.printE2big = true) : ∀ (cs : List Cell) (p out : Bytes),
    printCells cfg conv size cs p = some out → ∃ e, rowText cfg conv cs = some e ∧ out = p ++ e := by
  intro cs
  induction cs with
  | nil => intro p out h; simp [printCells] at h; subst h; exact ⟨[], rfl, by simp⟩
  | cons c cs ih =>
    intro p out h
    unfold printCells at h
    cases hu : printUnicode cfg conv (effUnicode c) (size - p.length) with
    | none => simp [hu] at h
    | some bs =>
      simp only [hu] at h
      obtain ⟨e, he, ho⟩ := ih (p ++ bs) out h
      refine ⟨bs ++ e, ?_, by rw [ho, List.append_assoc]⟩
      unfold rowText
      simp [printUnicode_sound hE hu, he]

theorem printRows_sound {conv : Nat → Option Bytes} {size : Nat} (hE : cfg.printE2big = true) : ∀ (rows : List (List Cell)) (p out : Bytes),
    printRows cfg conv size rows p = .ok (some out) → ∃ e, tableText cfg conv rows = some e ∧ out = p ++ e := by
  intro rows
  induction rows with
  | nil => intro p out h; simp [printRows] at h; subst h; exact ⟨[], rfl, by simp⟩
  | cons r rs ih =>
    intro p out h
    cases rs with
    | nil =>
      simp only [printRows] at h
      cases hc : printCells cfg conv size r p with
      | none => simp [hc] at h
      | some o =>
        simp [hc] at h; subst h
        simpa [tableText] using printCells_sound hE r p o hc
    | cons r2 rs2 =>
      simp only [printRows] at h
      cases hc : printCells cfg conv size r p with
      | none => simp [hc] at h
      | some p1 =>
        simp only [hc] at h
        obtain ⟨a, ha, hp1⟩ := printCells_sound hE r p p1 hc
        by_cases h1 : size - p1.length < 1
        · simp [h1] at h
        · simp only [h1, ite_false] at h
          by_cases h2 : p1.length < size
          · simp only [h2, ite_true] at h
            obtain ⟨b, hb, ho⟩ := ih (p1 ++ [0x0A]) out h
            refine ⟨a ++ [0x0A] ++ b, ?_, ?_⟩
            · simp only [tableText, ha, hb]
            · rw [ho, hp1]; simp [List.append_assoc]
          · simp [h2] at h

end Zvbi.Export
