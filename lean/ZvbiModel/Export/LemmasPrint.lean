import ZvbiModel.Export.Spec
/-! Helper lemmas for `vbi_print_page_region` and the region cell matrix (C16). -/
namespace Zvbi.Export
open Zvbi.Export.Spec

theorem mapE_length {β : Type} (f : Nat → Except Fault β) : ∀ (l : List Nat) (ys : List β), mapE f l = .ok ys → ys.length = l.length := by
  intro l
  induction l with
  | nil => intro ys h; simp [mapE] at h; subst h; rfl
  | cons x xs ih =>
    intro ys h
    unfold mapE at h
    cases hx : f x with
    | error e => simp [hx] at h
    | ok y =>
      simp only [hx] at h
      cases hxs : mapE f xs with
      | error e => simp [hxs] at h
      | ok ys' =>
        simp only [hxs] at h
        cases h
        simp [ih ys' hxs]

theorem mapE_mem {β : Type} (f : Nat → Except Fault β) : ∀ (l : List Nat) (ys : List β), mapE f l = .ok ys →
    ∀ y ∈ ys, ∃ x ∈ l, f x = .ok y := by
  intro l
  induction l with
  | nil => intro ys h; simp [mapE] at h; subst h; intro y hy; cases hy
  | cons x xs ih =>
    intro ys h
    unfold mapE at h
    cases hx : f x with
    | error e => simp [hx] at h
    | ok y0 =>
      simp only [hx] at h
      cases hxs : mapE f xs with
      | error e => simp [hxs] at h
      | ok ys' =>
        simp only [hxs] at h
        cases h
        intro y hy
        rcases List.mem_cons.1 hy with rfl | hy
        · exact ⟨x, List.mem_cons_self .., hx⟩
        · obtain ⟨x', hx', hfx⟩ := ih ys' hxs y hy
          exact ⟨x', List.mem_cons_of_mem _ hx', hfx⟩

/-- the region cell matrix has `h` rows of `w` cells -/
theorem regionCells_shape {pg : Page} {col row w h : Nat} {cells : List (List (Nat × Cell))}
    (hc : regionCells pg col row w h = .ok cells) : cells.length = h ∧ ∀ r ∈ cells, r.length = w := by
  unfold regionCells at hc
  refine ⟨by simpa using mapE_length _ _ _ hc, ?_⟩
  intro r hr
  obtain ⟨ry, _, hry⟩ := mapE_mem _ _ _ hc r hr
  simpa using mapE_length _ _ _ hry

theorem spaceTry_len {conv : Nat → Option Bytes} {n : Nat} {bs : Bytes} (h : spaceTry conv n = some bs) : bs.length ≤ n := by
  unfold spaceTry at h
  cases hs : conv 0x20 with
  | none => simp [hs] at h
  | some sp =>
    simp only [hs] at h
    by_cases h1 : sp.length ≤ n
    · simp only [h1, ite_true] at h; cases h; exact h1
    · simp [h1] at h

theorem firstTry_len {conv : Nat → Option Bytes} {u n : Nat} {bs : Bytes} (h : firstTry conv u n = some bs) : bs.length ≤ n := by
  unfold firstTry at h
  cases hc : conv u with
  | none => simp [hc] at h
  | some b0 =>
    simp only [hc] at h
    by_cases h1 : (decide (b0.length ≤ n) && !atSign b0 u) = true
    · simp only [h1, ite_true] at h; cases h; simp at h1; exact h1.1
    · simp [h1] at h

theorem printUnicode_len {conv : Nat → Option Bytes} {u n : Nat} {bs : Bytes} (h : printUnicode conv u n = some bs) :
    bs.length ≤ n := by
  unfold printUnicode at h
  cases hf : firstTry conv u n with
  | some b => simp only [hf] at h; cases h; exact firstTry_len hf
  | none => simp only [hf] at h; exact spaceTry_len h

theorem printCells_len {conv : Nat → Option Bytes} {size : Nat} : ∀ (cs : List Cell) (p out : Bytes),
    p.length ≤ size → printCells conv size cs p = some out → out.length ≤ size := by
  intro cs
  induction cs with
  | nil => intro p out hp h; simp [printCells] at h; subst h; exact hp
  | cons c cs ih =>
    intro p out hp h
    unfold printCells at h
    cases hu : printUnicode conv (effUnicode c) (size - p.length) with
    | none => simp [hu] at h
    | some bs =>
      simp only [hu] at h
      have := printUnicode_len hu
      exact ih (p ++ bs) out (by simp; omega) h

theorem printRows_len {conv : Nat → Option Bytes} {size : Nat} : ∀ (rows : List (List Cell)) (p out : Bytes),
    p.length ≤ size → printRows conv size rows p = .ok (some out) → out.length ≤ size := by
  intro rows
  induction rows with
  | nil => intro p out hp h; simp [printRows] at h; subst h; exact hp
  | cons r rs ih =>
    intro p out hp h
    cases rs with
    | nil =>
      simp only [printRows] at h
      cases hc : printCells conv size r p with
      | none => simp [hc] at h
      | some o => simp [hc] at h; subst h; exact printCells_len r p o hp hc
    | cons r2 rs2 =>
      simp only [printRows] at h
      cases hc : printCells conv size r p with
      | none => simp [hc] at h
      | some p1 =>
        simp only [hc] at h
        have hp1 := printCells_len r p p1 hp hc
        by_cases h1 : size - p1.length < 1
        · simp [h1] at h
        · simp only [h1, ite_false] at h
          by_cases h2 : p1.length < size
          · simp only [h2, ite_true] at h
            exact ih (p1 ++ [0x0A]) out (by simp; omega) h
          · simp [h2] at h

/-- no store of the '\n' ever happens outside the buffer -/
theorem printRows_no_fault {conv : Nat → Option Bytes} {size : Nat} : ∀ (rows : List (List Cell)) (p : Bytes),
    ∀ f, printRows conv size rows p ≠ .error f := by
  intro rows
  induction rows with
  | nil => intro p f h; simp [printRows] at h
  | cons r rs ih =>
    intro p f h
    cases rs with
    | nil => simp [printRows] at h
    | cons r2 rs2 =>
      simp only [printRows] at h
      cases hc : printCells conv size r p with
      | none => simp [hc] at h
      | some p1 =>
        simp only [hc] at h
        by_cases h1 : size - p1.length < 1
        · simp [h1] at h
        · simp only [h1, ite_false] at h
          have h2 : p1.length < size := by omega
          simp only [h2, ite_true] at h
          exact ih _ f h

theorem printUnicode_exact {conv : Nat → Option Bytes} {c : Cell} {e : Bytes} {n : Nat}
    (he : encUnbounded conv c = some e) (hn : e.length ≤ n) : printUnicode conv (effUnicode c) n = some e := by
  unfold encUnbounded at he
  unfold printUnicode firstTry spaceTry
  simp only at he
  cases hc : conv (effUnicode c) with
  | none =>
    simp only [hc] at he ⊢
    simp [he, hn]
  | some b0 =>
    simp only [hc] at he ⊢
    cases hat : atSign b0 (effUnicode c) with
    | true =>
      simp only [hat, ite_true] at he
      simp [he, hn]
    | false =>
      simp only [hat, Bool.false_eq_true, ite_false] at he
      cases he
      simp [hn]

theorem printCells_exact {conv : Nat → Option Bytes} {size : Nat} : ∀ (cs : List Cell) (p e : Bytes),
    rowText conv cs = some e → p.length + e.length ≤ size → printCells conv size cs p = some (p ++ e) := by
  intro cs
  induction cs with
  | nil => intro p e h _; simp [rowText] at h; subst h; simp [printCells]
  | cons c cs ih =>
    intro p e h hs
    unfold rowText at h
    cases h1 : encUnbounded conv c with
    | none => simp [h1] at h
    | some a =>
      cases h2 : rowText conv cs with
      | none => simp [h1, h2] at h
      | some b =>
        simp only [h1, h2] at h
        cases h
        unfold printCells
        have := printUnicode_exact (n := size - p.length) h1 (by simp at hs; omega)
        simp only [this]
        have := ih (p ++ a) b h2 (by simp at hs ⊢; omega)
        simpa [List.append_assoc] using this

theorem printRows_exact {conv : Nat → Option Bytes} {size : Nat} : ∀ (rows : List (List Cell)) (p e : Bytes),
    tableText conv rows = some e → p.length + e.length ≤ size → printRows conv size rows p = .ok (some (p ++ e)) := by
  intro rows
  induction rows with
  | nil => intro p e h _; simp [tableText] at h; subst h; simp [printRows]
  | cons r rs ih =>
    intro p e h hs
    cases rs with
    | nil =>
      simp only [tableText] at h
      simp only [printRows]
      rw [printCells_exact r p e h hs]
    | cons r2 rs2 =>
      simp only [tableText] at h
      cases h1 : rowText conv r with
      | none => simp [h1] at h
      | some a =>
        cases h2 : tableText conv (r2 :: rs2) with
        | none => simp [h1, h2] at h
        | some b =>
          simp only [h1, h2] at h
          cases h
          simp only [printRows]
          have hl : p.length + a.length + 1 + b.length ≤ size := by simp at hs; omega
          rw [printCells_exact r p a h1 (by omega)]
          have e1 : ¬ (size - (p ++ a).length < 1) := by simp; omega
          have e2 : (p ++ a).length < size := by simp; omega
          simp only [e1, e2, ite_true, ite_false]
          have := ih (p ++ a ++ [0x0A]) b h2 (by simp; omega)
          simpa [List.append_assoc] using this

end Zvbi.Export
