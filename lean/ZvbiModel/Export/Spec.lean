import ZvbiModel.Export.Model
import ZvbiModel.Export.Page
import ZvbiModel.Export.Text
/-!
# Spec for C16: what the user relies on

* `output ops`: the bytes an exporter produces, i.e. the concatenation of what its calls hand to the
  write layer, independent of the target;
* `regionText`: the text of a page region in table mode;
* `InRect`: a canvas byte index lies inside a region's pixel rectangle.
-/
namespace Zvbi.Export.Spec
open Zvbi.Export

def opBytes : Op → Bytes
  | .putc c => [c % 256]
  | .write bs => bs
  | .puts bs => bs
  | .printf bs => bs
  | .direct n bs => bs.take n
  | .putsNull => []
  | .flush => []

/-- the exported data -/
def output (ops : List Op) : Bytes := ops.flatMap opBytes

/-- bytes of one character (UCS-2 code `u`) when there is room: the conversion of the character, or of a
    space when the character is not representable (or comes out as '@', the heuristic of print_unicode) -/
def encU (cfg : Cfg) (conv : Nat → Option Bytes) (u : Nat) : Option Bytes :=
  match conv u with
  | some bs => if atSign cfg bs u then conv 0x20 else some bs
  | none => conv 0x20

def encUnbounded (cfg : Cfg) (conv : Nat → Option Bytes) (c : Cell) : Option Bytes := encU cfg conv (effUnicode c)

/-- side condition of exactness once E2BIG is an error (F27a repaired): an encoding that is taken for '@'
    (and replaced by a space) is not longer than the space.  True for all fixed-width encodings and UTF-8;
    trivially true for the unrepaired code. -/
def AtFits (cfg : Cfg) (conv : Nat → Option Bytes) : Prop :=
  cfg.printE2big = true → ∀ u bs sp, conv u = some bs → atSign cfg bs u = true → conv 0x20 = some sp → bs.length ≤ sp.length

def rowText (cfg : Cfg) (conv : Nat → Option Bytes) : List Cell → Option Bytes
  | [] => some []
  | c :: cs =>
    match encUnbounded cfg conv c, rowText cfg conv cs with
    | some a, some b => some (a ++ b)
    | _, _ => none

/-- table mode text of a list of rows: the characters of each row, rows separated by one '\n' -/
def tableText (cfg : Cfg) (conv : Nat → Option Bytes) : List (List Cell) → Option Bytes
  | [] => some []
  | [r] => rowText cfg conv r
  | r :: rs =>
    match rowText cfg conv r, tableText cfg conv rs with
    | some a, some b => some (a ++ [0x0A] ++ b)
    | _, _ => none

/-! ### text export module -/

/-- one row of the text export without terminal codes: every cell's character (not printable: graphics ->
    `gfx`, anything else -> space), converted, then a line feed -/
def plainRow (cfg : Cfg) (conv : Nat → Option Bytes) (gfx : Nat) : List Cell → Option Bytes
  | [] => some [0x0A]
  | c :: cs =>
    match encU cfg conv (substChar gfx c.unicode), plainRow cfg conv gfx cs with
    | some a, some b => some (a ++ b)
    | _, _ => none

/-- the exported text of a page, `control=0` -/
def plainText (cfg : Cfg) (conv : Nat → Option Bytes) (gfx : Nat) : List (List Cell) → Option Bytes
  | [] => some []
  | r :: rs =>
    match plainRow cfg conv gfx r, plainText cfg conv gfx rs with
    | some a, some b => some (a ++ b)
    | _, _ => none

/-- the converter is usable for the text module: what it produces are bytes, at least one and at most `n`
    per character (n = 32 without, 11 with terminal codes: `sizeof (text->buf)` minus the longest control
    sequence).  Holds for all fixed-width encodings and UTF-8. -/
def ConvFits (cfg : Cfg) (conv : Nat → Option Bytes) (n : Nat) : Prop :=
  ∀ u bs, encU cfg conv u = some bs → 0 < bs.length ∧ bs.length ≤ n ∧ ∀ b ∈ bs, b < 256

/-- terminal mode: a row is the concatenation of control sequence + character of every cell that is not
    skipped (`old` = previous cell of the page in row-major order) -/
def ctlRow (cfg : Cfg) (conv : Nat → Option Bytes) (term gfx : Nat) (cm : List Nat) : Cell → List Cell → Option Bytes
  | _, [] => some []
  | old, c :: cs =>
    match ctlSeq term cm old c, ctlRow cfg conv term gfx cm c cs with
    | .ok none, some b => some b
    | .ok (some ctl), some b => (encU cfg conv (substChar gfx c.unicode)).map (fun a => ctl ++ a ++ b)
    | _, _ => none

def lastCell (old : Cell) (r : List Cell) : Cell := r.getLast?.getD old

/-- the exported text of a page, `control=1/2`: rows separated by '\n', closed by ESC [ m '\n' -/
def ctlText (cfg : Cfg) (conv : Nat → Option Bytes) (term gfx : Nat) (cm : List Nat) : Cell → List (List Cell) → Option Bytes
  | _, [] => some []
  | old, [r] => (ctlRow cfg conv term gfx cm old r).map (· ++ [esc, 0x5B, 0x6D, 0x0A])
  | old, r :: rs =>
    match ctlRow cfg conv term gfx cm old r, ctlText cfg conv term gfx cm (lastCell old r) rs with
    | some a, some b => some (a ++ [0x0A] ++ b)
    | _, _ => none

/-- byte index `a` of a canvas with row stride `S` lies in the rectangle of `lines` lines by `wbytes` bytes
    starting at the canvas origin -/
def InRect (S lines wbytes a : Nat) : Prop := ∃ line b, line < lines ∧ b < wbytes ∧ a = line * S + b

/-- the byte indices a run covers -/
def Run.covers (r : Run) (a : Nat) : Prop := r.start ≤ a ∧ a < r.start + r.len

/-- no enlarged character is cut by the right edge of the region -/
def NoWideLast (cells : List (List (Nat × Cell))) : Prop :=
  ∀ r ∈ cells, ∀ ic, r.getLast? = some ic → isWide ic.2.size = false

/-- full statement of render_in_rectangle for the code as it is (FALSE without the F14 repair, see
    `render_in_rectangle_counterexample`) -/
def render_in_rectangle_stmt (cfg : Cfg) : Prop :=
  ∀ (drcs : List Bool) (S ct : Nat) (reveal flashOn : Bool) (w : Nat) (cells : List (List (Nat × Cell))),
    0 < ct → ct ∣ S → (∀ r ∈ cells, r.length = w) →
    ∀ run ∈ vtRuns cfg drcs S ct reveal flashOn 0 cells, ∀ a, Run.covers run a → InRect S (cells.length * 10) (w * 12 * ct) a

/-- value of canvas byte `a` after the runs were drawn in order: the last run covering it
    (source cell, line in the cell, kind, size, byte within the run) -/
def finalAt (runs : List Run) (a : Nat) : Option (Nat × Nat × Nat × Nat × Nat) :=
  (runs.reverse.find? (fun r => decide (r.start ≤ a) && decide (a < r.start + r.len))).map
    fun r => (r.cell, r.dy, r.kind, r.size, a - r.start)

/-- the pixel (byte) value actually stored: a function `glyph` of the source character (its bitmap, pen colours,
    DRCS data ... are all functions of the `vbi_char` and of page-wide data), what was drawn (kind, size), the
    line in the cell and the byte in the run.  `glyph` is a parameter: equality below is about placement and
    which character is drawn where, not about fonts. -/
def renderedAt (glyph : Cell → Nat → Nat → Nat → Nat → Nat) (pg : Page) (runs : List Run) (a : Nat) : Option Nat :=
  (finalAt runs a).map fun v => glyph (pg.text.getD v.1 default) v.2.2.1 v.2.2.2.1 v.2.1 v.2.2.2.2

/-- the region does not cut an enlarged character: no OVER_TOP / OVER_BOTTOM cell in its first column and no
    wide character in its last column -/
def NotCut (cells : List (List (Nat × Cell))) : Prop :=
  NoWideLast cells ∧ ∀ r ∈ cells, ∀ ic, r.head? = some ic → isOver ic.2.size = false

/-- full statement of region_equals_full (proved for every configuration with the F14 repair, `region_equals_full_repaired`):
    on every byte of the region rectangle the region rendering leaves the same (symbolic) value as the
    full-page rendering leaves at the corresponding place -/
def region_equals_full_stmt (cfg : Cfg) : Prop :=
  ∀ (pg : Page) (ct S col row w h : Nat) (reveal flashOn : Bool) (cells : List (List (Nat × Cell))) (rr fr : List Run),
    0 < ct → ct ∣ S → w * 12 * ct ≤ S → col + w ≤ pg.columns → row + h ≤ pg.rows →
    regionCells pg col row w h = .ok cells → NotCut cells →
    drawVt cfg pg ct (some S) col row w h reveal flashOn = .ok rr →
    drawVt cfg pg ct none 0 0 pg.columns pg.rows reveal flashOn = .ok fr →
    ∀ line b, line < h * 10 → b < w * 12 * ct →
      finalAt rr (line * S + b) = finalAt fr ((row * 10 + line) * (pg.columns * 12 * ct) + col * 12 * ct + b)

/-- whatever vbi_print_page_region returns as success is the table text of the region; in particular a
    buffer that is too small makes it fail (documented).  FALSE without the F27a repair
    (`print_region_small_buffer_counterexample`), proved with it (`print_region_exact_repaired`) -/
def print_region_exact_small_buffer_stmt (cfg : Cfg) : Prop :=
  ∀ (conv : Nat → Option Bytes) (size : Nat) (rows : List (List Cell)) (out : Bytes),
    printRows cfg conv size rows [] = .ok (some out) → tableText cfg conv rows = some out

end Zvbi.Export.Spec
