import ZvbiModel.Export.Ppm
/-!
# Model of the XPM writer (exp-gfx.c `xpm_export`, `xpm_write_header`, `xpm_write_row`, `xpm_write_footer`), C16

Geometry as for PPM (`ppmGeom`: character cell and `scale` from the page kind and the `aspect` option), the header
text, the colour table of 40 entries from `pg->color_map` (entry 8 is `None` with `transparency`), the rows
(`"` + one colour code per pixel + `",\n` per image line; `scale` 0 takes every second line of the rendered row, `scale` 2
writes each line twice), the footer with the `XPMEXT` extension block (title, software), the `needed` estimate per
target and the sequence of write-layer calls.

Pixel values are symbolic: `img` is what `draw_row_indexed` left in `indexed_image` for every text row (`char_height`
lines of `image_width` palette indices; bytes >= 40 - translucent colours, never-written bytes - become `.`).
Not modelled: `e->network` (NULL unless the application sets it; `get_image_title` then prefixes it), malloc failure.
-/
namespace Zvbi.Export

/-- `xpm_col_codes[40]` = `" 1234567.BCDEFGHIJKLMNOPabcdefghijklmnop"` -/
def xpmColCodes : Bytes :=
  [32, 49, 50, 51, 52, 53, 54, 55, 46, 66, 67, 68, 69, 70, 71, 72, 73, 74, 75, 76, 77, 78, 79, 80,
   97, 98, 99, 100, 101, 102, 103, 104, 105, 106, 107, 108, 109, 110, 111, 112]

/-- `if (c < sizeof (xpm_col_codes)) xpm_col_codes[c] else '.'` -/
def xpmCode (c : Nat) : Nat := if c < 40 then xpmColCodes.getD c 46 else 46

def hexDigitU (d : Nat) : Nat := if d < 10 then 48 + d else 55 + d

/-- printf `%02X` of a byte -/
def hex2U (v : Nat) : Bytes := [hexDigitU ((v / 16) % 16), hexDigitU (v % 16)]

structure XpmEnv where
  /-- `gfx->double_height` (option `aspect`) -/
  doubleHeight : Bool := true
  transparency : Bool := true
  titled : Bool := true
  /-- `e->creator` -/
  creator : Bytes := []
  pgno : Nat := 0x100
  subno : Nat := 0
  deriving Repr

/-- `get_image_title` with `e->network == NULL` -/
def xpmTitle (env : XpmEnv) : Bytes :=
  if !env.titled then []
  else if env.pgno < 0x100 then s2b "Closed Caption"
  else if env.subno != anySubno then s2b "Teletext Page " ++ hex3 env.pgno ++ [46] ++ hexStr env.subno
  else s2b "Teletext Page " ++ hex3 env.pgno

/-- `do_ext`: title or creator non-empty -/
def xpmExt (env : XpmEnv) : Bool := !(xpmTitle env).isEmpty || !env.creator.isEmpty

/-- the first `vbi_export_printf` of `xpm_write_header` -/
def xpmHeaderText (w h : Nat) (ext : Bool) : Bytes :=
  s2b "/* XPM */\nstatic char *image[] = {\n/* width height ncolors chars_per_pixel */\n\"" ++ dec w ++ [32] ++ dec h
    ++ s2b " 40 1" ++ (if ext then s2b " XPMEXT" else []) ++ s2b "\",\n/* colors */\n"

/-- one palette line: `"%c c None",\n` / `"%c c #%02X%02X%02X",\n` -/
def xpmColorLine (transparency : Bool) (colorAt : Nat → Nat) (i : Nat) : Bytes :=
  if i = 8 ∧ transparency then [34, xpmColCodes.getD i 46] ++ s2b " c None\",\n"
  else [34, xpmColCodes.getD i 46] ++ s2b " c #" ++ hex2U (colorAt i % 256) ++ hex2U ((colorAt i / 256) % 256)
         ++ hex2U ((colorAt i / 65536) % 256) ++ s2b "\",\n"

def xpmPixelsComment : Bytes := s2b "/* pixels */\n"

/-- `xpm_write_header`: the calls -/
def xpmHeaderOps (env : XpmEnv) (colorAt : Nat → Nat) (w h : Nat) : List Op :=
  [.printf (xpmHeaderText w h (xpmExt env))] ++ (List.range 40).map (fun i => .printf (xpmColorLine env.transparency colorAt i))
    ++ [.printf xpmPixelsComment, .flush]

/-- `while ((p = strchr (s, '"'))) *p = '\''` -/
def unquote (s : Bytes) : Bytes := s.map fun b => if b = 34 then 39 else b

/-- `xpm_write_footer`: the calls -/
def xpmFooterOps (env : XpmEnv) : List Op :=
  (if xpmExt env then
     (if (xpmTitle env).isEmpty then [] else [.printf (s2b "\"XPMEXT title " ++ unquote (xpmTitle env) ++ s2b "\",\n")])
     ++ (if env.creator.isEmpty then [] else [.printf (s2b "\"XPMEXT software " ++ unquote env.creator ++ s2b "\",\n")])
     ++ [.printf (s2b "\"XPMENDEXT\"\n")]
   else [])
  ++ [.printf (s2b "};\n"), .flush]

/-- one image line: `"` + codes + `",\n` -/
def xpmLine (line : List Nat) : Bytes := 34 :: (line.map xpmCode ++ [34, 44, 10])

/-- every second element (`scale == 0`: `--char_height; s += image_width` inside the loop) -/
def everyOther {α : Type} : List α → List α
  | [] => []
  | [a] => [a]
  | a :: _ :: rest => a :: everyOther rest

/-- the image lines `xpm_write_row` takes from the rendered row, in output order -/
def xpmPick (scale : Nat) (lines : List (List Nat)) : List (List Nat) :=
  if scale = 0 then everyOther lines
  else if scale = 2 then lines.flatMap fun l => [l, l]      -- `memcpy (d, d - image_width - 4, image_width + 4)`
  else lines

/-- the bytes `xpm_write_row` stores for one text row -/
def xpmRowBytes (scale : Nat) (lines : List (List Nat)) : Bytes := (xpmPick scale lines).flatMap xpmLine

/-- `needed = (((image_width + 4) * char_height) << scale) >> 1` -/
def xpmRowSize (columns : Nat) (g : PpmGeom) : Nat := (((ppmWidth columns g + 4) * g.charH) <<< g.scale) >>> 1

/-- the size estimate of `xpm_export` for the targets that allocate in advance -/
def xpmNeeded (t : Target) (env : XpmEnv) (columns rows : Nat) (g : PpmGeom) : Nat :=
  let hdr := 109 + 15 * 40 + 13 - (if env.transparency then 3 else 0) + (if xpmExt env then 7 else 0)
  let ftr := 3 + (if xpmExt env then 12 + (17 + (xpmTitle env).length) + (20 + env.creator.length) else 0)
  if t = .alloc then hdr + ftr + xpmRowSize columns g * rows
  else max (max hdr ftr) (xpmRowSize columns g)

/-- `xpm_write_row` per text row: grow, store, flush -/
def xpmRowOps (columns : Nat) (g : PpmGeom) (img : List (List (List Nat))) : List Op :=
  img.flatMap fun lines => [.direct (xpmRowSize columns g) (xpmRowBytes g.scale lines), .flush]

/-- `xpm_export`: the write-layer calls for target `t` -/
def xpmOps (t : Target) (env : XpmEnv) (colorAt : Nat → Nat) (columns rows : Nat) (img : List (List (List Nat))) : List Op :=
  let g := ppmGeom columns env.doubleHeight
  (match t with
   | .mem => []
   | .fp => []
   | _ => [.direct (xpmNeeded t env columns rows g) []])
  ++ xpmHeaderOps env colorAt (ppmWidth columns g) (ppmHeight rows g) ++ xpmRowOps columns g img ++ xpmFooterOps env

end Zvbi.Export
