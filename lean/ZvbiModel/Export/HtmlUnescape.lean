import ZvbiModel.Export.HtmlSpec
/-!
# Spec of the HTML export module, part 2: decoding character data (C16)

`unescape`: a reader's decoder for the character data of the exported page: plain bytes stand for themselves,
`&lt;` `&gt;` `&amp;` for the three markup characters, `&#N;` (decimal) for the Unicode character N.
Anything else after `&` makes the decoder fail.
-/
namespace Zvbi.Export.Spec
open Zvbi.Export

def isDigitB (d : Nat) : Bool := 48 ≤ d && d ≤ 57

/-- the character an entity name (between `&` and `;`) stands for -/
def entity (name : Bytes) : Option HChar :=
  if name = [108, 116] then some (.byte 60)
  else if name = [103, 116] then some (.byte 62)
  else if name = [97, 109, 112] then some (.byte 38)
  else
    match name with
    | 35 :: ds => if !ds.isEmpty && ds.all isDigitB then some (.ucs (ds.foldl (fun a d => a * 10 + (d - 48)) 0)) else none
    | _ => none

/-- decode character data: plain bytes and entities (`some acc` = inside an entity, after `&`) -/
def unesc : Option Bytes → Bytes → Option (List HChar)
  | none, [] => some []
  | some _, [] => none
  | none, b :: bs => if b = 38 then unesc (some []) bs else (unesc none bs).map (HChar.byte b :: ·)
  | some acc, b :: bs =>
    if b = 59 then
      match entity acc with
      | some c => (unesc none bs).map (c :: ·)
      | none => none
    else unesc (some (acc ++ [b])) bs

def unescape (bs : Bytes) : Option (List HChar) := unesc none bs
end Zvbi.Export.Spec
