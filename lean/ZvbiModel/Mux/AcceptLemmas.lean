import ZvbiModel.Mux.RawFeed
/-!
# Lemmas: the converse direction - every ordered, permitted, fitting frame is accepted
-/
namespace Zvbi.Mux
open Zvbi.Mux.EnParse Zvbi.Mux.RawSpec

/-- the line numbers of a frame - all lines, selected by the mask or not; 0 (undefined) is skipped -
    ascend strictly from `last` on (dvb_mux.c:1459-1471) -/
def ordered (last : Nat) : List Sliced → Bool
  | [] => true
  | s :: rest => if s.line > 0 then decide (last < s.line) && ordered s.line rest else ordered last rest

def Ordered (last : Nat) (lines : List Sliced) : Prop := ordered last lines = true

instance (last : Nat) (lines : List Sliced) : Decidable (Ordered last lines) := by unfold Ordered; infer_instance

/-- size of the data unit of a permitted sliced line -/
def unitSize (fixed : Bool) (s : Sliced) : Nat :=
  if fixed then 46 else if s.id = 4 then 16 else if s.id = 1 ∨ s.id = 2 ∨ s.id = 3 then 46 else 5

/-- bytes the selected lines of a frame need -/
def unitsSize (fixed : Bool) (mask : Nat) : List Sliced → Nat
  | [] => 0
  | s :: rest => (if s.id &&& mask = 0 then 0 else unitSize fixed s) + unitsSize fixed mask rest

theorem unitsSize_append (fixed : Bool) (mask : Nat) (a b : List Sliced) :
    unitsSize fixed mask (a ++ b) = unitsSize fixed mask a + unitsSize fixed mask b := by
  induction a with
  | nil => simp [unitsSize]
  | cons s a ih => simp only [List.cons_append, unitsSize, ih]; omega

theorem permitted_not_raw (s : Sliced) (h : Permitted s) : s.id ≠ SL_VBI625 := by
  unfold Permitted at h
  unfold SL_VBI625
  rcases h with ⟨h | h | h, _⟩ | ⟨h, _⟩ | ⟨h, _⟩ | ⟨h | h, _⟩ <;> omega

theorem duSizeOf_permitted (s : Sliced) (h : Permitted s) :
    duSizeOf s.id s.line = .ok (unitSize false s) := by
  unfold Permitted at h
  unfold duSizeOf unitSize SL_TTX_L10 SL_TTX_L25 SL_TTX SL_VPS SL_WSS SL_CC SL_CC_F1 F2_START
  rcases h with ⟨hid, hl⟩ | ⟨hid, hl⟩ | ⟨hid, hl⟩ | ⟨hid, hl⟩
  · rw [if_pos hid]
    have h4 : s.id ≠ 4 := by omega
    simp only [Bool.false_eq_true, if_false, h4, hid, if_true]
    rcases hl with hl | hl | hl
    · rw [if_pos hl]
    · rw [if_neg (by omega)]
      try simp only []
      rw [if_neg (show ¬ s.line ≥ 313 by omega), if_neg (by omega)]
    · rw [if_neg (by omega)]
      try simp only []
      rw [if_pos (show s.line ≥ 313 by omega), if_neg (by omega)]
  · rw [if_neg (by omega), if_pos hid, if_neg (by omega)]; simp [hid]
  · rw [if_neg (by omega), if_neg (by omega), if_pos hid, if_neg (by omega)]
    have : ¬ (s.id = 1 ∨ s.id = 2 ∨ s.id = 3) := by omega
    simp [hid]
  · rw [if_neg (by omega), if_neg (by omega), if_neg (by omega), if_pos hid, if_neg (by omega)]
    have h4 : s.id ≠ 4 := by omega
    have : ¬ (s.id = 1 ∨ s.id = 2 ∨ s.id = 3) := by omega
    simp [h4, this]

theorem lofpOf_permitted (s : Sliced) (h : Permitted s) (lastLine : Nat) : ∃ lofp, lofpOf s.line lastLine = .ok lofp := by
  unfold Permitted at h
  unfold lofpOf F2_START
  have hl : s.line = 0 ∨ (7 ≤ s.line ∧ s.line ≤ 23) ∨ (320 ≤ s.line ∧ s.line ≤ 335) := by
    rcases h with ⟨_, hl⟩ | ⟨_, hl⟩ | ⟨_, hl⟩ | ⟨_, hl⟩ <;> omega
  rcases hl with hl | hl | hl
  · rw [if_pos hl]; split <;> exact ⟨_, rfl⟩
  · rw [if_neg (by omega), if_pos (by omega)]; exact ⟨_, rfl⟩
  · rw [if_neg (by omega), if_neg (by omega), if_neg (by omega), if_pos (by omega)]; exact ⟨_, rfl⟩

/-- `insert_sliced_data_units` converts every line of an ordered, permitted segment that fits -/
theorem insertSliced_accepts (mask : Nat) (fixed : Bool) (lines : List Sliced) (hwf : ∀ s ∈ lines, Sliced.WF s)
    (hperm : ∀ s ∈ lines, s.id &&& mask ≠ 0 → Permitted s) :
    ∀ pLeft lastLine lastDu L, lastLine ≤ L → Ordered L lines → unitsSize fixed mask lines ≤ pLeft →
      (insertSliced mask fixed pLeft lastLine lastDu lines).err = none
      ∧ (insertSliced mask fixed pLeft lastLine lastDu lines).rest = []
      ∧ (insertSliced mask fixed pLeft lastLine lastDu lines).out.length = unitsSize fixed mask lines := by
  induction lines with
  | nil => intro pLeft lastLine lastDu L _ _ _; simp [insertSliced, unitsSize]
  | cons s rest ih =>
    have hwf' : ∀ s ∈ rest, Sliced.WF s := fun x hx => hwf x (List.mem_cons_of_mem _ hx)
    have hperm' : ∀ s ∈ rest, s.id &&& mask ≠ 0 → Permitted s := fun x hx => hperm x (List.mem_cons_of_mem _ hx)
    have hs : Sliced.WF s := hwf s (List.mem_cons_self ..)
    intro pLeft lastLine lastDu L hL hord hfit
    have hord' : (s.line > 0 → L < s.line ∧ Ordered s.line rest) ∧ (¬ s.line > 0 → Ordered L rest) := by
      unfold Ordered ordered at hord
      constructor
      · intro h0; rw [if_pos h0] at hord; simpa [Ordered] using hord
      · intro h0; rw [if_neg h0] at hord; exact hord
    rw [insertSliced]
    simp only [unitsSize] at hfit ⊢
    by_cases hm : s.id &&& mask = 0
    · rw [if_pos hm] at hfit ⊢
      rw [if_pos hm, Nat.zero_add]
      by_cases h0 : s.line > 0
      · exact ih hwf' hperm' pLeft lastLine lastDu s.line (by have := (hord'.1 h0).1; omega) (hord'.1 h0).2 (by omega)
      · exact ih hwf' hperm' pLeft lastLine lastDu L hL (hord'.2 h0) (by omega)
    · rw [if_neg hm] at hfit ⊢
      rw [if_neg hm]
      have hp := hperm s (List.mem_cons_self ..) hm
      have hno : ¬ (s.line > 0 ∧ s.line ≤ lastLine) := by
        intro ⟨h0, hle⟩
        have := (hord'.1 h0).1
        omega
      rw [if_neg hno]
      try simp only []
      rw [duSizeOf_permitted s hp]
      try simp only []
      have hus : (if fixed = true then 46 else unitSize false s) = unitSize fixed s := by
        cases fixed <;> simp [unitSize]
      rw [hus]
      rw [if_neg (by omega)]
      obtain ⟨lofp, hl⟩ := lofpOf_permitted s hp (if s.line > 0 then s.line else lastLine)
      rw [hl]
      try simp only []
      obtain ⟨u, l, hb, _, _, hlen, _, _⟩ := line_unit s hs fixed _ (unitSize false s) lofp (duSizeOf_permitted s hp) hl
      rw [hus] at hb hlen
      rw [hb]
      try simp only []
      have hlen1 : (encUnits [u]).length = unitSize fixed s := by
        rw [encUnits_single]; simp only [List.length_cons]; omega
      have hrec : (insertSliced mask fixed (pLeft - unitSize fixed s) (if s.line > 0 then s.line else lastLine)
          (unitSize fixed s) rest).err = none
          ∧ (insertSliced mask fixed (pLeft - unitSize fixed s) (if s.line > 0 then s.line else lastLine)
              (unitSize fixed s) rest).rest = []
          ∧ (insertSliced mask fixed (pLeft - unitSize fixed s) (if s.line > 0 then s.line else lastLine)
              (unitSize fixed s) rest).out.length = unitsSize fixed mask rest := by
        by_cases h0 : s.line > 0
        · rw [if_pos h0]
          exact ih hwf' hperm' _ _ _ s.line (Nat.le_refl _) (hord'.1 h0).2 (by omega)
        · rw [if_neg h0]
          exact ih hwf' hperm' _ _ _ L hL (hord'.2 h0) (by omega)
      obtain ⟨h1, h2, h3⟩ := hrec
      refine ⟨h1, h2, ?_⟩
      rw [List.length_append, hlen1, h3]

/-- what the outer scan leaves of an ordered frame -/
theorem scanSeg_ordered (todo : List Sliced) :
    ∀ L, Ordered L todo → ∃ seg ll rest, scanSeg L todo = .ok (seg, ll, rest) ∧ Ordered L seg
      ∧ (rest = [] ∨ ∃ r rest', rest = r :: rest' ∧ Ordered ll rest') := by
  induction todo with
  | nil => intro L _; exact ⟨[], L, [], rfl, rfl, Or.inl rfl⟩
  | cons s todo ih =>
    intro L hord
    have hord' : (s.line > 0 → L < s.line ∧ Ordered s.line todo) ∧ (¬ s.line > 0 → Ordered L todo) := by
      unfold Ordered ordered at hord
      constructor
      · intro h0; rw [if_pos h0] at hord; simpa [Ordered] using hord
      · intro h0; rw [if_neg h0] at hord; exact hord
    rw [scanSeg]
    have hno : ¬ (s.line > 0 ∧ s.line ≤ L) := by
      intro ⟨h0, hle⟩
      have := (hord'.1 h0).1
      omega
    rw [if_neg hno]
    try simp only []
    have hnext : Ordered (if s.line > 0 then s.line else L) todo := by
      by_cases h0 : s.line > 0
      · rw [if_pos h0]; exact (hord'.1 h0).2
      · rw [if_neg h0]; exact hord'.2 h0
    by_cases hid : s.id ≠ SL_VBI625
    · rw [if_pos hid]
      obtain ⟨seg, ll, rest, h1, h2, h3⟩ := ih _ hnext
      rw [h1]
      refine ⟨s :: seg, ll, rest, rfl, ?_, h3⟩
      unfold Ordered ordered
      by_cases h0 : s.line > 0
      · rw [if_pos h0] at h2 ⊢
        simp only [Bool.and_eq_true, decide_eq_true_eq]
        exact ⟨(hord'.1 h0).1, h2⟩
      · rw [if_neg h0] at h2 ⊢
        exact h2
    · rw [if_neg hid]
      exact ⟨[], _, s :: todo, rfl, rfl, Or.inr ⟨s, todo, rfl, hnext⟩⟩

/-- the loop of `generate_pes_packet` (`raw == NULL`) converts every line of such a frame -/
theorem genLoop_accepts (mask : Nat) (fixed : Bool) :
    ∀ (fuel pLeft L : Nat) (todo : List Sliced), todo.length < fuel → (∀ s ∈ todo, Sliced.WF s) →
      (∀ s ∈ todo, s.id &&& mask ≠ 0 → Permitted s) → Ordered L todo → unitsSize fixed mask todo ≤ pLeft →
      ∃ out du us, genLoop mask fixed fuel pLeft L todo = .ok (out, du, []) ∧ out = encUnits us
        ∧ out.length = unitsSize fixed mask todo ∧ (∀ u ∈ us, GoodUnit fixed u) := by
  intro fuel
  induction fuel with
  | zero => intro pLeft L todo h; omega
  | succ fuel ih =>
    intro pLeft L todo hfu hwf hperm hord hfit
    rw [genLoop]
    obtain ⟨seg, ll, rest, hs, hoseg, hrest⟩ := scanSeg_ordered todo L hord
    obtain ⟨htodo, hnoraw, hrest2⟩ := scanSeg_spec todo _ _ _ _ hs
    rw [hs]
    try simp only []
    have hwfseg : ∀ s ∈ seg, Sliced.WF s := fun x hx => hwf x (by rw [htodo]; exact List.mem_append_left _ hx)
    have hpermseg : ∀ s ∈ seg, s.id &&& mask ≠ 0 → Permitted s :=
      fun x hx => hperm x (by rw [htodo]; exact List.mem_append_left _ hx)
    rw [htodo, unitsSize_append] at hfit
    obtain ⟨he, hr, hlen⟩ := insertSliced_accepts mask fixed seg hwfseg hpermseg pLeft (segStart L) 0 L (segStart_le L) hoseg (by omega)
    obtain ⟨us0, h1, _, h3, _, _, _⟩ := insertSliced_ok mask fixed seg hwfseg pLeft (segStart L) 0 he hr
    have hpl := insertSliced_pLeft mask fixed seg hwfseg pLeft (segStart L) 0 he hr
    rw [he]
    try simp only []
    rw [if_neg (by simp [hr])]
    cases rest with
    | nil =>
      try simp only []
      rw [List.append_nil] at htodo
      subst htodo
      exact ⟨_, _, us0, rfl, h1, hlen, h3⟩
    | cons rawLine rest' =>
      try simp only []
      have hrawid : rawLine.id = SL_VBI625 := by
        rcases hrest2 with h | ⟨r, rest'', h, hid⟩
        · cases h
        · injection h with ha hb; rw [ha]; exact hid
      have hmask : mask &&& SL_VBI625 = 0 := by
        cases hc : mask &&& SL_VBI625 with
        | zero => rfl
        | succ n =>
          exfalso
          have hsel : rawLine.id &&& mask ≠ 0 := by rw [hrawid, Nat.and_comm, hc]; omega
          exact permitted_not_raw rawLine (hperm rawLine (by rw [htodo]; simp) hsel) hrawid
      rw [if_pos hmask]
      have hmaskraw : rawLine.id &&& mask = 0 := by rw [hrawid, Nat.and_comm]; exact hmask
      have hord' : Ordered ll rest' := by
        rcases hrest with h | ⟨r, rest'', h, ho⟩
        · cases h
        · injection h with ha hb; rw [hb]; exact ho
      simp only [unitsSize, hmaskraw, if_true, Nat.zero_add] at hfit
      obtain ⟨o, du', us1, hrec, ho, holen, hgood1⟩ := ih (insertSliced mask fixed pLeft (segStart L) 0 seg).pLeft ll rest'
        (by rw [htodo, List.length_append, List.length_cons] at hfu; omega)
        (fun x hx => hwf x (by rw [htodo]; simp [hx]))
        (fun x hx => hperm x (by rw [htodo]; simp [hx]))
        hord' (by rw [hpl, hlen]; omega)
      rw [hrec]
      try simp only []
      refine ⟨_, _, us0 ++ us1, rfl, by rw [h1, ho, encUnits_append], ?_, ?_⟩
      · rw [List.length_append, hlen, holen, htodo, unitsSize_append]
        simp only [unitsSize, hmaskraw, if_true, Nat.zero_add]
      · intro u hu
        rcases List.mem_append.mp hu with hu | hu
        · exact h3 u hu
        · exact hgood1 u hu

/-- the data of a permitted ordered frame of sliced lines never ends one byte before a packet
    boundary: its size is `46 a + 16 b + 5 c` with at most one VPS line (16) and at most one Caption
    (21) and one WSS (23) line -/
theorem unitsSize_shape (mask : Nat) (lines : List Sliced) (hperm : ∀ s ∈ lines, s.id &&& mask ≠ 0 → Permitted s) :
    ∀ L, Ordered L lines → ∃ a b c, unitsSize false mask lines = 46 * a + 16 * b + 5 * c
      ∧ b ≤ (if L < 16 then 1 else 0) ∧ c ≤ (if L < 21 then 1 else 0) + (if L < 23 then 1 else 0) := by
  induction lines with
  | nil => intro L _; exact ⟨0, 0, 0, rfl, Nat.zero_le _, Nat.zero_le _⟩
  | cons s rest ih =>
    have hperm' : ∀ s ∈ rest, s.id &&& mask ≠ 0 → Permitted s := fun x hx => hperm x (List.mem_cons_of_mem _ hx)
    intro L hord
    have hord' : (s.line > 0 → L < s.line ∧ Ordered s.line rest) ∧ (¬ s.line > 0 → Ordered L rest) := by
      unfold Ordered ordered at hord
      constructor
      · intro h0; rw [if_pos h0] at hord; simpa [Ordered] using hord
      · intro h0; rw [if_neg h0] at hord; exact hord
    simp only [unitsSize]
    by_cases h0 : s.line > 0
    · obtain ⟨hlt, ho⟩ := hord'.1 h0
      obtain ⟨a, b, c, he, hb, hc⟩ := ih hperm' s.line ho
      by_cases hm : s.id &&& mask = 0
      · rw [if_pos hm, Nat.zero_add]
        refine ⟨a, b, c, he, ?_, ?_⟩
        · split at hb <;> split <;> omega
        · split at hc <;> split at hc <;> split <;> split <;> omega
      · rw [if_neg hm]
        have hp := hperm s (List.mem_cons_self ..) hm
        unfold Permitted at hp
        unfold unitSize
        simp only [Bool.false_eq_true, if_false]
        rcases hp with ⟨hid, hl⟩ | ⟨hid, hl⟩ | ⟨hid, hl⟩ | ⟨hid, hl⟩
        · have h4 : s.id ≠ 4 := by omega
          rw [if_neg h4, if_pos hid]
          refine ⟨a + 1, b, c, by omega, ?_, ?_⟩
          · split at hb <;> split <;> omega
          · split at hc <;> split at hc <;> split <;> split <;> omega
        · rw [if_pos hid]
          refine ⟨a, b + 1, c, by omega, ?_, ?_⟩
          · rw [hl] at hb; simp at hb; rw [if_pos (by omega)]; omega
          · split at hc <;> split at hc <;> split <;> split <;> omega
        · have h4 : s.id ≠ 4 := by omega
          have h123 : ¬ (s.id = 1 ∨ s.id = 2 ∨ s.id = 3) := by omega
          rw [if_neg h4, if_neg h123]
          refine ⟨a, b, c + 1, by omega, ?_, ?_⟩
          · split at hb <;> split <;> omega
          · rw [hl] at hc; simp at hc
            split <;> split <;> omega
        · have h4 : s.id ≠ 4 := by omega
          have h123 : ¬ (s.id = 1 ∨ s.id = 2 ∨ s.id = 3) := by omega
          rw [if_neg h4, if_neg h123]
          refine ⟨a, b, c + 1, by omega, ?_, ?_⟩
          · split at hb <;> split <;> omega
          · rw [hl] at hc; simp at hc
            split <;> split <;> omega
    · have ho := hord'.2 h0
      obtain ⟨a, b, c, he, hb, hc⟩ := ih hperm' L ho
      by_cases hm : s.id &&& mask = 0
      · rw [if_pos hm, Nat.zero_add]; exact ⟨a, b, c, he, hb, hc⟩
      · rw [if_neg hm]
        have hp := hperm s (List.mem_cons_self ..) hm
        unfold Permitted at hp
        have hid : s.id = 1 ∨ s.id = 2 ∨ s.id = 3 := by
          rcases hp with ⟨hid, _⟩ | ⟨_, hl⟩ | ⟨_, hl⟩ | ⟨_, hl⟩ <;> first | exact hid | omega
        have h4 : s.id ≠ 4 := by omega
        unfold unitSize
        simp only [Bool.false_eq_true, if_false]
        rw [if_neg h4, if_pos hid]
        exact ⟨a + 1, b, c, by omega, hb, hc⟩

theorem unitsSize_fixed (mask : Nat) (lines : List Sliced) : unitsSize true mask lines % 46 = 0 := by
  induction lines with
  | nil => rfl
  | cons s rest ih =>
    simp only [unitsSize, unitSize, if_true]
    split <;> omega

/-- `vbi_dvb_mux_feed` (`raw == NULL`) accepts every ordered, permitted frame that fits -/
theorem feed_accepts (m : Mux) (hc : CfgOK m.cfg) (lines : List Sliced) (mask pts : Nat)
    (hwf : ∀ s ∈ lines, Sliced.WF s) (hord : Ordered 0 lines)
    (hperm : ∀ s ∈ lines, s.id &&& mask ≠ 0 → Permitted s)
    (hfit : 46 + unitsSize (fixedLengthFormat m.cfg.dataId) mask lines ≤ m.cfg.maxSize) :
    (feed m lines mask pts 0).2.ok = true := by
  have hmin := hc.min184; have hmm := hc.minmax; have hmax := hc.max
  have hminMod := hc.minMod; have hmaxMod := hc.maxMod
  obtain ⟨out, du, us, hgl, henc, hlen, hgood⟩ := genLoop_accepts mask (fixedLengthFormat m.cfg.dataId) (lines.length + 1)
    (m.cfg.maxSize - 46) 0 lines (Nat.lt_succ_self _) hwf hperm hord (by omega)
  have hgen : ∃ pes, generatePes m.cfg lines mask pts = .ok (pes, []) := by
    unfold generatePes
    simp only [hgl]
    generalize hpl : (if 46 + out.length < m.cfg.minSize then m.cfg.minSize - (46 + out.length)
        else if (46 + out.length) % 184 > 0 then 184 - (46 + out.length) % 184 else 0) = pLeft
    have hfixmod : fixedLengthFormat m.cfg.dataId = true → pLeft % 46 = 0 := by
      intro hf
      have := unitsSize_fixed mask lines
      rw [hf] at hlen
      rw [← hpl]; split
      · omega
      · split <;> omega
    have hne1 : fixedLengthFormat m.cfg.dataId = false → pLeft ≠ 1 := by
      intro hf
      obtain ⟨a, b, c, he, hb, hcc⟩ := unitsSize_shape mask lines hperm 0 hord
      rw [hf] at hlen
      simp only [Nat.zero_lt_succ, if_true, Nat.lt_add_one, (by decide : (0 : Nat) < 16), (by decide : (0 : Nat) < 21),
        (by decide : (0 : Nat) < 23)] at hb hcc
      rw [← hpl]; split
      · omega
      · split <;> omega
    have hstf : ∃ body, encodeStuffing out pLeft du (fixedLengthFormat m.cfg.dataId) = .ok body := by
      cases hf : fixedLengthFormat m.cfg.dataId with
      | true =>
        obtain ⟨us₁, st, hes, _⟩ := encodeStuffing_spec us pLeft true (fun _ => hfixmod hf) (by intro h; cases h)
        have hp1 : pLeft ≠ 1 := by have := hfixmod hf; omega
        rw [henc, encodeStuffing_lastDu _ pLeft du (lastSize us) true hp1, hes]
        exact ⟨_, rfl⟩
      | false =>
        have hp1 := hne1 hf
        obtain ⟨us₁, st, hes, _⟩ := encodeStuffing_spec us pLeft false (by intro h; cases h) (fun _ h => absurd h hp1)
        rw [henc, encodeStuffing_lastDu _ pLeft du (lastSize us) false hp1, hes]
        exact ⟨_, rfl⟩
    obtain ⟨body, hb⟩ := hstf
    rw [hb]
    exact ⟨_, rfl⟩
  obtain ⟨pes, hg⟩ := hgen
  rw [feed_unfold, dropPending_cfg, hg]
  simp only []
  rw [if_neg (by simp)]
  split <;> rfl

end Zvbi.Mux
