import ZvbiModel.Mux.Model
/-!
# EnParse - an independent reader of the multiplexer's output

Written from the structure of the standards, not from dvb_mux.c or dvb_demux.c:

* ISO 13818-1 2.4.3.6/2.4.3.7: PES packet (start code prefix, stream_id,
  PES_packet_length, flags, PES_header_data_length, PTS with marker bits)
* EN 300 472 4.2 / EN 301 775 4.3: stream_id private_stream_1, PES_packet_length
  = N x 184 - 6, data_alignment_indicator 1, PES_header_data_length 0x24, PTS present,
  header stuffing 0xFF, data_identifier 0x10..0x1F or 0x99..0x9B
* EN 301 775 4.4 table 1: data units (data_unit_id, data_unit_length, data_field, stuffing
  bytes) that end exactly with the packet; data_unit_length 0x2C whenever data_identifier is
  0x10..0x1F; tables 3..11: Teletext (0x02/0x03), VPS (0xC3, line 16), WSS (0xC4, line 23),
  Closed Caption (0xC5, line 21), stuffing (0xFF)
* ISO 13818-1 2.4.3.2: TS packets of 188 bytes: sync 0x47, no error, payload_unit_start
  exactly on the packet where a PES packet begins, the PID, not scrambled, payload only,
  continuity_counter incrementing modulo 16.

Bit order: EN 301 775 carries data bits in transmission order, most significant bit of
each byte first.  libzvbi's sliced format holds Teletext, WSS and Caption bytes LSB-first
(first transmitted bit = bit 0), VPS MSB-first; `Line.data` uses the sliced convention, so
Teletext/WSS/CC bytes are bit-reversed here and VPS bytes are not.
-/
namespace Zvbi.Mux.EnParse
open Zvbi.Hamm Zvbi.Mux

inductive Svc | ttx | vps | wss | cc
deriving DecidableEq, Repr, Inhabited

/-- the `vbi_sliced.id` the library's demultiplexer reports for the service -/
def Svc.code : Svc → Nat
  | .ttx => 3 | .vps => 4 | .wss => 0x400 | .cc => 8

/-- one VBI line as carried by the stream: service, frame line (0 = undefined), payload -/
structure Line where
  svc : Svc
  line : Nat
  data : Bytes
deriving DecidableEq, Repr, Inhabited

/-- `data_unit_id`, and the `data_unit_length` bytes following the length field -/
structure DataUnit where
  id : Nat
  payload : Bytes
deriving DecidableEq, Repr, Inhabited

/-- EN 301 775 table 1: `for (i = 0; i < N; i++) { data_unit_id, data_unit_length, data_field }`;
    the units must fill the region exactly (none crosses its end). -/
def parseUnitsF : Nat → Bytes → Option (List DataUnit)
  | _, [] => some []
  | 0, _ => none
  | _, [_] => none
  | f + 1, id :: len :: rest =>
    if len ≤ rest.length then
      match parseUnitsF f (rest.drop len) with
      | some us => some (⟨id, rest.take len⟩ :: us)
      | none => none
    else none

def parseUnits (bs : Bytes) : Option (List DataUnit) := parseUnitsF bs.length bs

/-- the byte sequence of a list of data units -/
def encUnits : List DataUnit → Bytes
  | [] => []
  | u :: us => u.id :: u.payload.length :: (u.payload ++ encUnits us)

def allFF (bs : Bytes) : Bool := bs.all (· == 0xFF)

/-- reserved '11', field_parity (1 = first field), line_offset -> frame line number, 0 = undefined -/
def lofpLine (lofp : Nat) : Option Nat :=
  if lofp / 64 ≠ 3 then none
  else
    let off := lofp % 32
    if off = 0 then some 0
    else if lofp / 32 % 2 = 1 then some off else some (313 + off)

/-- one data unit -> `none` (malformed) | `some none` (stuffing) | `some (some line)` -/
def unitLine (u : DataUnit) : Option (Option Line) :=
  let p := u.payload
  if u.id = 0xFF then (if allFF p then some none else none)
  else if u.id = 0x02 ∨ u.id = 0x03 then
    -- EN 301 775 4.5: lofp, framing_code 0xE4, 42 bytes; line_offset 0 or 7..22
    if p.length < 44 ∨ ¬ allFF (p.drop 44) ∨ p.getD 1 0 ≠ 0xE4 then none
    else match lofpLine (p.getD 0 0) with
      | none => none
      | some l =>
        let off := p.getD 0 0 % 32
        if off ≠ 0 ∧ (off < 7 ∨ off > 22) then none
        else some (some ⟨.ttx, l, ((p.drop 2).take 42).map rev8⟩)
  else if u.id = 0xC3 then
    -- EN 301 775 4.6: line 16 of the first field, 13 bytes
    if p.length < 14 ∨ ¬ allFF (p.drop 14) then none
    else if lofpLine (p.getD 0 0) ≠ some 16 then none
    else some (some ⟨.vps, 16, (p.drop 1).take 13⟩)
  else if u.id = 0xC4 then
    -- EN 301 775 4.7: line 23 of the first field, 14 bits then reserved '11'
    if p.length < 3 ∨ ¬ allFF (p.drop 3) ∨ p.getD 2 0 % 4 ≠ 3 then none
    else if lofpLine (p.getD 0 0) ≠ some 23 then none
    else some (some ⟨.wss, 23, [rev8 (p.getD 1 0), rev8 (p.getD 2 0) % 64]⟩)
  else if u.id = 0xC5 then
    -- EN 301 775 4.8: line 21 of the first field, two bytes
    if p.length < 3 ∨ ¬ allFF (p.drop 3) then none
    else if lofpLine (p.getD 0 0) ≠ some 21 then none
    else some (some ⟨.cc, 21, [rev8 (p.getD 1 0), rev8 (p.getD 2 0)]⟩)
  else none

def unitsLines : List DataUnit → Option (List Line)
  | [] => some []
  | u :: us =>
    match unitLine u, unitsLines us with
    | some (some l), some ls => some (l :: ls)
    | some none, some ls => some ls
    | _, _ => none

structure Pes where
  pts : Nat
  dataId : Nat
  size : Nat
  lines : List Line
deriving DecidableEq, Repr, Inhabited

def validDataId (d : Nat) : Bool := (0x10 ≤ d && d ≤ 0x1F) || (0x99 ≤ d && d ≤ 0x9B)

/-- '0010' PTS[32..30] marker PTS[29..15] marker PTS[14..0] marker (ISO 13818-1 2.4.3.7) -/
def parsePts : Bytes → Option Nat
  | [p0, p1, p2, p3, p4] =>
    if p0 / 16 = 2 ∧ p0 % 2 = 1 ∧ p2 % 2 = 1 ∧ p4 % 2 = 1 then
      some (p0 / 2 % 8 * 2 ^ 30 + p1 * 2 ^ 22 + p2 / 2 * 2 ^ 15 + p3 * 2 ^ 7 + p4 / 2)
    else none
  | _ => none

/-- one complete VBI PES packet -/
def parsePes (bs : Bytes) : Option Pes :=
  match bs with
  | 0x00 :: 0x00 :: 0x01 :: 0xBD :: lenHi :: lenLo :: b6 :: b7 :: b8 :: rest =>
    let ptsBytes := rest.take 5
    let stuffing := (rest.drop 5).take 31
    let dataId := (rest.drop 36).getD 0 0
    let body := rest.drop 37
    if lenHi * 256 + lenLo + 6 ≠ bs.length ∨ bs.length % 184 ≠ 0 then none
    -- '10', not scrambled, data_alignment_indicator; PTS only, no other optional fields
    else if b6 / 64 ≠ 2 ∨ b6 / 16 % 4 ≠ 0 ∨ b6 / 4 % 2 ≠ 1 ∨ b7 ≠ 0x80 ∨ b8 ≠ 0x24 then none
    else if rest.length < 37 ∨ stuffing ≠ List.replicate 31 0xFF ∨ ¬ validDataId dataId then none
    else
      match parsePts ptsBytes, parseUnits body with
      | some pts, some us =>
        if dataId ≤ 0x1F ∧ ¬ us.all (fun u => u.payload.length == 0x2C) then none
        else match unitsLines us with
          | some ls => some ⟨pts, dataId, bs.length, ls⟩
          | none => none
      | _, _ => none
  | _ => none

/-- a PES stream as `vbi_dvb_mux_feed` produces it in PES mode: packets back to back -/
def pesStreamF : Nat → Bytes → Option (List Pes)
  | _, [] => some []
  | 0, _ => none
  | f + 1, bs =>
    let size := bs.getD 4 0 * 256 + bs.getD 5 0 + 6
    if bs.length < size then none
    else match parsePes (bs.take size), pesStreamF f (bs.drop size) with
      | some p, some ps => some (p :: ps)
      | _, _ => none

def pesStream (bs : Bytes) : Option (List Pes) := pesStreamF bs.length bs

/-- `n` consecutive TS packets carrying one PES packet: returns (payload, remaining bytes) -/
def tsGroup (pid : Nat) : Nat → Bool → Nat → Bytes → Option (Bytes × Bytes)
  | 0, _, _, bs => some ([], bs)
  | n + 1, first, cc, sync :: b1 :: b2 :: b3 :: tail =>
    if sync = 0x47 ∧ b1 / 128 = 0 ∧ (b1 / 64 % 2 = 1 ↔ first = true) ∧ (b1 % 32) * 256 + b2 = pid
       ∧ b3 / 16 = 1 ∧ b3 % 16 = cc % 16 ∧ 184 ≤ tail.length then
      match tsGroup pid n false (cc + 1) (tail.drop 184) with
      | some (p, r) => some (tail.take 184 ++ p, r)
      | none => none
    else none
  | _ + 1, _, _, _ => none

/-- a TS stream of one PID carrying VBI PES packets; returns the packets and the next
    expected continuity counter -/
def tsStreamF (pid : Nat) : Nat → Nat → Bytes → Option (List Pes × Nat)
  | _, cc, [] => some ([], cc % 16)
  | 0, _, _ => none
  | f + 1, cc, bs =>
    -- the PES packet begins right after the 4-byte header of a payload_unit_start packet
    let size := bs.getD 8 0 * 256 + bs.getD 9 0 + 6
    if size % 184 ≠ 0 then none
    else match tsGroup pid (size / 184) true cc bs with
      | none => none
      | some (payload, rest) =>
        match parsePes payload, tsStreamF pid f (cc + size / 184) rest with
        | some p, some (ps, cc') => some (p :: ps, cc')
        | _, _ => none

def tsStream (pid cc : Nat) (bs : Bytes) : Option (List Pes × Nat) := tsStreamF pid bs.length cc bs

/-! ## the sender's view: what a frame is supposed to carry -/

/-- a sliced line the multiplexer is specified to accept (dvb_mux.h) -/
def Permitted (s : Sliced) : Prop :=
  ((s.id = 1 ∨ s.id = 2 ∨ s.id = 3) ∧ (s.line = 0 ∨ (7 ≤ s.line ∧ s.line ≤ 22) ∨ (320 ≤ s.line ∧ s.line ≤ 335)))
  ∨ (s.id = 4 ∧ s.line = 16) ∨ (s.id = 0x400 ∧ s.line = 23) ∨ ((s.id = 0x18 ∨ s.id = 8) ∧ s.line = 21)

instance (s : Sliced) : Decidable (Permitted s) := by unfold Permitted; infer_instance

/-- service, line and payload bits of an input line, as the receiver will see them:
    Teletext 42 bytes, VPS 13 bytes, WSS 14 bits, Caption 2 bytes -/
def canon (s : Sliced) : Option Line :=
  if s.id = 1 ∨ s.id = 2 ∨ s.id = 3 then some ⟨.ttx, s.line, (List.range 42).map s.byte⟩
  else if s.id = 4 then some ⟨.vps, s.line, (List.range 13).map s.byte⟩
  else if s.id = 0x400 then some ⟨.wss, s.line, [s.byte 0, s.byte 1 % 64]⟩
  else if s.id = 0x18 ∨ s.id = 8 then some ⟨.cc, s.line, [s.byte 0, s.byte 1]⟩
  else none

/-- the lines of a frame selected by the service mask, in order -/
def sent (mask : Nat) (lines : List Sliced) : List Line :=
  (lines.filter (fun s => s.id &&& mask ≠ 0)).filterMap canon

/-- `vbi_sliced` well-formedness: `uint32_t` fields, `uint8_t data[56]` -/
def Sliced.WF (s : Sliced) : Prop :=
  s.id < 2 ^ 32 ∧ s.line < 2 ^ 32 ∧ s.data.length = 56 ∧ ∀ b ∈ s.data, b < 256

/-! ## histories: what an application does with one multiplexer, and what it thereby sends -/

inductive Op
  | frame (lines : List Sliced) (mask pts : Nat)
  | dataId (d : Nat)
  | size (mn mx : Nat)
deriving Repr

/-- what the receiver is to get for one accepted frame -/
structure Sent where
  pts : Nat
  dataId : Nat
  lines : List Line
deriving DecidableEq, Repr

def Pes.content (p : Pes) : Sent := ⟨p.pts, p.dataId, p.lines⟩

def FeedOut.allBytes (o : FeedOut) : Bytes := (o.calls.filterMap id).flatten

/-- one application step: new state, bytes handed to the callback, frames sent -/
def step (m : Mux) : Op → Mux × Bytes × List Sent
  | .frame lines mask pts =>
    let r := feed m lines mask pts 0
    (r.1, FeedOut.allBytes r.2, if r.2.ok then [⟨pts % 2 ^ 33, m.cfg.dataId, sent mask lines⟩] else [])
  | .dataId d => ((setDataIdentifier m d).1, [], [])
  | .size a b => (setPesPacketSize m a b, [], [])

def run (m : Mux) : List Op → Mux × Bytes × List Sent
  | [] => (m, [], [])
  | op :: ops =>
    let r1 := step m op
    let r2 := run r1.1 ops
    (r2.1, r1.2.1 ++ r2.2.1, r1.2.2 ++ r2.2.2)

/-- frames as an application with `raw == NULL` hands them over -/
def Op.OK : Op → Prop
  | .frame lines _ _ => (∀ s ∈ lines, Sliced.WF s) ∧ ∀ s ∈ lines, s.id ≠ SL_VBI625
  | _ => True

end Zvbi.Mux.EnParse
