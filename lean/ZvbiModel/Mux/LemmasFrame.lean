import ZvbiModel.Mux.LemmasLines
/-!
# Lemmas: a frame of sliced lines -> the data unit region of one PES packet
-/
namespace Zvbi.Mux
open Zvbi.Mux.EnParse Zvbi.Hamm

theorem byte_lt (s : Sliced) (hs : Sliced.WF s) (i : Nat) : s.byte i < 256 := by
  unfold Sliced.byte
  rw [List.getD_eq_getElem?_getD]
  cases h : s.data[i]? with
  | none => simp
  | some b => simp; exact hs.2.2.2 b (List.mem_of_getElem? h)

theorem bytes_lt (s : Sliced) (hs : Sliced.WF s) (n : Nat) : ∀ b ∈ (List.range n).map s.byte, b < 256 := by
  intro b hb
  rw [List.mem_map] at hb
  obtain ⟨i, _, rfl⟩ := hb
  exact byte_lt s hs i

/-- the `switch (s->id)` accepts exactly the permitted service / line combinations -/
theorem duSizeOf_ok (id line du0 : Nat) (hline : line < 2 ^ 32) (h : duSizeOf id line = .ok du0) :
    ((id = 1 ∨ id = 2 ∨ id = 3) ∧ du0 = 46 ∧ (line = 0 ∨ (7 ≤ line ∧ line ≤ 22) ∨ (320 ≤ line ∧ line ≤ 335)))
    ∨ (id = 4 ∧ du0 = 16 ∧ line = 16) ∨ (id = 0x400 ∧ du0 = 5 ∧ line = 23)
    ∨ ((id = 0x18 ∨ id = 8) ∧ du0 = 5 ∧ line = 21) := by
  unfold duSizeOf at h
  by_cases ht : id = SL_TTX_L10 ∨ id = SL_TTX_L25 ∨ id = SL_TTX
  · rw [if_pos ht] at h
    have ht : id = 1 ∨ id = 2 ∨ id = 3 := ht
    by_cases h0 : line = 0
    · rw [if_pos h0] at h; injection h with h; exact Or.inl ⟨ht, h.symm, Or.inl h0⟩
    · rw [if_neg h0] at h
      by_cases h313 : line ≥ F2_START
      · simp only [h313, if_true] at h
        have h313 : line ≥ 313 := h313
        by_cases hc : (line - F2_START + 2 ^ 32 - 7) % 2 ^ 32 > 15
        · rw [if_pos hc] at h; cases h
        · rw [if_neg hc] at h; injection h with h
          refine Or.inl ⟨ht, h.symm, Or.inr (Or.inr ?_)⟩
          simp only [F2_START] at hc; omega
      · simp only [h313, if_false] at h
        have h313 : ¬ line ≥ 313 := h313
        by_cases hc : (line + 2 ^ 32 - 7) % 2 ^ 32 > 15
        · rw [if_pos hc] at h; cases h
        · rw [if_neg hc] at h; injection h with h
          refine Or.inl ⟨ht, h.symm, Or.inr (Or.inl ?_)⟩; omega
  · rw [if_neg ht] at h
    by_cases hv : id = SL_VPS
    · rw [if_pos hv] at h
      have hv : id = 4 := hv
      by_cases hl : line ≠ 16
      · rw [if_pos hl] at h; cases h
      · rw [if_neg hl] at h; injection h with h
        exact Or.inr (Or.inl ⟨hv, h.symm, by omega⟩)
    · rw [if_neg hv] at h
      by_cases hw : id = SL_WSS
      · rw [if_pos hw] at h
        have hw : id = 0x400 := hw
        by_cases hl : line ≠ 23
        · rw [if_pos hl] at h; cases h
        · rw [if_neg hl] at h; injection h with h
          exact Or.inr (Or.inr (Or.inl ⟨hw, h.symm, by omega⟩))
      · rw [if_neg hw] at h
        by_cases hcc : id = SL_CC ∨ id = SL_CC_F1
        · rw [if_pos hcc] at h
          have hcc : id = 0x18 ∨ id = 8 := hcc
          by_cases hl : line ≠ 21
          · rw [if_pos hl] at h; cases h
          · rw [if_neg hl] at h; injection h with h
            exact Or.inr (Or.inr (Or.inr ⟨hcc, h.symm, by omega⟩))
        · rw [if_neg hcc] at h; cases h

theorem lofpOf_ok (line lastLine lofp : Nat) (h : lofpOf line lastLine = .ok lofp) :
    (line = 0 ∧ (lofp = 0xC0 ∨ lofp = 0xE0)) ∨ (0 < line ∧ line < 32 ∧ lofp = 0xE0 + line)
    ∨ (313 ≤ line ∧ line < 345 ∧ lofp = 0xC0 + (line - 313)) := by
  unfold lofpOf at h
  by_cases h0 : line = 0
  · rw [if_pos h0] at h
    by_cases hc : lastLine ≥ F2_START
    · rw [if_pos hc] at h; injection h with h; exact Or.inl ⟨h0, Or.inl h.symm⟩
    · rw [if_neg hc] at h; injection h with h; exact Or.inl ⟨h0, Or.inr h.symm⟩
  · rw [if_neg h0] at h
    by_cases h32 : line < 32
    · rw [if_pos h32] at h; injection h with h; exact Or.inr (Or.inl ⟨by omega, h32, h.symm⟩)
    · rw [if_neg h32] at h
      by_cases h313 : line < F2_START
      · rw [if_pos h313] at h; cases h
      · rw [if_neg h313] at h
        by_cases h345 : line < F2_START + 32
        · rw [if_pos h345] at h; injection h with h
          simp only [F2_START] at h313 h345 h
          exact Or.inr (Or.inr ⟨by omega, by omega, by omega⟩)
        · rw [if_neg h345] at h; cases h

/-- the line number written into a Teletext unit reads back -/
theorem ttx_lofp (line lastLine lofp : Nat) (hl : lofpOf line lastLine = .ok lofp)
    (hp : line = 0 ∨ (7 ≤ line ∧ line ≤ 22) ∨ (320 ≤ line ∧ line ≤ 335)) :
    lofpLine lofp = some line ∧ (lofp % 32 = 0 ∨ (7 ≤ lofp % 32 ∧ lofp % 32 ≤ 22)) := by
  rcases lofpOf_ok line lastLine lofp hl with ⟨h0, hv⟩ | ⟨h0, h32, hv⟩ | ⟨h313, h345, hv⟩
  · subst h0
    rcases hv with rfl | rfl
    · exact ⟨lofpLine_undef.1, Or.inl rfl⟩
    · exact ⟨lofpLine_undef.2, Or.inl rfl⟩
  · subst hv
    refine ⟨lofpLine_first line h0 h32, ?_⟩
    clear hl
    have : (224 + line) % 32 = line := by omega
    rw [this]; omega
  · have hlt : line - 313 < 32 := by omega
    have hpos : 0 < line - 313 := by omega
    have h1 := lofpLine_second (line - 313) hpos hlt
    have e : 313 + (line - 313) = line := by omega
    rw [e] at h1
    rw [hv]
    refine ⟨h1, ?_⟩
    have h2 : (192 + (line - 313)) % 32 = line - 313 := by omega
    rw [h2]
    right; constructor <;> omega

/-- what one accepted line becomes -/
theorem line_unit (s : Sliced) (hs : Sliced.WF s) (fixed : Bool) (lastLine du0 lofp : Nat)
    (hd : duSizeOf s.id s.line = .ok du0) (hl : lofpOf s.line lastLine = .ok lofp) :
    ∃ u l, duBytes s (if fixed then 46 else du0) lofp = .ok (encUnits [u])
      ∧ canon s = some l ∧ unitLine u = some (some l)
      ∧ u.payload.length + 2 = (if fixed then 46 else du0) ∧ u.id ≠ 0xFF ∧ Permitted s := by
  have hb0 := byte_lt s hs 0
  have hb1 := byte_lt s hs 1
  obtain ⟨id, line, data⟩ := s
  have hline : line < 2 ^ 32 := hs.2.1
  simp only at hd hl ⊢
  rcases duSizeOf_ok id line du0 hline hd with ⟨hid, rfl, hp⟩ | ⟨rfl, rfl, rfl⟩ | ⟨rfl, rfl, rfl⟩ | ⟨hid, rfl, rfl⟩
  · -- Teletext
    have hmask : id &&& SL_TTX ≠ 0 := by rcases hid with rfl | rfl | rfl <;> decide
    have hdu2 : (if fixed = true then 46 else 46) = 46 := by cases fixed <;> rfl
    rw [hdu2]
    let X := (List.range 42).map (Sliced.byte ⟨id, line, data⟩)
    have hXlen : X.length = 42 := by simp [X]
    have hXb := bytes_lt ⟨id, line, data⟩ hs 42
    obtain ⟨hll, hoff⟩ := ttx_lofp line lastLine lofp hl hp
    refine ⟨⟨0x02, lofp :: 0xE4 :: (X.map rev8 ++ List.replicate 0 0xFF)⟩, ⟨.ttx, line, X⟩, ?_, ?_, ?_, ?_, by simp, ?_⟩
    · unfold duBytes
      simp only [hmask, ne_eq, not_false_eq_true, if_true]
      rw [encUnits_single]
      simp [X, DU_TTX, List.map_map, Function.comp_def]
    · unfold canon; rw [if_pos hid]
    · exact unitLine_ttx lofp line X 0 hXlen hXb hll hoff
    · simp [hXlen]
    · exact Or.inl ⟨hid, hp⟩
  · -- VPS on line 16
    have hlofp : lofp = 0xE0 + 16 := by
      rcases lofpOf_ok 16 lastLine lofp hl with ⟨h0, _⟩ | ⟨_, _, hv⟩ | ⟨h313, _, _⟩
      · omega
      · exact hv
      · omega
    subst hlofp
    let X := (List.range 13).map (Sliced.byte ⟨4, 16, data⟩)
    have hXlen : X.length = 13 := by simp [X]
    refine ⟨⟨0xC3, (0xE0 + 16) :: (X ++ List.replicate ((if fixed = true then 46 else 16) - 16) 0xFF)⟩,
      ⟨.vps, 16, X⟩, ?_, ?_, ?_, ?_, by simp, ?_⟩
    · unfold duBytes
      rw [encUnits_single]
      cases fixed <;> simp [X, DU_VPS, SL_TTX, SL_VPS, SL_VPS_F2]
    · simp [canon, X]
    · exact unitLine_vps X _ hXlen
    · cases fixed <;> simp [hXlen]
    · exact Or.inr (Or.inl ⟨rfl, rfl⟩)
  · -- WSS on line 23
    have hlofp : lofp = 0xE0 + 23 := by
      rcases lofpOf_ok 23 lastLine lofp hl with ⟨h0, _⟩ | ⟨_, _, hv⟩ | ⟨h313, _, _⟩
      · omega
      · exact hv
      · omega
    subst hlofp
    refine ⟨⟨0xC4, (0xE0 + 23) :: rev8 (Sliced.byte ⟨0x400, 23, data⟩ 0) :: (rev8 (Sliced.byte ⟨0x400, 23, data⟩ 1) ||| 3)
        :: List.replicate ((if fixed = true then 46 else 5) - 5) 0xFF⟩,
      ⟨.wss, 23, [Sliced.byte ⟨0x400, 23, data⟩ 0, Sliced.byte ⟨0x400, 23, data⟩ 1 % 64]⟩, ?_, ?_, ?_, ?_, by simp, ?_⟩
    · unfold duBytes
      rw [encUnits_single]
      cases fixed <;> simp [DU_WSS, SL_TTX, SL_VPS, SL_VPS_F2, SL_WSS]
    · simp [canon]
    · exact unitLine_wss _ _ _ hb0 hb1
    · cases fixed <;> simp
    · exact Or.inr (Or.inr (Or.inl ⟨rfl, rfl⟩))
  · -- Caption on line 21
    have hlofp : lofp = 0xE0 + 21 := by
      rcases lofpOf_ok 21 lastLine lofp hl with ⟨h0, _⟩ | ⟨_, _, hv⟩ | ⟨h313, _, _⟩
      · omega
      · exact hv
      · omega
    subst hlofp
    refine ⟨⟨0xC5, (0xE0 + 21) :: rev8 (Sliced.byte ⟨id, 21, data⟩ 0) :: rev8 (Sliced.byte ⟨id, 21, data⟩ 1)
        :: List.replicate ((if fixed = true then 46 else 5) - 5) 0xFF⟩,
      ⟨.cc, 21, [Sliced.byte ⟨id, 21, data⟩ 0, Sliced.byte ⟨id, 21, data⟩ 1]⟩, ?_, ?_, ?_, ?_, by simp, ?_⟩
    · unfold duBytes
      rw [encUnits_single]
      rcases hid with rfl | rfl <;> cases fixed <;> simp [DU_CC, SL_TTX, SL_VPS, SL_VPS_F2, SL_WSS, SL_CC]
    · rcases hid with rfl | rfl <;> simp [canon]
    · exact unitLine_cc _ _ _ hb0 hb1
    · cases fixed <;> simp
    · exact Or.inr (Or.inr (Or.inr ⟨hid, rfl⟩))

theorem lastSize_cons (u : DataUnit) (us : List DataUnit) :
    lastSize (u :: us) = if us = [] then u.payload.length + 2 else lastSize us := by
  cases us <;> simp [lastSize]

theorem sent_cons_masked (mask : Nat) (s : Sliced) (rest : List Sliced) (h : s.id &&& mask = 0) :
    sent mask (s :: rest) = sent mask rest := by
  simp [sent, List.filter_cons, h]

theorem sent_cons_kept (mask : Nat) (s : Sliced) (rest : List Sliced) (l : Line) (h : ¬ s.id &&& mask = 0)
    (hc : canon s = some l) : sent mask (s :: rest) = l :: sent mask rest := by
  simp [sent, List.filter_cons, h, hc]

/-- properties of the data units produced for sliced lines -/
def GoodUnit (fixed : Bool) (u : DataUnit) : Prop :=
  u.id ≠ 0xFF ∧ u.payload.length + 2 ≤ 46 ∧ (fixed = true → u.payload.length = 0x2C) ∧ ∃ l, unitLine u = some (some l)

/-- `insert_sliced_data_units` when every line was converted: the bytes are the data units of
    exactly the selected lines, in order -/
theorem insertSliced_ok (mask : Nat) (fixed : Bool) (lines : List Sliced) (hwf : ∀ s ∈ lines, Sliced.WF s) :
    ∀ pLeft lastLine lastDu,
      (insertSliced mask fixed pLeft lastLine lastDu lines).err = none →
      (insertSliced mask fixed pLeft lastLine lastDu lines).rest = [] →
      ∃ us, (insertSliced mask fixed pLeft lastLine lastDu lines).out = encUnits us
        ∧ unitsLines us = some (sent mask lines)
        ∧ (∀ u ∈ us, GoodUnit fixed u)
        ∧ (insertSliced mask fixed pLeft lastLine lastDu lines).lastDu = (if us = [] then lastDu else lastSize us)
        ∧ (insertSliced mask fixed pLeft lastLine lastDu lines).out.length ≤ pLeft
        ∧ (∀ s ∈ lines, s.id &&& mask ≠ 0 → Permitted s) := by
  induction lines with
  | nil =>
    intro pLeft lastLine lastDu _ _
    exact ⟨[], by simp [insertSliced, encUnits], by simp [unitsLines, sent], by simp, by simp [insertSliced],
      by simp [insertSliced], by simp⟩
  | cons s rest ih =>
    have hwf' : ∀ s ∈ rest, Sliced.WF s := fun x hx => hwf x (List.mem_cons_of_mem _ hx)
    have hs : Sliced.WF s := hwf s (List.mem_cons_self ..)
    intro pLeft lastLine lastDu
    rw [insertSliced]
    by_cases hm : s.id &&& mask = 0
    · rw [if_pos hm]
      intro he hr
      obtain ⟨us, h1, h2, h3, h4, h5, h6⟩ := ih hwf' pLeft lastLine lastDu he hr
      refine ⟨us, h1, by rw [sent_cons_masked mask s rest hm]; exact h2, h3, h4, h5, ?_⟩
      intro x hx hxm
      rcases List.mem_cons.mp hx with rfl | hx
      · exact absurd hm hxm
      · exact h6 x hx hxm
    · rw [if_neg hm]
      by_cases ho : s.line > 0 ∧ s.line ≤ lastLine
      · rw [if_pos ho]; intro he; simp at he
      · rw [if_neg ho]
        simp only []
        cases hd : duSizeOf s.id s.line with
        | error e => simp only []; intro he; simp at he
        | ok du0 =>
          simp only []
          by_cases hfit : (if fixed = true then 46 else du0) > pLeft
          · rw [if_pos hfit]; intro _ hr; simp at hr
          · rw [if_neg hfit]
            cases hl : lofpOf s.line (if s.line > 0 then s.line else lastLine) with
            | error e => simp only []; intro he; simp at he
            | ok lofp =>
              simp only []
              obtain ⟨u, l, hb, hc, hu, hlen, hid, hperm⟩ := line_unit s hs fixed _ du0 lofp hd hl
              rw [hb]
              simp only []
              intro he hr
              obtain ⟨us, h1, h2, h3, h4, h5, h6⟩ := ih hwf' _ _ _ he hr
              refine ⟨u :: us, ?_, ?_, ?_, ?_, ?_, ?_⟩
              · rw [h1]; show encUnits [u] ++ encUnits us = encUnits ([u] ++ us); rw [encUnits_append]
              · rw [sent_cons_kept mask s rest l hm hc]
                simp [unitsLines, hu, h2]
              · intro x hx
                rcases List.mem_cons.mp hx with rfl | hx
                · refine ⟨hid, ?_, ?_, l, hu⟩
                  · rw [hlen]
                    rcases duSizeOf_ok s.id s.line du0 hs.2.1 hd with ⟨_, rfl, _⟩ | ⟨_, rfl, _⟩ | ⟨_, rfl, _⟩ | ⟨_, rfl, _⟩ <;>
                      cases fixed <;> simp
                  · intro hf; subst hf; simp at hlen; omega
                · exact h3 x hx
              · rw [h4, lastSize_cons]
                by_cases hus : us = []
                · simp [hus, hlen]
                · simp [hus]
              · have hlen1 : (encUnits [u]).length = (if fixed = true then 46 else du0) := by
                  rw [encUnits_single]; simp only [List.length_cons]; omega
                rw [List.length_append, hlen1]
                omega
              · intro x hx hxm
                rcases List.mem_cons.mp hx with rfl | hx
                · exact hperm
                · exact h6 x hx hxm

end Zvbi.Mux
