import ZvbiModel.Mux.PesShape
import ZvbiModel.Mux.RawFeed
/-!
# Lemmas: with `raw == NULL`, `sp == NULL` the raw-capable model of the unchanged tree IS the
round 1 model (`genLoop`, `generatePes`, `feed`), so the round 1 / round 2 theorems speak about it
-/
namespace Zvbi.Mux

/-- results of the round 1 loop, seen as results of the raw-capable loop -/
def liftLoop (st : RawSt) : Except (Err × List Sliced) (Bytes × Nat × List Sliced) →
    Except (RErr × List Sliced) (Bytes × Nat × List Sliced × RawSt)
  | .error (e, off) => .error (.base e, off)
  | .ok (o, du, left) => .ok (o, du, left, st)

theorem genLoopR_null (mask : Nat) (fixed : Bool) :
    ∀ (fuel pLeft ll lastDu : Nat) (st : RawSt) (todo : List Sliced), st.left = 0 →
      genLoopR false mask fixed none none fuel pLeft ll lastDu st todo = liftLoop st (genLoop mask fixed fuel pLeft ll todo) := by
  intro fuel
  induction fuel with
  | zero => intro pLeft ll lastDu st todo _; rfl
  | succ fuel ih =>
    intro pLeft ll lastDu st todo hst
    rw [genLoopR, genLoop]
    cases hs : scanSeg ll todo with
    | error off => rfl
    | ok x =>
      obtain ⟨seg, l, rest⟩ := x
      simp only []
      cases he : (insertSliced mask fixed pLeft (segStart ll) 0 seg).err with
      | some e => rfl
      | none =>
        simp only []
        have hn : nextLastDu false lastDu (insertSliced mask fixed pLeft (segStart ll) 0 seg).lastDu
            = (insertSliced mask fixed pLeft (segStart ll) 0 seg).lastDu := rfl
        rw [hn]
        by_cases hr : (insertSliced mask fixed pLeft (segStart ll) 0 seg).rest ≠ []
        · rw [if_pos hr, if_pos hr]; rfl
        · rw [if_neg hr, if_neg hr]
          cases rest with
          | nil => rfl
          | cons rawLine rest' =>
            simp only []
            by_cases hm : mask &&& SL_VBI625 = 0
            · rw [if_pos hm, if_pos hm, ih _ _ _ _ _ hst]
              cases genLoop mask fixed fuel (insertSliced mask fixed pLeft (segStart ll) 0 seg).pLeft l rest' with
              | error e => obtain ⟨e1, e2⟩ := e; rfl
              | ok y => obtain ⟨o, du, left⟩ := y; rfl
            · rw [if_neg hm, if_neg hm]
              simp only [hst, if_true, samplesPointer]
              rfl

theorem generatePesR_null (cfg : Cfg) (st : RawSt) (hst : st.left = 0) (lines : List Sliced) (mask pts : Nat) :
    generatePesR false cfg st lines mask none none pts
      = match generatePes cfg lines mask pts with
        | .error (e, off) => .error (.base e, off)
        | .ok (pes, left) => .ok (pes, left, st) := by
  rw [generatePesR_both]
  unfold generatePesRBoth generatePes
  have hnl : ¬ st.left > 0 := by omega
  simp only [hnl, if_false, genLoopR_null mask _ _ _ _ _ st lines hst]
  cases genLoop mask (fixedLengthFormat cfg.dataId) (lines.length + 1) (cfg.maxSize - 46) 0 lines with
  | error e => obtain ⟨e1, e2⟩ := e; rfl
  | ok y =>
    obtain ⟨o, du, left⟩ := y
    simp only [liftLoop, Bool.false_eq_true, false_and, if_false]
    cases encodeStuffing o (if 46 + o.length < cfg.minSize then cfg.minSize - (46 + o.length)
        else if (46 + o.length) % 184 > 0 then 184 - (46 + o.length) % 184 else 0) du (fixedLengthFormat cfg.dataId) with
    | error e => rfl
    | ok body => rfl

/-- `vbi_dvb_mux_feed (mx, sliced, n, mask, NULL, NULL, pts)` of the unchanged tree: same answer, same
    callbacks, same multiplexer as the round 1 model `feed` -/
theorem feedR_null (m : RMux) (hst : m.raw.left = 0) (lines : List Sliced) (mask pts : Nat) :
    (feedR false m lines mask none none pts).2.ok = (feed m.mux lines mask pts 0).2.ok
    ∧ (feedR false m lines mask none none pts).2.calls = (feed m.mux lines mask pts 0).2.calls
    ∧ (feedR false m lines mask none none pts).1.mux = (feed m.mux lines mask pts 0).1 := by
  unfold feedR
  simp only []
  unfold feedR.go
  simp only []
  rw [feed_unfold, generatePesR_null _ _ hst]
  cases generatePes (dropPending m.mux).cfg lines mask pts with
  | error e => obtain ⟨e1, e2⟩ := e; exact ⟨rfl, rfl, rfl⟩
  | ok y =>
    obtain ⟨pes, left⟩ := y
    simp only []
    by_cases hl : left ≠ []
    · rw [if_pos hl, if_pos hl]; exact ⟨rfl, rfl, rfl⟩
    · rw [if_neg hl, if_neg hl]
      by_cases hp : (dropPending m.mux).cfg.pid = 0
      · rw [if_pos hp, if_pos hp, if_neg (by decide)]; exact ⟨rfl, rfl, rfl⟩
      · rw [if_neg hp, if_neg hp]
        simp only []
        rw [if_neg (by omega)]
        exact ⟨rfl, rfl, rfl⟩

end Zvbi.Mux
