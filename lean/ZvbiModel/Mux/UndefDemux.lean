import ZvbiModel.Demux.JoinFrame
import ZvbiModel.Mux.UndefField
/-!
# The demultiplexer's side for data units with the undefined line_offset 0 (C06 round 6)

C07's join lemmas (`Demux/JoinUnits.lean`, `Demux/JoinFrame.lean`) treat line units with a defined line number.  Here:
`line_address` (dvb_demux.c:498) in its `line_offset == 0` branch (`lineAddress_undef`), what a Teletext unit with
line_offset 0 does to the frame (`undefRes`, `dataUnit_line_undef`), and `extract_data_units` over a whole data unit
region that mixes defined and undefined lines (`extractLoop_stores_cont`): when the defined line numbers ascend and the
field parity of an undefined line is that of the frame so far - or moves from the first to the second field after at
least one unit of the packet - (`ContUnits`), every line is stored, in order, the undefined ones with line number 0.
Core Lean only.
-/
/- own namespace: C07 owns `Zvbi.Demux`; nothing is added to it from here -/
namespace Zvbi.C06UD
open Zvbi.Demux
open Zvbi.Hamm (rev8)
open Zvbi.Mux.EnParse (Line Svc DataUnit unitLine unitsLines lofpLine encUnits allFF)

variable {cfg : SrcCfg}

/-- the field `lofp_to_line` reads from the field_parity bit: 0 = first field (bit set), 1 = second field -/
def undefField (lofp : Nat) : Nat := if lofp / 32 % 2 = 1 then 0 else 1

def lofpUndefCheck (lofp : Nat) : Bool :=
  match lofpLine lofp with
  | some 0 => lofpToLine lofp true = (undefField lofp, 0, 0)
  | _ => true

theorem lofpUndefCheck_all : ∀ lofp < 256, lofpUndefCheck lofp = true := by decide +kernel

theorem lofp_agree_undef (lofp : Nat) (h : lofpLine lofp = some 0) : lofpToLine lofp true = (undefField lofp, 0, 0) := by
  have := lofpUndefCheck_all lofp (lofp_lt lofp 0 h)
  unfold lofpUndefCheck at this
  rw [h] at this
  simpa using this

/-- `line_address` for a unit with line_offset 0, both shapes of the source: a new frame when the field differs from the
last unit's at the start of a packet, "illegal line order" when the field goes back, else the slot with line number 0 -/
theorem lineAddress_undef (f : Frame) (lofp : Nat) (h : lofpLine lofp = some 0) :
    lineAddress cfg f lofp true =
      if cfg.lateOverflow = false ∧ f.lines.length ≥ 64 then .err
      else if f.lastDuId ≠ 0 ∧ undefField lofp ≠ f.lastField ∧ f.nDu = 0 then .newFrame
      else if f.lastDuId ≠ 0 ∧ undefField lofp ≠ f.lastField ∧ undefField lofp < f.lastField then .err
      else if f.lines.length ≥ 64 then .err
      else .ok { f with lastField := undefField lofp, lastFieldLine := 0, nDu := f.nDu + 1 } 0 := by
  unfold lineAddress
  rw [lofp_agree_undef lofp h]
  simp only [ne_eq, not_true_eq_false, if_false, N_SLICED]
  rfl

/-- the frame after a Teletext line with undefined line number was stored -/
def undefFrame (f : Frame) (lofp : Nat) (data : Bytes) : Frame :=
  pushLine { f with lastField := undefField lofp, lastFieldLine := 0, nDu := f.nDu + 1 } SL_TELETEXT_B 0 data

/-- what a Teletext unit with line_offset 0 does -/
def undefRes (cfg : SrcCfg) (f : Frame) (lofp : Nat) (data : Bytes) : DU :=
  if cfg.lateOverflow = false ∧ f.lines.length ≥ 64 then .fail f .err
  else if f.lastDuId ≠ 0 ∧ undefField lofp ≠ f.lastField ∧ f.nDu = 0 then .fail f .newFrame
  else if f.lastDuId ≠ 0 ∧ undefField lofp ≠ f.lastField ∧ undefField lofp < f.lastField then .fail f .err
  else if f.lines.length ≥ 64 then .fail f .err
  else .store (undefFrame f lofp data)

theorem dataUnit_ttx_undef (f : Frame) (id len p0 p1 : Nat) (r tail : Bytes)
    (hid : id = 2 ∨ id = 3) (hlen : 44 ≤ len) (hr : 42 ≤ r.length) (hp1 : p1 = 0xE4)
    (hl : lofpLine p0 = some 0) :
    dataUnit cfg f (id :: len :: p0 :: p1 :: (r ++ tail)) id len = undefRes cfg f p0 ((r.take 42).map rev8) := by
  unfold dataUnit undefRes
  simp only [DU_TTX_NON_SUBTITLE, DU_TTX_SUBTITLE, hid, if_true]
  rw [if_neg (by omega)]
  simp only [List.getElem?_cons_succ, List.getElem?_cons_zero, hp1, ne_eq, not_true_eq_false, if_false]
  rw [if_neg (by omega), lineAddress_undef f p0 hl]
  by_cases he : cfg.lateOverflow = false ∧ f.lines.length ≥ 64
  · simp only [he, and_self, if_true]
  rw [if_neg he, if_neg he]
  by_cases h1 : f.lastDuId ≠ 0 ∧ undefField p0 ≠ f.lastField ∧ f.nDu = 0
  · rw [if_pos h1, if_pos h1]
  rw [if_neg h1, if_neg h1]
  by_cases h2 : f.lastDuId ≠ 0 ∧ undefField p0 ≠ f.lastField ∧ undefField p0 < f.lastField
  · rw [if_pos h2, if_pos h2]
  rw [if_neg h2, if_neg h2]
  by_cases hfull : f.lines.length ≥ 64
  · simp only [hfull, if_true]
  rw [if_neg hfull, if_neg hfull]
  simp only []
  rw [if_neg (by omega)]
  have ht : ((id :: len :: p0 :: 228 :: (r ++ tail)).drop 4).take 42 = r.take 42 := by
    simp only [List.drop_succ_cons, List.drop_zero]
    exact List.take_append_of_le_length hr
  rw [ht, if_pos (by simp; omega)]
  rfl

/-- a line unit the reader accepts with the undefined line number 0 (only Teletext units can have it) does to the frame
what `undefRes` says, with the unit's field parity byte and the payload the reader sees -/
theorem dataUnit_line_undef (f : Frame) (u : DataUnit) (l : Line) (tail : Bytes)
    (hu : unitLine u = some (some l)) (h0 : l.line = 0) :
    dataUnit cfg f (u.id :: u.payload.length :: (u.payload ++ tail)) u.id u.payload.length
      = undefRes cfg f (u.payload.getD 0 0) l.data ∧ l.svc = .ttx := by
  obtain ⟨id, p⟩ := u
  unfold unitLine at hu
  simp only at hu ⊢
  split at hu
  · split at hu <;> cases hu
  · split at hu
    · -- Teletext
      rename_i hid
      split at hu
      · cases hu
      · rename_i hc
        have hc1 : 44 ≤ p.length := by
          apply Decidable.byContradiction; intro h; exact hc (Or.inl (by omega))
        have hc3 : p.getD 1 0 = 0xE4 := by
          apply Decidable.byContradiction; intro h; exact hc (Or.inr (Or.inr h))
        split at hu
        · cases hu
        · rename_i lv hlv
          split at hu
          · cases hu
          · rename_i hoff
            simp only [Option.some.injEq] at hu
            subst hu
            simp only at h0
            subst h0
            rcases p with _ | ⟨p0, _ | ⟨p1, r⟩⟩
            · simp at hc1
            · simp at hc1
            · simp only [List.getD_cons_zero, List.getD_cons_succ, List.length_cons, List.drop_succ_cons,
                List.drop_zero] at hc1 hc3 hlv hoff ⊢
              refine ⟨?_, trivial⟩
              rw [List.cons_append, List.cons_append]
              exact dataUnit_ttx_undef f id _ p0 p1 r tail hid hc1 (by omega) hc3 hlv
    · split at hu
      · split at hu
        · cases hu
        · split at hu
          · cases hu
          · simp only [Option.some.injEq] at hu
            subst hu
            simp at h0
      · split at hu
        · split at hu
          · cases hu
          · split at hu
            · cases hu
            · simp only [Option.some.injEq] at hu
              subst hu
              simp at h0
        · split at hu
          · split at hu
            · cases hu
            · split at hu
              · cases hu
              · simp only [Option.some.injEq] at hu
                subst hu
                simp at h0
          · cases hu

/-- The data units of a region continue the frame under assembly.  `st`: a unit of this packet was already stored
(`n_data_units_extracted_from_packet > 0`), `ll` = `last_frame_line`, `lf` = `last_field`.  A defined line lies beyond
`ll`; an undefined line has the field of the unit before it, or - after at least one stored unit of the packet - moves
from the first to the second field. -/
def ContUnits : Bool → Nat → Nat → List DataUnit → Prop
  | _, _, _, [] => True
  | st, ll, lf, u :: us =>
    match unitLine u with
    | some (some l) =>
      if l.line ≠ 0 then ll < l.line ∧ ContUnits true l.line (if l.line < 313 then 0 else 1) us
      else (undefField (u.payload.getD 0 0) = lf ∨ (st = true ∧ lf < undefField (u.payload.getD 0 0)))
           ∧ ContUnits true ll (undefField (u.payload.getD 0 0)) us
    | _ => ContUnits st ll lf us

instance decContUnits : (st : Bool) → (ll lf : Nat) → (us : List DataUnit) → Decidable (ContUnits st ll lf us)
  | _, _, _, [] => isTrue trivial
  | st, ll, lf, u :: us => by
    unfold ContUnits
    cases h : unitLine u with
    | none => simp only []; exact decContUnits st ll lf us
    | some o =>
      cases o with
      | none => simp only []; exact decContUnits st ll lf us
      | some l =>
        simp only []
        by_cases h0 : l.line ≠ 0
        · rw [if_pos h0]
          have := decContUnits true l.line (if l.line < 313 then 0 else 1) us
          exact inferInstance
        · rw [if_neg h0]
          have := decContUnits true ll (undefField (u.payload.getD 0 0)) us
          exact inferInstance

/-- `extract_data_units` over an accepted region whose units continue the frame (`ContUnits`), defined and undefined
line numbers mixed: every line is stored, in order, result 0; both shapes of `line_address`. -/
theorem extractLoop_stores_cont : ∀ (us : List DataUnit) (ls : List Line) (f : Frame) (fuel : Nat),
    unitsLines us = some ls → ContUnits (decide (f.nDu > 0)) f.lastFrameLine f.lastField us →
    f.lines.length + ls.length ≤ 64 → (encUnits us).length < fuel →
    ∃ f', extractLoop cfg fuel f (encUnits us) = (f', .done, []) ∧ f'.lines = f.lines ++ ls.map ofLine := by
  intro us
  induction us with
  | nil =>
    intro ls f fuel hul _ _ hfuel
    simp only [unitsLines, Option.some.injEq] at hul
    subst hul
    cases fuel with
    | zero => simp at hfuel
    | succ fuel => exact ⟨f, by simp [encUnits, extractLoop], by simp⟩
  | cons u us ih =>
    intro ls f fuel hul hcont hcap hfuel
    cases fuel with
    | zero => simp at hfuel
    | succ fuel =>
      obtain ⟨id, p⟩ := u
      simp only [encUnits] at hfuel ⊢
      by_cases hshort : (id :: p.length :: (p ++ encUnits us)).length ≤ 2
      · have hp : p = [] := by
          apply List.eq_nil_of_length_eq_zero
          simp only [List.length_cons, List.length_append] at hshort; omega
        have hus : us = [] := by
          rw [← encUnits_nil_iff]; apply List.eq_nil_of_length_eq_zero
          simp only [List.length_cons, List.length_append] at hshort; omega
        subst hp; subst hus
        have hls : ls = [] := by
          simp only [unitsLines] at hul
          cases hu : unitLine ⟨id, []⟩ with
          | none => rw [hu] at hul; simp at hul
          | some o =>
            cases o with
            | none => rw [hu] at hul; simpa using hul.symm
            | some l => exact absurd hu (unitLine_nil_payload id l)
        subst hls
        refine ⟨f, ?_, by simp⟩
        rw [extractLoop, if_pos hshort]
      · rw [extractLoop_step fuel f id p.length _ (by omega)
          (by simp only [List.length_cons, List.length_append]; omega), drop_unit]
        simp only [unitsLines] at hul
        unfold ContUnits at hcont
        cases hu : unitLine ⟨id, p⟩ with
        | none => rw [hu] at hul; simp at hul
        | some o =>
          cases hrest : unitsLines us with
          | none => rw [hu, hrest] at hul; cases o <;> simp at hul
          | some ls' =>
            rw [hu, hrest] at hul
            rw [hu] at hcont
            have hfuel' : (encUnits us).length < fuel := by
              simp only [List.length_cons, List.length_append] at hfuel; omega
            cases o with
            | none =>
              simp only [Option.some.injEq] at hul
              subst hul
              have := dataUnit_stuff_unit (cfg := cfg) f ⟨id, p⟩ (id :: p.length :: (p ++ encUnits us)) hu
              simp only at this
              rw [this]
              simp only [] at hcont ⊢
              obtain ⟨f', h1, h2⟩ := ih ls' { f with lastDuId := id } fuel hrest hcont hcap hfuel'
              exact ⟨f', h1, h2⟩
            | some l =>
              simp only [Option.some.injEq] at hul
              subst hul
              simp only [List.length_cons] at hcap
              simp only [] at hcont
              by_cases h0 : l.line ≠ 0
              · rw [if_pos h0] at hcont
                obtain ⟨hlt, hcont'⟩ := hcont
                obtain ⟨lofp, hdu⟩ := dataUnit_line (cfg := cfg) f ⟨id, p⟩ l (encUnits us) hu h0
                simp only at hdu
                rw [hdu, lineRes_room _ _ _ (by omega), if_neg (by omega)]
                simp only []
                obtain ⟨f', h1, h2⟩ := ih ls' { storeFrame f lofp l with lastDuId := id } fuel hrest
                  (by simpa [storeFrame, pushLine, addrFrame] using hcont')
                  (by simp [storeFrame, pushLine, addrFrame]; omega) hfuel'
                refine ⟨f', h1, ?_⟩
                rw [h2]; simp [storeFrame, pushLine, addrFrame, ofLine]
                cases l.svc <;> rfl
              · rw [if_neg h0] at hcont
                have h0' : l.line = 0 := by omega
                obtain ⟨hfld, hcont'⟩ := hcont
                obtain ⟨hdu, hsvc⟩ := dataUnit_line_undef (cfg := cfg) f ⟨id, p⟩ l (encUnits us) hu h0'
                simp only at hdu hfld hcont'
                rw [hdu]
                unfold undefRes
                rw [if_neg (by omega)]
                have hn1 : ¬ (f.lastDuId ≠ 0 ∧ undefField (p.getD 0 0) ≠ f.lastField ∧ f.nDu = 0) := by
                  rintro ⟨_, hne, hz⟩
                  rcases hfld with he | ⟨hst, _⟩
                  · exact hne he
                  · simp only [decide_eq_true_eq] at hst; omega
                have hn2 : ¬ (f.lastDuId ≠ 0 ∧ undefField (p.getD 0 0) ≠ f.lastField
                    ∧ undefField (p.getD 0 0) < f.lastField) := by
                  rintro ⟨_, hne, hlt⟩
                  rcases hfld with he | ⟨_, hgt⟩
                  · exact hne he
                  · omega
                rw [if_neg hn1, if_neg hn2, if_neg (by omega)]
                simp only []
                obtain ⟨f', h1, h2⟩ := ih ls' { undefFrame f (p.getD 0 0) l.data with lastDuId := id } fuel hrest
                  (by simpa [undefFrame, pushLine] using hcont')
                  (by simp [undefFrame, pushLine]; omega) hfuel'
                refine ⟨f', h1, ?_⟩
                rw [h2]
                obtain ⟨svc, line, data⟩ := l
                simp only at hsvc h0'
                subst hsvc; subst h0'
                simp [undefFrame, pushLine, ofLine]


/-! ## `demux_pes_packet_frame` on a packet with undefined lines -/

/-- first packet after a frame start (`new_frame`): the frame is reset, takes the packet's PTS and all lines - the ones
with line number 0 too -; nothing is delivered -/
theorem pesPacketFrame_first_cont (se : Bool) (fs : FS) (us : List DataUnit) (ls : List Line)
    (hnf : fs.newFrame = true) (hne : us ≠ []) (hul : unitsLines us = some ls) (hc : ContUnits false 0 0 us)
    (hcap : ls.length ≤ 64) :
    ∃ fs', pesPacketFrame cfg 3 true se fs (encUnits us) = (fs', [], .done, [])
      ∧ fs'.newFrame = false ∧ fs'.frame.lines = ls.map ofLine ∧ fs'.framePts = fs.packetPts
      ∧ fs'.packetPts = fs.packetPts := by
  obtain ⟨u, us', rfl⟩ := List.exists_cons_of_ne_nil hne
  have h2 := length_encUnits_cons u us'
  rw [pesPacketFrame]
  simp only [hnf, if_true]
  rw [extract_eq _ _ h2]
  obtain ⟨f', h1, hl⟩ := extractLoop_stores_cont (cfg := cfg) (u :: us') ls (resetFrame fs.frame) _ hul
    (by simpa [resetFrame] using hc) (by simpa [resetFrame] using hcap) (Nat.lt_succ_self _)
  rw [h1]
  exact ⟨_, rfl, rfl, by simpa [resetFrame] using hl, rfl, rfl⟩

/-- a packet that begins with a line unit whose (defined) line does not lie beyond the last line of the frame under
assembly: that frame is delivered with its PTS, then the new frame takes the packet's PTS and all its lines -/
theorem pesPacketFrame_next_cont (se : Bool) (fs : FS) (u : DataUnit) (us : List DataUnit) (l : Line) (ls : List Line)
    (hnf : fs.newFrame = false) (hn : fs.frame.nDu = 0)
    (hfull : cfg.lateOverflow = true ∨ fs.frame.lines.length < 64)
    (hu : unitLine u = some (some l)) (h0 : l.line ≠ 0) (hle : l.line ≤ fs.frame.lastFrameLine)
    (hul : unitsLines (u :: us) = some ls) (hc : ContUnits false 0 0 (u :: us)) (hcap : ls.length ≤ 64) :
    ∃ fs', pesPacketFrame cfg 3 true se fs (encUnits (u :: us)) = (fs', [⟨fs.framePts, fs.frame.lines⟩], .done, [])
      ∧ fs'.newFrame = false ∧ fs'.frame.lines = ls.map ofLine ∧ fs'.framePts = fs.packetPts
      ∧ fs'.packetPts = fs.packetPts := by
  have h2 := length_encUnits_cons u us
  have hfirst : extractLoop cfg ((encUnits (u :: us)).length + 1) fs.frame (encUnits (u :: us))
      = (fs.frame, .newFrame, encUnits (u :: us)) := by
    obtain ⟨id, p⟩ := u
    have hp : p ≠ [] := by
      intro h; subst h; exact unitLine_nil_payload id l hu
    have hpl : 0 < p.length := List.length_pos_iff.mpr hp
    simp only [encUnits]
    rw [extractLoop_step _ fs.frame id p.length _ (by simp only [List.length_cons, List.length_append]; omega)
      (by simp only [List.length_cons, List.length_append]; omega)]
    obtain ⟨lofp, hdu⟩ := dataUnit_line (cfg := cfg) fs.frame ⟨id, p⟩ l (encUnits us) hu h0
    simp only at hdu
    rw [hdu, lineRes_newFrame _ _ _ hfull hle hn]
  rw [pesPacketFrame]
  simp only [hnf, Bool.false_eq_true, if_false]
  rw [extract_eq _ _ h2, hfirst]
  simp only [Bool.not_true, Bool.false_eq_true, if_false]
  rw [pesPacketFrame]
  simp only [if_true]
  rw [extract_eq _ _ h2]
  obtain ⟨f', h3, hl⟩ := extractLoop_stores_cont (cfg := cfg) (u :: us) ls (resetFrame fs.frame) _ hul
    (by simpa [resetFrame] using hc) (by simpa [resetFrame] using hcap) (Nat.lt_succ_self _)
  rw [h3]
  exact ⟨_, rfl, rfl, by simpa [resetFrame] using hl, rfl, rfl⟩

end Zvbi.C06UD
