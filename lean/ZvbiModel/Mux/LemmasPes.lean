import ZvbiModel.Mux.LemmasFrame
/-!
# Lemmas: PTS, PES header, `generate_pes_packet`
-/
namespace Zvbi.Mux
open Zvbi.Mux.EnParse Zvbi.Hamm

theorem and14 (x : Nat) : x &&& 0xE = x % 16 / 2 * 2 := by
  have h1 : x &&& 0xE ≤ 0xE := Nat.and_le_right
  have h2 : (x &&& 0xE) % 2 ^ 4 = x % 2 ^ 4 &&& 0xE % 2 ^ 4 := Nat.and_mod_two_pow
  have h3 : ∀ y < 16, y &&& 14 = y / 2 * 2 := by decide
  have h4 : (x &&& 0xE) % 16 = x &&& 0xE := Nat.mod_eq_of_lt (by omega)
  have h5 := h3 (x % 16) (Nat.mod_lt _ (by decide))
  simp only [Nat.reducePow, Nat.reduceMod] at h2
  omega

theorem or1 (x : Nat) : (x ||| 1) % 256 = x % 256 / 2 * 2 + 1 := by
  have h2 : (x ||| 1) % 2 ^ 8 = x % 2 ^ 8 ||| 1 % 2 ^ 8 := Nat.or_mod_two_pow
  have h3 : ∀ y < 256, y ||| 1 = y / 2 * 2 + 1 := by decide +kernel
  have h5 := h3 (x % 256) (Nat.mod_lt _ (by decide))
  simp only [Nat.reducePow, Nat.reduceMod] at h2
  omega

/-- the 33-bit PTS written by `encode_timestamp` reads back (ISO 13818-1 layout with marker bits) -/
theorem parsePts_encodeTimestamp (u : Nat) : parsePts (encodeTimestamp u) = some (u % 2 ^ 33) := by
  unfold encodeTimestamp parsePts
  simp only [Nat.shiftRight_eq_div_pow, and14, or1, Nat.reducePow]
  have hc : (33 + u / 536870912 % 16 / 2 * 2) % 256 / 16 = 2 ∧ (33 + u / 536870912 % 16 / 2 * 2) % 256 % 2 = 1
      ∧ (u % 4294967296 / 16384 % 256 / 2 * 2 + 1) % 2 = 1 ∧ (u % 4294967296 * 2 + 1) % 256 % 2 = 1 := by omega
  rw [if_pos hc]
  congr 1
  omega

theorem length_encodeTimestamp (u : Nat) : (encodeTimestamp u).length = 5 := rfl

theorem length_pesHeader (size pts did : Nat) : (pesHeader size pts did).length = 46 := by
  simp only [pesHeader, List.length_append, List.length_cons, List.length_nil, length_encodeTimestamp,
    List.length_replicate]

theorem pesHeader_shape (size pts did : Nat) (body : Bytes) :
    pesHeader size pts did ++ body
      = 0x00 :: 0x00 :: 0x01 :: 0xBD :: ((size - 6) / 256 % 256) :: ((size - 6) % 256) :: 0x84 :: 0x80 :: 0x24 ::
          (encodeTimestamp pts ++ (List.replicate 31 0xFF ++ (did % 256) :: body)) := by
  simp only [pesHeader, PRIVATE_STREAM_1, Nat.shiftRight_eq_div_pow, Nat.reducePow, List.cons_append,
    List.nil_append, List.append_assoc]

/-- reading a packet assembled from header fields, a 5-byte PTS field `T`, 31 stuffing bytes `S`,
    the data_identifier and a data unit region -/
theorem parsePes_build (lenHi lenLo did v : Nat) (T S body : Bytes) (us : List DataUnit) (ls : List Line)
    (hT : T.length = 5) (hS : S = List.replicate 31 0xFF) (hv : parsePts T = some v)
    (hlen : lenHi * 256 + lenLo + 6 = 46 + body.length) (h184 : (46 + body.length) % 184 = 0)
    (hdid : validDataId did = true) (hbody : parseUnits body = some us)
    (hfix : ¬ (did ≤ 0x1F ∧ ¬ (us.all (fun u => u.payload.length == 0x2C)) = true))
    (hl : unitsLines us = some ls) :
    parsePes (0x00 :: 0x00 :: 0x01 :: 0xBD :: lenHi :: lenLo :: 0x84 :: 0x80 :: 0x24 :: (T ++ (S ++ did :: body)))
      = some ⟨v, did, 46 + body.length, ls⟩ := by
  have hSl : S.length = 31 := by rw [hS]; simp
  have htot : (0x00 :: 0x00 :: 0x01 :: 0xBD :: lenHi :: lenLo :: 0x84 :: 0x80 :: 0x24 :: (T ++ (S ++ did :: body))).length
      = 46 + body.length := by
    simp only [List.length_cons, List.length_append, hT, hSl]; omega
  have h1 : (T ++ (S ++ did :: body)).take 5 = T := by
    rw [List.take_append_of_le_length (by omega), List.take_of_length_le (by omega)]
  have h2 : ((T ++ (S ++ did :: body)).drop 5).take 31 = S := by
    rw [List.drop_append_of_le_length (by omega), List.drop_of_length_le (by omega), List.nil_append,
      List.take_append_of_le_length (by omega), List.take_of_length_le (by omega)]
  have h3 : (T ++ (S ++ did :: body)).drop 36 = did :: body := by
    rw [← List.append_assoc, List.drop_append_of_le_length (by simp [hT, hSl]),
      List.drop_of_length_le (by simp [hT, hSl]), List.nil_append]
  have h4 : (T ++ (S ++ did :: body)).drop 37 = body := by
    have : 37 = 36 + 1 := rfl
    rw [this, ← List.drop_drop, h3]; rfl
  have h5 : (T ++ (S ++ did :: body)).length = 37 + body.length := by
    simp only [List.length_cons, List.length_append, hT, hSl]; omega
  unfold parsePes
  simp only [htot, h1, h2, h3, h4, h5, hv, hbody, hl, hdid]
  rw [if_neg (by omega), if_neg (by decide), if_neg (by simp [hS]; omega)]
  simp only [List.getD_cons_zero]
  rw [if_neg hfix]

/-! ## the data unit region as a whole -/

theorem unitsLines_stuffing (fixed : Bool) (st : List DataUnit) (h : ∀ u ∈ st, IsStuffing fixed u) :
    unitsLines st = some [] := by
  induction st with
  | nil => rfl
  | cons u st ih =>
    have hu := h u (List.mem_cons_self ..)
    have hul : unitLine u = some none := by
      unfold unitLine; simp [hu.1, hu.2.1]
    simp [unitsLines, hul, ih (fun x hx => h x (List.mem_cons_of_mem _ hx))]

theorem unitsLines_append_stuffing (fixed : Bool) (a st : List DataUnit) (h : ∀ u ∈ st, IsStuffing fixed u) :
    unitsLines (a ++ st) = unitsLines a := by
  induction a with
  | nil =>
    rw [List.nil_append, unitsLines_stuffing fixed st h]; rfl
  | cons u a ih => simp only [List.cons_append, unitsLines, ih]

theorem unitsLines_padLast (us : List DataUnit) (h : ∀ u ∈ us, ∃ l, unitLine u = some (some l)) :
    unitsLines (padLast us) = unitsLines us := by
  induction us with
  | nil => rfl
  | cons u us ih =>
    cases us with
    | nil =>
      obtain ⟨l, hl⟩ := h u (List.mem_cons_self ..)
      simp only [padLast, unitsLines, hl, unitLine_pad u l hl]
    | cons v vs =>
      have := ih (fun x hx => h x (List.mem_cons_of_mem _ hx))
      simp only [padLast, unitsLines] at this ⊢
      rw [this]

theorem lastSize_le (us : List DataUnit) (n : Nat) (h : ∀ u ∈ us, u.payload.length + 2 ≤ n) : lastSize us ≤ n := by
  induction us with
  | nil => simp [lastSize]
  | cons u us ih =>
    rw [lastSize_cons]
    split
    · exact h u (List.mem_cons_self ..)
    · exact ih (fun x hx => h x (List.mem_cons_of_mem _ hx))

theorem length_encUnits_fixed (us : List DataUnit) (h : ∀ u ∈ us, u.payload.length = 0x2C) :
    (encUnits us).length % 46 = 0 := by
  induction us with
  | nil => rfl
  | cons u us ih =>
    have := ih (fun x hx => h x (List.mem_cons_of_mem _ hx))
    have hu := h u (List.mem_cons_self ..)
    simp only [encUnits, List.length_cons, List.length_append, hu]
    omega

theorem all_len_append (a b : List DataUnit) :
    (a ++ b).all (fun u => u.payload.length == 0x2C) = (a.all (fun u => u.payload.length == 0x2C) && b.all (fun u => u.payload.length == 0x2C)) :=
  List.all_append

/-! ## generate_pes_packet -/

/-- no raw-line requests in the frame (`raw == NULL` use of the multiplexer) -/
def NoRaw (lines : List Sliced) : Prop := ∀ s ∈ lines, s.id ≠ SL_VBI625

theorem scanSeg_noraw (lines : List Sliced) (h : NoRaw lines) :
    ∀ ll, (∃ off, scanSeg ll lines = .error off) ∨ (∃ ll', scanSeg ll lines = .ok (lines, ll', [])) := by
  induction lines with
  | nil => intro ll; exact Or.inr ⟨ll, rfl⟩
  | cons s rest ih =>
    intro ll
    have hs : s.id ≠ SL_VBI625 := h s (List.mem_cons_self ..)
    have hr : NoRaw rest := fun x hx => h x (List.mem_cons_of_mem _ hx)
    rw [scanSeg]
    by_cases ho : s.line > 0 ∧ s.line ≤ ll
    · rw [if_pos ho]; exact Or.inl ⟨_, rfl⟩
    · rw [if_neg ho]
      simp only [hs, ne_eq, not_false_eq_true, if_true]
      rcases ih hr (if s.line > 0 then s.line else ll) with ⟨off, ho⟩ | ⟨ll', ho⟩
      · rw [ho]; exact Or.inl ⟨_, rfl⟩
      · rw [ho]; exact Or.inr ⟨_, rfl⟩

/-- with no raw-line requests the loop of `generate_pes_packet` is one `insert_sliced_data_units` call -/
theorem segStart_zero : segStart 0 = 0 := by unfold segStart; split <;> rfl

theorem segStart_le (l : Nat) : segStart l ≤ l := by unfold segStart; split <;> omega

theorem genLoop_noraw (mask : Nat) (fixed : Bool) (fuel pLeft : Nat) (lines : List Sliced) (h : NoRaw lines)
    (out : Bytes) (lastDu : Nat)
    (hg : genLoop mask fixed (fuel + 1) pLeft 0 lines = .ok (out, lastDu, [])) :
    (insertSliced mask fixed pLeft 0 0 lines).err = none ∧ (insertSliced mask fixed pLeft 0 0 lines).rest = []
    ∧ out = (insertSliced mask fixed pLeft 0 0 lines).out ∧ lastDu = (insertSliced mask fixed pLeft 0 0 lines).lastDu := by
  rw [genLoop, segStart_zero] at hg
  rcases scanSeg_noraw lines h 0 with ⟨off, hs⟩ | ⟨ll', hs⟩
  · rw [hs] at hg; simp at hg
  · rw [hs] at hg
    simp only [] at hg
    cases he : (insertSliced mask fixed pLeft 0 0 lines).err with
    | some e => rw [he] at hg; simp at hg
    | none =>
      rw [he] at hg
      simp only [] at hg
      by_cases hr : (insertSliced mask fixed pLeft 0 0 lines).rest ≠ []
      · rw [if_pos hr] at hg
        simp only [List.append_nil, Except.ok.injEq, Prod.mk.injEq] at hg
        exact absurd hg.2.2 hr
      · rw [if_neg hr] at hg
        simp only [Except.ok.injEq, Prod.mk.injEq, and_true] at hg
        exact ⟨rfl, by simpa using hr, hg.1.symm, hg.2.symm⟩

structure CfgOK (cfg : Cfg) : Prop where
  min184 : 184 ≤ cfg.minSize
  minmax : cfg.minSize ≤ cfg.maxSize
  max : cfg.maxSize ≤ 65504
  minMod : cfg.minSize % 184 = 0
  maxMod : cfg.maxSize % 184 = 0
  did : validDataId cfg.dataId = true

theorem fixed_iff (d : Nat) (hd : validDataId d = true) : fixedLengthFormat d = true ↔ d ≤ 0x1F := by
  unfold fixedLengthFormat validDataId at *
  simp only [Bool.or_eq_true, Bool.and_eq_true, decide_eq_true_eq, beq_iff_eq] at *
  omega

/-- main lemma: an accepted frame becomes one well-formed PES packet carrying exactly the selected lines -/
theorem generatePes_ok (cfg : Cfg) (hc : CfgOK cfg) (lines : List Sliced) (mask pts : Nat)
    (hwf : ∀ s ∈ lines, Sliced.WF s) (hnr : NoRaw lines) (pes : Bytes)
    (hg : generatePes cfg lines mask pts = .ok (pes, [])) :
    parsePes pes = some ⟨pts % 2 ^ 33, cfg.dataId, pes.length, sent mask lines⟩
    ∧ pes.length % 184 = 0 ∧ cfg.minSize ≤ pes.length ∧ pes.length ≤ cfg.maxSize
    ∧ (∀ s ∈ lines, s.id &&& mask ≠ 0 → Permitted s) := by
  unfold generatePes at hg
  simp only [] at hg
  cases hgl : genLoop mask (fixedLengthFormat cfg.dataId) (lines.length + 1) (cfg.maxSize - 46) 0 lines with
  | error e => rw [hgl] at hg; simp at hg
  | ok r =>
    obtain ⟨out, lastDu, left⟩ := r
    rw [hgl] at hg
    simp only [] at hg
    -- the stuffing call
    generalize hpl : (if 46 + out.length < cfg.minSize then cfg.minSize - (46 + out.length)
        else if (46 + out.length) % 184 > 0 then 184 - (46 + out.length) % 184 else 0) = pLeft at hg
    cases hst : encodeStuffing out pLeft lastDu (fixedLengthFormat cfg.dataId) with
    | error e => rw [hst] at hg; simp at hg
    | ok body =>
      rw [hst] at hg
      simp only [Except.ok.injEq, Prod.mk.injEq] at hg
      obtain ⟨hpes, hleft⟩ := hg
      subst hleft
      obtain ⟨he, hr, hout, hdu⟩ := genLoop_noraw mask _ _ _ lines hnr out lastDu hgl
      obtain ⟨us, h1, h2, h3, h4, h5, h6⟩ := insertSliced_ok mask (fixedLengthFormat cfg.dataId) lines hwf _ 0 0 he hr
      rw [← hout] at h1 h5
      rw [← hdu] at h4
      have hlast : lastDu = lastSize us := by
        rw [h4]; split
        · rename_i hnil; rw [hnil]; rfl
        · rfl
      have hmin := hc.min184; have hmm := hc.minmax; have hmax := hc.max
      have hminMod := hc.minMod; have hmaxMod := hc.maxMod
      -- preconditions of encode_stuffing hold
      have hfixmod : fixedLengthFormat cfg.dataId = true → pLeft % 46 = 0 := by
        intro hf
        have := length_encUnits_fixed us (fun u hu => (h3 u hu).2.2.1 hf)
        rw [← h1] at this
        rw [← hpl]; split
        · omega
        · split <;> omega
      have hone : fixedLengthFormat cfg.dataId = false → pLeft = 1 → us ≠ [] ∧ lastSize us ≤ 256 := by
        intro _ hp1
        constructor
        · intro hnil
          rw [hnil] at h1
          simp only [encUnits] at h1
          rw [h1] at hpl
          simp only [List.length_nil] at hpl
          rw [← hpl] at hp1
          split at hp1 <;> omega
        · exact Nat.le_trans (lastSize_le us 46 (fun u hu => (h3 u hu).2.1)) (by omega)
      obtain ⟨us₁, st, hes, hlen, hus₁, hstf⟩ := encodeStuffing_spec us pLeft _ hfixmod hone
      rw [h1, hlast, hes] at hst
      injection hst with hbody
      -- sizes
      have hsz : pes.length = 46 + out.length + pLeft := by
        rw [← hpes, ← hbody, List.length_append, hlen, ← h1, length_pesHeader]
        omega
      have hroom : out.length ≤ cfg.maxSize - 46 := h5
      have h184 : pes.length % 184 = 0 := by
        rw [hsz, ← hpl]; split
        · omega
        · split <;> omega
      have hlo : cfg.minSize ≤ pes.length := by
        rw [hsz, ← hpl]; split <;> omega
      have hhi : pes.length ≤ cfg.maxSize := by
        rw [hsz, ← hpl]; split
        · omega
        · split <;> omega
      refine ⟨?_, h184, hlo, hhi, h6⟩
      -- the lines carried
      have hlines : unitsLines (us₁ ++ st) = some (sent mask lines) := by
        rw [unitsLines_append_stuffing _ us₁ st hstf]
        rcases hus₁ with rfl | ⟨_, rfl⟩
        · exact h2
        · rw [unitsLines_padLast us (fun u hu => (h3 u hu).2.2.2)]; exact h2
      have hfixall : ¬ (cfg.dataId ≤ 0x1F ∧ ¬ ((us₁ ++ st).all (fun u => u.payload.length == 0x2C)) = true) := by
        intro ⟨hle, hnall⟩
        have hf : fixedLengthFormat cfg.dataId = true := (fixed_iff _ hc.did).2 hle
        apply hnall
        rw [List.all_eq_true]
        intro u hu
        rw [beq_iff_eq]
        rcases List.mem_append.mp hu with hu | hu
        · rcases hus₁ with rfl | ⟨hp1, _⟩
          · exact (h3 u hu).2.2.1 hf
          · have := hfixmod hf; omega
        · exact (hstf u hu).2.2 hf
      have hlt : cfg.dataId < 256 := by
        have := hc.did
        unfold validDataId at this
        simp only [Bool.or_eq_true, Bool.and_eq_true, decide_eq_true_eq] at this
        omega
      have hb : 46 + body.length = 46 + out.length + pLeft := by
        rw [← hbody, hlen, ← h1]; omega
      rw [hsz] at h184 hhi
      rw [hsz, ← hpes, pesHeader_shape, Nat.mod_eq_of_lt hlt]
      rw [← hb] at h184 hhi ⊢
      exact parsePes_build _ _ cfg.dataId (pts % 2 ^ 33) (encodeTimestamp pts) (List.replicate 31 0xFF) body
        (us₁ ++ st) (sent mask lines) (length_encodeTimestamp pts) rfl (parsePts_encodeTimestamp pts)
        (by omega) h184 hc.did (by rw [← hbody]; exact parseUnits_encUnits _) hfixall hlines

end Zvbi.Mux
