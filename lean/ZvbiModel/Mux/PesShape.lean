import ZvbiModel.Mux.RawModel
/-!
# The source shape of the size computation of `generate_pes_packet` (round 6)

`Mux.generatePesR` dispatches on `Zvbi.Gen.muxBumpBothPaths`, which translate/gen_muxflags.py reads from
src/dvb_mux.c on every run: where the test `1 == p_left && last_du_size >= 257` sits.  All lemmas about
`generatePesR` go through `generatePesR_both`; it is true only when the test follows both size branches (the
shape of /repo).  On a tree where the test was moved into the round-up branch this file - and with it every
theorem module of C06 that speaks about raw lines - stops building, while the model driver keeps following the
source (`generatePesRRound`), so that the correspondence check and the oracle still run and supply the failing
input (`Props/C06Fill.lean minfill_moved_counterexample`).
-/
namespace Zvbi.Mux

/-- the tree under test applies the 257 test after both the fill-up and the round-up branch -/
theorem bump_both_paths : Zvbi.Gen.muxBumpBothPaths = true := rfl

theorem generatePesR_both (keep : Bool) (cfg : Cfg) (st : RawSt) (lines : List Sliced) (mask : Nat) (raw : Option Bytes)
    (sp : Option Sp) (pts : Nat) :
    generatePesR keep cfg st lines mask raw sp pts = generatePesRBoth keep cfg st lines mask raw sp pts := rfl

end Zvbi.Mux
