import ZvbiModel.Mux.JoinFrames
import ZvbiModel.Demux.TsJoinAll
/-!
# TS mode histories as sequences of PES packets  (C06 side of `mux_demux_roundtrip_ts`)

Every history of a TS multiplexer (frames accepted or rejected, configuration changes), from any
continuity counter: the concatenated callback output is `Demux.tsAll` of one accepted PES packet per
accepted frame - the same packets (`generatePes` does not look at the PID) the PES-mode theorems speak
about - with the counter running on modulo 2^32 across frames.
-/
namespace Zvbi.Mux
open Zvbi.Mux.EnParse
open Zvbi.Demux (tsAll)

/-- TS mode, any history from any counter: output = TS packets of the accepted frames' PES packets -/
theorem ts_history_packets (ops : List Op) (hops : ∀ op ∈ ops, Op.OK op) :
    ∀ m, CfgOK m.cfg → m.cfg.pid ≠ 0 →
      ∃ pks : List (Bytes × Pes), (∀ x ∈ pks, parsePes x.1 = some x.2) ∧ (∀ x ∈ pks, ∀ b ∈ x.1, b < 256)
        ∧ (run m ops).2.1 = (tsAll m.cfg.pid m.cc (pks.map Prod.fst)).flatten
        ∧ pks.map (fun x => Pes.content x.2) = (run m ops).2.2 := by
  induction ops with
  | nil => intro m _ _; exact ⟨[], by simp, by simp, rfl, rfl⟩
  | cons op ops ih =>
    intro m hcfg hp
    obtain ⟨hc1, hp1⟩ := step_cfg m op hcfg
    have hok := hops op (List.mem_cons_self ..)
    have ih' := ih (fun o ho => hops o (List.mem_cons_of_mem _ ho)) (step m op).1 hc1 (by rw [hp1]; exact hp)
    rw [hp1] at ih'
    simp only [run]
    cases op with
    | dataId d =>
      have hcc : (step m (Op.dataId d)).1.cc = m.cc := by simp only [step, setDataIdentifier]; split <;> rfl
      rw [hcc] at ih'
      obtain ⟨pks, h1, h2, h3, h4⟩ := ih'
      exact ⟨pks, h1, h2, by simpa [step] using h3, by simpa [step] using h4⟩
    | size a b =>
      have hcc : (step m (Op.size a b)).1.cc = m.cc := rfl
      rw [hcc] at ih'
      obtain ⟨pks, h1, h2, h3, h4⟩ := ih'
      exact ⟨pks, h1, h2, by simpa [step] using h3, by simpa [step] using h4⟩
    | frame lines mask pts =>
      cases hacc : (feed m lines mask pts 0).2.ok with
      | false =>
        obtain ⟨hcalls, hst⟩ := feed_rejected m lines mask pts hacc
        have hcc : (step m (Op.frame lines mask pts)).1.cc = m.cc := by
          simp only [step, hst, dropPending_cc]
        rw [hcc] at ih'
        obtain ⟨pks, h1, h2, h3, h4⟩ := ih'
        refine ⟨pks, h1, h2, ?_, ?_⟩
        · simp only [step, FeedOut.allBytes, hcalls, List.filterMap_nil, List.flatten_nil, List.nil_append]
          simpa [step] using h3
        · simp only [step, hacc, Bool.false_eq_true, if_false, List.nil_append]; simpa [step] using h4
      | true =>
        obtain ⟨pes, hg, _, hts⟩ := feed_accepted m lines mask pts hacc
        obtain ⟨hcalls, hst⟩ := hts hp
        obtain ⟨hparse, _⟩ := generatePes_ok m.cfg hcfg lines mask pts hok.1 hok.2 pes hg
        have hlt := generatePes_lt m.cfg lines mask pts hok.1 hok.2 pes hg
        obtain ⟨_, h184, hpos⟩ := parsePes_sizefield pes _ hparse
        have hpk := tsPackets_eq m.cfg.pid m.cc pes h184 hpos
        have hnp : (tsPackets m.cfg.pid m.cc pes).length = pes.length / 184 := by rw [hpk, tsLoop_length]
        have hcc : (step m (Op.frame lines mask pts)).1.cc = (m.cc + pes.length / 184) % 2 ^ 32 := by
          simp only [step, hst, hnp]
        rw [hcc] at ih'
        obtain ⟨pks, h1, h2, h3, h4⟩ := ih'
        refine ⟨(pes, (⟨pts % 2 ^ 33, m.cfg.dataId, pes.length, sent mask lines⟩ : Pes)) :: pks, ?_, ?_, ?_, ?_⟩
        · intro x hx
          rcases List.mem_cons.mp hx with rfl | hx
          · exact hparse
          · exact h1 x hx
        · intro x hx
          rcases List.mem_cons.mp hx with rfl | hx
          · exact hlt
          · exact h2 x hx
        · simp only [step, FeedOut.allBytes, hcalls, filterMap_id_map_some, List.map_cons, tsAll, List.flatten_append]
          simp only [step] at h3
          rw [h3, hpk]
        · simp only [step, hacc, if_true, List.map_cons, List.cons_append, List.nil_append]
          simp only [step] at h4
          rw [h4]
          rfl

/-- a byte string cut into 188-byte pieces -/
def chop188 : Nat → Bytes → List Bytes
  | 0, _ => []
  | n + 1, b => if b = [] then [] else b.take 188 :: chop188 n (b.drop 188)

/-- a byte string has one cut into 188-byte pieces -/
theorem flatten_188_inj : ∀ (a b : List Bytes), (∀ x ∈ a, x.length = 188) → (∀ x ∈ b, x.length = 188) →
    a.flatten = b.flatten → a = b := by
  intro a
  induction a with
  | nil =>
    intro b _ hb h
    cases b with
    | nil => rfl
    | cons y b =>
      have := congrArg List.length h
      simp only [List.flatten_nil, List.length_nil, List.flatten_cons, List.length_append, hb y (List.mem_cons_self ..)] at this
      omega
  | cons x a ih =>
    intro b ha hb h
    cases b with
    | nil =>
      have := congrArg List.length h
      simp only [List.flatten_nil, List.length_nil, List.flatten_cons, List.length_append, ha x (List.mem_cons_self ..)] at this
      omega
    | cons y b =>
      simp only [List.flatten_cons] at h
      obtain ⟨h1, h2⟩ := List.append_inj h (by rw [ha x (List.mem_cons_self ..), hb y (List.mem_cons_self ..)])
      rw [h1, ih b (fun z hz => ha z (List.mem_cons_of_mem _ hz)) (fun z hz => hb z (List.mem_cons_of_mem _ hz)) h2]

end Zvbi.Mux
