import ZvbiModel.Mux.LemmasPes
import ZvbiModel.Mux.RawSpec
/-!
# Lemmas: raw data units (`insert_raw_data_units`) against the reader of EN 301 775 4.9
-/
namespace Zvbi.Mux
open Zvbi.Mux.EnParse Zvbi.Mux.RawSpec

/-- the data unit `rawUnit` writes: flags/parity/line byte `b2`, position, count, samples, padding -/
def rawDU (fixed : Bool) (b2 fpp : Nat) (px : Bytes) : DataUnit :=
  ⟨0xC6, [b2, fpp / 256 % 256, fpp % 256, px.length] ++ px
          ++ (if fixed then List.replicate (40 - px.length) 0xFF else [])⟩

def flagByte (par : Bool) (l : Nat) (first last : Bool) : Nat :=
  (if par then 0x20 else 0) + l + (if first then 0x80 else 0) + (if last then 0x40 else 0)

theorem rawUnit_eq (fixed par : Bool) (l : Nat) (first last : Bool) (fpp : Nat) (px : Bytes)
    (hl : l ≤ 23) (hn : px.length ≤ 251) (hf : fixed = true → px.length ≤ 40) :
    rawUnit fixed ((if par then 0x20 else 0) + l) first last fpp px
      = encUnits [rawDU fixed (flagByte par l first last) fpp px] := by
  have hb : flagByte par l first last < 256 := by
    unfold flagByte; cases par <;> cases first <;> cases last <;> simp <;> omega
  have hb2 : ((if par = true then 0x20 else 0) + l + (if first = true then 0x80 else 0) + (if last = true then 0x40 else 0)) % 256
      = flagByte par l first last := by
    rw [show ((if par = true then 0x20 else 0) + l + (if first = true then 0x80 else 0) + (if last = true then 0x40 else 0))
      = flagByte par l first last from rfl]
    exact Nat.mod_eq_of_lt hb
  cases fixed with
  | true =>
    have h40 := hf rfl
    simp only [rawUnit, rawDU, encUnits_single, if_true, DU_MONO, Nat.shiftRight_eq_div_pow]
    rw [hb2]
    have e1 : px.length % 256 = px.length := Nat.mod_eq_of_lt (by omega)
    simp only [List.length_append, List.length_cons, List.length_nil, List.length_replicate, e1,
      List.cons_append, List.nil_append, List.append_assoc]
    have e2 : px.length + (40 - px.length) + 1 + 1 + 1 + 1 = 44 := by omega
    rw [e2]
  | false =>
    simp only [rawUnit, rawDU, encUnits_single, DU_MONO, Nat.shiftRight_eq_div_pow, Bool.false_eq_true, if_false]
    rw [hb2]
    have e1 : px.length % 256 = px.length := Nat.mod_eq_of_lt (by omega)
    have e3 : (4 + px.length) % 256 = 4 + px.length := Nat.mod_eq_of_lt (by omega)
    simp only [List.length_append, List.length_cons, List.length_nil, e1, e3, List.cons_append, List.nil_append,
      List.append_nil]
    have e2 : px.length + 1 + 1 + 1 + 1 = 4 + px.length := by omega
    rw [e2]

theorem rawDU_len (fixed : Bool) (b2 fpp : Nat) (px : Bytes) (hf : fixed = true → px.length ≤ 40) :
    (rawDU fixed b2 fpp px).payload.length = if fixed then 0x2C else 4 + px.length := by
  cases fixed with
  | true =>
    have := hf rfl
    simp only [rawDU, if_true, List.length_append, List.length_cons, List.length_nil, List.length_replicate]
    omega
  | false =>
    simp only [rawDU, Bool.false_eq_true, if_false, List.length_append, List.length_cons, List.length_nil]
    omega

/-- the reader's view of a unit written by `rawUnit` -/
theorem unitSeg_rawDU (fixed par first last : Bool) (l fpp : Nat) (px : Bytes)
    (hl7 : 7 ≤ l) (hl : l ≤ 23) (hn1 : 1 ≤ px.length) (hn : px.length ≤ 251) (hpos : fpp + px.length ≤ 720) :
    unitSeg (rawDU fixed (flagByte par l first last) fpp px)
      = some ⟨first, last, if par then l else 313 + l, fpp, px⟩ := by
  have hpay : (rawDU fixed (flagByte par l first last) fpp px).payload
      = flagByte par l first last :: (fpp / 256 % 256) :: (fpp % 256) :: px.length ::
        (px ++ (if fixed then List.replicate (40 - px.length) 0xFF else [])) := by
    simp [rawDU]
  have hpad : allFF (if fixed then List.replicate (40 - px.length) 0xFF else []) = true := by
    cases fixed
    · simp [allFF]
    · simp [allFF]
  unfold unitSeg
  simp only [hpay, List.length_cons, List.length_append, List.getD_cons_zero, List.getD_cons_succ]
  have hb : flagByte par l first last % 32 = l := by
    unfold flagByte; cases par <;> cases first <;> cases last <;> simp <;> omega
  have hF : (flagByte par l first last / 128 % 2 == 1) = first := by
    unfold flagByte; cases par <;> cases first <;> cases last <;> simp <;> omega
  have hL : (flagByte par l first last / 64 % 2 == 1) = last := by
    unfold flagByte; cases par <;> cases first <;> cases last <;> simp <;> omega
  have hP : (flagByte par l first last / 32 % 2 = 1) ↔ par = true := by
    unfold flagByte; cases par <;> cases first <;> cases last <;> simp <;> omega
  have hposv : fpp / 256 % 256 * 256 + fpp % 256 = fpp := by omega
  rw [if_neg (by omega)]
  have hdrop : (flagByte par l first last :: (fpp / 256 % 256) :: (fpp % 256) :: px.length ::
        (px ++ (if fixed then List.replicate (40 - px.length) 0xFF else []))).drop (4 + px.length)
      = (if fixed then List.replicate (40 - px.length) 0xFF else []) := by
    rw [show 4 + px.length = px.length + 4 by omega]
    simp only [List.drop_succ_cons]
    rw [List.drop_append_of_le_length (Nat.le_refl _), List.drop_length, List.nil_append]
  rw [hdrop, hpad, hb, hposv]
  rw [if_neg (by intro h; rcases h with h | h <;> first | omega | exact h rfl), if_neg (by omega), if_neg (by omega)]
  simp only [List.drop_succ_cons, List.drop_zero]
  rw [List.take_append_of_le_length (Nat.le_refl _), List.take_length, hF, hL]
  by_cases hp : par = true
  · rw [if_pos (hP.2 hp), if_pos hp]
  · rw [if_neg (fun h => hp (hP.1 h)), if_neg hp]

/-- a trailing stuffing byte does not change what a raw data unit carries -/
theorem unitSeg_pad (u : DataUnit) (s : Seg) (h : unitSeg u = some s) :
    unitSeg ⟨u.id, u.payload ++ [0xFF]⟩ = some s := by
  obtain ⟨id, p⟩ := u
  unfold unitSeg at h ⊢
  simp only at h ⊢
  by_cases h4 : p.length < 4
  · rw [if_pos h4] at h; exact absurd h (by simp)
  · rw [if_neg h4] at h
    have h4' : ¬ (p ++ [0xFF]).length < 4 := by rw [List.length_append]; simp only [List.length_cons, List.length_nil]; omega
    rw [if_neg h4']
    by_cases hc : p.length < 4 + p.getD 3 0 ∨ ¬ allFF (p.drop (4 + p.getD 3 0)) = true
    · rw [if_pos hc] at h; exact absurd h (by simp)
    · rw [if_neg hc] at h
      have hN : 4 + p.getD 3 0 ≤ p.length := by omega
      obtain ⟨o1, o2, o3⟩ := obs_pad p (4 + p.getD 3 0) hN
      rw [o2 0 (by omega), o2 1 (by omega), o2 2 (by omega), o2 3 (by omega), o1, o3 4 (p.getD 3 0) (by omega)]
      have hc' : ¬ ((p ++ [0xFF]).length < 4 + p.getD 3 0 ∨ ¬ allFF (p.drop (4 + p.getD 3 0)) = true) := by
        rw [List.length_append]; simp only [List.length_cons, List.length_nil]
        intro hx; apply hc
        rcases hx with hx | hx
        · omega
        · exact Or.inr hx
      rw [if_neg hc']
      exact h

/-! ## items -/

theorem unitItem_pad (u : DataUnit) (i : Item) (hi : i ≠ .stuffing) (h : unitItem u = some i) :
    unitItem ⟨u.id, u.payload ++ [0xFF]⟩ = some i := by
  unfold unitItem at h ⊢
  by_cases hid : u.id = 0xC6
  · simp only [hid, if_true] at h ⊢
    cases hs : unitSeg u with
    | none => rw [hs] at h; simp at h
    | some s =>
      rw [hs] at h
      have := unitSeg_pad u s hs
      rw [hid] at this
      rw [this]; exact h
  · simp only [hid, if_false] at h ⊢
    cases hl : unitLine u with
    | none => rw [hl] at h; simp at h
    | some o =>
      cases o with
      | none => rw [hl] at h; simp at h; exact absurd h.symm hi
      | some l =>
        rw [hl] at h
        rw [unitLine_pad u l hl]; exact h

/-- what a well-formed payload data unit (sliced line or raw segment) looks like -/
def GoodItemUnit (fixed : Bool) (u : DataUnit) : Prop :=
  u.payload.length + 2 ≤ 257 ∧ (fixed = true → u.payload.length = 0x2C)
  ∧ ∃ i, i ≠ Item.stuffing ∧ unitItem u = some i

theorem unitsItems_append (a b : List DataUnit) (ia ib : List Item) (ha : unitsItems a = some ia)
    (hb : unitsItems b = some ib) : unitsItems (a ++ b) = some (ia ++ ib) := by
  induction a generalizing ia with
  | nil => simp [unitsItems] at ha; subst ha; simpa using hb
  | cons u a ih =>
    simp only [unitsItems] at ha
    cases hu : unitItem u with
    | none => rw [hu] at ha; simp at ha
    | some i =>
      cases hr : unitsItems a with
      | none => rw [hu, hr] at ha; simp at ha
      | some is =>
        rw [hu, hr] at ha
        simp only [Option.some.injEq] at ha
        subst ha
        simp only [List.cons_append, unitsItems, hu, ih is hr]

theorem lastSize_append (a b : List DataUnit) : lastSize (a ++ b) = if b = [] then lastSize a else lastSize b := by
  induction a with
  | nil => cases b <;> simp [lastSize]
  | cons u a ih =>
    by_cases hb : b = []
    · subst hb; simp
    · rw [if_neg hb] at ih ⊢
      rw [List.cons_append, lastSize_cons, if_neg (by simp [hb]), ih]

/-- a unit of a sliced line is a `line` item -/
theorem unitItem_of_unitLine (u : DataUnit) (l : Line) (h : unitLine u = some (some l)) :
    unitItem u = some (.line l) := by
  have hid : u.id ≠ 0xC6 := by
    intro hid
    unfold unitLine at h
    rw [hid] at h
    simp at h
  unfold unitItem
  rw [if_neg hid, h]

theorem unitsItems_of_lines (fixed : Bool) (us : List DataUnit) (ls : List Line) (hg : ∀ u ∈ us, GoodUnit fixed u)
    (h : unitsLines us = some ls) : unitsItems us = some (ls.map Item.line) := by
  induction us generalizing ls with
  | nil => simp [unitsLines] at h; subst h; rfl
  | cons u us ih =>
    obtain ⟨_, _, _, l, hl⟩ := hg u (List.mem_cons_self ..)
    simp only [unitsLines, hl] at h
    cases hr : unitsLines us with
    | none => rw [hr] at h; simp at h
    | some ls' =>
      rw [hr] at h
      simp only [Option.some.injEq] at h
      subst h
      simp only [unitsItems, unitItem_of_unitLine u l hl, ih ls' (fun x hx => hg x (List.mem_cons_of_mem _ hx)) hr,
        List.map_cons]

theorem goodItem_of_goodUnit (fixed : Bool) (u : DataUnit) (h : GoodUnit fixed u) : GoodItemUnit fixed u := by
  obtain ⟨_, h2, h3, l, hl⟩ := h
  exact ⟨by omega, h3, .line l, by simp, unitItem_of_unitLine u l hl⟩

theorem assembleGo_lines (ls : List Line) (tail : List Item) :
    assembleGo none (ls.map Item.line ++ tail) = (assembleGo none tail).map (ls.map Out.line ++ ·) := by
  induction ls with
  | nil => simp
  | cons l ls ih =>
    simp only [List.map_cons, List.cons_append, assembleGo, ih, Option.map_map]
    rfl

/-! ## insert_raw_data_units: the loop -/

/-- the state of the reader between two segments of the line being sent: nothing yet, or the
    samples `pre` received so far -/
def curOf (line pos0 : Nat) (pre : Bytes) : Option RawLine :=
  if pre = [] then none else some ⟨line, pos0, pre⟩

theorem assembleGo_seg (line pos0 fpp : Nat) (pre px : Bytes) (last : Bool) (tail : List Item)
    (hf : fpp = pos0 + pre.length) (hpx : px ≠ []) :
    assembleGo (curOf line pos0 pre) (Item.seg ⟨pre.length == 0, last, line, fpp, px⟩ :: tail)
      = if last then (assembleGo none tail).map (Out.raw ⟨line, pos0, pre ++ px⟩ :: ·)
        else assembleGo (curOf line pos0 (pre ++ px)) tail := by
  have hne : pre ++ px ≠ [] := by simp [hpx]
  by_cases hp : pre = []
  · subst hp
    simp only [curOf, if_true, List.length_nil, Nat.add_zero] at hf ⊢
    subst hf
    simp only [assembleGo, List.nil_append, BEq.rfl, not_true_eq_false, if_false]
    cases last <;> simp [hpx]
  · have hl : (pre.length == 0) = false := by
      cases pre with
      | nil => exact absurd rfl hp
      | cons a b => rfl
    simp only [curOf, if_neg hp, if_neg hne, hl]
    simp only [assembleGo, Bool.false_eq_true, false_or]
    rw [if_neg (by simp [hf])]

/-- main loop lemma: when all samples were converted the stored bytes are raw data units whose
    segments, read in order, complete the line `pre ++ r` -/
theorem insertRawLoop_ok (fixed par : Bool) (l nTotal pos0 : Nat) (hl7 : 7 ≤ l) (hl : l ≤ 23)
    (hend : pos0 + nTotal ≤ 720) :
    ∀ (fuel pLeft fpp lastDu : Nat) (r pre : Bytes),
      r.length ≤ fuel → pre.length + r.length = nTotal → fpp = pos0 + pre.length →
      (insertRawLoop fixed true ((if par then 0x20 else 0) + l) nTotal fuel pLeft fpp lastDu r).rest = [] →
      ∃ us is,
        (insertRawLoop fixed true ((if par then 0x20 else 0) + l) nTotal fuel pLeft fpp lastDu r).out = encUnits us
        ∧ (∀ u ∈ us, GoodItemUnit fixed u)
        ∧ (insertRawLoop fixed true ((if par then 0x20 else 0) + l) nTotal fuel pLeft fpp lastDu r).lastDu
            = (if us = [] then lastDu else lastSize us)
        ∧ (encUnits us).length ≤ pLeft
        ∧ (insertRawLoop fixed true ((if par then 0x20 else 0) + l) nTotal fuel pLeft fpp lastDu r).pLeft
            = pLeft - (encUnits us).length
        ∧ (us ≠ [] → lastSize us ≥ 257 → pLeft - (encUnits us).length ≠ 1)
        ∧ (r ≠ [] → us ≠ [])
        ∧ unitsItems us = some is
        ∧ ∀ tail, r ≠ [] →
            assembleGo (curOf (if par then l else 313 + l) pos0 pre) (is ++ tail)
              = (assembleGo none tail).map (Out.raw ⟨if par then l else 313 + l, pos0, pre ++ r⟩ :: ·) := by
  intro fuel
  induction fuel with
  | zero =>
    intro pLeft fpp lastDu r pre hfu _ _ _
    have hr : r = [] := List.eq_nil_of_length_eq_zero (by omega)
    subst hr
    exact ⟨[], [], by simp [insertRawLoop, encUnits], by simp, by simp [insertRawLoop], by simp [encUnits],
      by simp [insertRawLoop, encUnits], by simp, by simp, rfl, by simp⟩
  | succ fuel ih =>
    intro pLeft fpp lastDu r pre hfu hsum hfpp
    rw [insertRawLoop]
    by_cases hr0 : r.length = 0
    · rw [if_pos hr0]
      have hr : r = [] := List.eq_nil_of_length_eq_zero hr0
      intro _
      exact ⟨[], [], by simp [encUnits], by simp, by simp, by simp [encUnits], by simp [encUnits], by simp,
        by simp [hr], rfl, by simp [hr]⟩
    · rw [if_neg hr0]
      simp only []
      by_cases hmin : (if fixed = true then 46 else 7) > pLeft
      · rw [if_pos hmin]
        intro hrest
        simp only at hrest
        exact absurd (by rw [hrest]; rfl) hr0
      · rw [if_neg hmin]
        -- the number of samples of this unit
        simp only [↓reduceIte]
        generalize hn : (if fixed = true then min r.length (0x2C - 4)
            else if 2 + 4 + 251 + 1 = pLeft then min r.length 250
            else min (min r.length 251) (pLeft - 6)) = n
        have hn1 : 1 ≤ n := by
          rw [← hn]; cases fixed
          · simp only [Bool.false_eq_true, if_false] at hmin ⊢
            split <;> omega
          · simp only [if_true]; omega
        have hnr : n ≤ r.length := by
          rw [← hn]; cases fixed
          · simp only [Bool.false_eq_true, if_false]; split <;> omega
          · simp only [if_true]; omega
        have hn251 : n ≤ 251 := by
          rw [← hn]; cases fixed
          · simp only [Bool.false_eq_true, if_false]; split <;> omega
          · simp only [if_true]; omega
        have hn40 : fixed = true → n ≤ 40 := by
          intro hf; rw [← hn, hf]; simp only [if_true]; omega
        have hdu : (if fixed = true then 46 else 6 + n) ≤ pLeft := by
          cases fixed
          · simp only [Bool.false_eq_true, if_false] at hmin hn ⊢
            rw [← hn]; split <;> omega
          · simpa using hmin
        have hcrit : (if fixed = true then 46 else 6 + n) = 257 → pLeft - 257 ≠ 1 := by
          intro h257
          cases fixed
          · simp only [Bool.false_eq_true, if_false] at h257 hn
            have : n = 251 := by omega
            rw [this] at hn
            split at hn <;> omega
          · simp at h257
        intro hrest
        have hlen_take : (r.take n).length = n := by rw [List.length_take]; omega
        have hlen_drop : (r.drop n).length = r.length - n := List.length_drop
        obtain ⟨us, is, h1, h2, h3, h4, h5, h6, h7, h8, h9⟩ :=
          ih (pLeft - (if fixed = true then 46 else 6 + n)) (fpp + n) (if fixed = true then 46 else 6 + n) (r.drop n)
            (pre ++ r.take n) (by rw [hlen_drop]; omega)
            (by rw [List.length_append, hlen_take, hlen_drop]; omega)
            (by rw [List.length_append, hlen_take]; omega) hrest
        -- this unit
        have hfirst : (r.length == nTotal) = (pre.length == 0) := by
          rw [Bool.eq_iff_iff]; simp only [beq_iff_eq]; omega
        have hu := rawUnit_eq fixed par l (pre.length == 0) (r.length == n) fpp (r.take n) hl (by omega)
          (by intro hf; rw [hlen_take]; exact hn40 hf)
        have hseg := unitSeg_rawDU fixed par (pre.length == 0) (r.length == n) l fpp (r.take n) hl7 hl (by omega)
          (by omega) (by rw [hlen_take]; omega)
        have hpay := rawDU_len fixed (flagByte par l (pre.length == 0) (r.length == n)) fpp (r.take n)
          (by intro hf; rw [hlen_take]; exact hn40 hf)
        rw [hlen_take] at hpay
        let u := rawDU fixed (flagByte par l (pre.length == 0) (r.length == n)) fpp (r.take n)
        have huitem : unitItem u = some (.seg ⟨pre.length == 0, r.length == n, if par then l else 313 + l, fpp, r.take n⟩) := by
          unfold unitItem
          have : u.id = 0xC6 := rfl
          rw [if_pos this]
          show (unitSeg (rawDU fixed _ fpp (r.take n))).map Item.seg = _
          rw [hseg]; rfl
        have hsize : (encUnits [u]).length = (if fixed = true then 46 else 6 + n) := by
          rw [encUnits_single]
          show (u.id :: u.payload.length :: u.payload).length = _
          simp only [List.length_cons]
          show (rawDU fixed _ fpp (r.take n)).payload.length + 1 + 1 = _
          rw [hpay]; cases fixed <;> simp <;> omega
        have hlastu : u.payload.length + 2 = (if fixed = true then 46 else 6 + n) := by
          show (rawDU fixed _ fpp (r.take n)).payload.length + 2 = _
          rw [hpay]; cases fixed <;> simp <;> omega
        refine ⟨u :: us, Item.seg ⟨pre.length == 0, r.length == n, if par then l else 313 + l, fpp, r.take n⟩ :: is,
          ?_, ?_, ?_, ?_, ?_, ?_, ?_, ?_, ?_⟩
        · rw [hfirst, hu, h1]
          show encUnits [u] ++ encUnits us = encUnits ([u] ++ us)
          rw [encUnits_append]
        · intro x hx
          rcases List.mem_cons.mp hx with rfl | hx
          · refine ⟨?_, ?_, _, by simp, huitem⟩
            · rw [hlastu]; cases fixed <;> simp <;> omega
            · intro hf
              show (rawDU fixed _ fpp (r.take n)).payload.length = _
              rw [hpay, hf]; rfl
          · exact h2 x hx
        · rw [h3, lastSize_cons]
          by_cases hus : us = []
          · simp [hus, hlastu]
          · simp [hus]
        · show (encUnits ([u] ++ us)).length ≤ pLeft
          rw [encUnits_append, List.length_append, hsize]
          omega
        · rw [h5]
          show _ = pLeft - (encUnits ([u] ++ us)).length
          rw [encUnits_append, List.length_append, hsize]
          omega
        · intro _ h257
          show pLeft - (encUnits ([u] ++ us)).length ≠ 1
          rw [encUnits_append, List.length_append, hsize]
          rw [lastSize_cons] at h257
          by_cases hus : us = []
          · rw [if_pos hus, hlastu] at h257
            subst hus
            simp only [encUnits, List.length_nil, Nat.add_zero]
            cases fixed
            · simp only [Bool.false_eq_true, if_false] at h257 hn hdu ⊢
              have h251 : n = 251 := by omega
              rw [h251] at hn
              split at hn <;> omega
            · simp at h257
          · rw [if_neg hus] at h257
            have := h6 hus h257
            omega
        · intro _; simp
        · simp only [unitsItems, huitem, h8]
        · intro tail _
          rw [List.cons_append, assembleGo_seg _ _ _ _ _ _ _ hfpp (by
            intro hnil
            have : (r.take n).length = 0 := by rw [hnil]; rfl
            omega)]
          by_cases hlast : r.length = n
          · have hd : r.drop n = [] := List.eq_nil_of_length_eq_zero (by rw [hlen_drop]; omega)
            have ht : r.take n = r := List.take_of_length_le (by omega)
            have hus : us = [] := by
              by_cases hus : us = []
              · exact hus
              · exfalso
                -- nothing is stored for an empty rest
                have := h1
                rw [hd] at this
                cases fuel with
                | zero => simp [insertRawLoop] at this; cases us with
                  | nil => exact hus rfl
                  | cons a b => simp [encUnits] at this
                | succ f => simp [insertRawLoop] at this; cases us with
                  | nil => exact hus rfl
                  | cons a b => simp [encUnits] at this
            subst hus
            simp only [unitsItems, Option.some.injEq] at h8
            subst h8
            simp [hlast, ht]
          · have hd : r.drop n ≠ [] := by
              intro hnil
              have : (r.drop n).length = 0 := by rw [hnil]; rfl
              rw [hlen_drop] at this; omega
            have := h9 tail hd
            simp only [hlast, beq_iff_eq, if_false, Bool.false_eq_true]
            rw [this, List.append_assoc, List.take_append_drop]

end Zvbi.Mux
