import ZvbiModel.Mux.PesShape
import ZvbiModel.Mux.RawGen
import ZvbiModel.Mux.LemmasFeed
/-!
# Lemmas: the PES packet of a frame with raw lines, `vbi_dvb_mux_feed` with `raw` / `sp`
-/
namespace Zvbi.Mux
open Zvbi.Mux.EnParse Zvbi.Mux.RawSpec

/-- `last_du_size` matters to `encode_stuffing` only when exactly one byte is left -/
theorem encodeStuffing_lastDu (prev : Bytes) (pLeft a b : Nat) (fixed : Bool) (h : pLeft ≠ 1) :
    encodeStuffing prev pLeft a fixed = encodeStuffing prev pLeft b fixed := by
  unfold encodeStuffing
  simp only []
  by_cases hk : pLeft / (if fixed = true then 46 else 257) > 0
  · simp only [hk, if_true]
  · by_cases hr : pLeft % (if fixed = true then 46 else 257) = 0
    · simp only [hr, if_true]
    · rw [if_neg hr, if_neg hr]
      cases fixed
      · simp only [Bool.false_eq_true, if_false] at hk hr ⊢
        have : pLeft % 257 ≥ 2 := by have := Nat.div_add_mod pLeft 257; omega
        rw [if_pos this, if_pos this]
      · simp

theorem encodeStuffing_one_zero (prev : Bytes) :
    encodeStuffing prev 1 0 false = .error (.assertFail "dvb_mux.c:167 last_du_size >= 2") := by
  unfold encodeStuffing
  simp

/-! ## items of the region after `encode_stuffing` -/

theorem unitsItems_padLast (fixed : Bool) (us : List DataUnit) (is : List Item) (hg : ∀ u ∈ us, GoodItemUnit fixed u)
    (h : unitsItems us = some is) : unitsItems (padLast us) = some is := by
  induction us generalizing is with
  | nil => exact h
  | cons u us ih =>
    simp only [unitsItems] at h
    cases hu : unitItem u with
    | none => rw [hu] at h; simp at h
    | some i =>
      cases hr : unitsItems us with
      | none => rw [hu, hr] at h; simp at h
      | some is' =>
        rw [hu, hr] at h
        simp only [Option.some.injEq] at h
        subst h
        cases us with
        | nil =>
          obtain ⟨_, _, i', hi', hui⟩ := hg u (List.mem_cons_self ..)
          rw [hu] at hui
          simp only [Option.some.injEq] at hui
          subst hui
          simp only [unitsItems, Option.some.injEq] at hr
          subst hr
          simp only [padLast, unitsItems, unitItem_pad u i hi' hu]
        | cons v vs =>
          have := ih is' (fun x hx => hg x (List.mem_cons_of_mem _ hx)) hr
          simp only [padLast, unitsItems, hu, this]

theorem unitItem_stuffing (fixed : Bool) (u : DataUnit) (h : IsStuffing fixed u) : unitItem u = some .stuffing := by
  have hul : unitLine u = some none := by
    unfold unitLine; simp [h.1, h.2.1]
  unfold unitItem
  rw [if_neg (by rw [h.1]; decide), hul]

theorem unitsItems_stuffing (fixed : Bool) (st : List DataUnit) (h : ∀ u ∈ st, IsStuffing fixed u) :
    unitsItems st = some (List.replicate st.length .stuffing) := by
  induction st with
  | nil => rfl
  | cons u st ih =>
    simp only [unitsItems, unitItem_stuffing fixed u (h u (List.mem_cons_self ..)),
      ih (fun x hx => h x (List.mem_cons_of_mem _ hx)), List.length_cons, List.replicate_succ]

theorem assembleGo_stuffing (n : Nat) : assembleGo none (List.replicate n .stuffing) = some [] := by
  induction n with
  | zero => rfl
  | succ n ih => simp only [List.replicate_succ, assembleGo, ih]

theorem length_encUnits_fixed' (us : List DataUnit) (h : ∀ u ∈ us, u.payload.length = 0x2C) :
    (encUnits us).length % 46 = 0 := length_encUnits_fixed us h

/-! ## the packet -/

theorem parsePesR_build (lenHi lenLo did v : Nat) (T S body : Bytes) (us : List DataUnit) (os : List Out)
    (hT : T.length = 5) (hS : S = List.replicate 31 0xFF) (hv : parsePts T = some v)
    (hlen : lenHi * 256 + lenLo + 6 = 46 + body.length) (h184 : (46 + body.length) % 184 = 0)
    (hdid : validDataId did = true) (hbody : parseUnits body = some us)
    (hfix : ¬ (did ≤ 0x1F ∧ ¬ (us.all (fun u => u.payload.length == 0x2C)) = true))
    (hl : (unitsItems us).bind assemble = some os) :
    parsePesR (0x00 :: 0x00 :: 0x01 :: 0xBD :: lenHi :: lenLo :: 0x84 :: 0x80 :: 0x24 :: (T ++ (S ++ did :: body)))
      = some ⟨v, did, 46 + body.length, us, os⟩ := by
  have hSl : S.length = 31 := by rw [hS]; simp
  have htot : (0x00 :: 0x00 :: 0x01 :: 0xBD :: lenHi :: lenLo :: 0x84 :: 0x80 :: 0x24 :: (T ++ (S ++ did :: body))).length
      = 46 + body.length := by
    simp only [List.length_cons, List.length_append, hT, hSl]; omega
  have h1 : (T ++ (S ++ did :: body)).take 5 = T := by
    rw [List.take_append_of_le_length (by omega), List.take_of_length_le (by omega)]
  have h2 : ((T ++ (S ++ did :: body)).drop 5).take 31 = S := by
    rw [List.drop_append_of_le_length (by omega), List.drop_of_length_le (by omega), List.nil_append,
      List.take_append_of_le_length (by omega), List.take_of_length_le (by omega)]
  have h3 : (T ++ (S ++ did :: body)).drop 36 = did :: body := by
    rw [← List.append_assoc, List.drop_append_of_le_length (by simp [hT, hSl]),
      List.drop_of_length_le (by simp [hT, hSl]), List.nil_append]
  have h4 : (T ++ (S ++ did :: body)).drop 37 = body := by
    have : 37 = 36 + 1 := rfl
    rw [this, ← List.drop_drop, h3]; rfl
  have h5 : (T ++ (S ++ did :: body)).length = 37 + body.length := by
    simp only [List.length_cons, List.length_append, hT, hSl]; omega
  unfold parsePesR
  simp only [htot, h1, h2, h3, h4, h5, hv, hbody, hl]
  rw [if_neg (by omega), if_neg (by decide), if_neg (by simp [hS, hdid])]
  simp only [List.getD_cons_zero]
  rw [if_neg hfix]

/-- main lemma: an accepted frame (sliced and raw lines) becomes one well-formed PES packet whose
    data units, read by `RawSpec`, reassemble to exactly the selected lines; both source shapes -/
theorem generatePesR_ok (keep : Bool) (cfg : Cfg) (hc : CfgOK cfg) (st : RawSt) (hst : st.left = 0)
    (lines : List Sliced) (mask : Nat) (raw : Option Bytes) (sp : Option Sp)
    (hsp : ∀ sp', sp = some sp' → validSp sp' = true) (pts : Nat)
    (hwf : ∀ s ∈ lines, Sliced.WF s) (pes : Bytes) (st' : RawSt)
    (hg : generatePesR keep cfg st lines mask raw sp pts = .ok (pes, [], st')) :
    (∃ us, parsePesR pes = some ⟨pts % 2 ^ 33, cfg.dataId, pes.length, us,
        sentR mask (raw.getD []) (sp.getD dfltSp) lines⟩ ∧ ∀ u ∈ us, u.id ≠ 0xFF → u.payload.length ≤ 255)
    ∧ pes.length % 184 = 0 ∧ cfg.minSize ≤ pes.length ∧ pes.length ≤ cfg.maxSize
    ∧ (∀ s ∈ lines, s.id &&& mask ≠ 0 → PermittedAny raw sp s) ∧ st'.left = 0 := by
  rw [generatePesR_both] at hg
  unfold generatePesRBoth at hg
  have hnl : ¬ st.left > 0 := by omega
  simp only [hnl, if_false] at hg
  cases hgl : genLoopR keep mask (fixedLengthFormat cfg.dataId) raw sp (lines.length + 1) (cfg.maxSize - 46) 0 0 st lines with
  | error e => rw [hgl] at hg; simp at hg
  | ok r =>
    obtain ⟨out, lastDu, left, st''⟩ := r
    rw [hgl] at hg
    simp only [] at hg
    generalize hpl0 : (if 46 + out.length < cfg.minSize then cfg.minSize - (46 + out.length)
        else if (46 + out.length) % 184 > 0 then 184 - (46 + out.length) % 184 else 0) = pLeft0 at hg
    generalize hpl : (if keep = true ∧ pLeft0 = 1 ∧ lastDu ≥ 257 then pLeft0 + 184 else pLeft0) = pLeft at hg
    cases hstf : encodeStuffing out pLeft lastDu (fixedLengthFormat cfg.dataId) with
    | error e => rw [hstf] at hg; simp at hg
    | ok body =>
      rw [hstf] at hg
      simp only [Except.ok.injEq, Prod.mk.injEq] at hg
      obtain ⟨hpes, hleft, hst'⟩ := hg
      subst hleft hst'
      obtain ⟨us, is, H⟩ := genLoopR_ok keep mask _ raw sp hsp _ _ _ _ _ _ _ _ _ hwf hst hgl
      have h1 := H.enc
      have hmin := hc.min184; have hmm := hc.minmax; have hmax := hc.max
      have hminMod := hc.minMod; have hmaxMod := hc.maxMod
      have hroom : out.length ≤ cfg.maxSize - 46 := by rw [h1]; exact H.room
      -- fixed-length format: the data so far is a multiple of 46, so is what is left
      have hfixlen : fixedLengthFormat cfg.dataId = true → out.length % 46 = 0 := by
        intro hf
        rw [h1]
        exact length_encUnits_fixed us (fun u hu => (H.good u hu).2.1 hf)
      have hp0fix : fixedLengthFormat cfg.dataId = true → pLeft0 % 46 = 0 ∧ pLeft0 ≠ 1 := by
        intro hf
        have := hfixlen hf
        rw [← hpl0]
        constructor
        · split
          · omega
          · split <;> omega
        · split
          · omega
          · split <;> omega
      have hfixmod : fixedLengthFormat cfg.dataId = true → pLeft % 46 = 0 := by
        intro hf
        obtain ⟨h46, hne1⟩ := hp0fix hf
        rw [← hpl, if_neg (by intro hx; exact hne1 hx.2.1)]
        exact h46
      have hunil : us = [] → pLeft0 ≠ 1 := by
        intro hnil
        rw [hnil] at h1
        simp only [encUnits] at h1
        rw [h1] at hpl0
        simp only [List.length_nil] at hpl0
        rw [← hpl0]
        split <;> omega
      -- the last_du_size handed to encode_stuffing is the size of the last unit whenever it matters
      have hdu := H.du
      have hstuff : ∃ us₁ st, body = encUnits (us₁ ++ st) ∧ (encUnits (us₁ ++ st)).length = (encUnits us).length + pLeft
          ∧ (us₁ = us ∨ (pLeft = 1 ∧ us₁ = padLast us)) ∧ (∀ u ∈ st, IsStuffing (fixedLengthFormat cfg.dataId) u)
          ∧ (pLeft = 1 → fixedLengthFormat cfg.dataId = false → us ≠ [] ∧ lastSize us ≤ 256) := by
        have hone : lastDu = lastSize us → fixedLengthFormat cfg.dataId = false → pLeft = 1 → us ≠ [] ∧ lastSize us ≤ 256 := by
          intro hls _ hp1
          have hp01 : pLeft0 = 1 := by
            rw [← hpl] at hp1
            split at hp1 <;> omega
          refine ⟨fun hnil => hunil hnil hp01, ?_⟩
          unfold DuOK at hdu
          cases keep
          · simp only [Bool.false_eq_true, if_false] at hdu
            rcases hdu with hdu | ⟨_, _, hle⟩
            · omega
            · omega
          · rw [← hpl] at hp1
            by_cases hbump : true = true ∧ pLeft0 = 1 ∧ lastDu ≥ 257
            · rw [if_pos hbump] at hp1; omega
            · have : ¬ lastDu ≥ 257 := fun hx => hbump ⟨rfl, hp01, hx⟩
              omega
        by_cases hls : lastDu = lastSize us
        · obtain ⟨us₁, st, hes, hlen, hus₁, hstf'⟩ :=
            encodeStuffing_spec us pLeft _ hfixmod (hone hls)
          rw [h1, hls, hes] at hstf
          injection hstf with hbody
          exact ⟨us₁, st, hbody.symm, hlen, hus₁, hstf', fun h1 hf => hone hls hf h1⟩
        · -- only the unchanged tree forgets the size (last call stored nothing): then it is 0
          have hzero : lastDu = 0 ∧ keep = false := by
            unfold DuOK at hdu
            cases keep
            · simp only [Bool.false_eq_true, if_false] at hdu
              rcases hdu with hdu | ⟨_, hdu, _⟩
              · exact ⟨hdu, rfl⟩
              · exact absurd hdu hls
            · simp only [if_true] at hdu
              by_cases hn : us = []
              · rw [if_pos hn] at hdu; rw [hn] at hls; exact absurd hdu hls
              · rw [if_neg hn] at hdu; exact absurd hdu hls
          obtain ⟨hz, hk⟩ := hzero
          subst hz hk
          have hpp : pLeft = pLeft0 := by rw [← hpl]; simp
          by_cases hp1 : pLeft = 1
          · exfalso
            have hnf : fixedLengthFormat cfg.dataId = false := by
              cases hf : fixedLengthFormat cfg.dataId
              · rfl
              · have := (hp0fix hf).2; omega
            rw [hp1, hnf, encodeStuffing_one_zero] at hstf
            cases hstf
          · rw [encodeStuffing_lastDu out pLeft 0 (lastSize us) _ hp1] at hstf
            obtain ⟨us₁, st, hes, hlen, hus₁, hstf'⟩ :=
              encodeStuffing_spec us pLeft _ hfixmod (fun _ h => absurd h hp1)
            rw [h1, hes] at hstf
            injection hstf with hbody
            exact ⟨us₁, st, hbody.symm, hlen, hus₁, hstf', fun h => absurd h hp1⟩
      obtain ⟨us₁, stf, hbody, hlen, hus₁, hstf', hpad⟩ := hstuff
      rw [← h1] at hlen
      -- sizes
      have hsz : pes.length = 46 + out.length + pLeft := by
        rw [← hpes, hbody, List.length_append, hlen, length_pesHeader]
        omega
      have hbump : pLeft = pLeft0 ∨ (pLeft = pLeft0 + 184 ∧ keep = true ∧ pLeft0 = 1 ∧ lastDu ≥ 257) := by
        rw [← hpl]
        by_cases hb : keep = true ∧ pLeft0 = 1 ∧ lastDu ≥ 257
        · rw [if_pos hb]; exact Or.inr ⟨rfl, hb⟩
        · rw [if_neg hb]; exact Or.inl rfl
      have h184 : pes.length % 184 = 0 := by
        rw [hsz]
        rcases hbump with hb | ⟨hb, _⟩ <;> rw [hb, ← hpl0] <;> split
        · omega
        · split <;> omega
        · omega
        · split <;> omega
      have hlo : cfg.minSize ≤ pes.length := by
        rw [hsz]
        rcases hbump with hb | ⟨hb, _⟩ <;> rw [hb, ← hpl0] <;> split <;> omega
      have hhi : pes.length ≤ cfg.maxSize := by
        rw [hsz]
        rcases hbump with hb | ⟨hb, hk, hp01, h257⟩
        · rw [hb, ← hpl0]; split
          · omega
          · split <;> omega
        · -- one more TS payload: there is room because a full raw unit never ends one byte before the end
          have hne : us ≠ [] := fun hnil => hunil hnil hp01
          have hls : lastSize us ≥ 257 := by
            unfold DuOK at hdu
            rw [hk] at hdu
            simp only [if_true, if_neg hne] at hdu
            omega
          have hcrit := H.crit hne hls
          rw [← h1] at hcrit
          rw [hb, hp01]
          rw [← hpl0] at hp01
          split at hp01
          · omega
          · split at hp01 <;> omega
      refine ⟨?_, h184, hlo, hhi, H.perm, H.left0⟩
      -- the content
      have hitems : unitsItems (us₁ ++ stf) = some (is ++ List.replicate stf.length .stuffing) := by
        apply unitsItems_append _ _ _ _ _ (unitsItems_stuffing _ stf hstf')
        rcases hus₁ with rfl | ⟨_, rfl⟩
        · exact H.items
        · exact unitsItems_padLast _ us is H.good H.items
      have hasm : (unitsItems (us₁ ++ stf)).bind assemble
          = some (sentR mask (raw.getD []) (sp.getD dfltSp) lines) := by
        rw [hitems]
        show assembleGo none (is ++ List.replicate stf.length .stuffing) = _
        rw [H.asm, assembleGo_stuffing]
        simp
      have hfixall : ¬ (cfg.dataId ≤ 0x1F ∧ ¬ ((us₁ ++ stf).all (fun u => u.payload.length == 0x2C)) = true) := by
        intro ⟨hle, hnall⟩
        have hf : fixedLengthFormat cfg.dataId = true := (fixed_iff _ hc.did).2 hle
        apply hnall
        rw [List.all_eq_true]
        intro u hu
        rw [beq_iff_eq]
        rcases List.mem_append.mp hu with hu | hu
        · rcases hus₁ with rfl | ⟨hp1, _⟩
          · exact (H.good u hu).2.1 hf
          · have := hfixmod hf; omega
        · exact (hstf' u hu).2.2 hf
      have hlt : cfg.dataId < 256 := by
        have := hc.did
        unfold validDataId at this
        simp only [Bool.or_eq_true, Bool.and_eq_true, decide_eq_true_eq] at this
        omega
      have hb : 46 + body.length = 46 + out.length + pLeft := by
        rw [hbody, hlen]; omega
      rw [hsz] at h184 hhi
      refine ⟨us₁ ++ stf, ?_, ?_⟩
      rotate_left
      · intro u hu hid
        rcases List.mem_append.mp hu with hu | hu
        · rcases hus₁ with rfl | ⟨hp1, rfl⟩
          · have := (H.good u hu).1; omega
          · have hnf : fixedLengthFormat cfg.dataId = false := by
              cases hf : fixedLengthFormat cfg.dataId
              · rfl
              · have := hfixmod hf; omega
            obtain ⟨hne, h256⟩ := hpad hp1 hnf
            obtain ⟨init, w, rfl⟩ := exists_concat us hne
            rw [padLast_concat] at hu
            rw [lastSize_concat] at h256
            rcases List.mem_append.mp hu with hu | hu
            · have := (H.good u (List.mem_append_left _ hu)).1; omega
            · rw [List.mem_singleton] at hu
              rw [hu]
              simp only [List.length_append, List.length_cons, List.length_nil]
              omega
        · exact absurd (hstf' u hu).1 hid
      rw [hsz, ← hpes, pesHeader_shape, Nat.mod_eq_of_lt hlt]
      rw [← hb] at h184 hhi ⊢
      exact parsePesR_build _ _ cfg.dataId (pts % 2 ^ 33) (encodeTimestamp pts) (List.replicate 31 0xFF) body
        (us₁ ++ stf) _ (length_encodeTimestamp pts) rfl (parsePts_encodeTimestamp pts)
        (by omega) h184 hc.did (by rw [hbody]; exact parseUnits_encUnits _) hfixall hasm

/-! ## vbi_dvb_mux_feed with raw / sp -/

theorem feedR_go_accepted (keep : Bool) (m : RMux) (lines : List Sliced) (mask : Nat) (raw : Option Bytes) (sp : Option Sp)
    (pts : Nat) (h : (feedR.go keep m lines mask raw sp pts).2.ok = true) :
    ∃ pes st', generatePesR keep m.mux.cfg m.raw lines mask raw sp pts = .ok (pes, [], st')
      ∧ (feedR.go keep m lines mask raw sp pts).2.abort = none
      ∧ (feedR.go keep m lines mask raw sp pts).1.raw = st'
      ∧ (m.mux.cfg.pid = 0 → (feedR.go keep m lines mask raw sp pts).2.calls = [some pes])
      ∧ (m.mux.cfg.pid ≠ 0 → (feedR.go keep m lines mask raw sp pts).2.calls
            = (tsPackets m.mux.cfg.pid m.mux.cc pes).map some) := by
  unfold feedR.go at h ⊢
  simp only [dropPending_cfg, dropPending_cc] at h ⊢
  cases hg : generatePesR keep m.mux.cfg m.raw lines mask raw sp pts with
  | error e => rw [hg] at h; simp at h
  | ok r =>
    obtain ⟨pes, left, st'⟩ := r
    rw [hg] at h
    simp only [] at h ⊢
    by_cases hl : left ≠ []
    · rw [if_pos hl] at h; simp at h
    · rw [if_neg hl] at h ⊢
      have hl' : left = [] := by simpa using hl
      subst hl'
      refine ⟨pes, st', rfl, ?_, ?_, ?_, ?_⟩
      · split <;> rfl
      · split <;> rfl
      · intro hp; rw [if_pos hp]
      · intro hp; rw [if_neg hp]

theorem feedR_accepted (keep : Bool) (m : RMux) (lines : List Sliced) (mask : Nat) (raw : Option Bytes) (sp : Option Sp)
    (pts : Nat) (h : (feedR keep m lines mask raw sp pts).2.ok = true) :
    (∀ sp', sp = some sp' → validSp sp' = true)
    ∧ ∃ pes st', generatePesR keep m.mux.cfg m.raw lines mask raw sp pts = .ok (pes, [], st')
      ∧ (feedR keep m lines mask raw sp pts).2.abort = none
      ∧ (feedR keep m lines mask raw sp pts).1.raw = st'
      ∧ (m.mux.cfg.pid = 0 → (feedR keep m lines mask raw sp pts).2.calls = [some pes])
      ∧ (m.mux.cfg.pid ≠ 0 → (feedR keep m lines mask raw sp pts).2.calls
            = (tsPackets m.mux.cfg.pid m.mux.cc pes).map some) := by
  unfold feedR at h ⊢
  cases sp with
  | none =>
    simp only [] at h ⊢
    exact ⟨(by intro sp' hx; cases hx), feedR_go_accepted keep m lines mask raw none pts h⟩
  | some sp' =>
    simp only [] at h ⊢
    by_cases hv : ¬ validSp sp' = true
    · rw [if_pos hv] at h; simp at h
    · rw [if_neg hv] at h ⊢
      refine ⟨?_, feedR_go_accepted keep m lines mask raw (some sp') pts h⟩
      intro sp'' hx
      injection hx with hx
      subst hx
      simpa using hv

/-- a frame that is not accepted produces no callback, and no raw line is left half sent -/
theorem feedR_rejected (keep : Bool) (m : RMux) (lines : List Sliced) (mask : Nat) (raw : Option Bytes) (sp : Option Sp)
    (pts : Nat) (h : (feedR keep m lines mask raw sp pts).2.ok = false) :
    (feedR keep m lines mask raw sp pts).2.calls = []
    ∧ ((feedR keep m lines mask raw sp pts).1.raw.left = 0 ∨ (feedR keep m lines mask raw sp pts).1 = m) := by
  have hgo : (feedR.go keep m lines mask raw sp pts).2.ok = false →
      (feedR.go keep m lines mask raw sp pts).2.calls = [] ∧ (feedR.go keep m lines mask raw sp pts).1.raw.left = 0 := by
    intro h
    unfold feedR.go at h ⊢
    simp only [] at h ⊢
    cases hg : generatePesR keep (dropPending m.mux).cfg m.raw lines mask raw sp pts with
    | error e => obtain ⟨e1, e2⟩ := e; simp
    | ok r =>
      obtain ⟨pes, left, st'⟩ := r
      rw [hg] at h
      simp only [] at h ⊢
      by_cases hl : left ≠ []
      · rw [if_pos hl]; simp
      · rw [if_neg hl] at h
        by_cases hp : (dropPending m.mux).cfg.pid = 0
        · rw [if_pos hp] at h; simp at h
        · rw [if_neg hp] at h; simp at h
  unfold feedR at h ⊢
  cases sp with
  | none => exact ⟨(hgo h).1, Or.inl (hgo h).2⟩
  | some sp' =>
    simp only [] at h ⊢
    by_cases hv : ¬ validSp sp' = true
    · rw [if_pos hv]; exact ⟨rfl, Or.inr rfl⟩
    · rw [if_neg hv] at h ⊢; exact ⟨(hgo h).1, Or.inl (hgo h).2⟩

/-- repaired shape: once the loop of `generate_pes_packet` has converted every line, the packet is
    always completed - `encode_stuffing` is called within its preconditions (no `hone`-like side
    condition is left to the caller) -/
theorem generatePesR_completes (cfg : Cfg) (hc : CfgOK cfg) (st : RawSt) (hst : st.left = 0)
    (lines : List Sliced) (mask : Nat) (raw : Option Bytes) (sp : Option Sp)
    (hsp : ∀ sp', sp = some sp' → validSp sp' = true) (pts : Nat)
    (hwf : ∀ s ∈ lines, Sliced.WF s) (out : Bytes) (du : Nat) (st' : RawSt)
    (hgl : genLoopR true mask (fixedLengthFormat cfg.dataId) raw sp (lines.length + 1) (cfg.maxSize - 46) 0 0 st lines
      = .ok (out, du, [], st')) :
    ∃ pes, generatePesR true cfg st lines mask raw sp pts = .ok (pes, [], st') := by
  obtain ⟨us, is, H⟩ := genLoopR_ok true mask _ raw sp hsp _ _ _ _ _ _ _ _ _ hwf hst hgl
  have h1 := H.enc
  have hmin := hc.min184; have hmm := hc.minmax; have hmax := hc.max
  have hminMod := hc.minMod; have hmaxMod := hc.maxMod
  rw [generatePesR_both]
  unfold generatePesRBoth
  have hnl : ¬ st.left > 0 := by omega
  simp only [hnl, if_false, hgl]
  generalize hpl0 : (if 46 + out.length < cfg.minSize then cfg.minSize - (46 + out.length)
      else if (46 + out.length) % 184 > 0 then 184 - (46 + out.length) % 184 else 0) = pLeft0
  generalize hpl : (if True ∧ pLeft0 = 1 ∧ du ≥ 257 then pLeft0 + 184 else pLeft0) = pLeft
  have hdu : du = if us = [] then 0 else lastSize us := by
    have := H.du; unfold DuOK at this; simpa using this
  have hfixlen : fixedLengthFormat cfg.dataId = true → out.length % 46 = 0 := by
    intro hf
    rw [h1]
    exact length_encUnits_fixed us (fun u hu => (H.good u hu).2.1 hf)
  have hp0fix : fixedLengthFormat cfg.dataId = true → pLeft0 % 46 = 0 ∧ pLeft0 ≠ 1 := by
    intro hf
    have := hfixlen hf
    rw [← hpl0]
    constructor
    · split
      · omega
      · split <;> omega
    · split
      · omega
      · split <;> omega
  have hfixmod : fixedLengthFormat cfg.dataId = true → pLeft % 46 = 0 := by
    intro hf
    obtain ⟨h46, hne1⟩ := hp0fix hf
    rw [← hpl, if_neg (by intro hx; exact hne1 hx.2.1)]
    exact h46
  have hunil : us = [] → pLeft0 ≠ 1 := by
    intro hnil
    rw [hnil] at h1
    simp only [encUnits] at h1
    rw [h1] at hpl0
    simp only [List.length_nil] at hpl0
    rw [← hpl0]
    split <;> omega
  have hls : du = lastSize us := by
    rw [hdu]; split
    · rename_i hn; rw [hn]; rfl
    · rfl
  have hone : fixedLengthFormat cfg.dataId = false → pLeft = 1 → us ≠ [] ∧ lastSize us ≤ 256 := by
    intro _ hp1
    have hp01 : pLeft0 = 1 := by
      rw [← hpl] at hp1
      split at hp1 <;> omega
    refine ⟨fun hnil => hunil hnil hp01, ?_⟩
    rw [← hpl] at hp1
    by_cases hbump : True ∧ pLeft0 = 1 ∧ du ≥ 257
    · rw [if_pos hbump] at hp1; omega
    · have : ¬ du ≥ 257 := fun hx => hbump ⟨trivial, hp01, hx⟩
      omega
  obtain ⟨us₁, stf, hes, _, _, _⟩ := encodeStuffing_spec us pLeft _ hfixmod hone
  rw [h1, hls, hes]
  exact ⟨_, rfl⟩

/-! ## what the reader guarantees about any monochrome data unit it accepts -/

theorem unitSeg_some (u : DataUnit) (s : Seg) (h : unitSeg u = some s) :
    1 ≤ s.px.length ∧ s.pos + s.px.length ≤ 720
    ∧ ((7 ≤ s.line ∧ s.line ≤ 23) ∨ (320 ≤ s.line ∧ s.line ≤ 336))
    ∧ s.px.length = u.payload.getD 3 0 ∧ 4 + s.px.length ≤ u.payload.length := by
  unfold unitSeg at h
  simp only [] at h
  split at h
  · cases h
  · split at h
    · cases h
    · split at h
      · cases h
      · split at h
        · cases h
        · rename_i h4 hlen hoff hn
          simp only [Option.some.injEq] at h
          subst h
          simp only [List.length_take, List.length_drop]
          have hN : 4 + u.payload.getD 3 0 ≤ u.payload.length := by omega
          refine ⟨by omega, by omega, ?_, by omega, by omega⟩
          split <;> omega

theorem unitsItems_mem_seg (us : List DataUnit) (is : List Item) (h : unitsItems us = some is) :
    ∀ u ∈ us, u.id = 0xC6 → ∃ s, unitSeg u = some s ∧ Item.seg s ∈ is := by
  induction us generalizing is with
  | nil => intro u hu; cases hu
  | cons v us ih =>
    simp only [unitsItems] at h
    cases hv : unitItem v with
    | none => rw [hv] at h; simp at h
    | some i =>
      cases hr : unitsItems us with
      | none => rw [hv, hr] at h; simp at h
      | some is' =>
        rw [hv, hr] at h
        simp only [Option.some.injEq] at h
        subst h
        intro u hu hid
        rcases List.mem_cons.mp hu with rfl | hu
        · unfold unitItem at hv
          rw [if_pos hid] at hv
          cases hs : unitSeg u with
          | none => rw [hs] at hv; simp at hv
          | some s =>
            rw [hs] at hv
            simp only [Option.map_some, Option.some.injEq] at hv
            exact ⟨s, rfl, by rw [← hv]; exact List.mem_cons_self ..⟩
        · obtain ⟨s, h1, h2⟩ := ih is' hr u hu hid
          exact ⟨s, h1, List.mem_cons_of_mem _ h2⟩

theorem parsePesR_units (pes : Bytes) (p : PesR) (h : parsePesR pes = some p) :
    (unitsItems p.units).bind assemble = some p.items
    ∧ (p.dataId ≤ 0x1F → ∀ u ∈ p.units, u.payload.length = 0x2C)
    ∧ ∃ body, parseUnits body = some p.units ∧ body = pes.drop 46 := by
  unfold parsePesR at h
  split at h
  · rename_i lenHi lenLo b6 b7 b8 rest
    simp only [] at h
    split at h
    · cases h
    · split at h
      · cases h
      · split at h
        · cases h
        · split at h
          · rename_i pts us hpts hus
            split at h
            · cases h
            · rename_i hfix
              split at h
              · rename_i os hos
                simp only [Option.some.injEq] at h
                subst h
                refine ⟨hos, ?_, _, hus, ?_⟩
                · intro hd u hu
                  have : us.all (fun u => u.payload.length == 0x2C) = true := by
                    cases hall : us.all (fun u => u.payload.length == 0x2C) with
                    | true => rfl
                    | false => exact absurd ⟨hd, by rw [hall]; simp⟩ hfix
                  rw [List.all_eq_true] at this
                  simpa using this u hu
                · simp only [List.drop_succ_cons]
              · cases h
          · cases h
  · cases h

theorem feedR_cfg (keep : Bool) (m : RMux) (lines : List Sliced) (mask : Nat) (raw : Option Bytes) (sp : Option Sp)
    (pts : Nat) : (feedR keep m lines mask raw sp pts).1.mux.cfg = m.mux.cfg := by
  have hgo : (feedR.go keep m lines mask raw sp pts).1.mux.cfg = m.mux.cfg := by
    unfold feedR.go
    simp only []
    split
    · exact dropPending_cfg _
    · split
      · exact dropPending_cfg _
      · split
        · exact dropPending_cfg _
        · exact dropPending_cfg _
  unfold feedR
  cases sp with
  | none => exact hgo
  | some sp' =>
    simp only []
    split
    · rfl
    · exact hgo

theorem mem_sentR_raw (mask : Nat) (raw : Bytes) (sp : Sp) (lines : List Sliced) (s : Sliced) (hs : s ∈ lines)
    (hid : s.id = SL_VBI625) (hm : s.id &&& mask ≠ 0) : Out.raw (rawLineOf raw sp s.line) ∈ sentR mask raw sp lines := by
  induction lines with
  | nil => cases hs
  | cons x rest ih =>
    simp only [sentR]
    rcases List.mem_cons.mp hs with rfl | hs
    · rw [if_neg hm, if_pos hid]; exact List.mem_cons_self ..
    · have := ih hs
      split
      · exact this
      · split
        · exact List.mem_cons_of_mem _ this
        · split
          · exact List.mem_cons_of_mem _ this
          · exact this

theorem sentR_raw_mem (mask : Nat) (raw : Bytes) (sp : Sp) (lines : List Sliced) (r : RawLine)
    (h : Out.raw r ∈ sentR mask raw sp lines) :
    ∃ s ∈ lines, s.id = SL_VBI625 ∧ s.id &&& mask ≠ 0 ∧ r = rawLineOf raw sp s.line := by
  induction lines with
  | nil => simp [sentR] at h
  | cons x rest ih =>
    simp only [sentR] at h
    have lift : (∃ s ∈ rest, s.id = SL_VBI625 ∧ s.id &&& mask ≠ 0 ∧ r = rawLineOf raw sp s.line) →
        ∃ s ∈ x :: rest, s.id = SL_VBI625 ∧ s.id &&& mask ≠ 0 ∧ r = rawLineOf raw sp s.line := by
      intro ⟨s, hs, h1⟩; exact ⟨s, List.mem_cons_of_mem _ hs, h1⟩
    split at h
    · exact lift (ih h)
    · rename_i hm
      split at h
      · rename_i hid
        rcases List.mem_cons.mp h with h | h
        · injection h with h
          exact ⟨x, List.mem_cons_self .., hid, hm, h⟩
        · exact lift (ih h)
      · split at h
        · rcases List.mem_cons.mp h with h | h
          · cases h
          · exact lift (ih h)
        · exact lift (ih h)

end Zvbi.Mux
