import ZvbiModel.Mux.LemmasFeed
/-!
# Lemmas: whole streams (histories of frames and configuration changes)
-/
namespace Zvbi.Mux
open Zvbi.Mux.EnParse

/-- a packet the reader accepts announces its own length -/
theorem parsePes_sizefield (bs : Bytes) (p : Pes) (h : parsePes bs = some p) :
    bs.getD 4 0 * 256 + bs.getD 5 0 + 6 = bs.length ∧ bs.length % 184 = 0 ∧ 0 < bs.length := by
  unfold parsePes at h
  split at h
  · rename_i lenHi lenLo b6 b7 b8 rest
    simp only [] at h
    split at h
    · cases h
    · rename_i hc
      simp only [List.getD_cons_succ, List.getD_cons_zero, List.length_cons] at hc ⊢
      omega
  · cases h

theorem pesStreamF_fuel : ∀ (f1 f2 : Nat) (bs : Bytes), bs.length ≤ f1 → bs.length ≤ f2 →
    pesStreamF f1 bs = pesStreamF f2 bs := by
  intro f1
  induction f1 with
  | zero =>
    intro f2 bs h1 _
    have : bs = [] := List.eq_nil_of_length_eq_zero (by omega)
    subst this
    cases f2 <;> rfl
  | succ f1 ih =>
    intro f2 bs h1 h2
    cases bs with
    | nil => cases f2 <;> rfl
    | cons b bs =>
      cases f2 with
      | zero => simp at h2
      | succ f2 =>
        simp only [pesStreamF]
        split
        · rfl
        · rename_i hsz
          have hd : ((b :: bs).drop ((b :: bs).getD 4 0 * 256 + (b :: bs).getD 5 0 + 6)).length ≤ bs.length := by
            rw [List.length_drop]; simp only [List.length_cons]; omega
          simp only [List.length_cons] at h1 h2
          rw [ih f2 _ (by omega) (by omega)]

/-- a stream that begins with a complete packet -/
theorem pesStream_cons (pk rest : Bytes) (p : Pes) (h : parsePes pk = some p) :
    pesStream (pk ++ rest) = match pesStream rest with | some ps => some (p :: ps) | none => none := by
  obtain ⟨hsz, _, hpos⟩ := parsePes_sizefield pk p h
  have hlen6 : 6 ≤ pk.length := by omega
  unfold pesStream
  have hne : (pk ++ rest).length = (pk.length + rest.length - 1) + 1 := by rw [List.length_append]; omega
  rw [hne]
  cases hpk : pk ++ rest with
  | nil =>
    have : (pk ++ rest).length = 0 := by rw [hpk]; rfl
    rw [List.length_append] at this; omega
  | cons b bs =>
    rw [← hpk]
    have g4 : (pk ++ rest).getD 4 0 = pk.getD 4 0 := by
      simp [List.getD_eq_getElem?_getD, List.getElem?_append_left (show 4 < pk.length by omega)]
    have g5 : (pk ++ rest).getD 5 0 = pk.getD 5 0 := by
      simp [List.getD_eq_getElem?_getD, List.getElem?_append_left (show 5 < pk.length by omega)]
    have hstep : pesStreamF (pk.length + rest.length - 1 + 1) (pk ++ rest)
        = (if (pk ++ rest).length < (pk ++ rest).getD 4 0 * 256 + (pk ++ rest).getD 5 0 + 6 then none
           else match parsePes ((pk ++ rest).take ((pk ++ rest).getD 4 0 * 256 + (pk ++ rest).getD 5 0 + 6)),
                  pesStreamF (pk.length + rest.length - 1) ((pk ++ rest).drop ((pk ++ rest).getD 4 0 * 256 + (pk ++ rest).getD 5 0 + 6)) with
             | some p, some ps => some (p :: ps)
             | _, _ => none) := by
      rw [hpk]; rfl
    rw [hstep, g4, g5, hsz]
    rw [if_neg (by rw [List.length_append]; omega)]
    rw [List.take_append_of_le_length (Nat.le_refl _), List.take_of_length_le (Nat.le_refl _),
      List.drop_append_of_le_length (Nat.le_refl _), List.drop_of_length_le (Nat.le_refl _), List.nil_append, h]
    rw [pesStreamF_fuel (pk.length + rest.length - 1) rest.length rest (by omega) (Nat.le_refl _)]
    cases pesStreamF rest.length rest <;> rfl

theorem step_cfg (m : Mux) (op : Op) (hc : CfgOK m.cfg) :
    CfgOK (step m op).1.cfg ∧ (step m op).1.cfg.pid = m.cfg.pid := by
  cases op with
  | frame lines mask pts =>
    simp only [step]
    have : (feed m lines mask pts 0).1.cfg = m.cfg := by
      rw [feed_unfold]
      split
      · exact dropPending_cfg m
      · split
        · exact dropPending_cfg m
        · split
          · split <;> exact dropPending_cfg m
          · simp only []; split <;> exact dropPending_cfg m
    rw [this]; exact ⟨hc, rfl⟩
  | dataId d =>
    refine ⟨cfgOK_setDataIdentifier m d hc, ?_⟩
    simp only [step, setDataIdentifier]; split <;> rfl
  | size a b => exact ⟨cfgOK_setPesPacketSize m a b hc, rfl⟩

/-- PES mode, any history: the concatenated callback output is a sequence of well-formed packets,
    one per accepted frame, each with the PTS, data_identifier and lines of its frame -/
theorem pes_history (ops : List Op) (hops : ∀ op ∈ ops, Op.OK op) :
    ∀ m, CfgOK m.cfg → m.cfg.pid = 0 →
      ∃ ps, pesStream (run m ops).2.1 = some ps ∧ ps.map Pes.content = (run m ops).2.2 := by
  induction ops with
  | nil => intro m _ _; exact ⟨[], rfl, rfl⟩
  | cons op ops ih =>
    intro m hc hp
    obtain ⟨hc1, hp1⟩ := step_cfg m op hc
    obtain ⟨ps2, h2a, h2b⟩ := ih (fun o ho => hops o (List.mem_cons_of_mem _ ho)) (step m op).1 hc1 (by rw [hp1]; exact hp)
    have hok := hops op (List.mem_cons_self ..)
    simp only [run]
    cases op with
    | dataId d => exact ⟨ps2, by simpa [step] using h2a, by simpa [step] using h2b⟩
    | size a b => exact ⟨ps2, by simpa [step] using h2a, by simpa [step] using h2b⟩
    | frame lines mask pts =>
      cases hacc : (feed m lines mask pts 0).2.ok with
      | false =>
        obtain ⟨hcalls, _⟩ := feed_rejected m lines mask pts hacc
        refine ⟨ps2, ?_, ?_⟩
        · simp only [step, FeedOut.allBytes, hcalls, List.filterMap_nil, List.flatten_nil, List.nil_append]
          exact h2a
        · simp only [step, hacc, Bool.false_eq_true, if_false, List.nil_append]; exact h2b
      | true =>
        obtain ⟨pes, hg, hpes, _⟩ := feed_accepted m lines mask pts hacc
        obtain ⟨hcalls, _⟩ := hpes hp
        obtain ⟨hparse, _⟩ := generatePes_ok m.cfg hc lines mask pts hok.1 hok.2 pes hg
        refine ⟨(⟨pts % 2 ^ 33, m.cfg.dataId, pes.length, sent mask lines⟩ : Pes) :: ps2, ?_, ?_⟩
        · have hb : (List.filterMap id [some pes]).flatten = pes := by simp
          simp only [step, FeedOut.allBytes, hcalls]
          rw [hb, pesStream_cons pes _ _ hparse]
          simp only [step] at h2a
          rw [h2a]
        · simp only [step, hacc, if_true, List.map_cons, List.cons_append, List.nil_append, Pes.content, h2b]

/-! ## TS streams -/

theorem tsGroup_length (pid : Nat) : ∀ (n : Nat) (first : Bool) (cc : Nat) (bs payload rest : Bytes),
    tsGroup pid n first cc bs = some (payload, rest) → bs.length = 188 * n + rest.length := by
  intro n
  induction n with
  | zero =>
    intro first cc bs payload rest h
    simp only [tsGroup, Option.some.injEq, Prod.mk.injEq] at h
    rw [h.2]; omega
  | succ n ih =>
    intro first cc bs payload rest h
    match bs, h with
    | sync :: b1 :: b2 :: b3 :: tail, h =>
      rw [tsGroup] at h
      split at h
      · rename_i hc
        cases hr : tsGroup pid n false (cc + 1) (tail.drop 184) with
        | none => rw [hr] at h; simp at h
        | some r =>
          obtain ⟨p, r'⟩ := r
          rw [hr] at h
          simp only [Option.some.injEq, Prod.mk.injEq] at h
          have := ih false (cc + 1) (tail.drop 184) p r' hr
          rw [List.length_drop] at this
          rw [← h.2]
          simp only [List.length_cons]
          omega
      · cases h
    | [], h => simp [tsGroup] at h
    | [_], h => simp [tsGroup] at h
    | [_, _], h => simp [tsGroup] at h
    | [_, _, _], h => simp [tsGroup] at h

theorem tsStreamF_fuel (pid : Nat) : ∀ (f1 f2 cc : Nat) (bs : Bytes), bs.length ≤ f1 → bs.length ≤ f2 →
    tsStreamF pid f1 cc bs = tsStreamF pid f2 cc bs := by
  intro f1
  induction f1 with
  | zero =>
    intro f2 cc bs h1 _
    have : bs = [] := List.eq_nil_of_length_eq_zero (by omega)
    subst this
    cases f2 <;> rfl
  | succ f1 ih =>
    intro f2 cc bs h1 h2
    cases bs with
    | nil => cases f2 <;> rfl
    | cons b bs =>
      cases f2 with
      | zero => simp at h2
      | succ f2 =>
        simp only [tsStreamF]
        split
        · rfl
        · rename_i hsz
          cases hg : tsGroup pid (((b :: bs).getD 8 0 * 256 + (b :: bs).getD 9 0 + 6) / 184) true cc (b :: bs) with
          | none => rfl
          | some r =>
            obtain ⟨payload, rest⟩ := r
            have hl := tsGroup_length pid _ _ _ _ _ _ hg
            simp only []
            have hn : 1 ≤ ((b :: bs).getD 8 0 * 256 + (b :: bs).getD 9 0 + 6) / 184 := by omega
            simp only [List.length_cons] at h1 h2 hl
            rw [ih f2 _ rest (by omega) (by omega)]

theorem tsPackets_eq (pid cc : Nat) (pes : Bytes) (h184 : pes.length % 184 = 0) (hpos : 0 < pes.length) :
    tsPackets pid cc pes = tsLoop pid (pes.length / 184) true cc pes := by
  unfold tsPackets
  congr 1
  omega

theorem tsLoop_length (pid : Nat) : ∀ (n : Nat) (first : Bool) (cc : Nat) (pes : Bytes),
    (tsLoop pid n first cc pes).length = n := by
  intro n
  induction n with
  | zero => intros; rfl
  | succ n ih => intros; simp [tsLoop, ih]

/-- a TS stream that begins with the packets of one complete PES packet -/
theorem tsStream_cons (pid : Nat) (hpid : pid < 0x2000) (pes rest : Bytes) (p : Pes) (cc c : Nat)
    (h : parsePes pes = some p) (hc : c % 16 = cc % 16) :
    tsStream pid c ((tsPackets pid cc pes).flatten ++ rest)
      = match tsStream pid (c + pes.length / 184) rest with
        | some (ps, cc') => some (p :: ps, cc')
        | none => none := by
  obtain ⟨hsz, h184, hpos⟩ := parsePes_sizefield pes p h
  rw [tsPackets_eq pid cc pes h184 hpos]
  obtain ⟨n, hn⟩ : ∃ n, pes.length / 184 = n + 1 := ⟨pes.length / 184 - 1, by omega⟩
  have hlen : pes.length = 184 * (n + 1) := by omega
  have hgrp := tsGroup_tsLoop pid hpid (n + 1) true cc c pes rest hlen hc
  rw [hn]
  -- the first bytes of the stream
  have hshape : ∃ t, (tsLoop pid (n + 1) true cc pes).flatten ++ rest
      = 0x47 :: ((0x40 ||| (pid >>> 8)) % 256) :: (pid % 256) :: (0x10 + (cc &&& 15)) :: (pes.take 184 ++ t) := by
    refine ⟨(tsLoop pid n false ((cc + 1) % 2 ^ 32) (pes.drop 184)).flatten ++ rest, ?_⟩
    simp [tsLoop, tsHeader]
  obtain ⟨t, hshape⟩ := hshape
  have htk : (pes.take 184).length = 184 := by rw [List.length_take]; omega
  have g8 : ((tsLoop pid (n + 1) true cc pes).flatten ++ rest).getD 8 0 = pes.getD 4 0 := by
    rw [hshape]
    simp only [List.getD_cons_succ]
    simp [List.getD_eq_getElem?_getD, List.getElem?_append_left (show 4 < (pes.take 184).length by omega),
      List.getElem?_take]
  have g9 : ((tsLoop pid (n + 1) true cc pes).flatten ++ rest).getD 9 0 = pes.getD 5 0 := by
    rw [hshape]
    simp only [List.getD_cons_succ]
    simp [List.getD_eq_getElem?_getD, List.getElem?_append_left (show 5 < (pes.take 184).length by omega),
      List.getElem?_take]
  have hl := tsGroup_length pid _ _ _ _ _ _ hgrp
  unfold tsStream
  obtain ⟨f, hf⟩ : ∃ f, ((tsLoop pid (n + 1) true cc pes).flatten ++ rest).length = f + 1 :=
    ⟨188 * (n + 1) + rest.length - 1, by rw [hl]; omega⟩
  rw [hf]
  have hstep : tsStreamF pid (f + 1) c ((tsLoop pid (n + 1) true cc pes).flatten ++ rest)
      = (if (((tsLoop pid (n + 1) true cc pes).flatten ++ rest).getD 8 0 * 256
              + ((tsLoop pid (n + 1) true cc pes).flatten ++ rest).getD 9 0 + 6) % 184 ≠ 0 then none
         else match tsGroup pid ((((tsLoop pid (n + 1) true cc pes).flatten ++ rest).getD 8 0 * 256
              + ((tsLoop pid (n + 1) true cc pes).flatten ++ rest).getD 9 0 + 6) / 184) true c
              ((tsLoop pid (n + 1) true cc pes).flatten ++ rest) with
           | none => none
           | some (payload, rest') =>
             match parsePes payload, tsStreamF pid f (c + (((tsLoop pid (n + 1) true cc pes).flatten ++ rest).getD 8 0 * 256
              + ((tsLoop pid (n + 1) true cc pes).flatten ++ rest).getD 9 0 + 6) / 184) rest' with
             | some p, some (ps, cc') => some (p :: ps, cc')
             | _, _ => none) := by
    rw [hshape]; rfl
  rw [hstep, g8, g9, hsz, if_neg (by omega), hn, hgrp]
  simp only [h]
  rw [tsStreamF_fuel pid f rest.length _ rest (by rw [hl] at hf; omega) (Nat.le_refl _)]
  cases tsStreamF pid rest.length (c + (n + 1)) rest with
  | none => rfl
  | some r => obtain ⟨ps, cc'⟩ := r; rfl

theorem filterMap_id_map_some (l : List Bytes) : List.filterMap id (l.map some) = l := by
  induction l with
  | nil => rfl
  | cons a l ih => simp [ih]

/-- TS mode, any history: the concatenated callback output is a TS stream of the configured PID with
    consecutive continuity counters throughout, payload_unit_start exactly at each PES packet,
    carrying one well-formed PES packet per accepted frame -/
theorem ts_history (ops : List Op) (hops : ∀ op ∈ ops, Op.OK op) :
    ∀ m, CfgOK m.cfg → m.cfg.pid ≠ 0 → m.cfg.pid < 0x2000 → ∀ c, c % 16 = m.cc % 16 →
      ∃ ps, tsStream m.cfg.pid c (run m ops).2.1 = some (ps, (run m ops).1.cc % 16)
        ∧ ps.map Pes.content = (run m ops).2.2 := by
  induction ops with
  | nil =>
    intro m _ _ _ c hc
    refine ⟨[], ?_, rfl⟩
    simp only [run, tsStream, List.length_nil, tsStreamF, hc]
  | cons op ops ih =>
    intro m hcfg hp hp2 c hc
    obtain ⟨hc1, hp1⟩ := step_cfg m op hcfg
    have hok := hops op (List.mem_cons_self ..)
    have ih' := ih (fun o ho => hops o (List.mem_cons_of_mem _ ho)) (step m op).1 hc1 (by rw [hp1]; exact hp)
      (by rw [hp1]; exact hp2)
    rw [hp1] at ih'
    simp only [run]
    cases op with
    | dataId d =>
      have hcc : (step m (Op.dataId d)).1.cc = m.cc := by simp only [step, setDataIdentifier]; split <;> rfl
      obtain ⟨ps2, h2a, h2b⟩ := ih' c (by rw [hcc]; exact hc)
      exact ⟨ps2, by simpa [step] using h2a, by simpa [step] using h2b⟩
    | size a b =>
      obtain ⟨ps2, h2a, h2b⟩ := ih' c (by simpa [step, setPesPacketSize] using hc)
      exact ⟨ps2, by simpa [step] using h2a, by simpa [step] using h2b⟩
    | frame lines mask pts =>
      cases hacc : (feed m lines mask pts 0).2.ok with
      | false =>
        obtain ⟨hcalls, hst⟩ := feed_rejected m lines mask pts hacc
        have hcc : (step m (Op.frame lines mask pts)).1.cc = m.cc := by
          simp only [step, hst, dropPending_cc]
        obtain ⟨ps2, h2a, h2b⟩ := ih' c (by rw [hcc]; exact hc)
        refine ⟨ps2, ?_, ?_⟩
        · simp only [step, FeedOut.allBytes, hcalls, List.filterMap_nil, List.flatten_nil, List.nil_append]
          simpa [step] using h2a
        · simp only [step, hacc, Bool.false_eq_true, if_false, List.nil_append]; simpa [step] using h2b
      | true =>
        obtain ⟨pes, hg, _, hts⟩ := feed_accepted m lines mask pts hacc
        obtain ⟨hcalls, hst⟩ := hts hp
        obtain ⟨hparse, _⟩ := generatePes_ok m.cfg hcfg lines mask pts hok.1 hok.2 pes hg
        obtain ⟨_, h184, hpos⟩ := parsePes_sizefield pes _ hparse
        have hnp : (tsPackets m.cfg.pid m.cc pes).length = pes.length / 184 := by
          rw [tsPackets_eq _ _ _ h184 hpos, tsLoop_length]
        have hcc : (step m (Op.frame lines mask pts)).1.cc = (m.cc + pes.length / 184) % 2 ^ 32 := by
          simp only [step, hst, hnp]
        obtain ⟨ps2, h2a, h2b⟩ := ih' (c + pes.length / 184) (by rw [hcc]; omega)
        refine ⟨(⟨pts % 2 ^ 33, m.cfg.dataId, pes.length, sent mask lines⟩ : Pes) :: ps2, ?_, ?_⟩
        · simp only [step, FeedOut.allBytes, hcalls, filterMap_id_map_some]
          rw [tsStream_cons m.cfg.pid hp2 pes _ _ m.cc c hparse hc]
          simp only [step] at h2a
          rw [h2a]
        · simp only [step, hacc, if_true, List.map_cons, List.cons_append, List.nil_append, Pes.content]
          simp only [step] at h2b
          rw [h2b]

end Zvbi.Mux
