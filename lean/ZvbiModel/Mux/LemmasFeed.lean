import ZvbiModel.Mux.LemmasPes
/-!
# Lemmas: the multiplexer object (`vbi_dvb_mux_feed`), configuration invariant, TS packets
-/
namespace Zvbi.Mux
open Zvbi.Mux.EnParse

theorem cfgOK_default : CfgOK {} := ⟨by decide, by decide, by decide, by decide, by decide, by decide⟩

theorem cfgOK_newTs (pid : Nat) (m : Mux) (h : newTs pid = some m) : CfgOK m.cfg := by
  unfold newTs at h
  split at h
  · cases h
  · injection h with h; subst h
    constructor <;> simp [MAX_PES, validDataId]

theorem cfgOK_setDataIdentifier (m : Mux) (d : Nat) (h : CfgOK m.cfg) : CfgOK (setDataIdentifier m d).1.cfg := by
  unfold setDataIdentifier
  split
  · rename_i hd
    refine ⟨h.min184, h.minmax, h.max, h.minMod, h.maxMod, ?_⟩
    simp only [validDataId, Bool.or_eq_true, Bool.and_eq_true, decide_eq_true_eq]
    omega
  · exact h

theorem minSize_props (a : Nat) :
    184 ≤ (if a < 184 then 184 else if a > 65504 then 65504 else (a + 183) - (a + 183) % 184)
    ∧ (if a < 184 then 184 else if a > 65504 then 65504 else (a + 183) - (a + 183) % 184) ≤ 65504
    ∧ (if a < 184 then 184 else if a > 65504 then 65504 else (a + 183) - (a + 183) % 184) % 184 = 0 := by
  split
  · omega
  · split <;> omega

theorem maxSize_props (mn b : Nat) (h1 : 184 ≤ mn) (h2 : mn ≤ 65504) (h3 : mn % 184 = 0) :
    mn ≤ (if b < mn then mn else if b > 65504 then 65504 else b - b % 184)
    ∧ (if b < mn then mn else if b > 65504 then 65504 else b - b % 184) ≤ 65504
    ∧ (if b < mn then mn else if b > 65504 then 65504 else b - b % 184) % 184 = 0 := by
  split
  · omega
  · split <;> omega

theorem cfgOK_setPesPacketSize (m : Mux) (a b : Nat) (h : CfgOK m.cfg) : CfgOK (setPesPacketSize m a b).cfg := by
  unfold setPesPacketSize
  simp only [MAX_PES]
  obtain ⟨p1, p2, p3⟩ := minSize_props a
  obtain ⟨q1, q2, q3⟩ := maxSize_props _ b p1 p2 p3
  exact ⟨p1, q1, q2, p3, q3, h.did⟩

theorem dropPending_idem (m : Mux) : dropPending (dropPending m) = dropPending m := by
  unfold dropPending
  by_cases h : m.corOffset < m.corEnd
  · simp [h]
  · simp [h]

theorem dropPending_cfg (m : Mux) : (dropPending m).cfg = m.cfg := by unfold dropPending; split <;> rfl
theorem dropPending_cc (m : Mux) : (dropPending m).cc = m.cc := by unfold dropPending; split <;> rfl

theorem feed_unfold (m : Mux) (lines : List Sliced) (mask pts k : Nat) :
    feed m lines mask pts k =
      (match generatePes (dropPending m).cfg lines mask pts with
        | .error _ => (dropPending m, { ok := false, calls := [] })
        | .ok (pes, left) =>
          if left ≠ [] then (dropPending m, { ok := false, calls := [] })
          else if (dropPending m).cfg.pid = 0 then
            if k = 1 then (dropPending m, { ok := false, calls := [none] })
            else (dropPending m, { ok := true, calls := [some pes] })
          else
            let pkts := tsPackets (dropPending m).cfg.pid (dropPending m).cc pes
            if k ≥ 1 ∧ k ≤ pkts.length then
              ({ dropPending m with cc := ((dropPending m).cc + k) % 2 ^ 32 },
               { ok := false, calls := (pkts.take (k - 1)).map some ++ [none] })
            else
              ({ dropPending m with cc := ((dropPending m).cc + pkts.length) % 2 ^ 32 },
               { ok := true, calls := pkts.map some })) := rfl

theorem feed_dropPending (m : Mux) (lines : List Sliced) (mask pts k : Nat) :
    feed (dropPending m) lines mask pts k = feed m lines mask pts k := by
  rw [feed_unfold, feed_unfold, dropPending_idem]

/-- a rejected frame: no callback, no bytes, and the state is the one every `feed` starts from -/
theorem feed_rejected (m : Mux) (lines : List Sliced) (mask pts : Nat)
    (h : (feed m lines mask pts 0).2.ok = false) :
    (feed m lines mask pts 0).2.calls = [] ∧ (feed m lines mask pts 0).1 = dropPending m := by
  rw [feed_unfold] at h ⊢
  cases hg : generatePes (dropPending m).cfg lines mask pts with
  | error e => simp
  | ok r =>
    obtain ⟨pes, left⟩ := r
    rw [hg] at h
    simp only [] at h ⊢
    by_cases hl : left ≠ []
    · simp [hl]
    · rw [if_neg hl] at h ⊢
      by_cases hp : (dropPending m).cfg.pid = 0
      · rw [if_pos hp] at h; simp at h
      · rw [if_neg hp] at h; simp at h

/-- an accepted frame: `generate_pes_packet` succeeded with nothing left over -/
theorem feed_accepted (m : Mux) (lines : List Sliced) (mask pts : Nat)
    (h : (feed m lines mask pts 0).2.ok = true) :
    ∃ pes, generatePes m.cfg lines mask pts = .ok (pes, [])
      ∧ (m.cfg.pid = 0 → (feed m lines mask pts 0).2.calls = [some pes] ∧ (feed m lines mask pts 0).1 = dropPending m)
      ∧ (m.cfg.pid ≠ 0 → (feed m lines mask pts 0).2.calls = (tsPackets m.cfg.pid m.cc pes).map some
          ∧ (feed m lines mask pts 0).1 = { dropPending m with cc := (m.cc + (tsPackets m.cfg.pid m.cc pes).length) % 2 ^ 32 }) := by
  rw [feed_unfold] at h ⊢
  rw [dropPending_cfg, dropPending_cc] at h ⊢
  cases hg : generatePes m.cfg lines mask pts with
  | error e => rw [hg] at h; simp at h
  | ok r =>
    obtain ⟨pes, left⟩ := r
    rw [hg] at h
    simp only [] at h ⊢
    by_cases hl : left ≠ []
    · rw [if_pos hl] at h; simp at h
    · rw [if_neg hl] at h ⊢
      have hl' : left = [] := by simpa using hl
      subst hl'
      refine ⟨pes, rfl, ?_, ?_⟩
      · intro hp; rw [if_pos hp]; simp
      · intro hp; rw [if_neg hp]; simp

/-! ## TS packets -/

theorem pid_bits : ∀ x < 32, (0x40 ||| x) = 64 + x ∧ (0 ||| x) = x := by decide

theorem and15 (x : Nat) : x &&& 15 = x % 16 := Nat.and_two_pow_sub_one_eq_mod x 4

/-- the TS packets of one PES packet are read back as that PES packet: sync byte, PID,
    payload_unit_start on the first packet only, consecutive continuity counters -/
theorem tsGroup_tsLoop (pid : Nat) (hpid : pid < 0x2000) :
    ∀ (n : Nat) (first : Bool) (cc c : Nat) (pes rest : Bytes), pes.length = 184 * n → c % 16 = cc % 16 →
      tsGroup pid n first c ((tsLoop pid n first cc pes).flatten ++ rest) = some (pes, rest) := by
  intro n
  induction n with
  | zero =>
    intro first cc c pes rest hl _
    have : pes = [] := List.eq_nil_of_length_eq_zero (by omega)
    subst this
    simp [tsLoop, tsGroup]
  | succ n ih =>
    intro first cc c pes rest hl hc
    have hx : pid / 256 < 32 := by omega
    obtain ⟨hb1, hb0⟩ := pid_bits (pid / 256) hx
    have htake : (pes.take 184).length = 184 := by rw [List.length_take]; omega
    have hdrop : (pes.drop 184).length = 184 * n := by rw [List.length_drop]; omega
    have hih := ih false ((cc + 1) % 2 ^ 32) (c + 1) (pes.drop 184) rest hdrop (by omega)
    simp only [tsLoop, tsHeader, List.flatten_cons, List.cons_append, List.nil_append, List.append_assoc,
      Nat.shiftRight_eq_div_pow, Nat.reducePow, and15]
    rw [tsGroup]
    have e1 : (List.take 184 pes ++ ((tsLoop pid n false ((cc + 1) % 4294967296) (List.drop 184 pes)).flatten ++ rest)).drop 184
        = (tsLoop pid n false ((cc + 1) % 4294967296) (List.drop 184 pes)).flatten ++ rest := by
      rw [List.drop_append_of_le_length (by omega), List.drop_of_length_le (by omega), List.nil_append]
    have e2 : (List.take 184 pes ++ ((tsLoop pid n false ((cc + 1) % 4294967296) (List.drop 184 pes)).flatten ++ rest)).take 184
        = List.take 184 pes := by
      rw [List.take_append_of_le_length (by omega), List.take_of_length_le (by omega)]
    have e3 : 184 ≤ (List.take 184 pes ++ ((tsLoop pid n false ((cc + 1) % 4294967296) (List.drop 184 pes)).flatten ++ rest)).length := by
      rw [List.length_append]; omega
    simp only [Nat.reducePow] at hih
    rw [e1, e2, hih]
    have cond : (71 = 0x47 ∧ ((if first = true then 64 else 0) ||| pid / 256) % 256 / 128 = 0
        ∧ (((if first = true then 64 else 0) ||| pid / 256) % 256 / 64 % 2 = 1 ↔ first = true)
        ∧ ((if first = true then 64 else 0) ||| pid / 256) % 256 % 32 * 256 + pid % 256 = pid
        ∧ (16 + cc % 16) / 16 = 1 ∧ (16 + cc % 16) % 16 = c % 16
        ∧ 184 ≤ (List.take 184 pes ++ ((tsLoop pid n false ((cc + 1) % 4294967296) (List.drop 184 pes)).flatten ++ rest)).length) := by
      refine ⟨rfl, ?_, ?_, ?_, by omega, by omega, e3⟩
      · cases first <;> simp only [Bool.false_eq_true, if_false, if_true] <;> omega
      · cases first <;> simp only [Bool.false_eq_true, if_false, if_true, iff_false, iff_true] <;> omega
      · cases first <;> simp only [Bool.false_eq_true, if_false, if_true] <;> omega
    rw [if_pos cond]
    simp only [List.take_append_drop]

end Zvbi.Mux
