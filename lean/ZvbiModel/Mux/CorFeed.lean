import ZvbiModel.Mux.CorTs
/-!
# `vbi_dvb_mux_cor` produces the bytes of `vbi_dvb_mux_feed`

For every frame `vbi_dvb_mux_feed` accepts, the coroutine `vbi_dvb_mux_cor`, called with the same
frame and ANY sequence of positive output buffer sizes, emits exactly the bytes `feed` hands to
its callback (the PES packet, or the TS packets back to back), cut at the buffer boundaries;
every call but the last returns TRUE with `*sliced_left` untouched, the call that emits the last
byte returns TRUE with `*sliced_left = 0`, and leaves the same continuity counter as `feed`.
For every frame `feed` rejects, `cor` returns FALSE without output and without a lasting effect.
-/
namespace Zvbi.Mux
open Zvbi.Mux.EnParse

/-- no coroutine output pending: `cor_offset >= cor_end` -/
def Idle (m : Mux) : Prop := m.corOffset ≥ m.corEnd

instance (m : Mux) : Decidable (Idle m) := by unfold Idle; infer_instance

/-- the part of `vbi_dvb_mux_cor` after the `if (offset >= mx->cor_end) { generate_pes_packet ... }` -/
def corBody (m : Mux) (bufLeft n : Nat) : Mux × CorOut :=
  let offset := m.corOffset
  let (m, offset, out) :=
    if m.cfg.pid = 0 then
      let size := min bufLeft (m.corEnd - offset)
      (m, offset + size, (m.packet.drop offset).take size)
    else
      let (packet, cc, offset, tsLeft, out) :=
        corTsLoop m.cfg.pid m.corEnd (bufLeft + 1) m.packet m.cc offset m.corTsLeft bufLeft []
      ({ m with packet := packet, cc := cc, corTsLeft := tsLeft }, offset, out)
  let m := { m with corOffset := offset }
  if offset ≥ m.corEnd then (m, { ok := true, out, slicedLeft := 0, slicedIdx := n })
  else (m, { ok := true, out, slicedLeft := n, slicedIdx := 0 })

/-- the state `vbi_dvb_mux_cor` is in right after a successful `generate_pes_packet` -/
def start (m : Mux) (pes : Bytes) : Mux :=
  { m with packet := [0, 0, 0, 0] ++ pes, corEnd := pes.length + 4, corOffset := 4, corTsLeft := 0 }

theorem cor_pending (m : Mux) (bufLeft : Nat) (lines : List Sliced) (mask pts : Nat)
    (hb : bufLeft ≠ 0) (hp : ¬ Idle m) :
    cor m bufLeft lines mask pts = corBody m bufLeft lines.length := by
  unfold Idle at hp
  unfold cor
  simp only [if_neg hb, if_neg hp]
  rfl

theorem cor_idle_accept (m : Mux) (bufLeft : Nat) (lines : List Sliced) (mask pts : Nat) (pes : Bytes)
    (hb : bufLeft ≠ 0) (hi : Idle m) (hl : lines ≠ [])
    (hg : generatePes m.cfg lines mask pts = .ok (pes, [])) :
    cor m bufLeft lines mask pts = corBody (start m pes) bufLeft lines.length := by
  unfold Idle at hi
  have hn : lines.length ≠ 0 := fun h => hl (List.eq_nil_of_length_eq_zero h)
  unfold cor
  simp only [if_neg hb, if_pos hi, if_neg hn, hg]
  rfl

/-- a frame `generate_pes_packet` does not convert completely: FALSE, no output, nothing pending -/
theorem cor_idle_reject (m : Mux) (bufLeft : Nat) (lines : List Sliced) (mask pts : Nat)
    (hb : bufLeft ≠ 0) (hi : Idle m) (hl : lines ≠ [])
    (hg : ∀ pes, generatePes m.cfg lines mask pts ≠ .ok (pes, [])) :
    ∃ left idx, cor m bufLeft lines mask pts
      = ({ m with corEnd := 0, packet := [] }, { ok := false, out := [], slicedLeft := left, slicedIdx := idx }) := by
  unfold Idle at hi
  have hn : lines.length ≠ 0 := fun h => hl (List.eq_nil_of_length_eq_zero h)
  unfold cor
  simp only [if_neg hb, if_pos hi, if_neg hn]
  cases hgen : generatePes m.cfg lines mask pts with
  | error e => obtain ⟨e1, off⟩ := e; exact ⟨_, _, rfl⟩
  | ok r =>
    obtain ⟨pes, left⟩ := r
    by_cases hleft : left ≠ []
    · simp only [if_pos hleft]; exact ⟨_, _, rfl⟩
    · have : left = [] := by simpa using hleft
      subst this
      exact absurd hgen (hg pes)

theorem corBody_pes (m : Mux) (bufLeft n : Nat) (hp : m.cfg.pid = 0) :
    corBody m bufLeft n
      = ({ m with corOffset := m.corOffset + min bufLeft (m.corEnd - m.corOffset) },
         { ok := true, out := (m.packet.drop m.corOffset).take (min bufLeft (m.corEnd - m.corOffset)),
           slicedLeft := if m.corOffset + min bufLeft (m.corEnd - m.corOffset) ≥ m.corEnd then 0 else n,
           slicedIdx := if m.corOffset + min bufLeft (m.corEnd - m.corOffset) ≥ m.corEnd then n else 0 }) := by
  unfold corBody
  simp only [if_pos hp]
  split
  · rfl
  · rfl

theorem corBody_ts (m : Mux) (bufLeft n : Nat) (hp : m.cfg.pid ≠ 0) (packet : Bytes) (cc offset tsLeft : Nat) (out : Bytes)
    (hloop : corTsLoop m.cfg.pid m.corEnd (bufLeft + 1) m.packet m.cc m.corOffset m.corTsLeft bufLeft []
      = (packet, cc, offset, tsLeft, out)) :
    corBody m bufLeft n
      = ({ m with packet := packet, cc := cc, corTsLeft := tsLeft, corOffset := offset },
         { ok := true, out := out,
           slicedLeft := if offset ≥ m.corEnd then 0 else n,
           slicedIdx := if offset ≥ m.corEnd then n else 0 }) := by
  unfold corBody
  simp only [if_neg hp, hloop]
  split
  · rfl
  · rfl

/-! ## the invariant between calls -/

/-- coroutine output pending: `R` is what remains to be emitted of the current packet(s), `ccEnd` the
    continuity counter after it.  PES mode: `R` is the rest of the packet buffer.  TS mode: `TsInv`. -/
def Pending (ccEnd : Nat) (R : Bytes) (m : Mux) : Prop :=
  (m.cfg.pid = 0 → m.packet.drop m.corOffset = R ∧ m.packet.length = m.corEnd ∧ m.cc = ccEnd)
  ∧ (m.cfg.pid ≠ 0 → TsInv m.cfg.pid m.corEnd ccEnd R m.packet m.cc m.corOffset m.corTsLeft)

theorem Pending.idle_iff {ccEnd : Nat} {R : Bytes} {m : Mux} (h : Pending ccEnd R m) : Idle m ↔ R = [] := by
  unfold Idle
  by_cases hp : m.cfg.pid = 0
  · obtain ⟨h1, h2, _⟩ := h.1 hp
    rw [← h1, List.drop_eq_nil_iff, h2]
  · exact ((h.2 hp).nil_iff).symm

theorem Pending.cc_end {ccEnd : Nat} {m : Mux} (h : Pending ccEnd [] m) : m.cc = ccEnd := by
  by_cases hp : m.cfg.pid = 0
  · exact (h.1 hp).2.2
  · exact (h.2 hp).cc_end

/-- one call in the pending state: the next `size` bytes (or all that is left) -/
theorem corBody_spec (ccEnd : Nat) (R : Bytes) (m : Mux) (size n : Nat)
    (h : Pending ccEnd R m) (hne : R ≠ []) (hs : 0 < size) :
    ∃ m', corBody m size n
        = (m', { ok := true, out := R.take size,
                 slicedLeft := if R.length ≤ size then 0 else n,
                 slicedIdx := if R.length ≤ size then n else 0 })
      ∧ Pending ccEnd (R.drop size) m' ∧ m'.cfg = m.cfg := by
  by_cases hp : m.cfg.pid = 0
  · obtain ⟨h1, h2, h3⟩ := h.1 hp
    have hlen : R.length = m.corEnd - m.corOffset := by rw [← h1, List.length_drop, h2]
    have hpos : 0 < R.length := List.length_pos_iff.2 hne
    rw [corBody_pes m size n hp]
    refine ⟨{ m with corOffset := m.corOffset + min size (m.corEnd - m.corOffset) }, ?_,
      ⟨fun _ => ⟨?_, h2, h3⟩, fun hq => absurd hp hq⟩, rfl⟩
    · have hc : (m.corOffset + min size (m.corEnd - m.corOffset) ≥ m.corEnd) ↔ R.length ≤ size := by omega
      have ht : (m.packet.drop m.corOffset).take (min size (m.corEnd - m.corOffset)) = R.take size := by
        rw [h1, ← hlen]
        by_cases hle : size ≤ R.length
        · rw [Nat.min_eq_left hle]
        · rw [Nat.min_eq_right (by omega), List.take_of_length_le (Nat.le_refl _), List.take_of_length_le (by omega)]
      rw [ht]
      by_cases hle : R.length ≤ size
      · rw [if_pos (hc.2 hle), if_pos (hc.2 hle), if_pos hle, if_pos hle]
      · rw [if_neg (fun x => hle (hc.1 x)), if_neg (fun x => hle (hc.1 x)), if_neg hle, if_neg hle]
    · show m.packet.drop (m.corOffset + min size (m.corEnd - m.corOffset)) = R.drop size
      rw [← List.drop_drop, h1, ← hlen]
      by_cases hle : size ≤ R.length
      · rw [Nat.min_eq_left hle]
      · rw [Nat.min_eq_right (by omega), List.drop_of_length_le (Nat.le_refl _), List.drop_of_length_le (by omega)]
  · have hinv := h.2 hp
    obtain ⟨p', c', o', t', hloop, hinv'⟩ :=
      corTsLoop_spec m.cfg.pid m.corEnd ccEnd (size + 1) m.packet m.cc m.corOffset m.corTsLeft size [] R
        hinv hne hs (by omega)
    rw [List.nil_append] at hloop
    rw [corBody_ts m size n hp p' c' o' t' _ hloop]
    refine ⟨{ m with packet := p', cc := c', corTsLeft := t', corOffset := o' }, ?_,
      ⟨fun hq => absurd hq hp, fun _ => hinv'⟩, rfl⟩
    have hc : (o' ≥ m.corEnd) ↔ R.length ≤ size := by
      rw [← hinv'.nil_iff, List.drop_eq_nil_iff]
    by_cases hle : R.length ≤ size
    · rw [if_pos (hc.2 hle), if_pos (hc.2 hle), if_pos hle, if_pos hle]
    · rw [if_neg (fun x => hle (hc.1 x)), if_neg (fun x => hle (hc.1 x)), if_neg hle, if_neg hle]

/-- the state in which the application calls `vbi_dvb_mux_cor` with the frame `lines`: either output
    is pending, or nothing is pending and `generate_pes_packet` will convert the frame completely -/
def Ready (lines : List Sliced) (mask pts ccEnd : Nat) (R : Bytes) (m : Mux) : Prop :=
  (¬ Idle m ∧ Pending ccEnd R m)
  ∨ (Idle m ∧ lines ≠ [] ∧ ∃ pes, generatePes m.cfg lines mask pts = .ok (pes, []) ∧ Pending ccEnd R (start m pes))

/-- one call of `vbi_dvb_mux_cor` -/
theorem cor_ready (lines : List Sliced) (mask pts ccEnd : Nat) (R : Bytes) (m : Mux) (size : Nat)
    (h : Ready lines mask pts ccEnd R m) (hne : R ≠ []) (hs : 0 < size) :
    ∃ m', cor m size lines mask pts
        = (m', { ok := true, out := R.take size,
                 slicedLeft := if R.length ≤ size then 0 else lines.length,
                 slicedIdx := if R.length ≤ size then lines.length else 0 })
      ∧ Pending ccEnd (R.drop size) m' ∧ m'.cfg = m.cfg := by
  rcases h with ⟨hni, hp⟩ | ⟨hi, hl, pes, hg, hp⟩
  · rw [cor_pending m size lines mask pts (by omega) hni]
    exact corBody_spec ccEnd R m size lines.length hp hne hs
  · rw [cor_idle_accept m size lines mask pts pes (by omega) hi hl hg]
    exact corBody_spec ccEnd R (start m pes) size lines.length hp hne hs

theorem Pending.ready {lines : List Sliced} {mask pts ccEnd : Nat} {R : Bytes} {m : Mux}
    (h : Pending ccEnd R m) (hne : R ≠ []) : Ready lines mask pts ccEnd R m :=
  Or.inl ⟨fun hi => hne (h.idle_iff.1 hi), h⟩

/-! ## an accepted frame -/

/-- the bytes `vbi_dvb_mux_feed` hands to the callback for an accepted frame are what a
    `vbi_dvb_mux_cor` call sequence starting in the idle state has to produce -/
theorem ready_of_feed_ok (m : Mux) (hi : Idle m) (hc : CfgOK m.cfg) (lines : List Sliced) (hl : lines ≠ [])
    (hwf : ∀ s ∈ lines, Sliced.WF s) (hnr : NoRaw lines) (mask pts : Nat)
    (hok : (feed m lines mask pts 0).2.ok = true) :
    Ready lines mask pts (feed m lines mask pts 0).1.cc (FeedOut.bytes (feed m lines mask pts 0).2) m
    ∧ FeedOut.bytes (feed m lines mask pts 0).2 ≠ []
    ∧ (feed m lines mask pts 0).1.cfg = m.cfg := by
  obtain ⟨pes, hg, hpes, hts⟩ := feed_accepted m lines mask pts hok
  obtain ⟨_, h184, hmin, _, _⟩ := generatePes_ok m.cfg hc lines mask pts hwf hnr pes hg
  have hpos : 0 < pes.length := by have := hc.min184; omega
  by_cases hp : m.cfg.pid = 0
  · obtain ⟨hcalls, hst⟩ := hpes hp
    have hB : FeedOut.bytes (feed m lines mask pts 0).2 = pes := by
      simp [FeedOut.bytes, hcalls]
    rw [hB, hst, dropPending_cc, dropPending_cfg]
    refine ⟨Or.inr ⟨hi, hl, pes, hg, ⟨fun _ => ⟨?_, ?_, rfl⟩, fun hq => absurd hp hq⟩⟩, ?_, rfl⟩
    · simp [start]
    · simp only [start, List.length_append, List.length_cons, List.length_nil]; omega
    · intro hn; rw [hn] at hpos; simp at hpos
  · obtain ⟨hcalls, hst⟩ := hts hp
    have hB : FeedOut.bytes (feed m lines mask pts 0).2 = (tsLoop m.cfg.pid (pes.length / 184) true m.cc pes).flatten := by
      simp only [FeedOut.bytes, hcalls, filterMap_id_map_some]
      rw [tsPackets_eq _ _ _ h184 hpos]
    have hcc : (feed m lines mask pts 0).1.cc = (m.cc + pes.length / 184) % 2 ^ 32 := by
      rw [hst, tsPackets_eq _ _ _ h184 hpos, tsLoop_length]
    have hcfg : (feed m lines mask pts 0).1.cfg = m.cfg := by rw [hst]; exact dropPending_cfg m
    have hinit := TsInv.init m.cfg.pid m.cc pes (pes.length / 184) (by omega) (by omega)
    rw [hB, hcc]
    refine ⟨Or.inr ⟨hi, hl, pes, hg, ⟨fun hq => absurd hq hp, fun _ => hinit⟩⟩, ?_, hcfg⟩
    intro hn
    have := hinit.nil_iff.1 hn
    omega

/-! ## the application loop -/

/-- the application loop over an explicit list of output buffer sizes (one per `vbi_dvb_mux_cor` call,
    each call with the same frame): until `*sliced_left == 0`, a failure, or the sizes run out.
    Result: state, last return value, "sizes ran out before the frame was finished", all output. -/
def corSeq (lines : List Sliced) (mask pts : Nat) : List Nat → Mux → Bytes → Mux × Bool × Bool × Bytes
  | [], m, acc => (m, true, true, acc)
  | s :: ss, m, acc =>
    let r := cor m s lines mask pts
    if r.2.ok ∧ r.2.slicedLeft > 0 then corSeq lines mask pts ss r.1 (acc ++ r.2.out)
    else (r.1, r.2.ok, false, acc ++ r.2.out)

/-- the loop from any state in which the rest `R` of the output is due -/
theorem corSeq_ready (lines : List Sliced) (hl : lines ≠ []) (mask pts ccEnd : Nat) :
    ∀ (sizes : List Nat) (m : Mux) (acc R : Bytes), Ready lines mask pts ccEnd R m → R ≠ [] →
      (∀ s ∈ sizes, 0 < s) →
      ∃ m', m'.cfg = m.cfg
        ∧ (sizes.sum < R.length →
            corSeq lines mask pts sizes m acc = (m', true, true, acc ++ R.take sizes.sum)
            ∧ Ready lines mask pts ccEnd (R.drop sizes.sum) m')
        ∧ (R.length ≤ sizes.sum →
            corSeq lines mask pts sizes m acc = (m', true, false, acc ++ R)
            ∧ Idle m' ∧ m'.cc = ccEnd) := by
  intro sizes
  induction sizes with
  | nil =>
    intro m acc R hr hne _
    have hpos : 0 < R.length := List.length_pos_iff.2 hne
    refine ⟨m, rfl, fun _ => ⟨by simp [corSeq], by simpa using hr⟩, fun h => ?_⟩
    simp only [List.sum_nil] at h; omega
  | cons s ss ih =>
    intro m acc R hr hne hall
    have hs : 0 < s := hall s (List.mem_cons_self ..)
    have hss : ∀ x ∈ ss, 0 < x := fun x hx => hall x (List.mem_cons_of_mem _ hx)
    have hn : 0 < lines.length := List.length_pos_iff.2 hl
    obtain ⟨m1, hcor, hp1, hcfg1⟩ := cor_ready lines mask pts ccEnd R m s hr hne hs
    by_cases hfin : R.length ≤ s
    · -- this call emits the last byte
      have hd : R.drop s = [] := List.drop_eq_nil_iff.2 hfin
      rw [hd] at hp1
      refine ⟨m1, hcfg1, fun h => ?_, fun _ => ⟨?_, hp1.idle_iff.2 rfl, hp1.cc_end⟩⟩
      · simp only [List.sum_cons] at h; omega
      · rw [corSeq, hcor]
        simp only [if_pos hfin, Nat.lt_irrefl, gt_iff_lt, and_false, if_false, List.take_of_length_le hfin]
    · have hd : R.drop s ≠ [] := fun h => hfin (List.drop_eq_nil_iff.1 h)
      obtain ⟨m2, hcfg2, hA, hB⟩ := ih m1 (acc ++ R.take s) (R.drop s) (hp1.ready hd) hd hss
      have hstep : corSeq lines mask pts (s :: ss) m acc = corSeq lines mask pts ss m1 (acc ++ R.take s) := by
        rw [corSeq, hcor]
        simp only [if_neg hfin, gt_iff_lt, hn, and_self, if_true]
      refine ⟨m2, by rw [hcfg2, hcfg1], fun h => ?_, fun h => ?_⟩
      · simp only [List.sum_cons] at h
        obtain ⟨h1, h2⟩ := hA (by rw [List.length_drop]; omega)
        rw [hstep, h1, List.append_assoc, ← List.take_add]
        rw [List.drop_drop] at h2
        exact ⟨by simp only [List.sum_cons], by simpa only [List.sum_cons] using h2⟩
      · simp only [List.sum_cons] at h
        obtain ⟨h1, h2⟩ := hB (by rw [List.length_drop]; omega)
        rw [hstep, h1, List.append_assoc, List.take_append_drop]
        exact ⟨rfl, h2⟩

/-! ## main theorems -/

/-- the frame used in the non-vacuity examples: a Teletext line and a VPS line -/
def corExLines : List Sliced := [⟨3, 7, List.replicate 56 0x15⟩, ⟨4, 16, List.replicate 56 0x2A⟩]

theorem corEx_wf : ∀ s ∈ corExLines, Sliced.WF s := by
  intro s hs
  simp only [corExLines, List.mem_cons, List.not_mem_nil, or_false] at hs
  rcases hs with rfl | rfl <;> exact ⟨by decide, by decide, by decide, by decide⟩

theorem corEx_noraw : NoRaw corExLines := by
  intro s hs
  simp only [corExLines, List.mem_cons, List.not_mem_nil, or_false] at hs
  rcases hs with rfl | rfl <;> decide

/-- **`cor` = `feed`, accepted frames.**  Whenever `vbi_dvb_mux_feed` accepts a frame, then for EVERY
    sequence of positive output buffer sizes the application loop around `vbi_dvb_mux_cor` (same
    frame in each call) never fails, and its concatenated output is the prefix of `feed`'s callback
    bytes `B` of length `sizes.sum`; if the sizes add up to at least `B.length` the loop ends with
    `*sliced_left = 0` having produced exactly `B`, nothing is pending afterwards, the configuration
    is unchanged and the continuity counter is the one `feed` leaves. -/
theorem cor_equals_feed (m : Mux) (hi : Idle m) (hc : CfgOK m.cfg) (lines : List Sliced) (hl : lines ≠ [])
    (hwf : ∀ s ∈ lines, Sliced.WF s) (hnr : NoRaw lines) (mask pts : Nat)
    (hok : (feed m lines mask pts 0).2.ok = true) (sizes : List Nat) (hpos : ∀ s ∈ sizes, 0 < s) :
    ∃ m', m'.cfg = m.cfg
      ∧ (sizes.sum < (FeedOut.bytes (feed m lines mask pts 0).2).length →
          corSeq lines mask pts sizes m []
            = (m', true, true, (FeedOut.bytes (feed m lines mask pts 0).2).take sizes.sum))
      ∧ ((FeedOut.bytes (feed m lines mask pts 0).2).length ≤ sizes.sum →
          corSeq lines mask pts sizes m [] = (m', true, false, FeedOut.bytes (feed m lines mask pts 0).2)
          ∧ Idle m' ∧ m'.cc = (feed m lines mask pts 0).1.cc) := by
  obtain ⟨hr, hne, _⟩ := ready_of_feed_ok m hi hc lines hl hwf hnr mask pts hok
  obtain ⟨m', h1, h2, h3⟩ := corSeq_ready lines hl mask pts _ sizes m [] _ hr hne hpos
  refine ⟨m', h1, fun h => ?_, fun h => ?_⟩
  · have := (h2 h).1; rwa [List.nil_append] at this
  · have := h3 h; rwa [List.nil_append] at this

/-- the hypotheses are satisfiable: the theorem instantiated on a concrete frame -/
example : ∃ m', corSeq corExLines 0xFFFFFFFF 5 [1, 7, 188, 1000] newPes []
      = (m', true, false, FeedOut.bytes (feed newPes corExLines 0xFFFFFFFF 5 0).2) ∧ Idle m' := by
  obtain ⟨m', _, _, h⟩ := cor_equals_feed newPes (by decide) cfgOK_default corExLines (by decide) corEx_wf corEx_noraw
    0xFFFFFFFF 5 (by decide +kernel) [1, 7, 188, 1000] (by decide)
  have hlen : (FeedOut.bytes (feed newPes corExLines 0xFFFFFFFF 5 0).2).length = 184 := by decide +kernel
  obtain ⟨h1, h2, _⟩ := h (by rw [hlen]; decide)
  exact ⟨m', h1, h2⟩
example : corSeq corExLines 0xFFFFFFFF 5 [1, 7, 188, 1000] newPes []
    = (((cor (cor (cor newPes 1 corExLines 0xFFFFFFFF 5).1 7 corExLines 0xFFFFFFFF 5).1 188 corExLines 0xFFFFFFFF 5).1),
       true, false, FeedOut.bytes (feed newPes corExLines 0xFFFFFFFF 5 0).2) := by decide +kernel
example : (FeedOut.bytes (feed newPes corExLines 0xFFFFFFFF 5 0).2).length = 184 := by decide +kernel
example : ((newTs 0x123).map fun m => ((corSeq corExLines 0xFFFFFFFF 5 [1, 7, 188, 1000] m []).2,
      (corSeq corExLines 0xFFFFFFFF 5 [1, 7, 188, 1000] m []).1.cc))
    = (newTs 0x123).map fun m => ((true, false, FeedOut.bytes (feed m corExLines 0xFFFFFFFF 5 0).2),
      (feed m corExLines 0xFFFFFFFF 5 0).1.cc) := by decide +kernel
example : ((newTs 0x123).map fun m => (corSeq corExLines 0xFFFFFFFF 5 [1, 7, 100] m []).2)
    = (newTs 0x123).map fun m => (true, true, (FeedOut.bytes (feed m corExLines 0xFFFFFFFF 5 0).2).take 108) := by
  decide +kernel
example : ((newTs 0x123).map fun m => ((FeedOut.bytes (feed m corExLines 0xFFFFFFFF 5 0).2).length,
    (feed m corExLines 0xFFFFFFFF 5 0).2.ok, (feed m corExLines 0xFFFFFFFF 5 0).1.cc)) = some (188, true, 1) := by
  decide +kernel

/-- **every single call.**  Under the same hypotheses, after any calls with positive buffer sizes
    `pre` that did not finish the frame (`pre.sum < B.length`), the next call with `s > 0` bytes of
    space returns TRUE, stores exactly the next `min s (rest)` bytes of `B`, and either finishes the
    frame (`*sliced_left = 0`, `*sliced` advanced past the frame, nothing pending, continuity counter
    as after `feed`) or leaves `*sliced`, `*sliced_left` untouched. -/
theorem cor_equals_feed_call (m : Mux) (hi : Idle m) (hc : CfgOK m.cfg) (lines : List Sliced) (hl : lines ≠ [])
    (hwf : ∀ s ∈ lines, Sliced.WF s) (hnr : NoRaw lines) (mask pts : Nat)
    (hok : (feed m lines mask pts 0).2.ok = true) (pre : List Nat) (hpre : ∀ x ∈ pre, 0 < x)
    (hlt : pre.sum < (FeedOut.bytes (feed m lines mask pts 0).2).length) (s : Nat) (hs : 0 < s) :
    ∃ m2, cor (corSeq lines mask pts pre m []).1 s lines mask pts
        = (m2, { ok := true, out := ((FeedOut.bytes (feed m lines mask pts 0).2).drop pre.sum).take s,
                 slicedLeft := if (FeedOut.bytes (feed m lines mask pts 0).2).length ≤ pre.sum + s then 0 else lines.length,
                 slicedIdx := if (FeedOut.bytes (feed m lines mask pts 0).2).length ≤ pre.sum + s then lines.length else 0 })
      ∧ m2.cfg = m.cfg
      ∧ ((FeedOut.bytes (feed m lines mask pts 0).2).length ≤ pre.sum + s →
          Idle m2 ∧ m2.cc = (feed m lines mask pts 0).1.cc)
      ∧ (pre.sum + s < (FeedOut.bytes (feed m lines mask pts 0).2).length → ¬ Idle m2) := by
  obtain ⟨hr, hne, _⟩ := ready_of_feed_ok m hi hc lines hl hwf hnr mask pts hok
  obtain ⟨m1, h1, h2, _⟩ := corSeq_ready lines hl mask pts _ pre m [] _ hr hne hpre
  obtain ⟨hseq, hr1⟩ := h2 hlt
  rw [hseq]
  have hne1 : (FeedOut.bytes (feed m lines mask pts 0).2).drop pre.sum ≠ [] := by
    intro h; have := List.drop_eq_nil_iff.1 h; omega
  obtain ⟨m2, hcor, hp2, hcfg2⟩ := cor_ready lines mask pts _ _ m1 s hr1 hne1 hs
  have hiff : ((FeedOut.bytes (feed m lines mask pts 0).2).drop pre.sum).length ≤ s
      ↔ (FeedOut.bytes (feed m lines mask pts 0).2).length ≤ pre.sum + s := by
    rw [List.length_drop]; omega
  rw [List.drop_drop] at hp2
  refine ⟨m2, ?_, by rw [hcfg2, h1], fun h => ?_, fun h => ?_⟩
  · rw [hcor]
    by_cases hle : (FeedOut.bytes (feed m lines mask pts 0).2).length ≤ pre.sum + s
    · rw [if_pos (hiff.2 hle), if_pos (hiff.2 hle), if_pos hle, if_pos hle]
    · rw [if_neg (fun x => hle (hiff.1 x)), if_neg (fun x => hle (hiff.1 x)), if_neg hle, if_neg hle]
  · have hd : (FeedOut.bytes (feed m lines mask pts 0).2).drop (pre.sum + s) = [] := List.drop_eq_nil_iff.2 h
    rw [hd] at hp2
    exact ⟨hp2.idle_iff.2 rfl, hp2.cc_end⟩
  · intro hidle
    have := List.drop_eq_nil_iff.1 (hp2.idle_iff.1 hidle)
    omega

example : ((newTs 0x123).map fun m => (cor (corSeq corExLines 0xFFFFFFFF 5 [1, 7] m []).1 180 corExLines 0xFFFFFFFF 5).2.out)
    = (newTs 0x123).map fun m => ((FeedOut.bytes (feed m corExLines 0xFFFFFFFF 5 0).2).drop 8).take 180 := by
  decide +kernel

/-! ## rejected frames -/

theorem dropPending_idle (m : Mux) (hi : Idle m) : dropPending m = m := by
  unfold Idle at hi
  unfold dropPending
  rw [if_neg (by omega)]

/-- `vbi_dvb_mux_feed` depends on the state only through the configuration and the continuity counter -/
theorem feed_congr (m1 m2 : Mux) (hcfg : m1.cfg = m2.cfg) (hcc : m1.cc = m2.cc) (lines : List Sliced)
    (mask pts k : Nat) :
    (feed m1 lines mask pts k).2 = (feed m2 lines mask pts k).2
    ∧ (feed m1 lines mask pts k).1.cc = (feed m2 lines mask pts k).1.cc
    ∧ (feed m1 lines mask pts k).1.cfg = (feed m2 lines mask pts k).1.cfg := by
  have e1 : (dropPending m1).cfg = (dropPending m2).cfg := by rw [dropPending_cfg, dropPending_cfg, hcfg]
  have e2 : (dropPending m1).cc = (dropPending m2).cc := by rw [dropPending_cc, dropPending_cc, hcc]
  rw [feed_unfold, feed_unfold, e1, e2]
  cases generatePes (dropPending m2).cfg lines mask pts with
  | error e => exact ⟨rfl, e2, e1⟩
  | ok r =>
    obtain ⟨pes, left⟩ := r
    simp only []
    by_cases hl : left ≠ []
    · rw [if_pos hl, if_pos hl]; exact ⟨rfl, e2, e1⟩
    · rw [if_neg hl, if_neg hl]
      by_cases hp : (dropPending m2).cfg.pid = 0
      · rw [if_pos hp, if_pos hp]
        by_cases hk : k = 1
        · rw [if_pos hk, if_pos hk]; exact ⟨rfl, e2, e1⟩
        · rw [if_neg hk, if_neg hk]; exact ⟨rfl, e2, e1⟩
      · rw [if_neg hp, if_neg hp]
        split
        · exact ⟨rfl, rfl, e1⟩
        · exact ⟨rfl, rfl, e1⟩

theorem feed_rejected_gen (m : Mux) (lines : List Sliced) (mask pts : Nat)
    (hrej : (feed m lines mask pts 0).2.ok = false) (pes : Bytes) :
    generatePes m.cfg lines mask pts ≠ .ok (pes, []) := by
  intro hg
  rw [feed_unfold, dropPending_cfg, hg] at hrej
  simp only [ne_eq, not_true_eq_false, if_false] at hrej
  by_cases hp : m.cfg.pid = 0
  · rw [if_pos hp] at hrej; simp at hrej
  · rw [if_neg hp] at hrej; simp at hrej

/-- **`cor` = `feed`, rejected frames.**  Whenever `vbi_dvb_mux_feed` rejects a frame (neither changes
    configuration nor continuity counter), `vbi_dvb_mux_cor` with any buffer space returns FALSE, stores
    nothing, leaves nothing pending, keeps configuration and continuity counter; and every later
    `vbi_dvb_mux_feed` call gives the same result and counter as if the frame had never been offered. -/
theorem cor_rejects_like_feed (m : Mux) (hi : Idle m) (lines : List Sliced) (mask pts : Nat)
    (hrej : (feed m lines mask pts 0).2.ok = false) (size : Nat) (hs : 0 < size) :
    (cor m size lines mask pts).2.ok = false ∧ (cor m size lines mask pts).2.out = []
    ∧ Idle (cor m size lines mask pts).1
    ∧ (cor m size lines mask pts).1.cfg = m.cfg ∧ (cor m size lines mask pts).1.cc = m.cc
    ∧ (feed m lines mask pts 0).1.cfg = m.cfg ∧ (feed m lines mask pts 0).1.cc = m.cc
    ∧ ∀ lines' mask' pts' k,
        (feed (cor m size lines mask pts).1 lines' mask' pts' k).2 = (feed m lines' mask' pts' k).2
        ∧ (feed (cor m size lines mask pts).1 lines' mask' pts' k).1.cc = (feed m lines' mask' pts' k).1.cc
        ∧ (feed (cor m size lines mask pts).1 lines' mask' pts' k).1.cfg = (feed m lines' mask' pts' k).1.cfg := by
  have hfeed : (feed m lines mask pts 0).1 = m := by
    rw [(feed_rejected m lines mask pts hrej).2, dropPending_idle m hi]
  by_cases hl : lines = []
  · have hcor : cor m size lines mask pts = (m, { ok := false, out := [], slicedLeft := 0, slicedIdx := 0 }) := by
      subst hl
      unfold Idle at hi
      unfold cor
      simp only [List.length_nil, if_neg (show ¬ size = 0 by omega), if_pos hi, if_true]
    rw [hcor, hfeed]
    exact ⟨rfl, rfl, hi, rfl, rfl, rfl, rfl, fun _ _ _ _ => ⟨rfl, rfl, rfl⟩⟩
  · obtain ⟨left, idx, hcor⟩ := cor_idle_reject m size lines mask pts (by omega) hi hl
      (feed_rejected_gen m lines mask pts hrej)
    rw [hcor, hfeed]
    refine ⟨rfl, rfl, ?_, rfl, rfl, rfl, rfl, fun l' k' p' f' => feed_congr { m with corEnd := 0, packet := [] } m rfl rfl l' k' p' f'⟩
    show (0 : Nat) ≤ m.corOffset
    omega

example : (feed newPes [⟨3, 8, List.replicate 56 0x15⟩, ⟨3, 7, List.replicate 56 0x15⟩] 0xFFFFFFFF 5 0).2.ok = false := by
  decide +kernel
example : (cor newPes 100 [⟨3, 8, List.replicate 56 0x15⟩, ⟨3, 7, List.replicate 56 0x15⟩] 0xFFFFFFFF 5).2.ok = false := by
  decide +kernel
example : Idle newPes := by decide

/-! ## the correspondence driver's loop `corAll` -/

theorem getD_pos (sizes : List Nat) (hpos : ∀ s ∈ sizes, 0 < s) (i : Nat) (hi : i < sizes.length) :
    0 < sizes.getD i 0 := by
  rw [List.getD_eq_getElem?_getD, List.getElem?_eq_getElem hi, Option.getD_some]
  exact hpos _ (List.getElem_mem hi)

theorem corAll_ready (sizes : List Nat) (hsz : sizes ≠ []) (hpos : ∀ s ∈ sizes, 0 < s)
    (lines : List Sliced) (hl : lines ≠ []) (mask pts ccEnd : Nat) :
    ∀ (fuel : Nat) (m : Mux) (calls : Nat) (acc R : Bytes), Ready lines mask pts ccEnd R m → R ≠ [] →
      R.length ≤ fuel →
      ∃ m' calls', corAll sizes lines mask pts fuel m calls acc = (m', true, calls', 0, lines.length, acc ++ R)
        ∧ calls < calls' ∧ calls' ≤ calls + R.length ∧ Idle m' ∧ m'.cfg = m.cfg ∧ m'.cc = ccEnd := by
  have hlen : 0 < sizes.length := List.length_pos_iff.2 hsz
  have hn : 0 < lines.length := List.length_pos_iff.2 hl
  intro fuel
  induction fuel with
  | zero =>
    intro m calls acc R _ hne hf
    have : 0 < R.length := List.length_pos_iff.2 hne
    omega
  | succ fuel ih =>
    intro m calls acc R hr hne hf
    have hpR : 0 < R.length := List.length_pos_iff.2 hne
    have hs : 0 < sizes.getD (calls % sizes.length) 0 := getD_pos sizes hpos _ (Nat.mod_lt _ hlen)
    obtain ⟨m1, hcor, hp1, hcfg1⟩ := cor_ready lines mask pts ccEnd R m _ hr hne hs
    rw [corAll, hcor]
    simp only []
    by_cases hfin : R.length ≤ sizes.getD (calls % sizes.length) 0
    · have hd : R.drop (sizes.getD (calls % sizes.length) 0) = [] := List.drop_eq_nil_iff.2 hfin
      rw [hd] at hp1
      refine ⟨m1, calls + 1, ?_, by omega, by omega, hp1.idle_iff.2 rfl, hcfg1, hp1.cc_end⟩
      simp only [if_pos hfin, Nat.lt_irrefl, gt_iff_lt, and_false, if_false, List.take_of_length_le hfin]
    · have hd : R.drop (sizes.getD (calls % sizes.length) 0) ≠ [] := fun h => hfin (List.drop_eq_nil_iff.1 h)
      obtain ⟨m2, c2, heq, hc1, hc2, hidle, hcfg2, hcc2⟩ :=
        ih m1 (calls + 1) (acc ++ R.take (sizes.getD (calls % sizes.length) 0)) _ (hp1.ready hd) hd
          (by rw [List.length_drop]; omega)
      refine ⟨m2, c2, ?_, by omega, ?_, hidle, by rw [hcfg2, hcfg1], hcc2⟩
      · simp only [if_neg hfin, gt_iff_lt, hn, and_self, if_true]
        rw [heq, List.append_assoc, List.take_append_drop]
      · rw [List.length_drop] at hc2; omega

/-- **the driver loop.**  What the correspondence driver runs (`corAll`: buffer sizes taken cyclically
    from a non-empty list of positive sizes) yields, for every frame `feed` accepts and enough fuel,
    exactly `feed`'s bytes, with `*sliced_left = 0`, `*sliced` at the end of the frame, nothing
    pending, the configuration unchanged and `feed`'s continuity counter. -/
theorem corAll_equals_feed (m : Mux) (hi : Idle m) (hc : CfgOK m.cfg) (lines : List Sliced) (hl : lines ≠ [])
    (hwf : ∀ s ∈ lines, Sliced.WF s) (hnr : NoRaw lines) (mask pts : Nat)
    (hok : (feed m lines mask pts 0).2.ok = true) (sizes : List Nat) (hsz : sizes ≠ [])
    (hpos : ∀ s ∈ sizes, 0 < s) (fuel : Nat) (hfuel : (FeedOut.bytes (feed m lines mask pts 0).2).length ≤ fuel) :
    ∃ m' calls, corAll sizes lines mask pts fuel m 0 []
        = (m', true, calls, 0, lines.length, FeedOut.bytes (feed m lines mask pts 0).2)
      ∧ 1 ≤ calls ∧ calls ≤ (FeedOut.bytes (feed m lines mask pts 0).2).length
      ∧ Idle m' ∧ m'.cfg = m.cfg ∧ m'.cc = (feed m lines mask pts 0).1.cc := by
  obtain ⟨hr, hne, _⟩ := ready_of_feed_ok m hi hc lines hl hwf hnr mask pts hok
  obtain ⟨m', c', heq, h1, h2, h3, h4, h5⟩ :=
    corAll_ready sizes hsz hpos lines hl mask pts _ fuel m 0 [] _ hr hne hfuel
  rw [List.nil_append] at heq
  exact ⟨m', c', heq, by omega, by omega, h3, h4, h5⟩

example : ((newTs 0x123).map fun m => (corAll [1, 7, 50] corExLines 0xFFFFFFFF 5 188 m 0 []).2)
    = (newTs 0x123).map fun m => (true, 12, 0, 2, FeedOut.bytes (feed m corExLines 0xFFFFFFFF 5 0).2) := by
  decide +kernel

end Zvbi.Mux
