import ZvbiModel.Mux.RawPes
/-!
# Lemmas: the loop of `generate_pes_packet` with raw lines (both source shapes) and the packet
-/
namespace Zvbi.Mux
open Zvbi.Mux.EnParse Zvbi.Mux.RawSpec

/-- `insert_sliced_data_units`, every line converted: the space left is what was not used -/
theorem insertSliced_pLeft (mask : Nat) (fixed : Bool) (lines : List Sliced) (hwf : ∀ s ∈ lines, Sliced.WF s) :
    ∀ pLeft lastLine lastDu,
      (insertSliced mask fixed pLeft lastLine lastDu lines).err = none →
      (insertSliced mask fixed pLeft lastLine lastDu lines).rest = [] →
      (insertSliced mask fixed pLeft lastLine lastDu lines).pLeft
        = pLeft - (insertSliced mask fixed pLeft lastLine lastDu lines).out.length := by
  induction lines with
  | nil => intro pLeft lastLine lastDu _ _; simp [insertSliced]
  | cons s rest ih =>
    have hwf' : ∀ s ∈ rest, Sliced.WF s := fun x hx => hwf x (List.mem_cons_of_mem _ hx)
    have hs : Sliced.WF s := hwf s (List.mem_cons_self ..)
    intro pLeft lastLine lastDu
    rw [insertSliced]
    by_cases hm : s.id &&& mask = 0
    · rw [if_pos hm]; exact ih hwf' pLeft lastLine lastDu
    · rw [if_neg hm]
      by_cases ho : s.line > 0 ∧ s.line ≤ lastLine
      · rw [if_pos ho]; intro he; simp at he
      · rw [if_neg ho]
        simp only []
        cases hd : duSizeOf s.id s.line with
        | error e => simp only []; intro he; simp at he
        | ok du0 =>
          simp only []
          by_cases hfit : (if fixed = true then 46 else du0) > pLeft
          · rw [if_pos hfit]; intro _ hr; simp at hr
          · rw [if_neg hfit]
            cases hl : lofpOf s.line (if s.line > 0 then s.line else lastLine) with
            | error e => simp only []; intro he; simp at he
            | ok lofp =>
              simp only []
              obtain ⟨u, l, hb, hc, hu, hlen, hid, hperm⟩ := line_unit s hs fixed _ du0 lofp hd hl
              rw [hb]
              simp only []
              intro he hr
              rw [ih hwf' _ _ _ he hr]
              have hlen1 : (encUnits [u]).length = (if fixed = true then 46 else du0) := by
                rw [encUnits_single]; simp only [List.length_cons]; omega
              rw [List.length_append, hlen1]
              omega

/-- what `generate_pes_packet` knows as `last_du_size` when the loop ends, per source shape -/
def DuOK (keep : Bool) (lastDu0 : Nat) (us : List DataUnit) (du : Nat) : Prop :=
  if keep then du = (if us = [] then lastDu0 else lastSize us)
  else (du = 0 ∨ (us ≠ [] ∧ du = lastSize us ∧ du ≤ 46))

def dfltSp : Sp := ⟨0, 0, 0, 0, 0, 0, false⟩

/-- a selected line the multiplexer accepted was a permitted one -/
def PermittedAny (raw : Option Bytes) (sp : Option Sp) (s : Sliced) : Prop :=
  Permitted s ∨ ∃ rawb sp', raw = some rawb ∧ sp = some sp' ∧ PermittedRaw sp' s
    ∧ (rawLineOf rawb sp' s.line).px.length = sp'.spl

structure LoopOK (keep : Bool) (mask : Nat) (fixed : Bool) (raw : Option Bytes) (sp : Option Sp)
    (pLeft lastDu : Nat) (todo : List Sliced) (out : Bytes) (du : Nat) (st' : RawSt)
    (us : List DataUnit) (is : List Item) : Prop where
  enc : out = encUnits us
  good : ∀ u ∈ us, GoodItemUnit fixed u
  items : unitsItems us = some is
  asm : ∀ tail, assembleGo none (is ++ tail)
          = (assembleGo none tail).map (sentR mask (raw.getD []) (sp.getD dfltSp) todo ++ ·)
  room : (encUnits us).length ≤ pLeft
  du : DuOK keep lastDu us du
  crit : us ≠ [] → lastSize us ≥ 257 → pLeft - (encUnits us).length ≠ 1
  left0 : st'.left = 0
  perm : ∀ s ∈ todo, s.id &&& mask ≠ 0 → PermittedAny raw sp s

theorem assembleGo_append_map (is1 : List Item) (o1 : List Out)
    (h1 : ∀ tail, assembleGo none (is1 ++ tail) = (assembleGo none tail).map (o1 ++ ·))
    (is2 : List Item) (o2 : List Out)
    (h2 : ∀ tail, assembleGo none (is2 ++ tail) = (assembleGo none tail).map (o2 ++ ·)) :
    ∀ tail, assembleGo none ((is1 ++ is2) ++ tail) = (assembleGo none tail).map ((o1 ++ o2) ++ ·) := by
  intro tail
  rw [List.append_assoc, h1, h2, Option.map_map]
  congr 1
  funext x
  simp

theorem lastSize_goodUnits_le (fixed : Bool) (us : List DataUnit) (h : ∀ u ∈ us, GoodUnit fixed u) : lastSize us ≤ 46 :=
  lastSize_le us 46 (fun u hu => (h u hu).2.1)

theorem genLoopR_ok (keep : Bool) (mask : Nat) (fixed : Bool) (raw : Option Bytes) (sp : Option Sp)
    (hsp : ∀ sp', sp = some sp' → validSp sp' = true) :
    ∀ (fuel pLeft lastLine lastDu : Nat) (st : RawSt) (todo : List Sliced) (out : Bytes) (du : Nat) (st' : RawSt),
      (∀ s ∈ todo, Sliced.WF s) → st.left = 0 →
      genLoopR keep mask fixed raw sp fuel pLeft lastLine lastDu st todo = .ok (out, du, [], st') →
      ∃ us is, LoopOK keep mask fixed raw sp pLeft lastDu todo out du st' us is := by
  intro fuel
  induction fuel with
  | zero => intro pLeft lastLine lastDu st todo out du st' _ _ hg; simp [genLoopR] at hg
  | succ fuel ih =>
    intro pLeft lastLine lastDu st todo out du st' hwf hst hg
    rw [genLoopR] at hg
    cases hs : scanSeg lastLine todo with
    | error off => rw [hs] at hg; simp at hg
    | ok x =>
      obtain ⟨seg, ll, rest⟩ := x
      rw [hs] at hg
      simp only [] at hg
      obtain ⟨htodo, hnoraw, hrest⟩ := scanSeg_spec todo _ _ _ _ hs
      have hwfseg : ∀ s ∈ seg, Sliced.WF s := fun x hx => hwf x (by rw [htodo]; exact List.mem_append_left _ hx)
      have hwfrest : ∀ s ∈ rest, Sliced.WF s := fun x hx => hwf x (by rw [htodo]; exact List.mem_append_right _ hx)
      cases he : (insertSliced mask fixed pLeft (segStart lastLine) 0 seg).err with
      | some e => rw [he] at hg; simp at hg
      | none =>
        rw [he] at hg
        simp only [] at hg
        by_cases hr : (insertSliced mask fixed pLeft (segStart lastLine) 0 seg).rest ≠ []
        · rw [if_pos hr] at hg
          simp only [Except.ok.injEq, Prod.mk.injEq, List.append_eq_nil_iff] at hg
          exact absurd hg.2.2.1.1 hr
        · rw [if_neg hr] at hg
          have hr0 : (insertSliced mask fixed pLeft (segStart lastLine) 0 seg).rest = [] := by simpa using hr
          obtain ⟨us0, h1, h2, h3, h4, h5, h6⟩ := insertSliced_ok mask fixed seg hwfseg pLeft (segStart lastLine) 0 he hr0
          have hpl := insertSliced_pLeft mask fixed seg hwfseg pLeft (segStart lastLine) 0 he hr0
          have hitems0 := unitsItems_of_lines fixed us0 _ h3 h2
          have hgood0 : ∀ u ∈ us0, GoodItemUnit fixed u := fun u hu => goodItem_of_goodUnit fixed u (h3 u hu)
          have hasm0 : ∀ tail, assembleGo none ((sent mask seg).map Item.line ++ tail)
              = (assembleGo none tail).map (sentR mask (raw.getD []) (sp.getD dfltSp) seg ++ ·) := by
            intro tail
            rw [assembleGo_lines, sentR_noraw mask _ _ seg hnoraw]
          have hls0 : lastSize us0 ≤ 46 := lastSize_goodUnits_le fixed us0 h3
          have hperm0 : ∀ s ∈ seg, s.id &&& mask ≠ 0 → PermittedAny raw sp s := fun s hs hm => Or.inl (h6 s hs hm)
          rw [h1] at h5 hpl
          -- last_du_size after the sliced segment
          have hdu0 : DuOK keep lastDu us0 (nextLastDu keep lastDu (insertSliced mask fixed pLeft (segStart lastLine) 0 seg).lastDu) := by
            rw [h4]; unfold DuOK nextLastDu
            cases keep
            · simp only [Bool.false_eq_true, if_false]
              by_cases hn : us0 = []
              · left; simp [hn]
              · right; exact ⟨hn, by simp [hn], by simp [hn]; exact hls0⟩
            · simp only [if_true]
              by_cases hn : us0 = []
              · simp [hn]
              · have : lastSize us0 > 0 := by
                  obtain ⟨init, u, rfl⟩ := exists_concat us0 hn
                  rw [lastSize_concat]; omega
                simp [hn, this]
          cases rest with
          | nil =>
            simp only [Except.ok.injEq, Prod.mk.injEq] at hg
            obtain ⟨rfl, rfl, _, rfl⟩ := hg
            rw [List.append_nil] at htodo
            subst htodo
            exact ⟨us0, _, h1, hgood0, hitems0,
              by intro tail; exact hasm0 tail, h5, hdu0,
              by intro _ h257; omega, hst, hperm0⟩
          | cons rawLine rest' =>
            have hrawid : rawLine.id = SL_VBI625 := by
              rcases hrest with h | ⟨r, rest'', h, hid⟩
              · cases h
              · injection h with ha hb; rw [ha]; exact hid
            have hwfrest' : ∀ s ∈ rest', Sliced.WF s := fun x hx => hwfrest x (List.mem_cons_of_mem _ hx)
            simp only [] at hg
            by_cases hm : mask &&& SL_VBI625 = 0
            · -- the raw line is masked out: the frame continues behind it
              rw [if_pos hm] at hg
              cases hrec : genLoopR keep mask fixed raw sp fuel (insertSliced mask fixed pLeft (segStart lastLine) 0 seg).pLeft ll
                  (nextLastDu keep lastDu (insertSliced mask fixed pLeft (segStart lastLine) 0 seg).lastDu) st rest' with
              | error e => rw [hrec] at hg; simp at hg
              | ok y =>
                obtain ⟨o, du', left, st''⟩ := y
                rw [hrec] at hg
                simp only [Except.ok.injEq, Prod.mk.injEq] at hg
                obtain ⟨rfl, rfl, rfl, rfl⟩ := hg
                obtain ⟨us1, is1, H⟩ := ih _ _ _ _ _ _ _ _ hwfrest' hst hrec
                rw [hpl] at H
                have hmaskraw : rawLine.id &&& mask = 0 := by rw [hrawid, Nat.and_comm]; exact hm
                refine ⟨us0 ++ us1, (sent mask seg).map Item.line ++ is1, ?_⟩
                constructor
                · rw [h1, H.enc, encUnits_append]
                · intro u hu
                  rcases List.mem_append.mp hu with hu | hu
                  · exact hgood0 u hu
                  · exact H.good u hu
                · exact unitsItems_append _ _ _ _ hitems0 H.items
                · have hsent : sentR mask (raw.getD []) (sp.getD dfltSp) todo
                      = sentR mask (raw.getD []) (sp.getD dfltSp) seg ++ sentR mask (raw.getD []) (sp.getD dfltSp) rest' := by
                    rw [htodo, sentR_append]
                    congr 1
                    simp only [sentR, hmaskraw, if_true]
                  rw [hsent]
                  exact assembleGo_append_map _ _ hasm0 _ _ H.asm
                · rw [encUnits_append, List.length_append]
                  have := H.room; omega
                · -- last_du_size
                  have hd1 := H.du
                  unfold DuOK at hd1 hdu0 ⊢
                  cases keep
                  · simp only [Bool.false_eq_true, if_false] at hd1 hdu0 ⊢
                    rcases hd1 with hd1 | ⟨hn1, hd1, hle⟩
                    · exact Or.inl hd1
                    · right
                      exact ⟨by simp [hn1], by rw [lastSize_append, if_neg hn1]; exact hd1, hle⟩
                  · simp only [if_true] at hd1 hdu0 ⊢
                    rw [hd1, lastSize_append]
                    by_cases hn1 : us1 = []
                    · simp only [hn1, if_true, List.append_nil]; exact hdu0
                    · simp [hn1]
                · intro _ h257
                  rw [encUnits_append, List.length_append]
                  rw [lastSize_append] at h257
                  by_cases hn1 : us1 = []
                  · rw [if_pos hn1] at h257; omega
                  · rw [if_neg hn1] at h257
                    have := H.crit hn1 h257
                    omega
                · exact H.left0
                · intro s hs hms
                  rw [htodo] at hs
                  rcases List.mem_append.mp hs with hs | hs
                  · exact hperm0 s hs hms
                  · rcases List.mem_cons.mp hs with rfl | hs
                    · exact absurd hmaskraw hms
                    · exact H.perm s hs hms
            · -- a raw line to be sent
              rw [if_neg hm] at hg
              simp only [hst, if_true] at hg
              cases hsmp : samplesPointer raw sp rawLine.line with
              | error e => rw [hsmp] at hg; simp at hg
              | ok smp =>
                obtain ⟨rawb, sp', hrawsome, hspsome, hsmpeq, hsmplen, hrange⟩ := samplesPointer_ok raw sp _ smp hsmp
                subst hrawsome hspsome
                rw [hsmp] at hg
                simp only [] at hg
                have hv := hsp sp' rfl
                obtain ⟨ho, hend, hspl⟩ := validSp_bounds sp' hv
                rw [if_neg (by omega)] at hg
                cases hir : insertRaw (insertSliced mask fixed pLeft (segStart lastLine) 0 seg).pLeft smp fixed VIDEOSTD_625 rawLine.line
                    ((sp'.offset + 2 ^ 32 - BT601_625_OFFSET) % 2 ^ 32) sp'.spl true with
                | error e => rw [hir] at hg; simp at hg
                | ok rr =>
                  rw [hir] at hg
                  simp only [] at hg
                  by_cases hrl : rr.rest.length > 0
                  · rw [if_pos hrl] at hg
                    simp at hg
                  · rw [if_neg hrl] at hg
                    have hrl0 : rr.rest.length = 0 := by omega
                    have hline : rawLine.line < 2 ^ 32 := (hwfrest rawLine (List.mem_cons_self ..)).2.1
                    obtain ⟨hlr, usr, isr, r1, rne, r2, r3, r4, r5, r6, r7, r8⟩ :=
                      insertRaw_ok _ fixed rawLine.line hline sp' hv smp hsmplen rr hir hrl0
                    cases hrec : genLoopR keep mask fixed (some rawb) (some sp') fuel rr.pLeft ll
                        (nextLastDu keep (nextLastDu keep lastDu (insertSliced mask fixed pLeft (segStart lastLine) 0 seg).lastDu) rr.lastDu)
                        { st with left := 0 } rest' with
                    | error e => rw [hrec] at hg; simp at hg
                    | ok y =>
                      obtain ⟨o, du', left, st''⟩ := y
                      rw [hrec] at hg
                      simp only [Except.ok.injEq, Prod.mk.injEq] at hg
                      obtain ⟨rfl, rfl, rfl, rfl⟩ := hg
                      obtain ⟨us1, is1, H⟩ := ih _ _ _ _ _ _ _ _ hwfrest' rfl hrec
                      rw [r5, hpl] at H
                      have hselraw : ¬ rawLine.id &&& mask = 0 := by rw [hrawid, Nat.and_comm]; exact hm
                      have hlsr : lastSize usr > 0 := by
                        obtain ⟨init, u, rfl⟩ := exists_concat usr rne
                        rw [lastSize_concat]; omega
                      refine ⟨us0 ++ usr ++ us1, ((sent mask seg).map Item.line ++ isr) ++ is1, ?_⟩
                      constructor
                      · rw [h1, r1, H.enc, encUnits_append, encUnits_append]
                      · intro u hu
                        rcases List.mem_append.mp hu with hu | hu
                        · rcases List.mem_append.mp hu with hu | hu
                          · exact hgood0 u hu
                          · exact r2 u hu
                        · exact H.good u hu
                      · exact unitsItems_append _ _ _ _ (unitsItems_append _ _ _ _ hitems0 r7) H.items
                      · have hsent : sentR mask ((some rawb).getD []) ((some sp').getD dfltSp) todo
                            = (sentR mask rawb sp' seg ++ [Out.raw ⟨rawLine.line, sp'.offset - 132, smp⟩])
                              ++ sentR mask rawb sp' rest' := by
                          rw [htodo, sentR_append]
                          simp only [Option.getD_some, List.append_assoc]
                          congr 1
                          have hselraw' : ¬ SL_VBI625 &&& mask = 0 := by rw [← hrawid]; exact hselraw
                          simp only [sentR, hrawid, hselraw', if_false, if_true, List.singleton_append]
                          rw [hsmpeq]
                          rfl
                        rw [hsent]
                        refine assembleGo_append_map _ _ (assembleGo_append_map _ _ hasm0 _ _ ?_) _ _ H.asm
                        intro tail
                        rw [r8 tail]
                        rfl
                      · rw [encUnits_append, encUnits_append, List.length_append, List.length_append]
                        have := H.room; omega
                      · -- last_du_size
                        have hd1 := H.du
                        unfold DuOK at hd1 hdu0 ⊢
                        cases keep
                        · simp only [Bool.false_eq_true, if_false] at hd1 hdu0 ⊢
                          rcases hd1 with hd1 | ⟨hn1, hd1, hle⟩
                          · exact Or.inl hd1
                          · right
                            exact ⟨by simp [hn1], by rw [lastSize_append, if_neg hn1]; exact hd1, hle⟩
                        · simp only [if_true] at hd1 hdu0 ⊢
                          rw [hd1, lastSize_append]
                          by_cases hn1 : us1 = []
                          · simp only [hn1, if_true, List.append_nil]
                            have : us0 ++ usr ≠ [] := by simp [rne]
                            rw [if_neg this, lastSize_append, if_neg rne]
                            unfold nextLastDu
                            simp only [if_true]
                            rw [r3, if_pos hlsr]
                          · simp [hn1]
                      · intro _ h257
                        rw [encUnits_append, encUnits_append, List.length_append, List.length_append]
                        rw [lastSize_append] at h257
                        by_cases hn1 : us1 = []
                        · rw [if_pos hn1, lastSize_append, if_neg rne] at h257
                          have := r6 h257
                          subst hn1
                          simp only [encUnits, List.length_nil, Nat.add_zero]
                          omega
                        · rw [if_neg hn1] at h257
                          have := H.crit hn1 h257
                          omega
                      · exact H.left0
                      · intro s hs hms
                        rw [htodo] at hs
                        rcases List.mem_append.mp hs with hs | hs
                        · exact hperm0 s hs hms
                        · rcases List.mem_cons.mp hs with rfl | hs
                          · exact Or.inr ⟨rawb, sp', rfl, rfl, ⟨hrawid, hlr, hrange⟩, by rw [← hsmpeq]; exact hsmplen⟩
                          · exact H.perm s hs hms

end Zvbi.Mux
