import ZvbiModel.Mux.Spec
import ZvbiModel.Mux.RawModel
/-!
# RawSpec - the independent reader extended to "monochrome 4:2:2 samples" data units

Written from EN 301 775 section 4.9 (tables 12, 13), not from dvb_mux.c:

* data_unit_id 0xC6; data_field = first_segment_flag, last_segment_flag, field_parity,
  line_offset [5] (7..23), first_pixel_position [16], n_pixels [8], n_pixels Y values, then
  stuffing bytes 0xFF up to data_unit_length (table 1);
* first_pixel_position + n_pixels <= 720 (the digital active line of ITU-R BT.601), n_pixels >= 1;
* the samples of one VBI line may be split into segments, which are sent in consecutive data units
  in order: the first carries first_segment_flag, the last last_segment_flag, each segment starts
  where the one before ended, field and line do not change; a line is complete within the packet.

`assemble` is that reading of a whole data unit region; it yields the sliced lines and the
reassembled raw lines in transmission order.  The sender side (`sentR`) says what a frame with
raw line requests is supposed to carry.
-/
namespace Zvbi.Mux.RawSpec
open Zvbi.Mux Zvbi.Mux.EnParse

/-- one monochrome data unit -/
structure Seg where
  first : Bool
  last : Bool
  line : Nat          -- frame line: line_offset on the first field, 313 + line_offset on the second
  pos : Nat           -- first_pixel_position
  px : Bytes
deriving DecidableEq, Repr, Inhabited

/-- EN 301 775 4.9, one data unit with data_unit_id 0xC6 -/
def unitSeg (u : DataUnit) : Option Seg :=
  let p := u.payload
  if p.length < 4 then none
  else
    let b := p.getD 0 0
    let n := p.getD 3 0
    let pos := p.getD 1 0 * 256 + p.getD 2 0
    let off := b % 32
    if p.length < 4 + n ∨ ¬ allFF (p.drop (4 + n)) then none
    else if off < 7 ∨ off > 23 then none
    else if n = 0 ∨ pos + n > 720 then none
    else some ⟨b / 128 % 2 == 1, b / 64 % 2 == 1, if b / 32 % 2 = 1 then off else 313 + off, pos, (p.drop 4).take n⟩

/-- a reassembled raw VBI line: frame line, position of its first sample, samples -/
structure RawLine where
  line : Nat
  pos : Nat
  px : Bytes
deriving DecidableEq, Repr, Inhabited

inductive Item
  | stuffing
  | line (l : Line)
  | seg (s : Seg)
deriving DecidableEq, Repr, Inhabited

/-- one data unit of any kind -/
def unitItem (u : DataUnit) : Option Item :=
  if u.id = 0xC6 then (unitSeg u).map .seg
  else match unitLine u with
    | none => none
    | some none => some .stuffing
    | some (some l) => some (.line l)

def unitsItems : List DataUnit → Option (List Item)
  | [] => some []
  | u :: us =>
    match unitItem u, unitsItems us with
    | some i, some is => some (i :: is)
    | _, _ => none

inductive Out
  | line (l : Line)
  | raw (r : RawLine)
deriving DecidableEq, Repr, Inhabited

/-- reading the items of one packet in order; `cur` is the raw line whose segments are being
    collected.  Segments of one line are adjacent data units, contiguous, same line; nothing else
    (no sliced line, no stuffing, not the end of the packet) may come between them. -/
def assembleGo : Option RawLine → List Item → Option (List Out)
  | none, [] => some []
  | some _, [] => none
  | none, .stuffing :: is => assembleGo none is
  | some _, .stuffing :: _ => none
  | none, .line l :: is => (assembleGo none is).map (Out.line l :: ·)
  | some _, .line _ :: _ => none
  | none, .seg s :: is =>
    if ¬ s.first then none
    else if s.last then (assembleGo none is).map (Out.raw ⟨s.line, s.pos, s.px⟩ :: ·)
    else assembleGo (some ⟨s.line, s.pos, s.px⟩) is
  | some c, .seg s :: is =>
    if s.first ∨ s.line ≠ c.line ∨ s.pos ≠ c.pos + c.px.length then none
    else if s.last then (assembleGo none is).map (Out.raw ⟨c.line, c.pos, c.px ++ s.px⟩ :: ·)
    else assembleGo (some ⟨c.line, c.pos, c.px ++ s.px⟩) is

def assemble (is : List Item) : Option (List Out) := assembleGo none is

structure PesR where
  pts : Nat
  dataId : Nat
  size : Nat
  units : List DataUnit
  items : List Out
deriving DecidableEq, Repr, Inhabited

/-- one complete VBI PES packet which may hold raw data units (header as `EnParse.parsePes`) -/
def parsePesR (bs : Bytes) : Option PesR :=
  match bs with
  | 0x00 :: 0x00 :: 0x01 :: 0xBD :: lenHi :: lenLo :: b6 :: b7 :: b8 :: rest =>
    let ptsBytes := rest.take 5
    let stuffing := (rest.drop 5).take 31
    let dataId := (rest.drop 36).getD 0 0
    let body := rest.drop 37
    if lenHi * 256 + lenLo + 6 ≠ bs.length ∨ bs.length % 184 ≠ 0 then none
    else if b6 / 64 ≠ 2 ∨ b6 / 16 % 4 ≠ 0 ∨ b6 / 4 % 2 ≠ 1 ∨ b7 ≠ 0x80 ∨ b8 ≠ 0x24 then none
    else if rest.length < 37 ∨ stuffing ≠ List.replicate 31 0xFF ∨ ¬ validDataId dataId then none
    else
      match parsePts ptsBytes, parseUnits body with
      | some pts, some us =>
        if dataId ≤ 0x1F ∧ ¬ us.all (fun u => u.payload.length == 0x2C) then none
        else match (unitsItems us).bind assemble with
          | some os => some ⟨pts, dataId, bs.length, us, os⟩
          | none => none
      | _, _ => none
  | _ => none

/-! ## the sender's view -/

/-- the raw line a `VBI_SLICED_VBI_625` request selects: `spl` samples at row `line - start` of its
    field in the raw frame (fields stacked, or interleaved), placed `offset - 132` samples into
    the digital active line -/
def rawLineOf (raw : Bytes) (sp : Sp) (line : Nat) : RawLine :=
  let row0 := line - (if line ≥ 313 then sp.start1 else sp.start0)
  let row := if sp.interlaced then row0 * 2 + (if line ≥ 313 then 1 else 0)
             else if line ≥ 313 then row0 + sp.count0 else row0
  ⟨line, sp.offset - 132, (raw.drop (row * sp.spl)).take sp.spl⟩

/-- what a frame is to deliver: the selected sliced lines and raw lines, in order -/
def sentR (mask : Nat) (raw : Bytes) (sp : Sp) : List Sliced → List Out
  | [] => []
  | s :: rest =>
    if s.id &&& mask = 0 then sentR mask raw sp rest
    else if s.id = SL_VBI625 then Out.raw (rawLineOf raw sp s.line) :: sentR mask raw sp rest
    else match canon s with
      | some l => Out.line l :: sentR mask raw sp rest
      | none => sentR mask raw sp rest

/-- a raw line request the multiplexer is specified to accept: lines 7..23 / 320..336 (EN 301 775
    table 12), present in the raw frame -/
def PermittedRaw (sp : Sp) (s : Sliced) : Prop :=
  s.id = SL_VBI625 ∧ ((7 ≤ s.line ∧ s.line ≤ 23) ∨ (320 ≤ s.line ∧ s.line ≤ 336))
  ∧ (if s.line ≥ 313 then sp.start1 ≤ s.line ∧ s.line < sp.start1 + sp.count1
     else sp.start0 ≤ s.line ∧ s.line < sp.start0 + sp.count0)

instance (sp : Sp) (s : Sliced) : Decidable (PermittedRaw sp s) := by unfold PermittedRaw; infer_instance

end Zvbi.Mux.RawSpec
