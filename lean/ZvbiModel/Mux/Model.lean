import ZvbiModel.Hamm.Model
import ZvbiModel.Generated.MuxFlags
/-!
# Model of src/dvb_mux.c (sliced services; `raw == NULL`, `sp == NULL`)

Transcription conventions (DESIGN.md section 3).  Byte buffers are `List Nat`
(every element `< 256`); the output pointer `p` walking through `mx->packet` is
the list of bytes produced so far, so "`p[1 - last_du_size] = ...`" is a `set` at
a computed index that can miss (`.oob`).  `assert` is `.assertFail site`.
`unsigned int` fields are `Nat` reduced `% 2^32` where the C code can wrap.

Covered: `encode_stuffing`, `insert_sliced_data_units`, `vbi_dvb_multiplex_sliced`,
`encode_timestamp`, `init_pes_packet_header`, `generate_pes_packet` (with the raw
line bookkeeping as far as it is reachable with `raw == NULL`),
`generate_ts_packet_header`, `vbi_dvb_mux_feed`, `vbi_dvb_mux_cor`,
`vbi_dvb_mux_reset`, `vbi_dvb_mux_set_data_identifier`,
`vbi_dvb_mux_set_pes_packet_size`, `vbi_dvb_pes_mux_new`, `vbi_dvb_ts_mux_new`.
Not covered (oracle only): `insert_raw_data_units`, `vbi_dvb_multiplex_raw`.
-/
namespace Zvbi.Mux
open Zvbi.Hamm

abbrev Bytes := List Nat

/-- `vbi_sliced`: `uint32_t id, line; uint8_t data[56]` -/
structure Sliced where
  id : Nat
  line : Nat
  data : Bytes
deriving Repr, DecidableEq, Inhabited

/-! constants of sliced.h / dvb.h / dvb_mux.c (cross-checked by the `consts` op on every run) -/
def SL_TTX_L10 : Nat := 1
def SL_TTX_L25 : Nat := 2
def SL_TTX : Nat := 3
def SL_VPS : Nat := 4
def SL_VPS_F2 : Nat := 0x1000
def SL_CC_F1 : Nat := 8
def SL_CC : Nat := 0x18
def SL_WSS : Nat := 0x400
def SL_VBI625 : Nat := 0x20000000
def MAX_PES : Nat := 65504
def DU_TTX : Nat := 0x02
def DU_VPS : Nat := 0xC3
def DU_WSS : Nat := 0xC4
def DU_CC : Nat := 0xC5
def DU_STUFF : Nat := 0xFF
def PRIVATE_STREAM_1 : Nat := 0xBD
def F2_START : Nat := 313

inductive Err
  | lineOrder | invalidService | lineNumber | noRawData | bufferOverflow | noSlicedData
  | assertFail (site : String) | oob (site : String)
deriving Repr, DecidableEq, Inhabited

def Err.name : Err → String
  | .lineOrder => "line_order" | .invalidService => "invalid_service" | .lineNumber => "line_number"
  | .noRawData => "no_raw_data" | .bufferOverflow => "buffer_overflow" | .noSlicedData => "no_sliced_data"
  | .assertFail s => "assert:" ++ s | .oob s => "oob:" ++ s

/-- `s->data[i]` -/
def Sliced.byte (s : Sliced) (i : Nat) : Nat := s.data.getD i 0

/-! ## encode_stuffing (dvb_mux.c:134) -/

/-- one stuffing data unit of total size `n >= 2`: `FF, n-2, FF * (n-2)` -/
def stuffUnit (n : Nat) : Bytes := DU_STUFF :: (n - 2) :: List.replicate (n - 2) 0xFF

/-- `p[1 - back] = v` where `p` is byte index `pos` of the buffer written so far -/
def poke (site : String) (buf : Bytes) (pos back v : Nat) : Except Err Bytes :=
  if back ≤ pos + 1 ∧ pos + 1 - back < buf.length then .ok (buf.set (pos + 1 - back) (v % 256))
  else .error (.oob site)

/-- `encode_stuffing (p, p_left, last_du_size, fixed_length)` where `prev` is everything
    stored before `p`; returns `prev` (possibly with the length byte of its last data
    unit changed) followed by exactly `p_left` bytes. -/
def encodeStuffing (prev : Bytes) (pLeft lastDu : Nat) (fixed : Bool) : Except Err Bytes :=
  let duSize := if fixed then 46 else 257
  -- memset (p, 0xFF, p_left); while (p_left >= du_size) { p[1] = du_size - 2; ... }
  let k := pLeft / duSize
  let r := pLeft % duSize
  let buf := prev ++ (List.replicate k (stuffUnit duSize)).flatten
  let lastDu := if k > 0 then duSize else lastDu
  if r = 0 then .ok buf
  else if fixed then .error (.assertFail "dvb_mux.c:159 !fixed_length")
  else if r ≥ 2 then .ok (buf ++ stuffUnit r)
  else if lastDu < 2 then .error (.assertFail "dvb_mux.c:167 last_du_size >= 2")
  else
    let p := buf.length
    let buf1 := buf ++ [0xFF]
    if lastDu = 257 then
      match poke "dvb_mux.c:170" buf1 p 257 (256 - 2) with
      | .error e => .error e
      | .ok b => poke "dvb_mux.c:171" b p 1 (2 - 2)
    else
      poke "dvb_mux.c:175" buf1 p lastDu (lastDu - 1)

/-! ## insert_sliced_data_units (dvb_mux.c:241) -/

/-- the `switch (s->id)`: data unit size, or the error of `bad_line` / `bad_service` (strict = TRUE) -/
def duSizeOf (id line : Nat) : Except Err Nat :=
  if id = SL_TTX_L10 ∨ id = SL_TTX_L25 ∨ id = SL_TTX then
    if line = 0 then .ok 46
    else
      let l := if line ≥ F2_START then line - F2_START else line
      -- `line - 7 > 22 - 7` in unsigned arithmetic
      if (l + 2 ^ 32 - 7) % 2 ^ 32 > 15 then .error .lineNumber else .ok 46
  else if id = SL_VPS then (if line ≠ 16 then .error .lineNumber else .ok 16)
  else if id = SL_WSS then (if line ≠ 23 then .error .lineNumber else .ok 5)
  else if id = SL_CC ∨ id = SL_CC_F1 then (if line ≠ 21 then .error .lineNumber else .ok 5)
  else .error .invalidService

/-- reserved '11', field_parity, line_offset [5] (dvb_mux.c:412-438) -/
def lofpOf (line lastLine : Nat) : Except Err Nat :=
  if line = 0 then (if lastLine ≥ F2_START then .ok 0xC0 else .ok 0xE0)
  else if line < 32 then .ok (0xE0 + line)
  else if line < F2_START then .error .lineNumber
  else if line < F2_START + 32 then .ok (0xC0 + line - F2_START)
  else .error .lineNumber

/-- the bytes of one data unit (dvb_mux.c:440-503), padded with 0xFF to `duSize` -/
def duBytes (s : Sliced) (duSize lofp : Nat) : Except Err Bytes :=
  let body : Option Bytes :=
    if s.id &&& SL_TTX ≠ 0 then
      some ([DU_TTX, duSize - 2, lofp, 0xE4] ++ (List.range 42).map (fun i => rev8 (s.byte i)))
    else if s.id &&& (SL_VPS ||| SL_VPS_F2) ≠ 0 then
      some ([DU_VPS, duSize - 2, lofp] ++ (List.range 13).map s.byte)
    else if s.id &&& SL_WSS ≠ 0 then
      some [DU_WSS, duSize - 2, lofp, rev8 (s.byte 0), rev8 (s.byte 1) ||| 3]
    else if s.id &&& SL_CC ≠ 0 then
      some [DU_CC, duSize - 2, lofp, rev8 (s.byte 0), rev8 (s.byte 1)]
    else none
  match body with
  | none => .error (.assertFail "dvb_mux.c:502")
  | some b => .ok (b ++ List.replicate (duSize - b.length) 0xFF)

structure InsResult where
  out : Bytes              -- bytes stored from `*packet` on
  pLeft : Nat
  lastDu : Nat             -- `*last_du_size`
  rest : List Sliced       -- `*sliced` .. end (first element is the offending line on error)
  err : Option Err
deriving Repr

/-- the `for` loop of `insert_sliced_data_units`; `lastLine`, `lastDu` start at 0 -/
def insertSliced (mask : Nat) (fixed : Bool) (pLeft lastLine lastDu : Nat) : List Sliced → InsResult
  | [] => { out := [], pLeft, lastDu, rest := [], err := none }
  | s :: rest =>
    if s.id &&& mask = 0 then insertSliced mask fixed pLeft lastLine lastDu rest
    else if s.line > 0 ∧ s.line ≤ lastLine then
      { out := [], pLeft, lastDu, rest := s :: rest, err := some .lineOrder }
    else
      let lastLine := if s.line > 0 then s.line else lastLine
      match duSizeOf s.id s.line with
      | .error e => { out := [], pLeft, lastDu, rest := s :: rest, err := some e }
      | .ok du0 =>
        let du := if fixed then 46 else du0
        if du > pLeft then { out := [], pLeft, lastDu, rest := s :: rest, err := none }
        else
          match lofpOf s.line lastLine with
          | .error e => { out := [], pLeft, lastDu, rest := s :: rest, err := some e }
          | .ok lofp =>
            match duBytes s du lofp with
            | .error e => { out := [], pLeft, lastDu, rest := s :: rest, err := some e }
            | .ok b =>
              let r := insertSliced mask fixed (pLeft - du) lastLine du rest
              { r with out := b ++ r.out }

/-- `fixed_length_format (data_identifier)` -/
def fixedLengthFormat (dataId : Nat) : Bool := dataId / 16 == 1

/-! ## vbi_dvb_multiplex_sliced (dvb_mux.c:598), `*packet != NULL` -/

structure MsResult where
  ok : Bool
  out : Bytes          -- bytes written at the old `*packet`
  packetLeft : Nat
  slicedLeft : Nat
deriving Repr

def multiplexSliced (packetLeft : Nat) (lines : List Sliced) (mask dataId : Nat) (stuffing : Bool) :
    Except Err MsResult :=
  let n := lines.length
  if packetLeft < 2 then .ok { ok := false, out := [], packetLeft, slicedLeft := n }
  else
    let fixed := fixedLengthFormat dataId
    if fixed ∧ packetLeft % 46 > 0 then .ok { ok := false, out := [], packetLeft, slicedLeft := n }
    else
      let r := insertSliced mask fixed packetLeft 0 0 lines
      let left := packetLeft - r.out.length
      match r.err with
      | some _ => .ok { ok := false, out := r.out, packetLeft := left, slicedLeft := r.rest.length }
      | none =>
        if stuffing then do
          let b ← encodeStuffing r.out left r.lastDu fixed
          .ok { ok := true, out := b, packetLeft := 0, slicedLeft := r.rest.length }
        else .ok { ok := true, out := r.out, packetLeft := left, slicedLeft := r.rest.length }

/-! ## PES packet generator -/

/-- `encode_timestamp (p, pts, 0x21)`; `u` is the `int64_t` as a two's complement number -/
def encodeTimestamp (u : Nat) : Bytes :=
  let t := u % 2 ^ 32
  [ (0x21 + ((u >>> 29) &&& 0xE)) % 256, (t >>> 22) % 256, ((t >>> 14) ||| 1) % 256, (t >>> 7) % 256,
    (t * 2 + 1) % 256 ]

/-- bytes 0..45 of the PES packet: `init_pes_packet_header`, packet length, PTS, data_identifier -/
def pesHeader (size pts dataId : Nat) : Bytes :=
  [0x00, 0x00, 0x01, PRIVATE_STREAM_1, ((size - 6) >>> 8) % 256, (size - 6) % 256, 0x84, 0x80, 0x24]
    ++ encodeTimestamp pts ++ List.replicate 31 0xFF ++ [dataId % 256]

/-- outer scan of `generate_pes_packet` (dvb_mux.c:1457-1477): walk to the next
    VBI_625 line or the end, checking line order.  `.error off`: LINE_ORDER at the head of `off`. -/
def scanSeg (lastLine : Nat) : List Sliced → Except (List Sliced) (List Sliced × Nat × List Sliced)
  | [] => .ok ([], lastLine, [])
  | s :: rest =>
    if s.line > 0 ∧ s.line ≤ lastLine then .error (s :: rest)
    else
      let ll := if s.line > 0 then s.line else lastLine
      if s.id ≠ SL_VBI625 then
        match scanSeg ll rest with
        | .error off => .error off
        | .ok (seg, l, r) => .ok (s :: seg, l, r)
      else .ok ([], ll, s :: rest)

/-- the `last_line` a call of `insert_sliced_data_units` starts from, for a segment of the frame that begins when the outer
    scan of `generate_pes_packet` has reached `lastLine`: 0 on the unchanged tree (every call restarts, finding C06-D4), the
    line reached so far with fixes/C06-mux-undef-field-after-raw.diff (`Zvbi.Gen.muxSegLastLine`, regenerated from the source by
    translate/gen_muxflags.py on every run) -/
def segStart (lastLine : Nat) : Nat := if Zvbi.Gen.muxSegLastLine then lastLine else 0

/-- the `for (;;)` of `generate_pes_packet` with `raw == NULL`.
    `.ok (bytes, last_du_size, unconverted lines)`; `.error (err, lines from the offending one on)` -/
def genLoop (mask : Nat) (fixed : Bool) : Nat → Nat → Nat → List Sliced →
    Except (Err × List Sliced) (Bytes × Nat × List Sliced)
  | 0, _, _, todo => .error (.assertFail "model fuel", todo)
  | fuel + 1, pLeft, lastLine, todo =>
    match scanSeg lastLine todo with
    | .error off => .error (.lineOrder, off)
    | .ok (seg, ll, rest) =>
      let r := insertSliced mask fixed pLeft (segStart lastLine) 0 seg
      match r.err with
      | some e => .error (e, r.rest ++ rest)
      | none =>
        if r.rest ≠ [] then .ok (r.out, r.lastDu, r.rest ++ rest)
        else
          match rest with
          | [] => .ok (r.out, r.lastDu, [])
          | rawLine :: rest' =>
            if mask &&& SL_VBI625 = 0 then
              match genLoop mask fixed fuel r.pLeft ll rest' with
              | .error e => .error e
              | .ok (o, du, left) => .ok (r.out ++ o, du, left)
            else
              -- samples_pointer (): raw == NULL
              .error (.noRawData, rawLine :: rest')

structure Cfg where
  pid : Nat := 0
  dataId : Nat := 0x10
  minSize : Nat := 184
  maxSize : Nat := MAX_PES
deriving Repr, DecidableEq

/-- `generate_pes_packet`: `.ok (PES packet bytes, unconverted lines)` -/
def generatePes (cfg : Cfg) (lines : List Sliced) (mask pts : Nat) :
    Except (Err × List Sliced) (Bytes × List Sliced) :=
  let fixed := fixedLengthFormat cfg.dataId
  match genLoop mask fixed (lines.length + 1) (cfg.maxSize - 46) 0 lines with
  | .error e => .error e
  | .ok (out, lastDu, left) =>
    let size0 := 46 + out.length
    let pLeft :=
      if size0 < cfg.minSize then cfg.minSize - size0
      else if size0 % 184 > 0 then 184 - size0 % 184 else 0
    let size := size0 + pLeft
    match encodeStuffing out pLeft lastDu fixed with
    | .error e => .error (e, left)
    | .ok body => .ok (pesHeader size pts cfg.dataId ++ body, left)

/-! ## TS packet generator -/

/-- `generate_ts_packet_header`: the four header bytes -/
def tsHeader (pid cc : Nat) (first : Bool) : Bytes :=
  [0x47, ((if first then 0x40 else 0) ||| (pid >>> 8)) % 256, pid % 256, 0x10 + (cc &&& 15)]

/-- the `do { header; callback (188 bytes); offset += 184; } while (offset < packet_size)` of
    `vbi_dvb_mux_feed`: packet `k` is a header followed by PES bytes `184 k .. 184 k + 183` -/
def tsLoop (pid : Nat) : Nat → Bool → Nat → Bytes → List Bytes
  | 0, _, _, _ => []
  | n + 1, first, cc, pes =>
    (tsHeader pid cc first ++ pes.take 184) :: tsLoop pid n false ((cc + 1) % 2 ^ 32) (pes.drop 184)

def tsPackets (pid cc : Nat) (pes : Bytes) : List Bytes :=
  tsLoop pid (max 1 ((pes.length + 183) / 184)) true cc pes

/-! ## the multiplexer object -/

structure Mux where
  cfg : Cfg := {}
  cc : Nat := 0               -- continuity_counter
  corOffset : Nat := 0
  corEnd : Nat := 0
  corTsLeft : Nat := 0
  packet : Bytes := []        -- mx->packet[0 .. cor_end) while coroutine output is pending
deriving Repr, DecidableEq

/-- `vbi_dvb_pes_mux_new` -/
def newPes : Mux := {}

/-- `vbi_dvb_ts_mux_new` -/
def newTs (pid : Nat) : Option Mux :=
  if pid ≤ 0x000F ∨ pid ≥ 0x1FFF then none else some { cfg := { pid := pid } }

/-- `vbi_dvb_mux_set_data_identifier` -/
def setDataIdentifier (m : Mux) (d : Nat) : Mux × Bool :=
  if (d ≥ 0x10 ∧ d < 0x20) ∨ (d ≥ 0x99 ∧ d < 0x9C) then ({ m with cfg := { m.cfg with dataId := d } }, true)
  else (m, false)

/-- `vbi_dvb_mux_set_pes_packet_size` (arguments are `unsigned int`) -/
def setPesPacketSize (m : Mux) (minSize maxSize : Nat) : Mux :=
  let mn := if minSize < 184 then 184 else if minSize > MAX_PES then MAX_PES
            else (minSize + 183) - (minSize + 183) % 184
  let mx := if maxSize < mn then mn else if maxSize > MAX_PES then MAX_PES else maxSize - maxSize % 184
  { m with cfg := { m.cfg with minSize := mn, maxSize := mx } }

/-- `vbi_dvb_mux_reset` -/
def reset (m : Mux) : Mux :=
  { m with cc := ((m.cc + 2 ^ 32 - 1) % 2 ^ 32) &&& 0xF, corOffset := 0, corEnd := 0 }

structure FeedOut where
  ok : Bool
  calls : List (Option Bytes)     -- callback invocations; `none` = the one that returned FALSE
deriving Repr

/-- `if (mx->cor_offset < mx->cor_end) mx->cor_end = 0;` : unconsumed coroutine output is dropped -/
def dropPending (m : Mux) : Mux := if m.corOffset < m.corEnd then { m with corEnd := 0 } else m

/-- `vbi_dvb_mux_feed` with a non-NULL callback that returns FALSE on its `failAt`-th call (0 = never) -/
def feed (m : Mux) (lines : List Sliced) (mask pts failAt : Nat) : Mux × FeedOut :=
  let m := dropPending m
  match generatePes m.cfg lines mask pts with
  | .error _ => (m, { ok := false, calls := [] })
  | .ok (pes, left) =>
    if left ≠ [] then (m, { ok := false, calls := [] })
    else if m.cfg.pid = 0 then
      if failAt = 1 then (m, { ok := false, calls := [none] })
      else (m, { ok := true, calls := [some pes] })
    else
      let pkts := tsPackets m.cfg.pid m.cc pes
      if failAt ≥ 1 ∧ failAt ≤ pkts.length then
        ({ m with cc := (m.cc + failAt) % 2 ^ 32 },
         { ok := false, calls := (pkts.take (failAt - 1)).map some ++ [none] })
      else
        ({ m with cc := (m.cc + pkts.length) % 2 ^ 32 }, { ok := true, calls := pkts.map some })

def FeedOut.bytes (o : FeedOut) : Bytes := (o.calls.filterMap id).flatten

structure CorOut where
  ok : Bool
  out : Bytes
  slicedLeft : Nat
  slicedIdx : Nat          -- `*sliced - sliced`
deriving Repr

/-- `packet[at .. at+4) = hdr` -/
def putHeader (packet : Bytes) (at_ : Nat) (hdr : Bytes) : Bytes :=
  packet.take at_ ++ hdr ++ packet.drop (at_ + 4)

/-- the `do ... while (p_left > 0 && offset < mx->cor_end)` of `vbi_dvb_mux_cor` -/
def corTsLoop (pid corEnd : Nat) : Nat → Bytes → Nat → Nat → Nat → Nat → Bytes → Bytes × Nat × Nat × Nat × Bytes
  | 0, packet, cc, offset, tsLeft, _, acc => (packet, cc, offset, tsLeft, acc)
  | fuel + 1, packet, cc, offset, tsLeft, pLeft, acc =>
    let (packet, cc, offset, tsLeft) :=
      if tsLeft = 0 then
        (putHeader packet (offset - 4) (tsHeader pid cc (offset - 4 == 0)), (cc + 1) % 2 ^ 32, offset - 4, 188)
      else (packet, cc, offset, tsLeft)
    let size := min pLeft tsLeft
    let acc := acc ++ (packet.drop offset).take size
    let pLeft := pLeft - size
    let offset := offset + size
    let tsLeft := tsLeft - size
    if pLeft > 0 ∧ offset < corEnd then corTsLoop pid corEnd fuel packet cc offset tsLeft pLeft acc
    else (packet, cc, offset, tsLeft, acc)

/-- one call of `vbi_dvb_mux_cor` with `*buffer != NULL`, `*buffer_left = bufLeft`,
    `*sliced = lines` (non-NULL), `*sliced_left = lines.length` -/
def cor (m : Mux) (bufLeft : Nat) (lines : List Sliced) (mask pts : Nat) : Mux × CorOut :=
  let n := lines.length
  if bufLeft = 0 then (m, { ok := false, out := [], slicedLeft := n, slicedIdx := 0 })
  else
    let gen : Except (Mux × CorOut) Mux :=
      if m.corOffset ≥ m.corEnd then
        if n = 0 then .error (m, { ok := false, out := [], slicedLeft := n, slicedIdx := 0 })
        else
          match generatePes m.cfg lines mask pts with
          | .error (_, off) =>
            .error ({ m with corEnd := 0, packet := [] },
                    { ok := false, out := [], slicedLeft := off.length, slicedIdx := n - off.length })
          | .ok (pes, left) =>
            if left ≠ [] then
              .error ({ m with corEnd := 0, packet := [] },
                      { ok := false, out := [], slicedLeft := left.length, slicedIdx := n - left.length })
            else
              .ok { m with packet := [0, 0, 0, 0] ++ pes, corEnd := pes.length + 4, corOffset := 4, corTsLeft := 0 }
      else .ok m
    match gen with
    | .error r => r
    | .ok m =>
      let offset := m.corOffset
      let (m, offset, out) :=
        if m.cfg.pid = 0 then
          let size := min bufLeft (m.corEnd - offset)
          (m, offset + size, (m.packet.drop offset).take size)
        else
          let (packet, cc, offset, tsLeft, out) :=
            corTsLoop m.cfg.pid m.corEnd (bufLeft + 1) m.packet m.cc offset m.corTsLeft bufLeft []
          ({ m with packet := packet, cc := cc, corTsLeft := tsLeft }, offset, out)
      let m := { m with corOffset := offset }
      if offset ≥ m.corEnd then (m, { ok := true, out, slicedLeft := 0, slicedIdx := n })
      else (m, { ok := true, out, slicedLeft := n, slicedIdx := 0 })

/-- repeated `vbi_dvb_mux_cor` calls with buffer sizes cycling through `sizes`, as an
    application would: until `*sliced_left == 0` or failure -/
def corAll (sizes : List Nat) (lines : List Sliced) (mask pts : Nat) :
    Nat → Mux → Nat → Bytes → Mux × Bool × Nat × Nat × Nat × Bytes
  | 0, m, calls, acc => (m, true, calls, lines.length, 0, acc)
  | fuel + 1, m, calls, acc =>
    let (m, r) := cor m (sizes.getD (calls % sizes.length) 0) lines mask pts
    let acc := acc ++ r.out
    if r.ok ∧ r.slicedLeft > 0 then corAll sizes lines mask pts fuel m (calls + 1) acc
    else (m, r.ok, calls + 1, r.slicedLeft, r.slicedIdx, acc)

end Zvbi.Mux
