import ZvbiModel.Mux.PesShape
import ZvbiModel.Mux.AcceptLemmas
/-!
# Lemmas: the repaired `generate_pes_packet` never aborts - also for frames it goes on to reject

Structure of the data unit region after ANY run of the loop (all lines converted or not), and the
classification of its error returns.
-/
namespace Zvbi.Mux
open Zvbi.Mux.EnParse Zvbi.Mux.RawSpec

/-- all `encode_stuffing` has to know about the units before it -/
def UnitOK (fixed : Bool) (u : DataUnit) : Prop :=
  u.payload.length + 2 ≤ 257 ∧ (fixed = true → u.payload.length = 0x2C)

/-- region written so far: units `us`, `last_du_size` exact, never one byte short after a full unit -/
structure Region (fixed : Bool) (pLeft lastDu : Nat) (out : Bytes) (du pLeft' : Nat) (us : List DataUnit) : Prop where
  enc : out = encUnits us
  ok : ∀ u ∈ us, UnitOK fixed u
  du : du = if us = [] then lastDu else lastSize us
  room : (encUnits us).length ≤ pLeft
  left : pLeft' = pLeft - (encUnits us).length
  crit : us ≠ [] → lastSize us ≥ 257 → pLeft - (encUnits us).length ≠ 1

theorem insertRawLoop_struct (fixed par : Bool) (l nTotal : Nat) (hl : l ≤ 23) :
    ∀ (fuel pLeft fpp lastDu : Nat) (r : Bytes),
      ∃ us, Region fixed pLeft lastDu
        (insertRawLoop fixed true ((if par then 0x20 else 0) + l) nTotal fuel pLeft fpp lastDu r).out
        (insertRawLoop fixed true ((if par then 0x20 else 0) + l) nTotal fuel pLeft fpp lastDu r).lastDu
        (insertRawLoop fixed true ((if par then 0x20 else 0) + l) nTotal fuel pLeft fpp lastDu r).pLeft us := by
  intro fuel
  have base : ∀ pLeft lastDu, Region fixed pLeft lastDu [] lastDu pLeft [] := fun pLeft lastDu =>
    ⟨rfl, by simp, by simp, by simp [encUnits], by simp [encUnits], by simp⟩
  induction fuel with
  | zero => intro pLeft fpp lastDu r; exact ⟨[], by simpa [insertRawLoop] using base pLeft lastDu⟩
  | succ fuel ih =>
    intro pLeft fpp lastDu r
    rw [insertRawLoop]
    by_cases hr0 : r.length = 0
    · rw [if_pos hr0]; exact ⟨[], base pLeft lastDu⟩
    · rw [if_neg hr0]
      simp only []
      by_cases hmin : (if fixed = true then 46 else 7) > pLeft
      · rw [if_pos hmin]; exact ⟨[], base pLeft lastDu⟩
      · rw [if_neg hmin]
        simp only [↓reduceIte]
        generalize hn : (if fixed = true then min r.length (0x2C - 4)
            else if 2 + 4 + 251 + 1 = pLeft then min r.length 250
            else min (min r.length 251) (pLeft - 6)) = n
        have hnr : n ≤ r.length := by
          rw [← hn]; cases fixed
          · simp only [Bool.false_eq_true, if_false]; split <;> omega
          · simp only [if_true]; omega
        have hn251 : n ≤ 251 := by
          rw [← hn]; cases fixed
          · simp only [Bool.false_eq_true, if_false]; split <;> omega
          · simp only [if_true]; omega
        have hn40 : fixed = true → n ≤ 40 := by
          intro hf; rw [← hn, hf]; simp only [if_true]; omega
        have hdu : (if fixed = true then 46 else 6 + n) ≤ pLeft := by
          cases fixed
          · simp only [Bool.false_eq_true, if_false] at hmin hn ⊢
            rw [← hn]; split <;> omega
          · simpa using hmin
        have hlen_take : (r.take n).length = n := by rw [List.length_take]; omega
        obtain ⟨us, H⟩ := ih (pLeft - (if fixed = true then 46 else 6 + n)) (fpp + n) (if fixed = true then 46 else 6 + n) (r.drop n)
        have hu := rawUnit_eq fixed par l (r.length == nTotal) (r.length == n) fpp (r.take n) hl (by omega)
          (by intro hf; rw [hlen_take]; exact hn40 hf)
        have hpay := rawDU_len fixed (flagByte par l (r.length == nTotal) (r.length == n)) fpp (r.take n)
          (by intro hf; rw [hlen_take]; exact hn40 hf)
        rw [hlen_take] at hpay
        let u := rawDU fixed (flagByte par l (r.length == nTotal) (r.length == n)) fpp (r.take n)
        have hsize : (encUnits [u]).length = (if fixed = true then 46 else 6 + n) := by
          rw [encUnits_single]
          show (u.id :: u.payload.length :: u.payload).length = _
          simp only [List.length_cons]
          show (rawDU fixed _ fpp (r.take n)).payload.length + 1 + 1 = _
          rw [hpay]; cases fixed <;> simp <;> omega
        have hlastu : u.payload.length + 2 = (if fixed = true then 46 else 6 + n) := by
          show (rawDU fixed _ fpp (r.take n)).payload.length + 2 = _
          rw [hpay]; cases fixed <;> simp <;> omega
        refine ⟨u :: us, ?_⟩
        constructor
        · rw [hu, H.enc]
          show encUnits [u] ++ encUnits us = encUnits ([u] ++ us)
          rw [encUnits_append]
        · intro x hx
          rcases List.mem_cons.mp hx with rfl | hx
          · refine ⟨?_, ?_⟩
            · rw [hlastu]; cases fixed <;> simp <;> omega
            · intro hf
              show (rawDU fixed _ fpp (r.take n)).payload.length = _
              rw [hpay, hf]; rfl
          · exact H.ok x hx
        · rw [H.du, lastSize_cons]
          by_cases hus : us = []
          · simp [hus, hlastu]
          · simp [hus]
        · show (encUnits ([u] ++ us)).length ≤ pLeft
          rw [encUnits_append, List.length_append, hsize]
          have := H.room; omega
        · rw [H.left]
          show _ = pLeft - (encUnits ([u] ++ us)).length
          rw [encUnits_append, List.length_append, hsize]
          omega
        · intro _ h257
          show pLeft - (encUnits ([u] ++ us)).length ≠ 1
          rw [encUnits_append, List.length_append, hsize]
          rw [lastSize_cons] at h257
          by_cases hus : us = []
          · rw [if_pos hus, hlastu] at h257
            subst hus
            simp only [encUnits, List.length_nil, Nat.add_zero]
            cases fixed
            · simp only [Bool.false_eq_true, if_false] at h257 hn hdu ⊢
              have h251 : n = 251 := by omega
              rw [h251] at hn
              split at hn <;> omega
            · simp at h257
          · rw [if_neg hus] at h257
            have := H.crit hus h257
            omega

theorem duSizeOf_err (id line : Nat) (e : Err) (h : duSizeOf id line = .error e) : (RErr.base e).isAbort = false := by
  unfold duSizeOf at h
  by_cases h1 : id = SL_TTX_L10 ∨ id = SL_TTX_L25 ∨ id = SL_TTX
  · rw [if_pos h1] at h
    by_cases h0 : line = 0
    · rw [if_pos h0] at h; cases h
    · rw [if_neg h0] at h
      simp only [] at h
      by_cases hc : ((if line ≥ F2_START then line - F2_START else line) + 2 ^ 32 - 7) % 2 ^ 32 > 15
      · rw [if_pos hc] at h; cases h; rfl
      · rw [if_neg hc] at h; cases h
  · rw [if_neg h1] at h
    by_cases h2 : id = SL_VPS
    · rw [if_pos h2] at h; split at h <;> cases h <;> rfl
    · rw [if_neg h2] at h
      by_cases h3 : id = SL_WSS
      · rw [if_pos h3] at h; split at h <;> cases h <;> rfl
      · rw [if_neg h3] at h
        by_cases h4 : id = SL_CC ∨ id = SL_CC_F1
        · rw [if_pos h4] at h; split at h <;> cases h <;> rfl
        · rw [if_neg h4] at h; cases h; rfl

theorem lofpOf_err (line ll : Nat) (e : Err) (h : lofpOf line ll = .error e) : (RErr.base e).isAbort = false := by
  unfold lofpOf at h
  by_cases h0 : line = 0
  · rw [if_pos h0] at h; split at h <;> cases h
  · rw [if_neg h0] at h
    by_cases h1 : line < 32
    · rw [if_pos h1] at h; cases h
    · rw [if_neg h1] at h
      by_cases h2 : line < F2_START
      · rw [if_pos h2] at h; cases h; rfl
      · rw [if_neg h2] at h
        split at h <;> cases h <;> rfl

/-- `insert_sliced_data_units`: structure of whatever was stored; its errors are never aborts -/
def SlicedStruct (fixed : Bool) (pLeft lastDu : Nat) (res : InsResult) : Prop :=
  (∀ e, res.err = some e → (RErr.base e).isAbort = false)
  ∧ ∃ us, res.out = encUnits us
    ∧ (∀ u ∈ us, u.payload.length + 2 ≤ 46 ∧ (fixed = true → u.payload.length = 0x2C))
    ∧ res.lastDu = (if us = [] then lastDu else lastSize us)
    ∧ (encUnits us).length ≤ pLeft
    ∧ res.pLeft = pLeft - (encUnits us).length

theorem slicedStruct_stop (fixed : Bool) (pLeft lastDu : Nat) (rest : List Sliced) (e : Option Err)
    (he : ∀ x, e = some x → (RErr.base x).isAbort = false) :
    SlicedStruct fixed pLeft lastDu { out := [], pLeft, lastDu, rest, err := e } :=
  ⟨he, [], by simp [encUnits], by simp, by simp, by simp [encUnits], by simp [encUnits]⟩

theorem insertSliced_struct (mask : Nat) (fixed : Bool) (lines : List Sliced) (hwf : ∀ s ∈ lines, Sliced.WF s) :
    ∀ pLeft lastLine lastDu, SlicedStruct fixed pLeft lastDu (insertSliced mask fixed pLeft lastLine lastDu lines) := by
  induction lines with
  | nil =>
    intro pLeft lastLine lastDu
    rw [insertSliced]
    exact slicedStruct_stop fixed pLeft lastDu [] none (by intro x hx; cases hx)
  | cons s rest ih =>
    have hwf' : ∀ s ∈ rest, Sliced.WF s := fun x hx => hwf x (List.mem_cons_of_mem _ hx)
    have hs : Sliced.WF s := hwf s (List.mem_cons_self ..)
    intro pLeft lastLine lastDu
    rw [insertSliced]
    by_cases hm : s.id &&& mask = 0
    · rw [if_pos hm]; exact ih hwf' pLeft lastLine lastDu
    · rw [if_neg hm]
      by_cases ho : s.line > 0 ∧ s.line ≤ lastLine
      · rw [if_pos ho]
        exact slicedStruct_stop fixed pLeft lastDu _ _ (by intro x hx; cases hx; rfl)
      · rw [if_neg ho]
        simp only []
        cases hd : duSizeOf s.id s.line with
        | error e =>
          simp only []
          exact slicedStruct_stop fixed pLeft lastDu _ _ (by intro x hx; cases hx; exact duSizeOf_err _ _ _ hd)
        | ok du0 =>
          simp only []
          by_cases hfit : (if fixed = true then 46 else du0) > pLeft
          · rw [if_pos hfit]; exact slicedStruct_stop fixed pLeft lastDu _ _ (by intro x hx; cases hx)
          · rw [if_neg hfit]
            cases hl : lofpOf s.line (if s.line > 0 then s.line else lastLine) with
            | error e =>
              simp only []
              exact slicedStruct_stop fixed pLeft lastDu _ _ (by intro x hx; cases hx; exact lofpOf_err _ _ _ hl)
            | ok lofp =>
              simp only []
              obtain ⟨u, l, hb, _, _, hlen, _, _⟩ := line_unit s hs fixed _ du0 lofp hd hl
              rw [hb]
              simp only []
              obtain ⟨herr, us, h1, h2, h3, h4, h5⟩ := ih hwf' (pLeft - (if fixed = true then 46 else du0))
                (if s.line > 0 then s.line else lastLine) (if fixed = true then 46 else du0)
              have hlen1 : (encUnits [u]).length = (if fixed = true then 46 else du0) := by
                rw [encUnits_single]; simp only [List.length_cons]; omega
              have hdu46 : (if fixed = true then 46 else du0) ≤ 46 := by
                rcases duSizeOf_ok s.id s.line du0 hs.2.1 hd with ⟨_, rfl, _⟩ | ⟨_, rfl, _⟩ | ⟨_, rfl, _⟩ | ⟨_, rfl, _⟩ <;>
                  cases fixed <;> simp
              refine ⟨herr, u :: us, ?_, ?_, ?_, ?_, ?_⟩
              · show encUnits [u] ++ _ = _
                rw [h1]; show encUnits [u] ++ encUnits us = encUnits ([u] ++ us); rw [encUnits_append]
              · intro x hx
                rcases List.mem_cons.mp hx with rfl | hx
                · exact ⟨by omega, by intro hf; subst hf; simp at hlen; omega⟩
                · exact h2 x hx
              · show (insertSliced mask fixed _ _ _ rest).lastDu = _
                rw [h3, lastSize_cons]
                by_cases hus : us = []
                · simp [hus, hlen]
                · simp [hus]
              · show (encUnits ([u] ++ us)).length ≤ pLeft
                rw [encUnits_append, List.length_append, hlen1]; omega
              · show (insertSliced mask fixed _ _ _ rest).pLeft = _
                rw [h5]
                show _ = pLeft - (encUnits ([u] ++ us)).length
                rw [encUnits_append, List.length_append, hlen1]; omega

/-- the caller's contract on the raw frame: it holds `count[0] + count[1]` lines of `bytes_per_line` -/
def RawHolds (raw : Option Bytes) (sp : Option Sp) : Prop :=
  ∀ rawb sp', raw = some rawb → sp = some sp' → (sp'.count0 + sp'.count1) * sp'.spl ≤ rawb.length

theorem validSp_interlaced (sp : Sp) (h : validSp sp = true) (hi : sp.interlaced = true) : sp.count0 = sp.count1 := by
  unfold validSp at h
  split at h; · cases h
  split at h; · cases h
  split at h; · cases h
  split at h; · cases h
  split at h; · cases h
  split at h; · cases h
  split at h
  · cases h
  · rename_i hx
    rw [hi] at hx
    simp only [true_and, not_or] at hx
    omega

/-- under the caller's contract `samples_pointer` fails only with a `VBI_ERR_*` value -/
theorem samplesPointer_err (raw : Option Bytes) (sp : Option Sp) (line : Nat) (e : RErr)
    (hsp : ∀ sp', sp = some sp' → validSp sp' = true) (hraw : RawHolds raw sp)
    (h : samplesPointer raw sp line = .error e) : e.isAbort = false := by
  unfold samplesPointer at h
  cases raw with
  | none => simp at h; rw [← h]; rfl
  | some rawb =>
    cases sp with
    | none => simp at h; rw [← h]; rfl
    | some sp' =>
      have hv := hsp sp' rfl
      have hh := hraw rawb sp' rfl rfl
      simp only [] at h
      by_cases h0 : line = 0
      · rw [if_pos h0] at h; cases h; rfl
      · rw [if_neg h0] at h
        by_cases hf : line ≥ 313
        · simp only [hf, if_true] at h
          by_cases h1 : line < sp'.start1
          · rw [if_pos h1] at h; cases h; rfl
          · rw [if_neg h1] at h
            by_cases h2 : line - sp'.start1 ≥ sp'.count1
            · rw [if_pos h2] at h; cases h; rfl
            · rw [if_neg h2] at h
              have hrow : (if sp'.interlaced = true then (line - sp'.start1) * 2 + 1 else line - sp'.start1 + sp'.count0) + 1 ≤ sp'.count0 + sp'.count1 := by
                cases hi : sp'.interlaced
                · simp; omega
                · have := validSp_interlaced sp' hv hi; simp; omega
              generalize (if sp'.interlaced = true then (line - sp'.start1) * 2 + 1 else line - sp'.start1 + sp'.count0) = row at h hrow
              by_cases h3 : (row + 1) * sp'.spl > rawb.length
              · exfalso
                have := Nat.le_trans (Nat.mul_le_mul_right sp'.spl hrow) hh
                omega
              · rw [if_neg h3] at h; cases h

        · simp only [hf, if_false] at h
          by_cases h1 : line < sp'.start0
          · rw [if_pos h1] at h; cases h; rfl
          · rw [if_neg h1] at h
            by_cases h2 : line - sp'.start0 ≥ sp'.count0
            · rw [if_pos h2] at h; cases h; rfl
            · rw [if_neg h2] at h
              have hrow : (if sp'.interlaced = true then (line - sp'.start0) * 2 + 0 else line - sp'.start0) + 1 ≤ sp'.count0 + sp'.count1 := by
                cases hi : sp'.interlaced
                · simp; omega
                · have := validSp_interlaced sp' hv hi; simp; omega
              generalize (if sp'.interlaced = true then (line - sp'.start0) * 2 + 0 else line - sp'.start0) = row at h hrow
              by_cases h3 : (row + 1) * sp'.spl > rawb.length
              · exfalso
                have := Nat.le_trans (Nat.mul_le_mul_right sp'.spl hrow) hh
                omega
              · rw [if_neg h3] at h; cases h

theorem insertRaw_err (pLeft : Nat) (r : Bytes) (fixed : Bool) (line fpp nTotal : Nat) (e : RErr)
    (h : insertRaw pLeft r fixed VIDEOSTD_625 line fpp nTotal true = .error e) : e.isAbort = false := by
  unfold insertRaw at h
  have hstd : (if VIDEOSTD_625 &&& VIDEOSTD_525 ≠ 0 then (if VIDEOSTD_625 &&& VIDEOSTD_625 ≠ 0 then none else some 263)
      else if VIDEOSTD_625 &&& VIDEOSTD_625 ≠ 0 then some 313 else (none : Option Nat)) = some 313 := by decide
  simp only [hstd] at h
  split at h
  · cases h; rfl
  · by_cases hf : line ≥ 313
    · simp only [hf, if_true] at h
      by_cases hc : (line - 313 + 2 ^ 32 - 7) % 2 ^ 32 > 16
      · rw [if_pos hc] at h; cases h; rfl
      · rw [if_neg hc] at h; cases h
    · simp only [hf, if_false] at h
      by_cases hc : (line + 2 ^ 32 - 7) % 2 ^ 32 > 16
      · rw [if_pos hc] at h; cases h; rfl
      · rw [if_neg hc] at h; cases h

/-- structure of what `insert_raw_data_units` stored, whether or not all samples were converted -/
theorem insertRaw_struct (pLeft : Nat) (r : Bytes) (fixed : Bool) (line : Nat) (hline : line < 2 ^ 32) (fpp nTotal : Nat)
    (rr : RawRes) (h : insertRaw pLeft r fixed VIDEOSTD_625 line fpp nTotal true = .ok rr) :
    ∃ us, Region fixed pLeft 0 rr.out rr.lastDu rr.pLeft us := by
  unfold insertRaw at h
  have hstd : (if VIDEOSTD_625 &&& VIDEOSTD_525 ≠ 0 then (if VIDEOSTD_625 &&& VIDEOSTD_625 ≠ 0 then none else some 263)
      else if VIDEOSTD_625 &&& VIDEOSTD_625 ≠ 0 then some 313 else (none : Option Nat)) = some 313 := by decide
  simp only [hstd] at h
  split at h
  · cases h
  · by_cases hf : line ≥ 313
    · simp only [hf, if_true] at h
      by_cases hc : (line - 313 + 2 ^ 32 - 7) % 2 ^ 32 > 16
      · rw [if_pos hc] at h; cases h
      · rw [if_neg hc] at h
        simp only [Except.ok.injEq] at h
        have hlof : (0 : Nat) + (line - 313) = (if false = true then 0x20 else 0) + (line - 313) := by simp
        rw [hlof] at h
        rw [← h]
        exact insertRawLoop_struct fixed false (line - 313) nTotal (by omega) _ _ _ _ _
    · simp only [hf, if_false] at h
      by_cases hc : (line + 2 ^ 32 - 7) % 2 ^ 32 > 16
      · rw [if_pos hc] at h; cases h
      · rw [if_neg hc] at h
        simp only [Except.ok.injEq] at h
        have hlof : (0x20 : Nat) + line = (if true = true then 0x20 else 0) + line := by simp
        rw [hlof] at h
        rw [← h]
        exact insertRawLoop_struct fixed true line nTotal (by omega) _ _ _ _ _

/-- `last_du_size` of the repaired tree after a call that started from 0 -/
theorem region_rebase {fixed : Bool} {pLeft : Nat} {out : Bytes} {du p' : Nat} {us : List DataUnit}
    (R : Region fixed pLeft 0 out du p' us) (d : Nat) : Region fixed pLeft d out (nextLastDu true d du) p' us := by
  refine ⟨R.enc, R.ok, ?_, R.room, R.left, R.crit⟩
  rw [R.du]; unfold nextLastDu
  simp only [if_true]
  by_cases hn : us = []
  · simp [hn]
  · have : lastSize us > 0 := by
      obtain ⟨init, u, rfl⟩ := exists_concat us hn
      rw [lastSize_concat]; omega
    simp [hn, this]

theorem region_append {fixed : Bool} {pLeft lastDu : Nat} {o1 : Bytes} {d1 p1 : Nat} {u1 : List DataUnit}
    (R1 : Region fixed pLeft lastDu o1 d1 p1 u1) {o2 : Bytes} {d2 p2 : Nat} {u2 : List DataUnit}
    (R2 : Region fixed p1 d1 o2 d2 p2 u2) : Region fixed pLeft lastDu (o1 ++ o2) d2 p2 (u1 ++ u2) := by
  have hl := R1.left
  have hr1 := R1.room
  have hr2 := R2.room
  constructor
  · rw [R1.enc, R2.enc, encUnits_append]
  · intro u hu
    rcases List.mem_append.mp hu with hu | hu
    · exact R1.ok u hu
    · exact R2.ok u hu
  · rw [R2.du, R1.du, lastSize_append]
    by_cases h2 : u2 = []
    · subst h2; simp
    · simp [h2]
  · rw [encUnits_append, List.length_append]; omega
  · rw [R2.left, hl, encUnits_append, List.length_append]; omega
  · intro _ h257
    rw [encUnits_append, List.length_append]
    rw [lastSize_append] at h257
    by_cases h2 : u2 = []
    · rw [if_pos h2] at h257
      subst h2
      by_cases h1 : u1 = []
      · subst h1; simp [lastSize] at h257
      · have := R1.crit h1 h257
        simp only [encUnits, List.length_nil, Nat.add_zero]; exact this
    · rw [if_neg h2] at h257
      have := R2.crit h2 h257
      omega

/-- the loop of the repaired `generate_pes_packet`, any outcome: an error is a `VBI_ERR_*` return,
    never an assertion failure or an access outside a buffer; a success (all lines converted or not)
    leaves a region `encode_stuffing` can complete -/
theorem genLoopR_any (mask : Nat) (fixed : Bool) (raw : Option Bytes) (sp : Option Sp)
    (hsp : ∀ sp', sp = some sp' → validSp sp' = true) (hraw : RawHolds raw sp) :
    ∀ (fuel pLeft lastLine lastDu : Nat) (st : RawSt) (todo : List Sliced),
      todo.length < fuel → (∀ s ∈ todo, Sliced.WF s) → st.left = 0 →
      match genLoopR true mask fixed raw sp fuel pLeft lastLine lastDu st todo with
      | .error (e, _) => e.isAbort = false
      | .ok (out, du, _, _) => ∃ us p', Region fixed pLeft lastDu out du p' us := by
  intro fuel
  induction fuel with
  | zero => intro pLeft lastLine lastDu st todo h; omega
  | succ fuel ih =>
    intro pLeft lastLine lastDu st todo hfu hwf hst
    rw [genLoopR]
    cases hs : scanSeg lastLine todo with
    | error off => simp only []; rfl
    | ok x =>
      obtain ⟨seg, ll, rest⟩ := x
      simp only []
      obtain ⟨htodo, _, hrest⟩ := scanSeg_spec todo _ _ _ _ hs
      have hwfseg : ∀ s ∈ seg, Sliced.WF s := fun x hx => hwf x (by rw [htodo]; exact List.mem_append_left _ hx)
      have hwfrest : ∀ s ∈ rest, Sliced.WF s := fun x hx => hwf x (by rw [htodo]; exact List.mem_append_right _ hx)
      obtain ⟨herr, us0, h1, h2, h3, h4, h5⟩ := insertSliced_struct mask fixed seg hwfseg pLeft (segStart lastLine) 0
      cases he : (insertSliced mask fixed pLeft (segStart lastLine) 0 seg).err with
      | some e => simp only []; exact herr e he
      | none =>
        simp only []
        -- the region after the sliced segment
        have R0 : Region fixed pLeft lastDu (insertSliced mask fixed pLeft (segStart lastLine) 0 seg).out
            (nextLastDu true lastDu (insertSliced mask fixed pLeft (segStart lastLine) 0 seg).lastDu)
            (insertSliced mask fixed pLeft (segStart lastLine) 0 seg).pLeft us0 := by
          have hls : lastSize us0 ≤ 46 := lastSize_le us0 46 (fun u hu => (h2 u hu).1)
          exact region_rebase ⟨h1, fun u hu => ⟨by have := (h2 u hu).1; omega, (h2 u hu).2⟩, h3, h4, h5,
            by intro _ h; omega⟩ lastDu
        by_cases hr : (insertSliced mask fixed pLeft (segStart lastLine) 0 seg).rest ≠ []
        · rw [if_pos hr]; exact ⟨us0, _, R0⟩
        · rw [if_neg hr]
          cases rest with
          | nil => simp only []; exact ⟨us0, _, R0⟩
          | cons rawLine rest' =>
            have hwfrest' : ∀ s ∈ rest', Sliced.WF s := fun x hx => hwfrest x (List.mem_cons_of_mem _ hx)
            have hfu' : rest'.length < fuel := by
              rw [htodo, List.length_append, List.length_cons] at hfu; omega
            simp only []
            by_cases hm : mask &&& SL_VBI625 = 0
            · rw [if_pos hm]
              have := ih (insertSliced mask fixed pLeft (segStart lastLine) 0 seg).pLeft ll
                (nextLastDu true lastDu (insertSliced mask fixed pLeft (segStart lastLine) 0 seg).lastDu) st rest' hfu' hwfrest' hst
              cases hrec : genLoopR true mask fixed raw sp fuel (insertSliced mask fixed pLeft (segStart lastLine) 0 seg).pLeft ll
                  (nextLastDu true lastDu (insertSliced mask fixed pLeft (segStart lastLine) 0 seg).lastDu) st rest' with
              | error e => rw [hrec] at this; obtain ⟨e1, e2⟩ := e; simpa using this
              | ok y =>
                obtain ⟨o, du', left, st''⟩ := y
                rw [hrec] at this
                obtain ⟨us1, p', R1⟩ := this
                exact ⟨us0 ++ us1, p', region_append R0 R1⟩
            · rw [if_neg hm]
              simp only [hst, if_true]
              cases hsmp : samplesPointer raw sp rawLine.line with
              | error e =>
                simp only []
                exact samplesPointer_err raw sp _ e hsp hraw hsmp
              | ok smp =>
                obtain ⟨rawb, sp', hrawsome, hspsome, _, hsmplen, _⟩ := samplesPointer_ok raw sp _ smp hsmp
                subst hrawsome hspsome
                simp only []
                have hv := hsp sp' rfl
                obtain ⟨ho, hend, hspl⟩ := validSp_bounds sp' hv
                rw [if_neg (by omega)]
                have hline : rawLine.line < 2 ^ 32 := (hwfrest rawLine (List.mem_cons_self ..)).2.1
                cases hir : insertRaw (insertSliced mask fixed pLeft (segStart lastLine) 0 seg).pLeft smp fixed VIDEOSTD_625 rawLine.line
                    ((sp'.offset + 2 ^ 32 - BT601_625_OFFSET) % 2 ^ 32) sp'.spl true with
                | error e =>
                  simp only []
                  exact insertRaw_err _ _ _ _ _ _ e hir
                | ok rr =>
                  simp only []
                  obtain ⟨usr, Rr0⟩ := insertRaw_struct _ _ _ _ hline _ _ rr hir
                  have Rr := region_rebase Rr0 (nextLastDu true lastDu (insertSliced mask fixed pLeft (segStart lastLine) 0 seg).lastDu)
                  have R01 := region_append R0 Rr
                  by_cases hrl : rr.rest.length > 0
                  · rw [if_pos hrl]; exact ⟨us0 ++ usr, _, R01⟩
                  · rw [if_neg hrl]
                    have := ih rr.pLeft ll
                      (nextLastDu true (nextLastDu true lastDu (insertSliced mask fixed pLeft (segStart lastLine) 0 seg).lastDu) rr.lastDu)
                      { st with left := 0 } rest' hfu' hwfrest' rfl
                    cases hrec : genLoopR true mask fixed (some rawb) (some sp') fuel rr.pLeft ll
                        (nextLastDu true (nextLastDu true lastDu (insertSliced mask fixed pLeft (segStart lastLine) 0 seg).lastDu) rr.lastDu)
                        { st with left := 0 } rest' with
                    | error e => rw [hrec] at this; obtain ⟨e1, e2⟩ := e; simpa using this
                    | ok y =>
                      obtain ⟨o, du', left, st''⟩ := y
                      rw [hrec] at this
                      obtain ⟨us1, p', R1⟩ := this
                      exact ⟨(us0 ++ usr) ++ us1, p', region_append R01 R1⟩

/-- the repaired `generate_pes_packet` never fails with anything but a `VBI_ERR_*` value -/
theorem generatePesR_noabort (cfg : Cfg) (hc : CfgOK cfg) (st : RawSt) (hst : st.left = 0)
    (lines : List Sliced) (mask : Nat) (raw : Option Bytes) (sp : Option Sp)
    (hsp : ∀ sp', sp = some sp' → validSp sp' = true) (hraw : RawHolds raw sp) (pts : Nat)
    (hwf : ∀ s ∈ lines, Sliced.WF s) (e : RErr) (off : List Sliced)
    (hg : generatePesR true cfg st lines mask raw sp pts = .error (e, off)) : e.isAbort = false := by
  rw [generatePesR_both] at hg
  unfold generatePesRBoth at hg
  have hnl : ¬ st.left > 0 := by omega
  simp only [hnl, if_false] at hg
  have hany := genLoopR_any mask (fixedLengthFormat cfg.dataId) raw sp hsp hraw (lines.length + 1) (cfg.maxSize - 46) 0 0 st
    lines (Nat.lt_succ_self _) hwf hst
  cases hgl : genLoopR true mask (fixedLengthFormat cfg.dataId) raw sp (lines.length + 1) (cfg.maxSize - 46) 0 0 st lines with
  | error x =>
    rw [hgl] at hg hany
    obtain ⟨e1, e2⟩ := x
    simp only [Except.error.injEq, Prod.mk.injEq] at hg
    rw [← hg.1]; simpa using hany
  | ok r =>
    obtain ⟨out, du, left, st'⟩ := r
    rw [hgl] at hg hany
    obtain ⟨us, p', R⟩ := hany
    exfalso
    simp only [] at hg
    have hmin := hc.min184; have hmm := hc.minmax; have hmax := hc.max
    have hminMod := hc.minMod; have hmaxMod := hc.maxMod
    have h1 := R.enc
    generalize hpl0 : (if 46 + out.length < cfg.minSize then cfg.minSize - (46 + out.length)
        else if (46 + out.length) % 184 > 0 then 184 - (46 + out.length) % 184 else 0) = pLeft0 at hg
    generalize hpl : (if True ∧ pLeft0 = 1 ∧ du ≥ 257 then pLeft0 + 184 else pLeft0) = pLeft at hg
    have hfixlen : fixedLengthFormat cfg.dataId = true → out.length % 46 = 0 := by
      intro hf
      rw [h1]
      exact length_encUnits_fixed us (fun u hu => (R.ok u hu).2 hf)
    have hp0fix : fixedLengthFormat cfg.dataId = true → pLeft0 % 46 = 0 ∧ pLeft0 ≠ 1 := by
      intro hf
      have := hfixlen hf
      rw [← hpl0]
      constructor
      · split
        · omega
        · split <;> omega
      · split
        · omega
        · split <;> omega
    have hfixmod : fixedLengthFormat cfg.dataId = true → pLeft % 46 = 0 := by
      intro hf
      obtain ⟨h46, hne1⟩ := hp0fix hf
      rw [← hpl, if_neg (by intro hx; exact hne1 hx.2.1)]
      exact h46
    have hunil : us = [] → pLeft0 ≠ 1 := by
      intro hnil
      rw [hnil] at h1
      simp only [encUnits] at h1
      rw [h1] at hpl0
      simp only [List.length_nil] at hpl0
      rw [← hpl0]
      split <;> omega
    have hls : du = lastSize us := by
      rw [R.du]; split
      · rename_i hn; rw [hn]; rfl
      · rfl
    have hone : fixedLengthFormat cfg.dataId = false → pLeft = 1 → us ≠ [] ∧ lastSize us ≤ 256 := by
      intro _ hp1
      have hp01 : pLeft0 = 1 := by
        rw [← hpl] at hp1
        split at hp1 <;> omega
      refine ⟨fun hnil => hunil hnil hp01, ?_⟩
      rw [← hpl] at hp1
      by_cases hbump : True ∧ pLeft0 = 1 ∧ du ≥ 257
      · rw [if_pos hbump] at hp1; omega
      · have : ¬ du ≥ 257 := fun hx => hbump ⟨trivial, hp01, hx⟩
        omega
    obtain ⟨us₁, stf, hes, _, _, _⟩ := encodeStuffing_spec us pLeft _ hfixmod hone
    rw [h1, hls, hes] at hg
    simp at hg

/-- the repaired `vbi_dvb_mux_feed` never aborts -/
theorem feedR_noabort (m : RMux) (hc : CfgOK m.mux.cfg) (hst : m.raw.left = 0) (lines : List Sliced) (mask : Nat)
    (raw : Option Bytes) (sp : Option Sp) (hraw : RawHolds raw sp) (pts : Nat) (hwf : ∀ s ∈ lines, Sliced.WF s) :
    (feedR true m lines mask raw sp pts).2.abort = none := by
  have hgo : (∀ sp', sp = some sp' → validSp sp' = true) → (feedR.go true m lines mask raw sp pts).2.abort = none := by
    intro hsp
    unfold feedR.go
    simp only [dropPending_cfg]
    cases hg : generatePesR true m.mux.cfg m.raw lines mask raw sp pts with
    | error x =>
      obtain ⟨e, off⟩ := x
      simp only []
      rw [generatePesR_noabort m.mux.cfg hc m.raw hst lines mask raw sp hsp hraw pts hwf e off hg]
      rfl
    | ok r =>
      obtain ⟨pes, left, st'⟩ := r
      simp only []
      split
      · rfl
      · split <;> rfl
  unfold feedR
  cases sp with
  | none => exact hgo (by intro sp' hx; cases hx)
  | some sp' =>
    simp only []
    by_cases hv : ¬ validSp sp' = true
    · rw [if_pos hv]
    · rw [if_neg hv]
      exact hgo (by intro sp'' hx; injection hx with hx; subst hx; simpa using hv)

end Zvbi.Mux
