import ZvbiModel.Mux.LemmasUnits
import ZvbiModel.Hamm.Lemmas
/-!
# Lemmas: one sliced line -> one data unit -> the same line back (EnParse.unitLine)
-/
namespace Zvbi.Mux
open Zvbi.Mux.EnParse Zvbi.Hamm

theorem allFF_append_replicate (n : Nat) : allFF ([] ++ List.replicate n 0xFF) = true := by
  simp [allFF]

theorem wss_bits : ∀ c < 256, (rev8 c ||| 3) % 4 = 3 ∧ rev8 (rev8 c ||| 3) % 64 = c % 64 := by decide +kernel

/-- `lofp` values the multiplexer writes decode to the line number (first field) -/
theorem lofpLine_first (line : Nat) (h0 : 0 < line) (h : line < 32) : lofpLine (0xE0 + line) = some line := by
  unfold lofpLine
  have h1 : (0xE0 + line) / 64 = 3 := by omega
  have h2 : (0xE0 + line) % 32 = line := by omega
  have h3 : (0xE0 + line) / 32 % 2 = 1 := by omega
  simp [h1, h2, h3]; omega

/-- ... and to 313 + line_offset in the second field -/
theorem lofpLine_second (off : Nat) (h0 : 0 < off) (h : off < 32) : lofpLine (0xC0 + off) = some (313 + off) := by
  unfold lofpLine
  have h1 : (0xC0 + off) / 64 = 3 := by omega
  have h2 : (0xC0 + off) % 32 = off := by omega
  have h3 : (0xC0 + off) / 32 % 2 = 0 := by omega
  simp [h1, h2, h3]; omega

theorem lofpLine_undef : lofpLine 0xC0 = some 0 ∧ lofpLine 0xE0 = some 0 := by decide

/-- Teletext data unit: `02 len lofp E4 <42 bytes msb first> FF*` -/
theorem unitLine_ttx (lofp l : Nat) (X : Bytes) (n : Nat) (hX : X.length = 42) (hb : ∀ b ∈ X, b < 256)
    (hl : lofpLine lofp = some l) (hoff : lofp % 32 = 0 ∨ (7 ≤ lofp % 32 ∧ lofp % 32 ≤ 22)) :
    unitLine ⟨0x02, lofp :: 0xE4 :: (X.map rev8 ++ List.replicate n 0xFF)⟩ = some (some ⟨.ttx, l, X⟩) := by
  have hlen : ¬ ((X.map rev8 ++ List.replicate n 0xFF).length + 1 + 1 < 44) := by simp [hX]
  have hdrop : (lofp :: 0xE4 :: (X.map rev8 ++ List.replicate n 0xFF)).drop 44 = List.replicate n 0xFF := by
    show (X.map rev8 ++ List.replicate n 0xFF).drop 42 = _
    rw [List.drop_append_of_le_length (by simp [hX])]
    rw [List.drop_of_length_le (by simp [hX])]; rfl
  have htake : ((lofp :: 0xE4 :: (X.map rev8 ++ List.replicate n 0xFF)).drop 2).take 42 = X.map rev8 := by
    show (X.map rev8 ++ List.replicate n 0xFF).take 42 = _
    rw [List.take_append_of_le_length (by simp [hX])]
    rw [List.take_of_length_le (by simp [hX])]
  have hrev : (X.map rev8).map rev8 = X := by
    rw [List.map_map]
    conv => rhs; rw [← List.map_id X]
    apply List.map_congr_left
    intro b hb'
    exact rev8_involutive b (hb b hb')
  unfold unitLine
  simp only [hdrop, htake, hrev, allFF_replicate, hl]
  have hoff' : ¬ (lofp % 32 ≠ 0 ∧ (lofp % 32 < 7 ∨ lofp % 32 > 22)) := by omega
  simp [hX, hoff', hl]

/-- VPS data unit: `C3 len lofp <13 bytes> FF*`, line 16 -/
theorem unitLine_vps (X : Bytes) (n : Nat) (hX : X.length = 13) :
    unitLine ⟨0xC3, (0xE0 + 16) :: (X ++ List.replicate n 0xFF)⟩ = some (some ⟨.vps, 16, X⟩) := by
  have hdrop : ((0xE0 + 16) :: (X ++ List.replicate n 0xFF)).drop 14 = List.replicate n 0xFF := by
    show (X ++ List.replicate n 0xFF).drop 13 = _
    rw [List.drop_append_of_le_length (by simp [hX])]
    rw [List.drop_of_length_le (by simp [hX])]; rfl
  have htake : (((0xE0 + 16) :: (X ++ List.replicate n 0xFF)).drop 1).take 13 = X := by
    show (X ++ List.replicate n 0xFF).take 13 = _
    rw [List.take_append_of_le_length (by simp [hX])]
    rw [List.take_of_length_le (by simp [hX])]
  have hl : lofpLine (0xE0 + 16) = some 16 := by decide
  unfold unitLine
  simp only [hdrop, htake, allFF_replicate]
  simp [hX, hl]

/-- WSS data unit: `C4 len lofp b0 b1|3 FF*`, line 23 -/
theorem unitLine_wss (d0 d1 n : Nat) (h0 : d0 < 256) (h1 : d1 < 256) :
    unitLine ⟨0xC4, (0xE0 + 23) :: rev8 d0 :: (rev8 d1 ||| 3) :: List.replicate n 0xFF⟩
      = some (some ⟨.wss, 23, [d0, d1 % 64]⟩) := by
  have hl : lofpLine (0xE0 + 23) = some 23 := by decide
  have hw := wss_bits d1 h1
  unfold unitLine
  simp [allFF_replicate, hl, hw.1, hw.2, rev8_involutive d0 h0]

/-- Caption data unit: `C5 len lofp b0 b1 FF*`, line 21 -/
theorem unitLine_cc (d0 d1 n : Nat) (h0 : d0 < 256) (h1 : d1 < 256) :
    unitLine ⟨0xC5, (0xE0 + 21) :: rev8 d0 :: rev8 d1 :: List.replicate n 0xFF⟩
      = some (some ⟨.cc, 21, [d0, d1]⟩) := by
  have hl : lofpLine (0xE0 + 21) = some 21 := by decide
  unfold unitLine
  simp [allFF_replicate, hl, rev8_involutive d0 h0, rev8_involutive d1 h1]

theorem allFF_snoc (x : Bytes) : allFF (x ++ [0xFF]) = allFF x := by simp [allFF]

/-- observations of a payload that do not see an appended byte -/
theorem obs_pad (p : Bytes) (N : Nat) (hN : N ≤ p.length) :
    allFF ((p ++ [0xFF]).drop N) = allFF (p.drop N)
    ∧ (∀ i, i < N → (p ++ [0xFF]).getD i 0 = p.getD i 0)
    ∧ (∀ k m, k + m ≤ N → ((p ++ [0xFF]).drop k).take m = (p.drop k).take m) := by
  refine ⟨?_, ?_, ?_⟩
  · rw [List.drop_append_of_le_length hN, allFF_snoc]
  · intro i hi
    simp [List.getD_eq_getElem?_getD, List.getElem?_append_left (show i < p.length by omega)]
  · intro k m hkm
    rw [List.drop_append_of_le_length (by omega), List.take_append_of_le_length (by simp; omega)]

/-- a trailing stuffing byte does not change what a data unit carries -/
theorem unitLine_pad (u : DataUnit) (l : Line) (h : unitLine u = some (some l)) :
    unitLine ⟨u.id, u.payload ++ [0xFF]⟩ = some (some l) := by
  obtain ⟨id, p⟩ := u
  unfold unitLine at h ⊢
  simp only at h ⊢
  by_cases hff : id = 0xFF
  · subst hff
    simp only [if_true] at h
    split at h <;> simp at h
  · rw [if_neg hff] at h ⊢
    by_cases h2 : id = 0x02 ∨ id = 0x03
    · rw [if_pos h2] at h ⊢
      by_cases hc : p.length < 44 ∨ ¬ allFF (p.drop 44) = true ∨ p.getD 1 0 ≠ 0xE4
      · rw [if_pos hc] at h; exact absurd h (by simp)
      · rw [if_neg hc] at h
        have hN : 44 ≤ p.length := by omega
        obtain ⟨o1, o2, o3⟩ := obs_pad p 44 hN
        have hc' : ¬ ((p ++ [0xFF]).length < 44 ∨ ¬ allFF ((p ++ [0xFF]).drop 44) = true ∨ (p ++ [0xFF]).getD 1 0 ≠ 0xE4) := by
          rw [o1, o2 1 (by omega), List.length_append]; simp only [List.length_cons, List.length_nil]
          intro hx; apply hc
          rcases hx with hx | hx | hx
          · omega
          · exact Or.inr (Or.inl hx)
          · exact Or.inr (Or.inr hx)
        rw [if_neg hc', o2 0 (by omega), o3 2 42 (by omega)]
        exact h
    · rw [if_neg h2] at h ⊢
      by_cases h3 : id = 0xC3
      · rw [if_pos h3] at h ⊢
        by_cases hc : p.length < 14 ∨ ¬ allFF (p.drop 14) = true
        · rw [if_pos hc] at h; exact absurd h (by simp)
        · rw [if_neg hc] at h
          have hN : 14 ≤ p.length := by omega
          obtain ⟨o1, o2, o3⟩ := obs_pad p 14 hN
          have hc' : ¬ ((p ++ [0xFF]).length < 14 ∨ ¬ allFF ((p ++ [0xFF]).drop 14) = true) := by
            rw [o1, List.length_append]; simp only [List.length_cons, List.length_nil]
            intro hx; apply hc
            rcases hx with hx | hx
            · omega
            · exact Or.inr hx
          rw [if_neg hc', o2 0 (by omega), o3 1 13 (by omega)]
          exact h
      · rw [if_neg h3] at h ⊢
        by_cases h4 : id = 0xC4
        · rw [if_pos h4] at h ⊢
          by_cases hc : p.length < 3 ∨ ¬ allFF (p.drop 3) = true ∨ p.getD 2 0 % 4 ≠ 3
          · rw [if_pos hc] at h; exact absurd h (by simp)
          · rw [if_neg hc] at h
            have hN : 3 ≤ p.length := by omega
            obtain ⟨o1, o2, o3⟩ := obs_pad p 3 hN
            have hc' : ¬ ((p ++ [0xFF]).length < 3 ∨ ¬ allFF ((p ++ [0xFF]).drop 3) = true ∨ (p ++ [0xFF]).getD 2 0 % 4 ≠ 3) := by
              rw [o1, o2 2 (by omega), List.length_append]; simp only [List.length_cons, List.length_nil]
              intro hx; apply hc
              rcases hx with hx | hx | hx
              · omega
              · exact Or.inr (Or.inl hx)
              · exact Or.inr (Or.inr hx)
            rw [if_neg hc', o2 0 (by omega), o2 1 (by omega), o2 2 (by omega)]
            exact h
        · rw [if_neg h4] at h ⊢
          by_cases h5 : id = 0xC5
          · rw [if_pos h5] at h ⊢
            by_cases hc : p.length < 3 ∨ ¬ allFF (p.drop 3) = true
            · rw [if_pos hc] at h; exact absurd h (by simp)
            · rw [if_neg hc] at h
              have hN : 3 ≤ p.length := by omega
              obtain ⟨o1, o2, o3⟩ := obs_pad p 3 hN
              have hc' : ¬ ((p ++ [0xFF]).length < 3 ∨ ¬ allFF ((p ++ [0xFF]).drop 3) = true) := by
                rw [o1, List.length_append]; simp only [List.length_cons, List.length_nil]
                intro hx; apply hc
                rcases hx with hx | hx
                · omega
                · exact Or.inr hx
              rw [if_neg hc', o2 0 (by omega), o2 1 (by omega), o2 2 (by omega)]
              exact h
          · rw [if_neg h5] at h; exact absurd h (by simp)

end Zvbi.Mux
