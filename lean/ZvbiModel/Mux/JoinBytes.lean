import ZvbiModel.Mux.LemmasStream
import ZvbiModel.Hamm.Lemmas
/-!
# Every byte the multiplexer emits is a byte  (C06 side of the join with C07)

The models carry bytes as `Nat`; the demultiplexer model reads `uint8_t` (`% 256` on the length
field, bit masks in the start code scan), so the join needs: all output bytes are < 256.
-/
namespace Zvbi.Mux
open Zvbi.Mux.EnParse Zvbi.Hamm

theorem rev8_lt' (c : Nat) : rev8 c < 256 := by
  have : rev8 c = rev8 (c % 256) := by unfold rev8; rw [Nat.mod_mod]
  rw [this]; exact rev8_lt (c % 256) (Nat.mod_lt _ (by decide))

theorem or3_lt : ∀ c < 256, c ||| 3 < 256 := by decide +kernel

theorem duBytes_lt (s : Sliced) (hs : Sliced.WF s) (du lofp : Nat) (b : Bytes) (hdu : du ≤ 257) (hl : lofp < 256)
    (h : duBytes s du lofp = .ok b) : ∀ x ∈ b, x < 256 := by
  unfold duBytes at h
  simp only [] at h
  have hb := fun i => byte_lt s hs i
  have hrep : ∀ n, ∀ x ∈ List.replicate n 0xFF, x < 256 := by
    intro n x hx; rw [List.mem_replicate] at hx; omega
  intro x hx
  split at h
  · cases h
  · rename_i body hbody
    simp only [Except.ok.injEq] at h
    subst h
    rcases List.mem_append.mp hx with hx | hx
    · split at hbody
      · simp only [Option.some.injEq] at hbody; subst hbody
        rcases List.mem_append.mp hx with hx | hx
        · simp only [List.mem_cons, List.not_mem_nil, or_false, DU_TTX] at hx
          rcases hx with rfl | rfl | rfl | rfl <;> omega
        · rw [List.mem_map] at hx; obtain ⟨i, _, rfl⟩ := hx; exact rev8_lt' _
      · split at hbody
        · simp only [Option.some.injEq] at hbody; subst hbody
          rcases List.mem_append.mp hx with hx | hx
          · simp only [List.mem_cons, List.not_mem_nil, or_false, DU_VPS] at hx
            rcases hx with rfl | rfl | rfl <;> omega
          · rw [List.mem_map] at hx; obtain ⟨i, _, rfl⟩ := hx; exact hb i
        · split at hbody
          · simp only [Option.some.injEq] at hbody; subst hbody
            simp only [List.mem_cons, List.not_mem_nil, or_false, DU_WSS] at hx
            rcases hx with rfl | rfl | rfl | rfl | rfl
            · omega
            · omega
            · omega
            · exact rev8_lt' _
            · exact or3_lt _ (rev8_lt' _)
          · split at hbody
            · simp only [Option.some.injEq] at hbody; subst hbody
              simp only [List.mem_cons, List.not_mem_nil, or_false, DU_CC] at hx
              rcases hx with rfl | rfl | rfl | rfl | rfl
              · omega
              · omega
              · omega
              · exact rev8_lt' _
              · exact rev8_lt' _
            · cases hbody
    · exact hrep _ x hx

theorem insertSliced_lt (mask : Nat) (fixed : Bool) (lines : List Sliced) (hwf : ∀ s ∈ lines, Sliced.WF s) :
    ∀ pLeft lastLine lastDu, ∀ x ∈ (insertSliced mask fixed pLeft lastLine lastDu lines).out, x < 256 := by
  induction lines with
  | nil => intro _ _ _ x hx; simp [insertSliced] at hx
  | cons s rest ih =>
    have hwf' : ∀ s ∈ rest, Sliced.WF s := fun x hx => hwf x (List.mem_cons_of_mem _ hx)
    have hs : Sliced.WF s := hwf s (List.mem_cons_self ..)
    intro pLeft lastLine lastDu
    rw [insertSliced]
    by_cases hm : s.id &&& mask = 0
    · rw [if_pos hm]; exact ih hwf' _ _ _
    · rw [if_neg hm]
      by_cases ho : s.line > 0 ∧ s.line ≤ lastLine
      · rw [if_pos ho]; intro x hx; simp at hx
      · rw [if_neg ho]
        simp only []
        cases hd : duSizeOf s.id s.line with
        | error e => intro x hx; simp at hx
        | ok du0 =>
          simp only []
          by_cases hfit : (if fixed = true then 46 else du0) > pLeft
          · rw [if_pos hfit]; intro x hx; simp at hx
          · rw [if_neg hfit]
            cases hl : lofpOf s.line (if s.line > 0 then s.line else lastLine) with
            | error e => intro x hx; simp at hx
            | ok lofp =>
              simp only []
              cases hb : duBytes s (if fixed = true then 46 else du0) lofp with
              | error e => intro x hx; simp at hx
              | ok b =>
                simp only []
                intro x hx
                rcases List.mem_append.mp hx with hx | hx
                · have hdu : (if fixed = true then 46 else du0) ≤ 257 := by
                    rcases duSizeOf_ok s.id s.line du0 hs.2.1 hd with ⟨_, rfl, _⟩ | ⟨_, rfl, _⟩ | ⟨_, rfl, _⟩ | ⟨_, rfl, _⟩ <;>
                      split <;> omega
                  have hlofp : lofp < 256 := by
                    rcases lofpOf_ok _ _ _ hl with ⟨_, h | h⟩ | ⟨_, _, h⟩ | ⟨_, _, h⟩ <;> omega
                  exact duBytes_lt s hs _ lofp b hdu hlofp hb x hx
                · exact ih hwf' _ _ _ x hx

theorem stuffUnit_lt (n : Nat) (hn : n ≤ 257) : ∀ x ∈ stuffUnit n, x < 256 := by
  intro x hx
  simp only [stuffUnit, List.mem_cons, List.mem_replicate, DU_STUFF] at hx
  rcases hx with rfl | rfl | ⟨_, rfl⟩ <;> omega

theorem poke_lt (site : String) (buf : Bytes) (pos back v : Nat) (out : Bytes) (hb : ∀ x ∈ buf, x < 256)
    (h : poke site buf pos back v = .ok out) : ∀ x ∈ out, x < 256 := by
  unfold poke at h
  split at h
  · simp only [Except.ok.injEq] at h
    subst h
    intro x hx
    rcases List.mem_or_eq_of_mem_set hx with hx | rfl
    · exact hb x hx
    · exact Nat.mod_lt _ (by decide)
  · cases h

theorem stuffUnits_lt (prev : Bytes) (k n : Nat) (hn : n ≤ 257) (hp : ∀ x ∈ prev, x < 256) :
    ∀ x ∈ prev ++ (List.replicate k (stuffUnit n)).flatten, x < 256 := by
  intro x hx
  rcases List.mem_append.mp hx with hx | hx
  · exact hp x hx
  · rw [List.mem_flatten] at hx
    obtain ⟨l, hl, hxl⟩ := hx
    rw [List.mem_replicate] at hl
    rw [hl.2] at hxl
    exact stuffUnit_lt _ hn x hxl

theorem encodeStuffing_lt (prev : Bytes) (pLeft lastDu : Nat) (fixed : Bool) (out : Bytes)
    (hp : ∀ x ∈ prev, x < 256) (h : encodeStuffing prev pLeft lastDu fixed = .ok out) : ∀ x ∈ out, x < 256 := by
  unfold encodeStuffing at h
  cases fixed with
  | true =>
    simp only [↓reduceIte] at h
    have hbuf := stuffUnits_lt prev (pLeft / 46) 46 (by omega) hp
    by_cases hr : pLeft % 46 = 0
    · rw [if_pos hr] at h
      simp only [Except.ok.injEq] at h; subst h; exact hbuf
    · rw [if_neg hr] at h; cases h
  | false =>
    simp only [Bool.false_eq_true, ↓reduceIte] at h
    have hbuf := stuffUnits_lt prev (pLeft / 257) 257 (by omega) hp
    have hr257 : pLeft % 257 < 257 := Nat.mod_lt _ (by decide)
    by_cases hr : pLeft % 257 = 0
    · rw [if_pos hr] at h
      simp only [Except.ok.injEq] at h; subst h; exact hbuf
    · rw [if_neg hr] at h
      by_cases hr2 : pLeft % 257 ≥ 2
      · rw [if_pos hr2] at h
        simp only [Except.ok.injEq] at h; subst h
        intro x hx
        rcases List.mem_append.mp hx with hx | hx
        · exact hbuf x hx
        · exact stuffUnit_lt _ (by omega) x hx
      · rw [if_neg hr2] at h
        have hbuf1 : ∀ x ∈ (prev ++ (List.replicate (pLeft / 257) (stuffUnit 257)).flatten) ++ [0xFF], x < 256 := by
          intro x hx
          rcases List.mem_append.mp hx with hx | hx
          · exact hbuf x hx
          · simp at hx; omega
        generalize (if pLeft / 257 > 0 then 257 else lastDu) = ld at h
        by_cases hld : ld < 2
        · rw [if_pos hld] at h; cases h
        · rw [if_neg hld] at h
          by_cases h257 : ld = 257
          · rw [if_pos h257] at h
            split at h
            · cases h
            · rename_i b hb
              exact poke_lt _ _ _ _ _ _ (poke_lt _ _ _ _ _ _ hbuf1 hb) h
          · rw [if_neg h257] at h
            exact poke_lt _ _ _ _ _ _ hbuf1 h

theorem pesHeader_lt (size pts did : Nat) : ∀ x ∈ pesHeader size pts did, x < 256 := by
  intro x hx
  simp only [pesHeader, encodeTimestamp, PRIVATE_STREAM_1, List.mem_append, List.mem_cons, List.mem_replicate,
    List.not_mem_nil, or_false] at hx
  have h256 : ∀ y, y % 256 < 256 := fun y => Nat.mod_lt _ (by decide)
  rcases hx with ((hx | hx) | hx) | hx
  · rcases hx with rfl | rfl | rfl | rfl | rfl | rfl | rfl | rfl | rfl <;> first | omega | exact h256 _
  · rcases hx with rfl | rfl | rfl | rfl | rfl <;> exact h256 _
  · omega
  · subst hx; exact h256 _

/-- every byte of the PES packet of an accepted frame is < 256 -/
theorem generatePes_lt (cfg : Cfg) (lines : List Sliced) (mask pts : Nat)
    (hwf : ∀ s ∈ lines, Sliced.WF s) (hnr : NoRaw lines) (pes : Bytes)
    (hg : generatePes cfg lines mask pts = .ok (pes, [])) : ∀ x ∈ pes, x < 256 := by
  unfold generatePes at hg
  simp only [] at hg
  cases hgl : genLoop mask (fixedLengthFormat cfg.dataId) (lines.length + 1) (cfg.maxSize - 46) 0 lines with
  | error e => rw [hgl] at hg; simp at hg
  | ok r =>
    obtain ⟨out, lastDu, left⟩ := r
    rw [hgl] at hg
    simp only [] at hg
    split at hg
    · cases hg
    · rename_i body hst
      simp only [Except.ok.injEq, Prod.mk.injEq] at hg
      obtain ⟨hpes, hleft⟩ := hg
      subst hleft
      obtain ⟨_, _, hout, _⟩ := genLoop_noraw mask _ _ _ lines hnr out lastDu hgl
      have ho : ∀ x ∈ out, x < 256 := by rw [hout]; exact insertSliced_lt mask _ lines hwf _ _ _
      have hbody := encodeStuffing_lt out _ lastDu _ body ho hst
      intro x hx
      rw [← hpes] at hx
      rcases List.mem_append.mp hx with hx | hx
      · exact pesHeader_lt _ _ _ x hx
      · exact hbody x hx

/-- PES mode, every history: all bytes handed to the callback are < 256 -/
theorem run_bytes_lt (ops : List Op) (hops : ∀ op ∈ ops, Op.OK op) :
    ∀ m, m.cfg.pid = 0 → ∀ x ∈ (run m ops).2.1, x < 256 := by
  induction ops with
  | nil => intro m _ x hx; simp [run] at hx
  | cons op ops ih =>
    intro m hp x hx
    have hp1 : (step m op).1.cfg.pid = 0 := by
      cases op with
      | frame lines mask pts =>
        simp only [step]
        have : (feed m lines mask pts 0).1.cfg = m.cfg := by
          rw [feed_unfold]
          split
          · exact dropPending_cfg m
          · split
            · exact dropPending_cfg m
            · split
              · split <;> exact dropPending_cfg m
              · simp only []; split <;> exact dropPending_cfg m
        rw [this]; exact hp
      | dataId d => simp only [step, setDataIdentifier]; split <;> exact hp
      | size a b => exact hp
    simp only [run] at hx
    rcases List.mem_append.mp hx with hx | hx
    · cases op with
      | dataId d => simp [step] at hx
      | size a b => simp [step] at hx
      | frame lines mask pts =>
        have hok := hops _ (List.mem_cons_self ..)
        simp only [step] at hx
        cases hacc : (feed m lines mask pts 0).2.ok with
        | false =>
          obtain ⟨hcalls, _⟩ := feed_rejected m lines mask pts hacc
          simp [FeedOut.allBytes, hcalls] at hx
        | true =>
          obtain ⟨pes, hg, hpes, _⟩ := feed_accepted m lines mask pts hacc
          obtain ⟨hcalls, _⟩ := hpes hp
          simp only [FeedOut.allBytes, hcalls, List.filterMap_cons, id, List.filterMap_nil, List.flatten_cons,
            List.flatten_nil, List.append_nil] at hx
          exact generatePes_lt m.cfg lines mask pts hok.1 hok.2 pes hg x hx
    · exact ih (fun o ho => hops o (List.mem_cons_of_mem _ ho)) _ hp1 x hx

end Zvbi.Mux
