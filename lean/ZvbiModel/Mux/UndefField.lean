import ZvbiModel.Mux.LemmasPes
/-!
# Field parity of the data units of a frame without raw line requests

The multiplexer's half of the round trip of lines with the undefined line number 0 (`mux_demux_roundtrip_undef_full`): the
field parity `insert_sliced_data_units` writes (for an undefined line: the field of the last defined line sent before it,
dvb_mux.c:415) never goes back from the second to the first field inside a packet.  Core Lean only.
-/
namespace Zvbi.Mux
open Zvbi.Mux.EnParse

/-- field_parity of a data unit (bit 5 of the byte that holds reserved / field_parity / line_offset): `true` = first field -/
def unitFirstField (u : DataUnit) : Bool := u.payload.getD 0 0 / 32 % 2 == 1

/-- inside one packet the field parity never goes back from "second field" to "first field" (`sec`: a second-field unit was
    seen): EN 301 775 4.5.2 "the toggling of the field_parity flag indicates a new field", and the condition under which
    `line_address` of the demultiplexer accepts a unit with the undefined line_offset 0 (dvb_demux.c:603-614) -/
def FieldsAscend : Bool → List DataUnit → Prop
  | _, [] => True
  | sec, u :: us => (sec = true → unitFirstField u = false) ∧ FieldsAscend (sec || !unitFirstField u) us

instance decFieldsAscend : (b : Bool) → (us : List DataUnit) → Decidable (FieldsAscend b us)
  | _, [] => isTrue trivial
  | b, u :: us =>
    have := decFieldsAscend (b || !unitFirstField u) us
    inferInstanceAs (Decidable ((b = true → unitFirstField u = false) ∧ FieldsAscend (b || !unitFirstField u) us))

theorem duBytes_getD2 (s : Sliced) (du lofp : Nat) (bs : Bytes) (h : duBytes s du lofp = .ok bs) : bs.getD 2 0 = lofp := by
  unfold duBytes at h
  simp only [] at h
  split at h
  · cases h
  · rename_i b hb
    injection h with h
    subst h
    split at hb
    · injection hb with hb; subst hb; simp
    · split at hb
      · injection hb with hb; subst hb; simp
      · split at hb
        · injection hb with hb; subst hb; simp
        · split at hb
          · injection hb with hb; subst hb; simp
          · cases hb

theorem unit_lofp (s : Sliced) (du lofp : Nat) (u : DataUnit) (h : duBytes s du lofp = .ok (encUnits [u]))
    (hp : u.payload ≠ []) : u.payload.getD 0 0 = lofp := by
  have := duBytes_getD2 s du lofp _ h
  rw [encUnits_single] at this
  cases hpl : u.payload with
  | nil => exact absurd hpl hp
  | cons a b => rw [hpl] at this; simpa using this

/-- `insert_sliced_data_units`: the field parities of the stored units ascend, starting from the field of `lastLine` -/
theorem insertSliced_fields (mask : Nat) (fixed : Bool) (lines : List Sliced) (hwf : ∀ s ∈ lines, Sliced.WF s) :
    ∀ pLeft lastLine lastDu,
      (insertSliced mask fixed pLeft lastLine lastDu lines).err = none →
      (insertSliced mask fixed pLeft lastLine lastDu lines).rest = [] →
      ∃ us, (insertSliced mask fixed pLeft lastLine lastDu lines).out = encUnits us
        ∧ FieldsAscend (decide (lastLine ≥ 313)) us ∧ (∀ u ∈ us, u.id ≠ 0xFF ∧ u.payload ≠ []) := by
  induction lines with
  | nil =>
    intro pLeft lastLine lastDu _ _
    exact ⟨[], by simp [insertSliced, encUnits], trivial, by simp⟩
  | cons s rest ih =>
    have hwf' : ∀ s ∈ rest, Sliced.WF s := fun x hx => hwf x (List.mem_cons_of_mem _ hx)
    have hs : Sliced.WF s := hwf s (List.mem_cons_self ..)
    intro pLeft lastLine lastDu
    rw [insertSliced]
    by_cases hm : s.id &&& mask = 0
    · rw [if_pos hm]
      exact ih hwf' pLeft lastLine lastDu
    · rw [if_neg hm]
      by_cases ho : s.line > 0 ∧ s.line ≤ lastLine
      · rw [if_pos ho]; intro he; simp at he
      · rw [if_neg ho]
        simp only []
        cases hd : duSizeOf s.id s.line with
        | error e => simp only []; intro he; simp at he
        | ok du0 =>
          simp only []
          by_cases hfit : (if fixed = true then 46 else du0) > pLeft
          · rw [if_pos hfit]; intro _ hr; simp at hr
          · rw [if_neg hfit]
            cases hl : lofpOf s.line (if s.line > 0 then s.line else lastLine) with
            | error e => simp only []; intro he; simp at he
            | ok lofp =>
              simp only []
              obtain ⟨u, l, hb, hc, hu, hlen, hid, hperm⟩ := line_unit s hs fixed _ du0 lofp hd hl
              rw [hb]
              simp only []
              intro he hr
              obtain ⟨us, h1, h2, h3⟩ := ih hwf' _ _ _ he hr
              have hpne : u.payload ≠ [] := by
                intro hnil
                have : u.payload.length + 2 = (if fixed = true then 46 else du0) := hlen
                rw [hnil] at this
                rcases duSizeOf_ok s.id s.line du0 hs.2.1 hd with ⟨_, rfl, _⟩ | ⟨_, rfl, _⟩ | ⟨_, rfl, _⟩ | ⟨_, rfl, _⟩ <;>
                  cases fixed <;> simp at this
              have hlo := unit_lofp s _ lofp u hb hpne
              -- the field of this unit
              have hfield : unitFirstField u = decide ¬ ((if s.line > 0 then s.line else lastLine) ≥ 313) := by
                unfold unitFirstField
                rw [hlo]
                by_cases h0 : s.line = 0
                · unfold lofpOf at hl
                  rw [if_pos h0] at hl
                  simp only [h0, Nat.lt_irrefl, if_false, F2_START] at hl ⊢
                  by_cases hc : lastLine ≥ 313
                  · rw [if_pos hc] at hl; injection hl with hl; subst hl; simp [hc]
                  · rw [if_neg hc] at hl; injection hl with hl; subst hl; simp [hc]
                · have hpos : s.line > 0 := by omega
                  simp only [hpos, if_true] at hl ⊢
                  rcases lofpOf_ok s.line s.line lofp hl with ⟨h, _⟩ | ⟨_, h32, hv⟩ | ⟨h313, h345, hv⟩
                  · exact absurd h h0
                  · have : lofp / 32 % 2 = 1 := by omega
                    rw [this]
                    have : ¬ s.line ≥ 313 := by omega
                    simp [this]
                  · have : lofp / 32 % 2 = 0 := by omega
                    rw [this]
                    simp [h313]
              refine ⟨u :: us, ?_, ?_, ?_⟩
              · rw [h1]; show encUnits [u] ++ encUnits us = encUnits ([u] ++ us); rw [encUnits_append]
              · refine ⟨?_, ?_⟩
                · intro hsec
                  rw [hfield]
                  have hsec' : lastLine ≥ 313 := by simpa using hsec
                  by_cases hpos : s.line > 0
                  · have : s.line > lastLine := by omega
                    simp [hpos]; omega
                  · simp [hpos, hsec']
                · have : (decide (lastLine ≥ 313) || !unitFirstField u)
                      = decide ((if s.line > 0 then s.line else lastLine) ≥ 313) := by
                    rw [hfield]
                    by_cases hpos : s.line > 0
                    · have : s.line > lastLine := by omega
                      simp only [hpos, if_true]
                      by_cases h313 : s.line ≥ 313 <;> by_cases hll : lastLine ≥ 313 <;> simp [h313, hll] <;> omega
                    · simp only [hpos, if_false]
                      by_cases hll : lastLine ≥ 313 <;> simp [hll]
                  rw [this]; exact h2
              · intro x hx
                rcases List.mem_cons.mp hx with rfl | hx
                · exact ⟨hid, hpne⟩
                · exact h3 x hx

theorem encUnits_inj (a b : List DataUnit) (h : encUnits a = encUnits b) : a = b := by
  have h1 := parseUnits_encUnits a
  rw [h, parseUnits_encUnits b] at h1
  injection h1 with h1
  exact h1.symm

theorem fieldsAscend_padLast : ∀ (us : List DataUnit) (b : Bool), (∀ u ∈ us, u.payload ≠ []) → FieldsAscend b us →
    FieldsAscend b (padLast us)
  | [], _, _, _ => trivial
  | [u], b, hp, h => by
    have hne := hp u (List.mem_singleton.mpr rfl)
    have e : unitFirstField ⟨u.id, u.payload ++ [0xFF]⟩ = unitFirstField u := by
      unfold unitFirstField
      cases hpl : u.payload with
      | nil => exact absurd hpl hne
      | cons a t => simp
    exact ⟨by rw [e]; exact h.1, trivial⟩
  | u :: v :: us, b, hp, h => by
    refine ⟨h.1, ?_⟩
    exact fieldsAscend_padLast (v :: us) _ (fun x hx => hp x (List.mem_cons_of_mem _ hx)) h.2

theorem padLast_ids : ∀ (us : List DataUnit), (∀ u ∈ us, u.id ≠ 0xFF) → ∀ u ∈ padLast us, u.id ≠ 0xFF
  | [], _ => by intro u hu; cases hu
  | [v], h => by
    intro u hu
    simp only [padLast, List.mem_singleton] at hu
    rw [hu]; exact h v (List.mem_singleton.mpr rfl)
  | a :: v :: us, h => by
    intro u hu
    simp only [padLast] at hu
    rcases List.mem_cons.mp hu with rfl | hu
    · exact h _ (List.mem_cons_self ..)
    · exact padLast_ids (v :: us) (fun x hx => h x (List.mem_cons_of_mem _ hx)) u hu

/-- the data unit region of the PES packet of an accepted frame without raw line requests: the units of the selected
    lines with ascending field parity, then stuffing -/
theorem generatePes_fields (cfg : Cfg) (hc : CfgOK cfg) (lines : List Sliced) (mask pts : Nat)
    (hwf : ∀ s ∈ lines, Sliced.WF s) (hnr : NoRaw lines) (pes : Bytes)
    (hg : generatePes cfg lines mask pts = .ok (pes, [])) :
    ∃ us st, parseUnits (pes.drop 46) = some (us ++ st) ∧ (∀ u ∈ st, IsStuffing (fixedLengthFormat cfg.dataId) u)
      ∧ (∀ u ∈ us, u.id ≠ 0xFF) ∧ unitsLines us = some (sent mask lines) ∧ FieldsAscend false us := by
  unfold generatePes at hg
  simp only [] at hg
  cases hgl : genLoop mask (fixedLengthFormat cfg.dataId) (lines.length + 1) (cfg.maxSize - 46) 0 lines with
  | error e => rw [hgl] at hg; simp at hg
  | ok r =>
    obtain ⟨out, lastDu, left⟩ := r
    rw [hgl] at hg
    simp only [] at hg
    generalize hpl : (if 46 + out.length < cfg.minSize then cfg.minSize - (46 + out.length)
        else if (46 + out.length) % 184 > 0 then 184 - (46 + out.length) % 184 else 0) = pLeft at hg
    cases hst : encodeStuffing out pLeft lastDu (fixedLengthFormat cfg.dataId) with
    | error e => rw [hst] at hg; simp at hg
    | ok body =>
      rw [hst] at hg
      simp only [Except.ok.injEq, Prod.mk.injEq] at hg
      obtain ⟨hpes, hleft⟩ := hg
      subst hleft
      obtain ⟨he, hr, hout, hdu⟩ := genLoop_noraw mask _ _ _ lines hnr out lastDu hgl
      obtain ⟨us, h1, h2, h3, h4, h5, h6⟩ := insertSliced_ok mask (fixedLengthFormat cfg.dataId) lines hwf _ 0 0 he hr
      obtain ⟨us', g1, g2, g3⟩ := insertSliced_fields mask (fixedLengthFormat cfg.dataId) lines hwf _ 0 0 he hr
      have hus : us' = us := encUnits_inj _ _ (by rw [← g1, h1])
      subst hus
      rw [← hout] at h1 h5
      rw [← hdu] at h4
      have hlast : lastDu = lastSize us' := by
        rw [h4]; split
        · rename_i hnil; rw [hnil]; rfl
        · rfl
      have hmin := hc.min184; have hmm := hc.minmax; have hmax := hc.max
      have hminMod := hc.minMod; have hmaxMod := hc.maxMod
      have hfixmod : fixedLengthFormat cfg.dataId = true → pLeft % 46 = 0 := by
        intro hf
        have := length_encUnits_fixed us' (fun u hu => (h3 u hu).2.2.1 hf)
        rw [← h1] at this
        rw [← hpl]; split
        · omega
        · split <;> omega
      have hone : fixedLengthFormat cfg.dataId = false → pLeft = 1 → us' ≠ [] ∧ lastSize us' ≤ 256 := by
        intro _ hp1
        constructor
        · intro hnil
          rw [hnil] at h1
          simp only [encUnits] at h1
          rw [h1] at hpl
          simp only [List.length_nil] at hpl
          rw [← hpl] at hp1
          split at hp1 <;> omega
        · exact Nat.le_trans (lastSize_le us' 46 (fun u hu => (h3 u hu).2.1)) (by omega)
      obtain ⟨us₁, st, hes, hlen, hus₁, hstf⟩ := encodeStuffing_spec us' pLeft _ hfixmod hone
      rw [h1, hlast, hes] at hst
      injection hst with hbody
      have hdrop : pes.drop 46 = body := by
        rw [← hpes]
        exact List.drop_left' (length_pesHeader (46 + out.length + pLeft) pts cfg.dataId)
      have hfa : FieldsAscend false us' := g2
      refine ⟨us₁, st, by rw [hdrop, ← hbody]; exact parseUnits_encUnits _, hstf, ?_, ?_, ?_⟩
      · rcases hus₁ with rfl | ⟨_, rfl⟩
        · exact fun u hu => (g3 u hu).1
        · exact padLast_ids us' (fun u hu => (g3 u hu).1)
      · rcases hus₁ with rfl | ⟨_, rfl⟩
        · exact h2
        · rw [unitsLines_padLast us' (fun u hu => (h3 u hu).2.2.2)]; exact h2
      · rcases hus₁ with rfl | ⟨_, rfl⟩
        · exact hfa
        · exact fieldsAscend_padLast us' false (fun u hu => (g3 u hu).2) hfa

end Zvbi.Mux
