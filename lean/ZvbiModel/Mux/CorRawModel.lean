import ZvbiModel.Mux.RawModel
/-!
# Model of `vbi_dvb_mux_cor` with `raw` / `sp` (dvb_mux.c:1766)

The coroutine interface with raw (monochrome samples) line requests: the same function as
`Mux.cor` (`Mux/Model.lean`), with `generate_pes_packet` called with `raw`, `sp` (`generatePesR`,
both source shapes through `keep`), the `valid_sampling_par` test that precedes everything else
on EVERY call (also while output is pending), and `mx->raw_samples_left = 0` on both rejection paths.
The output part (`corBodyM`) is the one of `Mux.cor`, statement by statement.
-/
namespace Zvbi.Mux

/-- the part of `vbi_dvb_mux_cor` after `if (offset >= mx->cor_end) { generate_pes_packet ... }` -/
def corBodyM (m : Mux) (bufLeft n : Nat) : Mux × CorOut :=
  let offset := m.corOffset
  let (m, offset, out) :=
    if m.cfg.pid = 0 then
      let size := min bufLeft (m.corEnd - offset)
      (m, offset + size, (m.packet.drop offset).take size)
    else
      let (packet, cc, offset, tsLeft, out) :=
        corTsLoop m.cfg.pid m.corEnd (bufLeft + 1) m.packet m.cc offset m.corTsLeft bufLeft []
      ({ m with packet := packet, cc := cc, corTsLeft := tsLeft }, offset, out)
  let m := { m with corOffset := offset }
  if offset ≥ m.corEnd then (m, { ok := true, out, slicedLeft := 0, slicedIdx := n })
  else (m, { ok := true, out, slicedLeft := n, slicedIdx := 0 })

/-- `NULL != sp && !valid_sampling_par (mx, sp)` -/
def spInvalid : Option Sp → Bool
  | some sp' => ! validSp sp'
  | none => false

structure CorROut where
  res : CorOut
  abort : Option RErr := none      -- an `assert` of the C code fired (or the model met undefined behaviour)
deriving Repr

/-- one call of `vbi_dvb_mux_cor (mx, &buffer, &buffer_left, &sliced, &sliced_left, mask, raw, sp, pts)`
    with `*buffer != NULL`, `*buffer_left = bufLeft`, `*sliced = lines`, `*sliced_left = lines.length` -/
def corR (keep : Bool) (m : RMux) (bufLeft : Nat) (lines : List Sliced) (mask : Nat) (raw : Option Bytes)
    (sp : Option Sp) (pts : Nat) : RMux × CorROut :=
  let n := lines.length
  let fail : CorROut := { res := { ok := false, out := [], slicedLeft := n, slicedIdx := 0 } }
  if bufLeft = 0 then (m, fail)
  else if spInvalid sp then (m, fail)
  else if m.mux.corOffset ≥ m.mux.corEnd then
    if n = 0 then (m, fail)
    else
      match generatePesR keep m.mux.cfg m.raw lines mask raw sp pts with
      | .error (e, off) =>
        ({ mux := { m.mux with corEnd := 0, packet := [] }, raw := { m.raw with left := 0 } },
         { res := { ok := false, out := [], slicedLeft := off.length, slicedIdx := n - off.length },
           abort := if e.isAbort then some e else none })
      | .ok (pes, left, st') =>
        if left ≠ [] then
          ({ mux := { m.mux with corEnd := 0, packet := [] }, raw := { st' with left := 0 } },
           { res := { ok := false, out := [], slicedLeft := left.length, slicedIdx := n - left.length } })
        else
          let r := corBodyM { m.mux with packet := [0, 0, 0, 0] ++ pes, corEnd := pes.length + 4, corOffset := 4,
                                          corTsLeft := 0 } bufLeft n
          ({ mux := r.1, raw := st' }, { res := r.2 })
  else
    let r := corBodyM m.mux bufLeft n
    ({ m with mux := r.1 }, { res := r.2 })

/-- repeated `vbi_dvb_mux_cor` calls with the same frame, `raw`, `sp`, buffer sizes cycling through `sizes`,
    until `*sliced_left == 0` or failure (op `corraw` of the correspondence driver) -/
def corAllR (keep : Bool) (sizes : List Nat) (lines : List Sliced) (mask : Nat) (raw : Option Bytes) (sp : Option Sp)
    (pts : Nat) : Nat → RMux → Nat → Bytes → RMux × Bool × Nat × Nat × Nat × Bytes × Option RErr
  | 0, m, calls, acc => (m, true, calls, lines.length, 0, acc, none)
  | fuel + 1, m, calls, acc =>
    let (m, r) := corR keep m (sizes.getD (calls % sizes.length) 0) lines mask raw sp pts
    let acc := acc ++ r.res.out
    if r.res.ok ∧ r.res.slicedLeft > 0 then corAllR keep sizes lines mask raw sp pts fuel m (calls + 1) acc
    else (m, r.res.ok, calls + 1, r.res.slicedLeft, r.res.slicedIdx, acc, r.abort)

end Zvbi.Mux
