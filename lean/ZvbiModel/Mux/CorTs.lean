import ZvbiModel.Mux.LemmasStream
/-!
# Lemmas: the TS loop of `vbi_dvb_mux_cor` (`corTsLoop`) emits the bytes of `tsLoop`

`vbi_dvb_mux_feed` writes a TS header in front of each 184-byte slice of the PES packet and
hands the 188 bytes to the callback.  `vbi_dvb_mux_cor` does the same lazily: whenever the
current TS packet is exhausted (`ts_left == 0`) it overwrites the four bytes before the current
offset (PES bytes which were already copied out, or the four spare bytes the first time) with
the next header, and then copies `min (p_left, ts_left)` bytes.  `TsInv` is the loop invariant:
the rest `R` of the output still to be produced is the rest `cur` of the current TS packet,
which is in the buffer at `offset`, followed by the TS packets of the PES bytes after it.
-/
namespace Zvbi.Mux

theorem length_tsHeader (pid cc : Nat) (first : Bool) : (tsHeader pid cc first).length = 4 := rfl

theorem tsLoop_flatten_length (pid : Nat) : ∀ (r : Nat) (first : Bool) (cc : Nat) (rest : Bytes),
    rest.length = 184 * r → (tsLoop pid r first cc rest).flatten.length = 188 * r := by
  intro r
  induction r with
  | zero => intros; rfl
  | succ r ih =>
    intro first cc rest hl
    have h1 : (rest.take 184).length = 184 := by rw [List.length_take]; omega
    have h2 : (rest.drop 184).length = 184 * r := by rw [List.length_drop]; omega
    simp only [tsLoop, List.flatten_cons, List.length_append, length_tsHeader, h1, ih false _ _ h2]
    omega

/-- the loop invariant of the TS branch of `vbi_dvb_mux_cor`; `R` = output still to be produced,
    `ccEnd` = the continuity counter after the last TS packet -/
def TsInv (pid corEnd ccEnd : Nat) (R packet : Bytes) (cc offset tsLeft : Nat) : Prop :=
  ∃ (r : Nat) (cur rest : Bytes) (first : Bool),
    cur.length = tsLeft ∧ rest.length = 184 * r
    ∧ packet.drop offset = cur ++ rest
    ∧ packet.length = corEnd
    ∧ offset + tsLeft + 184 * r = corEnd
    ∧ 4 ≤ offset + tsLeft
    ∧ (first = true ↔ offset + tsLeft = 4)
    ∧ R = cur ++ (tsLoop pid r first cc rest).flatten
    ∧ ccEnd = (cc + r) % 2 ^ 32
    ∧ (r = 0 → cc < 2 ^ 32)

theorem TsInv.length {pid corEnd ccEnd : Nat} {R packet : Bytes} {cc offset tsLeft : Nat}
    (h : TsInv pid corEnd ccEnd R packet cc offset tsLeft) : R.length + offset = corEnd + 4 * ((corEnd - offset - tsLeft) / 184) := by
  obtain ⟨r, cur, rest, first, h1, h2, _, _, h5, _, _, h8, _, _⟩ := h
  rw [h8, List.length_append, tsLoop_flatten_length pid r first cc rest h2, h1]
  omega

/-- nothing left to emit iff `offset >= cor_end` -/
theorem TsInv.nil_iff {pid corEnd ccEnd : Nat} {R packet : Bytes} {cc offset tsLeft : Nat}
    (h : TsInv pid corEnd ccEnd R packet cc offset tsLeft) : R = [] ↔ offset ≥ corEnd := by
  obtain ⟨r, cur, rest, first, h1, h2, _, _, h5, _, _, h8, _, _⟩ := h
  have hl : R.length = tsLeft + 188 * r := by
    rw [h8, List.length_append, tsLoop_flatten_length pid r first cc rest h2, h1]
  constructor
  · intro hn; rw [hn] at hl; simp only [List.length_nil] at hl; omega
  · intro hge; apply List.eq_nil_of_length_eq_zero; omega

/-- at the end the continuity counter is the one `vbi_dvb_mux_feed` leaves -/
theorem TsInv.cc_end {pid corEnd ccEnd : Nat} {packet : Bytes} {cc offset tsLeft : Nat}
    (h : TsInv pid corEnd ccEnd [] packet cc offset tsLeft) : cc = ccEnd := by
  obtain ⟨r, cur, rest, first, h1, h2, _, _, h5, _, _, h8, h9, h10⟩ := h
  have hl : ([] : Bytes).length = tsLeft + 188 * r := by
    rw [h8, List.length_append, tsLoop_flatten_length pid r first cc rest h2, h1]
  simp only [List.length_nil] at hl
  have hr : r = 0 := by omega
  have := h10 hr
  subst hr
  rw [h9]; simp only [Nat.add_zero]; exact (Nat.mod_eq_of_lt this).symm

/-- the state right after `generate_pes_packet`: buffer `[4 spare bytes] ++ pes`, offset 4, `ts_left = 0` -/
theorem TsInv.init (pid cc : Nat) (pes : Bytes) (n : Nat) (hl : pes.length = 184 * n) (hn : 0 < n) :
    TsInv pid (pes.length + 4) ((cc + n) % 2 ^ 32) (tsLoop pid n true cc pes).flatten ([0, 0, 0, 0] ++ pes) cc 4 0 := by
  refine ⟨n, [], pes, true, rfl, hl, ?_, ?_, by omega, by omega, by simp, by simp, rfl, by omega⟩
  · simp
  · simp only [List.length_append, List.length_cons, List.length_nil]; omega

/-! ## the loop -/

theorem corTsLoop_zero_tsLeft (pid corEnd fuel : Nat) (packet : Bytes) (cc offset pLeft : Nat) (acc : Bytes) :
    corTsLoop pid corEnd (fuel + 1) packet cc offset 0 pLeft acc
      = corTsLoop pid corEnd (fuel + 1) (putHeader packet (offset - 4) (tsHeader pid cc (offset - 4 == 0)))
          ((cc + 1) % 2 ^ 32) (offset - 4) 188 pLeft acc := by
  rw [corTsLoop, corTsLoop]
  simp only [if_true, Nat.reduceEqDiff, if_false]

theorem corTsLoop_pos_tsLeft (pid corEnd fuel : Nat) (packet : Bytes) (cc offset tsLeft pLeft : Nat) (acc : Bytes)
    (h : tsLeft ≠ 0) :
    corTsLoop pid corEnd (fuel + 1) packet cc offset tsLeft pLeft acc
      = if pLeft - min pLeft tsLeft > 0 ∧ offset + min pLeft tsLeft < corEnd then
          corTsLoop pid corEnd fuel packet cc (offset + min pLeft tsLeft) (tsLeft - min pLeft tsLeft)
            (pLeft - min pLeft tsLeft) (acc ++ (packet.drop offset).take (min pLeft tsLeft))
        else (packet, cc, offset + min pLeft tsLeft, tsLeft - min pLeft tsLeft,
              acc ++ (packet.drop offset).take (min pLeft tsLeft)) := by
  rw [corTsLoop]
  simp only [if_neg h]

/-- writing the next TS header: same remaining output, now with 188 bytes of the current packet -/
theorem TsInv.header {pid corEnd ccEnd : Nat} {R packet : Bytes} {cc offset : Nat}
    (h : TsInv pid corEnd ccEnd R packet cc offset 0) (hne : R ≠ []) :
    TsInv pid corEnd ccEnd R (putHeader packet (offset - 4) (tsHeader pid cc (offset - 4 == 0)))
      ((cc + 1) % 2 ^ 32) (offset - 4) 188 := by
  obtain ⟨r, cur, rest, first, h1, h2, h3, h4, h5, h6, h7, h8, h9, h10⟩ := h
  have hcur : cur = [] := List.eq_nil_of_length_eq_zero h1
  subst hcur
  simp only [List.nil_append] at h3 h8
  cases r with
  | zero => rw [h8] at hne; exact absurd rfl hne
  | succ r =>
    have hfirst : (offset - 4 == 0) = first := by
      cases first with
      | true => have := h7.1 rfl; simp only [beq_iff_eq]; omega
      | false =>
        have : ¬ (offset + 0 = 4) := fun hh => by have := h7.2 hh; cases this
        simp only [beq_eq_false_iff_ne, ne_eq]; omega
    rw [hfirst]
    have ht : (rest.take 184).length = 184 := by rw [List.length_take]; omega
    have hd : (rest.drop 184).length = 184 * r := by rw [List.length_drop]; omega
    have hoff : offset - 4 + 4 = offset := by omega
    have htk : (packet.take (offset - 4)).length = offset - 4 := by rw [List.length_take]; omega
    refine ⟨r, tsHeader pid cc first ++ rest.take 184, rest.drop 184, false, ?_, hd, ?_, ?_, by omega, by omega,
      ?_, ?_, by omega, by intro _; omega⟩
    · rw [List.length_append, length_tsHeader, ht]
    · unfold putHeader
      rw [hoff, h3, List.append_assoc, List.drop_left' htk, List.append_assoc, List.take_append_drop]
    · unfold putHeader
      rw [List.length_append, List.length_append, htk, length_tsHeader, List.length_drop]
      omega
    · constructor
      · intro hh; cases hh
      · intro hh; omega
    · rw [h8]; simp only [tsLoop, List.flatten_cons, List.append_assoc]

/-- copying `size <= ts_left` bytes -/
theorem TsInv.copy {pid corEnd ccEnd : Nat} {R packet : Bytes} {cc offset tsLeft : Nat}
    (h : TsInv pid corEnd ccEnd R packet cc offset tsLeft) (size : Nat) (hs : size ≤ tsLeft) :
    (packet.drop offset).take size = R.take size
    ∧ TsInv pid corEnd ccEnd (R.drop size) packet cc (offset + size) (tsLeft - size) := by
  obtain ⟨r, cur, rest, first, h1, h2, h3, h4, h5, h6, h7, h8, h9, h10⟩ := h
  have hsc : size ≤ cur.length := by omega
  constructor
  · rw [h3, h8, List.take_append_of_le_length hsc, List.take_append_of_le_length hsc]
  · refine ⟨r, cur.drop size, rest, first, ?_, h2, ?_, h4, by omega, by omega, ?_, ?_, h9, h10⟩
    · rw [List.length_drop]; omega
    · rw [← List.drop_drop, h3, List.drop_append_of_le_length hsc]
    · rw [h7]; omega
    · rw [h8, List.drop_append_of_le_length hsc]

/-- what `fuel` iterations achieve -/
def LoopSpec (pid corEnd ccEnd fuel : Nat) : Prop :=
  ∀ (packet : Bytes) (cc offset tsLeft pLeft : Nat) (acc R : Bytes),
    TsInv pid corEnd ccEnd R packet cc offset tsLeft → R ≠ [] → 0 < pLeft → pLeft < fuel →
    ∃ packet' cc' offset' tsLeft',
      corTsLoop pid corEnd fuel packet cc offset tsLeft pLeft acc = (packet', cc', offset', tsLeft', acc ++ R.take pLeft)
      ∧ TsInv pid corEnd ccEnd (R.drop pLeft) packet' cc' offset' tsLeft'

theorem loopSpec_step_pos (pid corEnd ccEnd fuel : Nat) (ih : LoopSpec pid corEnd ccEnd fuel)
    (packet : Bytes) (cc offset tsLeft pLeft : Nat) (acc R : Bytes)
    (hinv : TsInv pid corEnd ccEnd R packet cc offset tsLeft) (hts : tsLeft ≠ 0) (hp : 0 < pLeft)
    (hf : pLeft < fuel + 1) :
    ∃ packet' cc' offset' tsLeft',
      corTsLoop pid corEnd (fuel + 1) packet cc offset tsLeft pLeft acc
        = (packet', cc', offset', tsLeft', acc ++ R.take pLeft)
      ∧ TsInv pid corEnd ccEnd (R.drop pLeft) packet' cc' offset' tsLeft' := by
  rw [corTsLoop_pos_tsLeft pid corEnd fuel packet cc offset tsLeft pLeft acc hts]
  have hsz : min pLeft tsLeft ≤ tsLeft := Nat.min_le_right _ _
  have hszp : 0 < min pLeft tsLeft := by omega
  obtain ⟨hout, hinv'⟩ := hinv.copy (min pLeft tsLeft) hsz
  rw [hout]
  by_cases hc : pLeft - min pLeft tsLeft > 0 ∧ offset + min pLeft tsLeft < corEnd
  · rw [if_pos hc]
    have hne' : R.drop (min pLeft tsLeft) ≠ [] := by
      intro hn
      have := (hinv'.nil_iff).1 hn
      omega
    obtain ⟨p', c', o', t', heq, hinv''⟩ :=
      ih packet cc (offset + min pLeft tsLeft) (tsLeft - min pLeft tsLeft) (pLeft - min pLeft tsLeft)
        (acc ++ R.take (min pLeft tsLeft)) (R.drop (min pLeft tsLeft)) hinv' hne' hc.1 (by omega)
    refine ⟨p', c', o', t', ?_, ?_⟩
    · rw [heq, List.append_assoc, ← List.take_add]
      have : min pLeft tsLeft + (pLeft - min pLeft tsLeft) = pLeft := by omega
      rw [this]
    · rw [List.drop_drop] at hinv''
      have : min pLeft tsLeft + (pLeft - min pLeft tsLeft) = pLeft := by omega
      rw [this] at hinv''
      exact hinv''
  · rw [if_neg hc]
    refine ⟨packet, cc, offset + min pLeft tsLeft, tsLeft - min pLeft tsLeft, ?_, ?_⟩
    · by_cases hle : pLeft ≤ tsLeft
      · rw [Nat.min_eq_left hle]
      · -- the TS packet and the PES packet end here
        have hnil : R.drop (min pLeft tsLeft) = [] := (hinv'.nil_iff).2 (by omega)
        have hlen : R.length ≤ min pLeft tsLeft := List.drop_eq_nil_iff.1 hnil
        rw [List.take_of_length_le hlen, List.take_of_length_le (by omega)]
    · by_cases hle : pLeft ≤ tsLeft
      · rw [Nat.min_eq_left hle] at hinv' ⊢; exact hinv'
      · have hnil : R.drop (min pLeft tsLeft) = [] := (hinv'.nil_iff).2 (by omega)
        have hlen : R.length ≤ min pLeft tsLeft := List.drop_eq_nil_iff.1 hnil
        have : R.drop pLeft = R.drop (min pLeft tsLeft) := by
          rw [hnil]; exact List.drop_of_length_le (by omega)
        rw [this]; exact hinv'

/-- the `do ... while` of the TS branch with `fuel > p_left`: emits the next `p_left` bytes of
    the TS packet sequence (or all that is left) and re-establishes the invariant -/
theorem corTsLoop_spec (pid corEnd ccEnd : Nat) : ∀ fuel, LoopSpec pid corEnd ccEnd fuel := by
  intro fuel
  induction fuel with
  | zero => intro packet cc offset tsLeft pLeft acc R _ _ _ hf; omega
  | succ fuel ih =>
    intro packet cc offset tsLeft pLeft acc R hinv hne hp hf
    by_cases hts : tsLeft = 0
    · subst hts
      rw [corTsLoop_zero_tsLeft]
      exact loopSpec_step_pos pid corEnd ccEnd fuel ih _ _ _ 188 pLeft acc R (hinv.header hne) (by omega) hp hf
    · exact loopSpec_step_pos pid corEnd ccEnd fuel ih packet cc offset tsLeft pLeft acc R hinv hts hp hf

end Zvbi.Mux
