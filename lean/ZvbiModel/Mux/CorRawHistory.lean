import ZvbiModel.Mux.CorRaw
/-!
# `vbi_dvb_mux_cor` = `vbi_dvb_mux_feed` over whole histories, frames with raw VBI data

The history version of `Mux/CorHistory.lean` for the raw-capable model: an application which converts every frame (sliced
lines and raw line requests, `raw` / `sp` NULL or given, valid or invalid sampling parameters) with the `vbi_dvb_mux_cor`
loop and one which uses `vbi_dvb_mux_feed` produce the same byte stream over any history and end in the same configuration,
continuity counter and raw-line state.  `OpR`, `stepR`, `runR`, `corStepR`, `corRunR` are the two applications.  Core Lean only.
-/
namespace Zvbi.Mux
open Zvbi.Mux.EnParse

/-- an application step with raw VBI data: a frame with `raw` / `sp`, or a configuration change -/
inductive OpR
  | frame (lines : List Sliced) (mask : Nat) (raw : Option Bytes) (sp : Option Sp) (pts : Nat)
  | dataId (d : Nat)
  | size (a b : Nat)

/-- the application that uses `vbi_dvb_mux_feed` with a callback -/
def stepR (keep : Bool) (m : RMux) : OpR → RMux × Bytes
  | .frame lines mask raw sp pts => ((feedR keep m lines mask raw sp pts).1, (feedR keep m lines mask raw sp pts).2.bytes)
  | .dataId d => ({ m with mux := (setDataIdentifier m.mux d).1 }, [])
  | .size a b => ({ m with mux := setPesPacketSize m.mux a b }, [])

def runR (keep : Bool) (m : RMux) : List OpR → RMux × Bytes
  | [] => (m, [])
  | op :: ops =>
    let r1 := stepR keep m op
    let r2 := runR keep r1.1 ops
    (r2.1, r1.2 ++ r2.2)

/-- the application that uses the `vbi_dvb_mux_cor` loop, each frame with its own list of buffer sizes (used cyclically) -/
def corStepR (keep : Bool) (fuel : Nat) (m : RMux) : OpR × List Nat → RMux × Bytes
  | (.frame lines mask raw sp pts, sizes) =>
    ((corAllR keep sizes lines mask raw sp pts fuel m 0 []).1, (corAllR keep sizes lines mask raw sp pts fuel m 0 []).2.2.2.2.2.1)
  | (.dataId d, _) => ({ m with mux := (setDataIdentifier m.mux d).1 }, [])
  | (.size a b, _) => ({ m with mux := setPesPacketSize m.mux a b }, [])

def corRunR (keep : Bool) (fuel : Nat) (m : RMux) : List (OpR × List Nat) → RMux × Bytes
  | [] => (m, [])
  | op :: ops =>
    let r1 := corStepR keep fuel m op
    let r2 := corRunR keep fuel r1.1 ops
    (r2.1, r1.2 ++ r2.2)

/-- frames as the `cor` API takes them: non-empty, well-formed; buffer sizes positive -/
def CorOpROK : OpR × List Nat → Prop
  | (.frame lines _ _ _ _, sizes) => lines ≠ [] ∧ (∀ s ∈ lines, Sliced.WF s) ∧ sizes ≠ [] ∧ ∀ s ∈ sizes, 0 < s
  | _ => True

/-- the `cor` application's multiplexer `m1` and the `feed` application's `m2` agree on everything a later call depends on -/
structure RelR (m1 m2 : RMux) : Prop where
  idle : Idle m1.mux
  cfg : m1.mux.cfg = m2.mux.cfg
  cc : m1.mux.cc = m2.mux.cc
  raw : m1.raw = m2.raw
  left : m1.raw.left = 0
  ok : CfgOK m2.mux.cfg

theorem feedR_congr (keep : Bool) (m1 m2 : RMux) (hcfg : m1.mux.cfg = m2.mux.cfg) (hcc : m1.mux.cc = m2.mux.cc)
    (hraw : m1.raw = m2.raw) (lines : List Sliced) (mask : Nat) (raw : Option Bytes) (sp : Option Sp) (pts : Nat) :
    (feedR keep m1 lines mask raw sp pts).2.ok = (feedR keep m2 lines mask raw sp pts).2.ok
    ∧ (feedR keep m1 lines mask raw sp pts).2.bytes = (feedR keep m2 lines mask raw sp pts).2.bytes
    ∧ (feedR keep m1 lines mask raw sp pts).1.mux.cfg = (feedR keep m2 lines mask raw sp pts).1.mux.cfg
    ∧ (feedR keep m1 lines mask raw sp pts).1.mux.cc = (feedR keep m2 lines mask raw sp pts).1.mux.cc
    ∧ (feedR keep m1 lines mask raw sp pts).1.raw = (feedR keep m2 lines mask raw sp pts).1.raw := by
  have hgo : (feedR.go keep m1 lines mask raw sp pts).2.ok = (feedR.go keep m2 lines mask raw sp pts).2.ok
      ∧ (feedR.go keep m1 lines mask raw sp pts).2.bytes = (feedR.go keep m2 lines mask raw sp pts).2.bytes
      ∧ (feedR.go keep m1 lines mask raw sp pts).1.mux.cfg = (feedR.go keep m2 lines mask raw sp pts).1.mux.cfg
      ∧ (feedR.go keep m1 lines mask raw sp pts).1.mux.cc = (feedR.go keep m2 lines mask raw sp pts).1.mux.cc
      ∧ (feedR.go keep m1 lines mask raw sp pts).1.raw = (feedR.go keep m2 lines mask raw sp pts).1.raw := by
    unfold feedR.go
    simp only [dropPending_cfg, dropPending_cc, ← hcfg, ← hcc, ← hraw]
    cases hg : generatePesR keep m1.mux.cfg m1.raw lines mask raw sp pts with
    | error e => obtain ⟨e1, e2⟩ := e; simp [dropPending_cfg, dropPending_cc, hcfg, hcc]
    | ok r =>
      obtain ⟨pes, left, st'⟩ := r
      simp only []
      by_cases hl : left ≠ []
      · simp [hl, dropPending_cfg, dropPending_cc, hcfg, hcc]
      · by_cases hp : m1.mux.cfg.pid = 0
        · have hp2 : m2.mux.cfg.pid = 0 := by rw [← hcfg]; exact hp
          simp [hl, hp, hp2, dropPending_cfg, dropPending_cc, hcfg, hcc]
        · have hp2 : ¬ m2.mux.cfg.pid = 0 := by rw [← hcfg]; exact hp
          simp [hl, hp, hp2, dropPending_cfg, dropPending_cc, hcfg, hcc]
  unfold feedR
  cases sp with
  | none => exact hgo
  | some sp' =>
    simp only []
    by_cases hv : ¬ validSp sp' = true
    · simp only [if_pos hv]; exact ⟨trivial, trivial, hcfg, hcc, hraw⟩
    · simp only [if_neg hv]; exact hgo

/-- the callback bytes of an accepted frame: at most 356 TS packets -/
theorem feedR_bytes_length_le (keep : Bool) (m : RMux) (hc : CfgOK m.mux.cfg) (hraw : m.raw.left = 0) (lines : List Sliced)
    (hwf : ∀ s ∈ lines, Sliced.WF s) (mask : Nat) (raw : Option Bytes) (sp : Option Sp) (pts : Nat)
    (hok : (feedR keep m lines mask raw sp pts).2.ok = true) :
    (feedR keep m lines mask raw sp pts).2.bytes.length ≤ 66928
    ∧ (feedR keep m lines mask raw sp pts).1.raw.left = 0 := by
  obtain ⟨hsp, pes, st', hg, _, hst, hpes, hts⟩ := feedR_accepted keep m lines mask raw sp pts hok
  obtain ⟨_, h184, hmin, hmax, _, hleft⟩ := generatePesR_ok keep m.mux.cfg hc m.raw hraw lines mask raw sp hsp pts hwf pes st' hg
  have hpos : 0 < pes.length := by have := hc.min184; omega
  have hM := hc.max
  refine ⟨?_, by rw [hst]; exact hleft⟩
  by_cases hp : m.mux.cfg.pid = 0
  · have hB : (feedR keep m lines mask raw sp pts).2.bytes = pes := by simp [FeedROut.bytes, hpes hp]
    rw [hB]; omega
  · have hB : (feedR keep m lines mask raw sp pts).2.bytes
        = (tsLoop m.mux.cfg.pid (pes.length / 184) true m.mux.cc pes).flatten := by
      simp only [FeedROut.bytes, hts hp, filterMap_id_map_some]
      rw [tsPackets_eq _ _ _ h184 hpos]
    rw [hB, tsLoop_flatten_length _ _ _ _ _ (by omega)]
    omega

/-- a frame `feed` rejects (sampling parameters valid or absent), offered to `cor` in the idle state -/
theorem corR_reject_state (keep : Bool) (m : RMux) (lines : List Sliced) (mask : Nat) (raw : Option Bytes) (sp : Option Sp)
    (pts : Nat) (size : Nat) (hb : size ≠ 0) (hsp : SpValid sp) (hi : Idle m.mux) (hl : lines ≠ [])
    (hrej : (feedR keep m lines mask raw sp pts).2.ok = false) :
    (corR keep m size lines mask raw sp pts).2.res.ok = false ∧ (corR keep m size lines mask raw sp pts).2.res.out = []
    ∧ (corR keep m size lines mask raw sp pts).1.raw = (feedR keep m lines mask raw sp pts).1.raw
    ∧ (corR keep m size lines mask raw sp pts).1.raw.left = 0
    ∧ Idle (corR keep m size lines mask raw sp pts).1.mux
    ∧ (corR keep m size lines mask raw sp pts).1.mux.cfg = m.mux.cfg
    ∧ (corR keep m size lines mask raw sp pts).1.mux.cc = m.mux.cc
    ∧ (feedR keep m lines mask raw sp pts).1.mux.cfg = m.mux.cfg
    ∧ (feedR keep m lines mask raw sp pts).1.mux.cc = m.mux.cc
    ∧ (feedR keep m lines mask raw sp pts).2.bytes = [] := by
  have hfeed : feedR keep m lines mask raw sp pts = feedR.go keep m lines mask raw sp pts := by
    unfold feedR
    cases sp with
    | none => rfl
    | some sp' => simp only []; rw [if_neg (by simp [hsp sp' rfl])]
  rw [hfeed] at hrej ⊢
  have hn : lines.length ≠ 0 := fun h => hl (List.eq_nil_of_length_eq_zero h)
  have hi' : m.mux.corOffset ≥ m.mux.corEnd := hi
  unfold corR
  simp only [if_neg hb, if_neg (spTest_false sp hsp), if_pos hi', if_neg hn]
  unfold feedR.go at hrej ⊢
  simp only [dropPending_cfg] at hrej ⊢
  cases hgen : generatePesR keep m.mux.cfg m.raw lines mask raw sp pts with
  | error e =>
    obtain ⟨e1, off⟩ := e
    try simp only []
    refine ⟨?_, ?_, ?_, ?_, ?_, ?_, ?_, ?_, ?_, ?_⟩ <;>
      first | trivial | rfl | exact dropPending_cfg _ | exact dropPending_cc _ | (show (0 : Nat) ≤ m.mux.corOffset; omega)
  | ok r =>
    obtain ⟨pes, left, st'⟩ := r
    rw [hgen] at hrej
    try simp only [] at hrej ⊢
    by_cases hleft : left ≠ []
    · rw [if_pos hleft, if_pos hleft]
      refine ⟨?_, ?_, ?_, ?_, ?_, ?_, ?_, ?_, ?_, ?_⟩ <;>
        first | trivial | rfl | exact dropPending_cfg _ | exact dropPending_cc _ | (show (0 : Nat) ≤ m.mux.corOffset; omega)
    · rw [if_neg hleft] at hrej
      by_cases hp : m.mux.cfg.pid = 0
      · rw [if_pos hp] at hrej; simp at hrej
      · rw [if_neg hp] at hrej; simp at hrej

/-- one frame through the `cor` loop from `m1` = one `feed` call on `m2` -/
theorem corStepR_frame (keep : Bool) (fuel : Nat) (hfuel : 66928 ≤ fuel) (m1 m2 : RMux) (h : RelR m1 m2)
    (lines : List Sliced) (mask : Nat) (raw : Option Bytes) (sp : Option Sp) (pts : Nat) (sizes : List Nat)
    (hok : CorOpROK (.frame lines mask raw sp pts, sizes)) :
    (corStepR keep fuel m1 (.frame lines mask raw sp pts, sizes)).2 = (stepR keep m2 (.frame lines mask raw sp pts)).2
    ∧ RelR (corStepR keep fuel m1 (.frame lines mask raw sp pts, sizes)).1 (stepR keep m2 (.frame lines mask raw sp pts)).1 := by
  obtain ⟨hl, hwf, hsz, hpos⟩ := hok
  obtain ⟨e0, e1, e2, e3, e4⟩ := feedR_congr keep m1 m2 h.cfg h.cc h.raw lines mask raw sp pts
  have hc1 : CfgOK m1.mux.cfg := by rw [h.cfg]; exact h.ok
  obtain ⟨fuel', rfl⟩ : ∃ f, fuel = f + 1 := ⟨fuel - 1, by omega⟩
  have hlen : 0 < sizes.length := List.length_pos_iff.2 hsz
  have hs : 0 < sizes.getD (0 % sizes.length) 0 := getD_pos sizes hpos _ (Nat.mod_lt _ hlen)
  show (corAllR keep sizes lines mask raw sp pts (fuel' + 1) m1 0 []).2.2.2.2.2.1 = (feedR keep m2 lines mask raw sp pts).2.bytes
    ∧ RelR (corAllR keep sizes lines mask raw sp pts (fuel' + 1) m1 0 []).1 (feedR keep m2 lines mask raw sp pts).1
  by_cases hv : SpValid sp
  · cases hacc : (feedR keep m1 lines mask raw sp pts).2.ok with
    | true =>
      obtain ⟨hb, hleft⟩ := feedR_bytes_length_le keep m1 hc1 h.left lines hwf mask raw sp pts hacc
      obtain ⟨hsp, hr, hne, hfc⟩ := readyR_of_feedR_ok keep m1 h.idle hc1 h.left lines hl hwf mask raw sp pts hacc
      obtain ⟨m', c', heq, _, _, hidle, hcfg', hcc', hraw'⟩ :=
        corAllR_ready keep sizes hsz hpos lines hl mask raw sp hsp pts _ _ (fuel' + 1) m1 0 [] _ hr hne (by omega)
      rw [heq]
      simp only [List.nil_append]
      exact ⟨e1, ⟨hidle, by rw [hcfg', ← e2, hfc], by rw [hcc', e3], by rw [hraw', e4], by rw [hraw']; exact hleft,
        by rw [← e2, hfc]; exact hc1⟩⟩
    | false =>
      obtain ⟨r1, r2, r3, r4, r5, r6, r7, r8, r9, r10⟩ :=
        corR_reject_state keep m1 lines mask raw sp pts (sizes.getD (0 % sizes.length) 0) (by omega) hv h.idle hl hacc
      have hall : (corAllR keep sizes lines mask raw sp pts (fuel' + 1) m1 0 []).1
            = (corR keep m1 (sizes.getD (0 % sizes.length) 0) lines mask raw sp pts).1
          ∧ (corAllR keep sizes lines mask raw sp pts (fuel' + 1) m1 0 []).2.2.2.2.2.1 = [] := by
        rw [corAllR]
        simp only [r1, r2, Bool.false_eq_true, false_and, if_false, List.append_nil, and_self]
      rw [hall.1, hall.2, ← e1, r10]
      exact ⟨rfl, ⟨r5, by rw [r6, ← e2, r8], by rw [r7, ← e3, r9], by rw [r3, e4], r4, by rw [← e2, r8]; exact hc1⟩⟩
  · -- invalid sampling parameters: FALSE from both, nothing changes
    cases sp with
    | none => exact absurd (fun sp' hx => by cases hx) hv
    | some sp' =>
      have hf : validSp sp' = false := by
        cases hvs : validSp sp' with
        | false => rfl
        | true => exact absurd (fun sp'' hx => by injection hx with hx; subst hx; exact hvs) hv
      obtain ⟨i1, i2⟩ := invalid_sp keep m1 lines mask raw sp' pts hf (sizes.getD (0 % sizes.length) 0)
      obtain ⟨j1, _⟩ := invalid_sp keep m2 lines mask raw sp' pts hf 1
      have hall : (corAllR keep sizes lines mask raw (some sp') pts (fuel' + 1) m1 0 []).1 = m1
          ∧ (corAllR keep sizes lines mask raw (some sp') pts (fuel' + 1) m1 0 []).2.2.2.2.2.1 = [] := by
        rw [corAllR, i2]
        simp only [Bool.false_eq_true, false_and, if_false, List.append_nil, and_self]
      rw [hall.1, hall.2, j1]
      exact ⟨rfl, h⟩

/-- **whole histories with raw VBI data.** -/
theorem cor_history_equals_feed_raw_lemma (keep : Bool) (fuel : Nat) (hfuel : 66928 ≤ fuel) (ops : List (OpR × List Nat))
    (hops : ∀ op ∈ ops, CorOpROK op) :
    ∀ m1 m2 : RMux, RelR m1 m2 →
      (corRunR keep fuel m1 ops).2 = (runR keep m2 (ops.map Prod.fst)).2
      ∧ RelR (corRunR keep fuel m1 ops).1 (runR keep m2 (ops.map Prod.fst)).1 := by
  induction ops with
  | nil => intro m1 m2 h; exact ⟨rfl, h⟩
  | cons op ops ih =>
    intro m1 m2 h
    have hok := hops op (List.mem_cons_self ..)
    have ih' := ih (fun o ho => hops o (List.mem_cons_of_mem _ ho))
    obtain ⟨o, sizes⟩ := op
    have key : (corStepR keep fuel m1 (o, sizes)).2 = (stepR keep m2 o).2
        ∧ RelR (corStepR keep fuel m1 (o, sizes)).1 (stepR keep m2 o).1 := by
      cases o with
      | frame lines mask raw sp pts => exact corStepR_frame keep fuel hfuel m1 m2 h lines mask raw sp pts sizes hok
      | dataId d =>
        have hidle : Idle (setDataIdentifier m1.mux d).1 := by
          unfold Idle setDataIdentifier; split <;> exact h.idle
        have hcc : (setDataIdentifier m1.mux d).1.cc = (setDataIdentifier m2.mux d).1.cc := by
          unfold setDataIdentifier; split <;> exact h.cc
        refine ⟨rfl, ⟨hidle, ?_, hcc, h.raw, h.left, ?_⟩⟩
        · show (setDataIdentifier m1.mux d).1.cfg = (setDataIdentifier m2.mux d).1.cfg
          simp only [setDataIdentifier]
          split
          · simp only [h.cfg]
          · exact h.cfg
        · exact (step_cfg m2.mux (.dataId d) h.ok).1
      | size a b =>
        refine ⟨rfl, ⟨h.idle, ?_, h.cc, h.raw, h.left, ?_⟩⟩
        · show (setPesPacketSize m1.mux a b).cfg = (setPesPacketSize m2.mux a b).cfg
          simp only [setPesPacketSize, h.cfg]
        · exact (step_cfg m2.mux (.size a b) h.ok).1
    obtain ⟨k1, k2⟩ := key
    obtain ⟨j1, j2⟩ := ih' _ _ k2
    simp only [corRunR, List.map_cons, runR]
    exact ⟨by rw [k1, j1], j2⟩

end Zvbi.Mux
